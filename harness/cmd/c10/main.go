// Differential + oracle harness for C10 (overloaded functions dispatch on argument types).
//
// Part A (dispatch, property oracle): generated overload sets × ALL listing orders × styles
//
//	(function literals, named functions, mixed, methods `(T).name`, binary operators) are
//	compiled by the real XGo compiler (one program per run) and run; every candidate records its
//	identity, every call reports which candidate ran.
//
// Part B (encoding tie): the `Gopo_…` constant and the `name__<digit>` functions found in the
//
//	generated Go of every declaration vs the model's `encode`; rejected declarations (invalid
//	method / func / recv, 37 literal candidates) vs the model's error outcome.
//
// Part C (decoding tie): gogen.InitThisGopPkgEx called directly on synthetic package scopes vs
//
//	the model's `decodeConst` / `decodeNoConst`.
package main

import (
	"fmt"
	"go/ast"
	"go/constant"
	goparser "go/parser"
	gotoken "go/token"
	"go/types"
	"io"
	"log"
	"os"
	"path/filepath"
	"regexp"
	"sort"
	"strconv"
	"strings"
	"time"

	"github.com/goplus/gogen"
	"verifharness/compcx"
	"verifharness/vh"
	"verifharness/xrun"
)

// ---------------------------------------------------------------------------------------------
// type universe (mirrors Model/Overload.lean: Base, Lit, Under, Ty)

type under struct {
	code, src string
	lit       bool
}

var unders = []under{
	{"bI", "int", false}, {"bS", "string", false}, {"bF", "float64", false}, {"bB", "bool", false},
	{"lSI", "[]int", true}, {"lSS", "[]string", true}, {"lFII", "func(int) int", true},
	{"lFS", "func(string)", true}, {"lMSI", "map[string]int", true}, {"lPI", "*int", true},
}

// named types of the prelude: id -> index into unders
var namedUnder = map[int]int{1: 0, 2: 0, 3: 1, 4: 2, 5: 4, 6: 4, 7: 6, 8: 8, 9: 3, 10: 9, 11: 5, 12: 7}

const recvID = 99 // the receiver struct type of operator sets, represented as `named 99 bool` in the model

type ty struct {
	named int // 0: not a user-defined type
	u     int
	q     string // for recvID: the Go name of the struct type
}

func (t ty) code() string {
	if t.named != 0 {
		return fmt.Sprintf("n%d=%s", t.named, unders[t.u].code)
	}
	return unders[t.u].code
}
func (t ty) src() string {
	if t.named == recvID {
		return t.q
	}
	if t.named != 0 {
		return fmt.Sprintf("N%d", t.named)
	}
	return unders[t.u].src
}
func (t ty) varName() string {
	if t.named == recvID {
		return "v" + t.q
	}
	if t.named != 0 {
		return fmt.Sprintf("vN%d", t.named)
	}
	return "v" + unders[t.u].code
}
func (t ty) isLit() bool { return t.named == 0 && unders[t.u].lit }
func (t ty) eq(o ty) bool {
	return t.named == o.named && t.u == o.u
}

// accepts / overlap: the Go twins of the Lean definitions (cross-checked through the driver
// on every case and against go/types below).
func accepts(a, p ty) bool { return a.eq(p) || (a.u == p.u && (a.isLit() || p.isLit())) }
func overlap(p, q ty) bool { return p.eq(q) || (p.u == q.u && unders[p.u].lit) }

func acceptsAll(as, ps []ty) bool {
	if len(as) != len(ps) {
		return false
	}
	for i := range as {
		if !accepts(as[i], ps[i]) {
			return false
		}
	}
	return true
}
func overlapAll(ps, qs []ty) bool {
	if len(ps) != len(qs) {
		return false
	}
	for i := range ps {
		if !overlap(ps[i], qs[i]) {
			return false
		}
	}
	return true
}

type cand struct {
	id     int
	params []ty
	kind   byte // 'L' literal, 'I' named function, 'M' method
}

func pairwiseDistinguishable(cs []cand) bool {
	for i := range cs {
		for j := i + 1; j < len(cs); j++ {
			if overlapAll(cs[i].params, cs[j].params) {
				return false
			}
		}
	}
	return true
}

// independent acceptance through go/types
var (
	gtPkg   = types.NewPackage("p", "p")
	gtNamed = map[int]*types.Named{}
)

func gtUnder(u int) types.Type {
	I, S := types.Typ[types.Int], types.Typ[types.String]
	v := func(t types.Type) *types.Var { return types.NewParam(0, nil, "", t) }
	switch unders[u].code {
	case "bI":
		return I
	case "bS":
		return S
	case "bF":
		return types.Typ[types.Float64]
	case "bB":
		return types.Typ[types.Bool]
	case "lSI":
		return types.NewSlice(I)
	case "lSS":
		return types.NewSlice(S)
	case "lFII":
		return types.NewSignatureType(nil, nil, nil, types.NewTuple(v(I)), types.NewTuple(v(I)), false)
	case "lFS":
		return types.NewSignatureType(nil, nil, nil, types.NewTuple(v(S)), nil, false)
	case "lMSI":
		return types.NewMap(S, I)
	case "lPI":
		return types.NewPointer(I)
	}
	panic("under")
}
func gtType(t ty) types.Type {
	if t.named == 0 {
		return gtUnder(t.u)
	}
	if n, ok := gtNamed[t.named]; ok {
		return n
	}
	var ut types.Type
	if t.named == recvID {
		ut = types.NewStruct(nil, nil)
	} else {
		ut = gtUnder(t.u)
	}
	n := types.NewNamed(types.NewTypeName(0, gtPkg, fmt.Sprintf("N%d", t.named), nil), ut, nil)
	gtNamed[t.named] = n
	return n
}
func goAcceptsAll(as, ps []ty) bool {
	if len(as) != len(ps) {
		return false
	}
	for i := range as {
		if !types.AssignableTo(gtType(as[i]), gtType(ps[i])) {
			return false
		}
	}
	return true
}

// ---------------------------------------------------------------------------------------------
// generation of overload sets

const (
	styleLit = iota
	styleNamed
	styleMixed
	styleMethod
	styleOp
	styleClass // overload declared in a normal class file K<set>.gox (d.IsClass)
)

var styleNames = []string{"lit", "named", "mixed", "method", "op", "class"}

type oset struct {
	idx     int
	style   int
	nameFmt string // overloaded name (set index, permutation), chosen independently of recvFmt
	recvFmt string // receiver / class type name
	layout  int    // where the overload declarations are written relative to the type and the candidates
	cands   []cand
	calls   [][]ty
	dist    bool
	op      string
}

func allTypes() []ty {
	var ts []ty
	for i := range unders {
		ts = append(ts, ty{u: i})
	}
	ids := make([]int, 0, len(namedUnder))
	for id := range namedUnder {
		ids = append(ids, id)
	}
	sort.Ints(ids)
	for _, id := range ids {
		ts = append(ts, ty{named: id, u: namedUnder[id]})
	}
	return ts
}

var universe = allTypes()

func randTy(r *vh.Rand) ty { return universe[r.Intn(len(universe))] }

var binOps = []string{"+", "-", "*", "/", "%", "&", "|", "^", "<<", ">>", "&^", "==", "!=", "<", "<=", ">", ">="}

// force fixes some dimensions of a generated set (coverage sets); nil = all random.
type force struct {
	style            int
	nameFmt, recvFmt string
	layout           int
	n                int
}

func genSet(r *vh.Rand, idx int, tier string) oset { return genSetF(r, idx, tier, nil) }

func genSetF(r *vh.Rand, idx int, tier string, fc *force) oset {
	s := oset{idx: idx, style: r.Intn(6)}
	if fc != nil {
		s.style = fc.style
	}
	// naming, declaration order and file layout are independent random dimensions
	s.nameFmt = nameFmts[r.Intn(len(nameFmts))]
	switch s.style {
	case styleOp:
		s.recvFmt = opRecvFmts[r.Intn(len(opRecvFmts))]
	case styleClass:
		s.recvFmt = classRecvFmts[r.Intn(len(classRecvFmts))]
	default:
		s.recvFmt = recvFmts[r.Intn(len(recvFmts))]
	}
	s.layout = r.Intn(6)
	if fc != nil {
		s.nameFmt, s.layout = fc.nameFmt, fc.layout
		if fc.recvFmt != "" {
			s.recvFmt = fc.recvFmt
		}
	}
	wantDist := r.Chance(78)
	n := 2 + r.Intn(3)
	big := 6
	if tier == "thorough" {
		big = 15
	}
	if r.Chance(big) {
		n = 5
	}
	if fc != nil {
		n, wantDist = fc.n, true
	}
	if s.style == styleOp {
		s.op = binOps[r.Intn(len(binOps))]
		if n > 3 {
			n = 3
		}
	}
	for try := 0; ; try++ {
		s.cands = s.cands[:0]
		for i := 0; i < n; i++ {
			c := cand{id: i}
			switch s.style {
			case styleLit:
				c.kind = 'L'
			case styleNamed:
				c.kind = 'I'
			case styleMixed, styleClass:
				c.kind = "LI"[r.Intn(2)]
			case styleMethod:
				c.kind = 'M'
			case styleOp:
				c.kind = 'M'
				if r.Chance(30) {
					c.kind = 'I'
				}
			}
			if s.style == styleOp {
				q := ty{named: recvID, u: 3}
				if c.kind == 'M' {
					p := randTy(r)
					if r.Chance(15) {
						p = q
					}
					c.params = []ty{q, p}
				} else {
					c.params = []ty{randTy(r), q}
				}
			} else {
				ar := r.Intn(4)
				if r.Chance(50) {
					ar = 1
				}
				for k := 0; k < ar; k++ {
					c.params = append(c.params, randTy(r))
				}
			}
			s.cands = append(s.cands, c)
		}
		s.dist = pairwiseDistinguishable(s.cands)
		if s.dist == wantDist || try > 60 {
			break
		}
	}
	// calls: the exact parameter types of each candidate and assignable variants
	seen := map[string]bool{}
	add := func(as []ty) {
		k := tysCode(as)
		if !seen[k] {
			seen[k] = true
			s.calls = append(s.calls, as)
		}
	}
	for _, c := range s.cands {
		add(c.params)
		if r.Chance(60) {
			as := append([]ty{}, c.params...)
			for i, p := range as {
				if p.named == recvID {
					continue
				}
				// another type assignable to p: lit <-> named over the same literal type
				var alts []ty
				for _, a := range universe {
					if !a.eq(p) && accepts(a, p) {
						alts = append(alts, a)
					}
				}
				if len(alts) > 0 && r.Chance(60) {
					as[i] = alts[r.Intn(len(alts))]
				}
			}
			add(as)
		}
	}
	return s
}

func tysCode(ts []ty) string {
	cs := make([]string, len(ts))
	for i, t := range ts {
		cs[i] = t.code()
	}
	return strings.Join(cs, ",")
}

func candsCode(cs []cand) string {
	parts := make([]string, len(cs))
	for i, c := range cs {
		parts[i] = fmt.Sprintf("%d:%s", c.id, tysCode(c.params))
	}
	return strings.Join(parts, "|")
}

func permutations(n int) [][]int {
	var res [][]int
	p := make([]int, n)
	for i := range p {
		p[i] = i
	}
	var rec func(k int)
	rec = func(k int) {
		if k == n {
			res = append(res, append([]int{}, p...))
			return
		}
		for i := k; i < n; i++ {
			p[k], p[i] = p[i], p[k]
			rec(k + 1)
			p[k], p[i] = p[i], p[k]
		}
	}
	rec(0)
	return res
}

// coverageSets: small distinguishable sets that enumerate the naming and layout dimensions
// systematically, so that every run has, for methods, every receiver-name shape with every class of
// overloaded name (no '_', inner '_', leading '_') and every layout; for operators and plain
// functions every layout; for class files both declaration orders and both file-name forms.
func coverageSets(r *vh.Rand, start int, tier string) []*oset {
	var res []*oset
	idx := start
	add := func(fc force) {
		s := genSetF(r.Fork(idx), idx, tier, &fc)
		res = append(res, &s)
		idx++
	}
	nameClasses := []string{"ov%dp%d", "ov_%dp%d", "_ov%dp%d", "Ov%dP%d"}
	k := 0
	for _, rf := range recvFmts[:6] {
		for _, nf := range nameClasses[:3] {
			add(force{style: styleMethod, nameFmt: nf, recvFmt: rf, layout: k % 6, n: 2 + k%2})
			k++
		}
	}
	for i, rf := range opRecvFmts[:4] {
		add(force{style: styleOp, nameFmt: nameClasses[i%4], recvFmt: rf, layout: i % 6, n: 2})
		add(force{style: styleOp, nameFmt: nameClasses[(i+1)%4], recvFmt: rf, layout: (i + 3) % 6, n: 3})
	}
	for l := 0; l < 6; l++ {
		add(force{style: []int{styleNamed, styleMixed, styleLit}[l%3], nameFmt: nameClasses[l%4], layout: l, n: 2})
	}
	for l := 0; l < 4; l++ {
		add(force{style: styleClass, nameFmt: nameClasses[l%4], recvFmt: classRecvFmts[l], layout: []int{0, 1, 3, 4}[l], n: 2})
	}
	return res
}

// ---------------------------------------------------------------------------------------------
// program text

func prelude() string {
	var b strings.Builder
	ids := make([]int, 0)
	for id := range namedUnder {
		ids = append(ids, id)
	}
	sort.Ints(ids)
	for _, id := range ids {
		fmt.Fprintf(&b, "type N%d %s\n", id, unders[namedUnder[id]].src)
	}
	for i, u := range unders {
		fmt.Fprintf(&b, "var %s %s\n", ty{u: i}.varName(), u.src)
	}
	for _, id := range ids {
		fmt.Fprintf(&b, "var vN%d N%d\n", id, id)
	}
	b.WriteString("var hit int\n\n")
	return b.String()
}

// name shapes: with and without '_', leading '_', mixed case, digits (no "__", no trailing '_':
// gogen splits Gopo_ constants at "__")
var nameFmts = []string{"ov%dp%d", "ov_%dp%d", "_ov%dp%d", "Ov%dP%d", "o%d_v_%d", "x%dY%d", "ov%dp%d"}
var recvFmts = []string{"R%d", "R_%d", "_r%d", "rcv%dT", "my_R_%d", "r%d", "R%d"}
var opRecvFmts = []string{"Q%dp%d", "Q_%dp%d", "_q%dp%d", "q%dP_%d", "Q%dp%d"}

// a normal class file <Class>[_<anything>].gox: the class name is the part before the last '_'
var classRecvFmts = []string{"K%d", "kls%d", "Kx%dY", "k%d"}

func (s *oset) declName(p int) string {
	if s.nameFmt == "" {
		return fmt.Sprintf("ov%dp%d", s.idx, p)
	}
	return fmt.Sprintf(s.nameFmt, s.idx, p)
}
func (s *oset) recvName(p int) string {
	f := s.recvFmt
	switch s.style {
	case styleClass:
		if f == "" {
			f = "K%d"
		}
		return fmt.Sprintf(f, s.idx)
	case styleOp:
		if f == "" {
			f = "Q%dp%d"
		}
		return fmt.Sprintf(f, s.idx, p)
	}
	if f == "" {
		f = "R%d"
	}
	return fmt.Sprintf(f, s.idx)
}
func (s *oset) fnName(c cand, p int) string {
	if s.style == styleOp {
		return fmt.Sprintf("s%dp%dc%d", s.idx, p, c.id)
	}
	return fmt.Sprintf("s%dc%d", s.idx, c.id)
}

func paramList(ps []ty, q string) string {
	parts := make([]string, len(ps))
	for i, p := range ps {
		pp := p
		pp.q = q
		parts[i] = fmt.Sprintf("a%d %s", i, pp.src())
	}
	return strings.Join(parts, ", ")
}

// declText renders the declarations of one set for one listing order (perm k = order).
// Returns the text, the line offsets of the candidate lines are not needed on the success path.
func (s *oset) declText(k int, order []int) string {
	var b strings.Builder
	name := s.declName(k)
	switch s.style {
	case styleLit, styleNamed, styleMixed, styleClass:
		fmt.Fprintf(&b, "func %s = (\n", name)
		for _, ci := range order {
			c := s.cands[ci]
			if c.kind == 'L' {
				fmt.Fprintf(&b, "\tfunc(%s) { hit = %d }\n", paramList(c.params, ""), c.id)
			} else {
				fmt.Fprintf(&b, "\t%s\n", s.fnName(c, k))
			}
		}
		b.WriteString(")\n")
	case styleMethod:
		r := s.recvName(k)
		fmt.Fprintf(&b, "func (%s).%s = (\n", r, name)
		for _, ci := range order {
			fmt.Fprintf(&b, "\t(%s).%s\n", r, s.fnName(s.cands[ci], k))
		}
		b.WriteString(")\n")
	case styleOp:
		q := s.recvName(k)
		fmt.Fprintf(&b, "func (%s).%s = (\n", q, s.op)
		for _, ci := range order {
			c := s.cands[ci]
			if c.kind == 'M' {
				fmt.Fprintf(&b, "\t(%s).%s\n", q, s.fnName(c, k))
			} else {
				fmt.Fprintf(&b, "\t%s\n", s.fnName(c, k))
			}
		}
		b.WriteString(")\n")
	}
	return b.String()
}

// sharedText: the receiver types, variables and the named candidates (everything an overload
// declaration refers to).
func (s *oset) sharedText(nperms int) string {
	var b strings.Builder
	switch s.style {
	case styleOp:
		for k := 0; k < nperms; k++ {
			q := s.recvName(k)
			fmt.Fprintf(&b, "type %s struct{}\nvar v%s %s\n", q, q, q)
			for _, c := range s.cands {
				if c.kind == 'M' {
					pp := c.params[1]
					pp.q = q
					fmt.Fprintf(&b, "func (a %s) %s(b %s) %s { hit = %d; return a }\n", q, s.fnName(c, k), pp.src(), q, c.id)
				} else {
					fmt.Fprintf(&b, "func %s(a %s, b %s) %s { hit = %d; return b }\n", s.fnName(c, k), c.params[0].src(), q, q, c.id)
				}
			}
		}
	case styleNamed, styleMixed, styleClass:
		for _, c := range s.cands {
			if c.kind == 'I' {
				fmt.Fprintf(&b, "func %s(%s) { hit = %d }\n", s.fnName(c, 0), paramList(c.params, ""), c.id)
			}
		}
	case styleMethod:
		r := s.recvName(0)
		fmt.Fprintf(&b, "type %s struct{}\nvar v%s = &%s{}\n", r, r, r)
		for _, c := range s.cands {
			fmt.Fprintf(&b, "func (r *%s) %s(%s) { hit = %d }\n", r, s.fnName(c, 0), paramList(c.params, ""), c.id)
		}
	}
	return b.String()
}

func (s *oset) callText(k, ci int, args []ty) string {
	name := s.declName(k)
	vs := make([]string, len(args))
	for i, a := range args {
		aa := a
		aa.q = s.recvName(k)
		vs[i] = aa.varName()
	}
	var call string
	switch s.style {
	case styleMethod, styleClass:
		call = fmt.Sprintf("v%s.%s(%s)", s.recvName(k), name, strings.Join(vs, ", "))
	case styleOp:
		call = fmt.Sprintf("_ = %s %s %s", vs[0], s.op, vs[1])
	default:
		call = fmt.Sprintf("%s(%s)", name, strings.Join(vs, ", "))
	}
	return fmt.Sprintf("\thit = -1\n\t%s\n\techo \"R %d %d %d\", hit\n", call, s.idx, k, ci)
}

// text: part A (types, candidates), part B (the overload declarations, one per listing order),
// and the functions that call them.
func (s *oset) text(perms [][]int) (partA, partB, calls string) {
	var d, c strings.Builder
	for k, order := range perms {
		d.WriteString(s.declText(k, order))
		fmt.Fprintf(&c, "func calls%dp%d() {\n", s.idx, k)
		for ci, args := range s.calls {
			c.WriteString(s.callText(k, ci, args))
		}
		c.WriteString("}\n")
	}
	return s.sharedText(len(perms)), d.String(), c.String()
}

// program: the package as file name -> source.  Per set the overload declarations (part B) are
// written before or after the types/candidates (part A), in the same file or in a file that
// sorts before / after the file holding part A (layout); class-style sets live in <Class>.gox.
func program(sets []*oset, perms map[int][][]int) map[string]string {
	files := map[string]string{}
	var b strings.Builder
	b.WriteString(prelude())
	var main strings.Builder
	add := func(name, text string) { files[name] += text }
	for _, s := range sets {
		pa, pb, c := s.text(perms[s.idx])
		early, late := fmt.Sprintf("a%d.xgo", s.idx), fmt.Sprintf("z%d.xgo", s.idx)
		switch {
		case s.style == styleClass:
			if s.layout%2 == 1 {
				pa, pb = pb, pa
			}
			fname := s.recvName(0) + ".gox"
			if s.layout >= 3 {
				fname = s.recvName(0) + "_v.gox"
			}
			files[fname] = pa + pb
			fmt.Fprintf(&b, "var v%s = new(%s)\n", s.recvName(0), s.recvName(0))
		case s.layout == 1:
			b.WriteString(pb + pa)
		case s.layout == 2:
			b.WriteString(pa)
			add(early, pb)
		case s.layout == 3:
			b.WriteString(pa)
			add(late, pb)
		case s.layout == 4:
			add(late, pa)
			b.WriteString(pb)
		case s.layout == 5:
			add(late, pa)
			add(early, pb)
		default:
			b.WriteString(pa + pb)
		}
		b.WriteString(c)
		for k := range perms[s.idx] {
			fmt.Fprintf(&main, "calls%dp%d()\n", s.idx, k)
		}
	}
	b.WriteString("\n")
	b.WriteString(main.String())
	files["main.xgo"] = b.String()
	return files
}

func compileProgram(files map[string]string) ([]byte, error) { return compcx.CompileDir(files) }

// ---------------------------------------------------------------------------------------------
// case lines

func hx(s string) string { return vh.HexS(s) }

func (s *oset) encCase(k int, order []int) string {
	name := s.declName(k)
	recv := "none"
	isOp := "0"
	isClass := "0"
	switch s.style {
	case styleClass:
		recv = hx(s.recvName(k))
		isClass = "1"
	case styleMethod:
		recv = hx(s.recvName(k))
	case styleOp:
		recv = hx(s.recvName(k))
		name = s.op
		isOp = "1"
	}
	parts := make([]string, len(order))
	for i, ci := range order {
		c := s.cands[ci]
		switch {
		case c.kind == 'L':
			parts[i] = "L"
		case c.kind == 'M':
			parts[i] = "S:" + hx(s.recvName(k)) + ":" + hx(s.fnName(c, k))
		default:
			parts[i] = "I:" + hx(s.fnName(c, k))
		}
	}
	return fmt.Sprintf("c10enc\t%s\t%s\t%s\t%s\t%s", hx(name), recv, isOp, isClass, strings.Join(parts, ","))
}

func (s *oset) dispCase(order []int, args []ty) string {
	cs := make([]cand, len(order))
	for i, ci := range order {
		cs[i] = s.cands[ci]
	}
	return fmt.Sprintf("c10disp\t%s\t%s\tstyle=%s\tlayout=%d\tname=%s\trecv=%s", candsCode(cs), tysCode(args), styleNames[s.style], s.layout, s.nameFmt, s.recvFmt)
}

// what the generated Go contains for one declaration
type goFacts struct {
	consts map[string]string // Gopo* constants
	funcs  []string          // function / method names in source order
}

func parseGo(src []byte) (*goFacts, error) {
	fset := gotoken.NewFileSet()
	f, err := goparser.ParseFile(fset, "out.go", src, 0)
	if err != nil {
		return nil, err
	}
	g := &goFacts{consts: map[string]string{}}
	for _, d := range f.Decls {
		switch d := d.(type) {
		case *ast.GenDecl:
			if d.Tok != gotoken.CONST {
				continue
			}
			for _, sp := range d.Specs {
				vs := sp.(*ast.ValueSpec)
				for i, n := range vs.Names {
					if strings.HasPrefix(n.Name, "Gopo") && i < len(vs.Values) {
						if l, ok := vs.Values[i].(*ast.BasicLit); ok {
							v, _ := strconv.Unquote(l.Value)
							g.consts[n.Name] = v
						}
					}
				}
			}
		case *ast.FuncDecl:
			g.funcs = append(g.funcs, d.Name.Name)
		}
	}
	return g, nil
}

var goNameRe = regexp.MustCompile(`^Gopo_{1,2}`)

// implEnc reconstructs "ok lits=… gopo=…" for declaration `name` (receiver recv) from the Go output.
func implEnc(g *goFacts, declName, recv, opGoName string) string {
	var lits []string
	pre := declName + "__"
	for _, f := range g.funcs {
		if strings.HasPrefix(f, pre) && len(f) == len(pre)+1 {
			lits = append(lits, hx(f))
		}
	}
	gp := "none"
	// the constant of this declaration: Gopo_<name>, Gopo__<name>, Gopo_<recv>_<name>, Gopo__<recv>__<name>
	target := declName
	if opGoName != "" {
		target = opGoName
	}
	var keys []string
	for k := range g.consts {
		keys = append(keys, k)
	}
	sort.Strings(keys)
	for _, k := range keys {
		rest := goNameRe.ReplaceAllString(k, "")
		var want1, want2 string
		if recv == "" {
			want1, want2 = target, target
		} else {
			want1, want2 = recv+"_"+target, recv+"__"+target
		}
		if rest == want1 || rest == want2 {
			gp = hx(k) + ":" + hx(g.consts[k])
		}
	}
	return fmt.Sprintf("ok lits=%s gopo=%s", strings.Join(lits, ","), gp)
}

// ---------------------------------------------------------------------------------------------
// Part A + B driver

var opGoNames = map[string]string{"+": "Gop_Add", "-": "Gop_Sub", "*": "Gop_Mul", "/": "Gop_Quo", "%": "Gop_Rem",
	"&": "Gop_And", "|": "Gop_Or", "^": "Gop_Xor", "<<": "Gop_Lsh", ">>": "Gop_Rsh", "&^": "Gop_AndNot",
	"==": "Gop_EQ", "!=": "Gop_NE", "<": "Gop_LT", "<=": "Gop_LE", ">": "Gop_GT", ">=": "Gop_GE"}

func runSets(sets []*oset, o *vh.Out, workdir string) {
	perms := map[int][][]int{}
	for _, s := range sets {
		perms[s.idx] = permutations(len(s.cands))
	}
	src := program(sets, perms)
	out, err := compileProgram(src)
	if err != nil {
		// attribute: compile every set alone
		var good []*oset
		for _, s := range sets {
			one := program([]*oset{s}, perms)
			if _, e := compileProgram(one); e != nil {
				o.Oracle("compile-error-"+styleNames[s.style], s.dispCase(perms[s.idx][0], s.calls[0]),
					fmt.Sprintf("set %d cands=%s: %v", s.idx, candsCode(s.cands), firstLine(e.Error())))
				o.Count("set_compile_error")
				// still emit the case lines so that the model's view is recorded
				for _, order := range perms[s.idx] {
					for _, args := range s.calls {
						o.Case(s.dispCase(order, args), "COMPILE-ERROR", true)
					}
				}
			} else {
				good = append(good, s)
			}
		}
		if len(good) == len(sets) {
			o.Oracle("compile-error-whole-program", "program", firstLine(err.Error()))
			return
		}
		sets = good
		if len(sets) == 0 {
			return
		}
		src = program(sets, perms)
		if out, err = compileProgram(src); err != nil {
			o.Oracle("compile-error-whole-program", "program", firstLine(err.Error()))
			return
		}
	}
	g, perr := parseGo(out)
	if perr != nil {
		o.Oracle("generated-go-unparsable", "program", perr.Error())
		return
	}
	res, rerr := xrun.RunBatch(filepath.Join(workdir, "c10run"), [][]byte{out}, 60*time.Second)
	if rerr != nil || len(res) != 1 {
		fmt.Fprintln(os.Stderr, "RunBatch:", rerr)
		os.Exit(2)
	}
	r0 := res[0]
	if r0.BuildErr != "" || r0.Exit != 0 || r0.Timeout {
		os.WriteFile(filepath.Join(workdir, "c10_failed_main.xgo"), []byte(src["main.xgo"]), 0o644)
		o.Oracle("generated-go-does-not-run", "program", r0.String())
		return
	}
	hits := map[[3]int]int{}
	for _, line := range strings.Split(r0.Stdout, "\n") {
		var a, b, c, h int
		if n, _ := fmt.Sscanf(line, "R %d %d %d %d", &a, &b, &c, &h); n == 4 {
			hits[[3]int{a, b, c}] = h
		}
	}
	for _, s := range sets {
		ps := perms[s.idx]
		o.Count("style_" + styleNames[s.style])
		o.Count(fmt.Sprintf("ncands_%d", len(s.cands)))
		o.Count(fmt.Sprintf("layout_%d", s.layout))
		if s.style == styleMethod || s.style == styleOp {
			ru, nu := strings.Contains(s.recvName(0), "_"), strings.Contains(s.declName(0), "_")
			o.Count(fmt.Sprintf("recv_underscore_%v_name_underscore_%v", ru, nu))
		}
		if s.dist {
			o.Count("sets_distinguishable")
		} else {
			o.Count("sets_overlapping")
		}
		for k, order := range ps {
			recv, opn := "", ""
			dn := s.declName(k)
			if s.style == styleMethod || s.style == styleOp || s.style == styleClass {
				recv = s.recvName(k)
			}
			if s.style == styleOp {
				opn = opGoNames[s.op]
				dn = s.op
			}
			o.Case(s.encCase(k, order), implEnc(g, dn, recv, opn), len(s.cands) >= 2)
		}
		for ci, args := range s.calls {
			first := -2
			for k, order := range ps {
				h, ok := hits[[3]int{s.idx, k, ci}]
				impl := "MISSING"
				if ok {
					impl = fmt.Sprintf("D=%d R=%d", b2i(s.dist), h)
				}
				cl := s.dispCase(order, args)
				o.Case(cl, impl, true)
				if !ok {
					o.Oracle("call-result-missing", cl, "")
					continue
				}
				if s.dist {
					// property oracle on the implementation (independent of the model):
					// the candidate that ran accepts the arguments (go/types) and is the same
					// for every listing order
					if h < 0 || h >= len(s.cands) || !goAcceptsAll(args, s.cands[h].params) {
						o.Oracle("dispatch-wrong-candidate-"+styleNames[s.style], cl, fmt.Sprintf("ran candidate %d", h))
					}
					if first == -2 {
						first = h
					} else if h != first {
						o.Oracle("dispatch-order-dependent-"+styleNames[s.style], cl, fmt.Sprintf("order 0 ran %d, this order ran %d", first, h))
					}
				}
			}
		}
	}
}

func b2i(b bool) int {
	if b {
		return 1
	}
	return 0
}

func firstLine(s string) string {
	if i := strings.IndexByte(s, '\n'); i >= 0 {
		return s[:i]
	}
	return s
}

// selfCheck: the generator's predicates agree with go/types on the whole universe
// (a disagreement is a harness bug, not a finding).
func selfCheck() {
	for _, a := range universe {
		for _, p := range universe {
			if accepts(a, p) != types.AssignableTo(gtType(a), gtType(p)) {
				fmt.Fprintf(os.Stderr, "selfcheck: accepts(%s,%s) disagrees with go/types\n", a.code(), p.code())
				os.Exit(2)
			}
		}
	}
	for _, p := range universe {
		for _, q := range universe {
			ex := false
			for _, a := range universe {
				if types.AssignableTo(gtType(a), gtType(p)) && types.AssignableTo(gtType(a), gtType(q)) {
					ex = true
				}
			}
			if ex != overlap(p, q) {
				fmt.Fprintf(os.Stderr, "selfcheck: overlap(%s,%s)=%v but go/types says %v\n", p.code(), q.code(), overlap(p, q), ex)
				os.Exit(2)
			}
		}
	}
}

// ---------------------------------------------------------------------------------------------
// Part B': rejected declarations and calls without an accepting candidate

type badDecl struct {
	caseLine string
	src      string
	firstCnd int // 1-based line of the first candidate
}

func genBadDecls(r *vh.Rand) []badDecl {
	var res []badDecl
	mk := func(name, recv string, isOp bool, header string, pre string, cands []string, codes []string) {
		var b strings.Builder
		b.WriteString("type T struct{}\ntype U struct{}\nfunc foo(a int) {}\nfunc bar(a string) {}\nfunc (t T) x(a int) {}\nfunc (t T) y(a string) {}\nfunc (t U) z(a int) {}\n")
		b.WriteString(pre)
		lines := strings.Count(b.String(), "\n")
		b.WriteString(header + " = (\n")
		for _, c := range cands {
			b.WriteString("\t" + c + "\n")
		}
		b.WriteString(")\n")
		rv := "none"
		if recv != "" {
			rv = hx(recv)
		}
		op := "0"
		if isOp {
			op = "1"
		}
		res = append(res, badDecl{
			caseLine: fmt.Sprintf("c10enc\t%s\t%s\t%s\t0\t%s", hx(name), rv, op, strings.Join(codes, ",")),
			src:      b.String(), firstCnd: lines + 2,
		})
	}
	I := func(n string) string { return "I:" + hx(n) }
	S := func(t, n string) string { return "S:" + hx(t) + ":" + hx(n) }
	lit := "func(a bool) {}"
	// invalid method (identifier / literal in a method overload), at varying positions
	for pos := 0; pos < 3; pos++ {
		cs, codes := []string{}, []string{}
		for i := 0; i < pos; i++ {
			if i%2 == 0 {
				cs, codes = append(cs, "(T).x"), append(codes, S("T", "x"))
			} else {
				cs, codes = append(cs, "(T).y"), append(codes, S("T", "y"))
			}
		}
		if r.Bool() {
			cs, codes = append(cs, "foo"), append(codes, I("foo"))
		} else {
			cs, codes = append(cs, lit), append(codes, "L")
		}
		cs, codes = append(cs, "(T).y"), append(codes, S("T", "y"))
		mk("m", "T", false, "func (T).m", "", cs, codes)
	}
	// invalid func (selector in a plain overload)
	for pos := 0; pos < 2; pos++ {
		cs, codes := []string{}, []string{}
		for i := 0; i < pos; i++ {
			cs, codes = append(cs, "foo"), append(codes, I("foo"))
		}
		cs, codes = append(cs, "(T).x"), append(codes, S("T", "x"))
		cs, codes = append(cs, "bar"), append(codes, I("bar"))
		mk("f", "", false, "func f", "", cs, codes)
	}
	// invalid recv type
	mk("m", "T", false, "func (T).m", "", []string{"(T).x", "(U).z"}, []string{S("T", "x"), S("U", "z")})
	mk("m", "T", false, "func (T).m", "", []string{"(U).z", "(T).x"}, []string{S("U", "z"), S("T", "x")})
	// 36 named candidates and a literal at index 36 (index panic); 36 entries with a literal last is fine
	for _, n := range []int{35, 36} {
		var pre strings.Builder
		cs, codes := []string{}, []string{}
		for i := 0; i < n; i++ {
			fmt.Fprintf(&pre, "type K%d int\nfunc k%d(a K%d) {}\n", i, i, i)
			cs, codes = append(cs, fmt.Sprintf("k%d", i)), append(codes, I(fmt.Sprintf("k%d", i)))
		}
		cs, codes = append(cs, lit), append(codes, "L")
		mk("big", "", false, "func big", pre.String(), cs, codes)
	}
	return res
}

var errKinds = []struct{ msg, kind string }{
	{"invalid method", "invalid-method"}, {"invalid func", "invalid-func"},
	{"invalid recv type", "invalid-recv"}, {"unknown func", "unknown-func"},
	{"invalid overload operator", "invalid-operator"},
}
var posRe = regexp.MustCompile(`main\.xgo:(\d+):\d+: `)

func runBadDecl(bd badDecl, o *vh.Out) {
	out, err := compcx.CompileFile("main.xgo", bd.src)
	impl := ""
	if err == nil {
		g, perr := parseGo(out)
		if perr != nil {
			impl = "UNPARSABLE"
		} else {
			f := strings.Split(bd.caseLine, "\t")
			name, _ := vh.UnHex(f[1])
			recv := ""
			if f[2] != "none" {
				rb, _ := vh.UnHex(f[2])
				recv = string(rb)
			}
			impl = implEnc(g, string(name), recv, "")
		}
	} else {
		msg := err.Error()
		impl = "ERR " + firstLine(msg)
		if strings.Contains(msg, "slice bounds out of range") {
			// runtime error: slice bounds out of range [:37] with length 36
			var hi, ln int
			if i := strings.Index(msg, "[:"); i >= 0 {
				fmt.Sscanf(msg[i:], "[:%d] with length %d", &hi, &ln)
			}
			impl = fmt.Sprintf("panic index %d", hi-1)
		} else {
			for _, ek := range errKinds {
				if strings.Contains(msg, ek.msg) {
					idx := -1
					if m := posRe.FindStringSubmatch(msg); m != nil {
						ln, _ := strconv.Atoi(m[1])
						idx = ln - bd.firstCnd
					}
					if ek.kind == "invalid-operator" {
						impl = "err invalid-operator"
					} else {
						impl = fmt.Sprintf("err %s %d", ek.kind, idx)
					}
					break
				}
			}
		}
	}
	o.Count("bad_decl")
	o.Case(bd.caseLine, impl, true)
}

// calls that no candidate accepts must be rejected for every listing order
func runNoMatch(r *vh.Rand, o *vh.Out, n int) {
	for i := 0; i < n; i++ {
		var s oset
		for {
			s = genSet(r.Fork(1000+i), 0, "quick")
			if s.style != styleOp && len(s.cands) <= 3 {
				break
			}
			r.U64()
		}
		// argument list accepted by nobody
		var args []ty
		for try := 0; try < 50; try++ {
			ar := 1 + r.Intn(2)
			args = args[:0]
			for k := 0; k < ar; k++ {
				args = append(args, randTy(r))
			}
			ok := true
			for _, c := range s.cands {
				if acceptsAll(args, c.params) {
					ok = false
				}
			}
			if ok {
				break
			}
			args = nil
		}
		if args == nil {
			continue
		}
		s.calls = [][]ty{args}
		for k, order := range permutations(len(s.cands)) {
			ps := map[int][][]int{0: {order}}
			_ = k
			src := program([]*oset{&s}, ps)
			_, err := compileProgram(src)
			impl := fmt.Sprintf("D=%d R=none", b2i(s.dist))
			cl := s.dispCase(order, args)
			if err == nil {
				impl = fmt.Sprintf("D=%d R=accepted", b2i(s.dist))
				o.Oracle("call-without-accepting-candidate-compiles", cl, "")
			}
			o.Count("nomatch_call")
			o.Case(cl, impl, true)
		}
	}
}

// ---------------------------------------------------------------------------------------------
// Part C: gogen.InitThisGopPkgEx on synthetic scopes

type tspec struct {
	name    string
	methods []string
}

func runGogen(funcs []string, typs []tspec, gname, gval string) (res string) {
	defer func() {
		if r := recover(); r != nil {
			res = "panic"
		}
	}()
	pkg := types.NewPackage("main", "main")
	scope := pkg.Scope()
	sig := types.NewSignatureType(nil, nil, nil, nil, nil, false)
	for _, f := range funcs {
		scope.Insert(types.NewFunc(0, pkg, f, sig))
	}
	var nameds []*types.Named
	for _, t := range typs {
		tn := types.NewTypeName(0, pkg, t.name, nil)
		named := types.NewNamed(tn, types.NewStruct(nil, nil), nil)
		for _, m := range t.methods {
			recv := types.NewParam(0, pkg, "r", named)
			named.AddMethod(types.NewFunc(0, pkg, m, types.NewSignatureType(recv, nil, nil, nil, nil, false)))
		}
		scope.Insert(tn)
		nameds = append(nameds, named)
	}
	if gname != "" {
		scope.Insert(types.NewConst(0, pkg, gname, types.Typ[types.String], constant.MakeString(gval)))
	}
	gogen.InitThisGopPkgEx(pkg, nil)
	showObjs := func(objs []types.Object) string {
		parts := make([]string, len(objs))
		for i, ob := range objs {
			if ob == nil {
				parts[i] = "NIL"
				continue
			}
			if fn, ok := ob.(*types.Func); ok {
				if s, ok := fn.Type().(*types.Signature); ok && s.Recv() != nil {
					tn := s.Recv().Type()
					if p, ok := tn.(*types.Pointer); ok {
						tn = p.Elem()
					}
					parts[i] = "M:" + hx(tn.(*types.Named).Obj().Name()) + ":" + hx(fn.Name())
					continue
				}
			}
			parts[i] = "F:" + hx(ob.Name())
		}
		return strings.Join(parts, ",")
	}
	var found []string
	for _, n := range scope.Names() {
		if fn, ok := scope.Lookup(n).(*types.Func); ok {
			if s, ok := fn.Type().(*types.Signature); ok {
				if objs, ok := gogen.CheckOverloadFunc(s); ok {
					found = append(found, fmt.Sprintf("overload none %s %s", hx(n), showObjs(objs)))
				}
			}
		}
	}
	for _, named := range nameds {
		for i := 0; i < named.NumMethods(); i++ {
			m := named.Method(i)
			if s, ok := m.Type().(*types.Signature); ok {
				if objs, ok := gogen.CheckOverloadMethod(s); ok {
					found = append(found, fmt.Sprintf("overload %s %s %s", hx(named.Obj().Name()), hx(m.Name()), showObjs(objs)))
				}
			}
		}
	}
	if len(found) == 0 {
		return "none"
	}
	return strings.Join(found, " ; ")
}

func decCase(funcs []string, typs []tspec, gname, gval, dname string) string {
	fs := make([]string, len(funcs))
	for i, f := range funcs {
		fs[i] = hx(f)
	}
	ff := strings.Join(fs, ",")
	if len(fs) == 0 {
		ff = "-"
	}
	ts := make([]string, len(typs))
	for i, t := range typs {
		ms := make([]string, len(t.methods))
		for j, m := range t.methods {
			ms[j] = hx(m)
		}
		ts[i] = hx(t.name) + ":" + strings.Join(ms, ";")
		if len(ms) == 0 {
			ts[i] = hx(t.name)
		}
	}
	tt := strings.Join(ts, ",")
	if len(ts) == 0 {
		tt = "-"
	}
	gn := "none"
	if gname != "" {
		gn = hx(gname)
	}
	return fmt.Sprintf("c10dec\t%s\t%s\t%s\t%s\t%s", ff, tt, gn, hx(gval), hx(dname))
}

func parseDecCase(line string) (funcs []string, typs []tspec, gname, gval, dname string, ok bool) {
	f := strings.Split(line, "\t")
	if len(f) < 6 || f[0] != "c10dec" {
		return
	}
	un := func(h string) string { b, _ := vh.UnHex(h); return string(b) }
	if f[1] != "-" {
		for _, h := range strings.Split(f[1], ",") {
			funcs = append(funcs, un(h))
		}
	}
	if f[2] != "-" {
		for _, t := range strings.Split(f[2], ",") {
			p := strings.SplitN(t, ":", 2)
			ts := tspec{name: un(p[0])}
			if len(p) == 2 && p[1] != "" {
				for _, m := range strings.Split(p[1], ";") {
					ts.methods = append(ts.methods, un(m))
				}
			}
			typs = append(typs, ts)
		}
	}
	if f[3] != "none" {
		gname = un(f[3])
	}
	return funcs, typs, gname, un(f[4]), un(f[5]), true
}

const digits = "0123456789abcdefghijklmnopqrstuvwxyz"

func goOverloadName(recv, name string) string {
	sep := "_"
	if strings.Contains(name, "_") || strings.Contains(recv, "_") {
		sep = "__"
	}
	t := ""
	if recv != "" {
		t = recv + sep
	}
	return "Gopo" + sep + t + name
}

func genDecCase(r *vh.Rand) (funcs []string, typs []tspec, gname, gval, dname string) {
	names := []string{"f", "add", "mul_int", "x_y", "Gop_Add", "a__b", "_lead", "m", "long_name_x"}
	recvs := []string{"", "", "T", "Foo", "My_T", "t"}
	dname = names[r.Intn(len(names))]
	recv := recvs[r.Intn(len(recvs))]
	others := []string{"fInt", "fStr", "g_x", "h"}
	meths := []string{"mA", "mB", "m_c"}
	fset := map[string]bool{}
	mset := map[string]bool{}
	if r.Chance(25) {
		// no-constant path: name__<digit> functions
		n := 1 + r.Intn(6)
		if r.Chance(10) {
			n = 30 + r.Intn(7)
		}
		idx := make([]int, n)
		for i := range idx {
			idx[i] = i
		}
		if r.Chance(25) { // a hole / out of range digit / bad digit
			switch r.Intn(3) {
			case 0:
				idx[r.Intn(n)] = n + r.Intn(3)
			case 1:
				idx = idx[1:]
			case 2:
				fset[dname+"__A"] = true
			}
		}
		for _, i := range idx {
			if i < 36 {
				fset[dname+"__"+digits[i:i+1]] = true
			}
		}
		if r.Chance(40) {
			fset[others[r.Intn(len(others))]] = true
		}
		for f := range fset {
			funcs = append(funcs, f)
		}
		sort.Strings(funcs)
		return funcs, nil, "", "", dname
	}
	n := 1 + r.Intn(6)
	if r.Chance(6) {
		n = 35 + r.Intn(4)
	}
	gname = goOverloadName(recv, dname)
	weird := r.Chance(8)
	if weird {
		gname = []string{"Gopo_x_y", "Gopo__a__b", "Gopo_fInt_m", "Gopo__T__", "Gopo_T_"}[r.Intn(5)]
	}
	slots := make([]string, n)
	for i := range slots {
		present := r.Chance(88)
		switch k := r.Intn(3); {
		case k == 0: // literal slot
			if weird { // the name__i family would form a second overload of its own
				present = false
			}
			nm := dname + "__"
			if i < 36 {
				nm += digits[i : i+1]
			} else {
				nm = ""
			}
			if present && nm != "" {
				if recv != "" {
					mset[nm] = true
				} else {
					fset[nm] = true
				}
			}
		case k == 1 || recv == "":
			slots[i] = others[r.Intn(len(others))]
			if present {
				fset[slots[i]] = true
			}
		default:
			m := meths[r.Intn(len(meths))]
			slots[i] = "." + m
			if present {
				mset[m] = true
			}
		}
	}
	gval = strings.Join(slots, ",")
	if recv != "" {
		ts := tspec{name: recv}
		for m := range mset {
			ts.methods = append(ts.methods, m)
		}
		sort.Strings(ts.methods)
		if r.Chance(93) {
			typs = append(typs, ts)
		}
	}
	if r.Chance(30) {
		typs = append(typs, tspec{name: "Other", methods: []string{"mA"}})
	}
	for f := range fset {
		funcs = append(funcs, f)
	}
	sort.Strings(funcs)
	sort.Slice(typs, func(i, j int) bool { return typs[i].name < typs[j].name })
	return
}

func runDec(funcs []string, typs []tspec, gname, gval, dname string, o *vh.Out) {
	impl := runGogen(funcs, typs, gname, gval)
	if gname == "" {
		o.Count("dec_noconst")
	} else {
		o.Count("dec_const")
	}
	switch {
	case impl == "panic":
		o.Count("dec_result_panic")
	case impl == "none":
		o.Count("dec_result_none")
	default:
		o.Count("dec_result_overload")
	}
	o.Case(decCase(funcs, typs, gname, gval, dname), impl, true)
}

// ---------------------------------------------------------------------------------------------

func replay(line string, o *vh.Out, workdir string) {
	f := strings.Split(line, "\t")
	switch f[0] {
	case "c10dec":
		if funcs, typs, gname, gval, dname, ok := parseDecCase(line); ok {
			runDec(funcs, typs, gname, gval, dname, o)
		}
	case "c10disp":
		// rebuild a one-set program from the candidate list (listing order as given) and the arguments
		s, args, ok := parseDispCase(f)
		if !ok {
			fmt.Fprintln(os.Stderr, "bad c10disp line")
			os.Exit(2)
		}
		s.calls = [][]ty{args}
		replayDisp(s, o, workdir)
	case "c10enc":
		fmt.Fprintln(os.Stderr, "c10enc lines are replayed through the c10disp line of the same set (see stats samples)")
	}
}

func parseTyCode(c string) (ty, bool) {
	find := func(code string) int {
		for i, u := range unders {
			if u.code == code {
				return i
			}
		}
		return -1
	}
	if strings.HasPrefix(c, "n") {
		p := strings.SplitN(c[1:], "=", 2)
		if len(p) != 2 {
			return ty{}, false
		}
		id, err := strconv.Atoi(p[0])
		u := find(p[1])
		return ty{named: id, u: u}, err == nil && u >= 0
	}
	u := find(c)
	return ty{u: u}, u >= 0
}

func parseDispCase(f []string) (*oset, []ty, bool) {
	if len(f) < 3 {
		return nil, nil, false
	}
	s := &oset{idx: 0}
	for _, st := range f[3:] {
		for i, n := range styleNames {
			if st == "style="+n {
				s.style = i
			}
		}
		if strings.HasPrefix(st, "layout=") {
			s.layout, _ = strconv.Atoi(st[7:])
		}
		if strings.HasPrefix(st, "name=") {
			s.nameFmt = st[5:]
		}
		if strings.HasPrefix(st, "recv=") {
			s.recvFmt = st[5:]
		}
	}
	if s.style == styleOp {
		s.op = "+"
	}
	for _, cs := range strings.Split(f[1], "|") {
		p := strings.SplitN(cs, ":", 2)
		id, err := strconv.Atoi(p[0])
		if err != nil || len(p) != 2 {
			return nil, nil, false
		}
		c := cand{id: id}
		if p[1] != "" {
			for _, tc := range strings.Split(p[1], ",") {
				t, ok := parseTyCode(tc)
				if !ok {
					return nil, nil, false
				}
				c.params = append(c.params, t)
			}
		}
		switch s.style {
		case styleLit:
			c.kind = 'L'
		case styleNamed:
			c.kind = 'I'
		case styleMixed, styleClass:
			c.kind = "LI"[len(s.cands)%2]
		case styleMethod:
			c.kind = 'M'
		case styleOp:
			c.kind = 'M'
			if len(c.params) == 2 && c.params[0].named != recvID {
				c.kind = 'I'
			}
		}
		s.cands = append(s.cands, c)
	}
	var args []ty
	if f[2] != "" {
		for _, tc := range strings.Split(f[2], ",") {
			t, ok := parseTyCode(tc)
			if !ok {
				return nil, nil, false
			}
			args = append(args, t)
		}
	}
	s.dist = pairwiseDistinguishable(s.cands)
	return s, args, true
}

// replayDisp: candidate ids in the line are the identities; the listing order is the line's order.
func replayDisp(s *oset, o *vh.Out, workdir string) {
	// renumber so that cands[i].id == i is not required: ids are printed as given
	accept := false
	for _, c := range s.cands {
		if acceptsAll(s.calls[0], c.params) {
			accept = true
		}
	}
	order := make([]int, len(s.cands))
	for i := range order {
		order[i] = i
	}
	if !accept {
		src := program([]*oset{s}, map[int][][]int{0: {order}})
		_, err := compileProgram(src)
		impl := fmt.Sprintf("D=%d R=none", b2i(s.dist))
		if err == nil {
			impl = fmt.Sprintf("D=%d R=accepted", b2i(s.dist))
		}
		o.Case(s.dispCase(order, s.calls[0]), impl, true)
		return
	}
	// all listing orders, oracle as in the main run
	byID := map[int]int{}
	for i, c := range s.cands {
		byID[c.id] = i
	}
	// normalise ids to positions for the generic runner
	for i := range s.cands {
		s.cands[i].id = i
	}
	runSets([]*oset{s}, o, workdir)
}

func main() {
	f := vh.ParseFlags()
	if abs, err := filepath.Abs(f.Out); err == nil {
		f.Out = abs
	}
	o := vh.NewOut(f.Out)
	defer o.Close()
	selfCheck()
	log.SetOutput(io.Discard) // gogen logs every panic message
	t0 := time.Now()
	phase := func(name string) {
		if os.Getenv("VERIF_TIMING") != "" {
			fmt.Fprintf(os.Stderr, "[c10 %6.1fs] %s\n", time.Since(t0).Seconds(), name)
		}
	}
	workdir := f.Out
	if f.Replay != "" {
		replay(f.Replay, o, workdir)
		return
	}
	r := vh.NewRand(f.Seed)
	// Part A/B
	nsets := 26
	nbadRounds := 1
	nnomatch := 6
	if f.Tier == "thorough" {
		nsets = 90
		nnomatch = 30
	}
	var sets []*oset
	for i := 0; i < nsets; i++ {
		s := genSet(r.Fork(i), i, f.Tier)
		sets = append(sets, &s)
	}
	phase("generated")
	sets = append(sets, coverageSets(r.Fork(3000), nsets, f.Tier)...)
	runSets(sets, o, workdir)
	phase("sets compiled and run")
	nl := 10
	if f.Tier == "thorough" {
		nl = 40
	}
	var lsets []*lset
	for i := 0; i < nl; i++ {
		lsets = append(lsets, genLSet(r.Fork(20000+i), i))
	}
	lsets = append(lsets, coverageLSets(nl)...)
	runLambdaSets(lsets, o, workdir)
	phase("lambda sets compiled and run")
	for i := 0; i < nbadRounds; i++ {
		for _, bd := range genBadDecls(r.Fork(5000 + i)) {
			runBadDecl(bd, o)
		}
	}
	phase("bad decls")
	runNoMatch(r.Fork(7000), o, nnomatch)
	phase("no-match calls")
	// Part C
	for i := 0; i < f.N; i++ {
		rr := r.Fork(100000 + i)
		funcs, typs, gname, gval, dname := genDecCase(rr)
		runDec(funcs, typs, gname, gval, dname, o)
	}
	phase("gogen direct")
}
