package main

// Overload sets whose candidates take function-typed parameters, called with lambda literals
// (`x => e`, `(x, y) => e`, `x => (e, nil)`, block bodies), function literals, typed variables and
// untyped constants; optionally one GENERIC candidate declared in a Go file of the package.
// Calls are generated only when exactly one candidate accepts them (decidable predicate, the
// same as Model/Overload.lean `lcandAccepts`); the oracle: every listing order runs that candidate.

import (
	"fmt"
	"os"
	"path/filepath"
	"strings"
	"time"

	"verifharness/vh"
	"verifharness/xrun"
)

type lcand struct {
	id   int
	kind byte   // 'I' named function, 'L' literal candidate, 'G' generic Go function
	lead string // n i s I g  (none, int, string, []int, []T)
	k, r int
}

type lcall struct {
	lead string // n i s I S ci cs
	form string // expr block lit
	k, r int
	want int
}

type lset struct {
	idx   int
	cands []lcand
	calls []lcall
	name  string
}

func leadAccepts(param, arg string) bool {
	switch param {
	case "n":
		return arg == "n"
	case "i":
		return arg == "i" || arg == "ci"
	case "s":
		return arg == "s" || arg == "cs"
	case "I":
		return arg == "I"
	case "g":
		return arg == "I" || arg == "S"
	}
	return false
}

func lcandAccepts(c lcand, a lcall) bool {
	if a.form == "block" {
		// a block lambda is compiled against the first candidate with the same number of
		// arguments and the same lambda arity, before the other arguments are type-checked
		return (c.lead == "n") == (a.lead == "n") && a.k == c.k
	}
	if !leadAccepts(c.lead, a.lead) {
		return false
	}
	switch a.form {
	case "expr":
		return a.k == c.k && a.r == c.r
	}
	return a.k == c.k && a.r == c.r && !(c.kind == 'G' && a.lead == "S")
}

// fits: the candidate the call is committed to really takes these arguments (for block lambdas
// the commitment ignores the leading argument's type; a call is generated only if it then fits)
func fits(c lcand, a lcall) bool {
	return leadAccepts(c.lead, a.lead) && a.k == c.k && (a.form == "block" || a.r == c.r)
}

func genLSet(r *vh.Rand, idx int) *lset {
	s := &lset{idx: idx, name: []string{"lv%dp%d", "lv_%dp%d", "Lv%dP%d"}[r.Intn(3)]}
	n := 2 + r.Intn(3)
	hasG := false
	for i := 0; i < n; i++ {
		c := lcand{id: i, kind: "IL"[r.Intn(2)], lead: []string{"n", "n", "i", "s", "I"}[r.Intn(5)], k: r.Intn(3), r: r.Intn(3)}
		if !hasG && r.Chance(30) {
			c = lcand{id: i, kind: 'G', lead: "g", k: 1, r: 1}
			hasG = true
		}
		s.cands = append(s.cands, c)
	}
	// candidate calls; keep those that exactly one candidate accepts
	var all []lcall
	leads := func(p string) []string {
		switch p {
		case "i":
			return []string{"i", "ci"}
		case "s":
			return []string{"s", "cs"}
		case "I":
			return []string{"I"}
		case "g":
			return []string{"I", "S"}
		}
		return []string{"n"}
	}
	for _, c := range s.cands {
		for _, l := range leads(c.lead) {
			if c.r >= 1 && c.k >= 1 {
				all = append(all, lcall{lead: l, form: "expr", k: c.k, r: c.r})
			}
			all = append(all, lcall{lead: l, form: "block", k: c.k, r: c.r})
			if l != "S" {
				all = append(all, lcall{lead: l, form: "lit", k: c.k, r: c.r})
			}
		}
	}
	seen := map[string]bool{}
	for _, a := range all {
		want, cnt := -1, 0
		for _, c := range s.cands {
			if lcandAccepts(c, a) {
				cnt++
				want = c.id
			}
		}
		key := fmt.Sprint(a.lead, a.form, a.k, a.r)
		if a.form == "block" {
			key = fmt.Sprint(a.lead, a.form, a.k)
		}
		if cnt == 1 && !seen[key] && fits(s.cands[want], a) {
			seen[key] = true
			a.want = want
			s.calls = append(s.calls, a)
		}
	}
	return s
}

// fixedLSet builds a set from given candidates (coverage of the result-count and generic cases).
func fixedLSet(idx int, cands []lcand) *lset {
	s := &lset{idx: idx, name: "lv%dp%d", cands: cands}
	for i := range s.cands {
		s.cands[i].id = i
	}
	var all []lcall
	for _, l := range []string{"n", "i", "s", "I", "S", "ci", "cs"} {
		for k := 0; k <= 2; k++ {
			for r := 0; r <= 2; r++ {
				if r >= 1 && k >= 1 {
					all = append(all, lcall{lead: l, form: "expr", k: k, r: r})
				}
				if l != "S" {
					all = append(all, lcall{lead: l, form: "lit", k: k, r: r})
				}
			}
			all = append(all, lcall{lead: l, form: "block", k: k})
		}
	}
	for _, a := range all {
		want, cnt := -1, 0
		for _, c := range s.cands {
			if lcandAccepts(c, a) {
				cnt++
				want = c.id
				if a.form == "block" {
					a.r = c.r
				}
			}
		}
		if cnt == 1 && fits(s.cands[want], a) {
			a.want = want
			s.calls = append(s.calls, a)
		}
	}
	return s
}

func coverageLSets(start int) []*lset {
	return []*lset{
		// candidates that differ only in the number of results of their function parameter
		fixedLSet(start, []lcand{{kind: 'I', lead: "n", k: 1, r: 2}, {kind: 'I', lead: "n", k: 1, r: 1}}),
		fixedLSet(start+1, []lcand{{kind: 'L', lead: "n", k: 2, r: 1}, {kind: 'I', lead: "n", k: 2, r: 2}, {kind: 'I', lead: "n", k: 1, r: 1}}),
		// a generic Go candidate next to a monomorphic one that differs in the lambda's arity
		fixedLSet(start+2, []lcand{{kind: 'G', lead: "g", k: 1, r: 1}, {kind: 'I', lead: "I", k: 2, r: 1}}),
		fixedLSet(start+3, []lcand{{kind: 'I', lead: "I", k: 2, r: 2}, {kind: 'G', lead: "g", k: 1, r: 1}, {kind: 'L', lead: "I", k: 2, r: 1}, {kind: 'I', lead: "s", k: 1, r: 1}}),
	}
}

func ftypeText(k, r int) string {
	ps := make([]string, k)
	for i := range ps {
		ps[i] = "int"
	}
	t := "func(" + strings.Join(ps, ", ") + ")"
	switch r {
	case 1:
		t += " int"
	case 2:
		t += " (int, error)"
	}
	return t
}

func leadParam(l string) string {
	switch l {
	case "i":
		return "n int, "
	case "s":
		return "n string, "
	case "I":
		return "n []int, "
	}
	return ""
}

func (s *lset) declName(p int) string { return fmt.Sprintf(s.name, s.idx, p) }
func (s *lset) fnName(c lcand) string { return fmt.Sprintf("ls%dc%d", s.idx, c.id) }

func lambdaText(a lcall, gen bool) string {
	ps := []string{"a", "b"}[:a.k]
	var lhs string
	switch a.k {
	case 0:
		lhs = ""
	case 1:
		lhs = "a "
	default:
		lhs = "(a, b) "
	}
	val := "7"
	switch a.k {
	case 1:
		val = "a+a"
	case 2:
		val = "a+b"
	}
	switch a.form {
	case "expr":
		if a.r == 2 {
			return lhs + "=> (" + val + ", nil)"
		}
		return lhs + "=> " + val
	case "block":
		use := ""
		for _, p := range ps {
			use += "\t\t_ = " + p + "\n"
		}
		switch a.r {
		case 0:
			return lhs + "=> {\n" + use + "\t\t_ = 0\n\t}"
		case 1:
			return lhs + "=> {\n\t\treturn " + val + "\n\t}"
		}
		return lhs + "=> {\n\t\treturn " + val + ", nil\n\t}"
	}
	// function literal with explicit types
	tps := make([]string, a.k)
	for i, p := range ps {
		tps[i] = p + " int"
	}
	hdr := "func(" + strings.Join(tps, ", ") + ")"
	switch a.r {
	case 0:
		return hdr + " {}"
	case 1:
		return hdr + " int { return " + val + " }"
	}
	return hdr + " (int, error) { return " + val + ", nil }"
}

func leadArg(l string) string {
	switch l {
	case "i":
		return "vbI, "
	case "s":
		return "vbS, "
	case "I":
		return "vlSI, "
	case "S":
		return "vlSS, "
	case "ci":
		return "5, "
	case "cs":
		return "\"k\", "
	}
	return ""
}

// text: XGo declarations + call functions, and the Go file part (generic candidates)
func (s *lset) text(perms [][]int) (xgo, gofile, calls string) {
	var x, g, c strings.Builder
	for _, cd := range s.cands {
		switch cd.kind {
		case 'I':
			fmt.Fprintf(&x, "func %s(%sfn %s) { hit = %d }\n", s.fnName(cd), leadParam(cd.lead), ftypeText(cd.k, cd.r), cd.id)
		case 'G':
			fmt.Fprintf(&g, "func %s[T any](ar []T, fn func(v T) T) { ghit = %d }\n", s.fnName(cd), cd.id)
		}
	}
	for k, order := range perms {
		fmt.Fprintf(&x, "func %s = (\n", s.declName(k))
		for _, ci := range order {
			cd := s.cands[ci]
			if cd.kind == 'L' {
				fmt.Fprintf(&x, "\tfunc(%sfn %s) { hit = %d }\n", leadParam(cd.lead), ftypeText(cd.k, cd.r), cd.id)
			} else {
				fmt.Fprintf(&x, "\t%s\n", s.fnName(cd))
			}
		}
		x.WriteString(")\n")
		fmt.Fprintf(&c, "func lcalls%dp%d() {\n", s.idx, k)
		for ci, a := range s.calls {
			fmt.Fprintf(&c, "\thit, ghit = -1, -1\n\t%s %s%s\n\techo \"L %d %d %d\", hit+ghit+1\n", s.declName(k), leadArg(a.lead), lambdaText(a, false), s.idx, k, ci)
		}
		c.WriteString("}\n")
	}
	return x.String(), g.String(), c.String()
}

func lprogram(sets []*lset, perms map[int][][]int) map[string]string {
	var x, g, main strings.Builder
	x.WriteString(prelude())
	g.WriteString("package main\n\nvar ghit = -1\n\n")
	for _, s := range sets {
		xs, gs, cs := s.text(perms[s.idx])
		x.WriteString(xs)
		x.WriteString(cs)
		g.WriteString(gs)
		for k := range perms[s.idx] {
			fmt.Fprintf(&main, "lcalls%dp%d()\n", s.idx, k)
		}
	}
	x.WriteString("\n" + main.String())
	return map[string]string{"main.xgo": x.String(), "gen.go": g.String()}
}

func (s *lset) caseLine(order []int, a lcall) string {
	parts := make([]string, len(order))
	for i, ci := range order {
		c := s.cands[ci]
		g := "0"
		if c.kind == 'G' {
			g = "1"
		}
		parts[i] = fmt.Sprintf("%d:%s:%d:%d:%s", c.id, c.lead, c.k, c.r, g)
	}
	kinds := make([]byte, len(order))
	for i, ci := range order {
		kinds[i] = s.cands[ci].kind
	}
	return fmt.Sprintf("c10lam\t%s\t%s:%s:%d:%d\tkinds=%s\tname=%s", strings.Join(parts, "|"), a.lead, a.form, a.k, a.r, kinds, s.name)
}

func runLambdaSets(sets []*lset, o *vh.Out, workdir string) {
	perms := map[int][][]int{}
	for _, s := range sets {
		perms[s.idx] = permutations(len(s.cands))
	}
	files := lprogram(sets, perms)
	out, err := compileProgram(files)
	if err != nil {
		var good []*lset
		for _, s := range sets {
			one := lprogram([]*lset{s}, perms)
			if _, e := compileProgram(one); e != nil {
				o.Count("lambda_set_compile_error")
				first := lcall{}
				if len(s.calls) > 0 {
					first = s.calls[0]
				}
				o.Oracle("compile-error-lambda", s.caseLine(perms[s.idx][0], first), fmt.Sprintf("set %d: %v\n%s", s.idx, firstLine(e.Error()), one["main.xgo"]))
				for _, order := range perms[s.idx] {
					for _, a := range s.calls {
						o.Case(s.caseLine(order, a), "COMPILE-ERROR", true)
					}
				}
			} else {
				good = append(good, s)
			}
		}
		if len(good) == len(sets) {
			o.Oracle("compile-error-lambda-whole-program", "program", firstLine(err.Error()))
			return
		}
		sets = good
		if len(sets) == 0 {
			return
		}
		files = lprogram(sets, perms)
		if out, err = compileProgram(files); err != nil {
			o.Oracle("compile-error-lambda-whole-program", "program", firstLine(err.Error()))
			return
		}
	}
	dir := filepath.Join(workdir, "c10lam")
	os.MkdirAll(filepath.Join(dir, "p00000"), 0o755)
	os.WriteFile(filepath.Join(dir, "p00000", "gen.go"), []byte(files["gen.go"]), 0o644)
	res, rerr := xrun.RunBatch(dir, [][]byte{out}, 60*time.Second)
	if rerr != nil || len(res) != 1 {
		fmt.Fprintln(os.Stderr, "RunBatch:", rerr)
		os.Exit(2)
	}
	if res[0].BuildErr != "" || res[0].Exit != 0 || res[0].Timeout {
		os.WriteFile(filepath.Join(workdir, "c10_failed_lambda.xgo"), []byte(files["main.xgo"]), 0o644)
		o.Oracle("lambda-generated-go-does-not-run", "program", res[0].String())
		return
	}
	hits := map[[3]int]int{}
	for _, line := range strings.Split(res[0].Stdout, "\n") {
		var a, b, c, h int
		if n, _ := fmt.Sscanf(line, "L %d %d %d %d", &a, &b, &c, &h); n == 4 {
			hits[[3]int{a, b, c}] = h
		}
	}
	for _, s := range sets {
		o.Count("lambda_sets")
		for _, c := range s.cands {
			if c.kind == 'G' {
				o.Count("lambda_sets_with_generic")
			}
		}
		for ci, a := range s.calls {
			o.Count("lambda_call_" + a.form)
			for k, order := range perms[s.idx] {
				cl := s.caseLine(order, a)
				h, ok := hits[[3]int{s.idx, k, ci}]
				if !ok {
					o.Case(cl, "MISSING", true)
					o.Oracle("call-result-missing", cl, "")
					continue
				}
				o.Case(cl, fmt.Sprintf("R=%d U=1", h), true)
				if h != a.want {
					o.Oracle("dispatch-wrong-candidate-lambda", cl, fmt.Sprintf("ran candidate %d, the only accepting candidate is %d", h, a.want))
				}
			}
		}
	}
}
