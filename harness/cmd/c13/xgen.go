package main

// Grammar-directed generator of XGo expression and statement fragments: every XGo-specific
// production of parser.go is reachable (lambdas in both forms with expression / tuple / block
// bodies, composite, slice, matrix and map literals with mixed elements, comprehensions, error
// wrapping, range expressions, ${env}, domain text literals, string interpolation, number units,
// command-style calls, tuples, overload declarations, for-in phrases, labels and branches in
// every position).  Outputs are syntactically mostly valid (a small rate of deliberately odd
// combinations); they are fed to the parser unchanged and token-mutated.

import (
	"fmt"
	"strings"

	"verifharness/vh"
)

type xgen struct {
	r    *vh.Rand
	feat map[string]int
	nlab int
}

func (g *xgen) pick(xs ...string) string { return xs[g.r.Intn(len(xs))] }
func (g *xgen) hit(s string)             { g.feat["xgen_"+s]++ }

func (g *xgen) ident() string {
	return g.pick("a", "b", "x", "y", "xs", "m", "f", "ch", "err", "obj", "T", "in", "echo", "println", "_", "tpl", "goto_", "this")
}

func (g *xgen) atom() string {
	switch g.r.Intn(16) {
	case 0, 1, 2, 3:
		return g.ident()
	case 4:
		return g.pick("0", "1", "42", "0x1F", "1_000", "0b11", "1e3", "2.5", ".5", "1i", "'c'", "'\\n'")
	case 5:
		g.hit("rat_unit")
		return g.pick("1r", "3.5r", "1/3r", "5km", "1.5s", "3ms", "10y", "2h")
	case 6:
		return g.pick(`"s"`, "`raw`", `""`, `"a\tb"`)
	case 7:
		g.hit("interp_string")
		return g.interp()
	case 8:
		g.hit("cstring")
		return g.pick(`c"x"`, `py"x"`, `C"x"`, `c""`)
	case 9:
		g.hit("env")
		return g.pick("${HOME}", "$HOME", "${x}", "$x", "${}", "${a.b}")
	case 10:
		g.hit("domaintext")
		return g.pick("tpl`a = b`", "tpl`a = *b c`", "tpl`a = `", "tpl`expr = INT % (\"+\" | \"-\") => { x }`", "html`<p>`", "json`> a, b\n{}`", "html`> "+g.expr(1)+", "+g.expr(1)+"\nraw`", "re`> `", "x`> a,\n`")
	case 11:
		return g.pick("true", "nil", "iota")
	case 12:
		g.hit("type_expr")
		return g.pick("[]int", "map[string]int", "chan int", "<-chan int", "func(int) int", "struct{ x int }", "interface{}", "*T", "[...]int", "[2]int", "[]", "map[string]")
	case 13:
		return g.pick("type", "map", "goto", "break", "continue", "fallthrough") // keywords usable as identifiers in XGo
	}
	return g.ident()
}

// interp: a string literal whose text is built by a small grammar over the interpolation
// syntax: plain text, "$$", "$ident", "${expr}", a lone '$' at any position (also last),
// unterminated "${", nested braces, escapes, multi-byte runes; interpreted or raw.
func (g *xgen) interp() string {
	raw := g.r.Chance(25)
	var b strings.Builder
	n := 1 + g.r.Intn(6)
	for i := 0; i < n; i++ {
		switch g.r.Intn(14) {
		case 0, 1:
			b.WriteString(g.pick("a", "cost ", "x y", "5", ", or ", "{", "}", "{}", ":", "é", "世界", " ", "%d", "#"))
		case 2:
			b.WriteString("$$")
		case 3, 4:
			b.WriteString("$" + g.pick("x", "a", "HOME", "5", "_", "é", "x.y", "1km"))
		case 5, 6:
			b.WriteString("${" + g.pick("x", "a + 1", "f(x)", "x.y", "xs[0]", "a b", "", " ", "x => x", "[1, 2]", "1:3", "(a, b)", "\"s\"", "x!") + "}")
		case 7, 8:
			b.WriteString("$") // lone '$' (last position when it is the final part)
		case 9:
			b.WriteString("${" + g.pick("x", "", "a{", "f("))
		case 10:
			b.WriteString("${" + g.pick("{a: 1}", "m{k}", "x{y{z}}", "}{", "{}") + "}")
		case 11:
			if raw {
				b.WriteString("\\n")
			} else {
				b.WriteString(g.pick("\\n", "\\\"", "\\\\", "\\x24", "\\u0024{x}", "\\t$", "\\044"))
			}
		case 12:
			b.WriteString(g.pick("$é", "${世}", "é$", "$\u00e9"))
		case 13:
			b.WriteString(g.pick("}", "{$", "$}", "$ {x}", "$\t", "$$$", "$${x}", "${${x}}"))
		}
	}
	t := b.String()
	if raw {
		return "`" + strings.ReplaceAll(t, "`", "") + "`"
	}
	t = strings.ReplaceAll(t, "\n", " ")
	return "\"" + t + "\""
}

// ---- combination schedule ----------------------------------------------------------------
// XGo-specific conjunctions (tuple x range x lambda x for-in ...) are rare under independent
// draws.  The factors below are combined exhaustively (full product, 4-wise): every context with
// every operand shape, every range form and every suffix.

var comboCtx = []string{
	"for v in %s {\n}\n", "for v <- %s {\n}\n", "for v := range %s {\n}\n", "for k, v in %s if v {\n}\n", "for %s {\n}\n",
	"x := [v for v in %s]\n", "x := {k: v for k, v <- %s}\n", "println %s\n", "x := %s\n", "f(%s)\n", "y := z => %s\n",
	"x[%s] = 1\n", "return %s\n", "x := {%s: 1}\n", "echo [%s]\n", "x, y = %s\n", "go %s\n", "ch <- %s\n", "if %s {\n}\n", "switch %s {\n}\n",
}
var comboOperand = []string{"(a, b)", "(a...)", "()", "(a)", "a", "f(a)", "[a, b]", "x => x", "T{a}", "(a, b, c)", "{a: b}", "a!", "\"$a$\"", "1"}
var comboRange = []string{"%s", "%s:c", ":%s", "%s:c:%s", "%s:", "%s:%s"}
var comboSuffix = []string{"", " => 1", " => {\n}", "!", "?:0", ".f", "[0]", "(1)", " => (a, b)", "...", ", d", " + 1"}

func comboCount() int { return len(comboCtx) * len(comboOperand) * len(comboRange) * len(comboSuffix) }

// comboFragment returns the i-th combination: the statement and the bare expression.
func comboFragment(i int) (stmt, expr string) {
	c := comboCtx[i%len(comboCtx)]
	i /= len(comboCtx)
	o := comboOperand[i%len(comboOperand)]
	i /= len(comboOperand)
	r := comboRange[i%len(comboRange)]
	i /= len(comboRange)
	s := comboSuffix[i%len(comboSuffix)]
	e := strings.ReplaceAll(r, "%s", o) + s
	return strings.Replace(c, "%s", e, 1), e
}

func (g *xgen) exprList(d, max int) string {
	n := g.r.Intn(max + 1)
	parts := make([]string, n)
	for i := range parts {
		parts[i] = g.expr(d)
	}
	return strings.Join(parts, ", ")
}

func (g *xgen) elem(d int) string { // element of a literal: plain, key: value, nested literal, spread
	switch g.r.Intn(8) {
	case 0, 1, 2:
		return g.expr(d)
	case 3, 4:
		return g.expr(d) + ": " + g.expr(d)
	case 5:
		return "{" + g.elems(d-1) + "}"
	case 6:
		return g.expr(d) + "..."
	}
	return g.ident() + ": {" + g.elems(d-1) + "}"
}

func (g *xgen) elems(d int) string {
	if d < 0 {
		return ""
	}
	n := g.r.Intn(4)
	parts := make([]string, n)
	for i := range parts {
		parts[i] = g.elem(d)
	}
	s := strings.Join(parts, ", ")
	if n > 0 && g.r.Chance(15) {
		s += ","
	}
	return s
}

func (g *xgen) forPhrases(d int) string {
	var sb strings.Builder
	for i := 1 + g.r.Intn(2); i > 0; i-- {
		sb.WriteString(" for ")
		sb.WriteString(g.pick("x", "k, v", "_, v", "i", "a, b, c", ""))
		sb.WriteString(g.pick(" in ", " <- ", " in ", " := range "))
		sb.WriteString(g.pick(g.expr(d), g.rangeExpr(d)))
		switch g.r.Intn(5) {
		case 0:
			sb.WriteString(" if " + g.expr(d))
		case 1:
			sb.WriteString(", " + g.expr(d))
		case 2:
			sb.WriteString(" if t := " + g.expr(d) + "; " + g.expr(d))
		}
	}
	return sb.String()
}

func (g *xgen) rangeExpr(d int) string {
	g.hit("rangeexpr")
	return g.pick(g.expr(d)+":"+g.expr(d), ":"+g.expr(d), g.expr(d)+":"+g.expr(d)+":"+g.expr(d), ":"+g.expr(d)+":"+g.expr(d), g.expr(d)+":", ":")
}

func (g *xgen) lambda(d int) string {
	lhs := g.pick("x", "(x)", "(x, y)", "()", "", "_", "(a, b, c)", "(x, 1)", "x.y", "(x...)", "f(x)")
	switch g.r.Intn(6) {
	case 0, 1:
		g.hit("lambda_expr")
		return lhs + " => " + g.expr(d)
	case 2:
		g.hit("lambda_tuple")
		return lhs + " => (" + g.exprList(d, 3) + ")"
	case 3, 4:
		g.hit("lambda_block")
		return lhs + " => {" + g.stmts(d, 1+g.r.Intn(3), "; ") + "}"
	}
	g.hit("lambda_block_elems") // a block body that looks like a literal: labels, key: value, lists
	return lhs + " => {" + g.elems(d) + "}"
}

func (g *xgen) expr(d int) string {
	if d <= 0 {
		return g.atom()
	}
	d--
	switch g.r.Intn(34) {
	case 0, 1:
		return g.atom()
	case 2:
		return g.pick("-", "!", "^", "&", "*", "<-", "+") + g.expr(d)
	case 3, 4, 5:
		g.hit("binary")
		return g.expr(d) + " " + g.pick("+", "-", "*", "/", "%", "&", "|", "^", "<<", ">>", "&^", "&&", "||", "==", "!=", "<", "<=", ">", ">=", "->", "<>", "=") + " " + g.expr(d)
	case 6:
		return "(" + g.expr(d) + ")"
	case 7:
		g.hit("tuple")
		return "(" + g.exprList(d, 3) + g.pick("", "...", ",") + ")"
	case 8, 9:
		return g.expr(d) + "(" + g.exprList(d, 3) + g.pick("", "", "...", ",") + ")"
	case 10:
		return g.expr(d) + "[" + g.pick(g.expr(d), g.exprList(d, 2), g.expr(d)+":"+g.expr(d), ":", g.expr(d)+":", ":"+g.expr(d)+":"+g.expr(d), "") + "]"
	case 11:
		return g.expr(d) + "." + g.pick(g.ident(), "(T)", "(type)", "goto", "break", "("+g.expr(d)+")", "1", "")
	case 12, 13:
		g.hit("errwrap")
		return g.expr(d) + g.pick("!", "?", "?:"+g.expr(d), "!!", "?.x", "! ", "?:")
	case 14, 15, 16:
		return g.lambda(d)
	case 17:
		g.hit("funclit")
		return "func(" + g.pick("", "a int", "a, b int", "xs ...int", "int, string") + ")" + g.pick("", " int", " (int, error)", " (r int)") + " {" + g.stmts(d, g.r.Intn(3), "; ") + "}" + g.pick("", "()", "("+g.expr(d)+")")
	case 18, 19:
		g.hit("complit")
		return g.pick("T", "[]int", "map[string]int", "&T", "[...]T", "struct{ x int }", "pkg.T", "T[int]", "[]T", "") + "{" + g.elems(d) + "}"
	case 20, 21:
		g.hit("slicelit")
		return "[" + g.pick(g.exprList(d, 4), g.exprList(d, 2)+"...", g.expr(d)+"..., "+g.expr(d), "", g.exprList(d, 2)+",") + "]"
	case 22:
		g.hit("matrixlit")
		return "[" + g.exprList(d, 3) + "; " + g.exprList(d, 3) + g.pick("", "; "+g.exprList(d, 2), ";", "...") + "]"
	case 23, 24:
		g.hit("list_comprehension")
		return "[" + g.pick(g.expr(d), g.expr(d)+", "+g.expr(d), g.expr(d)+": "+g.expr(d), "") + g.forPhrases(d) + "]"
	case 25, 26:
		g.hit("map_comprehension")
		return "{" + g.pick(g.expr(d)+": "+g.expr(d), g.expr(d), "", g.expr(d)+", "+g.expr(d), g.expr(d)+": "+g.expr(d)+", "+g.expr(d)) + g.forPhrases(d) + "}"
	case 27:
		return g.rangeExpr(d)
	case 28:
		g.hit("generic_inst")
		return g.ident() + "[" + g.pick("int", "int, string", "[]T", "T[int]") + "]" + g.pick("", "("+g.exprList(d, 2)+")", "{"+g.elems(d)+"}")
	case 29:
		return g.pick("[]byte", "string", "T", "(*T)", "chan<- int", "func()") + "(" + g.expr(d) + ")"
	case 30:
		g.hit("select_expr")
		return g.expr(d) + g.pick(".$x", ".*.x", ".**.x", ".x.*", ".$\"a\"")
	}
	return g.atom()
}

func (g *xgen) label() string {
	if g.nlab == 0 || g.r.Chance(30) {
		g.nlab++
	}
	return fmt.Sprintf("L%d", 1+g.r.Intn(g.nlab))
}

func (g *xgen) block(d int) string {
	return "{" + g.pick("\n", " ") + g.stmts(d, g.r.Intn(3), g.pick("\n", "; ")) + g.pick("\n", " ") + "}"
}

func (g *xgen) stmts(d, n int, sep string) string {
	parts := make([]string, n)
	for i := range parts {
		parts[i] = g.stmt(d)
	}
	return strings.Join(parts, sep)
}

func (g *xgen) stmt(d int) string {
	if d <= 0 {
		return g.pick(g.ident(), g.ident()+" = "+g.atom(), g.ident()+"++", "return", "break", "")
	}
	d--
	switch g.r.Intn(40) {
	case 0, 1:
		return g.expr(d)
	case 2, 3, 4, 5:
		g.hit("command_call")
		callee := g.pick("println", "echo", "f", "obj.method", "a.b.c", "x!", "goto", "type", "map", "f(x).g", "xs[0]")
		return callee + " " + g.pick(g.exprList(d, 3), g.expr(d)+"...", g.lambda(d), "["+g.exprList(d, 2)+"]", "{"+g.elems(d)+"}", "-"+g.expr(d), "("+g.exprList(d, 2)+")", "("+g.exprList(d, 2)+") "+g.expr(d), "!", "=> "+g.expr(d), g.expr(d)+", "+g.lambda(d), "<-"+g.expr(d), "*"+g.expr(d), "&"+g.expr(d))
	case 6, 7:
		return g.exprList(d, 2) + " " + g.pick("=", ":=", "+=", "-=", "<<=", "&^=", "|=") + " " + g.exprList(d, 2)
	case 8:
		return g.expr(d) + g.pick("++", "--")
	case 9:
		g.hit("send")
		return g.expr(d) + " <- " + g.pick(g.expr(d), g.exprList(d, 3), g.expr(d)+"...")
	case 10:
		return "return " + g.exprList(d, 2)
	case 11, 12:
		g.hit("label")
		return g.label() + ": " + g.stmt(d)
	case 13, 14:
		g.hit("branch")
		return g.pick("goto ", "break ", "continue ", "goto", "break", "continue", "fallthrough") + g.pick(g.label(), "", g.expr(d), "("+g.expr(d)+")", g.label()+", "+g.expr(d))
	case 15, 16:
		return "if " + g.pick("", g.stmt(0)+"; ") + g.expr(d) + " " + g.block(d) + g.pick("", " else "+g.block(d), " else if "+g.expr(d)+" "+g.block(d), " else")
	case 17, 18, 19, 20:
		g.hit("for")
		hdr := g.pick(
			"", g.expr(d), "i := 0; i < n; i++", "; ;", g.stmt(0)+"; "+g.expr(d)+"; "+g.stmt(0),
			"x in "+g.expr(d), "k, v in "+g.expr(d)+" if "+g.expr(d), "x <- "+g.expr(d), "a, b, c in "+g.expr(d),
			"i, v := range "+g.expr(d), "range "+g.expr(d), "i = range "+g.expr(d), "x in "+g.rangeExpr(d), g.rangeExpr(d),
			"x in "+g.expr(d)+" if t := "+g.expr(d)+"; "+g.expr(d), "_ in "+g.expr(d), "x, in "+g.expr(d), "in "+g.expr(d), "x in", "i := range 10")
		return "for " + hdr + " " + g.block(d)
	case 21:
		g.hit("switch")
		return "switch " + g.pick("", g.expr(d), "x := "+g.expr(d)+"; x", "v := x.(type)", "x.(type)") + " {\ncase " + g.pick(g.exprList(d, 2), "int, []T", "nil") + ":\n" + g.stmt(d) + g.pick("", "\nfallthrough") + "\ndefault:\n" + g.stmt(d) + "\n}"
	case 22:
		g.hit("select")
		return "select {\ncase " + g.pick("x := <-ch", "ch <- "+g.expr(d), "<-ch", "x, ok = <-ch", g.expr(d), "ch <- a, b") + ":\n" + g.stmt(d) + "\ndefault:\n}"
	case 23:
		return g.pick("defer ", "go ") + g.pick(g.expr(d), "f()", "func() {"+g.stmt(d)+"}()", g.lambda(d), "f x")
	case 24, 25:
		g.hit("decl_stmt")
		return g.pick("var ", "const ") + g.pick(g.ident()+" = "+g.expr(d), g.ident()+" int", g.ident()+", "+g.ident()+" = "+g.exprList(d, 2), "(\na = "+g.expr(d)+"\nb\n)", g.ident()+" []int = "+g.expr(d), "("+g.ident()+" T; *T; pkg.T)", "")
	case 26:
		return "type " + g.pick("T struct{ x int }", "T = int", "T int", "(\nA int\nB = A\n)", "T[K any] struct{}", "T interface{ M(); ~int | string }", "T")
	case 27:
		return g.block(d)
	case 28:
		return g.lambda(d)
	case 29:
		g.hit("func_decl")
		return "func " + g.pick("f", "(t T) m", "(T).m", "(t *T) +", "+", "f[T any]", ".m", "T.m", "(a, b)", "") + g.pick("()", "(a int) int", "(a, b int, xs ...string) (r int, err error)", " = (f1, f2)", " = (\nf1\nfunc(a int) {}\n(T).m\n)", "(") + " " + g.pick(g.block(d), "", "{")
	case 30:
		return "import " + g.pick(`"fmt"`, `f "fmt"`, `. "x"`, `(`+"\n"+`"a"`+"\n"+`_ "b"`+"\n)", `""`, "x")
	}
	return g.expr(d)
}

// fragment returns one generated text and whether it is an expression.
func genFragment(r *vh.Rand, feat map[string]int) (string, bool) {
	g := &xgen{r: r, feat: feat}
	d := 1 + r.Intn(4)
	if r.Chance(45) {
		return g.expr(d), true
	}
	return g.stmts(d, 1+r.Intn(4), g.pick("\n", "; ", "\n\n")) + "\n", false
}

// wrappings of a fragment as a file
func wrapFragment(frag string, isExpr bool, r *vh.Rand) string {
	if isExpr {
		switch r.Intn(6) {
		case 0:
			return "x := " + frag + "\n"
		case 1:
			return "var x = " + frag + "\n"
		case 2:
			return "package p\n\nvar (\n\tx = " + frag + "\n\ty int\n)\n"
		case 3:
			return "func f() {\n\treturn " + frag + "\n}\n"
		case 4:
			return "println " + frag + "\n"
		}
		return frag + "\n"
	}
	switch r.Intn(5) {
	case 0:
		return "func f() {\n" + frag + "}\n"
	case 1:
		return "package main\n\nfunc (t *T) m(a int) (r int) {\n" + frag + "}\n"
	case 2:
		return "var (\n\tx int\n\t*T\n)\n\n" + frag
	case 3:
		return "x := () => {\n" + frag + "}\n"
	}
	return frag
}
