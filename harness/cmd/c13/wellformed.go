package main

// The "nil error => well-formed tree" oracle: besides Bad* nodes, a tree returned without an
// error must consist of node types of package ast only (the parser's private helper nodes, e.g.
// *parser.tupleExpr, must not leak), must not hold nil entries in its node lists or nil required
// children, and Pos()/End() of every node must not panic, satisfy Pos <= End and stay within
// the file.

import (
	"fmt"
	"reflect"
	"strings"

	xast "github.com/goplus/xgo/ast"
	xtoken "github.com/goplus/xgo/token"
	"verifharness/pgo"
)

var okNodePkgs = map[string]bool{
	"github.com/goplus/xgo/ast":     true,
	"go/ast":                        true, // Comment, CommentGroup are aliases
	"github.com/goplus/xgo/tpl/ast": true, // DomainTextLit.Extra of tpl`...`
}

// children that the grammar requires (Type.Field); a nil there with a nil error is a defect
var requiredChild = map[string]bool{
	"BinaryExpr.X": true, "BinaryExpr.Y": true, "UnaryExpr.X": true, "StarExpr.X": true, "ParenExpr.X": true,
	"CallExpr.Fun": true, "SelectorExpr.X": true, "SelectorExpr.Sel": true, "IndexExpr.X": true, "IndexExpr.Index": true,
	"IndexListExpr.X": true, "SliceExpr.X": true, "TypeAssertExpr.X": true, "KeyValueExpr.Key": true, "KeyValueExpr.Value": true,
	"ErrWrapExpr.X": true, "FuncLit.Type": true, "FuncLit.Body": true, "ArrayType.Elt": true, "MapType.Key": true, "MapType.Value": true,
	"ChanType.Value": true, "ExprStmt.X": true, "SendStmt.Chan": true, "IncDecStmt.X": true, "LabeledStmt.Label": true,
	"LabeledStmt.Stmt": true, "GoStmt.Call": true, "DeferStmt.Call": true, "IfStmt.Cond": true, "IfStmt.Body": true,
	"ForStmt.Body": true, "RangeStmt.X": true, "RangeStmt.Body": true, "SwitchStmt.Body": true, "TypeSwitchStmt.Assign": true,
	"TypeSwitchStmt.Body": true, "SelectStmt.Body": true, "DeclStmt.Decl": true, "FuncDecl.Name": true, "FuncDecl.Type": true,
	"TypeSpec.Name": true, "TypeSpec.Type": true, "ImportSpec.Path": true, "File.Name": true, "LambdaExpr2.Body": true,
	"ForPhraseStmt.Body": true, "ForPhrase.X": true, "ComprehensionExpr.Fors": true, "RangeExpr.Last": false,
}

var nodeIface = reflect.TypeOf((*xast.Node)(nil)).Elem()

// treeProblem returns a key and a detail for the first problem found ("" if none).
func treeProblem(tree interface{}, srcLen int) (key, detail string) {
	limit := xtoken.Pos(1 + srcLen + 1) // base 1; File.End of a script may be one past the size (recorded C17 finding)
	var walk func(v reflect.Value, owner string)
	seen := map[uintptr]bool{}
	set := func(k, d string) {
		if key == "" {
			key, detail = k, d
		}
	}
	walk = func(v reflect.Value, owner string) {
		if key != "" {
			return
		}
		switch v.Kind() {
		case reflect.Interface:
			if !v.IsNil() {
				walk(v.Elem(), owner)
			}
		case reflect.Ptr:
			if v.IsNil() {
				return
			}
			t := v.Type().Elem()
			if t.Kind() != reflect.Struct {
				return
			}
			if t.Name() == "Object" || t.Name() == "Scope" {
				return
			}
			if seen[v.Pointer()] {
				return
			}
			seen[v.Pointer()] = true
			if !okNodePkgs[t.PkgPath()] {
				set("foreign-node:"+strings.TrimPrefix(v.Type().String(), "*"), "reached through "+owner)
				return
			}
			switch t.Name() {
			case "BadExpr", "BadStmt", "BadDecl":
				if t.PkgPath() == "github.com/goplus/xgo/ast" {
					set("nil-error-with-"+t.Name(), "error is nil but the tree holds a "+t.Name())
					return
				}
			}
			if v.Type().Implements(nodeIface) && t.PkgPath() == "github.com/goplus/xgo/ast" {
				func() {
					defer func() {
						if e := recover(); e != nil {
							set("pos-panic:"+t.Name(), fmt.Sprint(e))
						}
					}()
					n := v.Interface().(xast.Node)
					p, e := n.Pos(), n.End()
					if p.IsValid() && e.IsValid() {
						if p > e {
							set("pos-after-end:"+t.Name(), fmt.Sprintf("Pos %d > End %d", p, e))
						} else if e > limit {
							set("end-outside-file:"+t.Name(), fmt.Sprintf("End %d, file ends at %d", e, limit-1))
						}
					}
				}()
			}
			walk(v.Elem(), t.Name())
		case reflect.Struct:
			t := v.Type()
			for i := 0; i < v.NumField(); i++ {
				f := t.Field(i)
				if !f.IsExported() {
					continue
				}
				fv := v.Field(i)
				if requiredChild[owner+"."+f.Name] && (fv.Kind() == reflect.Interface || fv.Kind() == reflect.Ptr || fv.Kind() == reflect.Slice) && fv.IsNil() {
					set("nil-child:"+owner+"."+f.Name, "required child is nil")
					return
				}
				walk(fv, owner+"."+f.Name)
			}
		case reflect.Slice:
			et := v.Type().Elem()
			for i := 0; i < v.Len(); i++ {
				ev := v.Index(i)
				if (et.Kind() == reflect.Interface || et.Kind() == reflect.Ptr) && ev.IsNil() && et.Implements(nodeIface) {
					set("nil-element:"+owner, fmt.Sprintf("element %d of the node list is nil", i))
					return
				}
				walk(ev, owner)
			}
		}
	}
	walk(reflect.ValueOf(tree), "root")
	return
}

var _ = pgo.WalkNodes
