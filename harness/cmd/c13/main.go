// Harness for C13: the XGo parser never panics or hangs, reports errors sorted by position,
// and a nil error means a tree without Bad nodes — in every parse mode.
//
// (1) search / property oracle: corpus files of the tree under test (.go .xgo .gop .gox .spx
//     .gsh .gmx) mutated at token boundaries of the REAL scanner (delete / duplicate / swap /
//     insert XGo-specific tokens / unbalanced brackets / NUL / invalid UTF-8 / truncation at
//     every offset / splices), parsed in-process through every entry point and mode
//     combination under recover and a watchdog.
// (2) correspondence of Model/ParserErr.lean with the real parser.error and parser.advance
//     (verif-tagged exports VerifErrorSeq / VerifAdvanceScript): `perr` and `adv` cases.
package main

import (
	"bytes"
	"flag"
	"fmt"
	"math"
	"os"
	"os/exec"
	"path/filepath"
	"reflect"
	"runtime/debug"
	"sort"
	"strings"
	"sync/atomic"
	"syscall"
	"time"

	xast "github.com/goplus/xgo/ast"
	xparser "github.com/goplus/xgo/parser"
	xscanner "github.com/goplus/xgo/scanner"
	xtoken "github.com/goplus/xgo/token"
	"verifharness/pgo"
	"verifharness/vh"
)

var out *vh.Out
var keySeen = map[string]int{}

// ---- entry points and modes ----------------------------------------------------

type entry struct {
	name string
	run  func(src []byte) (tree interface{}, err error, wantTree bool)
}

func fileEntry(label, fname string, mode xparser.Mode) entry {
	return entry{label, func(src []byte) (interface{}, error, bool) {
		f, err := xparser.ParseFile(xtoken.NewFileSet(), fname, src, mode)
		return f, err, true
	}}
}

func entryEntry(label, fname string, conf xparser.Config) entry {
	return entry{label, func(src []byte) (interface{}, error, bool) {
		f, err := xparser.ParseEntry(xtoken.NewFileSet(), fname, src, conf)
		return f, err, true
	}}
}

var entries = []entry{
	fileEntry("file:xgo:0", "a.xgo", 0),
	fileEntry("file:xgo:comments", "a.xgo", xparser.ParseComments),
	fileEntry("file:xgo:allerrors", "a.xgo", xparser.AllErrors),
	fileEntry("file:xgo:comments+allerrors", "a.xgo", xparser.ParseComments|xparser.AllErrors),
	fileEntry("file:xgo:declerrors", "a.xgo", xparser.DeclarationErrors|xparser.ParseComments),
	fileEntry("file:xgo:importsonly", "a.xgo", xparser.ImportsOnly),
	fileEntry("file:xgo:pkgclause", "a.xgo", xparser.PackageClauseOnly|xparser.ParseComments),
	fileEntry("file:go:goasxgo", "a.go", xparser.ParseGoAsGoPlus|xparser.ParseComments),
	fileEntry("file:go:goasxgo+allerrors", "a.go", xparser.ParseGoAsGoPlus|xparser.AllErrors|xparser.DeclarationErrors),
	fileEntry("file:gop:saveabs", "a.gop", xparser.SaveAbsFile),
	fileEntry("class:flag", "a.gox", xparser.ParseGoPlusClass),
	fileEntry("class:flag+comments+allerrors", "main.spx", xparser.ParseGoPlusClass|xparser.ParseComments|xparser.AllErrors),
	entryEntry("class:entry:gox", "Rect.gox", xparser.Config{}),
	entryEntry("class:entry:spx", "main.spx", xparser.Config{Mode: xparser.ParseComments}),
	entryEntry("class:entry:gsh", "x.gsh", xparser.Config{Mode: xparser.AllErrors}),
	entryEntry("class:entry:classkind", "hello.tyap", xparser.Config{
		ClassKind: func(fname string) (isProj, ok bool) { return strings.HasPrefix(fname, "main"), strings.HasSuffix(fname, "yap") },
		Mode:      xparser.ParseComments | xparser.DeclarationErrors}),
	entryEntry("file:entry:xgo", "a.xgo", xparser.Config{Mode: xparser.ParseComments}),
	{"expr:ParseExpr", func(src []byte) (interface{}, error, bool) {
		e, err := xparser.ParseExpr(string(src))
		return e, err, false
	}},
	{"expr:ParseExprFrom:allerrors", func(src []byte) (interface{}, error, bool) {
		e, err := xparser.ParseExprFrom(xtoken.NewFileSet(), "", src, xparser.AllErrors)
		return e, err, false
	}},
	{"expr:ParseExprEx", func(src []byte) (interface{}, error, bool) {
		fset := xtoken.NewFileSet()
		file := fset.AddFile("", -1, len(src))
		e, errs := xparser.ParseExprEx(file, src, 0, 0)
		return e, errs.Err(), false
	}},
	{"expr:ParseExprEx:offset+allerrors", func(src []byte) (interface{}, error, bool) {
		fset := xtoken.NewFileSet()
		file := fset.AddFile("", -1, len(src))
		off := len(src) / 3
		e, errs := xparser.ParseExprEx(file, src, off, xparser.AllErrors)
		return e, errs.Err(), false
	}},
}

// ---- the oracle ------------------------------------------------------------------

type running struct {
	start    time.Time
	startCPU time.Duration // CPU time of the process when the case started
	entry    string
	src      []byte
}

var current atomic.Value // *running or nil

// Hang detection is by CPU time, not wall-clock time (the machine may be heavily loaded): a parse
// that has burnt cpuBudget of process CPU time is a hang; one that merely has not finished within
// wallCap without using the budget is inconclusive (counted, never a violation).
const cpuBudget = 20 * time.Second
const wallCap = 10 * time.Minute

func processCPU() time.Duration {
	var ru syscall.Rusage
	if syscall.Getrusage(syscall.RUSAGE_SELF, &ru) != nil {
		return 0
	}
	return time.Duration(ru.Utime.Nano() + ru.Stime.Nano())
}

func caseLine(entry string, src []byte) string { return "parse\t" + entry + "\t" + vh.Hex(src) }

func oracle(key, entry string, src []byte, detail string) {
	keySeen[key]++
	out.Count("oracle_" + key)
	if keySeen[key] <= 2 {
		out.Oracle(key, caseLine(entry, src), detail)
	}
}

// panicKey classifies an escaped panic by the innermost frame inside the repository.
func panicKey(msg string, stack []byte) string {
	st := string(stack)
	if strings.Contains(msg, "index out of range [1] with length 1") && strings.Contains(st, "scanner.(*Scanner).scanComment") {
		return "scanner-hash-eof"
	}
	// the innermost panic: frames below the last "panic(" line of the trace
	lines := strings.Split(st, "\n")
	from := 0
	for i, line := range lines {
		if strings.HasPrefix(line, "panic(") {
			from = i
		}
	}
	for _, line := range lines[from:] {
		if i := strings.Index(line, "github.com/goplus/xgo/"); i >= 0 && !strings.HasPrefix(line, "\t") {
			fn := line[i+len("github.com/goplus/xgo/"):]
			if j := strings.LastIndex(fn, "("); j > 0 {
				fn = fn[:j]
			}
			if strings.Contains(fn, "Verif") {
				continue
			}
			return "panic-" + strings.NewReplacer("(*", "", ")", "", "/", ".").Replace(fn)
		}
	}
	return "panic-unknown"
}

func badKind(tree interface{}) string {
	bad := ""
	pgo.WalkNodes(reflect.ValueOf(tree), func(n interface{}) {
		switch n.(type) {
		case *xast.BadExpr:
			bad = "BadExpr"
		case *xast.BadStmt:
			bad = "BadStmt"
		case *xast.BadDecl:
			bad = "BadDecl"
		}
	})
	return bad
}

// check runs one entry on one input and evaluates the property; returns a short outcome.
func check(e entry, src []byte) (outcome string) {
	current.Store(&running{time.Now(), processCPU(), e.name, src})
	defer current.Store((*running)(nil))
	var tree interface{}
	var err error
	var wantTree bool
	func() {
		defer func() {
			if r := recover(); r != nil {
				key := panicKey(fmt.Sprint(r), debug.Stack())
				oracle(key, e.name, src, fmt.Sprintf("%v", r))
				outcome = "PANIC"
			}
		}()
		tree, err, wantTree = e.run(src)
	}()
	if outcome != "" {
		return
	}
	if err == nil {
		if tree != nil && !reflect.ValueOf(tree).IsNil() {
			if k, d := treeProblem(tree, len(src)); k != "" {
				oracle(k, e.name, src, d)
			}
		} else if wantTree {
			oracle("nil-ast", e.name, src, "no tree and no error")
		}
		return "ok"
	}
	if err == xparser.ErrUnknownFileKind {
		return "unknownkind"
	}
	el, isList := err.(xscanner.ErrorList)
	if !isList {
		oracle("error-not-a-list", e.name, src, fmt.Sprintf("%T %v", err, err))
		return "err"
	}
	if wantTree && (tree == nil || reflect.ValueOf(tree).IsNil()) {
		oracle("nil-ast", e.name, src, "no tree returned with errors")
	}
	for i := 1; i < len(el); i++ {
		a, b := el[i-1].Pos, el[i].Pos
		// the order of scanner.ErrorList.Sort (as go/scanner): reported file name (line directives), line, column
		if a.Filename > b.Filename || (a.Filename == b.Filename && (a.Line > b.Line || (a.Line == b.Line && a.Column > b.Column))) {
			oracle("unsorted-errors-"+strings.SplitN(e.name, ":", 2)[0]+"-"+strings.Split(e.name, ":")[1], e.name, src,
				fmt.Sprintf("error %d at %d:%d precedes error at %d:%d", i-1, a.Line, a.Column, b.Line, b.Column))
			break
		}
	}
	if len(el) > 11 {
		out.Count("more_than_11_errors")
	}
	return "err"
}

func watchdog() {
	for {
		time.Sleep(250 * time.Millisecond)
		r, _ := current.Load().(*running)
		if r == nil {
			continue
		}
		if used := processCPU() - r.startCPU; used > cpuBudget {
			oracle("hang-"+strings.SplitN(r.entry, ":", 2)[0], r.entry, r.src, fmt.Sprintf("no result after %v of CPU time", cpuBudget))
			out.Count("aborted_after_hang")
			out.Close()
			os.Exit(0)
		}
		if time.Since(r.start) > wallCap {
			// starved, not hung: give up on the rest of the run without a verdict
			out.Count("inconclusive_wall_cap_in_process")
			out.Close()
			os.Exit(0)
		}
	}
}

// ---- mutation ---------------------------------------------------------------------

var inserts = []string{
	"=>", "->", "<>", "?", "!", "${x}", "$x", "${", "1r", "1km", "3.5s", "c\"x\"", "py\"x\"", "tpl`a = b`", "html`> a, b\n<p>`",
	"#", "#!", "//", "/*", "*/", "..", "...", "<-", "@", "~", "`", "\"", "'", "in", "for", "if", "func", "(", ")", "[", "]", "{", "}",
	",", ";", ":", ":=", "=", "\n", "case", "default", "goto", "break", "type", "map", "chan", "interface", "struct", "import", "package p",
	"var", "const", "return", "defer", "go", "select", "switch", "range", "else", "fallthrough", "continue", "x", "0", "\"${a}\"", "\"$$\"",
	"\"${\"", "\"${a b}\"", "\"${a}${\"", "[1, 2; 3, 4]", "[x for x in y]", "{for k, v in m}", "x!", "x?:1", "$HOME", "${HOME}", "a...", "..b",
	"\x00", "\xff", "\xc0\x80", "\xef\xbb\xbf", "\r", "\u2028", "é", "世", "0x", "1e", "1__0", "'", "''", "'ab'", "\\", "0b2", "09", "1i", "1.e+",
}

func tokenBoundaries(src []byte) []int {
	toks, _, ok := pgo.ScanAll(src)
	var b []int
	if ok {
		for _, t := range toks {
			b = append(b, t.Pos, t.End)
		}
	}
	if len(b) == 0 {
		for i := 0; i <= len(src); i += 1 + len(src)/50 {
			b = append(b, i)
		}
	}
	sort.Ints(b)
	return b
}

type tokSpan struct{ s, e int }

func tokSpans(src []byte) []tokSpan {
	toks, _, ok := pgo.ScanAll(src)
	var r []tokSpan
	if ok {
		for _, t := range toks {
			if t.End > t.Pos && t.End <= len(src) && (len(r) == 0 || t.Pos >= r[len(r)-1].e) {
				r = append(r, tokSpan{t.Pos, t.End})
			}
		}
	}
	return r
}

func cat(parts ...[]byte) []byte {
	var b []byte
	for _, p := range parts {
		b = append(b, p...)
	}
	return b
}

// mutate applies 1..4 token-level mutations.
func mutate(src []byte, other []byte, r *vh.Rand) ([]byte, string) {
	kinds := ""
	n := 1 + r.Intn(4)
	for k := 0; k < n; k++ {
		sp := tokSpans(src)
		bd := tokenBoundaries(src)
		if len(bd) == 0 {
			bd = []int{0}
		}
		at := bd[r.Intn(len(bd))]
		if at > len(src) {
			at = len(src)
		}
		op := r.Intn(12)
		if len(sp) < 2 && op < 4 {
			op = 4
		}
		switch op {
		case 0: // delete a token
			t := sp[r.Intn(len(sp))]
			src = cat(src[:t.s], src[t.e:])
			kinds += "D"
		case 1: // duplicate a token
			t := sp[r.Intn(len(sp))]
			src = cat(src[:t.e], []byte(" "), src[t.s:t.e], src[t.e:])
			kinds += "U"
		case 2: // swap two adjacent tokens
			i := r.Intn(len(sp) - 1)
			a, b := sp[i], sp[i+1]
			src = cat(src[:a.s], src[b.s:b.e], src[a.e:b.s], src[a.s:a.e], src[b.e:])
			kinds += "S"
		case 3: // replace a token by an XGo-specific / odd one
			t := sp[r.Intn(len(sp))]
			src = cat(src[:t.s], []byte(r.Pick(inserts)), src[t.e:])
			kinds += "R"
		case 4, 5, 6: // insert at a token boundary
			ins := r.Pick(inserts)
			if r.Chance(50) {
				ins = " " + ins + " "
			}
			src = cat(src[:at], []byte(ins), src[at:])
			kinds += "I"
		case 7: // truncate
			src = append([]byte{}, src[:at]...)
			kinds += "T"
		case 8: // flip a byte
			if len(src) > 0 {
				src = append([]byte{}, src...)
				src[r.Intn(len(src))] = byte(r.Intn(256))
			}
			kinds += "F"
		case 9: // splice with another corpus file at token boundaries
			ob := tokenBoundaries(other)
			if len(ob) > 0 {
				o := ob[r.Intn(len(ob))]
				if o > len(other) {
					o = len(other)
				}
				if r.Bool() {
					src = cat(src[:at], other[o:])
				} else {
					src = cat(other[:o], src[at:])
				}
			}
			kinds += "X"
		case 10: // remove a line break / add one
			if i := strings.IndexByte(string(src[at:]), '\n'); i >= 0 && r.Bool() {
				src = cat(src[:at+i], []byte(" "), src[at+i+1:])
			} else {
				src = cat(src[:at], []byte("\n"), src[at:])
			}
			kinds += "N"
		case 11: // repeat a region many times (long error cascades, more than 10 error lines)
			t := at + 1 + r.Intn(40)
			if t > len(src) {
				t = len(src)
			}
			rep := src[at:t]
			var b []byte
			for i := 0; i < 12+r.Intn(6); i++ {
				b = append(b, rep...)
				b = append(b, '\n')
			}
			src = cat(src[:at], b, src[at:])
			kinds += "P"
		}
	}
	return src, kinds
}

// ---- correspondence cases for the Lean model -----------------------------------------

// perrCase: a random error-event script, run through the real parser.error.
func perrCase(r *vh.Rand) {
	const lines, width = 24, 9
	src := []byte(strings.Repeat(strings.Repeat(" ", width)+"\n", lines))
	all := r.Chance(30)
	n := r.Intn(36)
	if r.Chance(15) {
		n = 40 + r.Intn(30)
	}
	mode := xparser.Mode(0)
	if all {
		mode = xparser.AllErrors
	}
	var evs []xparser.VerifErrEvent
	var parts []string
	mk := func() (off int, msg string, txt string) {
		line, col, m := 1+r.Intn(lines), 1+r.Intn(width), r.Intn(4)
		if r.Chance(40) { // clustered lines: same-line discards and out-of-order reports
			line = 1 + r.Intn(4)
		}
		return (line-1)*(width+1) + col - 1, fmt.Sprintf("m%02d", m), fmt.Sprintf("%d:%d:%d", line, col, m)
	}
	for i := 0; i < n; i++ {
		switch k := r.Intn(10); {
		case k < 6:
			o, m, t := mk()
			evs = append(evs, xparser.VerifErrEvent{Kind: 'p', Offset: []int{o}, Msg: []string{m}})
			parts = append(parts, "p"+t)
		case k < 8:
			o, m, t := mk()
			evs = append(evs, xparser.VerifErrEvent{Kind: 's', Offset: []int{o}, Msg: []string{m}})
			parts = append(parts, "s"+t)
		default:
			ev := xparser.VerifErrEvent{Kind: 'u'}
			var ts []string
			for j := r.Intn(4); j >= 0; j-- {
				o, m, t := mk()
				ev.Offset, ev.Msg = append(ev.Offset, o), append(ev.Msg, m)
				ts = append(ts, t)
			}
			evs = append(evs, ev)
			parts = append(parts, "u"+strings.Join(ts, ";"))
		}
	}
	cl := fmt.Sprintf("perr\t%d\t%s", map[bool]int{false: 0, true: 1}[all], strings.Join(parts, " "))
	if len(parts) == 0 {
		cl += "-"
	}
	out.Case(cl, runPerr(src, mode, evs), len(evs) >= 2)
	out.Count(fmt.Sprintf("perr_all_%v", all))
}

func runPerr(src []byte, mode xparser.Mode, evs []xparser.VerifErrEvent) (res string) {
	defer func() {
		if e := recover(); e != nil {
			res = fmt.Sprint("PANIC ", e)
		}
	}()
	raw, sorted, bailed := xparser.VerifErrorSeq(src, mode, evs)
	show := func(l xscanner.ErrorList) string {
		var ps []string
		for _, e := range l {
			var m int
			fmt.Sscanf(e.Msg, "m%d", &m)
			ps = append(ps, fmt.Sprintf("%d:%d:%d", e.Pos.Line, e.Pos.Column, m))
		}
		if len(ps) == 0 {
			return "-"
		}
		return strings.Join(ps, " ")
	}
	b := "run"
	if bailed {
		b = "bailout"
		out.Count("perr_bailout")
	}
	return b + " raw " + show(raw) + " sorted " + show(sorted)
}

// replayPerr rebuilds the events of a perr case line.
func replayPerr(all bool, events string) string {
	const lines, width = 24, 9
	src := []byte(strings.Repeat(strings.Repeat(" ", width)+"\n", lines))
	mode := xparser.Mode(0)
	if all {
		mode = xparser.AllErrors
	}
	var evs []xparser.VerifErrEvent
	if events != "-" {
		for _, e := range strings.Fields(events) {
			ev := xparser.VerifErrEvent{Kind: e[0]}
			for _, t := range strings.Split(e[1:], ";") {
				var line, col, m int
				fmt.Sscanf(t, "%d:%d:%d", &line, &col, &m)
				ev.Offset = append(ev.Offset, (line-1)*(width+1)+col-1)
				ev.Msg = append(ev.Msg, fmt.Sprintf("m%02d", m))
			}
			evs = append(evs, ev)
		}
	}
	return runPerr(src, mode, evs)
}

// productions counted on the emitted fragments (the generator's own counters would also count
// alternatives that were built but not chosen)
var xgenMarkers = map[string]string{
	"=> {": "lambda_block", "=> (": "lambda_tuple", "=>": "lambda", " for ": "comprehension_or_for", "!": "errwrap_or_not",
	"?:": "errwrap_default", "${": "env_or_interp", "`": "raw_or_domaintext", "; ": "matrix_or_stmt_sep", "...": "ellipsis",
	" in ": "for_in", "<-": "arrow", "goto": "goto", "L1:": "label", "select": "select", "switch": "switch", "km": "unit",
	"c\"": "cstring", "func": "func", "{}": "empty_braces", ": ": "key_value_or_label", "println ": "command_call", "[": "bracket",
}

var advOps = []string{"n", "s", "d", "e"}

func advCase(src []byte, r *vh.Rand) {
	toks, _, ok := pgo.ScanAll(src)
	if !ok || len(toks) > 400 {
		return
	}
	var sb strings.Builder
	n := 1 + r.Intn(60)
	for i := 0; i < n; i++ {
		if r.Chance(25) { // bursts of the same advance call at one position: the syncCnt limit
			op := r.Pick(advOps[1:])
			for j := 8 + r.Intn(8); j > 0; j-- {
				sb.WriteString(op)
			}
			continue
		}
		sb.WriteString(r.Pick(advOps))
	}
	script := sb.String()
	var ts []string
	for _, t := range toks {
		ts = append(ts, fmt.Sprintf("%s:%d", pgo.KindName(t.Kind), t.Pos+1))
	}
	cl := fmt.Sprintf("adv\t%s\t%s\t%s", script, strings.Join(ts, " "), vh.Hex(src))
	out.Case(cl, runAdv(src, script), len(toks) > 3)
	out.Count("adv_cases")
}

func runAdv(src []byte, script string) (res string) {
	defer func() {
		if e := recover(); e != nil {
			res = fmt.Sprint("PANIC ", e)
		}
	}()
	mode := xparser.Mode(0)
	states := xparser.VerifAdvanceScript(src, mode, script)
	var ps []string
	maxCnt := 0
	for _, s := range states {
		ps = append(ps, fmt.Sprintf("%d:%s:%d:%d", s.Pos, pgo.KindName(s.Tok), s.SyncPos, s.SyncCnt))
		if s.SyncCnt > maxCnt {
			maxCnt = s.SyncCnt
		}
	}
	out.Count(fmt.Sprintf("adv_max_synccnt_%02d", maxCnt))
	return strings.Join(ps, " ")
}

// ---- deep nesting in a child process (a stack overflow is fatal, not a panic) -----------

func deepInputs(n int) map[string]string {
	return map[string]string{
		"parens":   "x := " + strings.Repeat("(", n) + "1" + strings.Repeat(")", n) + "\n",
		"unary":    "x := " + strings.Repeat("-", n) + "1\n",
		"brackets": "x := " + strings.Repeat("[", n) + strings.Repeat("]", n) + "\n",
		"braces":   "x := " + strings.Repeat("{", n) + strings.Repeat("}", n) + "\n",
		"blocks":   "func f() " + strings.Repeat("{", n) + strings.Repeat("}", n) + "\n",
		"funclit":  "x := " + strings.Repeat("func() { ", n/4) + strings.Repeat("}", n/4) + "\n",
		"open":     "x := " + strings.Repeat("f(", n) + "\n",
		"ptrtype":  "var x " + strings.Repeat("*", n) + "int\n",
		"arrtype":  "var x " + strings.Repeat("[]", n) + "int\n",
		"selector": "x := a" + strings.Repeat(".b", n) + "\n",
		"binary":   "x := 1" + strings.Repeat(" + 1", n) + "\n",
		"errwrap":  "x := a" + strings.Repeat("!", n) + "\n",
		"lambda":   "x := " + strings.Repeat("a => ", n/2) + "1\n",
		"ifelse":   "func f() { " + strings.Repeat("if a { } else ", n/4) + "{ } }\n",
	}
}

func childDeep(kind string, n int) {
	src := deepInputs(n)[kind]
	// the default limit is 1 GB; a quarter of it keeps the probe cheap (the same shapes overflow
	// the default stack at four times the depth).  C13_MAXSTACK_MB overrides.
	mb := 256
	if v := os.Getenv("C13_MAXSTACK_MB"); v != "" {
		fmt.Sscan(v, &mb)
	}
	debug.SetMaxStack(mb << 20)
	_, err := xparser.ParseFile(xtoken.NewFileSet(), "a.xgo", src, 0)
	if err != nil {
		fmt.Println("deep-done err")
	} else {
		fmt.Println("deep-done ok")
	}
}

// childCPU reads utime+stime of a live process from /proc (clock ticks of 10 ms).
func childCPU(pid int) time.Duration {
	b, err := os.ReadFile(fmt.Sprintf("/proc/%d/stat", pid))
	if err != nil {
		return 0
	}
	st := string(b)
	if i := strings.LastIndexByte(st, ')'); i >= 0 { // skip "pid (comm)"
		st = st[i+1:]
	}
	f := strings.Fields(st)
	if len(f) < 13 {
		return 0
	}
	var ut, stt int64
	fmt.Sscan(f[11], &ut)
	fmt.Sscan(f[12], &stt)
	return time.Duration(ut+stt) * 10 * time.Millisecond
}

// deepRun parses one deep input in a child process.  verdict: "done", "overflow", "crash",
// "budget" (CPU budget exhausted), "inconclusive" (wall cap = 10x budget hit without using
// the CPU budget: starved by machine load).  cpu is the CPU time the child used.
func deepRun(kind string, depth int, budget time.Duration) (verdict string, cpu time.Duration, detail string) {
	cmd := exec.Command(os.Args[0], "-deepchild", kind, "-deepn", fmt.Sprint(depth))
	var buf bytes.Buffer
	cmd.Stdout, cmd.Stderr = &buf, &buf
	if err := cmd.Start(); err != nil {
		return "inconclusive", 0, err.Error()
	}
	done := make(chan error, 1)
	go func() { done <- cmd.Wait() }()
	start := time.Now()
	var err error
wait:
	for {
		select {
		case err = <-done:
			break wait
		case <-time.After(300 * time.Millisecond):
			c := childCPU(cmd.Process.Pid)
			if c > budget {
				verdict = "budget"
			} else if time.Since(start) > 10*budget {
				verdict = "inconclusive"
			}
			if verdict != "" {
				cmd.Process.Kill()
				<-done
				return verdict, c, ""
			}
		}
	}
	if ps := cmd.ProcessState; ps != nil {
		cpu = ps.UserTime() + ps.SystemTime()
	}
	s := buf.String()
	switch {
	case strings.Contains(s, "deep-done"):
		return "done", cpu, ""
	case strings.Contains(s, "stack overflow") || strings.Contains(s, "goroutine stack exceeds"):
		return "overflow", cpu, ""
	}
	if len(s) > 300 {
		s = s[:300]
	}
	return "crash", cpu, fmt.Sprintf("child failed: %v %s", err, s)
}

// runDeep probes the deep-nesting shapes in child processes, self-calibrating: each shape is
// first run at a small depth d0 and at 4*d0, the growth exponent of the CPU time is estimated
// (clamped to [1, 3]: parsing nested scopes is legitimately quadratic, and the Go runtime's
// stack scanning adds to it), and the time for the target depth is projected.  If the projection
// exceeds the base budget the target depth is reduced to what the budget allows.  Only a run
// that burns 5x its projected CPU time (and at least the base budget) counts as a hang — which a
// parser that merely grows polynomially cannot do, while a real endless loop exhausts the
// budget already at the small depths.  A polynomial-time parse is never reported.
func runDeep(n int, budget time.Duration, only []string) {
	kinds := make([]string, 0)
	for k := range deepInputs(1) {
		kinds = append(kinds, k)
	}
	sort.Strings(kinds)
	if only != nil {
		kinds = only
	}
	for _, k := range kinds {
		report := func(verdict string, depth int, limit time.Duration, detail string) bool {
			id := []byte(fmt.Sprintf("%s x %d", k, depth))
			switch verdict {
			case "done":
				return true
			case "budget":
				oracle("hang-deep-"+k, "deep:"+k, id, fmt.Sprintf("no result within %v of CPU time (5x the time projected from smaller depths, at least the base budget)", limit))
			case "inconclusive":
				out.Count("deep_inconclusive_wall_cap_" + k) // starved by machine load: no verdict
			case "overflow":
				out.Count("deep_stack_overflow_" + k)
				oracle("stack-overflow-deep-nesting", "deep:"+k, id, "fatal error: stack overflow (goroutine stack limit 256 MB) at nesting depth "+fmt.Sprint(depth))
			default:
				oracle("crash-deep-"+k, "deep:"+k, id, detail)
			}
			return false
		}
		d0 := n / 64
		if d0 < 500 {
			d0 = 500
		}
		if 4*d0 > n {
			d0 = n / 4
		}
		v0, t0, det := deepRun(k, d0, budget)
		if !report(v0, d0, budget, det) {
			continue
		}
		v1, t1, det := deepRun(k, 4*d0, budget)
		if !report(v1, 4*d0, budget, det) {
			continue
		}
		// exponent of growth between d0 and 4*d0 (timer resolution: floor of 20 ms)
		floor := 20 * time.Millisecond
		if t0 < floor {
			t0 = floor
		}
		if t1 < t0 {
			t1 = t0
		}
		e := math.Log(float64(t1)/float64(t0)) / math.Log(4)
		if e < 1 {
			e = 1
		}
		e += 0.3 // margin against an exponent under-estimated from two noisy points
		if e > 3 {
			e = 3
		}
		target := n
		proj := time.Duration(float64(t1) * math.Pow(float64(target)/float64(4*d0), e))
		if proj > budget {
			// a healthy parser would need more than the base budget: probe the depth the budget allows
			target = int(float64(4*d0) * math.Pow(float64(budget)/float64(t1), 1/e))
			if target < 4*d0 {
				target = 4 * d0
			}
			proj = time.Duration(float64(t1) * math.Pow(float64(target)/float64(4*d0), e))
			out.Count("deep_depth_reduced_" + k)
		}
		out.Stats["deep_exponent_x100_"+k] = int(e * 100)
		out.Stats["deep_target_depth_"+k] = target
		limit := 5 * proj
		if limit < budget {
			limit = budget
		}
		if target > 4*d0 {
			v2, _, det := deepRun(k, target, limit)
			if !report(v2, target, limit, det) {
				continue
			}
		}
		out.Count("deep_ok_" + k)
	}
}

// ---- main ---------------------------------------------------------------------------

var seeds = []string{
	"", "#", "#!", "x := 1 #", "#\n", "package", "package p", "package p;", "x", "x :=", "func", "func(", "f(", "a [0] = 1\n",
	"x := html`> 1 +, )\nraw`\n", "x := tpl`a = *b`\n", "x := tpl`a = `\n", "x := {1, 2 for a <- b}\n", "x := [1, 2 for a <- b]\n",
	"a.b := f(\n1 1)\n", "println \"${a b}${\"\n", "for { break }\n", "goto\n", "type T struct {\n", "var (\n", "import (\n\"a\"\n",
	"x := [1, 2; 3]\n", "x := \"${\n", "x := 1km + 2\n", "echo ${HOME}, $HOME\n", "func (T).+ = (a, b)\n", "func + = (\n", "f x => x\n",
	"f (x, y) => { x }\n", "var x, y\n", "x..y\n", "x.\n", "x.(type)\n", "x.(\n", "<-\n", "case x:\n", "switch {\ncase\n", "select {\ncase <-c:\n",
	"if x {\n} else\n", "L:\n", "L: L:\n", "1 = 2\n", "x, := 1\n", "(x, y)\n", "(x, y) = 1\n", "a b c d e f\n", "[]int +\n\"abc",
	"x => {a: b, c}", "x => { goto L }", "x => { L: for { continue L } }", "var f = (x, y) => { a: b }\n",
	"x := `\n", "x := '\n", "/*", "x /* y", "\xef\xbb\xbfx", "x\x00y", "\xff", "${", "$", "${x", "${x}", "x := ${x}!\n",
}

func main() {
	deepChild := flag.String("deepchild", "", "internal: parse one deep input")
	deepN := flag.Int("deepn", 0, "internal")
	f := vh.ParseFlags()
	if *deepChild != "" {
		childDeep(*deepChild, *deepN)
		return
	}
	out = vh.NewOut(f.Out)
	defer out.Close()
	go watchdog()

	if f.Replay != "" {
		fs := strings.Split(f.Replay, "\t")
		if len(fs) < 3 { // oracle.txt lines (and replays made from them) have blanks instead of tabs
			fs = strings.Fields(f.Replay)
		}
		switch {
		case fs[0] == "perr" && len(fs) >= 3:
			out.Case(f.Replay, replayPerr(fs[1] == "1", fs[2]), true)
		case len(fs) >= 3 && fs[0] == "parse":
			src, _ := vh.UnHex(fs[2])
			for _, e := range entries {
				if e.name == fs[1] {
					fmt.Println(check(e, src))
				}
			}
			if strings.HasPrefix(fs[1], "deep:") {
				var k string
				var n int
				fmt.Sscanf(string(src), "%s x %d", &k, &n)
				v, cpu, det := deepRun(k, n, 5*time.Minute)
				fmt.Println("deep", k, n, v, cpu, det)
				if v == "overflow" {
					oracle("stack-overflow-deep-nesting", "deep:"+k, src, "fatal error: stack overflow")
				} else if v == "budget" {
					oracle("hang-deep-"+k, "deep:"+k, src, "no result within 5m of CPU time")
				}
			}
		case fs[0] == "adv" && len(fs) >= 4:
			src, _ := vh.UnHex(fs[len(fs)-1])
			out.Case(f.Replay, runAdv(src, fs[1]), true)
		}
		return
	}

	thorough := f.Tier == "thorough"
	r := vh.NewRand(f.Seed)
	exts := map[string]bool{".go": true, ".xgo": true, ".gop": true, ".gox": true, ".spx": true, ".gsh": true, ".gmx": true}
	files := pgo.Collect(pgo.Repo(), exts, 30000, func(n string) bool { return n == ".git" })
	out.Stats["corpus_files"] = len(files)
	var inputs [][]byte
	for _, s := range seeds {
		inputs = append(inputs, []byte(s))
	}
	if ents, err := os.ReadDir("/verif/corpus/C13"); err == nil {
		for _, e := range ents {
			if b, err := os.ReadFile(filepath.Join("/verif/corpus/C13", e.Name())); err == nil {
				inputs = append(inputs, b)
			}
		}
	}
	if os.Getenv("C13_NOSEEDS") != "" { // experiments: does the search find a defect without its seed?
		inputs = inputs[:1]
	}
	nSeeds := len(inputs)
	for _, cf := range files {
		inputs = append(inputs, cf.Src)
	}
	count := func(e entry, src []byte) {
		oc := check(e, src)
		out.Count("outcome_" + oc)
		out.Count("entry_" + strings.SplitN(e.name, ":", 2)[0])
	}

	// (a) fixed inputs through every entry
	for _, src := range inputs[:nSeeds] {
		for _, e := range entries {
			count(e, src)
		}
	}
	// (b) every prefix of some small inputs, every entry group
	nPrefixFiles := 6
	if thorough {
		nPrefixFiles = 60
	}
	small := [][]byte{}
	for _, cf := range files {
		if len(cf.Src) < 700 && len(cf.Src) > 40 {
			small = append(small, cf.Src)
		}
	}
	for i := 0; i < nPrefixFiles && len(small) > 0; i++ {
		src := small[r.Fork(700+i).Intn(len(small))]
		for cut := 0; cut <= len(src); cut++ {
			e := entries[(cut+i)%len(entries)]
			count(e, src[:cut])
			out.Count("prefix_cases")
		}
	}
	// (g) grammar-directed XGo fragments: unchanged through the expression entries / wrapped as
	// files through the file and class entries, then token-mutated; they also join the pool that
	// phase (c) mutates and splices
	exprEntries, fileEntries := []entry{}, []entry{}
	for _, e := range entries {
		if strings.HasPrefix(e.name, "expr:") {
			exprEntries = append(exprEntries, e)
		} else {
			fileEntries = append(fileEntries, e)
		}
	}
	// (g0) the combination schedule of XGo-specific conjunctions (full product of the factors)
	for i := 0; i < comboCount(); i++ {
		stmt, expr := comboFragment(i)
		e := fileEntries[(i+int(f.Seed))%len(fileEntries)]
		if i%2 == 0 {
			stmt = "func f() {\n" + stmt + "}\n"
		}
		count(e, []byte(stmt))
		if i%3 == int(f.Seed%3) {
			count(exprEntries[i%len(exprEntries)], []byte(expr))
		}
		out.Count("combo_cases")
	}
	feat := map[string]int{}
	nFrag := f.N
	for i := 0; i < nFrag; i++ {
		rr := r.Fork(300000 + i)
		frag, isExpr := genFragment(rr, feat)
		out.Count(map[bool]string{true: "xgen_expr", false: "xgen_stmts"}[isExpr])
		for marker, name := range xgenMarkers {
			if strings.Contains(frag, marker) {
				out.Count("xgen_has_" + name)
			}
		}
		if isExpr {
			count(exprEntries[rr.Intn(len(exprEntries))], []byte(frag))
		}
		file := []byte(wrapFragment(frag, isExpr, rr))
		count(fileEntries[rr.Intn(len(fileEntries))], file)
		if i%2 == 0 {
			m, _ := mutate(file, inputs[rr.Intn(len(inputs))], rr)
			count(entries[rr.Intn(len(entries))], m)
			if isExpr {
				m2, _ := mutate([]byte(frag), file, rr)
				count(exprEntries[rr.Intn(len(exprEntries))], m2)
			}
		}
		if i%5 == 0 {
			inputs = append(inputs, file)
		}
	}
	// (c) mutants of corpus files
	for i := 0; i < f.N; i++ {
		rr := r.Fork(i)
		base := inputs[rr.Intn(len(inputs))]
		other := inputs[rr.Intn(len(inputs))]
		if len(base) > 6000 && rr.Chance(70) { // keep most inputs small: more cases per second
			bd := tokenBoundaries(base)
			a := bd[rr.Intn(len(bd))]
			b := a + 200 + rr.Intn(3000)
			if a > len(base) {
				a = len(base)
			}
			if b > len(base) {
				b = len(base)
			}
			base = base[a:b]
		}
		src, kinds := mutate(base, other, rr)
		for _, c := range kinds {
			out.Count("mut_" + string(c))
		}
		ne := 2
		if thorough {
			ne = 4
		}
		for j := 0; j < ne; j++ {
			count(entries[rr.Intn(len(entries))], src)
		}
		if i%4 == 0 && len(src) < 1500 {
			advCase(src, rr)
		}
	}
	// (d) unchanged corpus files through a few entries (mostly the nil-error => no Bad node half)
	for i, cf := range files {
		if !thorough && i%3 != int(f.Seed%3) {
			continue
		}
		count(entries[i%len(entries)], cf.Src)
		count(entries[(i/2)%4], cf.Src)
	}
	// (e) correspondence cases for the error-list model
	np := f.N / 2
	for i := 0; i < np; i++ {
		perrCase(r.Fork(900000 + i))
	}
	// (f) deep nesting, child processes
	if thorough {
		runDeep(3000000, 60*time.Second, nil)
	} else {
		runDeep(20000, 20*time.Second, []string{"parens", "unary", "blocks", "selector"})
	}
}
