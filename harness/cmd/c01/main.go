package main

import (
	"fmt"
	"time"

	"verifharness/xrun"
)

const src = `package main

import (
	"fmt"
	"os"
)

func f(a int, b string) (int, string) {
	return a + 1, b + "x"
}

func main() {
	x, y := f(1, "a")
	fmt.Println(x, y, []int{1, 2}, true)
	s := []int{1, 2, 3}
	for i, v := range s {
		fmt.Println(i, v)
	}
	func() {
		x = 5
	}()
	switch x {
	case 5:
		fmt.Println("five")
	default:
	}
	if x > 3 {
		panic("boom")
	}
	os.Exit(3)
}
`

func main() {
	t0 := time.Now()
	out, err := xrun.CompileFile("main.xgo", src, false)
	fmt.Println(time.Since(t0), err)
	fmt.Println(string(out))
	t0 = time.Now()
	for i := 0; i < 20; i++ {
		out, err = xrun.CompileFile("main.xgo", src, false)
	}
	fmt.Println(time.Since(t0), err)
	t0 = time.Now()
	res, err := xrun.RunBatch("/tmp/compA/t1", [][]byte{[]byte(src), out}, 5*time.Second)
	fmt.Println(time.Since(t0), err, res)
}
