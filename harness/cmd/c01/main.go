// C01 harness: a valid Go program means the same when compiled as XGo.
// Three-way run per generated program of the modelled subset:
//   (a) the Go source built with plain `go build` and run,
//   (b) the same source compiled as main.xgo by the REAL XGo compiler (x/build.BuildFile ->
//       cl.NewPackage -> gogen WriteTo), the written Go built and run,
//   (c) evalG of the Lean model (the case line is piped to drv_comp by the check).
// (a)=(b) is the property's oracle on the implementation (o.Oracle); (a)=(c) validates the model
// (differential).  Extended programs (features outside the model) and mutated corpus Go mains
// are compared two-way (a)=(b).  Disagreements are shrunk (drop statements / lines while the
// same disagreement persists).
package main

import (
	"fmt"
	"os"
	"path/filepath"
	"strings"
	"time"

	"verifharness/compa"
	"verifharness/vh"
)

const fuel = 400000

var env *compa.Env
var workDir string
var batchNo, identical int

type pair struct {
	src  string
	xerr string // XGo compile error ("" = compiled)
	xsrc []byte
	xbad string // the Go written by XGo is rejected by go/parser / go/types: "<class>: message"
	a, b compa.RunResult
}

// runPairs builds and runs every source as Go and as XGo, all in one batch.
func runPairs(srcs []string) []pair {
	ps := make([]pair, len(srcs))
	var progs [][]byte
	idxA := make([]int, len(srcs))
	idxB := make([]int, len(srcs))
	for i, s := range srcs {
		ps[i].src = s
		idxA[i] = len(progs)
		progs = append(progs, []byte(s))
		out, err, esc, _ := env.BuildFile("main.xgo", s, false)
		switch {
		case esc != "":
			ps[i].xerr = "PANIC " + esc
		case err != nil:
			ps[i].xerr = err.Error()
		case badGo(out) != "":
			// the written Go is rejected by go/parser or go/types: no need to build it
			ps[i].xsrc = out
			ps[i].xbad = badGo(out)
		case compa.SameGoAST([]byte(s), out):
			// the written Go is the same program up to layout: one binary serves both
			ps[i].xsrc = out
			idxB[i] = idxA[i]
			identical++
		default:
			ps[i].xsrc = out
			idxB[i] = len(progs)
			progs = append(progs, out)
		}
	}
	batchNo++
	dir := filepath.Join(workDir, fmt.Sprintf("batch%d", batchNo))
	res, err := compa.RunBatch(dir, progs, 20*time.Second)
	if err != nil {
		fmt.Fprintln(os.Stderr, "RunBatch:", err)
		os.Exit(2)
	}
	for i := range ps {
		ps[i].a = res[idxA[i]]
		if ps[i].xerr == "" && ps[i].xbad == "" {
			ps[i].b = res[idxB[i]]
		}
	}
	os.RemoveAll(dir)
	return ps
}

func badGo(src []byte) string {
	class, msg := env.GoCheck(src, nil)
	if class == "" {
		return ""
	}
	return class + ": " + msg
}

func normPanic(s string) string {
	s = strings.TrimPrefix(s, "panic: ")
	s = strings.ReplaceAll(s, "\n\t", "\n") // go1.23 indents continuation lines of the panic text
	// goexit / re-panic annotations are kept: they are part of the value line
	return s
}

// canon is the canonical outcome line (same format as drv_comp's showRes).
func canon(r compa.RunResult) string {
	if r.BuildErr != "" {
		return "BUILDERR " + compa.ErrClass(r.BuildErr)
	}
	if r.Timeout {
		return "TIMEOUT"
	}
	p := "none"
	if r.Panicked {
		p = vh.HexS(normPanic(r.Panic))
	}
	return fmt.Sprintf("exit=%d panic=%s stdout=%s", r.Exit, p, vh.HexS(r.Stdout))
}

// verdict compares (a) and (b): "" = agree; otherwise a stable key.
func verdict(p pair) (key, detail string) {
	if p.a.BuildErr != "" {
		return "", "" // not a valid Go program: outside the property
	}
	if p.xerr != "" {
		if strings.HasPrefix(p.xerr, "PANIC") {
			return "xgo-compile-panics", p.xerr
		}
		return "xgo-rejects-valid-go:" + compa.ErrClass(p.xerr), firstLine(p.xerr)
	}
	if p.xbad != "" {
		return "xgo-output-invalid-go:" + strings.SplitN(p.xbad, ": ", 2)[0], p.xbad
	}
	if p.b.BuildErr != "" {
		return "xgo-output-does-not-build:" + compa.ErrClass(p.b.BuildErr), firstLine(p.b.BuildErr)
	}
	ca, cb := canon(p.a), canon(p.b)
	if ca == cb {
		return "", ""
	}
	what := "stdout"
	switch {
	case p.a.Timeout != p.b.Timeout:
		what = "timeout"
	case p.a.Exit != p.b.Exit:
		what = "exit-status"
	case normPanic(p.a.Panic) != normPanic(p.b.Panic):
		what = "panic-value"
	}
	return "go-vs-xgo-differ:" + what, "go: " + short(p.a.String()) + " | xgo: " + short(p.b.String())
}

func short(s string) string {
	if len(s) > 400 {
		return s[:400] + "…"
	}
	return s
}

func firstLine(s string) string {
	if i := strings.IndexByte(s, '\n'); i >= 0 {
		return s[:i]
	}
	return s
}

// shrinkLines drops lines while the same verdict key persists (candidates of one round are
// built together).
func shrinkLines(src, key string, rounds int) string {
	for round := 0; round < rounds; round++ {
		lines := strings.SplitAfter(src, "\n")
		var cands []string
		step := 1
		if len(lines) > 12 {
			step = len(lines) / 6
		}
		for i := 0; i+step <= len(lines); i += step {
			c := strings.Join(append(append([]string{}, lines[:i]...), lines[i+step:]...), "")
			cands = append(cands, c)
		}
		if len(cands) > 12 {
			cands = cands[:12]
		}
		if len(cands) == 0 {
			break
		}
		best := ""
		for _, p := range runPairs(cands) {
			if k, _ := verdict(p); k == key && (best == "" || len(p.src) < len(best)) {
				best = p.src
			}
		}
		if best == "" {
			break
		}
		src = best
	}
	return src
}

type job struct {
	kind   string // model | ext | corpus | names
	src    string
	enc    string
	origin string
	scs    []compa.NameScenario // kind names: the scenarios assembled in src
}

func main() {
	f := vh.ParseFlags()
	o := vh.NewOut(f.Out)
	defer o.Close()
	if abs, err := filepath.Abs(f.Out); err == nil {
		f.Out = abs
	}
	workDir = filepath.Join(f.Out, "work")
	os.MkdirAll(workDir, 0o755)
	var err error
	env, err = compa.NewEnv(filepath.Join(f.Out, "env"))
	if err != nil {
		fmt.Fprintln(os.Stderr, "env:", err)
		os.Exit(2)
	}
	if f.Replay != "" {
		fs := strings.Split(f.Replay, "\t")
		var src []byte
		switch {
		case fs[0] == "gosrc" && len(fs) >= 2:
			src, _ = vh.UnHex(fs[1])
		case fs[0] == "evalg" && len(fs) >= 4:
			src, _ = vh.UnHex(fs[3])
		default:
			fmt.Fprintln(os.Stderr, "replay: unknown case line")
			os.Exit(2)
		}
		p := runPairs([]string{string(src)})[0]
		fmt.Fprintf(os.Stderr, "--- source\n%s\n--- go : %s\n--- xgo: %s %s\n", src, p.a, p.b, p.xerr)
		if k, d := verdict(p); k != "" {
			o.Oracle(k, "gosrc\t"+vh.HexS(string(src)), d)
		}
		if fs[0] == "gosrc" {
			o.Case(f.Replay, "skip", true) // two-way case: nothing for the model
		} else {
			o.Case(f.Replay, canon(p.a), true)
		}
		return
	}
	thorough := f.Tier == "thorough"
	r := vh.NewRand(f.Seed)
	var jobs []job
	nModel := f.N
	nExt := f.N / 3
	nCorpus := f.N / 3
	for i := 0; i < nModel; i++ {
		rr := r.Fork(i)
		prog, st := compa.GenGo(rr)
		for k, v := range st {
			o.Stats["gen_"+k] += v
		}
		jobs = append(jobs, job{kind: "model", src: prog.Print(rr.Fork(7)), enc: prog.Encode(), origin: fmt.Sprintf("gen:%d", i)})
	}
	for i := 0; i < nExt; i++ {
		rr := r.Fork(500000 + i)
		src, names := compa.GenGoExt(rr, 2+rr.Intn(4))
		for _, n := range names {
			o.Count("ext_" + n)
		}
		jobs = append(jobs, job{kind: "ext", src: src, origin: "ext:" + strings.Join(names, "+")})
	}
	// statement forms and operator precedence: always present (expressions vary with the seed)
	for k, names := range [][]string{{"range-forms", "assign-ops", "operator-precedence"}, {"operator-precedence", "operator-precedence", "operator-precedence"}} {
		jobs = append(jobs, job{kind: "ext", src: compa.GenGoExtNamed(r.Fork(600000+k), names), origin: "ext:stmt-forms:" + strings.Join(names, "+")})
	}
	// name-resolution scenarios: the same set every run (constants vary with the seed), 6 per program
	all := compa.GenNameScenarios(r.Fork(700000))
	var scs []compa.NameScenario
	for _, sc := range all {
		if sc.Name == "pkgconst-expr-chain" {
			// a recorded finding (forward reference inside a const group): alone, so that it needs no re-run to be attributed
			jobs = append(jobs, job{kind: "names", src: compa.NamesProgram([]compa.NameScenario{sc}), origin: "names:" + sc.Name, scs: []compa.NameScenario{sc}})
			continue
		}
		scs = append(scs, sc)
	}
	for lo := 0; lo < len(scs); lo += 6 {
		hi := lo + 6
		if hi > len(scs) {
			hi = len(scs)
		}
		jobs = append(jobs, job{kind: "names", src: compa.NamesProgram(scs[lo:hi]), origin: fmt.Sprintf("names:%d-%d", lo, hi), scs: scs[lo:hi]})
	}
	o.Stats["name_scenarios"] = len(all)
	mains := compa.LoadGoMains()
	o.Stats["corpus_go_mains"] = len(mains)
	// the mutated-corpus stream is a FIXED list (constant internal seed, independent of VERIF_SEED):
	// a token mutation of a Go main can land outside the subset XGo accepts, and such an input must not
	// appear for one seed and not for another; the unchanged tree's outcome on this list is checked once
	fixed := vh.NewRand(20260921)
	for i := 0; i < nCorpus && len(mains) > 0; i++ {
		rr := fixed.Fork(900000 + i)
		it := mains[rr.Intn(len(mains))]
		src := it.Files["main.go"]
		kinds := []string{"lit-swap", "op-swap", "dup-line", "drop-line", "swap-tokens", "ident-swap"}
		origin := "corpus:" + it.Origin
		if rr.Chance(70) {
			if m, ok := compa.Mutate(rr, src, kinds[rr.Intn(len(kinds))], ""); ok && !strings.Contains(m, "${") && !strings.Contains(m, "1r") {
				src = m
				origin += "/mut"
			}
		}
		jobs = append(jobs, job{kind: "corpus", src: src, origin: origin})
	}
	// batches of ~32 sources (64 programs per `go build`)
	bs := 32
	if thorough {
		bs = 64
	}
	seenKey := map[string]bool{}
	for lo := 0; lo < len(jobs); lo += bs {
		hi := lo + bs
		if hi > len(jobs) {
			hi = len(jobs)
		}
		srcs := make([]string, hi-lo)
		for i := range srcs {
			srcs[i] = jobs[lo+i].src
		}
		ps := runPairs(srcs)
		for i, p := range ps {
			j := jobs[lo+i]
			o.Count("kind_" + j.kind)
			if p.a.BuildErr != "" {
				if j.kind == "corpus" {
					o.Count("corpus_invalid_go_skipped")
					continue
				}
				// the generator must only produce valid Go
				o.Count("generator_invalid_go")
				fmt.Fprintf(os.Stderr, "GENERATOR DEFECT (%s): %s\n%s\n", j.origin, firstLine(p.a.BuildErr), j.src)
				continue
			}
			switch {
			case p.a.Timeout:
				o.Count("outcome_timeout")
			case p.a.Panicked:
				o.Count("outcome_panic")
			case p.a.Exit != 0:
				o.Count("outcome_exit")
			default:
				o.Count("outcome_ok")
			}
			if key, detail := verdict(p); key != "" && j.kind == "names" {
				// attribute the disagreement to single scenarios (each re-run alone)
				var singles []string
				for _, sc := range j.scs {
					singles = append(singles, compa.NamesProgram([]compa.NameScenario{sc}))
				}
				found := false
				var sps []pair
				if len(j.scs) == 1 {
					sps = []pair{p}
				} else {
					sps = runPairs(singles)
				}
				for k, sp := range sps {
					if sk, sd := verdict(sp); sk != "" {
						found = true
						place := "before"
						if j.scs[k].After {
							place = "after"
						}
						o.Oracle("names:"+j.scs[k].Name+":pkgdecl-"+place+":"+sk, "gosrc\t"+vh.HexS(sp.src), sd)
					}
				}
				if !found {
					o.Oracle("names:combined:"+key, "gosrc\t"+vh.HexS(j.src), j.origin+": "+detail)
				}
			} else if key != "" {
				src := j.src
				if !seenKey[key] && len(seenKey) < 2 {
					// shrink the first instance of at most two kinds per run (each round is a build)
					seenKey[key] = true
					src = shrinkLines(src, key, 3)
				}
				o.Oracle(key, "gosrc\t"+vh.HexS(src), j.origin+": "+detail)
			}
			if j.kind == "model" {
				if p.a.Timeout {
					continue // the model would need unbounded fuel: not compared
				}
				o.Case(fmt.Sprintf("evalg\t%d\t%s\t%s", fuel, j.enc, vh.HexS(j.src)), canon(p.a), true)
			} else {
				// two-way only: the driver answers "skip" and so does the implementation column
				o.Case("skip\t"+vh.HexS(j.origin+fmt.Sprint(lo+i)), "skip", true)
			}
		}
	}
	o.Stats["golist_slow_path"] = env.NList
	o.Stats["xgo_output_same_ast_as_input"] = identical
}
