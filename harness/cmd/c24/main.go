// Differential + oracle harness for C24 (format/formatutil.RearrangeFuncs, SourceEx).
//
// For every generated script the harness scans it with the REAL scanner (same Init call as
// RearrangeFuncs), sends (src, token list) to the Lean model, and evaluates the property on
// the REAL RearrangeFuncs / SourceEx output:
//   - strict: out == pre ++ func chunks ++ other chunks, chunks = src cut at the first token of
//     every depth-0-semicolon statement from the first non-declaration on (independent
//     re-statement of the rule, see refSplit/refClass);
//   - bytes: out is a byte permutation of src; identity when there is no non-declaration;
//   - semantic: wherever a chunk parses on its own, the class used for it is the class the
//     REAL parser gives it (FuncDecl / const-type-var GenDecl / statement);
//   - SourceEx succeeds with the right result whenever Source succeeds on src or on out.
package main

import (
	"bufio"
	"bytes"
	"fmt"
	"io"
	"os"
	"os/exec"
	"path/filepath"
	"sort"
	"strings"

	"github.com/goplus/xgo/ast"
	"github.com/goplus/xgo/format"
	"github.com/goplus/xgo/format/formatutil"
	"github.com/goplus/xgo/parser"
	"github.com/goplus/xgo/scanner"
	"github.com/goplus/xgo/token"
	"verifharness/vh"
)

type word struct {
	off int
	tok token.Token
}

func kind(t token.Token) byte {
	switch t {
	case token.COMMENT:
		return 'c'
	case token.LBRACE:
		return '{'
	case token.RBRACE:
		return '}'
	case token.SEMICOLON:
		return ';'
	case token.LPAREN:
		return '('
	case token.RPAREN:
		return ')'
	case token.PERIOD:
		return '.'
	case token.CONST:
		return 'C'
	case token.TYPE:
		return 'T'
	case token.VAR:
		return 'V'
	case token.FUNC:
		return 'F'
	}
	return 'o'
}

// scan replicates the scanner set-up of RearrangeFuncs.
func scan(src []byte) (ws []word, panicked string) {
	defer func() {
		if e := recover(); e != nil {
			panicked = fmt.Sprint(e)
		}
	}()
	fset := token.NewFileSet()
	base := fset.Base()
	f := fset.AddFile("", base, len(src))
	var s scanner.Scanner
	s.Init(f, src, nil, scanner.ScanComments)
	for n := 0; ; n++ {
		pos, tok, _ := s.Scan()
		if tok == token.EOF {
			return
		}
		ws = append(ws, word{int(pos) - base, tok})
		if n > 4*len(src)+16 {
			panicked = "scanner does not reach EOF"
			return
		}
	}
}

func tokField(ws []word) string {
	if len(ws) == 0 {
		return "-"
	}
	var b strings.Builder
	for i, w := range ws {
		if i > 0 {
			b.WriteByte(',')
		}
		fmt.Fprintf(&b, "%d:%c", w.off, kind(w.tok))
	}
	return b.String()
}

// ---- independent re-statement of the rule ---------------------------------------------

type stmt struct {
	ws []word
}

func refSplit(ws []word) (stmts []stmt) {
	depth := 0
	start := 0
	for i, w := range ws {
		if w.tok == token.LBRACE {
			depth++
		} else if w.tok == token.RBRACE {
			depth--
		}
		if w.tok == token.SEMICOLON && depth == 0 {
			stmts = append(stmts, stmt{ws[start : i+1]})
			start = i + 1
		}
	}
	return
}

func skipComments(ws []word) []word {
	for len(ws) > 0 && ws[0].tok == token.COMMENT {
		ws = ws[1:]
	}
	return ws
}

// refClass: 'D' const/type/var, 'F' func declaration, 'S' anything else – the rule of
// format_gop.go re-stated: after `func` (comments skipped) a name means declaration; a
// parenthesis group is a receiver iff it is followed by `.` or by one token (name/operator,
// not `(`, `{`, `func`) and `(`; otherwise the statement starts with a function literal.
func refClass(s stmt) byte {
	ws := skipComments(s.ws)
	if len(ws) == 0 {
		return 'S'
	}
	switch ws[0].tok {
	case token.CONST, token.TYPE, token.VAR:
		return 'D'
	case token.FUNC:
		rest := skipComments(ws[1:])
		if len(rest) == 0 || rest[0].tok != token.LPAREN {
			return 'F'
		}
		depth := 0
		var tail []word
		for i, w := range rest[1:] {
			if w.tok == token.RPAREN {
				if depth == 0 {
					tail = rest[1:][i+1:]
					break
				}
				depth--
			} else if w.tok == token.LPAREN {
				depth++
			}
		}
		t := skipComments(tail)
		if len(t) == 0 {
			return 'S'
		}
		switch t[0].tok {
		case token.PERIOD:
			return 'F'
		case token.LPAREN, token.LBRACE, token.FUNC:
			return 'S'
		}
		t2 := skipComments(t[1:])
		if len(t2) > 0 && t2[0].tok == token.LPAREN {
			return 'F'
		}
		return 'S'
	}
	return 'S'
}

// truthClass asks the real parser what a chunk is when it stands alone:
// 'F' FuncDecl, 'D' const/type/var GenDecl, 'S' statements (shadow entry), '?' unknown.
func truthClass(chunk []byte) (c byte) {
	defer func() {
		if recover() != nil {
			c = '?'
		}
	}()
	fset := token.NewFileSet()
	f, err := parser.ParseFile(fset, "chunk.xgo", chunk, 0)
	if err != nil || f == nil || len(f.Decls) != 1 {
		return '?'
	}
	switch d := f.Decls[0].(type) {
	case *ast.FuncDecl:
		if d.Shadow {
			return 'S'
		}
		return 'F'
	case *ast.GenDecl:
		switch d.Tok {
		case token.CONST, token.TYPE, token.VAR:
			return 'D'
		}
	}
	return '?'
}

func sortedBytes(b []byte) string {
	c := append([]byte(nil), b...)
	sort.Slice(c, func(i, j int) bool { return c[i] < c[j] })
	return string(c)
}

type fres struct {
	kind string // ok | err | panic
	out  []byte
}

func (r fres) field() string {
	if r.kind == "ok" {
		return "ok:" + vh.Hex(r.out)
	}
	return r.kind
}

func callFmt(f func() ([]byte, error)) (r fres) {
	defer func() {
		if e := recover(); e != nil {
			r = fres{kind: "panic"}
		}
	}()
	out, err := f()
	if err != nil {
		return fres{kind: "err"}
	}
	return fres{kind: "ok", out: out}
}

func shape(s stmt) string {
	ws := skipComments(s.ws)
	if len(ws) == 0 || ws[0].tok != token.FUNC {
		return "other"
	}
	rest := ws[1:]
	if len(rest) > 0 && rest[0].tok == token.COMMENT {
		return "func-comment"
	}
	if len(rest) > 0 && rest[0].tok == token.LPAREN {
		return "func-paren"
	}
	return "func-name"
}

var hypFile *os.File
var commentsInserted int

func run(src []byte, o *vh.Out, withFormat bool) {
	hsrc := vh.Hex(src)
	ws, sp := scan(src)
	var out []byte
	impl := ""
	func() {
		defer func() {
			if e := recover(); e != nil {
				impl = "PANIC"
			}
		}()
		r, err := formatutil.RearrangeFuncs(src)
		if err != nil {
			impl = "ERR " + err.Error()
			return
		}
		out = r
		impl = "ok " + vh.Hex(r)
	}()
	if sp != "" {
		// no token list: nothing to send to the model; a panic of the scanner inside
		// RearrangeFuncs is a failure of "for every source ... returns"
		// (C15's subject; C24 takes the scanner's totality as given)
		o.Count("scanner_panic")
		return
	}
	caseLine := "c24\t" + hsrc + "\t" + tokField(ws)
	// hypothesis of the theorems (part of C15): offsets ordered and in range
	for i, w := range ws {
		if w.off < 0 || w.off > len(src) || (i > 0 && w.off < ws[i-1].off) {
			// not a failure of C24 by itself: the theorems' hypothesis (C15) fails on this input
			o.Count("hyp_offsets_unordered")
			if hypFile != nil {
				fmt.Fprintf(hypFile, "%s\ttoken %d\n", caseLine, i)
			}
			break
		}
	}
	stmts := refSplit(ws)
	first := -1
	classes := make([]byte, len(stmts))
	for i, s := range stmts {
		classes[i] = refClass(s)
		if first < 0 && classes[i] == 'S' {
			first = i
		}
	}
	o.Count(fmt.Sprintf("stmts_%s", bucket(len(stmts))))
	nontrivial := false
	if impl == "PANIC" {
		o.Oracle("panic", caseLine, "RearrangeFuncs panicked")
	} else if strings.HasPrefix(impl, "ERR") {
		o.Oracle("error", caseLine, impl)
	} else {
		if len(out) != len(src) || sortedBytes(out) != sortedBytes(src) {
			o.Oracle("bytes-changed", caseLine, impl)
		}
		var want []byte
		if first < 0 {
			want = src
			o.Count("no_nondecl")
			if !bytes.Equal(out, src) {
				o.Oracle("identity-broken", caseLine, impl)
			}
		} else {
			rest := stmts[first:]
			cut := func(i int) []byte {
				from := rest[i].ws[0].off
				to := len(src)
				if i+1 < len(rest) {
					to = rest[i+1].ws[0].off
				}
				if from < 0 || to > len(src) || from > to {
					return nil
				}
				return src[from:to]
			}
			pre := src[:rest[0].ws[0].off]
			want = append(want, pre...)
			nf, ns := 0, 0
			for i := range rest {
				if classes[first+i] == 'F' {
					want = append(want, cut(i)...)
					nf++
				}
			}
			for i := range rest {
				if classes[first+i] != 'F' {
					want = append(want, cut(i)...)
					ns++
				}
			}
			if nf > 0 && ns > 0 {
				o.Count("mixed_rest")
			}
			if !bytes.Equal(want, src) {
				o.Count("moves_something")
				nontrivial = true
			}
			strictFails := !bytes.Equal(out, want) && sortedBytes(out) == sortedBytes(src)
			// semantic classes, where the parser can tell
			allKnown := true
			truth := make([]byte, len(stmts))
			for i := range stmts {
				from := stmts[i].ws[0].off
				to := len(src)
				if i+1 < len(stmts) {
					to = stmts[i+1].ws[0].off
				}
				if from > to || to > len(src) {
					truth[i] = '?'
				} else {
					truth[i] = truthClass(src[from:to])
				}
				if truth[i] == '?' {
					allKnown = false
					o.Count("truth_unknown")
				} else {
					o.Count("truth_" + string(truth[i]))
					if truth[i] != classes[i] {
						o.Count("truth_differs")
						if os.Getenv("C24_DEBUG") != "" {
							fmt.Fprintf(os.Stderr, "DIFF truth=%c ref=%c %q\n", truth[i], classes[i], src[from:to])
						}
					}
				}
			}
			if allKnown {
				o.Count("all_chunks_classified_by_parser")
				tfirst := -1
				for i := range stmts {
					if truth[i] == 'S' {
						tfirst = i
						break
					}
				}
				var twant []byte
				if tfirst < 0 {
					twant = src
				} else {
					twant = append(twant, src[:stmts[tfirst].ws[0].off]...)
					for pass := 0; pass < 2; pass++ {
						for i := tfirst; i < len(stmts); i++ {
							if (truth[i] == 'F') == (pass == 0) {
								from := stmts[i].ws[0].off
								to := len(src)
								if i+1 < len(stmts) {
									to = stmts[i+1].ws[0].off
								}
								twant = append(twant, src[from:to]...)
							}
						}
					}
				}
				if bytes.Equal(out, twant) {
					// the classes the implementation used are the parser's: fine even where the
					// re-stated token rule says otherwise
					strictFails = false
				}
				if !bytes.Equal(out, twant) {
					// name the first statement whose class differs from the parser's
					key := "misclassified:other"
					for i := range stmts {
						if truth[i] != classes[i] {
							key = fmt.Sprintf("misclassified:%c-as-%c:%s", truth[i], classes[i], shape(stmts[i]))
							break
						}
					}
					o.Oracle(key, caseLine, impl)
				}
			}
			if strictFails {
				o.Oracle("chunk-permutation", caseLine, impl)
			}
		}
	}
	o.Case(caseLine, impl, nontrivial)

	if !withFormat || impl == "PANIC" || strings.HasPrefix(impl, "ERR") {
		return
	}
	rs := fmtCalls(src, out)
	r1, r2, rx := rs[0], rs[1], rs[2]
	o.Count("source_src_" + r1.kind)
	if r1.kind != "ok" {
		o.Count("source_rearranged_" + r2.kind)
	}
	xline := "c24x\t" + hsrc + "\t" + tokField(ws) + "\t" + r1.field() + "\t" + r2.field()
	if (r1.kind == "ok" || (r1.kind == "err" && r2.kind == "ok")) && rx.kind != "ok" {
		o.Oracle("sourceex-fails", xline, rx.kind)
	}
	if r1.kind == "ok" && rx.kind == "ok" && !bytes.Equal(rx.out, r1.out) {
		o.Oracle("sourceex-result", xline, "differs from Source(src)")
	}
	if r1.kind == "err" && r2.kind == "ok" && rx.kind == "ok" && !bytes.Equal(rx.out, r2.out) {
		o.Oracle("sourceex-result", xline, "differs from Source(rearranged)")
	}
	ximpl := "err"
	switch rx.kind {
	case "ok":
		ximpl = "ok " + vh.Hex(rx.out)
	case "panic":
		ximpl = "PANIC"
	}
	o.Case(xline, ximpl, r1.kind == "err" && r2.kind == "ok")
}


// ---- format.Source / SourceEx run in a child process: the printer calls log.Fatalf (os.Exit)
// on some trees, which no recover() can catch.  A death of the child is reported as "panic".

type fmtWorker struct {
	cmd *exec.Cmd
	in  io.WriteCloser
	out *bufio.Reader
}

var worker *fmtWorker

func startWorker() *fmtWorker {
	cmd := exec.Command(os.Args[0])
	cmd.Env = append(os.Environ(), "VERIF_C24_WORKER=1")
	in, _ := cmd.StdinPipe()
	outp, _ := cmd.StdoutPipe()
	if err := cmd.Start(); err != nil {
		panic(err)
	}
	return &fmtWorker{cmd, in, bufio.NewReaderSize(outp, 1<<20)}
}

func parseRes(line string) fres {
	line = strings.TrimSpace(line)
	if strings.HasPrefix(line, "ok:") {
		b, _ := vh.UnHex(line[3:])
		return fres{kind: "ok", out: b}
	}
	if line == "err" {
		return fres{kind: "err"}
	}
	return fres{kind: "panic"}
}

// fmtCalls returns the outcomes of Source(src), Source(out), SourceEx(src).
func fmtCalls(src, out []byte) (r [3]fres) {
	if worker == nil {
		worker = startWorker()
	}
	fmt.Fprintf(worker.in, "%s\t%s\n", vh.Hex(src), vh.Hex(out))
	for i := 0; i < 3; i++ {
		line, err := worker.out.ReadString('\n')
		if err != nil { // the child died during call i
			for j := i; j < 3; j++ {
				r[j] = fres{kind: "panic"}
			}
			worker.cmd.Wait()
			worker = nil
			// later calls of the same case: the ones after the fatal one are answered by a fresh child
			if i < 2 {
				rest := fmtCallsFrom(src, out, i+1)
				for j := i + 1; j < 3; j++ {
					r[j] = rest[j]
				}
			}
			return
		}
		r[i] = parseRes(line)
	}
	return
}

func fmtCallsFrom(src, out []byte, from int) (r [3]fres) {
	w := startWorker()
	defer func() { w.in.Close(); w.cmd.Wait() }()
	fmt.Fprintf(w.in, "%s\t%s\t%d\n", vh.Hex(src), vh.Hex(out), from)
	for i := from; i < 3; i++ {
		line, err := w.out.ReadString('\n')
		if err != nil {
			for j := i; j < 3; j++ {
				r[j] = fres{kind: "panic"}
			}
			return
		}
		r[i] = parseRes(line)
	}
	return
}

func workerMain() {
	in := bufio.NewReaderSize(os.Stdin, 1<<20)
	w := bufio.NewWriter(os.Stdout)
	for {
		line, err := in.ReadString('\n')
		if err != nil {
			return
		}
		fs := strings.Split(strings.TrimRight(line, "\n"), "\t")
		src, _ := vh.UnHex(fs[0])
		out, _ := vh.UnHex(fs[1])
		from := 0
		if len(fs) > 2 {
			fmt.Sscan(fs[2], &from)
		}
		calls := []func() ([]byte, error){
			func() ([]byte, error) { return format.Source(src, false) },
			func() ([]byte, error) { return format.Source(out, false) },
			func() ([]byte, error) { return formatutil.SourceEx(src, false) },
		}
		for i := from; i < 3; i++ {
			r := callFmt(calls[i])
			fmt.Fprintln(w, r.field())
			w.Flush()
		}
	}
}

func bucket(n int) string {
	switch {
	case n == 0:
		return "0"
	case n <= 2:
		return "1-2"
	case n <= 5:
		return "3-5"
	case n <= 10:
		return "6-10"
	}
	return "11+"
}

// ---- generators --------------------------------------------------------------------------

var decls = []string{
	"var x int", "const c = 1", "type T struct{ a int }", "var (\n\ta = 1\n\tb = 2\n)",
	"type I interface{ M() }", "var f0 = func() {}", "const (\n\tA = iota\n\tB\n)", "type F func(a int) { }",
	"var s = \"a;b}\"", "type (\n\tU int\n)",
}
var funcs = []string{
	"func f() {}", "func g(a, b int) (int, error) {\n\treturn a + b, nil\n}",
	"func (t *T) m() {\n\tif x {\n\t\ty()\n\t}\n}", "func h[T any](x T) T { return x }",
	"func k() { s := \"}\"; _ = s }", "func k2() { c := '{'; _ = c }",
	"func w() {\n\tx := func() {}\n\tx()\n}", "func (a T) + (b T) T { return a }",
	"func add = (\n\taddInt\n\taddFloat\n)", "func (T).mul = (\n\t(T).mulInt\n)",
	"func r() { s := `}\n{`; _ = s }", "func e()", "func (t T) String() string { return \"\" }",
	"func /* c */ named() {}", "func v(xs ...int) { for x <- xs { println x } }",
	"func héllo() {}", "func (π *T) 名前() { s := \"日本語\"; _ = s }", "func\tf3() {}", "func/* c */f4() {}", "func\nf5() {\n}",
	"func(t T) show() {}",
	"func (p *T) /* c */ name() {\n}", "func /* c */ (r T) name /* c */ () {}", "func (a T) /* op */ - (b T) T { return a }",
	"func (T) /* c */ .sub = (\n\t(T).subInt\n)", "func (r T) name() /* c */ (int, error) { return 0, nil }",
	"func g2[K comparable, V any](m map[K]V) /* c */ []K { return nil }", "func (r *T) // eol\nname() {}",
	"func (r T) m2(f func(int) (int, error)) /* c */ func() { return nil }",
}
var stmtsT = []string{
	"println \"hello\"", "x := 1", "y := func() {}", "for i <- 0:3 {\n\tprintln i\n}",
	"if a {\n\tb()\n} else {\n\tc()\n}", "echo x, y", "a.b(func() { z() })",
	"func() { println \"lit\" }()", "func(a int) {}(1)", "func() int { return 1 }()",
	"go func() {}()", "defer f()", "x = []int{1, 2}", "m := {\"a\": 1}",
	"switch v {\ncase 1:\n\tf()\n}", "f(); g()", "{\n\tblock()\n}", "func /* c */ () { println \"b\" }()",
	"func(a func()) {}(nil)", "func() (int, error) { return 0, nil }()", "x.y = z", "return",
	"s := \"func f() {}\"", "println 1km", "func() func() { return nil }()()", "for {\n}",
	"select {}", "onStart => {\n\tsay \"hi\"\n}", "run \"a\", => {\n}",
	"π := 3.14", "s := \"naïve ∑ 日本\"", "println \"héllo\"",
	"func() /* c */ (int) { return 1 }()", "func(a int) /* c */ { println a }(1)", "func() /* c */ int { return 1 }()",
	"func(a, b int) (int, error) /* c */ { return a, nil }(1, 2)", "func /* c */ (a int) /* c */ (r int) { return a }(3)",
	"func() /* c */ func() { return nil }()()", "g := t.method", "func() /* c */ *T { return nil }().m()",
	"func(xs ...int) /* c */ []int { return xs }(1, 2)...", "func() // eol\n{ println 1 }()",
}
var comments = []string{"// комментарий ✓", "/* 注釈 */", "# x", "// c", "/* c */", "/* multi\nline */", "//go:generate x", "// func f() {}", "/* } */", "// {"}
var weird = []string{
	"}", "{", "func", "func (", "func (a) {", ");", "import \"fmt\"", "package main", "\"a;b\"", "`raw\n;{`",
	"'}'", "func )(", "var", "type", "const (", "}}", "{{", ";", ";;", "(", ")", "func () ()", "\x00", "\xff\xfe", "é := 1",
	"#!shebang x", "x := 1 // trailing", "a /* in */ b",
}
var seps = []string{"\n", "\n", "\n", "\n\n", ";", "; ", " ", "\r\n", "\n\t", "\n// sep\n"}
var soup = []string{"func", "(", ")", "{", "}", ";", "\n", "var", "const", "type", "x", "1", "/*c*/", "//c\n", "=", ",", "\"s\"", ".", "+", "[", "]", ":=", "go", "return", "=>"}


// withComments inserts 1-2 comments at random TOKEN BOUNDARIES of a chunk (boundaries taken from
// the real scanner, so never inside a literal or another comment): block comments anywhere, line
// comments (which add a newline and may end the statement there) less often.
func withComments(r *vh.Rand, chunk string) string {
	k := 1 + r.Intn(2)
	for n := 0; n < k; n++ {
		ws, bad := scan([]byte(chunk))
		if bad != "" || len(ws) < 2 {
			return chunk
		}
		// token starts (skip index 0: a leading comment is produced elsewhere); prefer the
		// neighbourhood of parentheses, where the classifier looks
		var cand []int
		for i := 1; i < len(ws); i++ {
			if ws[i].off <= 0 || ws[i].off > len(chunk) || (i > 0 && ws[i].off == ws[i-1].off) {
				continue
			}
			cand = append(cand, ws[i].off)
			if ws[i-1].tok == token.RPAREN || ws[i].tok == token.LPAREN || ws[i-1].tok == token.FUNC {
				cand = append(cand, ws[i].off, ws[i].off)
			}
		}
		if len(cand) == 0 {
			return chunk
		}
		at := cand[r.Intn(len(cand))]
		c := "/* c */ "
		switch r.Intn(10) {
		case 0, 1:
			c = "// c\n"
		case 2:
			c = "/* m\n */"
		case 3:
			c = "/**/"
		}
		chunk = chunk[:at] + c + chunk[at:]
	}
	return chunk
}

// well-formed material for scripts that NEED the hoisting (statements first, functions after):
// format.Source fails on them and succeeds on the rearrangement, which exercises SourceEx's retry.
var cleanStmts = []string{"println \"a\"", "x := 1", "echo x, 2", "for i <- 0:3 {\n\tprintln i\n}", "y := func() {}", "if x > 0 {\n\tprintln x\n}", "π := 3", "x = 2"}
var cleanFuncs = []string{"func f() {}", "func g(a, b int) int {\n\treturn a + b\n}", "func (t *T) m() {\n}", "func(t T) show() {}", "func héllo() {\n\tprintln \"hi\"\n}", "func h2[T any](x T) T { return x }", "func (a T) + (b T) T { return a }"}

func genHoistable(r *vh.Rand) []byte {
	var b bytes.Buffer
	for i, n := 0, 1+r.Intn(3); i < n; i++ {
		b.WriteString(r.Pick(cleanStmts) + "\n")
	}
	if r.Chance(30) {
		b.WriteString("\n")
	}
	for i, n := 0, 1+r.Intn(3); i < n; i++ {
		if r.Chance(20) {
			b.WriteString("// doc\n")
		}
		b.WriteString(r.Pick(cleanFuncs) + "\n")
		if r.Chance(40) {
			b.WriteString("\n")
		}
	}
	if r.Chance(40) {
		b.WriteString(r.Pick(cleanStmts) + "\n")
	}
	if r.Chance(30) {
		b.WriteString("type T int\n")
	}
	return b.Bytes()
}

func genScript(r *vh.Rand) []byte {
	var src []byte
	if r.Chance(22) {
		src = genHoistable(r)
		genCounts["hoistable"]++
	} else {
		src = genScriptRaw(r)
	}
	if r.Chance(60) {
		re := respell(r, src)
		if !bytes.Equal(re, src) {
			genCounts["respelled"]++
		}
		src = re
	}
	if !bytes.Contains(src, []byte("func ")) && bytes.Contains(src, []byte("func")) {
		genCounts["func_never_followed_by_blank"]++
	}
	return src
}

var genCounts = map[string]int{}

func genScriptRaw(r *vh.Rand) []byte {
	var b bytes.Buffer
	mode := r.Intn(10)
	if mode == 0 { // token soup
		n := 1 + r.Intn(30)
		for i := 0; i < n; i++ {
			b.WriteString(r.Pick(soup))
			if r.Chance(60) {
				b.WriteByte(' ')
			}
		}
		return b.Bytes()
	}
	n := r.Intn(9)
	if r.Chance(10) {
		b.WriteString(r.Pick([]string{"\n", "  ", "\n\n", "// head\n", "/* head */ "}))
	}
	// leading declarations (so that `pre` is non-empty) in some cases
	nd := 0
	if r.Chance(50) {
		nd = r.Intn(3)
	}
	for i := 0; i < nd+n; i++ {
		if r.Chance(25) {
			b.WriteString(r.Pick(comments))
			b.WriteString(r.Pick([]string{"\n", "\n", " ", "\n\n"}))
		}
		var c string
		p := r.Intn(100)
		switch {
		case i < nd:
			if r.Bool() {
				c = r.Pick(decls)
			} else {
				c = r.Pick(funcs)
			}
		case p < 20:
			c = r.Pick(decls)
		case p < 50:
			c = r.Pick(funcs)
		case p < 92 || mode < 6:
			c = r.Pick(stmtsT)
		default:
			c = r.Pick(weird)
		}
		if r.Chance(30) {
			c = withComments(r, c)
			commentsInserted++
		}
		b.WriteString(c)
		if i+1 < nd+n || r.Chance(70) {
			if r.Chance(12) {
				b.WriteString(" // t")
				b.WriteString("\n")
			} else {
				b.WriteString(r.Pick(seps))
			}
		}
	}
	return b.Bytes()
}

func corpusFiles(repo string) (res []string) {
	filepath.Walk(repo, func(p string, info os.FileInfo, err error) error {
		if err != nil {
			return nil
		}
		if info.IsDir() {
			if info.Name() == ".git" {
				return filepath.SkipDir
			}
			return nil
		}
		switch filepath.Ext(p) {
		case ".xgo", ".gop", ".gox", ".data":
			if info.Size() <= 12000 {
				res = append(res, p)
			}
		}
		return nil
	})
	sort.Strings(res)
	return
}

var fixed = []string{
	"", "\n", "x", "println \"a\"\nfunc f() {}\n", "var a int", "func f() {}\nvar x int\n",
	"println \"a\"\nfunc() int { println \"b\"; return 1 }()\nfunc f() {}\n",
	"println \"a\"\nfunc /*c*/ () { println \"b\" }()\nfunc f() {}\n",
	"x := 1 // about x\nfunc f() {}\ny := 2\n",
	"a()\n}\nfunc f() {}\n", "a()\n{\nfunc f() {}\n",
	"import \"fmt\"\nfunc f() {}\n", "func f() {}\nprintln 1", "println 1\nfunc f() {}",
	"echo 1\nfunc (t T) m() {}\nfunc g() {}\necho 2\ntype T int\n",
}

func main() {
	if os.Getenv("VERIF_C24_WORKER") == "1" {
		workerMain()
		return
	}
	f := vh.ParseFlags()
	o := vh.NewOut(f.Out)
	defer o.Close()
	hypFile, _ = os.Create(filepath.Join(f.Out, "hyp.txt"))
	defer hypFile.Close()
	defer func() {
		if worker != nil {
			worker.in.Close()
			worker.cmd.Wait()
		}
	}()
	if f.Replay != "" {
		fs := strings.Fields(f.Replay) // op, hex source, … (tabs or blanks)
		if len(fs) < 2 {
			fs = append(fs, "-")
		}
		src, _ := vh.UnHex(fs[1])
		run(src, o, true)
		return
	}
	// minimised past misses / disagreements first
	for _, dir := range []string{os.Getenv("VERIF_CORPUS"), "/verif/corpus/C24", "corpus/C24"} {
		if dir == "" {
			continue
		}
		ents, err := os.ReadDir(dir)
		if err != nil {
			continue
		}
		for _, e := range ents {
			if b, err := os.ReadFile(filepath.Join(dir, e.Name())); err == nil {
				o.Count("regression_corpus")
				run(b, o, true)
			}
		}
		break
	}
	for _, s := range fixed {
		run([]byte(s), o, true)
	}
	repo := os.Getenv("VERIF_REPO")
	if repo == "" {
		repo = "/repo"
	}
	files := corpusFiles(repo)
	maxFiles := 40
	if f.Tier == "thorough" {
		maxFiles = len(files)
	}
	r := vh.NewRand(f.Seed)
	// a seed-dependent sample of the corpus, always including formatutil's own test data
	for i, p := range files {
		own := strings.Contains(p, "formatutil")
		if !own && maxFiles < len(files) && r.Fork(1000000+i).Intn(len(files)) >= maxFiles {
			continue
		}
		b, err := os.ReadFile(p)
		if err != nil {
			continue
		}
		o.Count("corpus_files")
		run(b, o, true)
		if len(b) <= 3000 && r.Fork(2000000+i).Chance(35) {
			if re := respell(r.Fork(3000000+i), b); !bytes.Equal(re, b) {
				o.Count("corpus_files_respelled")
				run(re, o, true)
			}
		}
	}
	for i := 0; i < f.N; i++ {
		run(genScript(r.Fork(i)), o, true)
	}
	o.Stats["chunks_with_inserted_comments"] = commentsInserted
	for k, v := range genCounts {
		o.Stats["gen_"+k] = v
	}
}
