// Differential + oracle harness for C34: parser.ParseFSDir / parser.ParseFSEntries on generated
// in-memory directories (parser/fsx/memfs and an own FileSystem that also has sub-directories).
//
// Case line (driver protocol, see lean/GopModel/Driver/DirClassify.lean):
//
//	c34dir|c34ent \t cfg \t ck \t entries \t m=<raw mode>;fs=<mem|own>
package main

import (
	"fmt"
	"io/fs"
	"path"
	"sort"
	"strconv"
	"strings"
	"syscall"
	"time"

	"github.com/goplus/xgo/parser"
	"github.com/goplus/xgo/parser/fsx/memfs"
	"github.com/goplus/xgo/token"
	"verifharness/vh"
)

// ---------------------------------------------------------------------------- case structure

type entry struct {
	name     string
	isDir    bool
	filterOk bool
	kind     int // content kind 0..4
	pkg      string
}

type tcase struct {
	op      string // c34dir | c34ent
	goAsXGo bool
	mclass  bool
	filter  bool
	ckNil   bool
	ck      map[string][2]bool // isProj, ok
	ckOrder []string
	enoent  bool
	ents    []entry
	rawMode parser.Mode
	fsKind  string
}

func b01(b bool) string {
	if b {
		return "1"
	}
	return "0"
}

func (c *tcase) line() string {
	cfg := ""
	if c.goAsXGo {
		cfg += "g"
	}
	if c.mclass {
		cfg += "c"
	}
	if c.filter {
		cfg += "f"
	}
	if cfg == "" {
		cfg = "-"
	}
	ck := "nil"
	if !c.ckNil {
		var items []string
		for _, n := range c.ckOrder {
			v := c.ck[n]
			items = append(items, vh.HexS(n)+":"+b01(v[0])+b01(v[1]))
		}
		ck = strings.Join(items, ",")
		if ck == "" {
			ck = "-"
		}
	}
	ents := "-"
	if c.enoent {
		ents = "ENOENT"
	} else if len(c.ents) > 0 {
		var items []string
		for _, e := range c.ents {
			items = append(items, fmt.Sprintf("%s:%s:%s:%d:%s", vh.HexS(e.name), b01(e.isDir), b01(e.filterOk), e.kind, vh.HexS(e.pkg)))
		}
		ents = strings.Join(items, ",")
	}
	return fmt.Sprintf("%s\t%s\t%s\t%s\tm=%d;fs=%s", c.op, cfg, ck, ents, uint(c.rawMode), c.fsKind)
}

func parseLine(l string) (*tcase, error) {
	// oracle.txt replaces tabs by blanks; no field contains either
	f := strings.FieldsFunc(l, func(c rune) bool { return c == '\t' || c == ' ' })
	if len(f) < 5 {
		return nil, fmt.Errorf("bad case line")
	}
	c := &tcase{op: f[0], ck: map[string][2]bool{}}
	c.goAsXGo = strings.Contains(f[1], "g")
	c.mclass = strings.Contains(f[1], "c")
	c.filter = strings.Contains(f[1], "f")
	switch f[2] {
	case "nil":
		c.ckNil = true
	case "-":
	default:
		for _, it := range strings.Split(f[2], ",") {
			p := strings.Split(it, ":")
			n, err := vh.UnHex(p[0])
			if err != nil || len(p) != 2 || len(p[1]) != 2 {
				return nil, fmt.Errorf("bad ck")
			}
			c.ck[string(n)] = [2]bool{p[1][0] == '1', p[1][1] == '1'}
			c.ckOrder = append(c.ckOrder, string(n))
		}
	}
	switch f[3] {
	case "ENOENT":
		c.enoent = true
	case "-":
	default:
		for _, it := range strings.Split(f[3], ",") {
			p := strings.Split(it, ":")
			if len(p) != 5 {
				return nil, fmt.Errorf("bad entry")
			}
			n, e1 := vh.UnHex(p[0])
			pk, e2 := vh.UnHex(p[4])
			k, e3 := strconv.Atoi(p[3])
			if e1 != nil || e2 != nil || e3 != nil {
				return nil, fmt.Errorf("bad entry")
			}
			c.ents = append(c.ents, entry{string(n), p[1] == "1", p[2] == "1", k, string(pk)})
		}
	}
	for _, kv := range strings.Split(f[4], ";") {
		if strings.HasPrefix(kv, "m=") {
			m, _ := strconv.ParseUint(kv[2:], 10, 64)
			c.rawMode = parser.Mode(m)
		} else if strings.HasPrefix(kv, "fs=") {
			c.fsKind = kv[3:]
		}
	}
	return c, nil
}

func content(e entry) string {
	switch e.kind {
	case 0:
		return "package " + e.pkg + "\n"
	case 1:
		return "package " + e.pkg + "\nvar (\n\tx int = 1\n)\n"
	case 2:
		return "package " + e.pkg + "\nvar (\n\t*T\n)\n"
	case 3:
		return "package " + e.pkg + "\nfunc ("
	default:
		return "x := 1\n"
	}
}

// ---------------------------------------------------------------------------- own file system

type ownInfo struct {
	name  string
	isDir bool
	size  int
}

func (p *ownInfo) Name() string { return p.name }
func (p *ownInfo) Size() int64  { return int64(p.size) }
func (p *ownInfo) Mode() fs.FileMode {
	if p.isDir {
		return fs.ModeDir | 0755
	}
	return 0644
}
func (p *ownInfo) Type() fs.FileMode          { return p.Mode().Type() }
func (p *ownInfo) ModTime() time.Time         { return time.Unix(1, 0) }
func (p *ownInfo) IsDir() bool                { return p.isDir }
func (p *ownInfo) Sys() any                   { return nil }
func (p *ownInfo) Info() (fs.FileInfo, error) { return p, nil }

type ownFS struct {
	dir   string
	ents  []entry
	files map[string]string
	ok    bool
}

func (p *ownFS) ReadDir(dirname string) ([]fs.DirEntry, error) {
	if !p.ok || dirname != p.dir {
		return nil, syscall.ENOENT
	}
	r := make([]fs.DirEntry, len(p.ents))
	for i, e := range p.ents {
		r[i] = &ownInfo{e.name, e.isDir, len(content(e))}
	}
	return r, nil
}
func (p *ownFS) ReadFile(filename string) ([]byte, error) {
	if d, ok := p.files[filename]; ok {
		return []byte(d), nil
	}
	return nil, syscall.ENOENT
}
func (p *ownFS) Join(elem ...string) string      { return path.Join(elem...) }
func (p *ownFS) Base(filename string) string     { return path.Base(filename) }
func (p *ownFS) Abs(path string) (string, error) { return path, nil }

const dirName = "/d"

func buildFS(c *tcase) parser.FileSystem {
	files := map[string]string{}
	var names []string
	for _, e := range c.ents {
		names = append(names, e.name)
		if !e.isDir {
			files[path.Join(dirName, e.name)] = content(e)
		}
	}
	if c.fsKind == "mem" {
		dirs := map[string][]string{}
		if !c.enoent {
			dirs[dirName] = names
		}
		return memfs.New(dirs, files)
	}
	return &ownFS{dir: dirName, ents: c.ents, files: files, ok: !c.enoent}
}

// ---------------------------------------------------------------------------- running the real code

func (c *tcase) config() parser.Config {
	conf := parser.Config{Mode: c.rawMode}
	if !c.ckNil {
		conf.ClassKind = func(fname string) (bool, bool) {
			v := c.ck[fname]
			return v[0], v[1]
		}
	}
	if c.filter {
		tbl := map[string]bool{}
		for _, e := range c.ents {
			tbl[e.name] = e.filterOk
		}
		conf.Filter = func(fi fs.FileInfo) bool { return tbl[fi.Name()] }
	}
	return conf
}

type slot struct {
	pkg, file         string
	isGo              bool
	proj, class, ngox bool
}

func (s slot) String() string {
	r := vh.HexS(s.pkg) + ":" + vh.HexS(s.file) + ":"
	if s.isGo {
		return r + "G"
	}
	return r + "X" + b01(s.proj) + b01(s.class) + b01(s.ngox)
}

func showSlots(ss []slot) string {
	if len(ss) == 0 {
		return "-"
	}
	strs := make([]string, len(ss))
	for i, s := range ss {
		strs[i] = s.String()
	}
	sort.Strings(strs)
	return strings.Join(strs, ",")
}

func stripDir(fn string) string { return strings.TrimPrefix(fn, dirName+"/") }

func runDir(c *tcase) (impl string, slots []slot, hasErr bool, ok bool) {
	defer func() {
		if r := recover(); r != nil {
			impl, ok = fmt.Sprint("PANIC ", r), false
		}
	}()
	fset := token.NewFileSet()
	pkgs, err := parser.ParseFSDir(fset, buildFS(c), dirName, c.config())
	if pkgs == nil && err != nil {
		if err == syscall.ENOENT {
			return "READDIR-ERR", nil, true, false
		}
		return "ERR " + err.Error(), nil, true, false
	}
	for name, p := range pkgs {
		if p.Name != name {
			slots = append(slots, slot{pkg: name + "!=" + p.Name})
		}
		if len(p.Files) == 0 && len(p.GoFiles) == 0 {
			slots = append(slots, slot{pkg: name, file: "<empty package>"})
		}
		for fn, f := range p.Files {
			s := slot{pkg: name, file: stripDir(fn), proj: f.IsProj, class: f.IsClass, ngox: f.IsNormalGox}
			if f.Name == nil || f.Name.Name != name {
				s.pkg = name + "!=file"
			}
			slots = append(slots, s)
		}
		for fn, f := range p.GoFiles {
			s := slot{pkg: name, file: stripDir(fn), isGo: true}
			if f.Name == nil || f.Name.Name != name {
				s.pkg = name + "!=file"
			}
			slots = append(slots, s)
		}
	}
	return "ok e" + b01(err != nil) + " " + showSlots(slots), slots, err != nil, true
}

func runEnt(c *tcase) (impl string, slots []slot, ok bool) {
	defer func() {
		if r := recover(); r != nil {
			impl, ok = fmt.Sprint("PANIC ", r), false
		}
	}()
	fset := token.NewFileSet()
	var files []string
	for _, e := range c.ents {
		files = append(files, path.Join(dirName, e.name))
	}
	pkgs, err := parser.ParseFSEntries(fset, buildFS(c), files, c.config())
	if err != nil {
		if err == parser.ErrUnknownFileKind {
			return "ERR unknown-file-kind", nil, false
		}
		if pkgs != nil {
			return "ERR+pkgs " + err.Error(), nil, false
		}
		if strings.HasPrefix(err.Error(), dirName+"/") { // a scanner.ErrorList / parse error carries the position
			return "ERR parse", nil, false
		}
		return "ERR " + err.Error(), nil, false
	}
	for name, p := range pkgs {
		for fn, f := range p.Files {
			s := slot{pkg: name, file: stripDir(fn), proj: f.IsProj, class: f.IsClass, ngox: f.IsNormalGox}
			if f.Name == nil || f.Name.Name != name {
				s.pkg = name + "!=file"
			}
			slots = append(slots, s)
		}
		for fn := range p.GoFiles {
			slots = append(slots, slot{pkg: name, file: stripDir(fn), isGo: true})
		}
	}
	return "ok " + showSlots(slots), slots, true
}

// ---------------------------------------------------------------------------- the property, restated independently

func extOf(name string) string { // names have no '/'
	i := strings.LastIndexByte(name, '.')
	if i < 0 {
		return ""
	}
	return name[i:]
}

func refClassKind(c *tcase, name string) (isProj, ok bool) {
	if c.ckNil { // documented default: .spx (project iff main.spx), .gsh and .gmx (projects)
		switch extOf(name) {
		case ".spx":
			return name == "main.spx", true
		case ".gsh", ".gmx":
			return true, true
		}
		return false, false
	}
	v := c.ck[name]
	return v[0], v[1]
}

type expect struct {
	included           bool
	why                string // rule that excludes it
	goParser           bool
	class, ngox        bool
	proj, projDontCare bool
	classMode          bool
}

func refExpect(c *tcase, e entry, dirRules bool) expect {
	var x expect
	ext := extOf(e.name)
	_, ckOk := refClassKind(c, e.name)
	recognised := ext == ".xgo" || ext == ".gop" || ext == ".go" || ext == ".gox" || ckOk
	if dirRules {
		switch {
		case e.isDir:
			x.why = "dir"
		case !recognised:
			x.why = "unknown-ext"
		case ext == ".go" && strings.HasPrefix(e.name, "gop_autogen"):
			x.why = "autogen"
		case strings.HasPrefix(e.name, "_"):
			x.why = "underscore"
		case c.filter && !e.filterOk:
			x.why = "filter"
		}
	} else if !recognised {
		x.why = "unknown-ext"
	}
	if x.why != "" {
		return x
	}
	x.included = true
	plain := ext == ".xgo" || ext == ".gop" || ext == ".go"
	x.goParser = dirRules && ext == ".go" && !c.goAsXGo
	x.class = !plain
	x.ngox = ext == ".gox" && !ckOk
	if !plain {
		p, _ := refClassKind(c, e.name)
		x.proj = p
		x.projDontCare = !ckOk // a normal .gox: the statement does not say what isProj is
	}
	x.classMode = x.class || c.mclass
	return x
}

// parse outcome of a content kind: does it report an error; package it is filed under
func refParse(e entry, x expect) (err bool, pkg string) {
	pkg = e.pkg
	switch e.kind {
	case 1:
		err = !x.goParser && x.classMode
	case 2:
		err = x.goParser || !x.classMode
	case 3:
		err = true
	case 4:
		err = x.goParser
		pkg = "main"
	}
	return
}

func oracleDir(c *tcase, slots []slot, hasErr bool, o *vh.Out) {
	line := c.line()
	seen := map[string]int{}
	for _, e := range c.ents {
		seen[e.name]++
	}
	got := map[string][]slot{}
	for _, s := range slots {
		got[s.file] = append(got[s.file], s)
	}
	wantErr := false
	want := map[string]bool{}
	for _, e := range c.ents {
		if seen[e.name] > 1 {
			return // duplicate names: only the differential run speaks
		}
		x := refExpect(c, e, true)
		g := got[e.name]
		if !x.included {
			if len(g) > 0 {
				o.Oracle("included-but-"+x.why, line, e.name)
			}
			continue
		}
		perr, pkg := refParse(e, x)
		wantErr = wantErr || perr
		if x.goParser && perr {
			if len(g) > 0 {
				o.Oracle("stored-failed-go-file", line, e.name)
			}
			continue
		}
		want[e.name] = true
		if len(g) == 0 {
			o.Oracle("missing-file", line, e.name)
			continue
		}
		if len(g) > 1 {
			o.Oracle("grouping-file-in-two-slots", line, e.name)
			continue
		}
		s := g[0]
		if s.pkg != pkg {
			o.Oracle("grouping-wrong-package", line, e.name+" under "+s.pkg)
		}
		if s.isGo != x.goParser {
			o.Oracle("go-parser-choice", line, e.name)
		}
		if !s.isGo {
			if s.class != x.class {
				o.Oracle("flag-isClass", line, e.name)
			}
			if s.ngox != x.ngox {
				o.Oracle("flag-isNormalGox", line, e.name)
			}
			if !x.projDontCare && s.proj != x.proj {
				o.Oracle("flag-isProj", line, e.name)
			}
		}
	}
	for f := range got {
		if !want[f] && seen[f] == 0 {
			o.Oracle("file-from-nowhere", line, f)
		}
	}
	if hasErr != wantErr {
		o.Oracle("parse-mode-or-error", line, fmt.Sprintf("err=%v want=%v", hasErr, wantErr))
	}
}

func oracleEnt(c *tcase, impl string, slots []slot, o *vh.Out) {
	line := c.line()
	seen := map[string]int{}
	for _, e := range c.ents {
		seen[e.name]++
		if seen[e.name] > 1 {
			return
		}
	}
	// first failing file decides
	for _, e := range c.ents {
		x := refExpect(c, e, false)
		if !x.included {
			if impl != "ERR unknown-file-kind" {
				o.Oracle("entry-unknown-kind-accepted", line, e.name+" => "+impl)
			}
			return
		}
		if perr, _ := refParse(e, x); perr {
			if impl != "ERR parse" {
				o.Oracle("entry-parse-mode-or-error", line, e.name+" => "+impl)
			}
			return
		}
	}
	if !strings.HasPrefix(impl, "ok ") {
		o.Oracle("entry-rejected", line, impl)
		return
	}
	got := map[string]slot{}
	for _, s := range slots {
		got[s.file] = s
	}
	if len(got) != len(c.ents) {
		o.Oracle("entry-count", line, impl)
	}
	for _, e := range c.ents {
		x := refExpect(c, e, false)
		_, pkg := refParse(e, x)
		s, ok := got[e.name]
		if !ok {
			o.Oracle("entry-missing", line, e.name)
			continue
		}
		if s.pkg != pkg {
			o.Oracle("entry-grouping-wrong-package", line, e.name)
		}
		if s.isGo || s.class != x.class || s.ngox != x.ngox || (!x.projDontCare && s.proj != x.proj) {
			o.Oracle("entry-flags", line, e.name)
		}
	}
}

func run(c *tcase, o *vh.Out) {
	nontrivial := len(c.ents) >= 1 && !c.enoent
	if c.op == "c34ent" {
		impl, slots, _ := runEnt(c)
		oracleEnt(c, impl, slots, o)
		if strings.HasPrefix(impl, "ok ") {
			o.Count("ent_ok")
		} else {
			o.Count("ent_" + strings.ReplaceAll(impl, " ", "_"))
		}
		o.Case(c.line(), impl, nontrivial)
		return
	}
	impl, slots, hasErr, ok := runDir(c)
	if ok {
		oracleDir(c, slots, hasErr, o)
		o.Count(fmt.Sprintf("dir_slots_%d", min(len(slots), 6)))
		if hasErr {
			o.Count("dir_with_error")
		}
	} else {
		o.Count("dir_" + firstWord(impl, 0))
		if !c.enoent || impl != "READDIR-ERR" {
			o.Oracle("readdir-outcome", c.line(), impl)
		}
	}
	for _, e := range c.ents {
		x := refExpect(c, e, true)
		if x.included {
			switch {
			case x.goParser:
				o.Count("file_go")
			case x.ngox:
				o.Count("file_normalgox")
			case x.class && x.proj:
				o.Count("file_project")
			case x.class:
				o.Count("file_class")
			default:
				o.Count("file_xgo")
			}
		} else {
			o.Count("skip_" + x.why)
		}
	}
	o.Count("fs_" + c.fsKind)
	o.Case(c.line(), impl, nontrivial)
}

func firstWord(s string, i int) string {
	f := strings.Fields(s)
	if i < len(f) {
		return f[i]
	}
	return ""
}

func min(a, b int) int {
	if a < b {
		return a
	}
	return b
}

// ---------------------------------------------------------------------------- generators

var stems = []string{"a", "b", "main", "_x", "_", "gop_autogen", "gop_autogen_b", "gop_autoge", "Gop_autogen", "x_test", "a.b", ".", "", "a b", "\xc3\xa9", "_gop_autogen", "c_yap"}
var exts = []string{".xgo", ".gop", ".go", ".gox", ".spx", ".gsh", ".gmx", ".txt", "", ".GO", ".Xgo", ".go.bak", ".", ".goxx", ".yap", "_yap.gox", "_test.gox", ".xgo.go", ".go.spx"}
var pkgs = []string{"p", "q", "main", "p2"}

// every literal the classification code (and the class-kind tables used here) compares a name,
// a prefix or an extension with
var literals = []string{"main.spx", "gop_autogen", "gop_autogen.go", "_", "_test.gox", "_yap.gox",
	".xgo", ".gop", ".go", ".gox", ".spx", ".gsh", ".gmx", ".yap", "main.gsh", "main.gmx", "main_yap.gox"}

// nearMisses: the literal itself and its prefix / suffix / infix extensions, truncations and
// case variants (xmain.spx, Domain.spx, a.main.spx, main.spx.x, MAIN.spx, main.SPX, …)
func nearMisses(lit string) []string {
	r := []string{lit, "x" + lit, "Do" + lit, "a." + lit, "_" + lit, lit + "x", lit + ".x", lit + "_",
		strings.ToUpper(lit), strings.ToUpper(lit[:1]) + lit[1:]}
	if len(lit) > 1 {
		r = append(r, lit[1:], lit[:len(lit)-1], lit[:len(lit)/2]+"x"+lit[len(lit)/2:])
	}
	if i := strings.LastIndexByte(lit, '.'); i >= 0 {
		r = append(r, lit[:i]+strings.ToUpper(lit[i:]), lit[:i]+"."+lit[i:], lit[:i]+lit[i+1:])
		if i > 0 {
			r = append(r, strings.ToUpper(lit[:i])+lit[i:], lit[:i]+"2"+lit[i:])
		}
	}
	return r
}

// names derived from the literals: near-misses of whole names, and stems combined with
// near-misses of extensions
var nearNames = func() []string {
	seen := map[string]bool{}
	var out []string
	add := func(n string) {
		if validName(n) && !seen[n] {
			seen[n] = true
			out = append(out, n)
		}
	}
	for _, l := range literals {
		for _, n := range nearMisses(l) {
			add(n)
			if strings.HasPrefix(l, ".") || strings.HasPrefix(l, "_") {
				for _, st := range []string{"a", "main", "_x", "gop_autogen"} {
					add(st + n)
				}
			}
		}
	}
	return out
}()

func validName(n string) bool {
	return n != "" && n != "." && n != ".." && !strings.ContainsAny(n, "/\x00")
}

func genName(r *vh.Rand) string {
	for {
		var n string
		if k := r.Intn(100); k < 60 {
			n = r.Pick(stems) + r.Pick(exts)
		} else if k < 90 {
			n = r.Pick(nearNames)
		} else {
			al := []byte("._agopx \xff-")
			b := make([]byte, 1+r.Intn(7))
			for i := range b {
				b[i] = al[r.Intn(len(al))]
			}
			n = string(b)
		}
		if validName(n) {
			return n
		}
	}
}

var extraModes = []parser.Mode{0, 0, parser.ParseComments, parser.AllErrors, parser.SaveAbsFile, parser.ParseComments | parser.DeclarationErrors}

func (c *tcase) setMode(extra parser.Mode) {
	c.rawMode = extra
	if c.goAsXGo {
		c.rawMode |= parser.ParseGoAsGoPlus
	}
	if c.mclass {
		c.rawMode |= parser.ParseGoPlusClass
	}
}

func genCase(r *vh.Rand) *tcase {
	c := &tcase{op: "c34dir", ck: map[string][2]bool{}}
	if r.Chance(20) {
		c.op = "c34ent"
	}
	c.goAsXGo = r.Chance(40)
	c.mclass = r.Chance(15)
	c.filter = r.Chance(30)
	n := r.Intn(9)
	if r.Chance(5) {
		n = 0
	}
	used := map[string]bool{}
	hasDir := false
	for i := 0; i < n; i++ {
		name := genName(r)
		dup := used[name]
		if dup && !(r.Chance(20)) {
			continue
		}
		used[name] = true
		e := entry{name: name, filterOk: r.Chance(70), kind: 0, pkg: r.Pick(pkgs)}
		if r.Chance(35) {
			e.kind = 1 + r.Intn(4)
		}
		if dup { // a listing that names a file twice: same file, same content
			for _, p := range c.ents {
				if p.name == name {
					e = p
				}
			}
		} else if c.op == "c34dir" && r.Chance(8) {
			e.isDir = true
			hasDir = true
		}
		c.ents = append(c.ents, e)
	}
	// class-kind function
	switch k := r.Intn(10); {
	case k < 3:
		c.ckNil = true
	case k < 6: // arbitrary table over the names present (all four answers)
		for _, e := range c.ents {
			if _, ok := c.ck[e.name]; !ok && r.Chance(70) {
				c.ck[e.name] = [2]bool{r.Bool(), r.Bool()}
				c.ckOrder = append(c.ckOrder, e.name)
			}
		}
	default: // extension based, like xgomod.Module.ClassKind with registered projects
		reg := map[string]bool{}
		for _, x := range []string{".spx", ".gmx", ".yap", "_yap.gox", "_test.gox", ".txt", ".gox", ".go", ".xgo", ""} {
			if r.Chance(40) {
				reg[x] = true
			}
		}
		for _, e := range c.ents {
			if _, ok := c.ck[e.name]; ok {
				continue
			}
			ce := extOf(e.name)
			if ce == ".gox" {
				if i := strings.LastIndexByte(e.name[:len(e.name)-4], '_'); i > 0 {
					ce = e.name[i:]
				}
			}
			if reg[ce] {
				c.ck[e.name] = [2]bool{strings.HasPrefix(e.name, "main") || r.Chance(20), true}
				c.ckOrder = append(c.ckOrder, e.name)
			}
		}
	}
	if c.op == "c34dir" && r.Chance(3) {
		c.enoent = true
		c.ents = nil
	}
	c.fsKind = "own"
	if !hasDir && r.Bool() {
		c.fsKind = "mem"
	}
	c.setMode(extraModes[r.Intn(len(extraModes))])
	return c
}

func exhaustive(o *vh.Out, thorough bool) int {
	cnt := 0
	cks := [][]int{nil, {0, 0}, {0, 1}, {1, 0}, {1, 1}}
	var names []string
	for _, st := range stems {
		for _, ex := range exts {
			names = append(names, st+ex)
		}
	}
	names = append(names, nearNames...)
	done := map[string]bool{}
	for _, name := range names {
		{
			if !validName(name) || done[name] {
				continue
			}
			done[name] = true
			for cki, ck := range cks {
				for g := 0; g < 2; g++ {
					kinds := []int{0}
					variants := 1
					if thorough {
						kinds = []int{0, 1, 2, 3, 4}
						variants = 8
					}
					for _, kind := range kinds {
						for v := 0; v < variants; v++ {
							for _, op := range []string{"c34dir", "c34ent"} {
								if op == "c34ent" && (g == 1 || v&3 != 0) {
									continue
								}
								c := &tcase{op: op, ck: map[string][2]bool{}, goAsXGo: g == 1, fsKind: "mem"}
								c.mclass = v&4 != 0
								e := entry{name: name, filterOk: v&2 == 0, kind: kind, pkg: "p"}
								c.filter = v&3 != 0
								if op == "c34dir" && v&3 == 3 {
									e.isDir, c.fsKind, c.filter = true, "own", false
								}
								if cki == 0 {
									c.ckNil = true
								} else {
									c.ck[name] = [2]bool{ck[0] == 1, ck[1] == 1}
									c.ckOrder = []string{name}
								}
								c.ents = []entry{e}
								c.setMode(0)
								run(c, o)
								cnt++
							}
						}
					}
				}
			}
		}
	}
	return cnt
}

func main() {
	f := vh.ParseFlags()
	o := vh.NewOut(f.Out)
	defer o.Close()
	if f.Replay != "" {
		c, err := parseLine(f.Replay)
		if err != nil {
			fmt.Println("replay:", err)
			return
		}
		run(c, o)
		return
	}
	o.Stats["exhaustive_single_entry_dirs"] = exhaustive(o, f.Tier == "thorough")
	r := vh.NewRand(f.Seed)
	for i := 0; i < f.N; i++ {
		run(genCase(r.Fork(i)), o)
	}
}
