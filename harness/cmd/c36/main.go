// Differential + oracle harness for C36: tool.(*Importer).PkgHash (→ dirHash, canCl) on real
// directories driven through random histories of create / edit / touch / rename / delete /
// mkdir / symlink operations.
//
// Case lines (driver protocol, see lean/GopModel/Driver/DirHash.lean):
//
//	c36     \t self \t hex(goVersion) \t hex(xgoVersion) \t class-exts \t listing \t info
//	c36pair \t self \t hex(goVersion) \t hex(xgoVersion) \t class-exts \t listing1 \t listing2 \t info
//
// impl output: `h:<PkgHash>` (two of them for c36pair); the model prints `pre:<hex preimage>` and
// the check compares base64(sha256(preimage)) with the real hash.
package main

import (
	"fmt"
	"go/token"
	"os"
	"path/filepath"
	"runtime"
	"sort"
	"strconv"
	"strings"
	"time"

	"github.com/goplus/mod/env"
	"github.com/goplus/mod/xgomod"
	"github.com/goplus/xgo/tool"
	"verifharness/vh"
)

const modPath = "example.com/m"
const xgoVersion = "v1.6.0-verif"

type modCfg struct {
	name string
	root string
	exts []string // extensions for which mod.IsClass is expected to answer true
	imp  *tool.Importer
}

var baseExts = []string{".gsh", ".spx", ".gmx", "_test.gox"}

func setupModule(tmp, name string, importClasses bool, goxmod string, exts []string) *modCfg {
	root := filepath.Join(tmp, name)
	must(os.MkdirAll(root, 0o755))
	must(os.WriteFile(filepath.Join(root, "go.mod"), []byte("module "+modPath+"\n\ngo 1.18\n"), 0o644))
	if goxmod != "" {
		must(os.WriteFile(filepath.Join(root, "gox.mod"), []byte(goxmod), 0o644))
	}
	mod, err := xgomod.Load(root)
	must(err)
	if importClasses {
		must(mod.ImportClasses())
	}
	// sanity: the extension list handed to the model is what the module really answers
	for _, e := range []string{".gsh", ".spx", ".gmx", "_test.gox", ".gmy", ".wky", ".go", ".txt", "", ".gox", "_yap.gox"} {
		want := false
		for _, x := range exts {
			want = want || x == e
		}
		if mod.IsClass(e) != want {
			panic(fmt.Sprintf("module %s: IsClass(%q)=%v, harness expects %v", name, e, mod.IsClass(e), want))
		}
	}
	imp := tool.NewImporter(mod, &env.XGo{Version: xgoVersion, Root: root}, token.NewFileSet())
	return &modCfg{name: name, root: root, exts: exts, imp: imp}
}

func must(err error) {
	if err != nil {
		panic(err)
	}
}

// ---------------------------------------------------------------------------- snapshots

type ent struct {
	name  string
	isDir bool
	size  int64
	mtime int64
}

func (e ent) String() string {
	return fmt.Sprintf("%s:%s:%d:%d", vh.HexS(e.name), b01(e.isDir), e.size, e.mtime)
}

func b01(b bool) string {
	if b {
		return "1"
	}
	return "0"
}

// what os.ReadDir + Info report (the environment's answer, fed to the model)
func listing(dir string) (string, []ent) {
	fis, err := os.ReadDir(dir)
	if err != nil {
		return "ERR", nil
	}
	var es []ent
	var parts []string
	for _, fi := range fis {
		v, e := fi.Info()
		if e != nil {
			parts = append(parts, fmt.Sprintf("%s:%s:x:x", vh.HexS(fi.Name()), b01(fi.IsDir())))
			continue
		}
		en := ent{fi.Name(), fi.IsDir(), v.Size(), v.ModTime().UnixNano()}
		es = append(es, en)
		parts = append(parts, en.String())
	}
	if len(parts) == 0 {
		return "-", nil
	}
	return strings.Join(parts, ","), es
}

func extsField(exts []string) string {
	if len(exts) == 0 {
		return "-"
	}
	hs := make([]string, len(exts))
	for i, e := range exts {
		hs[i] = vh.HexS(e)
	}
	return strings.Join(hs, ",")
}

func head(op string, self bool, m *modCfg) string {
	return fmt.Sprintf("%s\t%s\t%s\t%s\t%s", op, b01(self), vh.HexS(runtime.Version()), vh.HexS(xgoVersion), extsField(m.exts))
}

func pkgHash(m *modCfg, sub string, self bool) (h string) {
	defer func() {
		if r := recover(); r != nil {
			h = fmt.Sprint("PANIC ", r)
		}
	}()
	return "h:" + m.imp.PkgHash(modPath+"/"+sub, self)
}

// ---------------------------------------------------------------------------- the property, restated

func extOf(name string) string {
	i := strings.LastIndexByte(name, '.')
	if i < 0 {
		return ""
	}
	return name[i:]
}

func refRelevant(m *modCfg, e ent) bool {
	if e.isDir || strings.HasPrefix(e.name, "_") {
		return false
	}
	switch x := extOf(e.name); x {
	case ".go", ".xgo", ".gop", ".gox":
		return true
	default:
		for _, c := range m.exts {
			if c == x {
				return true
			}
		}
	}
	return false
}

type rec struct {
	size, mtime int64
}

// relevant set of a directory from the harness' own book-keeping of names (not from ReadDir)
func refSet(m *modCfg, dir string, names map[string]bool) map[string]rec {
	r := map[string]rec{}
	for n := range names {
		st, err := os.Lstat(filepath.Join(dir, n))
		if err != nil {
			continue
		}
		e := ent{n, st.IsDir(), st.Size(), st.ModTime().UnixNano()}
		if refRelevant(m, e) {
			r[n] = rec{e.size, e.mtime}
		}
	}
	return r
}

func refSetOfListing(m *modCfg, es []ent) map[string]rec {
	r := map[string]rec{}
	for _, e := range es {
		if refRelevant(m, e) {
			r[e.name] = rec{e.size, e.mtime}
		}
	}
	return r
}

// "" if equal, else what differs
func diffSets(a, b map[string]rec) string {
	var what []string
	add := func(s string) {
		for _, w := range what {
			if w == s {
				return
			}
		}
		what = append(what, s)
	}
	for n, ra := range a {
		rb, ok := b[n]
		switch {
		case !ok:
			add("disappeared")
		case ra.size != rb.size:
			add("size")
		case ra.mtime != rb.mtime:
			add("mtime")
		}
	}
	for n := range b {
		if _, ok := a[n]; !ok {
			add("appeared")
		}
	}
	sort.Strings(what)
	return strings.Join(what, "+")
}

// names whose record differs between the two sets (hex), for the oracle's detail field
func diffNames(a, b map[string]rec) string {
	var ns []string
	for n, ra := range a {
		if rb, ok := b[n]; !ok || ra != rb {
			ns = append(ns, vh.HexS(n))
		}
	}
	for n := range b {
		if _, ok := a[n]; !ok {
			ns = append(ns, vh.HexS(n))
		}
	}
	sort.Strings(ns)
	return strings.Join(ns, ",")
}

type snap struct {
	listing string
	hash    [2]string // self=false,true
	set     map[string]rec
	op      string
}

func checkPair(m *modCfg, a, b *snap, o *vh.Out, info string) {
	d := diffSets(a.set, b.set)
	for s := 0; s < 2; s++ {
		same := a.hash[s] == b.hash[s]
		if same == (d == "") {
			continue
		}
		line := fmt.Sprintf("%s\t%s\t%s\t%s", head("c36pair", s == 1, m), a.listing, b.listing, info)
		if same {
			o.Oracle("hash-unchanged-but-"+d, line, a.op+" .. "+b.op+" differing: "+diffNames(a.set, b.set))
		} else {
			o.Oracle("hash-changed-but-relevant-files-same", line, a.op+" .. "+b.op)
		}
	}
}

// ---------------------------------------------------------------------------- histories

var namePool = []string{
	"a.go", "b.xgo", "c.gop", "d.gox", "e_test.gox", "main.spx", "s.spx", "f.gsh", "g.gmx", "h.gmy", "i.wky",
	"gop_autogen.go", ".hidden.go", "a.b.go", "zz.go",
	"x.txt", "README.md", "noext", "go", "j.goo", "k.GO", "l.go.bak", "m.", "n.xgo~",
	"_a.go", "_", "_t.spx", "__.xgo",
	"sp ace.go", "t\tab.go", "n\nl.go", "q\"uote.xgo", "\xc3\xa9.go", "\xff\xfe.go", "t\tab.txt", "a.go\t1\t2",
}

var mtimePool = []int64{0, 1, -1, -2, 2, 1000000000, 999999999, 1700000000000000000, 1700000000000000001,
	1700000000123456789, 1 << 62, -1500000000000000000, 255, 4096}

func genName(r *vh.Rand) string {
	if r.Chance(92) {
		return r.Pick(namePool)
	}
	al := []byte("ab._\t\n x")
	b := make([]byte, 1+r.Intn(5))
	for i := range b {
		b[i] = al[r.Intn(len(al))]
	}
	n := string(b) + r.Pick([]string{".go", ".xgo", ".txt", "", ".spx"})
	if n == "." || n == ".." {
		n = "dot.go"
	}
	return n
}

func genMtime(r *vh.Rand) int64 {
	if r.Chance(70) {
		return mtimePool[r.Intn(len(mtimePool))]
	}
	return int64(r.U64()%4000000000000000000) - 1000000000000000000
}

func genSize(r *vh.Rand) int {
	switch r.Intn(10) {
	case 0:
		return 0
	case 1:
		return 70000 + r.Intn(10)
	default:
		return r.Intn(40)
	}
}

func writeFile(p string, size int, mtime int64) error {
	if err := os.WriteFile(p, make([]byte, size), 0o644); err != nil {
		return err
	}
	t := time.Unix(0, mtime)
	return os.Chtimes(p, t, t)
}

type hist struct {
	m     *modCfg
	sub   string
	dir   string
	names map[string]bool // every name ever used in this history
	snaps []*snap
	o     *vh.Out
	id    string
}

func (h *hist) live() (files, dirs []string) {
	for n := range h.names {
		st, err := os.Lstat(filepath.Join(h.dir, n))
		if err != nil {
			continue
		}
		if st.IsDir() {
			dirs = append(dirs, n)
		} else {
			files = append(files, n)
		}
	}
	sort.Strings(files)
	sort.Strings(dirs)
	return
}

func (h *hist) snapshot(op string) {
	l, _ := listing(h.dir)
	s := &snap{listing: l, op: op, set: refSet(h.m, h.dir, h.names)}
	info := fmt.Sprintf("h=%s;s=%d;mod=%s;op=%s", h.id, len(h.snaps), h.m.name, op)
	for self := 0; self < 2; self++ {
		s.hash[self] = pkgHash(h.m, h.sub, self == 1)
		line := fmt.Sprintf("%s\t%s\t%s", head("c36", self == 1, h.m), l, info)
		h.o.Case(line, s.hash[self], len(s.set) > 0)
	}
	for _, p := range h.snaps { // all pairs, not only consecutive states
		checkPair(h.m, p, s, h.o, info)
	}
	h.snaps = append(h.snaps, s)
	h.o.Count("op_" + strings.SplitN(op, ":", 2)[0])
	h.o.Count(fmt.Sprintf("relevant_files_%d", minInt(len(s.set), 6)))
}

func minInt(a, b int) int {
	if a < b {
		return a
	}
	return b
}

func hexI(v int64) string {
	if v < 0 {
		return "-" + strconv.FormatUint(uint64(-v), 16)
	}
	return strconv.FormatInt(v, 16)
}

// one random operation; returns its description ("" if it could not be applied)
func (h *hist) step(r *vh.Rand) string {
	files, dirs := h.live()
	p := func(n string) string { return filepath.Join(h.dir, n) }
	k := r.Intn(100)
	if len(files) < 2 && k >= 28 && k < 76 && r.Chance(70) {
		k = 0 // few files: create first
	}
	switch {
	case k < 28: // create (or overwrite)
		n := genName(r)
		h.names[n] = true
		if err := writeFile(p(n), genSize(r), genMtime(r)); err != nil {
			return ""
		}
		return "create"
	case k < 40: // edit: new content, mtime = now or chosen
		if len(files) == 0 {
			return ""
		}
		n := files[r.Intn(len(files))]
		st, err := os.Lstat(p(n))
		if err != nil || st.Mode()&os.ModeSymlink != 0 {
			return ""
		}
		size := genSize(r)
		if r.Chance(40) {
			size = int(st.Size()) // same size, only mtime moves
		}
		if r.Chance(50) {
			if os.WriteFile(p(n), make([]byte, size), 0o644) != nil {
				return ""
			}
			return "edit-now"
		}
		mt := st.ModTime().UnixNano()
		if r.Chance(50) {
			mt = genMtime(r)
		}
		if writeFile(p(n), size, mt) != nil { // possibly same mtime: only the size tells
			return ""
		}
		return "edit"
	case k < 52: // touch
		if len(files) == 0 {
			return ""
		}
		n := files[r.Intn(len(files))]
		st, err := os.Lstat(p(n))
		if err != nil || st.Mode()&os.ModeSymlink != 0 {
			return ""
		}
		mt := genMtime(r)
		if r.Chance(30) {
			mt = st.ModTime().UnixNano() + int64(r.Intn(3)) - 1 // ±1 ns or identical
		}
		t := time.Unix(0, mt)
		if os.Chtimes(p(n), t, t) != nil {
			return ""
		}
		return "touch"
	case k < 64: // rename
		if len(files) == 0 {
			return ""
		}
		n := files[r.Intn(len(files))]
		nn := genName(r)
		h.names[nn] = true
		if os.Rename(p(n), p(nn)) != nil {
			return ""
		}
		return "rename"
	case k < 76: // delete
		if len(files) == 0 {
			return ""
		}
		if os.Remove(p(files[r.Intn(len(files))])) != nil {
			return ""
		}
		return "delete"
	case k < 82: // a sub-directory with a source-like name, and a file inside it
		n := genName(r)
		h.names[n] = true
		if os.Mkdir(p(n), 0o755) != nil {
			return ""
		}
		if r.Bool() {
			writeFile(filepath.Join(p(n), "inner.go"), 3, genMtime(r))
		}
		return "mkdir"
	case k < 86:
		if len(dirs) == 0 {
			return ""
		}
		n := dirs[r.Intn(len(dirs))]
		if r.Bool() {
			if writeFile(filepath.Join(p(n), "more.go"), genSize(r), genMtime(r)) != nil {
				return ""
			}
			return "write-in-subdir"
		}
		if os.RemoveAll(p(n)) != nil {
			return ""
		}
		return "rmdir"
	case k < 90: // symlink (a non-directory entry; Info() is lstat)
		n := genName(r)
		h.names[n] = true
		target := r.Pick([]string{"a.go", "nonexistent.go", "x.txt"})
		h.names[target] = true // a later write through the link creates the target in this directory
		if os.Symlink(target, p(n)) != nil {
			return ""
		}
		return "symlink"
	case k < 96: // adversarial: one file whose name spells two records of the raw "%s" encoding
		rel := refSet(h.m, h.dir, h.names)
		var rn []string
		for n := range rel {
			if st, err := os.Lstat(p(n)); err == nil && st.Mode().IsRegular() {
				rn = append(rn, n)
			}
		}
		all := make([]string, 0, len(rel))
		for n := range rel {
			all = append(all, n)
		}
		sort.Strings(all)
		sort.Strings(rn)
		// two relevant regular files adjacent in ReadDir order
		for i := 0; i+1 < len(all); i++ {
			a, b := all[i], all[i+1]
			if rel[a].size < 0 || !contains(rn, a) || !contains(rn, b) {
				continue
			}
			m := a + "\t" + hexI(rel[a].size) + "\t" + hexI(rel[a].mtime) + "\nfile\t" + b
			if len(m) > 200 || !refRelevant(h.m, ent{name: m}) {
				continue
			}
			h.snapshot("pre-merge")
			os.Remove(p(a))
			os.Remove(p(b))
			h.names[m] = true
			if writeFile(p(m), int(rel[b].size), rel[b].mtime) != nil {
				return ""
			}
			return "merge-names"
		}
		return ""
	default: // the whole directory disappears / comes back
		if r.Bool() {
			if os.RemoveAll(h.dir) != nil {
				return ""
			}
			return "remove-dir"
		}
		os.MkdirAll(h.dir, 0o755)
		return "mkdir-dir"
	}
}

func contains(xs []string, s string) bool {
	for _, x := range xs {
		if x == s {
			return true
		}
	}
	return false
}

func runHistory(m *modCfg, id string, r *vh.Rand, steps int, o *vh.Out) {
	h := &hist{m: m, sub: "p" + id, names: map[string]bool{}, o: o, id: id}
	h.dir = filepath.Join(m.root, h.sub)
	must(os.MkdirAll(h.dir, 0o755))
	defer os.RemoveAll(h.dir)
	for k := r.Intn(6); k > 0; k-- { // a package directory usually starts with some files
		n := genName(r)
		h.names[n] = true
		writeFile(filepath.Join(h.dir, n), genSize(r), genMtime(r))
	}
	h.snapshot("init")
	for i := 0; i < steps; i++ {
		op := h.step(r)
		if op == "" {
			o.Count("op_not_applicable")
			continue
		}
		h.snapshot(op)
	}
}

// fixed scenario: the collision of the raw "%s" record encoding (DESIGN §6), on real files
func scenarioCollision(m *modCfg, o *vh.Out) {
	d1 := filepath.Join(m.root, "col1")
	d2 := filepath.Join(m.root, "col2")
	must(os.MkdirAll(d1, 0o755))
	must(os.MkdirAll(d2, 0o755))
	defer os.RemoveAll(d1)
	defer os.RemoveAll(d2)
	must(writeFile(filepath.Join(d1, "a.go\t1\t2\nfile\tb.go"), 3, 4))
	must(writeFile(filepath.Join(d2, "a.go"), 1, 2))
	must(writeFile(filepath.Join(d2, "b.go"), 3, 4))
	var s [2]*snap
	for i, sub := range []string{"col1", "col2"} {
		l, es := listing(filepath.Join(m.root, sub))
		s[i] = &snap{listing: l, set: refSetOfListing(m, es), op: sub}
		for self := 0; self < 2; self++ {
			s[i].hash[self] = pkgHash(m, sub, self == 1)
			o.Case(fmt.Sprintf("%s\t%s\th=collision;mod=%s", head("c36", self == 1, m), l, m.name), s[i].hash[self], true)
		}
	}
	checkPair(m, s[0], s[1], o, "h=collision;mod="+m.name)
	o.Count("scenario_collision")
}

// ---------------------------------------------------------------------------- replay

func materialise(dir, l string) {
	os.RemoveAll(dir)
	if l == "ERR" {
		return
	}
	must(os.MkdirAll(dir, 0o755))
	if l == "-" {
		return
	}
	for _, it := range strings.Split(l, ",") {
		p := strings.Split(it, ":")
		nb, _ := vh.UnHex(p[0])
		fp := filepath.Join(dir, string(nb))
		if p[1] == "1" {
			os.Mkdir(fp, 0o755)
			continue
		}
		sz, _ := strconv.ParseInt(p[2], 10, 64)
		mt, _ := strconv.ParseInt(p[3], 10, 64)
		writeFile(fp, int(sz), mt) // (a symlink of the original history is replayed as a regular file of the same size)
	}
}

func replay(line string, mods map[string]*modCfg, o *vh.Out) {
	f := strings.FieldsFunc(line, func(c rune) bool { return c == '\t' || c == ' ' })
	if len(f) < 6 {
		fmt.Println("replay: bad case line")
		return
	}
	var m *modCfg
	for _, c := range mods {
		if extsField(c.exts) == f[4] {
			m = c
		}
	}
	if m == nil {
		fmt.Println("replay: unknown module configuration")
		return
	}
	self := f[1] == "1"
	si := 0
	if self {
		si = 1
	}
	switch f[0] {
	case "c36":
		dir := filepath.Join(m.root, "replay")
		materialise(dir, f[5])
		defer os.RemoveAll(dir)
		l, _ := listing(dir)
		o.Case(fmt.Sprintf("%s\t%s\treplay", head("c36", self, m), l), pkgHash(m, "replay", self), true)
	case "c36pair":
		if len(f) < 7 {
			fmt.Println("replay: bad case line")
			return
		}
		var s [2]*snap
		for i := 0; i < 2; i++ {
			sub := fmt.Sprintf("replay%d", i)
			dir := filepath.Join(m.root, sub)
			materialise(dir, f[5+i])
			defer os.RemoveAll(dir)
			l, es := listing(dir)
			s[i] = &snap{listing: l, set: refSetOfListing(m, es), op: sub}
			s[i].hash[si] = pkgHash(m, sub, self)
			s[i].hash[1-si] = "-"
		}
		o.Case(fmt.Sprintf("%s\t%s\t%s\treplay", head("c36pair", self, m), s[0].listing, s[1].listing), s[0].hash[si]+" "+s[1].hash[si], true)
		d := diffSets(s[0].set, s[1].set)
		same := s[0].hash[si] == s[1].hash[si]
		if same != (d == "") {
			line := fmt.Sprintf("%s\t%s\t%s\treplay", head("c36pair", self, m), s[0].listing, s[1].listing)
			if same {
				o.Oracle("hash-unchanged-but-"+d, line, "replay")
			} else {
				o.Oracle("hash-changed-but-relevant-files-same", line, "replay")
			}
		}
	}
}

// ---------------------------------------------------------------------------- main

const goxmodCustom = `xgo 1.5

project .gmy Game example.com/m/game math
class .wky Sprite
`

func main() {
	f := vh.ParseFlags()
	o := vh.NewOut(f.Out)
	defer o.Close()
	tmp, err := os.MkdirTemp("", "verif-c36-")
	must(err)
	defer os.RemoveAll(tmp)
	mods := map[string]*modCfg{
		"plain":   setupModule(tmp, "plain", false, "", nil),
		"classes": setupModule(tmp, "classes", true, "", baseExts),
		"custom":  setupModule(tmp, "custom", true, goxmodCustom, append(append([]string{}, baseExts...), ".gmy", ".wky")),
	}
	if f.Replay != "" {
		replay(f.Replay, mods, o)
		return
	}
	order := []string{"plain", "classes", "custom"}
	for _, n := range order {
		scenarioCollision(mods[n], o)
	}
	r := vh.NewRand(f.Seed)
	steps := 14
	if f.Tier == "thorough" {
		steps = 40
	}
	// -n counts snapshots (roughly): histories = n / (2*steps)
	nh := f.N/(2*steps) + 1
	for i := 0; i < nh; i++ {
		rr := r.Fork(i)
		runHistory(mods[order[i%3]], strconv.Itoa(i), rr, steps, o)
	}
	o.Stats["histories"] = nh
}
