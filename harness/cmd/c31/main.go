// Differential + oracle harness for C31 (tpl/parser: operator precedence of grammar expressions).
//
// Two kinds of cases go to the model (driver drv_tplfront):
//
//	tplparse <eofpos>;<tokens of the REAL tpl scanner>   impl = AST + parser errors of the real ParseEx
//	tplprint <expression in prefix form>                 impl = real scanner's tokens of the text this
//	                                                     harness prints with minimal parentheses
//
// Oracle (evaluated on the real parser only):
//
//	print-parse        the AST parsed from the minimal-parenthesis text of a generated expression is
//	                   that expression, with no error
//	missing-factor     a text with an operand removed (operator directly followed by a closer) parses
//	                   without any error
//	noerr-illformed    the parser reports no error but the tree has an empty/one-element Sequence or
//	                   Choice, a nil operand or an undocumented operator
//	parser-panic       ParseEx panics
package main

import (
	"fmt"
	"strings"

	"github.com/goplus/xgo/tpl/ast"
	"github.com/goplus/xgo/tpl/token"
	tf "verifharness/tplfront"
	"verifharness/vh"
)

var o *vh.Out

// parseCase runs one grammar text; returns the scan and parse results.
func parseCase(src string, tag string) (tf.Scanned, tf.Parsed, string) {
	sc := tf.Scan([]byte(src))
	p := tf.Parse([]byte(src), sc.ScanErrs)
	line := "tplparse\t" + sc.TokField()
	out := tf.ParseOut(&p)
	if !sc.EOFAgain {
		out += " EOF-NOT-STICKY"
	}
	if p.Panicked != "" {
		o.Oracle("parser-panic", line, src)
	} else if p.AllErrs == 0 && p.File != nil {
		for _, d := range p.File.Decls {
			if r, ok := d.(*ast.Rule); !ok || !tf.WellFormed(r.Expr) {
				o.Oracle("noerr-illformed", line, src)
				break
			}
		}
	}
	o.Count("kind_" + tag)
	if p.AllErrs == 0 {
		o.Count("parse_noerr")
	} else {
		o.Count("parse_err")
		for _, e := range p.Errs {
			o.Count("perr_" + e[:1])
		}
	}
	o.Count(fmt.Sprintf("ntoks_%s", bucket(len(sc.Toks))))
	o.Case(line, out, len(sc.Toks) >= 5)
	return sc, p, line
}

func bucket(n int) string {
	switch {
	case n < 5:
		return "lt5"
	case n < 15:
		return "lt15"
	case n < 40:
		return "lt40"
	}
	return "ge40"
}

var terminators = []string{"", ";", "\n", " ;\n", " // end\n", "\n\n"}

// exprCase: generated expression -> printed text -> real scanner + parser; also the tplprint case.
func exprCase(e *tf.E, r *vh.Rand) {
	var words []string
	hole := -1
	e.Words(0, nil, &words, &hole)
	text := tf.JoinWords(words, r)
	name := "doc"
	term := ";"
	if r != nil {
		name = r.Pick([]string{"doc", "expr", "r1", "é"})
		term = r.Pick(terminators)
	}
	src := name + " = " + text + term
	_, p, line := parseCase(src, "printed")
	ok := p.Panicked == "" && p.AllErrs == 0 && p.File != nil && len(p.File.Decls) == 1
	if ok {
		rule, isRule := p.File.Decls[0].(*ast.Rule)
		ok = isRule && rule.Name.Name == name && tf.Sexpr(rule.Expr) == e.Sexpr()
	}
	if !ok {
		o.Oracle("print-parse", line, src+" => "+tf.ParseOut(&p)+" want "+e.Sexpr())
	}
	d := e.Depth()
	if d > 8 {
		d = 8
	}
	o.Count(fmt.Sprintf("depth_%d", d))
	for _, n := range e.Nodes() {
		o.Count(fmt.Sprintf("node_%d", n.K))
	}
	// tplprint: the tokens the theorem speaks about are the tokens the real scanner sees
	sc := tf.Scan([]byte(text))
	parts := make([]string, len(sc.Toks))
	for i, t := range sc.Toks {
		lit := t.Lit
		if t.Tok != token.IDENT && t.Tok != token.CHAR && t.Tok != token.STRING {
			lit = "" // operators: the scanner leaves Lit empty; normalise anyway
		}
		parts[i] = fmt.Sprintf("%d:%s", uint(t.Tok), vh.HexS(lit))
	}
	// an inserted ";" at EOF follows the expression text: not part of the expression
	if n := len(sc.Toks); n > 0 && sc.Toks[n-1].Tok == token.SEMICOLON && sc.Toks[n-1].Lit == "\n" {
		parts = parts[:n-1]
	}
	impl := strings.Join(parts, ",")
	if impl == "" {
		impl = "-"
	}
	o.Case("tplprint\t"+e.Prefix(), impl, e.Size() >= 3)
}

func isFactorStart(w string) bool {
	c := w[0]
	return c == '(' || c == '*' || c == '+' && w != "++" || c == '?' || c == '"' || c == '\'' || c == '`' ||
		c >= 'a' && c <= 'z' || c >= 'A' && c <= 'Z' || c == '_' || c >= 0x80
}

// holeCase: remove one operand; if what is left around the hole is "operator, closer" the parser
// must report an error.
func holeCase(e *tf.E, r *vh.Rand) {
	nodes := e.Nodes()
	h := nodes[r.Intn(len(nodes))]
	var words []string
	at := -1
	e.Words(0, h, &words, &at)
	src := "doc = " + strings.Join(words, " ") + " ;"
	_, p, line := parseCase(src, "hole")
	// words before the hole: at; token before = words[at-1] or "="; token after = words[at] or ";"
	before, after := "=", ";"
	if at > 0 {
		before = words[at-1]
	}
	if at >= 0 && at < len(words) {
		after = words[at]
	}
	opBefore := before == "=" || before == "(" || before == "|" || before == "%" || before == "++" || before == "*" || before == "+" || before == "?"
	definite := opBefore && !isFactorStart(after)
	if definite {
		o.Count("hole_definite")
		if p.Panicked == "" && p.AllErrs == 0 {
			o.Oracle("missing-factor", line, src)
		}
	} else {
		o.Count("hole_indefinite")
	}
}

var strayWords = []string{"|", "%", "++", "*", "+", "?", "(", ")", ";", "=", "=>", "{", "}", "a", `"s"`, "1", "1.5", ",", "@", "\n", "**", "||", "..."}

// every operator spelling of the token table is a stray word too (and gets a fixed case before an
// operand, between operands and after one)
func init() {
	seen := map[string]bool{}
	for _, w := range strayWords {
		seen[w] = true
	}
	for t := token.Token(33); t < 256; t++ {
		if t.Len() > 0 {
			sp := tf.SafeString(t)
			if sp != "" && !seen[sp] {
				seen[sp] = true
				strayWords = append(strayWords, sp)
			}
			if sp != "" {
				fixed = append(fixed, "doc = "+sp+" a ;", "doc = a "+sp+" b ;", "doc = a "+sp+" ;", "doc = ( "+sp+" a ) | b ;")
			}
		}
	}
}

// mutantCase: token-level damage of a printed expression (drop, insert, duplicate, swap).
func mutantCase(e *tf.E, r *vh.Rand) {
	var words []string
	hole := -1
	e.Words(0, nil, &words, &hole)
	words = append([]string{"doc", "="}, words...)
	words = append(words, ";")
	n := 1 + r.Intn(3)
	for k := 0; k < n && len(words) > 0; k++ {
		i := r.Intn(len(words))
		switch r.Intn(4) {
		case 0:
			words = append(words[:i:i], words[i+1:]...)
		case 1:
			w := r.Pick(strayWords)
			words = append(words[:i:i], append([]string{w}, words[i:]...)...)
		case 2:
			words = append(words[:i:i], append([]string{words[i]}, words[i:]...)...)
		case 3:
			j := r.Intn(len(words))
			words[i], words[j] = words[j], words[i]
		}
	}
	parseCase(strings.Join(words, " "), "mutant")
}

var fixed = []string{
	"", ";", "\n", "doc", "doc =", "doc = ;", "= a ;", "doc a ;", "doc = a", "doc = a b", "doc = a ; r = b ;", "doc = a\nr = b\n",
	"doc = ( ) ;", "doc = ( a ;", "doc = a ) ;", "doc = ( ( a ) ) ;", "doc = * ;", "doc = * * a ;", "doc = a % ;", "doc = a ++ ;",
	"doc = a | ;", "doc = | a ;", "doc = a | | b ;", "doc = % a ;", "doc = ++ a ;", "doc = a % % b ;", "doc = a ++ ++ b ;",
	"doc = a % b ++ c % d ;", "doc = a ++ b % c ++ d ;", "doc = a % b c % d | e ;", "doc = *a ++ +b % ?c d | e ;",
	"doc = a => { x } ;", "doc = a => { { } } ;", "doc = a => { ;", "doc = a => x ;", "doc = a => { x }\nr = b", "doc = a => { } }",
	"doc = a => ;", "doc = a =>", "doc = a => { \"}\" } ;", "doc = ( a => { } ) ;",
	"1 = a ;", "doc = 1 ;", "doc = a 1 ;", "doc = a , b ;", "doc = a ; ; r = b ;", "doc == a ;", "doc := a ;", "doc = a @ ;",
	"doc = \"unterminated ;", "doc = 'ab' ;", "doc = '' ;", "doc = \"\\q\" ;", "doc = `raw` ;", "doc = a\x00b ;", "doc = \xff ;",
	"doc = a ? ;", "doc = ? ;", "doc = ?\na ;", "doc = a |\n b ;", "doc = a\n| b ;", "doc = (a\nb) ;", "doc = a ++\nb ;",
	"// only a comment", "/* c */ doc = a /* d */ ;", "# sharp\ndoc = a", "doc = a # c", "doc = c\"x\" ;", "doc = a\"x\" ;",
	"doc = +++a ;", "doc = a+++b ;", "doc = a ** b ;", "doc = a || b ;", "doc = a %= b ;", "doc = (a | b) (c | d) ;", "doc = (a b) | (c d) ;",
	"doc = ((a | b) | c) | d ;", "doc = a | (b | (c | d)) ;", "doc = (a b) (c d) ;", "doc = a % (b % c) ;", "doc = (a % b) % c ;",
	"doc = a ++ (b ++ c) ;", "doc = (a ++ b) ++ c ;", "doc = *(a ++ b) ;", "doc = *a ++ b ;", "doc = (*a) ++ b ;", "doc = *(a % b) ;",
	"doc = * (a | b) ;", "doc = ?+*a ;",
}

func main() {
	f := vh.ParseFlags()
	o = vh.NewOut(f.Out)
	defer o.Close()
	if f.Replay != "" {
		replay(f.Replay)
		return
	}
	for _, s := range fixed {
		parseCase(s, "fixed")
	}
	corpus := tf.Corpus()
	for _, s := range corpus {
		parseCase(s, "corpus")
	}
	o.Stats["corpus_texts"] = len(corpus)
	// exhaustive small scope: every normal-form expression with <= N nodes over {a, "s"}
	N := 4
	if f.Tier == "thorough" {
		N = 6
	}
	leaves := []*tf.E{{K: tf.KIdent, Text: "a"}, {K: tf.KLit, Text: `"s"`, Tok: uint(token.STRING)}}
	cnt := 0
	for n := 1; n <= N; n++ {
		for _, e := range tf.Enumerate(n, leaves) {
			exprCase(e, nil)
			cnt++
		}
	}
	o.Stats["exhaustive_upto_nodes"] = N
	o.Stats["exhaustive_exprs"] = cnt
	r := vh.NewRand(f.Seed)
	for i := 0; i < f.N; i++ {
		rr := r.Fork(i)
		e := tf.Gen(rr, 2+rr.Intn(24))
		switch i % 4 {
		case 0, 1:
			exprCase(e, rr)
		case 2:
			holeCase(e, rr)
		case 3:
			mutantCase(e, rr)
		}
	}
}

// replay re-runs one case line.  The token list does not determine the source text, so the text is
// rebuilt from the tokens (kind + literal) separated by blanks / newlines for "\n" semicolons.
func replay(line string) {
	fs := strings.SplitN(line, "\t", 2)
	if len(fs) != 2 {
		return
	}
	switch fs[0] {
	case "tplparse":
		parts := strings.SplitN(fs[1], ";", 2)
		if len(parts) != 2 {
			return
		}
		var b strings.Builder
		if parts[1] != "-" {
			for _, t := range strings.Split(parts[1], ",") {
				var kind, pos int
				var hex string
				f3 := strings.SplitN(t, ":", 3)
				if len(f3) != 3 {
					return
				}
				fmt.Sscan(f3[0], &kind)
				fmt.Sscan(f3[1], &pos)
				hex = f3[2]
				lit, _ := vh.UnHex(hex)
				for b.Len() < pos {
					b.WriteByte(' ')
				}
				if len(lit) > 0 {
					b.Write(lit)
				} else {
					b.WriteString(token.Token(kind).String())
				}
			}
		}
		parseCase(b.String(), "replay")
	case "tplprint":
		e := readPrefix(strings.Split(fs[1], " "))
		if e != nil {
			exprCase(e, nil)
		}
	}
}

var prefixRest []string

func readPrefix(ws []string) *tf.E {
	prefixRest = ws
	return readOne()
}

func readOne() *tf.E {
	if len(prefixRest) == 0 {
		return nil
	}
	w := prefixRest[0]
	prefixRest = prefixRest[1:]
	arg := w[1:]
	switch w[0] {
	case 'i':
		b, _ := vh.UnHex(arg)
		return &tf.E{K: tf.KIdent, Text: string(b)}
	case 'l':
		kv := strings.SplitN(arg, ":", 2)
		var k uint
		fmt.Sscan(kv[0], &k)
		b, _ := vh.UnHex(kv[1])
		return &tf.E{K: tf.KLit, Tok: k, Text: string(b)}
	case 'u', 'b':
		var op uint
		fmt.Sscan(arg, &op)
		e := &tf.E{K: tf.KUnary, Tok: op}
		n := 1
		if w[0] == 'b' {
			e.K, n = tf.KBinary, 2
		}
		for i := 0; i < n; i++ {
			k := readOne()
			if k == nil {
				return nil
			}
			e.Kids = append(e.Kids, k)
		}
		return e
	case 's', 'c':
		var n int
		fmt.Sscan(arg, &n)
		e := &tf.E{K: tf.KSeq}
		if w[0] == 'c' {
			e.K = tf.KChoice
		}
		for i := 0; i < n; i++ {
			k := readOne()
			if k == nil {
				return nil
			}
			e.Kids = append(e.Kids, k)
		}
		return e
	}
	return nil
}
