// Differential + oracle harness for C27 (tpl.New / cl.NewEx never panic).
//
// Cases for the model (driver drv_tplfront):
//
//	tplnew <eofpos>;<real tokens>;<token indices of the scanner's errors>;<real strconv results per literal>
//	    impl = outcome of the REAL tpl.New(src) (PARSEERR | ok | NODOC | err <classes> | PANIC) followed by
//	    the conflicts cl.NewEx reports to an OnConflict recorder (i/at/firsts[i]/firsts[at])
//	tplcl  <eofpos>;<real tokens>;<real strconv results>
//	    impl = outcome of the real cl.NewEx on the parser's tree EVEN IF the parser reported errors
//	    (never done by tpl.New; exercises the panic branches of the model; no oracle)
//
//	tplnewex <eofpos>;<real tokens>;<scanner error indices>;<strconv results>;<srcOk>
//	    impl = dynamic type of the error returned by the real tpl.NewEx(src, "f.tpl", line, col) (after
//	    Relocate) " / " the one returned by the real tpl.FromFile(nil, "", src, nil); src is given as string,
//	    []byte, io.Reader, *bytes.Buffer, and as unreadable sources (nil *bytes.Buffer, an int, a failing
//	    reader, nil = read file ""): srcOk=0
//
// Oracle (on the real implementation only): tpl.New(src) panics => key "new-panic-<class>";
// tpl.NewEx / tpl.FromFile panic => "newex-panic-<class>" / "fromfile-panic-<class>".
// Excluded on purpose: the RetProc `params` of tpl.New/NewEx (odd count and non-string names panic by
// design: documented programmer errors, not grammar input).
package main

import (
	"bytes"
	"fmt"
	"os"
	"path/filepath"
	"strconv"
	"strings"
	"time"

	"github.com/goplus/xgo/tpl"
	"github.com/goplus/xgo/tpl/ast"
	"github.com/goplus/xgo/tpl/cl"
	"github.com/goplus/xgo/tpl/matcher"
	"github.com/goplus/xgo/tpl/parser"
	"github.com/goplus/xgo/tpl/scanner"
	"github.com/goplus/xgo/tpl/token"
	"github.com/qiniu/x/errors"
	tf "verifharness/tplfront"
	"verifharness/vh"
)

var o *vh.Out

// current.txt holds the case being run, so that a fatal error of the implementation (stack
// overflow: not recoverable) still leaves the failing input behind for the check.
var curFile *os.File

func setCurrent(line, src string) {
	if curFile == nil {
		return
	}
	b := []byte(line + "\n" + strconv.Quote(src) + "\n")
	curFile.Truncate(0)
	curFile.WriteAt(b, 0)
}

// unqField: the real strconv results for every CHAR/STRING token.
func unqField(sc *tf.Scanned) string {
	seen := map[string]bool{}
	var parts []string
	for _, t := range sc.Toks {
		switch t.Tok {
		case token.CHAR:
			k := "c" + vh.HexS(t.Lit)
			if seen[k] {
				continue
			}
			seen[k] = true
			res := "E"
			if len(t.Lit) >= 2 {
				v, mb, tail, err := strconv.UnquoteChar(t.Lit[1:len(t.Lit)-1], '\'')
				if err == nil {
					res = fmt.Sprintf("%d.%d.%d", v, b2i(mb), b2i(tail == ""))
				}
			}
			parts = append(parts, k+"="+res)
		case token.STRING:
			k := "s" + vh.HexS(t.Lit)
			if seen[k] {
				continue
			}
			seen[k] = true
			res := "E"
			if v, err := strconv.Unquote(t.Lit); err == nil {
				res = vh.HexS(v)
			}
			parts = append(parts, k+"="+res)
		}
	}
	if len(parts) == 0 {
		return "-"
	}
	return strings.Join(parts, ",")
}

func b2i(b bool) int {
	if b {
		return 1
	}
	return 0
}

func litAt(sc *tf.Scanned, off int) string {
	for i, t := range sc.Toks {
		if sc.Offs[i] == off {
			return vh.HexS(t.Lit)
		}
	}
	return "?" + strconv.Itoa(off)
}

func canonOne(e error, sc *tf.Scanned) string {
	me, ok := e.(*matcher.Error)
	if !ok {
		return "?" + fmt.Sprintf("%T", e)
	}
	lit := litAt(sc, me.Fset.Position(me.Pos).Offset)
	m := me.Msg
	switch {
	case strings.HasPrefix(m, "duplicate rule `"):
		return "dup:" + lit
	case strings.HasSuffix(m, "` is undefined"):
		return "undef:" + lit
	case strings.HasPrefix(m, "invalid literal "):
		return "badlit:" + lit
	case strings.HasPrefix(m, "invalid token: "):
		return "badtok:" + lit
	case strings.HasPrefix(m, "invalid token "):
		return "badop"
	case m == "variable is already assigned":
		return "assigned:" + lit
	case strings.HasPrefix(m, "recursive variable "):
		return "rec:" + lit
	}
	return "?" + m
}

// canon: outcome class of (err) returned by tpl.New / cl.NewEx.
func canon(err error, sc *tf.Scanned) string {
	switch e := err.(type) {
	case nil:
		return "ok"
	case scanner.ErrorList, *scanner.Error:
		return "PARSEERR"
	case errors.List:
		parts := make([]string, len(e))
		for i, x := range e {
			parts[i] = canonOne(x, sc)
		}
		return "err " + strings.Join(parts, ",")
	case *matcher.Error:
		return "err " + canonOne(e, sc)
	}
	if err == cl.ErrNoDocFound {
		return "NODOC"
	}
	return "?" + fmt.Sprintf("%T %v", err, err)
}

func panicClass(p string) string {
	switch {
	case strings.Contains(p, "todo:"):
		return "todo"
	case strings.Contains(p, "index out of range"):
		return "index"
	case strings.Contains(p, "slice bounds"):
		return "slice"
	case strings.Contains(p, "nil pointer"):
		return "nil"
	case strings.Contains(p, "unreachable"):
		return "unreachable"
	}
	return "other"
}

// guarded runs f with recover and a timeout; returns ("", result) or a PANIC/TIMEOUT marker.
func guarded(f func() string) string {
	ch := make(chan string, 1)
	go func() {
		defer func() {
			if e := recover(); e != nil {
				ch <- "PANIC " + fmt.Sprint(e)
			}
		}()
		ch <- f()
	}()
	select {
	case s := <-ch:
		return s
	case <-time.After(10 * time.Second):
		return "TIMEOUT"
	}
}

func showItems(fs []any) string {
	if len(fs) == 0 {
		return "-"
	}
	parts := make([]string, len(fs))
	for i, f := range fs {
		switch f := f.(type) {
		case token.Token:
			parts[i] = fmt.Sprintf("t%d", uint(f))
		case *matcher.MatchToken:
			parts[i] = fmt.Sprintf("m%d:%s", uint(f.Tok), vh.HexS(f.Lit))
		default:
			parts[i] = fmt.Sprintf("?%T", f)
		}
	}
	return strings.Join(parts, "+")
}

// newExRecorded: cl.NewEx with an OnConflict recorder; withDefault additionally runs the default
// callback path (conf == nil) first so that a panic in onConflictDefault is observed.
func newExRecorded(src []byte, sc *tf.Scanned, ignoreParseErrors bool) string {
	return guarded(func() string {
		fset := token.NewFileSet()
		var f *ast.File
		if ignoreParseErrors {
			file := fset.AddFile("", -1, len(src))
			f, _ = parser.ParseEx(file, src, 0, nil)
		} else {
			var err error
			f, err = parser.ParseFile(fset, "", src, nil)
			if err != nil {
				return "PARSEERR"
			}
		}
		if ignoreParseErrors {
			// the default callback first: this is where Options[i].Pos() may panic
			if _, err := cl.NewEx(nil, fset, f); err != nil {
				_ = err
			}
		}
		var conflicts []string
		conf := &cl.Config{OnConflict: func(fset *token.FileSet, c *ast.Choice, firsts [][]any, i, at int) {
			conflicts = append(conflicts, fmt.Sprintf("%d/%d/%s/%s", i, at, showItems(firsts[i]), showItems(firsts[at])))
		}}
		_, err := cl.NewEx(conf, fset, f)
		cs := strings.Join(conflicts, ",")
		if cs == "" {
			cs = "-"
		}
		c := canon(err, sc)
		if c == "NODOC" {
			return c
		}
		return c + " " + cs
	})
}

// scanPanicCase: the real scanner itself panics on src, so there are no tokens for the model: the
// case goes through the oracle only (case line `tplsrc <hex source>`, no model line).
func scanPanicCase(src, why string) {
	line := "tplsrc\t" + vh.HexS(src)
	setCurrent(line, src)
	a := guarded(func() string {
		_, err := tpl.New(src)
		return "returned " + fmt.Sprintf("%T", err)
	})
	o.Count("scanner_panics")
	if strings.HasPrefix(a, "PANIC") {
		o.Oracle("new-panic-"+panicClass(a), line, fmt.Sprintf("tpl.New(%q): %s", src, a))
	} else {
		// tpl.New survived although scanning the same text panicked: report as a broken tie
		o.Oracle("scanner-panic-"+panicClass(why), line, fmt.Sprintf("tpl/scanner panics on %q: %s (tpl.New %s)", src, why, a))
	}
}

func newCase(src string, tag string) {
	sc, sp := tf.SafeScan([]byte(src))
	if sp != "" {
		scanPanicCase(src, sp)
		return
	}
	line := fmt.Sprintf("tplnew\t%s;%s;%s", sc.TokField(), sc.ErrAtField(), unqField(&sc))
	setCurrent(line, src)
	a := guarded(func() string {
		_, err := tpl.New(src)
		return canon(err, &sc)
	})
	b := newExRecorded([]byte(src), &sc, false)
	out := b
	// tpl.New and ParseFile+NewEx must agree on the outcome class
	if a != b && !strings.HasPrefix(b, a+" ") {
		out = "AB-MISMATCH new=" + a + " newex=" + b
	}
	if strings.HasPrefix(a, "PANIC") {
		out = "PANIC"
		o.Oracle("new-panic-"+panicClass(a), line, fmt.Sprintf("tpl.New(%q): %s", src, a))
	}
	if a == "TIMEOUT" {
		o.Oracle("new-timeout", line, fmt.Sprintf("tpl.New(%q)", src))
	}
	if sc.ScanErrs == 0 {
		for _, t := range sc.Toks {
			if t.Tok == token.CHAR && len(t.Lit) < 2 {
				out += " CHAR-LIT-SHORT-WITHOUT-SCAN-ERROR"
			}
		}
	}
	o.Count("kind_" + tag)
	o.Count("out_" + strings.SplitN(out, " ", 2)[0])
	if strings.HasPrefix(out, "err ") {
		for _, e := range strings.Split(strings.SplitN(out, " ", 3)[1], ",") {
			o.Count("cerr_" + strings.SplitN(e, ":", 2)[0])
		}
	}
	if strings.Contains(out, "/") {
		o.Count("with_conflicts")
	}
	o.Case(line, out, out != "PARSEERR")
	newExCase(src, 0)
	if tag == "fixed" || tag == "builtin" || tag == "grammar" || tag == "escape" {
		newExCount++
		newExCase(src, 1+newExCount%7)
	}
}

// errKind: dynamic type of an error as the model names it.
func errKind(err error) string {
	switch e := err.(type) {
	case nil:
		return "ok"
	case *scanner.Error:
		return "*scanner.Error"
	case scanner.ErrorList:
		return "scanner.ErrorList"
	case *matcher.Error:
		return "*matcher.Error"
	case errors.List:
		parts := make([]string, len(e))
		for i, x := range e {
			parts[i] = errKind(x)
		}
		return "errors.List[" + strings.Join(parts, ",") + "]"
	}
	return "plain"
}

type failingReader struct{}

func (failingReader) Read([]byte) (int, error) { return 0, fmt.Errorf("read failed") }

// srcVariant: the same text as the different `src any` kinds iox.ReadSourceLocal understands, and
// sources it cannot read.
func srcVariant(src string, v int) (any, bool) {
	switch v {
	case 0:
		return src, true
	case 1:
		return []byte(src), true
	case 2:
		return strings.NewReader(src), true
	case 3:
		return bytes.NewBufferString(src), true
	case 4:
		return (*bytes.Buffer)(nil), false
	case 5:
		return 7, false
	case 6:
		return failingReader{}, false
	}
	return nil, false // os.ReadFile("")
}

var lineCols = [][2]int{{1, 1}, {3, 5}, {0, 0}, {-2, -7}, {1 << 40, 1 << 40}, {1, 80}, {2, 1}}

var newExCount int

func newExCase(src string, variant int) {
	sc, sp := tf.SafeScan([]byte(src))
	if sp != "" {
		return
	}
	_, ok := srcVariant(src, variant)
	line := fmt.Sprintf("tplnewex\t%s;%s;%s;%d", sc.TokField(), sc.ErrAtField(), unqField(&sc), b2i(ok))
	setCurrent(line, src)
	newExCount++
	lc := lineCols[newExCount%len(lineCols)]
	run := func(hide bool) string {
		return guarded(func() string {
			tpl.ShowConflict(!hide)
			defer tpl.ShowConflict(true)
			s, _ := srcVariant(src, variant)
			_, err := tpl.NewEx(s, "f.tpl", lc[0], lc[1])
			return errKind(err)
		})
	}
	a := run(false)
	if a2 := run(true); a2 != a && !strings.HasPrefix(a, "PANIC") {
		a = "SHOWCONFLICT-MISMATCH " + a + " vs " + a2
	}
	b := guarded(func() string {
		s, _ := srcVariant(src, variant)
		_, err := tpl.FromFile(nil, "", s, nil)
		return errKind(err)
	})
	if strings.HasPrefix(a, "PANIC") {
		o.Oracle("newex-panic-"+panicClass(a), line, fmt.Sprintf("tpl.NewEx(%q (source kind %d), \"f.tpl\", %d, %d): %s", src, variant, lc[0], lc[1], a))
		a = "PANIC"
	}
	if strings.HasPrefix(b, "PANIC") {
		o.Oracle("fromfile-panic-"+panicClass(b), line, fmt.Sprintf("tpl.FromFile(nil, \"\", %q (source kind %d), nil): %s", src, variant, b))
		b = "PANIC"
	}
	if a == "TIMEOUT" || b == "TIMEOUT" {
		o.Oracle("newex-timeout", line, src)
	}
	out := a
	if a != "ok" && a != "PANIC" && !strings.HasPrefix(a, "SHOW") {
		out = "err " + a
	}
	outb := b
	if b != "ok" && b != "PANIC" {
		outb = "err " + b
	}
	o.Count("kind_newex")
	o.Count("newex_" + strings.SplitN(a, "[", 2)[0])
	o.Count(fmt.Sprintf("newex_srckind_%d", variant))
	o.Case(line, out+" / "+outb, true)
}

func clCase(src string) {
	sc, sp := tf.SafeScan([]byte(src))
	if sp != "" {
		return
	}
	line := fmt.Sprintf("tplcl\t%s;%s", sc.TokField(), unqField(&sc))
	setCurrent("", "") // a crash here is not a C27 failure (cl.NewEx on a tree with parse errors)
	out := newExRecorded([]byte(src), &sc, true)
	if strings.HasPrefix(out, "PANIC") {
		o.Count("cl_panic_" + panicClass(out))
		out = "PANIC"
	}
	o.Count("kind_cl")
	o.Case(line, out, true)
}

// ---------------------------------------------------------------------------
// generators

var ruleNames = []string{"doc", "a", "b", "c", "expr", "term"}
var refNames = []string{"doc", "a", "b", "c", "expr", "term", "undefinedX", "IDENT", "INT", "STRING", "EOF", "SPACE", "QSTRING", "RAWSTRING", "CHAR", "FLOAT", "LPAREN", "RBRACE", "COMMENT"}

func genGrammar(r *vh.Rand) string {
	n := 1 + r.Intn(5)
	var b strings.Builder
	lits := tf.LitPool()
	for i := 0; i < n; i++ {
		name := ruleNames[i%len(ruleNames)]
		if r.Chance(12) {
			name = r.Pick(ruleNames) // duplicates / out of order
		}
		var e *tf.E
		switch r.Intn(6) {
		case 0: // left recursion
			e = &tf.E{K: tf.KSeq, Kids: []*tf.E{{K: tf.KIdent, Text: name}, tf.GenWith(r, 3, refNames, lits)}}
		case 1: // recursion under a choice
			e = &tf.E{K: tf.KChoice, Kids: []*tf.E{tf.GenWith(r, 3, refNames, lits), {K: tf.KIdent, Text: r.Pick(ruleNames)}}}
		default:
			e = tf.GenWith(r, 1+r.Intn(10), refNames, lits)
		}
		var words []string
		hole := -1
		e.Words(0, nil, &words, &hole)
		if r.Chance(10) && len(words) > 0 { // a stray number among the factors
			k := r.Intn(len(words) + 1)
			words = append(words[:k:k], append([]string{r.Pick(numbers)}, words[k:]...)...)
		}
		b.WriteString(name + " = " + tf.JoinWords(words, nil))
		if r.Chance(15) {
			b.WriteString(" => { x }")
		}
		b.WriteString(r.Pick([]string{"\n", ";", " ;\n", "\n\n"}))
	}
	return b.String()
}

// numeric lexemes of every class the TPL scanner knows, valid and malformed
var numbers = []string{"0", "7", "42", "089", "08", "09", "0789", "0b2", "0b12", "0b", "0b101", "0o9", "0o18", "0o", "0o17", "0x", "0xg", "0x1F", "0X_1",
	"1_", "1__2", "1_000", "_1", "1e", "1e+", "1e-", "1e5", "1.e3", "1.5", ".5", "5.", "0.", "00.5", "08.5", "0x1p", "0x1p-2", "0x1.8p1", "0x.p1", "0b1.0", "0o1e2",
	"1i", "08i", "0x1i", "3r", "3.4r", "08r", "10km", "2.3s", "5ns", "089km", "0b2km", "1e9999", "0e0", "00", "000", "0_8", "0_9_", "0b_2", "0o_8",
	"12345678901234567890123456789012345678901234567890", "0999999999999999999999999999999999999999", "0b" + strings.Repeat("10", 40) + "2",
	"0x" + strings.Repeat("f", 60) + "g", "1" + strings.Repeat("_1", 30) + "_"}

// numberCases: each number at offset 0 and after other text, separated and glued to identifiers, strings,
// operators, in rule-name and in expression position.
func numberCases(num string) []string {
	return []string{
		num, num + " = a", num + "\n", "doc = " + num, "doc = " + num + "\n", "doc = \"x\" " + num, "doc = \"x\" " + num + " ;",
		"doc = a" + num, "doc = " + num + "a", "doc = \"x\"" + num, "doc = " + num + "\"x\"", "doc = '" + num + "'", "doc = (" + num + ")",
		"doc = a | " + num + " | b\na = \"y\"", "doc = *" + num, "doc = a % " + num, "doc = a ++ " + num, "doc = a => { " + num + " }",
		"doc = a\n" + num + " = b", "// c\ndoc = a " + num, "doc = a /* " + num + " */ " + num + "\n\tb = " + num,
	}
}

var escapes = []string{`\a`, `\b`, `\f`, `\n`, `\r`, `\t`, `\v`, `\\`, `\'`, `\"`, `\0`, `\00`, `\000`, `\377`, `\400`, `\477`, `\8`, `\x`, `\x4`, `\x41`,
	`\xg0`, `\u12`, `\u0041`, `\u00e9`, `\ud800`, `\uffff`, `\U0010FFFF`, `\U00110000`, `\U0000009e`, `\q`, `\`, `\x9e\x9e`, `a\x9e`, `\x9ea`}

var punct = []byte("!\"#$%&'()*+,-./:;<=>?@[\\]^_`{|}~ ")

func quoteForms(body string) []string {
	return []string{`"` + body + `"`, `'` + body + `'`, "`" + body + "`"}
}

var fixed = []string{
	"", "doc = ", "doc = a", "doc = doc", "doc = a | b; a = doc", "doc = a; doc = b", "doc = \"x\"; doc = \"y\"", "a = \"\\x00\"; doc = a",
	"doc = a \"x\"; a = doc", "doc = *doc", "doc = ?doc \"x\"", "doc = +doc", "doc = doc % \",\"", "doc = \",\" % doc", "doc = doc ++ \"x\"", "doc = \"x\" ++ doc",
	"doc = (a | b) \"\\x00\" (c | d)", "doc = \"a\" | \"a\"", "doc = \"a\" | IDENT", "doc = IDENT | \"a\"", "doc = IDENT | IDENT | INT | IDENT",
	"doc = \"+\" | '+' | \"+\"", "doc = QSTRING | RAWSTRING | STRING", "doc = SPACE | \"\" | \"x\"", "doc = *\"a\" \"a\" | \"a\"", "doc = ?\"a\" \"b\" | \"b\"",
	"doc = (\"a\" | \"b\") | (\"b\" | \"c\")", "doc = a | a; a = \"x\"", "doc = a | b; a = b; b = \"x\"", "doc = a | b; a = b \"y\"; b = a \"x\"",
	"doc = \"\\x9e\"", "doc = '\\x9e'", "doc = \"\\236\"", "doc = \"\\x9d\"", "doc = \"\\x9f\"", "doc = \"\\x80\"", "doc = \"\\x7f\"", "doc = \"\\xff\"", "doc = ' '", "doc = \" \"", "doc = \"!\"",
	"doc = \"<<\" | \"<<=\" | \"<\"", "doc = \"...\" \"=>\" \"->\" \"<>\" \"**\" \"&^=\"", "doc = \"..\"", "doc = \"=>>\"", "doc = \"日\"", "doc = '日'", "doc = '\\u65e5'",
	"doc = a\na = b\nb = c\nc = doc | \"x\"", "x = y", "x = \"\\x00\"", "doc = EOF", "doc = a; a = a", "doc = \"x\"; a = a", "doc = \"x\"; a = a \"y\"",
	"doc = \"x\"; a = b; b = a", "doc = \"x\"; a = \"y\"; a = a", "doc = \"x\"; a = *a", "doc = \"x\"; a = ?\"q\" a",
}

func main() {
	f := vh.ParseFlags()
	o = vh.NewOut(f.Out)
	defer o.Close()
	os.Stderr, _ = os.OpenFile(os.DevNull, os.O_WRONLY, 0)
	curFile, _ = os.Create(filepath.Join(f.Out, "current.txt"))
	if f.Replay != "" {
		replay(f.Replay)
		return
	}
	for _, s := range fixed {
		newCase(s, "fixed")
		clCase(s)
	}
	// every builtin identifier class (and near misses), alone and against a literal of the same class
	for _, n := range []string{"EOF", "COMMENT", "IDENT", "INT", "FLOAT", "IMAG", "CHAR", "STRING", "RAT", "UNIT", "LPAREN", "RPAREN",
		"LBRACK", "RBRACK", "LBRACE", "RBRACE", "RAWSTRING", "QSTRING", "SPACE", "ILLEGAL", "SEMICOLON", "ident", "Int", "STRINGS", "_", "LPAREN2"} {
		newCase("doc = "+n, "builtin")
		newCase("doc = "+n+" | \"(\" | STRING | IDENT | \"x\" | "+n, "builtin")
		newCase(n+" = \"x\"\ndoc = "+n+" | IDENT", "builtin")
	}
	// every single byte, escaped and raw, in the three literal forms
	for b := 0; b < 256; b++ {
		for _, body := range []string{fmt.Sprintf(`\x%02x`, b), fmt.Sprintf(`\%03o`, b), string([]byte{byte(b)}), fmt.Sprintf(`\u%04x`, b)} {
			for _, q := range quoteForms(body) {
				newCase("doc = "+q, "byte")
			}
		}
	}
	for _, num := range numbers {
		for _, g := range numberCases(num) {
			newCase(g, "number")
		}
	}
	for _, e := range escapes {
		for _, q := range quoteForms(e) {
			newCase("doc = "+q+"\n", "escape")
			newCase("doc = a "+q+" | b\na = \"x\"", "escape")
		}
	}
	// every string of two punctuation characters (token spellings and near misses)
	for _, c1 := range punct {
		for _, c2 := range punct {
			s := string([]byte{c1, c2})
			newCase("doc = "+strconv.Quote(s), "punct2")
		}
	}
	// every token spelling, and each with one character appended / dropped
	for t := token.Token(0); t < 200; t++ {
		sp := tf.SafeString(t)
		if sp == "" {
			o.Count("token_string_panics_or_empty") // not on tpl.New's path: counted, not a C27 failure
			continue
		}
		for _, s := range []string{sp, sp + "=", sp + sp[len(sp)-1:], sp[:len(sp)-1], " " + sp} {
			newCase("doc = "+strconv.Quote(s), "spelling")
		}
	}
	corpus := tf.Corpus()
	for _, s := range corpus {
		newCase(s, "corpus")
	}
	o.Stats["corpus_texts"] = len(corpus)
	r := vh.NewRand(f.Seed)
	for i := 0; i < f.N; i++ {
		rr := r.Fork(i)
		g := genGrammar(rr)
		if i%10 == 9 {
			// an expression with one operand removed, compiled despite the parse error
			e := tf.GenWith(rr, 2+rr.Intn(10), []string{"doc", "IDENT", "a"}, []string{`"a"`, `"b"`, `'+'`, `"if"`})
			nodes := e.Nodes()
			var words []string
			at := -1
			e.Words(0, nodes[rr.Intn(len(nodes))], &words, &at)
			clCase("doc = " + strings.Join(words, " ") + " | \"a\" | IDENT\na = doc")
			continue
		}
		switch i % 5 {
		case 0, 1, 2:
			newCase(g, "grammar")
		case 3:
			// damaged grammar: drop / insert characters
			bs := []byte(g)
			for k := 0; k < 1+rr.Intn(3) && len(bs) > 0; k++ {
				j := rr.Intn(len(bs))
				if rr.Bool() {
					bs = append(bs[:j:j], bs[j+1:]...)
				} else {
					if rr.Chance(25) { // a number, glued or separated
						num := rr.Pick(numbers)
						if rr.Bool() {
							num = " " + num + " "
						}
						bs = append(bs[:j:j], append([]byte(num), bs[j:]...)...)
					} else {
						ins := []byte("|%+*?()=;\"'`\\\n x0189._beoxpir")
						bs = append(bs[:j:j], append([]byte{ins[rr.Intn(len(ins))]}, bs[j:]...)...)
					}
				}
			}
			newCase(string(bs), "damaged")
			clCase(string(bs))
		case 4:
			// a literal of random bytes / escapes inside a grammar
			var lb strings.Builder
			for k := 0; k < 1+rr.Intn(3); k++ {
				if rr.Bool() {
					lb.WriteString(rr.Pick(escapes))
				} else {
					lb.WriteByte(punct[rr.Intn(len(punct))])
				}
			}
			q := quoteForms(lb.String())[rr.Intn(3)]
			newCase("doc = a | "+q+"\na = "+q+" doc | \"z\"\n", "randlit")
		}
	}
}

func replay(line string) {
	fs := strings.SplitN(line, "\t", 2)
	if len(fs) != 2 {
		return
	}
	if fs[0] == "tplsrc" {
		b, _ := vh.UnHex(fs[1])
		newCase(string(b), "replay")
		return
	}
	parts := strings.Split(fs[1], ";")
	if len(parts) < 2 {
		return
	}
	// rebuild a source text from the tokens (kind, offset, literal); the unquote table and the scan
	// error count are recomputed from it
	var b strings.Builder
	if parts[1] != "-" {
		for _, t := range strings.Split(parts[1], ",") {
			f3 := strings.SplitN(t, ":", 3)
			if len(f3) != 3 {
				return
			}
			var kind, pos int
			fmt.Sscan(f3[0], &kind)
			fmt.Sscan(f3[1], &pos)
			lit, _ := vh.UnHex(f3[2])
			for b.Len() < pos {
				b.WriteByte(' ')
			}
			if len(lit) > 0 {
				b.Write(lit)
			} else {
				b.WriteString(token.Token(kind).String())
			}
		}
	}
	if fs[0] == "tplcl" {
		clCase(b.String())
	} else if fs[0] == "tplnewex" {
		v := 0
		if len(parts) >= 5 && parts[4] == "0" {
			v = 5
		}
		for i := 0; i < len(lineCols); i++ { // every (line, col) pair
			newExCase(b.String(), v)
		}
	} else {
		newCase(b.String(), "replay")
	}
}
