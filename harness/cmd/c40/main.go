// Differential + stress harness for C40 (x/watcher.Changes: FileChanged / Fetch).
//
//	pdir   path.Dir on generated paths                      (model: TS.pathDir)
//	wseq   sequential op sequences on a real *Changes        (model: the regenerated thread programs,
//	       each op run to completion by the small-step model)
//	whist  concurrent histories of a real *Changes            (model: linearisation search, each op run
//	       through the small-step model) + the property oracle on the history
//
// Everything that touches the real code runs in child processes of this program (a fatal runtime
// error such as "unlock of unlocked mutex" or a hang must not take the check down): the parent
// starts the children, enforces time limits and merges their output.
package main

import (
	"bytes"
	"flag"
	"fmt"
	"os"
	"os/exec"
	"path"
	"path/filepath"
	"reflect"
	"runtime"
	"sort"
	"strconv"
	"strings"
	"sync"
	"sync/atomic"
	"time"
	"unsafe"

	"github.com/goplus/xgo/x/watcher"
	"verifharness/vh"
)

var (
	childMode = flag.String("child", "", "internal: run one batch kind in this process (seq|stress)")
	procs     = flag.Int("procs", 0, "internal: GOMAXPROCS of a stress child")
)

// ---------------------------------------------------------------------------------------
// generators

var dirParts = []string{"a", "b", "c", "pkg", "x.y", "_t", ".h", "a b", "é", "..", ".", ""}
var fileNames = []string{"x.go", "y.xgo", "z", "_skip.go", ".hid", "f~", "gop_autogen.go", "m.gox", ""}

func genName(r *vh.Rand) string {
	if r.Chance(8) {
		// arbitrary bytes incl. separators
		n := r.Intn(7)
		al := []byte("/./ab\xff ")
		b := make([]byte, n)
		for i := range b {
			b[i] = al[r.Intn(len(al))]
		}
		return string(b)
	}
	var sb strings.Builder
	if r.Chance(10) {
		sb.WriteString("/")
	}
	depth := r.Intn(4)
	for i := 0; i < depth; i++ {
		sb.WriteString(r.Pick(dirParts))
		if r.Chance(10) {
			sb.WriteString("//")
		} else {
			sb.WriteString("/")
		}
	}
	sb.WriteString(r.Pick(fileNames))
	return sb.String()
}

// small pools make collisions (same directory reported twice) frequent
func namePool(r *vh.Rand) []string {
	n := 2 + r.Intn(5)
	p := make([]string, n)
	for i := range p {
		if r.Chance(70) {
			p[i] = r.Pick([]string{"a", "b", "a/b", "c"}) + "/" + r.Pick([]string{"x.go", "y.go", "z.xgo"})
		} else {
			p[i] = genName(r)
		}
	}
	return p
}

var roots = []string{"/tmp/vr", "/", "/r/../q", "/a b", "rel/root"}

func effRoot(root string) string {
	abs, _ := filepath.Abs(root)
	return abs + "/"
}

// ---------------------------------------------------------------------------------------
// access to the pending set of a live *Changes (by field TYPE, not name); ok=false if the struct
// no longer has exactly one sync.Mutex and one map[...]struct{}.

type peek struct {
	mu *sync.Mutex
	m  reflect.Value
}

func newPeek(c *watcher.Changes) (*peek, bool) {
	v := reflect.ValueOf(c).Elem()
	p := &peek{}
	nm, nmap := 0, 0
	for i := 0; i < v.NumField(); i++ {
		f := v.Field(i)
		switch {
		case f.Type() == reflect.TypeOf(sync.Mutex{}):
			p.mu = (*sync.Mutex)(unsafe.Pointer(f.UnsafeAddr()))
			nm++
		case f.Kind() == reflect.Map && f.Type().Elem().Kind() == reflect.Struct && f.Type().Elem().NumField() == 0:
			p.m = f
			nmap++
		}
	}
	return p, nm == 1 && nmap == 1
}

func (p *peek) len() int {
	p.mu.Lock()
	n := p.m.Len()
	p.mu.Unlock()
	return n
}

// ---------------------------------------------------------------------------------------
// sequential differential

type fetchRes struct {
	dir string
	ok  bool
}

func fetchTimeout(c *watcher.Changes, fp bool, d time.Duration) (string, bool) {
	ch := make(chan string, 1)
	go func() { ch <- c.Fetch(fp) }()
	select {
	case s := <-ch:
		return s, true
	case <-time.After(d):
		return "", false
	}
}

func seqCase(r *vh.Rand, o *vh.Out) {
	root := r.Pick(roots)
	c := watcher.NewChanges(root)
	er := effRoot(root)
	pool := namePool(r)
	ref := map[string]bool{} // reference set: directories reported and not yet fetched
	var ops, impl []string
	n := 1 + r.Intn(10)
	line := func() string { return "wseq\t" + vh.HexS(er) + "\t" + strings.Join(ops, ",") }
	hang := false
	doFetch := func(fp bool) {
		got, ok := fetchTimeout(c, fp, 3*time.Second)
		if !ok {
			o.Oracle("fetch-hang", line(), fmt.Sprintf("Fetch blocks although %d directories are pending", len(ref)))
			impl = append(impl, "HANG")
			hang = true
			return
		}
		b := "0"
		key := got
		if fp {
			b = "1"
			if !strings.HasPrefix(got, er) {
				o.Oracle("fullpath-prefix", line(), got)
			}
			key = strings.TrimPrefix(got, er)
		}
		ops = append(ops, "F"+b+vh.HexS(got))
		impl = append(impl, "f")
		if !ref[key] {
			o.Oracle("fetched-unreported", line(), fmt.Sprintf("Fetch returned %q, pending %v", got, keys(ref)))
		}
		delete(ref, key)
	}
	for i := 0; i < n && !hang; i++ {
		switch {
		case len(ref) == 0 && r.Chance(12):
			// Fetch on the empty set must block until the next report
			fp := r.Bool()
			name := r.Pick(pool)
			ch := make(chan string, 1)
			go func() { ch <- c.Fetch(fp) }()
			time.Sleep(time.Duration(200+r.Intn(800)) * time.Microsecond)
			b := "0"
			if fp {
				b = "1"
			}
			ops = append(ops, "W"+b+vh.HexS(name))
			select {
			case s := <-ch:
				impl = append(impl, "NOBLOCK")
				o.Oracle("fetch-on-empty-returned", line(), fmt.Sprintf("%q", s))
			default:
				c.FileChanged(name)
				select {
				case s := <-ch:
					impl = append(impl, "w"+vh.HexS(s))
					want := path.Dir(name)
					if fp {
						want = er + want
					}
					if s != want {
						o.Oracle("woken-fetch-wrong-dir", line(), fmt.Sprintf("got %q want %q", s, want))
					}
				case <-time.After(3 * time.Second):
					impl = append(impl, "HANG")
					o.Oracle("lost-wakeup", line(), "a Fetch waiting on the empty set was not woken by FileChanged")
					hang = true
				}
			}
			o.Count("seq_blocked_fetch")
		case len(ref) > 0 && r.Chance(40):
			doFetch(r.Chance(30))
		case r.Chance(22):
			// the other exported methods must leave the pending set alone (the oracle below and the
			// model treat them as no-ops): EntryDeleted(dir, true) on a pending directory, on the parent
			// of one, on an unreported one; Ignore; DirAdded of a directory that does not exist
			switch r.Intn(6) {
			case 0, 1, 2:
				d := path.Dir(r.Pick(pool))
				if ks := keys(ref); len(ks) > 0 && r.Chance(60) {
					d = ks[r.Intn(len(ks))]
					o.Count("seq_dirdeleted_pending")
				}
				if r.Chance(20) {
					d = path.Dir(d)
				}
				if r.Chance(10) {
					d += "/"
				}
				c.EntryDeleted(d, true)
				ops = append(ops, "D"+vh.HexS(d))
				impl = append(impl, "d")
				o.Count("seq_dirdeleted")
			case 3:
				name := r.Pick(pool)
				c.Ignore(name, false)
				ops = append(ops, "I"+vh.HexS(name))
				impl = append(impl, "i")
				o.Count("seq_ignore")
			case 4:
				name := path.Dir(r.Pick(pool))
				c.Ignore(name, true)
				ops = append(ops, "J"+vh.HexS(name))
				impl = append(impl, "i")
				o.Count("seq_ignore")
			default:
				name := fmt.Sprintf("no-such-dir-%d", r.Intn(1000))
				c.DirAdded(name)
				ops = append(ops, "A"+vh.HexS(name))
				impl = append(impl, "a")
				o.Count("seq_diradded_missing")
			}
		default:
			name := r.Pick(pool)
			if r.Chance(15) {
				c.EntryDeleted(name, false) // documented to behave as FileChanged
				o.Count("seq_entrydeleted")
			} else {
				c.FileChanged(name)
			}
			ops = append(ops, "C"+vh.HexS(name))
			impl = append(impl, "c")
			if ref[path.Dir(name)] {
				o.Count("seq_report_of_pending_dir")
			}
			ref[path.Dir(name)] = true
		}
	}
	// nothing lost: what is still pending comes out, each once
	pending := keys(ref)
	if !hang {
		if pk, ok := newPeek(c); ok && pk.len() != len(ref) {
			o.Oracle("pending-count", line(), fmt.Sprintf("len(changed)=%d, reference %d %v", pk.len(), len(ref), pending))
		}
		for len(ref) > 0 && !hang {
			doFetch(false)
		}
	}
	o.Count(fmt.Sprintf("seq_len_%02d", len(ops)))
	o.Case(line(), strings.Join(impl, " ")+" |", len(ops) >= 2)
}

func keys(m map[string]bool) []string {
	ks := make([]string, 0, len(m))
	for k := range m {
		ks = append(ks, k)
	}
	sort.Strings(ks)
	return ks
}

func pdirCase(p string, o *vh.Out) {
	o.Case("pdir\t"+vh.HexS(p), vh.HexS(path.Dir(p)), len(p) > 0)
	o.Count("pdir")
}

// ---------------------------------------------------------------------------------------
// concurrent stress

type hop struct {
	fetch    bool
	fp       bool
	arg      string // name reported / value returned
	dir      string // directory concerned
	inv, ret int64
}

type stressCfg struct {
	seed           uint64
	idx            int
	producers      int
	consumers      int
	reportsPerProd int
	procs          int
	fetchLimit     int // fetches per consumer (0 = loop for ever)
	tight          int // 1 = no jitter, long bursts (tiny windows such as "drain, then Wait" vs "insert")
}

func (c stressCfg) line() string {
	return fmt.Sprintf("c40stress\t%d\t%d\t%d\t%d\t%d\t%d\t%d\t%d", c.seed, c.idx, c.producers, c.consumers, c.reportsPerProd, c.procs, c.fetchLimit, c.tight)
}

func jitter(r *vh.Rand) {
	switch r.Intn(6) {
	case 0, 1:
		runtime.Gosched()
	case 2:
		time.Sleep(time.Duration(r.Intn(30)) * time.Microsecond)
	}
}

// runStress returns the history and a failure key ("" = completed and drained).
func runStress(cfg stressCfg) (hist []hop, er string, fail string, detail string, resnap func() []hop) {
	r := vh.NewRand(cfg.seed).Fork(cfg.idx)
	root := r.Pick(roots)
	er = effRoot(root)
	c := watcher.NewChanges(root)
	pk, havePeek := newPeek(c)
	pool := namePool(r)
	if cfg.tight == 1 {
		pool = []string{"a/x.go", "b/y.go"}
	}
	jitter := func(jr *vh.Rand) {
		if cfg.tight == 0 {
			jitter(jr)
		}
	}
	var clock int64
	tick := func() int64 { return atomic.AddInt64(&clock, 1) }
	var mu sync.Mutex
	var log []hop
	add := func(h hop) { mu.Lock(); log = append(log, h); mu.Unlock() }
	resnap = func() []hop { return snapshot(&mu, &log) }
	var inFetch int64 // consumers currently between "before Fetch" and "logged"
	running := int64(cfg.consumers)
	if !havePeek {
		cfg.fetchLimit = 0 // without a view of the pending set only looping consumers can be judged
	}
	var wg sync.WaitGroup
	for p := 0; p < cfg.producers; p++ {
		pr := r.Fork(1000 + p)
		wg.Add(1)
		go func() {
			defer wg.Done()
			for i := 0; i < cfg.reportsPerProd; i++ {
				name := pr.Pick(pool)
				jitter(pr)
				if cfg.tight == 0 && pr.Chance(20) {
					// other methods, racing with the reports: they must not disturb the pending set
					switch pr.Intn(4) {
					case 0, 1:
						c.EntryDeleted(path.Dir(pr.Pick(pool)), true)
					case 2:
						c.EntryDeleted(path.Dir(path.Dir(pr.Pick(pool))), true)
					default:
						c.Ignore(pr.Pick(pool), false)
					}
				}
				inv := tick()
				c.FileChanged(name)
				add(hop{arg: name, dir: path.Dir(name), inv: inv, ret: tick()})
			}
		}()
	}
	for k := 0; k < cfg.consumers; k++ {
		cr := r.Fork(2000 + k)
		fp := cr.Chance(30)
		go func() {
			defer atomic.AddInt64(&running, -1)
			for n := 0; cfg.fetchLimit == 0 || n < cfg.fetchLimit; n++ {
				jitter(cr)
				atomic.AddInt64(&inFetch, 1)
				inv := tick()
				d := c.Fetch(fp)
				ret := tick()
				dir := d
				if fp {
					dir = strings.TrimPrefix(d, er)
				}
				add(hop{fetch: true, fp: fp, arg: d, dir: dir, inv: inv, ret: ret})
				atomic.AddInt64(&inFetch, -1)
			}
		}()
	}
	done := make(chan struct{})
	go func() { wg.Wait(); close(done) }()
	select {
	case <-done:
	case <-time.After(10 * time.Second):
		return snapshot(&mu, &log), er, "report-hang", "FileChanged calls did not return within 10s", resnap
	}
	drain := func() ([]hop, string, string, string, func() []hop) {
		// the main goroutine fetches what is still pending
		n := 0
		if havePeek {
			n = pk.len()
		} else {
			ref := map[string]bool{}
			for _, o := range snapshot(&mu, &log) {
				ref[o.dir] = true
			}
			n = len(ref)
		}
		for i := n; i > 0; i-- {
			inv := tick()
			d, ok := fetchTimeout(c, false, 3*time.Second)
			if !ok {
				return snapshot(&mu, &log), er, "fetch-hang", fmt.Sprintf("Fetch blocks although %d directories are pending", i), resnap
			}
			add(hop{fetch: true, arg: d, dir: d, inv: inv, ret: tick()})
		}
		if havePeek && pk.len() != 0 {
			return snapshot(&mu, &log), er, "pending-count", fmt.Sprintf("len(changed)=%d after fetching every pending directory", pk.len()), resnap
		}
		return snapshot(&mu, &log), er, "", "", resnap
	}
	if cfg.consumers == 0 {
		return drain()
	}
	// consumers drain; those that loop end up blocked in Fetch, one-shot consumers exit
	deadline := time.Now().Add(5 * time.Second)
	stable := 0
	last := -1
	for {
		mu.Lock()
		n := len(log)
		mu.Unlock()
		run := atomic.LoadInt64(&running)
		quiet := atomic.LoadInt64(&inFetch) == run
		empty := true
		if havePeek {
			empty = pk.len() == 0
		}
		if run == 0 {
			return drain()
		}
		if quiet && empty && n == last {
			stable++
			// without the peek we can only wait for the history to stop growing
			need := 3
			if !havePeek {
				need = 40
			}
			if stable >= need {
				return snapshot(&mu, &log), er, "", "", resnap
			}
		} else {
			stable = 0
		}
		last = n
		if time.Now().After(deadline) {
			if havePeek && !empty {
				return snapshot(&mu, &log), er, "lost-wakeup",
					fmt.Sprintf("%d directories stay pending while %d consumers sit in Fetch", pk.len(), run), resnap
			}
			return snapshot(&mu, &log), er, "", "", resnap
		}
		time.Sleep(200 * time.Microsecond)
	}
}

func snapshot(mu *sync.Mutex, log *[]hop) []hop {
	mu.Lock()
	defer mu.Unlock()
	h := append([]hop(nil), (*log)...)
	sort.Slice(h, func(i, j int) bool { return h[i].inv < h[j].inv })
	return h
}

func histString(h []hop) string {
	parts := make([]string, len(h))
	for i, o := range h {
		if o.fetch {
			fp := "0"
			if o.fp {
				fp = "1"
			}
			parts[i] = fmt.Sprintf("F%d:%d:%s:%s", o.inv, o.ret, fp, vh.HexS(o.arg))
		} else {
			parts[i] = fmt.Sprintf("R%d:%d:%s", o.inv, o.ret, vh.HexS(o.arg))
		}
	}
	return strings.Join(parts, ",")
}

// perDirLinearizable: is there an order of the ops on one directory, respecting real time, in which
// every fetch is preceded by at least one report since the previous fetch, ending with `want` pending?
func perDirLinearizable(ops []hop, want bool) bool {
	n := len(ops)
	if n > 24 {
		return true // not checked (counted)
	}
	type key struct {
		mask uint32
		pend bool
	}
	memo := map[key]bool{}
	full := uint32(1)<<uint(n) - 1
	var rec func(mask uint32, pend bool) bool
	rec = func(mask uint32, pend bool) bool {
		if mask == full {
			return pend == want
		}
		k := key{mask, pend}
		if v, ok := memo[k]; ok {
			return v
		}
		res := false
		for i := 0; i < n && !res; i++ {
			if mask&(1<<uint(i)) != 0 {
				continue
			}
			min := true
			for j := 0; j < n; j++ {
				if j != i && mask&(1<<uint(j)) == 0 && ops[j].ret < ops[i].inv {
					min = false
					break
				}
			}
			if !min {
				continue
			}
			if ops[i].fetch {
				if pend {
					res = rec(mask|1<<uint(i), false)
				}
			} else {
				res = rec(mask|1<<uint(i), true)
			}
		}
		memo[k] = res
		return res
	}
	return rec(0, false)
}

// oracle evaluates the property on a completed-and-drained history; returns key, detail.
func oracle(h []hop) (string, string) {
	by := map[string][]hop{}
	for _, o := range h {
		by[o.dir] = append(by[o.dir], o)
	}
	dirs := make([]string, 0, len(by))
	for d := range by {
		dirs = append(dirs, d)
	}
	sort.Strings(dirs)
	for _, d := range dirs {
		ops := by[d]
		nr, nf := 0, 0
		firstRep := int64(1 << 62)
		for _, o := range ops {
			if o.fetch {
				nf++
			} else {
				nr++
				if o.inv < firstRep {
					firstRep = o.inv
				}
			}
		}
		for _, o := range ops {
			if o.fetch && o.ret < firstRep {
				return "fetched-unreported", fmt.Sprintf("Fetch returned %q before any report of it", d)
			}
		}
		if nf > nr {
			return "fetched-more-than-reported", fmt.Sprintf("%q fetched %d times, reported %d times", d, nf, nr)
		}
		if nr > 0 && nf == 0 {
			return "lost-report", fmt.Sprintf("%q was reported %d times and never fetched although the consumers are idle", d, nr)
		}
		if !perDirLinearizable(ops, false) {
			if perDirLinearizable(ops, true) {
				return "lost-report", fmt.Sprintf("the last report of %q was never fetched although the consumers are idle", d)
			}
			return "duplicate-fetch", fmt.Sprintf("%q returned twice without a report in between (no valid order of its %d ops)", d, len(ops))
		}
	}
	return "", ""
}

func stressCase(cfg stressCfg, o *vh.Out) {
	runtime.GOMAXPROCS(cfg.procs)
	h, er, fail, detail, resnap := runStress(cfg)
	if fail == "" {
		fail, detail = oracle(h)
		if fail != "" {
			// slow path: a consumer may have been between "Fetch returned" and "logged"
			time.Sleep(150 * time.Millisecond)
			h = resnap()
			fail, detail = oracle(h)
		}
	}
	o.Count(fmt.Sprintf("stress_p%d_c%d", cfg.producers, cfg.consumers))
	o.Count(fmt.Sprintf("stress_procs_%d", cfg.procs))
	o.Count("stress_ops_" + bucket(len(h)))
	if fail != "" {
		hs := histString(h)
		if len(hs) > 4000 {
			hs = hs[:2000] + " … " + hs[len(hs)-2000:]
		}
		o.Oracle(fail, cfg.line(), detail+" | history: "+hs)
		o.Stats["stress_failed"]++
		return
	}
	// small histories also go to the model (linearisation search through the small-step model)
	if len(h) <= 12 {
		o.Case("whist\t"+vh.HexS(er)+"\t0\t"+histString(h), "accept", len(h) >= 3)
	} else {
		o.N++ // evaluated by the oracle only
		o.Stats["stress_oracle_only"]++
	}
}

func bucket(n int) string {
	switch {
	case n <= 4:
		return "00-04"
	case n <= 8:
		return "05-08"
	case n <= 12:
		return "09-12"
	case n <= 24:
		return "13-24"
	}
	return "25+"
}

func genStress(r *vh.Rand, seed uint64, idx int, procs int) stressCfg {
	cfg := stressCfg{seed: seed, idx: idx, procs: procs}
	switch r.Intn(10) {
	case 0:
		cfg.producers, cfg.consumers, cfg.reportsPerProd = 1+r.Intn(3), 0, 1+r.Intn(3)
	case 1, 2, 3:
		cfg.producers, cfg.consumers, cfg.reportsPerProd = 1+r.Intn(2), 1+r.Intn(2), 1+r.Intn(3)
	case 4, 5, 6:
		cfg.producers, cfg.consumers, cfg.reportsPerProd = 2+r.Intn(2), 2+r.Intn(2), 1+r.Intn(2)
	default:
		cfg.producers, cfg.consumers, cfg.reportsPerProd = 2+r.Intn(4), 2+r.Intn(4), 2+r.Intn(6)
	}
	if procs > 1 && r.Chance(12) {
		// the narrow window "consumer drains and goes to Wait" vs "producer decides whether to Broadcast"
		return stressCfg{seed: seed, idx: idx, procs: procs, producers: 1, consumers: 1, reportsPerProd: 3000 + r.Intn(3000), tight: 1}
	}
	if r.Chance(50) {
		cfg.fetchLimit = 1 + r.Intn(2) // one-shot consumers: a consumer left asleep cannot be covered up by another
	}
	return cfg
}

// ---------------------------------------------------------------------------------------
// children

func childSeq(f *vh.Flags, o *vh.Out) {
	r := vh.NewRand(f.Seed)
	// path.Dir: fixed corner cases + random
	for _, p := range []string{"", "/", "//", "a", "a/", "/a", "a/b", "a//b", "a/./b", "a/../b", "../a", "../../a/b", "/..", "/../a",
		"a/b/..", "a/b/../..", "a/b/../../..", ".", "./", "./a", "..", "../", "a/..", "/a/b/", "///a///b///c", "a/.../b", ".../x", "a/..b/c", "a/b./c"} {
		pdirCase(p, o)
	}
	np := f.N
	for i := 0; i < np; i++ {
		pdirCase(genName(r.Fork(500000+i)), o)
	}
	for i := 0; i < f.N && o.Stats["oracle_fail"] < 5; i++ { // a few failures are enough (each may cost a time-out)
		seqCase(r.Fork(i), o)
	}
}

func childStress(f *vh.Flags, o *vh.Out) {
	r := vh.NewRand(f.Seed ^ uint64(*procs)*7919)
	for i := 0; i < f.N && o.Stats["stress_failed"] < 3; i++ {
		stressCase(genStress(r.Fork(i), f.Seed^uint64(*procs)*7919, i, *procs), o)
	}
}

type childResult struct {
	dir, id, tail string
	timedOut      bool
	err           error
	limit         time.Duration
}

// startChild starts this program again in child mode and waits for it (with a time limit).
func startChild(f *vh.Flags, kind string, n int, p int, limit time.Duration) childResult {
	dir := filepath.Join(f.Out, fmt.Sprintf("child-%s-%d", kind, p))
	os.MkdirAll(dir, 0o755)
	cmd := exec.Command(os.Args[0], "-child", kind, "-procs", strconv.Itoa(p), "-seed", strconv.FormatUint(f.Seed, 10),
		"-n", strconv.Itoa(n), "-tier", f.Tier, "-out", dir)
	var stderr bytes.Buffer
	cmd.Stderr = &stderr
	cmd.Stdout = &stderr
	r := childResult{dir: dir, limit: limit, id: fmt.Sprintf("c40child\t%s\t%d\t%d\t%d", kind, f.Seed, n, p)}
	if err := cmd.Start(); err != nil {
		fmt.Fprintln(os.Stderr, "cannot start child:", err)
		os.Exit(2)
	}
	done := make(chan error, 1)
	go func() { done <- cmd.Wait() }()
	select {
	case r.err = <-done:
	case <-time.After(limit):
		cmd.Process.Kill()
		r.err = <-done
		r.timedOut = true
	}
	r.tail = stderr.String()
	if len(r.tail) > 1500 {
		r.tail = r.tail[:700] + " … " + r.tail[len(r.tail)-700:]
	}
	return r
}

func (r childResult) mergeInto(o *vh.Out) {
	merge(o, r.dir)
	switch {
	case r.timedOut:
		o.Oracle("hang", r.id, "child did not finish within "+r.limit.String()+": "+r.tail)
	case r.err != nil:
		o.Oracle("crash", r.id, "the code under test brought the process down: "+r.tail)
	}
}

func merge(o *vh.Out, dir string) {
	read := func(name string) []string {
		b, err := os.ReadFile(filepath.Join(dir, name))
		if err != nil || len(b) == 0 {
			return nil
		}
		return strings.Split(strings.TrimSuffix(string(b), "\n"), "\n")
	}
	cases, impl := read("cases.txt"), read("impl.txt")
	for i := 0; i < len(cases) && i < len(impl); i++ {
		o.Case(cases[i], impl[i], true)
	}
	for _, l := range read("oracle.txt") {
		p := strings.SplitN(l, "\t", 3)
		for len(p) < 3 {
			p = append(p, "")
		}
		o.Oracle(p[0], p[1], p[2])
	}
	for _, l := range read("counts.txt") {
		p := strings.SplitN(l, "\t", 2)
		if len(p) == 2 {
			n, _ := strconv.Atoi(p[1])
			if p[0] == "_N" {
				o.N += n
			} else if p[0] != "oracle_fail" {
				o.Stats[p[0]] += n
			}
		}
	}
}

// a child additionally writes its counters in a line format the parent can add up
func writeCounts(o *vh.Out, dir string) {
	var b strings.Builder
	for k, v := range o.Stats {
		fmt.Fprintf(&b, "%s\t%d\n", k, v)
	}
	extra := o.Stats["stress_oracle_only"] + o.Stats["stress_failed"]
	fmt.Fprintf(&b, "_N\t%d\n", extra)
	os.WriteFile(filepath.Join(dir, "counts.txt"), []byte(b.String()), 0o644)
}

func main() {
	f := vh.ParseFlags()
	o := vh.NewOut(f.Out)
	o.Samples = []string{} // never JSON null, also when every child crashed
	defer o.Close()
	if *childMode != "" {
		defer writeCounts(o, f.Out)
		switch *childMode {
		case "seq":
			childSeq(f, o)
		case "stress":
			childStress(f, o)
		}
		return
	}
	if f.Replay != "" {
		replay(f, o)
		return
	}
	nSeq, nStress := f.N, f.N/8
	if nStress < 20 {
		nStress = 20
	}
	limit := 75 * time.Second
	if f.Tier == "thorough" {
		limit = 12 * time.Minute
	}
	type job struct {
		kind string
		n, p int
	}
	jobs := []job{{"seq", nSeq, 0}, {"stress", nStress, 1}, {"stress", nStress, 2}, {"stress", nStress, 4}, {"stress", nStress, 8}}
	res := make([]childResult, len(jobs))
	var wg sync.WaitGroup
	for i, j := range jobs {
		wg.Add(1)
		go func(i int, j job) {
			defer wg.Done()
			res[i] = startChild(f, j.kind, j.n, j.p, limit)
		}(i, j)
	}
	wg.Wait()
	for _, r := range res {
		r.mergeInto(o)
	}
}

// replay: a protocol line (pdir/wseq re-run deterministically; whist re-checks the recorded
// history with the oracle) or a stress/child id (re-run, several attempts: schedules differ).
func replay(f *vh.Flags, o *vh.Out) {
	fs := strings.Split(f.Replay, "\t")
	switch fs[0] {
	case "pdir":
		b, _ := vh.UnHex(fs[1])
		pdirCase(string(b), o)
	case "c40stress":
		if len(fs) < 8 {
			return
		}
		seed, _ := strconv.ParseUint(fs[1], 10, 64)
		idx, _ := strconv.Atoi(fs[2])
		cfg := stressCfg{seed: seed, idx: idx}
		cfg.producers, _ = strconv.Atoi(fs[3])
		cfg.consumers, _ = strconv.Atoi(fs[4])
		cfg.reportsPerProd, _ = strconv.Atoi(fs[5])
		cfg.procs, _ = strconv.Atoi(fs[6])
		cfg.fetchLimit, _ = strconv.Atoi(fs[7])
		if len(fs) > 8 {
			cfg.tight, _ = strconv.Atoi(fs[8])
		}
		for i := 0; i < 300 && o.Stats["oracle_fail"] == 0; i++ {
			stressCase(cfg, o)
		}
	case "c40child":
		if len(fs) < 5 {
			return
		}
		n, _ := strconv.Atoi(fs[3])
		p, _ := strconv.Atoi(fs[4])
		startChild(f, fs[1], n, p, 5*time.Minute).mergeInto(o)
	default:
		// wseq / whist lines: re-run the generator is not possible from the line alone; re-evaluate
		// the recorded sequence against the real code
		if fs[0] == "wseq" && len(fs) == 3 {
			replaySeq(fs[2], o, f.Replay)
		}
	}
}

// replaySeq re-executes the reports of a recorded sequence and fetches as often as recorded.
func replaySeq(opsF string, o *vh.Out, line string) {
	c := watcher.NewChanges("/tmp/vr")
	var impl []string
	for _, op := range strings.Split(opsF, ",") {
		if op == "" {
			continue
		}
		switch op[0] {
		case 'C':
			b, _ := vh.UnHex(op[1:])
			c.FileChanged(string(b))
			impl = append(impl, "c")
		case 'F':
			if _, ok := fetchTimeout(c, false, 3*time.Second); ok {
				impl = append(impl, "f")
			} else {
				impl = append(impl, "HANG")
				o.Oracle("fetch-hang", line, "")
			}
		}
	}
	fmt.Println("replayed:", strings.Join(impl, " "))
}
