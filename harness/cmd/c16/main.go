// Differential + oracle harness for C16 (the XGo scanner agrees with go/scanner on Go lexemes).
// Per source and mode: the real go/scanner vs the `go` model, the real XGo scanner vs the `xgo`
// model (same case lines as C15), and one `golex` line: the domain decision (GoLexemesOnly, on the
// real go/scanner output) and whether the two REAL scanners agree — compared with the same
// decision and comparison computed by the Lean model.  Oracle: in the domain => the real scanners
// agree; the three by-design deviations are reported under their known-finding keys.
package main

import (
	"fmt"
	"os"
	"strings"

	"verifharness/scangen"
	"verifharness/vh"
)

var o *vh.Out

var goIdents = []string{"a", "x", "c", "C", "py", "r", "i", "e", "p", "_", "x1", "_a", "A_b9", "foo", "Bar", "brea", "breakx", "é", "世界", "aé", "x٣", "ñandú"}
var goNumbers = []string{"0", "1", "42", "1_000", "1__0", "1_", "0_1", "00", "007", "08", "09", "0128", "089i", "09.5", "08e1", "0x1F", "0X1f", "0x", "0x_1", "0x1_", "0x1_0.8", "0x_1.8", "0x1.8_", "0x1_.8", "0X1_F.p1", "0x1._8p1", "0b1_0.1", "0o1_7.5", "1_0.5e1_0", "1_0e_1", "0x1_0p1_0", "0_8", "0_9.5", "0__7",
	"0x1.8p1", "0x1.8", "0x.p1", "0x1p", "0x1p-2", "0b101", "0b2", "0b", "0b1.0", "0o17", "0o8", "0o", "0o1e1", "1.", ".5", "1.5", "1e10", "1E+5", "1e-", "1e", "1e+",
	"1_e1", "1._5", ".5e1", "0e0", "1i", "0i", "1.5i", "0x1i", "1e1i", "0b1i", "08i", "1p1", "0x1e1"}
var goStrs = []string{`""`, `"a"`, `"a\nb"`, `"\""`, `"\q"`, `"\x41"`, `"\x4"`, `"\u12"`, `"\uD800"`, `"\U00110000"`, `"\777"`, `"\08"`, `"é世"`, "\"a\x00b\"", "\"a\xffb\"", `"a`, "\"a\nb\"", `"a\`,
	"`abc`", "``", "`a\nb`", "`a\rb`", "`a\r\nb\r`", "`abc", `'a'`, `'\n'`, `'\''`, `''`, `'ab'`, `'\x4'`, `'é'`, `'\400'`, "'\xff'", `'a`, "'a\n'", `'\`, `'\uD800'`, `'\q'`}
var goComments = []string{"// c", "//", "//\r", "// a\rb", "/* c */", "/**/", "/*/", "/* a\nb */", "/* a\r\nb */", "/* *\r/ */", "/*\r*/", "/* a", "/*", "/* x */ /* y */", "/* x */ // y",
	"//line f.go:10", "//line f.go:10:5", "//line :0", "//line f:abc", "//line f:0:1", "//line f:1:0", "//line f:99999999999999999999", "//line f:1073741825", "//line f:1:1073741825",
	"/*line f:10*/", "/*line f:0*/", "/*line f:x*/", "//line f:10\r", "//line", "// line f:0"}
var goOps = []string{"+", "-", "*", "/", "%", "&", "|", "^", "<<", ">>", "&^", "+=", "-=", "*=", "/=", "%=", "&=", "|=", "^=", "<<=", ">>=", "&^=", "&&", "||", "<-", "++", "--", "==", "<", ">", "=", "!", "!=", "<=", ">=", ":=", "...", "(", "[", "{", ",", ".", ")", "]", "}", ";", ":", "~", "..", "<<<", "&^^", "!!", "**"}
var goKeywords = []string{"break", "case", "chan", "const", "continue", "default", "defer", "else", "fallthrough", "for", "func", "go", "goto", "if", "import", "interface", "map", "package", "range", "return", "select", "struct", "switch", "type", "var"}
var goSeps = []string{"", " ", " ", " ", "\n", "\n", "\t", "\r\n", "  ", " \n "}

// goSequence: a sequence of Go lexemes (mostly inside the domain), separated by white space.
func goSequence(r *vh.Rand) []byte {
	var b []byte
	n := r.Intn(10)
	for i := 0; i < n; i++ {
		var l string
		switch p := r.Intn(100); {
		case p < 15:
			l = r.Pick(goKeywords)
		case p < 30:
			l = r.Pick(goIdents)
		case p < 45:
			l = r.Pick(goNumbers)
		case p < 57:
			l = r.Pick(goStrs)
		case p < 70:
			l = r.Pick(goComments)
		default:
			l = r.Pick(goOps)
		}
		b = append(b, l...)
		sep := r.Pick(goSeps)
		if sep == "" && r.Chance(70) {
			sep = " "
		}
		b = append(b, sep...)
	}
	if r.Chance(30) {
		b = []byte(strings.TrimRight(string(b), " \n\t\r"))
	}
	return b
}

func one(src []byte, mode int) {
	g := scangen.RunGo(src, mode)
	x := scangen.RunXGo(src, mode)
	o.Case(scangen.CaseLine("go", mode, src), g.Canon(), len(src) >= 2)
	o.Case(scangen.CaseLine("xgo", mode, src), x.Canon(), len(src) >= 2)
	reasons := scangen.GoLexemesOnly(src)
	agree, where := scangen.Agree16(x, g)
	l, d := scangen.UnicodeClasses(src)
	line := fmt.Sprintf("golex\t%d\t%s\t%s\t%s", mode, vh.Hex(src), l, d)
	dom := "out"
	if len(reasons) == 0 {
		dom = "in"
		o.Count("domain_in")
	} else {
		o.Count("domain_out")
		for _, r := range reasons {
			o.Count("excluded_" + strings.TrimPrefix(r, "x:"))
		}
	}
	ag := "differ"
	if agree {
		ag = "agree"
	}
	if len(reasons) == 0 && !agree {
		o.Oracle("scanners-differ:"+where, line, "go: "+g.Canon()+" xgo: "+x.Canon())
	}
	if !agree && len(reasons) > 0 {
		o.Count("out_of_domain_differ")
		// the by-design deviations, reported under their own keys when they are the only reason
		design := true
		for _, r := range reasons {
			if strings.HasPrefix(r, "x:") {
				design = false
			}
		}
		if design {
			for _, r := range reasons {
				if r == scangen.ReasonSemiOrder && strings.HasPrefix(where, "errors:") {
					r = scangen.ReasonLookahead
				}
				o.Oracle(r, line, where)
			}
		}
	}
	o.Case(line, dom+" "+ag, len(reasons) == 0 && len(src) >= 2)
}

func main() {
	f := vh.ParseFlags()
	o = vh.NewOut(f.Out)
	defer o.Close()
	if f.Replay != "" {
		fs := strings.Fields(f.Replay)
		if len(fs) >= 3 && fs[0] == "golex" {
			var mode int
			fmt.Sscan(fs[1], &mode)
			src, _ := vh.UnHex(fs[2])
			one(src, mode)
			return
		}
		d, mode, src, err := scangen.ParseCaseLine(f.Replay)
		if err != nil {
			fmt.Fprintln(os.Stderr, err)
			os.Exit(2)
		}
		o.Case(scangen.CaseLine(d, mode, src), scangen.Run(d, src, mode).Canon(), true)
		return
	}
	for _, s := range scangen.Regression {
		one([]byte(s), 1)
		one([]byte(s), 0)
	}
	r := vh.NewRand(f.Seed)
	g := &scangen.Gen{R: r, Corpus: scangen.LoadCorpus(0), Stat: o.Count}
	// exhaustive small scope over the symbols that drive the hidden state (nParen, insertSemi)
	depth := 4
	if f.Tier == "thorough" {
		depth = 6
	}
	scangen.Exhaustive(scangen.StateAlphabet, depth, func(b []byte) { one(b, 1) })
	o.Stats["exhaustive_state_depth"] = depth
	if f.Tier == "thorough" {
		// exhaustive numeric / string literal spellings up to 6 characters
		scangen.Exhaustive([]string{"0", "1", "8", "_", ".", "e", "x", "b", "p", "i", "+", "f"}, 5, func(b []byte) {
			if len(b) > 0 && (b[0] >= '0' && b[0] <= '9' || b[0] == '.') {
				one(b, 1)
			}
		})
		scangen.Exhaustive([]string{"\"", "\\", "x", "4", "'", "\n", "a", "u"}, 6, func(b []byte) {
			if len(b) > 0 && (b[0] == '"' || b[0] == '\'') {
				one(b, 1)
			}
		})
	}
	for i := 0; i < f.N; i++ {
		rr := r.Fork(i)
		g.R = rr
		var src []byte
		switch p := rr.Intn(100); {
		case p < 45:
			o.Count("src_go_sequence")
			src = goSequence(rr)
		case p < 60:
			o.Count("src_state_probe")
			src = g.StateProbe(true)
		case p < 70:
			o.Count("src_go_sequence_mutated")
			src = g.Mutate(goSequence(rr))
		default:
			src = g.Source()
		}
		one(src, 1)
		one(src, 0)
	}
}
