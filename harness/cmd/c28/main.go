// Differential + oracle harness for C28 (TPL matching terminates): adversarial grammars
// (nullable repetition bodies, left recursion), every match in a child process with a timeout.
package main

import "verifharness/tplm"

func main() { tplm.Main("c28") }
