// Differential + oracle harness for C38 (x/jsonrpc2 HeaderFramer, EncodeMessage/DecodeMessage).
//
// Case kinds (driver ops):
//   c38w  payloads (= real EncodeMessage of generated messages)  impl = bytes the real Writer wrote
//   c38r  byte stream (written by the real Writer, or mutated, or synthetic)
//         impl = per Read: ok:<total> … ; eof | err:<kind>:<total>       (through the real Reader)
//   c38id int64                                                 impl = id after real Encode→Decode
// Oracles on the real code: messages read back equal the messages written (in order); no panic;
// every malformed stream ends in an error; the Reader pulls from its io.Reader exactly the bytes it
// reports as consumed (never past the declared Content-Length); payload handed to DecodeMessage is
// the declared slice.
package main

import (
	"bytes"
	"context"
	"encoding/json"
	"errors"
	"fmt"
	"io"
	"strconv"
	"strings"
	"unicode/utf8"

	"github.com/goplus/xgo/x/jsonrpc2"
	"verifharness/vh"
)

var ctx = context.Background()

// oneByteReader hands out one byte per Read and counts them: bufio then never holds more than
// what the framer asked for, so `pulled` is exactly what the framer consumed.
type oneByteReader struct {
	data   []byte
	pulled int
}

func (r *oneByteReader) Read(p []byte) (int, error) {
	if len(p) == 0 {
		return 0, nil
	}
	if r.pulled >= len(r.data) {
		return 0, io.EOF
	}
	p[0] = r.data[r.pulled]
	r.pulled++
	return 1, nil
}

func errKind(err error, total int64) string {
	switch {
	case err == io.EOF && total == 0:
		return "eof"
	case err == io.EOF:
		return "err:bodyEOF"
	case err == io.ErrUnexpectedEOF:
		return "err:bodyShort"
	}
	msg := err.Error()
	switch {
	case strings.HasPrefix(msg, "failed reading header line"):
		return "err:headerEOF"
	case strings.HasPrefix(msg, "invalid header line"):
		return "err:invalidHeader"
	case strings.HasPrefix(msg, "failed parsing Content-Length"):
		return "err:badLength"
	case strings.HasPrefix(msg, "invalid Content-Length"):
		return "err:nonPositive"
	case strings.HasPrefix(msg, "missing Content-Length"):
		return "err:missingLength"
	case strings.HasPrefix(msg, "unmarshaling jsonrpc message"), strings.HasPrefix(msg, "invalid message version tag"),
		strings.HasPrefix(msg, "invalid message id type"), errors.Is(err, jsonrpc2.ErrInvalidRequest):
		return "decode" // the frame itself was read
	}
	return "err:other(" + msg + ")"
}

func canonID(id jsonrpc2.ID) string {
	switch v := id.Raw().(type) {
	case nil:
		return "nil"
	case int64:
		return "i" + strconv.FormatInt(v, 10)
	case string:
		return "s" + strconv.Quote(v)
	default:
		return fmt.Sprintf("?%T", v)
	}
}

func compact(raw json.RawMessage) string {
	if len(raw) == 0 {
		return "-"
	}
	var b bytes.Buffer
	if err := json.Compact(&b, raw); err != nil {
		return "!" + string(raw)
	}
	return b.String()
}

type wireErr struct {
	Code    int64           `json:"code"`
	Message string          `json:"message"`
	Data    json.RawMessage `json:"data,omitempty"`
}

// canonErr renders an error as code:message:data.  A *wireError (unexported, but it marshals with
// its json tags) is read through encoding/json, so its optional `data` member is visible; any other
// error is what toWireError makes of it: message = Error(), code of a wrapped wire error, no data.
func canonErr(err error) string {
	if err == nil {
		return "-"
	}
	if b, merr := json.Marshal(err); merr == nil {
		var probe map[string]json.RawMessage
		if json.Unmarshal(b, &probe) == nil {
			if _, isWire := probe["code"]; isWire {
				var w wireErr
				if json.Unmarshal(b, &w) == nil {
					return fmt.Sprintf("%d:%s:%s", w.Code, strconv.Quote(w.Message), compact(w.Data))
				}
			}
		}
	}
	code := int64(0)
	for _, c := range []int64{-32700, -32600, -32601, -32602, -32603, -32000, -32001, -32002, -32003, 7, -1, 0, 1 << 40} {
		if errors.Is(err, jsonrpc2.NewError(c, "")) {
			code = c
			break
		}
	}
	return fmt.Sprintf("%d:%s:-", code, strconv.Quote(err.Error()))
}

func canonMsg(m jsonrpc2.Message) string {
	switch v := m.(type) {
	case *jsonrpc2.Request:
		return "REQ " + canonID(v.ID) + " " + strconv.Quote(v.Method) + " " + compact(v.Params)
	case *jsonrpc2.Response:
		return "RSP " + canonID(v.ID) + " " + compact(v.Result) + " " + canonErr(v.Error)
	case nil:
		return "nil"
	}
	return fmt.Sprintf("?%T", m)
}

// ---- reference framing (what the property means by "declared content length") -----------

// refFrame splits one frame's bytes into header and payload the way the protocol defines it:
// header lines up to the first blank line; the last Content-Length header declares the length.
func refFrame(frame []byte) (payload []byte, declared int64, ok bool) {
	off := 0
	declared = -1
	for off < len(frame) {
		i := bytes.IndexByte(frame[off:], '\n')
		if i < 0 {
			return nil, 0, false
		}
		line := strings.TrimSpace(string(frame[off : off+i+1]))
		off += i + 1
		if line == "" {
			return frame[off:], declared, declared >= 0
		}
		if c := strings.IndexByte(line, ':'); c >= 0 && line[:c] == "Content-Length" {
			n, err := strconv.ParseInt(strings.TrimSpace(line[c+1:]), 10, 64)
			if err == nil {
				declared = n
			}
		}
	}
	return nil, 0, false
}

// ---- running the real reader over a stream ---------------------------------------------------

type readOutcome struct {
	line string // canonical impl line
	msgs []string
	ends string
}

func readStream(stream []byte, o *vh.Out, caseLine string) readOutcome {
	src := &oneByteReader{data: stream}
	rd := jsonrpc2.HeaderFramer().Reader(src)
	var parts []string
	var res readOutcome
	off := 0
	for iter := 0; ; iter++ {
		var msg jsonrpc2.Message
		var total int64
		var err error
		panicked := ""
		func() {
			defer func() {
				if e := recover(); e != nil {
					panicked = fmt.Sprint(e)
				}
			}()
			msg, total, err = rd.Read(ctx)
		}()
		if panicked != "" {
			o.Oracle("reader-panic", caseLine, panicked)
			res.ends = "PANIC"
			break
		}
		// never reads past what it reports / what was declared
		if src.pulled != off+int(total) {
			o.Oracle("reads-past-reported", caseLine, fmt.Sprintf("read %d: pulled %d, reported %d", iter, src.pulled, off+int(total)))
		}
		kind := "ok"
		if err != nil {
			kind = errKind(err, total)
		}
		if kind == "ok" || kind == "decode" {
			end := off + int(total)
			if end > len(stream) {
				o.Oracle("total-beyond-stream", caseLine, fmt.Sprint(total))
				res.ends = "BAD"
				break
			}
			payload, declared, ok := refFrame(stream[off:end])
			if !ok || int64(len(payload)) != declared {
				o.Oracle("length-not-declared", caseLine, fmt.Sprintf("read %d: total %d declared %d", iter, total, declared))
			} else {
				want, werr := jsonrpc2.DecodeMessage(payload)
				if (werr == nil) != (err == nil) || canonMsg(want) != canonMsg(msg) {
					o.Oracle("payload-mismatch", caseLine, fmt.Sprintf("read %d", iter))
				}
			}
			parts = append(parts, fmt.Sprintf("ok:%d", total))
			if kind == "ok" {
				res.msgs = append(res.msgs, canonMsg(msg))
				o.Count("frame_ok")
			} else {
				res.msgs = append(res.msgs, "DECODE-ERROR")
				o.Count("frame_decode_error")
			}
			off = end
			if iter > len(stream)+2 {
				o.Oracle("reader-no-progress", caseLine, "")
				break
			}
			continue
		}
		if msg != nil {
			o.Oracle("msg-with-error", caseLine, kind)
		}
		if kind == "eof" {
			res.ends = "eof"
		} else {
			res.ends = fmt.Sprintf("%s:%d", kind, total)
		}
		o.Count("end_" + strings.SplitN(kind, "(", 2)[0])
		break
	}
	res.line = strings.Join(parts, ",") + ";" + res.ends
	return res
}

// ---- generators --------------------------------------------------------------------------------

var methods = []string{"m", "textDocument/didOpen", "$/cancelRequest", "a\"b", "é✓", "x y", "initialize", "\\n", "<&>", "\u2028"}
var strIDs = []string{"", "a", "1", "id-42", "é", "q\"uote", "with space", "\\", "\t", "null", strings.Repeat("z", 70)}
var rawVals = []string{"", "{}", "[]", "[1,2]", "{\"a\": [1, 2]}", "null", "\"s\"", "  {\"k\" : {\"n\": null}}  ", "3.25", "true", "1e400", "[\"\\u00e9\", \"\\n\"]",
	"{\"jsonrpc\":\"1.0\",\"id\":7}", "\"" + strings.Repeat("p", 300) + "\""}
var smallInts = []int64{0, 1, -1, 2, 7, 42, 255, 65536, -65536, 1 << 31, 1<<31 - 1, -(1 << 31), 1 << 32, 1 << 52, 1<<53 - 1, 1 << 53, -(1 << 53)}
var bigInts = []int64{1<<53 + 1, -(1<<53 + 1), 1<<53 + 3, 1<<62 + 1, 1<<63 - 1, -(1 << 63), 1<<60 + 7, 123456789012345678}

type genMsg struct {
	msg    jsonrpc2.Message
	domain bool   // inside the domain on which the round trip is claimed
	bigID  bool   // integer id beyond 2^53
	why    string // reason when outside the domain
}

func genID(r *vh.Rand) (jsonrpc2.ID, bool) {
	switch r.Intn(10) {
	case 0, 1, 2, 3:
		return jsonrpc2.Int64ID(smallInts[r.Intn(len(smallInts))]), false
	case 4:
		return jsonrpc2.Int64ID(int64(r.U64() >> 11)), false // < 2^53
	case 5:
		return jsonrpc2.Int64ID(bigInts[r.Intn(len(bigInts))]), true
	case 6:
		v := int64(r.U64())
		big := v > 1<<53 || v < -(1<<53)
		return jsonrpc2.Int64ID(v), big
	default:
		return jsonrpc2.StringID(r.Pick(strIDs)), false
	}
}

func genErr(r *vh.Rand) error {
	switch r.Intn(6) {
	case 0:
		return jsonrpc2.ErrParse
	case 1:
		return jsonrpc2.NewError(7, "seven")
	case 2:
		return errors.New("plain failure")
	case 3:
		return fmt.Errorf("ctx: %w", jsonrpc2.ErrMethodNotFound)
	case 4:
		return jsonrpc2.NewError(0, "")
	}
	return jsonrpc2.NewError(-32603, "é \"q\"")
}

func genMessage(r *vh.Rand) genMsg {
	raw := func() json.RawMessage {
		s := r.Pick(rawVals)
		if s == "" {
			return nil
		}
		return json.RawMessage(s)
	}
	switch r.Intn(20) {
	case 0: // outside the domain: request without method and without id
		return genMsg{msg: &jsonrpc2.Request{Params: raw()}, why: "empty-method"}
	case 1: // response without id
		return genMsg{msg: &jsonrpc2.Response{Result: raw()}, why: "response-no-id"}
	case 2: // strings that are not UTF-8 cannot be carried by JSON
		return genMsg{msg: &jsonrpc2.Request{Method: "bad\xffutf8", ID: jsonrpc2.StringID("x")}, why: "not-utf8"}
	case 3: // raw message that is not JSON: the writer must refuse it
		return genMsg{msg: &jsonrpc2.Request{Method: "m", Params: json.RawMessage("{not json")}, why: "bad-raw"}
	case 4, 5, 6, 7: // notification
		return genMsg{msg: &jsonrpc2.Request{Method: r.Pick(methods), Params: raw()}, domain: true}
	case 8, 9, 10, 11, 12, 13: // call
		id, big := genID(r)
		return genMsg{msg: &jsonrpc2.Request{ID: id, Method: r.Pick(methods), Params: raw()}, domain: !big, bigID: big}
	default: // response
		id, big := genID(r)
		rsp := &jsonrpc2.Response{ID: id}
		if r.Chance(60) {
			rsp.Result = raw()
		}
		if r.Chance(45) {
			rsp.Error = genErr(r)
		}
		return genMsg{msg: rsp, domain: !big, bigID: big}
	}
}

func hexList(ps [][]byte) string {
	hs := make([]string, len(ps))
	for i, p := range ps {
		hs[i] = vh.Hex(p)
	}
	return strings.Join(hs, ",")
}

// runSequence: write a message sequence with the real Writer, read it back with the real Reader.
func runSequence(r *vh.Rand, o *vh.Out, n int) []byte {
	var buf bytes.Buffer
	wr := jsonrpc2.HeaderFramer().Writer(&buf)
	var payloads [][]byte
	var want []string
	var gens []genMsg
	for i := 0; i < n; i++ {
		g := genMessage(r)
		before := buf.Len()
		var nw int64
		var err error
		func() {
			defer func() {
				if e := recover(); e != nil {
					err = fmt.Errorf("PANIC %v", e)
					o.Oracle("writer-panic", "c38w\t"+canonMsg(g.msg), fmt.Sprint(e))
				}
			}()
			nw, err = wr.Write(ctx, g.msg)
		}()
		if err != nil {
			o.Count("write_refused_" + g.why)
			if g.domain {
				o.Oracle("write-refused", "c38w\t"+canonMsg(g.msg), err.Error())
			}
			if buf.Len() != before {
				o.Oracle("partial-write-on-error", "c38w\t"+canonMsg(g.msg), err.Error())
			}
			continue
		}
		if int(nw) != buf.Len()-before {
			o.Oracle("write-count", "c38w\t"+canonMsg(g.msg), fmt.Sprint(nw))
		}
		data, _ := jsonrpc2.EncodeMessage(g.msg)
		payloads = append(payloads, data)
		want = append(want, canonMsg(g.msg))
		gens = append(gens, g)
		if g.domain {
			o.Count("msg_in_domain")
		} else if g.bigID {
			o.Count("msg_big_int_id")
		} else {
			o.Count("msg_outside_domain_" + g.why)
		}
	}
	stream := append([]byte(nil), buf.Bytes()...)
	wline := "c38w\t" + hexList(payloads)
	o.Case(wline, vh.Hex(stream), len(payloads) >= 2)
	rline := "c38r\t" + vh.Hex(stream)
	res := readStream(stream, o, rline)
	o.Case(rline, res.line, len(payloads) >= 2)
	o.Count(fmt.Sprintf("seq_len_%d", min(len(payloads), 6)))
	// the messages read back are the messages written, in order
	if res.ends != "eof" {
		o.Oracle("written-stream-not-clean", rline, res.ends)
	}
	if len(res.msgs) != len(want) {
		o.Oracle("message-count", rline, fmt.Sprintf("wrote %d read %d", len(want), len(res.msgs)))
	}
	for i := 0; i < len(want) && i < len(res.msgs); i++ {
		if res.msgs[i] == want[i] {
			continue
		}
		g := gens[i]
		switch {
		case g.bigID:
			o.Oracle("int64-id-float64", rline, want[i]+" => "+res.msgs[i])
		case !g.domain:
			o.Count("outside_domain_differs_" + g.why)
		default:
			o.Oracle("msg-roundtrip", rline, want[i]+" => "+res.msgs[i])
		}
	}
	return stream
}


// ---- relay: wire text -> Reader -> Writer -> Reader ------------------------------------------------

var relayIDs = []string{"1", "\"a\"", "1.0", "1e2", "1.5", "-0", "9007199254740993", "null", "true", "[1]", "{\"a\":1}", "", "", "42", "\"\"", "-7"}
var relayData = []string{"", "null", "true", "1", "1.50", "\"s\"", "[1, 2]", "{\"k\": [{}]}", "\"  spaced  \"", "[]", "{}", "-0.0", "\"\\u00e9\"", "[null,{\"a\":{\"b\":[1,2,{\"c\":null}]}}]"}
var relayVals = []string{"{}", "[1,2]", "null", "\"s\"", "3.25", "{\"a\": [1, 2]}", "true", "[ ]", "{\"jsonrpc\":\"1.0\"}"}

func genWireText(r *vh.Rand) string {
	var members []string
	add := func(k, v string) { members = append(members, strconv.Quote(k)+r.Pick([]string{":", ": ", " : "})+v) }
	ver := "\"2.0\""
	if r.Chance(4) {
		ver = r.Pick([]string{"\"1.0\"", "2.0", "null"})
	}
	if !r.Chance(3) {
		add("jsonrpc", ver)
	}
	if id := r.Pick(relayIDs); id != "" {
		add("id", id)
	}
	switch r.Intn(10) {
	case 0, 1, 2, 3: // request / notification
		add("method", strconv.Quote(r.Pick(methods)))
		if r.Chance(70) {
			add("params", r.Pick(relayVals))
		}
		if r.Chance(8) {
			add("result", r.Pick(relayVals)) // a request has no such member: dropped by design
		}
	case 4, 5: // result response
		add("result", r.Pick(relayVals))
	default: // error response
		var em []string
		if !r.Chance(6) {
			em = append(em, "\"code\":"+r.Pick([]string{"-32000", "-32601", "0", "7", "-32700", "1099511627776"}))
		}
		if !r.Chance(6) {
			em = append(em, "\"message\":"+strconv.Quote(r.Pick([]string{"m", "", "é \"q\"", "failed: x"})))
		}
		if d := r.Pick(relayData); d != "" {
			em = append(em, "\"data\":"+d)
		}
		if r.Chance(10) {
			em = append(em, "\"extra\":[1]")
		}
		for i := len(em) - 1; i > 0; i-- { // member order
			k := r.Intn(i + 1)
			em[i], em[k] = em[k], em[i]
		}
		e := "{" + strings.Join(em, r.Pick([]string{",", ", ", ",\n "})) + "}"
		if r.Chance(4) {
			e = r.Pick([]string{"null", "\"boom\"", "[]"})
		}
		add("error", e)
		if r.Chance(25) {
			add("result", r.Pick(relayVals))
		}
	}
	if r.Chance(15) {
		add(r.Pick([]string{"extra", "x-trace", "Jsonrpc2"}), r.Pick([]string{"{\"x\":1}", "1", "\"t\"", "null"}))
	}
	for i := len(members) - 1; i > 0; i-- {
		k := r.Intn(i + 1)
		members[i], members[k] = members[k], members[i]
	}
	return r.Pick([]string{"{", "{ ", "{\n"}) + strings.Join(members, r.Pick([]string{",", ", ", ",\n\t"})) + r.Pick([]string{"}", " }", "\n}"})
}

// expectedRelayPayload: what the Writer must produce for a decoded wire text, as a canonical
// string.  Allowed to differ from the original text: white space, member order, unknown members
// (dropped), the spelling of a numeric id (written as int64(float64(id))), `null` id / error
// (dropped), members a message kind does not have (result/error of a request; method/params of a
// response), defaults for a missing error code/message (0 / ""), repeated members (last wins).
// Everything else — params, result, error code, message and DATA — must come back compacted, unchanged.
func canonPayload(text []byte) (string, bool) {
	var m map[string]json.RawMessage
	if json.Unmarshal(text, &m) != nil {
		return "", false
	}
	get := func(k string) string {
		v, ok := m[k]
		if !ok {
			return "-"
		}
		return compact(v)
	}
	id := "-"
	if v, ok := m["id"]; ok && string(bytes.TrimSpace(v)) != "null" {
		var f float64
		var str string
		if json.Unmarshal(v, &str) == nil {
			id = strconv.Quote(str)
		} else if json.Unmarshal(v, &f) == nil {
			id = strconv.FormatInt(int64(f), 10)
		} else {
			return "", false
		}
	}
	var method string
	if v, ok := m["method"]; ok {
		if json.Unmarshal(v, &method) != nil {
			return "", false
		}
	}
	if method != "" {
		return "REQ id=" + id + " method=" + strconv.Quote(method) + " params=" + get("params"), true
	}
	e := "-"
	if v, ok := m["error"]; ok && string(bytes.TrimSpace(v)) != "null" {
		var w wireErr
		if json.Unmarshal(v, &w) != nil {
			return "", false
		}
		e = fmt.Sprintf("%d:%s:%s", w.Code, strconv.Quote(w.Message), compact(w.Data))
	}
	return "RSP id=" + id + " result=" + get("result") + " error=" + e, true
}

func frameOf(payload string, r *vh.Rand) string {
	h := fmt.Sprintf("Content-Length: %d\r\n", len(payload))
	if r.Chance(15) {
		h = "Content-Type: application/vscode-jsonrpc; charset=utf-8\r\n" + h
	}
	return h + "\r\n" + payload
}

func runRelay(r *vh.Rand, o *vh.Out) {
	var stream1 []byte
	var texts []string
	for i, n := 0, 1+r.Intn(4); i < n; i++ {
		t := genWireText(r)
		texts = append(texts, t)
		stream1 = append(stream1, frameOf(t, r)...)
	}
	r1line := "c38r\t" + vh.Hex(stream1)
	// pass 1: read
	rd := jsonrpc2.HeaderFramer().Reader(bytes.NewReader(stream1))
	var msgs []jsonrpc2.Message
	var origin []string
	for i := 0; i < len(texts)+1; i++ {
		var m jsonrpc2.Message
		var err error
		func() {
			defer func() {
				if e := recover(); e != nil {
					err = fmt.Errorf("PANIC %v", e)
					o.Oracle("reader-panic", r1line, fmt.Sprint(e))
				}
			}()
			m, _, err = rd.Read(ctx)
		}()
		if err == io.EOF {
			break
		}
		if err != nil {
			if errKind(err, 1) != "decode" {
				o.Oracle("relay-frame-error", r1line, err.Error())
				break
			}
			o.Count("relay_decode_refused")
			continue
		}
		if i < len(texts) {
			msgs = append(msgs, m)
			origin = append(origin, texts[i])
		}
	}
	res1 := readStream(stream1, o, r1line)
	o.Case(r1line, res1.line, true)
	// write what was read
	var buf bytes.Buffer
	wr := jsonrpc2.HeaderFramer().Writer(&buf)
	var payloads [][]byte
	for i, m := range msgs {
		before := buf.Len()
		if _, err := wr.Write(ctx, m); err != nil {
			o.Oracle("relay-write-refused", r1line, canonMsg(m)+": "+err.Error())
			return
		}
		frame := buf.Bytes()[before:]
		payload, _, ok := refFrame(frame)
		if !ok {
			o.Oracle("relay-bad-frame", r1line, "")
			return
		}
		payloads = append(payloads, append([]byte(nil), payload...))
		want, ok1 := canonPayload([]byte(origin[i]))
		got, ok2 := canonPayload(payload)
		if ok1 && ok2 && want != got {
			o.Oracle("relay-payload", r1line, fmt.Sprintf("message %d: %s => %s", i, want, got))
		}
		if strings.Contains(origin[i], "\"data\"") {
			o.Count("relay_error_with_data")
		}
		o.Count("relay_messages")
	}
	stream2 := append([]byte(nil), buf.Bytes()...)
	o.Case("c38w\t"+hexList(payloads), vh.Hex(stream2), len(payloads) >= 1)
	r2line := "c38r\t" + vh.Hex(stream2)
	res2 := readStream(stream2, o, r2line)
	o.Case(r2line, res2.line, len(payloads) >= 1)
	// pass 2 = pass 1
	if res2.ends != "eof" || len(res2.msgs) != len(msgs) {
		o.Oracle("relay-count", r1line, fmt.Sprintf("read %d, wrote %d, read back %d (%s)", len(msgs), len(payloads), len(res2.msgs), res2.ends))
		return
	}
	for i, m := range msgs {
		if c := canonMsg(m); c != res2.msgs[i] {
			if strings.HasPrefix(canonID(idOf(m)), "i") && bigAbs(idOf(m)) {
				o.Oracle("int64-id-float64", r1line, c+" => "+res2.msgs[i])
			} else {
				o.Oracle("relay-roundtrip", r1line, c+" => "+res2.msgs[i])
			}
		}
	}
}

func idOf(m jsonrpc2.Message) jsonrpc2.ID {
	switch v := m.(type) {
	case *jsonrpc2.Request:
		return v.ID
	case *jsonrpc2.Response:
		return v.ID
	}
	return jsonrpc2.ID{}
}

func bigAbs(id jsonrpc2.ID) bool {
	v, ok := id.Raw().(int64)
	return ok && (v > 1<<53 || v < -(1<<53))
}

var spaces = []string{" ", "\t", "\r", "\v", "\f", "\u0085", "\u00a0", "\u2003", "\u2028", "\u3000", "\u1680", "\xc2", "\xe2\x80", "\x85", "\u200b", "\ufeff"}

func synthHeaderLine(r *vh.Rand, bodyLen int) string {
	name := "Content-Length"
	switch r.Intn(12) {
	case 0:
		name = "content-length"
	case 1:
		name = "Content-Length "
	case 2:
		name = "Content-Type"
	case 3:
		name = "X"
	case 4:
		name = ""
	case 5:
		name = r.Pick(spaces) + "Content-Length"
	}
	val := strconv.Itoa(bodyLen)
	switch r.Intn(16) {
	case 0:
		val = "+" + val
	case 1:
		val = "-" + val
	case 2:
		val = "0"
	case 3:
		val = ""
	case 4:
		val = "00" + val
	case 5:
		val = val + "x"
	case 6:
		val = r.Pick([]string{"214748364", "2147483648", "99999999999999999999", "-2147483648", "-2147483649", "4294967301", "1_0", "0x10", "1e1", " 5 5", "٣"})
	case 7:
		val = strconv.Itoa(bodyLen + r.Intn(5) - 2)
	case 8:
		val = r.Pick(spaces) + val + r.Pick(spaces)
	case 9:
		val = "-0"
	}
	sep := ":"
	if r.Chance(8) {
		sep = ""
	}
	if r.Chance(8) {
		sep = "::"
	}
	sp := " "
	if r.Chance(30) {
		sp = r.Pick([]string{"", "  ", "\t", "\u00a0"})
	}
	eol := "\r\n"
	if r.Chance(20) {
		eol = r.Pick([]string{"\n", "\r\r\n", " \r\n", "\r", "", "\u2028\n"})
	}
	return name + sep + sp + val + eol
}

func synthStream(r *vh.Rand) []byte {
	var b bytes.Buffer
	nf := 1 + r.Intn(3)
	for f := 0; f < nf; f++ {
		body := r.Pick([]string{"{}", "{\"jsonrpc\":\"2.0\",\"method\":\"m\"}", "{\"jsonrpc\":\"2.0\",\"id\":1,\"result\":null}", "x", "", "[1]\n", "\n\n", "{\"jsonrpc\":\"2.0\",\"id\":true,\"method\":\"m\"}", "{\"jsonrpc\":\"2.0\",\"id\":1.5,\"method\":\"m\"}"})
		nh := r.Intn(4)
		if r.Chance(70) && nh == 0 {
			nh = 1
		}
		for h := 0; h < nh; h++ {
			b.WriteString(synthHeaderLine(r, len(body)))
		}
		b.WriteString(r.Pick([]string{"\r\n", "\r\n", "\r\n", "\n", " \t\r\n", "\u00a0\n", ""}))
		b.WriteString(body)
	}
	return b.Bytes()
}

func mutate(r *vh.Rand, s []byte) []byte {
	s = append([]byte(nil), s...)
	k := 1 + r.Intn(3)
	for i := 0; i < k; i++ {
		if len(s) == 0 {
			s = append(s, byte(r.Intn(256)))
			continue
		}
		p := r.Intn(len(s))
		switch r.Intn(8) {
		case 0: // flip
			s[p] ^= byte(1 << uint(r.Intn(8)))
		case 1: // delete
			s = append(s[:p], s[p+1:]...)
		case 2: // insert a byte of interest
			c := []byte("\r\n: 0123456789-+C\x00\xff\xc2\xa0")
			s = append(s[:p], append([]byte{c[r.Intn(len(c))]}, s[p:]...)...)
		case 3: // truncate
			s = s[:p]
		case 4: // duplicate a slice
			q := p + r.Intn(len(s)-p+1)
			s = append(s[:q], append(append([]byte(nil), s[p:q]...), s[q:]...)...)
		case 5: // overwrite a digit of a length
			if i := bytes.Index(s, []byte("Length: ")); i >= 0 && i+8 < len(s) {
				s[i+8] = byte('0' + r.Intn(10))
			}
		case 6: // insert a header line
			if i := bytes.Index(s[p:], []byte("\r\n")); i >= 0 {
				at := p + i + 2
				s = append(s[:at], append([]byte(synthHeaderLine(r, r.Intn(40))), s[at:]...)...)
			}
		case 7: // CRLF -> LF
			s = bytes.Replace(s, []byte("\r\n"), []byte("\n"), 1+r.Intn(3))
		}
	}
	return s
}

func runStream(stream []byte, o *vh.Out, tag string) {
	rline := "c38r\t" + vh.Hex(stream)
	res := readStream(stream, o, rline)
	o.Case(rline, res.line, len(stream) > 0)
	o.Count("stream_" + tag)
	// a length the writer can emit but the reader refuses (32-bit Content-Length)
	if strings.Contains(res.ends, "badLength") {
		if i := bytes.LastIndex(stream, []byte("Content-Length: ")); i >= 0 {
			j := i + 16
			k := j
			for k < len(stream) && stream[k] >= '0' && stream[k] <= '9' {
				k++
			}
			if n, err := strconv.ParseInt(string(stream[j:k]), 10, 64); err == nil && n >= 1<<31 && k+1 < len(stream) && stream[k] == '\r' && stream[k+1] == '\n' && k > j {
				o.Oracle("content-length-int32", rline, fmt.Sprintf("Content-Length %d (what the writer emits for a payload of that size) is rejected", n))
			}
		}
	}
}

func runID(v int64, o *vh.Out) {
	line := "c38id\t" + strconv.FormatInt(v, 10)
	data, err := jsonrpc2.EncodeMessage(&jsonrpc2.Request{ID: jsonrpc2.Int64ID(v), Method: "m"})
	impl := ""
	if err != nil {
		impl = "ENCERR"
	} else if m, err := jsonrpc2.DecodeMessage(data); err != nil {
		impl = "DECERR"
	} else if got, ok := m.(*jsonrpc2.Request).ID.Raw().(int64); ok {
		impl = strconv.FormatInt(got, 10)
		if got != v {
			o.Oracle("int64-id-float64", line, impl)
		}
	} else {
		impl = "NOTINT"
	}
	big := v > 1<<53 || v < -(1<<53)
	if big {
		o.Count("id_beyond_2p53")
	} else {
		o.Count("id_within_2p53")
	}
	o.Case(line, impl, true)
}

var fixedStreams = []string{
	"", "\r\n", "\n", "Content-Length: 2\r\n\r\n{}", "Content-Length: 2\r\n\r\n{", "Content-Length: 2\r\n\r\n",
	"Content-Length: 2\r\n", "Content-Length: 2", "Content-Length: 5\r\nContent-Length: 2\r\n\r\n{}[1]",
	"Content-Length: 0\r\n\r\n", "Content-Length: -1\r\n\r\n", "Content-Length: 2147483648\r\n\r\n{}",
	"Content-Length: 9223372036854775807\r\n\r\n{}", "Content-Length: 99999999999999999999\r\n\r\n{}",
	"Content-Type: x\r\nContent-Length: 2\r\n\r\n{}", "nocolon\r\n\r\n", "Content-Length:2\n\n{}", "Content-Length : 2\r\n\r\n{}",
	"\u00a0Content-Length:\u20032\u2028\r\n\u3000\r\n{}rest", ": 5\r\n\r\nabcde", "Content-Length: +2\r\n\r\n{}",
	"Content-Length: 2\r\n\r\n{}Content-Length: 2\r\n\r\n[]Content-Length: 1\r\n\r\n", "Content-Length: 3\r\n\r\n{}",
	"Content-Length: 2\r\n\xc2\r\n\r\n{}", "Content-Length: 2\r\n\xc2\x85\r\n{}", "a:b\r\nContent-Length: 1\r\n\r\nx",
}

func main() {
	f := vh.ParseFlags()
	o := vh.NewOut(f.Out)
	defer o.Close()
	if f.Replay != "" {
		fs := strings.Fields(f.Replay)
		if len(fs) < 2 {
			fs = append(fs, "-")
		}
		switch fs[0] {
		case "c38r":
			b, _ := vh.UnHex(fs[1])
			runStream(b, o, "replay")
		case "c38id":
			v, _ := strconv.ParseInt(fs[1], 10, 64)
			runID(v, o)
		default:
			fmt.Println("replay of", fs[0], "cases: re-run with the recorded seed")
		}
		return
	}
	for _, s := range fixedStreams {
		runStream([]byte(s), o, "fixed")
	}
	for _, v := range append(append([]int64{}, smallInts...), bigInts...) {
		runID(v, o)
	}
	r := vh.NewRand(f.Seed)
	for i := 0; i < f.N; i++ {
		rr := r.Fork(i)
		switch i % 6 {
		case 5:
			runRelay(rr, o)
		case 0, 1:
			runSequence(rr, o, rr.Intn(6))
		case 2:
			st := runSequence(rr, o, 1+rr.Intn(4))
			runStream(mutate(rr, st), o, "mutated")
		case 3:
			runStream(synthStream(rr), o, "synthetic")
		case 4:
			if rr.Chance(50) {
				runID(int64(rr.U64()), o)
			} else {
				n := 1 + rr.Intn(12)
				b := make([]byte, n)
				al := []byte("Content-Length: 0123456789\r\n\r\n{}\xc2\xa0 \t:")
				for j := range b {
					if rr.Chance(85) {
						b[j] = al[rr.Intn(len(al))]
					} else {
						b[j] = byte(rr.Intn(256))
					}
				}
				runStream(b, o, "garbage")
			}
		}
	}
	if !utf8.ValidString("ok") {
		panic("unreachable")
	}
}

func min(a, b int) int {
	if a < b {
		return a
	}
	return b
}
