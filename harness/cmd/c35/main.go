// Differential + oracle harness for C35 (x/xgoprojs.ParseAll).
package main

import (
	"fmt"
	"strings"

	"github.com/goplus/xgo/x/xgoprojs"
	"verifharness/vh"
)

var classes = [][]string{
	{"a.go", "b.xgo", "dir/x.gox", "./m.go", "x.y.z", "a..b", ".x.go", "C:a.go", "\\w.go"}, // files
	{".", "..", "./", "./dir", "/abs", "../x", ".hidden", "\\win", "./a.b/c", "/x.y/"},      // local, not file
	{"C:", "c:\\x", "z:rel", "C:x.d/e"}, // drive-letter local
	{"fmt", "github.com/a/b", "a", "", "x.", "a/b.c/d", "1:x", "é", "x/.", "a.b/c"},          // pkg path
}

func genArg(r *vh.Rand) string {
	if r.Chance(80) {
		return r.Pick(classes[r.Intn(len(classes))])
	}
	// random bytes over a small alphabet incl. separators and non-UTF8
	n := r.Intn(6)
	al := []byte("./\\:aZ9_ \xff")
	b := make([]byte, n)
	for i := range b {
		b[i] = al[r.Intn(len(al))]
	}
	return string(b)
}

func caseLine(args []string) string {
	hs := make([]string, len(args))
	for i, a := range args {
		hs[i] = vh.HexS(a)
	}
	return "projs\t" + strings.Join(hs, ",")
}

func isFileRef(s string) bool { // independent restatement of "has an extension of >= 1 char"
	i := strings.LastIndexByte(s, '/')
	base := s[i+1:]
	j := strings.LastIndexByte(base, '.')
	return j >= 0 && j < len(base)-1
}

func run(args []string, o *vh.Out) {
	projs, err := xgoprojs.ParseAll(args...)
	var impl string
	nFiles, nOther := 0, 0
	if err == xgoprojs.ErrMixedFilesProj {
		impl = "MIXED"
	} else if err != nil {
		impl = "ERR " + err.Error()
	} else {
		parts := make([]string, len(projs))
		var concat []string
		prevFiles := false
		for i, p := range projs {
			switch v := p.(type) {
			case *xgoprojs.FilesProj:
				hs := make([]string, len(v.Files))
				for j, f := range v.Files {
					hs[j] = vh.HexS(f)
					if !isFileRef(f) {
						o.Oracle("nonfile-in-files", caseLine(args), f)
					}
				}
				if prevFiles || len(v.Files) == 0 {
					o.Oracle("files-run-not-maximal", caseLine(args), fmt.Sprint(i))
				}
				prevFiles = true
				nFiles++
				parts[i] = "F:" + strings.Join(hs, ",")
				concat = append(concat, v.Files...)
			case *xgoprojs.DirProj:
				parts[i] = "D:" + vh.HexS(v.Dir)
				concat = append(concat, v.Dir)
				prevFiles = false
				nOther++
				if isFileRef(v.Dir) {
					o.Oracle("file-as-dir", caseLine(args), v.Dir)
				}
			case *xgoprojs.PkgPathProj:
				parts[i] = "P:" + vh.HexS(v.Path)
				concat = append(concat, v.Path)
				prevFiles = false
				nOther++
				if isFileRef(v.Path) {
					o.Oracle("file-as-pkg", caseLine(args), v.Path)
				}
			}
		}
		impl = "ok " + strings.Join(parts, "|")
		if strings.Join(concat, "\x00") != strings.Join(args, "\x00") || len(concat) != len(args) {
			o.Oracle("concat-differs", caseLine(args), impl)
		}
	}
	// mixed error iff both kinds occur in the input
	hasF, hasN := false, false
	for _, a := range args {
		if isFileRef(a) {
			hasF = true
		} else {
			hasN = true
		}
	}
	if (impl == "MIXED") != (hasF && hasN) {
		o.Oracle("mixed-iff", caseLine(args), impl)
	}
	switch {
	case impl == "MIXED":
		o.Count("result_mixed")
	case strings.HasPrefix(impl, "ERR"):
		o.Count("result_err")
	default:
		o.Count("result_ok")
	}
	o.Count(fmt.Sprintf("len_%d", len(args)))
	o.Case(caseLine(args), impl, len(args) >= 2)
}

func main() {
	f := vh.ParseFlags()
	o := vh.NewOut(f.Out)
	defer o.Close()
	if f.Replay != "" {
		fs := strings.SplitN(f.Replay, "\t", 2)
		var args []string
		if len(fs) == 2 && fs[1] != "" {
			for _, h := range strings.Split(fs[1], ",") {
				b, _ := vh.UnHex(h)
				args = append(args, string(b))
			}
		}
		run(args, o)
		return
	}
	// exhaustive: all lists up to length L over one representative per class (+ variants)
	reps := []string{"a.go", "b.xgo", "./dir", "/abs", "C:x", "fmt", "x.", "", "a.b/c"}
	L := 4
	if f.Tier == "thorough" {
		L = 6
	}
	var rec func(prefix []string, depth int)
	rec = func(prefix []string, depth int) {
		run(prefix, o)
		if depth == L {
			return
		}
		for _, a := range reps {
			rec(append(append([]string{}, prefix...), a), depth+1)
		}
	}
	rec(nil, 0)
	o.Stats["exhaustive_upto_len"] = L
	// random
	r := vh.NewRand(f.Seed)
	for i := 0; i < f.N; i++ {
		rr := r.Fork(i)
		n := rr.Intn(9)
		args := make([]string, n)
		for j := range args {
			args[j] = genArg(rr)
		}
		run(args, o)
	}
}
