// Differential + stress harness for C41 (x/fakenet: NewConn / Read / Write / Close).
//
//	fseq  scripts of Read/Write/Close on a real fake connection (incl. Close while a call is blocked in
//	      the underlying stream) vs the small-step model of the two feeders run by a scripted scheduler
//	      — sequential scripts, and linearised concurrent histories
//	      + the property oracle on concurrent stress histories: data order and integrity, results not
//	      crossed, every call started after Close returns (0, io.EOF) promptly, every call pending at
//	      Close returns promptly, nothing reaches the underlying stream after Close, no crash.
//
// Everything that touches the real code runs in child processes (a "close of closed channel" panic in
// a feeder goroutine or a hang must not take the check down).
package main

import (
	"bytes"
	"errors"
	"flag"
	"fmt"
	"io"
	"net"
	"os"
	"os/exec"
	"path/filepath"
	"runtime"
	"sort"
	"strconv"
	"strings"
	"sync"
	"sync/atomic"
	"time"

	"github.com/goplus/xgo/x/fakenet"
	"verifharness/vh"
)

var (
	childMode = flag.String("child", "", "internal: seq|stress")
	procs     = flag.Int("procs", 0, "internal: GOMAXPROCS of a stress child")
)

var errSink = errors.New("sink error")
var errSrc = errors.New("source error")

func errID(err error) int {
	switch err {
	case nil:
		return 0
	case errSink:
		return 2
	case errSrc:
		return 3
	}
	return 9
}

var clock int64

func tick() int64 { return atomic.AddInt64(&clock, 1) }

// ---------------------------------------------------------------------------------------
// the two underlying streams

type call struct {
	buf        string // bytes passed in (Write) / length-many zero bytes (Read)
	start, end int64
	n          int
	err        error
}

// stream is the fake stdin/stdout. Behaviour per call is decided by plan(seq, buf).
type stream struct {
	mu      sync.Mutex
	log     []call
	closed  chan struct{}
	once    sync.Once
	plan    func(seq int, b []byte) behaviour
	entered chan int // receives seq when a call enters (buffered)
	gate    chan struct{}
	isRead  bool
}

type behaviour struct {
	n     int
	err   error
	block bool          // wait for the gate (or Close of the stream) before returning
	sleep time.Duration // think time
	data  []byte        // Read: bytes delivered
}

func newStream(isRead bool, plan func(int, []byte) behaviour) *stream {
	return &stream{closed: make(chan struct{}), plan: plan, entered: make(chan int, 1024), gate: make(chan struct{}), isRead: isRead}
}

func (s *stream) io(b []byte) (int, error) {
	s.mu.Lock()
	seq := len(s.log)
	s.log = append(s.log, call{buf: string(b), start: tick()})
	s.mu.Unlock()
	bh := s.plan(seq, b)
	select {
	case s.entered <- seq:
	default:
	}
	if bh.sleep > 0 {
		time.Sleep(bh.sleep)
	}
	if bh.block {
		select {
		case <-s.gate:
		case <-s.closed:
		}
	}
	if s.isRead {
		copy(b, bh.data)
	}
	s.mu.Lock()
	s.log[seq].end, s.log[seq].n, s.log[seq].err = tick(), bh.n, bh.err
	s.mu.Unlock()
	return bh.n, bh.err
}

func (s *stream) Read(b []byte) (int, error)  { return s.io(b) }
func (s *stream) Write(b []byte) (int, error) { return s.io(b) }
func (s *stream) Close() error                { s.once.Do(func() { close(s.closed) }); return nil }
func (s *stream) calls() []call {
	s.mu.Lock()
	defer s.mu.Unlock()
	return append([]call(nil), s.log...)
}

func chunk(seq, n int) []byte {
	b := make([]byte, n)
	for i := range b {
		b[i] = byte('A' + (seq*7+i)%26)
	}
	return b
}

// ---------------------------------------------------------------------------------------
// results

type result struct {
	n   int
	err error
}

func (r result) String() string {
	if r.n == 0 && r.err == io.EOF {
		return "EOF"
	}
	return fmt.Sprintf("%d/%d", r.n, errID(r.err))
}

func withTimeout(d time.Duration, f func() result) (result, bool) {
	ch := make(chan result, 1)
	go func() { ch <- f() }()
	select {
	case r := <-ch:
		return r, true
	case <-time.After(d):
		return result{}, false
	}
}

// ---------------------------------------------------------------------------------------
// sequential scripts

func seqCase(r *vh.Rand, o *vh.Out) {
	type planned struct {
		n     int
		err   error
		block bool
	}
	var wplan, rplan []planned
	out := newStream(false, nil)
	in := newStream(true, nil)
	var unplanned int32 // stream calls the script did not foresee (e.g. on behalf of a call after Close)
	out.plan = func(seq int, b []byte) behaviour {
		if seq >= len(wplan) {
			atomic.AddInt32(&unplanned, 1)
			return behaviour{n: len(b)}
		}
		p := wplan[seq]
		return behaviour{n: p.n, err: p.err, block: p.block}
	}
	in.plan = func(seq int, b []byte) behaviour {
		if seq >= len(rplan) {
			atomic.AddInt32(&unplanned, 1)
			return behaviour{n: 0}
		}
		p := rplan[seq]
		return behaviour{n: p.n, err: p.err, block: p.block, data: chunk(seq, p.n)}
	}
	conn := fakenet.NewConn("seq", in, out)
	var ops, impl []string
	line := func() string { return "fseq\t" + strings.Join(ops, ",") }
	closed := false
	nops := 1 + r.Intn(9)
	doClose := func() {
		res, ok := withTimeout(3*time.Second, func() result { return result{0, conn.Close()} })
		ops = append(ops, "K")
		if !ok {
			impl = append(impl, "HANG")
			o.Oracle("close-hang", line(), "Close did not return")
			return
		}
		if res.err != nil {
			o.Oracle("close-error", line(), res.err.Error())
		}
		impl = append(impl, "k")
		closed = true
	}
	for i := 0; i < nops; i++ {
		kind := r.Intn(10)
		switch {
		case kind == 0:
			doClose()
			o.Count("seq_close")
		case kind <= 5: // write
			size := r.Intn(6)
			buf := make([]byte, size)
			for k := range buf {
				buf[k] = byte('a' + r.Intn(26))
			}
			p := planned{n: size}
			if size > 0 && r.Chance(15) {
				p.n = r.Intn(size)
			}
			if r.Chance(12) {
				p.err = errSink
			}
			interrupted := !closed && r.Chance(12)
			p.block = interrupted
			if !closed {
				wplan = append(wplan, p)
			}
			opc := "W"
			if interrupted {
				opc = "w"
			}
			ops = append(ops, fmt.Sprintf("%s%s:%d:%d", opc, vh.Hex(buf), p.n, errID(p.err)))
			impl = append(impl, seqCall(o, line, conn, out, buf, interrupted, closed, func(b []byte) (int, error) { return conn.Write(b) }, nil))
			if interrupted {
				closed = true
				ops = append(ops, "K")
				impl = append(impl, "k")
			}
			o.Count("seq_write")
		default: // read
			size := r.Intn(6)
			p := planned{n: size}
			if size > 0 && r.Chance(30) {
				p.n = r.Intn(size + 1)
			}
			if r.Chance(12) {
				p.err = errSrc
			}
			interrupted := !closed && r.Chance(12)
			p.block = interrupted
			if !closed {
				rplan = append(rplan, p)
			}
			opc := "R"
			if interrupted {
				opc = "r"
			}
			buf := make([]byte, size)
			ops = append(ops, fmt.Sprintf("%s%s:%d:%d", opc, vh.Hex(buf), p.n, errID(p.err)))
			want := chunk(len(rplan)-1, p.n)
			impl = append(impl, seqCall(o, line, conn, in, buf, interrupted, closed, func(b []byte) (int, error) { return conn.Read(b) }, want))
			if interrupted {
				closed = true
				ops = append(ops, "K")
				impl = append(impl, "k")
			}
			o.Count("seq_read")
		}
	}
	if !closed {
		doClose()
	}
	// a call after Close
	for _, f := range []func() result{
		func() result { n, err := conn.Write([]byte("late")); return result{n, err} },
		func() result { n, err := conn.Read(make([]byte, 4)); return result{n, err} }} {
		res, ok := withTimeout(3*time.Second, f)
		if !ok || res.String() != "EOF" {
			o.Oracle("after-close-not-eof", line(), fmt.Sprintf("returned=%v %v", ok, res))
		}
	}
	logs := func(cs []call) string {
		hs := make([]string, len(cs))
		for i, c := range cs {
			hs[i] = vh.HexS(c.buf)
		}
		return strings.Join(hs, ",")
	}
	in.Close()
	out.Close()
	if atomic.LoadInt32(&unplanned) > 0 {
		o.Oracle("stream-used-after-close", line(), "the underlying stream was called on behalf of a call made after Close")
	}
	o.Count(fmt.Sprintf("seq_len_%02d", len(ops)))
	o.Case(line(), strings.Join(impl, " ")+" |R:"+logs(in.calls())+" |W:"+logs(out.calls()), len(ops) >= 2)
}

// seqCall performs one Read/Write; if interrupted, Close is called while the call sits in the underlying
// stream, and the call must return EOF although the stream is still blocked.
func seqCall(o *vh.Out, line func() string, conn net.Conn, st *stream, buf []byte, interrupted, closed bool,
	f func([]byte) (int, error), wantData []byte) string {
	if !interrupted {
		res, ok := withTimeout(3*time.Second, func() result { n, err := f(buf); return result{n, err} })
		if !ok {
			o.Oracle("call-hang", line(), "Read/Write did not return")
			return "HANG"
		}
		if closed && res.String() != "EOF" {
			o.Oracle("after-close-not-eof", line(), res.String())
		}
		if !closed && wantData != nil && res.err != io.EOF && !bytes.Equal(buf[:len(wantData)], wantData) {
			o.Oracle("read-data-corrupted", line(), fmt.Sprintf("got %q want %q", buf[:len(wantData)], wantData))
		}
		return res.String()
	}
	for len(st.entered) > 0 { // forget the calls of earlier operations
		<-st.entered
	}
	ch := make(chan result, 1)
	go func() { n, err := f(buf); ch <- result{n, err} }()
	select {
	case <-st.entered: // the feeder is now blocked inside the underlying stream
	case <-time.After(3 * time.Second):
		o.Oracle("call-never-reached-stream", line(), "")
		return "HANG"
	}
	cl := make(chan error, 1)
	go func() { cl <- conn.Close() }()
	var out string
	select {
	case res := <-ch:
		out = res.String()
		if out != "EOF" {
			o.Oracle("pending-call-not-eof", line(), out)
		}
	case <-time.After(3 * time.Second):
		o.Oracle("pending-call-not-unblocked", line(), "Close did not unblock a call that sits in the underlying stream")
		out = "HANG"
	}
	select {
	case <-cl:
	case <-time.After(3 * time.Second):
		o.Oracle("close-hang", line(), "Close did not return")
	}
	return out
}

// ---------------------------------------------------------------------------------------
// concurrent stress

type cop struct {
	write    bool
	who      int
	buf      string // Write: bytes written; Read: data received (n bytes)
	size     int
	res      result
	inv, ret int64
	returned bool
	late     bool // started after Close had returned
}

type stressCfg struct {
	seed                      uint64
	idx                       int
	writers, readers, closers int
	perG                      int
	procs                     int
}

func (c stressCfg) line() string {
	return fmt.Sprintf("c41stress\t%d\t%d\t%d\t%d\t%d\t%d\t%d", c.seed, c.idx, c.writers, c.readers, c.closers, c.perG, c.procs)
}

func jitter(r *vh.Rand) {
	switch r.Intn(6) {
	case 0, 1:
		runtime.Gosched()
	case 2:
		time.Sleep(time.Duration(r.Intn(40)) * time.Microsecond)
	}
}

func fmtHist(ops []cop, closeInv, closeRet int64, in, out *stream) string {
	var sb strings.Builder
	fmt.Fprintf(&sb, "Close[%d,%d]", closeInv, closeRet)
	for _, c := range ops {
		k := "R"
		if c.write {
			k = "W"
		}
		r := "PENDING"
		if c.returned {
			r = c.res.String()
		}
		fmt.Fprintf(&sb, " %s%d(%q)[%d,%d]=%s", k, c.who, c.buf, c.inv, c.ret, r)
	}
	for _, c := range out.calls() {
		fmt.Fprintf(&sb, " sink(%q)[%d,%d]", c.buf, c.start, c.end)
	}
	for _, c := range in.calls() {
		fmt.Fprintf(&sb, " src(len %d)[%d,%d]", len(c.buf), c.start, c.end)
	}
	s := sb.String()
	if len(s) > 6000 {
		s = s[:6000] + "…"
	}
	return s
}

func stressCase(cfg stressCfg, o *vh.Out) {
	runtime.GOMAXPROCS(cfg.procs)
	r := vh.NewRand(cfg.seed).Fork(cfg.idx)
	blockProb := r.Intn(25)
	mk := func(isRead bool) *stream {
		pr := r.Fork(77)
		var pmu sync.Mutex
		return newStream(isRead, func(seq int, b []byte) behaviour {
			pmu.Lock()
			defer pmu.Unlock()
			bh := behaviour{n: len(b)}
			if pr.Chance(20) {
				bh.sleep = time.Duration(pr.Intn(60)) * time.Microsecond
			}
			if pr.Chance(blockProb) {
				bh.block = true // like a read from a terminal: returns only when the stream is closed
			}
			if isRead {
				if len(b) > 0 {
					bh.n = 1 + pr.Intn(len(b))
				}
				bh.data = chunk(seq, bh.n)
				if pr.Chance(5) {
					bh.err = errSrc
				}
			} else {
				// the result identifies the buffer: n = len-1 when the first byte is odd
				if len(b) > 0 && b[0]%2 == 1 {
					bh.n = len(b) - 1
				}
				if len(b) > 1 && b[1]%5 == 0 {
					bh.err = errSink
				}
			}
			return bh
		})
	}
	in, out := mk(true), mk(false)
	conn := fakenet.NewConn("stress", in, out)
	var mu sync.Mutex
	var ops []*cop
	var closeRet int64 // 0 until the first Close has returned
	var closeInv int64
	var wg sync.WaitGroup
	start := make(chan struct{})
	runOp := func(c *cop, f func() result) {
		mu.Lock()
		ops = append(ops, c)
		mu.Unlock()
		c.late = atomic.LoadInt64(&closeRet) != 0
		c.inv = tick()
		res := f()
		c.ret = tick()
		mu.Lock()
		c.res, c.returned = res, true
		mu.Unlock()
	}
	for w := 0; w < cfg.writers; w++ {
		w := w
		gr := r.Fork(100 + w)
		wg.Add(1)
		go func() {
			defer wg.Done()
			<-start
			for i := 0; i < cfg.perG; i++ {
				jitter(gr)
				// unique, ordered payloads per writer: "<w>:<i>:<pad>"
				b := []byte(fmt.Sprintf("%c%c%d.%d", byte('a'+gr.Intn(26)), byte('a'+gr.Intn(26)), w, i))
				c := &cop{write: true, who: w, buf: string(b), size: len(b)}
				runOp(c, func() result { n, err := conn.Write(b); return result{n, err} })
			}
		}()
	}
	for k := 0; k < cfg.readers; k++ {
		k := k
		gr := r.Fork(200 + k)
		wg.Add(1)
		go func() {
			defer wg.Done()
			<-start
			for i := 0; i < cfg.perG; i++ {
				jitter(gr)
				p := make([]byte, 1+gr.Intn(8))
				c := &cop{who: k, size: len(p)}
				runOp(c, func() result {
					n, err := conn.Read(p)
					if n >= 0 && n <= len(p) {
						c.buf = string(p[:n])
					}
					return result{n, err}
				})
			}
		}()
	}
	var cwg sync.WaitGroup
	closeHang := int32(0)
	for k := 0; k < cfg.closers; k++ {
		gr := r.Fork(300 + k)
		delay := time.Duration(gr.Intn(400)) * time.Microsecond
		cwg.Add(1)
		go func() {
			defer cwg.Done()
			<-start
			time.Sleep(delay)
			jitter(gr)
			inv := tick()
			atomic.CompareAndSwapInt64(&closeInv, 0, inv)
			conn.Close()
			atomic.CompareAndSwapInt64(&closeRet, 0, tick())
		}()
	}
	close(start)
	cdone := make(chan struct{})
	go func() { cwg.Wait(); close(cdone) }()
	select {
	case <-cdone:
	case <-time.After(5 * time.Second):
		closeHang = 1
	}
	tClosed := time.Now()
	// calls started after Close: must be EOF
	for _, lt := range []struct {
		write bool
		f     func() result
	}{
		{true, func() result { n, err := conn.Write([]byte("zz-late")); return result{n, err} }},
		{false, func() result { n, err := conn.Read(make([]byte, 3)); return result{n, err} }}} {
		lt := lt
		wg.Add(1)
		go func() {
			defer wg.Done()
			c := &cop{write: lt.write, who: 99, buf: "late", size: 3}
			if lt.write {
				c.buf, c.size = "zz-late", 7
			}
			runOp(c, lt.f)
		}()
	}
	done := make(chan struct{})
	go func() { wg.Wait(); close(done) }()
	allReturned := true
	select {
	case <-done:
	case <-time.After(8 * time.Second):
		allReturned = false
	}
	unblock := time.Since(tClosed)
	mu.Lock()
	snap := make([]cop, len(ops))
	for i, c := range ops {
		snap[i] = *c
	}
	mu.Unlock()
	sort.Slice(snap, func(i, j int) bool { return snap[i].inv < snap[j].inv })
	cr, ci := atomic.LoadInt64(&closeRet), atomic.LoadInt64(&closeInv)
	hist := func() string { return fmtHist(snap, ci, cr, in, out) }
	fail := func(key, detail string) {
		o.Oracle(key, cfg.line(), detail+" | "+hist())
		o.Stats["stress_failed"]++
	}
	o.Count(fmt.Sprintf("stress_w%d_r%d_c%d", cfg.writers, cfg.readers, cfg.closers))
	o.Count(fmt.Sprintf("stress_procs_%d", cfg.procs))
	defer func() { in.Close(); out.Close() }()
	if closeHang == 1 {
		fail("close-hang", "Close did not return within 5s")
		return
	}
	if !allReturned {
		n := 0
		for _, c := range snap {
			if !c.returned {
				n++
			}
		}
		fail("pending-call-not-unblocked", fmt.Sprintf("%d Read/Write calls still blocked 8s after Close returned", n))
		return
	}
	if unblock > 5*time.Second {
		fail("unblock-slow", fmt.Sprintf("calls returned %v after Close", unblock))
		return
	}
	// --- the property on the history
	sink, src := out.calls(), in.calls()
	nOK, nEOF, nPendingAtClose := 0, 0, 0
	for _, c := range snap {
		if c.res.String() == "EOF" {
			nEOF++
		} else {
			nOK++
		}
		if c.inv < cr && c.ret > ci {
			nPendingAtClose++
		}
		if c.late && c.res.String() != "EOF" {
			fail("after-close-not-eof", fmt.Sprintf("call started after Close returned gave %v", c.res))
			return
		}
		if c.inv > cr && c.res.String() != "EOF" {
			fail("after-close-not-eof", fmt.Sprintf("call invoked at %d (Close returned at %d) gave %v", c.inv, cr, c.res))
			return
		}
		if c.res.String() == "EOF" && c.ret < ci {
			fail("eof-before-close", fmt.Sprintf("call returned EOF at %d before Close was invoked at %d", c.ret, ci))
			return
		}
	}
	// A buffer handed to the feeder before Close may still reach the stream afterwards (the feeder
	// goroutine had already taken it), but nothing of a call STARTED after Close returned may.
	earlyReads := 0
	for _, c := range snap {
		if !c.write && c.who != 99 && c.inv < cr {
			earlyReads++
		}
	}
	if len(src) > earlyReads {
		fail("stream-used-after-close", fmt.Sprintf("%d source calls but only %d Read calls were started before Close returned", len(src), earlyReads))
		return
	}
	for _, s := range sink {
		for _, c := range snap {
			if c.write && c.buf == s.buf && c.inv > cr {
				fail("stream-used-after-close", fmt.Sprintf("Write(%q) started at %d after Close returned at %d reached the sink", c.buf, c.inv, cr))
				return
			}
		}
	}
	// calls to each stream never overlap (the feeder serialises them)
	for _, cs := range [][]call{sink, src} {
		for i := 1; i < len(cs); i++ {
			if cs[i-1].end == 0 || cs[i].start < cs[i-1].end {
				fail("stream-calls-overlap", fmt.Sprintf("call %d starts before call %d ended", i, i-1))
				return
			}
		}
	}
	// writes: every buffer reaches the sink unmodified, at most once, in per-writer order; an OK result
	// is the sink's result for that very buffer
	seen := map[string]int{}
	for _, s := range sink {
		seen[s.buf]++
	}
	issued := map[string]cop{}
	lastIdx := map[int]int{}
	for _, c := range snap {
		if c.write {
			issued[c.buf] = c
		}
	}
	for i, s := range sink {
		c, ok := issued[s.buf]
		if !ok {
			fail("sink-got-unknown-data", fmt.Sprintf("%q was never written", s.buf))
			return
		}
		if seen[s.buf] > 1 {
			fail("write-duplicated", fmt.Sprintf("%q reached the sink %d times", s.buf, seen[s.buf]))
			return
		}
		if c.who == 99 {
			fail("stream-used-after-close", fmt.Sprintf("Write(%q) started after Close returned reached the sink", s.buf))
			return
		}
		var w, k int
		fmt.Sscanf(s.buf[2:], "%d.%d", &w, &k)
		if last, ok := lastIdx[w]; ok && k < last {
			fail("write-order", fmt.Sprintf("writer %d: %q reached the sink (call %d) after a later buffer", w, s.buf, i))
			return
		}
		lastIdx[w] = k
		if c.res.String() != "EOF" && s.end != 0 && (c.res.n != s.n || c.res.err != s.err) {
			fail("result-crossed", fmt.Sprintf("Write(%q) returned %v, the sink returned %d/%d for it", s.buf, c.res, s.n, errID(s.err)))
			return
		}
	}
	for _, c := range snap {
		if c.write && c.who != 99 && c.res.String() != "EOF" && seen[c.buf] == 0 {
			fail("write-lost", fmt.Sprintf("Write(%q) returned %v but the data never reached the sink", c.buf, c.res))
			return
		}
	}
	// reads: each OK read got the data of exactly one source call, no chunk delivered twice
	used := map[int]bool{}
	for _, c := range snap {
		if c.write || c.who == 99 || c.res.String() == "EOF" {
			continue
		}
		found := -1
		for i, s := range src {
			if !used[i] && s.end != 0 && s.n == c.res.n && s.err == c.res.err && len(s.buf) == c.size &&
				string(chunk(i, s.n)) == c.buf && s.start > c.inv && s.end < c.ret {
				found = i
				break
			}
		}
		if found < 0 {
			fail("read-result-crossed", fmt.Sprintf("Read by %d returned %v %q: no source call inside the call interval delivers that", c.who, c.res, c.buf))
			return
		}
		used[found] = true
	}
	o.Count("stress_ok_" + bucket(nOK))
	o.Count("stress_eof_" + bucket(nEOF))
	o.Count("stress_pending_at_close_" + bucket(nPendingAtClose))
	// --- linearised history through the model (small ones)
	if len(snap) <= 12 {
		// (Close is atomic in the script but closes the reader feeder before the writer feeder in the
		// real code, so some legitimate histories have no such script: they stay oracle-only)
		if ln, im, ok := linearise(snap, sink, src, ci, cr); ok {
			o.Case(ln, im, true)
			return
		}
		o.Stats["stress_not_linearised"]++
	}
	o.N++
	o.Stats["stress_oracle_only"]++
}

// linearise builds the sequential script (completed calls in stream order, the call in flight at Close,
// Close, the calls that saw EOF) and checks that it respects real time.
func linearise(ops []cop, sink, src []call, ci, cr int64) (string, string, bool) {
	type item struct {
		op       string
		out      string
		inv, ret int64
	}
	var items []item
	find := func(write bool, s call, idx int) *cop {
		for i := range ops {
			c := &ops[i]
			if c.write != write || c.who == 99 {
				continue
			}
			if write && c.buf == s.buf {
				return c
			}
			if !write && len(s.buf) == c.size && c.inv < s.start && (c.res.String() == "EOF" || (s.end != 0 && s.end < c.ret && string(chunk(idx, s.n)) == c.buf)) && !(c.res.String() != "EOF" && s.end == 0) {
				return c
			}
		}
		return nil
	}
	usedOps := map[*cop]bool{}
	var inflight []item
	// merge the two streams' completed calls by start time
	type sc struct {
		write bool
		c     call
		idx   int
	}
	var all []sc
	for i, s := range sink {
		all = append(all, sc{true, s, i})
	}
	for i, s := range src {
		all = append(all, sc{false, s, i})
	}
	sort.Slice(all, func(i, j int) bool { return all[i].c.start < all[j].c.start })
	for _, s := range all {
		var c *cop
		// first a caller that completed with exactly this call's outcome, only then one that saw EOF
		for pass := 0; pass < 2 && c == nil; pass++ {
			for i := range ops {
				k := &ops[i]
				if usedOps[k] || k.write != s.write || k.who == 99 {
					continue
				}
				eof := k.res.String() == "EOF"
				if (pass == 0) == eof {
					continue
				}
				if s.write && k.buf == s.c.buf {
					c = k
					break
				}
				if !s.write && k.size == len(s.c.buf) && k.inv < s.c.start && k.ret > s.c.start {
					if eof || (s.c.end != 0 && s.c.end < k.ret && string(chunk(s.idx, s.c.n)) == k.buf && k.res.n == s.c.n && k.res.err == s.c.err) {
						c = k
						break
					}
				}
			}
		}
		_ = find
		if c == nil {
			return "", "", false // cannot attribute (ambiguous reads): oracle only
		}
		usedOps[c] = true
		kind := "R"
		hexbuf := vh.Hex(make([]byte, c.size))
		if s.write {
			kind = "W"
			hexbuf = vh.HexS(c.buf)
		}
		n, e := s.c.n, errID(s.c.err)
		if c.res.String() == "EOF" {
			// in flight at Close: the stream was called, the caller saw EOF
			if s.c.end == 0 {
				n, e = 0, 0
			}
			inflight = append(inflight, item{strings.ToLower(kind) + hexbuf + fmt.Sprintf(":%d:%d", n, e), "EOF", c.inv, c.ret})
		} else {
			items = append(items, item{kind + hexbuf + fmt.Sprintf(":%d:%d", n, e), c.res.String(), c.inv, c.ret})
		}
	}
	items = append(items, inflight...)
	items = append(items, item{"K", "k", ci, cr})
	for i := range ops {
		c := &ops[i]
		if usedOps[c] {
			continue
		}
		if c.res.String() != "EOF" {
			return "call completed without reaching the stream", "", false
		}
		kind, hexbuf := "R", vh.Hex(make([]byte, c.size))
		if c.write {
			kind, hexbuf = "W", vh.HexS(c.buf)
		}
		items = append(items, item{kind + hexbuf + ":0:0", "EOF", c.inv, c.ret})
	}
	// real-time order: nothing may be placed after an item that was invoked after it returned
	for i := range items {
		for j := i + 1; j < len(items); j++ {
			if items[j].ret != 0 && items[j].ret < items[i].inv {
				return fmt.Sprintf("%s (returned at %d) must follow %s (invoked at %d)", items[j].op, items[j].ret, items[i].op, items[i].inv), "", false
			}
		}
	}
	var opsS, outs, rlog, wlog []string
	for _, it := range items {
		opsS = append(opsS, it.op)
		outs = append(outs, it.out)
	}
	for _, s := range src {
		rlog = append(rlog, vh.HexS(s.buf))
	}
	for _, s := range sink {
		wlog = append(wlog, vh.HexS(s.buf))
	}
	return "fseq\t" + strings.Join(opsS, ","), strings.Join(outs, " ") + " |R:" + strings.Join(rlog, ",") + " |W:" + strings.Join(wlog, ","), true
}

// tightClose: many short rounds of "one Write blocked in the underlying stream, three Close calls
// released at the same instant" — the few-instruction windows inside connFeeder.close.
func tightClose(seed uint64, idx, procs int, o *vh.Out) {
	runtime.GOMAXPROCS(procs)
	line := fmt.Sprintf("c41tight\t%d\t%d\t%d", seed, idx, procs)
	o.Count("stress_tight_close")
	o.Count(fmt.Sprintf("stress_procs_%d", procs))
	for round := 0; round < 60; round++ {
		plan := func(seq int, b []byte) behaviour { return behaviour{n: len(b), block: true} }
		in, out := newStream(true, plan), newStream(false, plan)
		conn := fakenet.NewConn("tight", in, out)
		ch := make(chan result, 1)
		go func() { n, err := conn.Write([]byte("tight")); ch <- result{n, err} }()
		fail := func(key, detail string) {
			o.Oracle(key, line, fmt.Sprintf("round %d: %s", round, detail))
			o.Stats["stress_failed"]++
			in.Close()
			out.Close()
		}
		select {
		case <-out.entered:
		case <-time.After(3 * time.Second):
			fail("call-never-reached-stream", "")
			return
		}
		start := make(chan struct{})
		var cwg sync.WaitGroup
		for k := 0; k < 3; k++ {
			cwg.Add(1)
			go func() { defer cwg.Done(); <-start; conn.Close() }()
		}
		close(start)
		cdone := make(chan struct{})
		go func() { cwg.Wait(); close(cdone) }()
		select {
		case <-cdone:
		case <-time.After(5 * time.Second):
			fail("close-hang", "three concurrent Close calls did not all return")
			return
		}
		select {
		case res := <-ch:
			if res.String() != "EOF" {
				fail("pending-call-not-eof", fmt.Sprintf("a Write pending during three concurrent Close calls returned %v (%v)", res, res.err))
				return
			}
		case <-time.After(5 * time.Second):
			fail("pending-call-not-unblocked", "a Write pending during three concurrent Close calls never returned")
			return
		}
		in.Close()
		out.Close()
	}
	o.N++
	o.Stats["stress_oracle_only"]++
}

func bucket(n int) string {
	switch {
	case n == 0:
		return "0"
	case n <= 2:
		return "1-2"
	case n <= 6:
		return "3-6"
	}
	return "7+"
}

func genStress(r *vh.Rand, seed uint64, idx, procs int) stressCfg {
	cfg := stressCfg{seed: seed, idx: idx, procs: procs}
	switch r.Intn(10) {
	case 0, 1, 2:
		cfg.writers, cfg.readers, cfg.closers, cfg.perG = 1+r.Intn(2), r.Intn(2), 1, 1+r.Intn(3)
	case 3, 4:
		cfg.writers, cfg.readers, cfg.closers, cfg.perG = r.Intn(2), 1+r.Intn(2), 1+r.Intn(2), 1+r.Intn(3)
	case 5, 6:
		cfg.writers, cfg.readers, cfg.closers, cfg.perG = 1+r.Intn(3), 1+r.Intn(3), 1+r.Intn(3), 1+r.Intn(4)
	default:
		cfg.writers, cfg.readers, cfg.closers, cfg.perG = 2+r.Intn(4), r.Intn(4), 1+r.Intn(4), 2+r.Intn(8)
	}
	return cfg
}

// ---------------------------------------------------------------------------------------
// children / parent (same scheme as cmd/c40)

func childSeq(f *vh.Flags, o *vh.Out) {
	r := vh.NewRand(f.Seed)
	for i := 0; i < f.N && o.Stats["oracle_fail"] < 5; i++ { // a few failures are enough (each may cost a time-out)
		seqCase(r.Fork(i), o)
	}
}

func childStress(f *vh.Flags, o *vh.Out) {
	seed := f.Seed ^ uint64(*procs)*104729
	r := vh.NewRand(seed)
	for i := 0; i < f.N && o.Stats["stress_failed"] < 3; i++ {
		if *procs > 1 && r.Fork(i).Chance(15) {
			tightClose(seed, i, *procs, o)
			continue
		}
		stressCase(genStress(r.Fork(i), seed, i, *procs), o)
	}
}

type childResult struct {
	dir, id, tail string
	timedOut      bool
	err           error
	limit         time.Duration
}

func startChild(f *vh.Flags, kind string, n int, p int, limit time.Duration) childResult {
	dir := filepath.Join(f.Out, fmt.Sprintf("child-%s-%d", kind, p))
	os.MkdirAll(dir, 0o755)
	cmd := exec.Command(os.Args[0], "-child", kind, "-procs", strconv.Itoa(p), "-seed", strconv.FormatUint(f.Seed, 10),
		"-n", strconv.Itoa(n), "-tier", f.Tier, "-out", dir)
	var stderr bytes.Buffer
	cmd.Stderr = &stderr
	cmd.Stdout = &stderr
	r := childResult{dir: dir, limit: limit, id: fmt.Sprintf("c41child\t%s\t%d\t%d\t%d", kind, f.Seed, n, p)}
	if err := cmd.Start(); err != nil {
		fmt.Fprintln(os.Stderr, "cannot start child:", err)
		os.Exit(2)
	}
	done := make(chan error, 1)
	go func() { done <- cmd.Wait() }()
	select {
	case r.err = <-done:
	case <-time.After(limit):
		cmd.Process.Kill()
		r.err = <-done
		r.timedOut = true
	}
	r.tail = stderr.String()
	if len(r.tail) > 1500 {
		r.tail = r.tail[:700] + " … " + r.tail[len(r.tail)-700:]
	}
	return r
}

func (r childResult) mergeInto(o *vh.Out) {
	merge(o, r.dir)
	switch {
	case r.timedOut:
		o.Oracle("hang", r.id, "child did not finish within "+r.limit.String()+": "+r.tail)
	case r.err != nil:
		o.Oracle("crash", r.id, "the code under test brought the process down: "+r.tail)
	}
}

func merge(o *vh.Out, dir string) {
	read := func(name string) []string {
		b, err := os.ReadFile(filepath.Join(dir, name))
		if err != nil || len(b) == 0 {
			return nil
		}
		return strings.Split(strings.TrimSuffix(string(b), "\n"), "\n")
	}
	cases, impl := read("cases.txt"), read("impl.txt")
	for i := 0; i < len(cases) && i < len(impl); i++ {
		o.Case(cases[i], impl[i], true)
	}
	for _, l := range read("oracle.txt") {
		p := strings.SplitN(l, "\t", 3)
		for len(p) < 3 {
			p = append(p, "")
		}
		o.Oracle(p[0], p[1], p[2])
	}
	for _, l := range read("counts.txt") {
		p := strings.SplitN(l, "\t", 2)
		if len(p) == 2 {
			n, _ := strconv.Atoi(p[1])
			if p[0] == "_N" {
				o.N += n
			} else if p[0] != "oracle_fail" {
				o.Stats[p[0]] += n
			}
		}
	}
}

func writeCounts(o *vh.Out, dir string) {
	var b strings.Builder
	for k, v := range o.Stats {
		fmt.Fprintf(&b, "%s\t%d\n", k, v)
	}
	fmt.Fprintf(&b, "_N\t%d\n", o.Stats["stress_oracle_only"]+o.Stats["stress_failed"])
	os.WriteFile(filepath.Join(dir, "counts.txt"), []byte(b.String()), 0o644)
}

func main() {
	f := vh.ParseFlags()
	o := vh.NewOut(f.Out)
	o.Samples = []string{} // never JSON null, also when every child crashed
	defer o.Close()
	if *childMode != "" {
		defer writeCounts(o, f.Out)
		switch *childMode {
		case "seq":
			childSeq(f, o)
		case "stress":
			childStress(f, o)
		}
		return
	}
	if f.Replay != "" {
		replay(f, o)
		return
	}
	nSeq, nStress := f.N, f.N/6
	if nStress < 20 {
		nStress = 20
	}
	limit := 75 * time.Second
	if f.Tier == "thorough" {
		limit = 12 * time.Minute
	}
	type job struct {
		kind string
		n, p int
	}
	jobs := []job{{"seq", nSeq, 0}, {"stress", nStress, 1}, {"stress", nStress, 2}, {"stress", nStress, 4}, {"stress", nStress, 8}}
	res := make([]childResult, len(jobs))
	var wg sync.WaitGroup
	for i, j := range jobs {
		wg.Add(1)
		go func(i int, j job) {
			defer wg.Done()
			res[i] = startChild(f, j.kind, j.n, j.p, limit)
		}(i, j)
	}
	wg.Wait()
	for _, r := range res {
		r.mergeInto(o)
	}
}

func replay(f *vh.Flags, o *vh.Out) {
	fs := strings.Split(f.Replay, "\t")
	switch fs[0] {
	case "c41stress":
		if len(fs) < 8 {
			return
		}
		seed, _ := strconv.ParseUint(fs[1], 10, 64)
		cfg := stressCfg{seed: seed}
		cfg.idx, _ = strconv.Atoi(fs[2])
		cfg.writers, _ = strconv.Atoi(fs[3])
		cfg.readers, _ = strconv.Atoi(fs[4])
		cfg.closers, _ = strconv.Atoi(fs[5])
		cfg.perG, _ = strconv.Atoi(fs[6])
		cfg.procs, _ = strconv.Atoi(fs[7])
		// in a child: the failure may be a crash
		for i := 0; i < 300 && o.Stats["oracle_fail"] == 0; i++ {
			stressCase(cfg, o)
		}
	case "c41tight":
		if len(fs) < 4 {
			return
		}
		seed, _ := strconv.ParseUint(fs[1], 10, 64)
		idx, _ := strconv.Atoi(fs[2])
		p, _ := strconv.Atoi(fs[3])
		for i := 0; i < 200 && o.Stats["oracle_fail"] == 0; i++ {
			tightClose(seed, idx, p, o)
		}
	case "c41child":
		if len(fs) < 5 {
			return
		}
		n, _ := strconv.Atoi(fs[3])
		p, _ := strconv.Atoi(fs[4])
		startChild(f, fs[1], n, p, 5*time.Minute).mergeInto(o)
	case "fseq":
		fmt.Println("recorded script (a linearised history or a generated script); re-run the seed to regenerate")
	}
}
