package main

import (
	"fmt"
	"strings"

	"verifharness/vh"
)

// probe: a call `mark(<id>)` the generator placed as the FIRST call of a statement.
type probe struct {
	ID   int    `json:"id"`
	File string `json:"file"`
	Line int    `json:"line"` // source line on which the STATEMENT (or case clause) is written
	Kind string `json:"kind"`
	Fn   string `json:"fn"` // enclosing declared function ("" = top-level statements / closure)
}

type fnInfo struct {
	Name string `json:"name"` // Go name of the function / method ("T.m3" for methods)
	File string `json:"file"`
	Line int    `json:"line"` // source line of the `func` keyword
	Doc  int    `json:"doc"`  // number of doc comment lines directly above
}

type srcFile struct {
	name  string
	lines []string
}

func (f *srcFile) w(format string, a ...interface{}) int {
	s := fmt.Sprintf(format, a...)
	for _, l := range strings.Split(s, "\n") {
		f.lines = append(f.lines, l)
	}
	return len(f.lines) // line number of the LAST line written
}

func (f *srcFile) next() int { return len(f.lines) + 1 }

type progGen struct {
	r      *vh.Rand
	cur    *srcFile
	files  []*srcFile
	probes []probe
	funcs  []fnInfo
	nid    int
	fn     string
	nvar   int
	nlabel int
	stats  map[string]int
	// compile configuration (a random dimension): source directory and cl.Config.RelativeBase
	dir, relBase, cfgKind string
}

// configs: where the sources live and what RelativeBase is — equal, with a trailing slash, a parent,
// a sibling directory whose name is a string prefix of the source directory, unrelated, the root,
// empty (absolute names in the directives), and relative source directories.
var configs = [][3]string{
	{"/pkg", "/pkg", "equal"},
	{"/pkg", "/pkg/", "equal-trailing-slash"},
	{"/w/app/sub", "/w/app", "parent"},
	{"/w/app/sub/deep", "/w/app/", "grandparent-trailing-slash"},
	{"/w/app2", "/w/app", "sibling-common-prefix"},
	{"/w/app-v2/cmd", "/w/app", "sibling-common-prefix-nested"},
	{"/w/app", "/other/place", "unrelated"},
	{"/w/app", "/", "root"},
	{"/w/app", "", "empty-base"},
	{"rel/pkg", "", "relative-dir-empty-base"},
	{"rel/pkg", "rel", "relative-dir-parent"},
	{"rel/pkg2", "rel/pkg", "relative-sibling-common-prefix"},
}

// relPath restates "path of file relative to base" component by component (independent of
// path/filepath.Rel): "" base keeps the name; mixing absolute and relative keeps the name.
func relPath(base, file string) string {
	if base == "" {
		return file
	}
	abs := func(s string) bool { return strings.HasPrefix(s, "/") }
	if abs(base) != abs(file) {
		return file
	}
	split := func(s string) []string {
		var res []string
		for _, c := range strings.Split(s, "/") {
			if c != "" && c != "." {
				res = append(res, c)
			}
		}
		return res
	}
	b, f := split(base), split(file)
	i := 0
	for i < len(b) && i < len(f) && b[i] == f[i] {
		i++
	}
	var parts []string
	for j := i; j < len(b); j++ {
		parts = append(parts, "..")
	}
	parts = append(parts, f[i:]...)
	if len(parts) == 0 {
		return "."
	}
	return strings.Join(parts, "/")
}

// directiveName: the file name a //line directive for the source file must carry.
func (g *progGen) directiveName(file string) string {
	return relPath(g.relBase, g.dir+"/"+file)
}

func (g *progGen) id(kind string, line int) int {
	g.nid++
	g.probes = append(g.probes, probe{ID: g.nid, File: g.cur.name, Line: line, Kind: kind, Fn: g.fn})
	g.stats["stmt_"+kind]++
	return g.nid
}

func (g *progGen) v() string { g.nvar++; return fmt.Sprintf("v%d", g.nvar) }

// forceKind (env C09_ONLY, debugging): generate this statement kind half of the time.
var forceKind = -1

func ind(n int) string { return strings.Repeat("\t", n) }

// noise: blank lines and comments between statements
func (g *progGen) noise(d int) {
	switch g.r.Intn(8) {
	case 0:
		g.cur.w("")
	case 1:
		g.cur.w("%s// a comment between statements", ind(d))
	case 2:
		g.cur.w("%s/* a block\n%s   comment */", ind(d), ind(d))
	case 3:
		g.cur.w("\n%s// two\n%s// lines\n", ind(d), ind(d))
	}
}

func (g *progGen) block(d, depth, n int) {
	for i := 0; i < n; i++ {
		g.noise(d)
		g.stmt(d, depth)
	}
}

func (g *progGen) stmt(d, depth int) {
	f := g.cur
	t := ind(d)
	L := f.next()
	k := g.r.Intn(52)
	if forceKind >= 0 && g.r.Bool() {
		k = forceKind
	}
	if depth <= 0 && (k >= 12 && k <= 22 || k == 31 || k == 33 || k == 34 || k >= 36 && k <= 39 || k == 41 || k == 46 || k == 47) {
		k = g.r.Intn(12)
	}
	switch k {
	case 0, 1:
		f.w("%smark(%d)", t, g.id("expr", L))
	case 2:
		f.w("%s_ = mark(%d)", t, g.id("assign", L))
	case 3:
		v := g.v()
		f.w("%s%s := mark(%d)", t, v, g.id("define", L))
		f.w("%s_ = %s", t, v)
	case 4:
		f.w("%suse(\n%s\tmark(%d),\n%s\t2,\n%s)", t, t, g.id("multiline_call", L), t, t)
	case 5:
		f.w("%s_ = mark(%d) +\n%s\t3", t, g.id("multiline_binary", L), t)
	case 6:
		f.w("%stot += mark(%d)", t, g.id("assignop", L))
	case 7:
		f.w("%sarr[mark(%d)%%2]++", t, g.id("incdec", L))
	case 8:
		f.w("%sch <- mark(%d)", t, g.id("send", L))
	case 9:
		f.w("%sdefer use(mark(%d), 1)", t, g.id("defer", L))
	case 10:
		f.w("%sgo use(mark(%d), 2)", t, g.id("go", L))
	case 11:
		if g.r.Bool() {
			f.w("%sprintln mark(%d)", t, g.id("command", L))
		} else {
			f.w("%secho \"v=${mark(%d)}\"", t, g.id("interp", L))
		}
	case 12: // if / else if / else
		f.w("%sif mark(%d) > 0 {", t, g.id("if", L))
		g.block(d+1, depth-1, 1+g.r.Intn(2))
		if g.r.Bool() {
			L2 := f.next()
			f.w("%s} else if mark(%d) < 0 {", t, g.id("elseif", L2))
			g.block(d+1, depth-1, 1)
		}
		if g.r.Bool() {
			f.w("%s} else {", t)
			g.block(d+1, depth-1, 1)
		}
		f.w("%s}", t)
	case 13: // three-clause for
		v := g.v()
		f.w("%sfor %s := mark(%d); %s < %d; %s++ {", t, v, g.id("for3", L), v, g.nid+2, v)
		g.block(d+1, depth-1, 1+g.r.Intn(2))
		f.w("%s}", t)
	case 14: // range forms
		switch g.r.Intn(3) {
		case 0:
			f.w("%sfor _, x := range mk(mark(%d)) {", t, g.id("range", L))
			f.w("%s\t_ = x", t)
		case 1:
			f.w("%sfor x <- mk(mark(%d)) {", t, g.id("forin", L))
			f.w("%s\t_ = x", t)
		default:
			f.w("%sfor i <- 0:mark(%d)-%d+2 {", t, g.id("forrange", L), g.nid)
			f.w("%s\t_ = i", t)
		}
		g.block(d+1, depth-1, 1)
		f.w("%s}", t)
	case 15: // switch with tag
		id := g.id("switch", L)
		f.w("%sswitch mark(%d) {", t, id)
		L2 := f.next()
		f.w("%scase mark(%d), -1:", t, g.id("case", L2))
		g.block(d+1, depth-1, 1)
		f.w("%scase %d:", t, id)
		g.block(d+1, depth-1, 1)
		f.w("%sdefault:", t)
		g.block(d+1, depth-1, 1)
		f.w("%s}", t)
	case 16: // tagless switch
		f.w("%sswitch {", t)
		L2 := f.next()
		f.w("%scase mark(%d) < 0:", t, g.id("case", L2))
		g.block(d+1, depth-1, 1)
		L3 := f.next()
		f.w("%scase mark(%d) > 0:", t, g.id("case", L3))
		g.block(d+1, depth-1, 1)
		f.w("%s}", t)
	case 17: // type switch
		v := g.v()
		f.w("%sswitch %s := any(mark(%d)).(type) {", t, v, g.id("typeswitch", L))
		f.w("%scase string:\n%s\t_ = %s", t, t, v)
		f.w("%scase int:\n%s\t_ = %s", t, t, v)
		g.block(d+1, depth-1, 1)
		f.w("%s}", t)
	case 18: // select
		f.w("%sselect {", t)
		L2 := f.next()
		f.w("%scase ch <- mark(%d):", t, g.id("selectcase", L2))
		g.block(d+1, depth-1, 1)
		f.w("%sdefault:", t)
		g.block(d+1, depth-1, 1)
		f.w("%s}", t)
	case 19: // block
		f.w("%s{", t)
		g.block(d+1, depth-1, 1+g.r.Intn(2))
		f.w("%s}", t)
	case 20: // labeled loop
		g.nlabel++
		f.w("%sL%d:", t, g.nlabel)
		L2 := f.next()
		f.w("%sfor {", t)
		_ = L2
		L3 := f.next()
		f.w("%s\tif mark(%d) > 0 {", t, g.id("if", L3))
		f.w("%s\t\tbreak L%d", t, g.nlabel)
		f.w("%s\t}", t)
		f.w("%s}", t)
	case 21: // closure assigned, then called
		v := g.v()
		f.w("%s%s := func(a int) int {", t, v)
		g.block(d+1, depth-1, 1+g.r.Intn(2))
		f.w("%s\treturn a", t)
		f.w("%s}", t)
		L2 := f.next()
		f.w("%s%s(mark(%d))", t, v, g.id("expr", L2))
	case 22: // immediately invoked closure; lambda argument
		if g.r.Bool() {
			f.w("%sfunc() {", t)
			g.block(d+1, depth-1, 1)
			f.w("%s}()", t)
		} else {
			f.w("%s_ = apply(x => mark(%d) + x)", t, g.id("lambda", L))
		}
	case 23:
		f.w("%s_ = [mark(%d) + x for x <- [1, 2]]", t, g.id("listcomp", L))
	case 24:
		f.w("%s_ = must(mark(%d))!", t, g.id("errwrap", L))
	case 25: // multi-line composite literal
		f.w("%s_ = map[string]int{\n%s\t\"a\": mark(%d),\n%s\t\"b\": 2,\n%s}", t, t, g.id("multiline_lit", L), t, t)
	case 26: // local var declaration, possibly with a doc comment
		v := g.v()
		kind := "declvar"
		switch g.r.Intn(4) {
		case 0:
			f.w("%s// doc comment of %s", t, v)
			if g.r.Bool() {
				f.w("%s// second doc line", t)
			}
			kind = "declvar_linedoc"
		case 1:
			f.w("%s/* block doc of %s */", t, v)
			kind = "declvar_blockdoc"
		case 2:
			f.w("%s/* block doc of %s\n%s   second line */", t, v, t)
			kind = "declvar_blockdoc"
		}
		L = f.next()
		f.w("%svar %s = mark(%d)", t, v, g.id(kind, L))
		f.w("%s_ = %s", t, v)
	case 27: // grouped var declaration
		v := g.v()
		f.w("%svar (\n%s\t%s = mark(%d)\n%s\t%sb = 2\n%s)", t, t, v, g.id("declgroup", L), t, v, t)
		f.w("%s_, _ = %s, %sb", t, v, v)
	case 28: // raw string spanning lines, then a statement
		v := g.v()
		f.w("%s%s := `first\nsecond\nthird`", t, v)
		f.w("%s_ = %s", t, v)
		L2 := f.next()
		f.w("%smark(%d)", t, g.id("after_rawstring", L2))
	case 29: // local const / type declarations without calls, then a statement
		v := g.v()
		f.w("%sconst c%s = 3", t, v)
		f.w("%stype t%s struct {\n%s\ta int\n%s}", t, v, t, t)
		f.w("%s_ = t%s{a: c%s}", t, v, v)
		L2 := f.next()
		f.w("%smark(%d)", t, g.id("after_decl", L2))
	case 30:
		f.w("%suse(mark(%d), use(3,\n%s\t4))", t, g.id("multiline_nested", L), t)
	case 31: // statement after a multi-line closure argument
		f.w("%srun(func() {", t)
		g.block(d+1, depth-1, 1)
		f.w("%s})", t)
	case 32:
		v := g.v()
		f.w("%s%s, err := must(mark(%d))", t, v, g.id("define2", L))
		f.w("%s_, _ = %s, err", t, v)
	case 33:
		f.w("%sif x := mark(%d); x > 0 {", t, g.id("ifinit", L))
		g.block(d+1, depth-1, 1)
		f.w("%s}", t)
	// ---- probes in every expression position written on the statement's first line -------------
	case 34: // for-in with a filter condition (the condition becomes a generated `if`)
		switch g.r.Intn(4) {
		case 3:
			f.w("%sfor x in [1, 2] if mark(%d) > x {", t, g.id("forin_if_filter", L))
		case 0:
			f.w("%sfor x <- [1, 2], mark(%d) > x {", t, g.id("forin_filter", L))
		case 1:
			a := g.id("forin_filter_src", L)
			f.w("%sfor x <- mk(mark(%d)), mark(%d) > x-%d {", t, a, g.id("forin_filter_2nd", L), a)
		default:
			f.w("%sfor i, x <- [1, 2], mark(%d) > x+i {", t, g.id("forin_kv_filter", L))
		}
		f.w("%s\t_ = x", t)
		g.block(d+1, depth-1, 1+g.r.Intn(2))
		f.w("%s}", t)
	case 35: // comprehension element + condition; map comprehension
		switch g.r.Intn(4) {
		case 3:
			f.w("%s_ = [mark(%d) + x for x in [1, 2] if y := mark(%d); y > x]", t, g.id("listcomp_in_elem", L), g.id("listcomp_in_cond_init", L))
		case 0:
			f.w("%s_ = [mark(%d) + x for x <- [1, 2], mark(%d) > 0]", t, g.id("listcomp_elem", L), g.id("listcomp_cond", L))
		case 1:
			f.w("%s_ = {x: mark(%d) for x <- [1, 2], mark(%d) > x}", t, g.id("mapcomp_elem", L), g.id("mapcomp_cond", L))
		default:
			f.w("%s_ = [mark(%d) + x + y for x <- [1, 2] for y <- mk(mark(%d))]", t, g.id("listcomp2_elem", L), g.id("listcomp2_src", L))
		}
	case 36: // if with init and a call in the condition
		f.w("%sif x := mark(%d); mark(%d)+x > 0 {", t, g.id("ifinit", L), g.id("ifinit_cond", L))
		g.block(d+1, depth-1, 1)
		f.w("%s}", t)
	case 37: // switch with init and tag
		a := g.id("switchinit", L)
		b := g.id("switchinit_tag", L)
		f.w("%sswitch x := mark(%d); mark(%d) + x {", t, a, b)
		L2 := f.next()
		f.w("%scase mark(%d), mark(%d):", t, g.id("case", L2), g.id("case_2nd", L2))
		g.block(d+1, depth-1, 1)
		f.w("%scase %d:", t, a+b)
		g.block(d+1, depth-1, 1)
		f.w("%s}", t)
	case 38: // three-clause for with calls in init, condition and post
		a := g.id("for3", L)
		b := g.id("for3_cond", L)
		c := g.id("for3_post", L)
		v := g.v()
		f.w("%sfor %s := mark(%d); %s < mark(%d)-(%d); %s += mark(%d) - %d {", t, v, a, v, b, b-a-2, v, c, c-1)
		g.block(d+1, depth-1, 1)
		f.w("%s}", t)
	case 39: // select: send value, receive operand
		f.w("%sselect {", t)
		L2 := f.next()
		f.w("%scase ch <- mark(%d) + mark(%d):", t, g.id("selectcase", L2), g.id("selectcase_2nd", L2))
		g.block(d+1, depth-1, 1)
		L3 := f.next()
		f.w("%scase v := <-chv(mark(%d)):", t, g.id("selectrecv", L3))
		f.w("%s\t_ = v", t)
		f.w("%sdefault:", t)
		f.w("%s}", t)
	case 40: // defer / go with several argument calls
		if g.r.Bool() {
			f.w("%sdefer use(mark(%d), mark(%d))", t, g.id("defer", L), g.id("defer_2nd", L))
		} else {
			f.w("%sgo use(mark(%d), mark(%d))", t, g.id("go", L), g.id("go_2nd", L))
		}
	case 41: // lambda bodies
		switch g.r.Intn(3) {
		case 0:
			f.w("%s_ = apply(x => mark(%d) + mark(%d) + x)", t, g.id("lambda", L), g.id("lambda_2nd", L))
		case 1:
			f.w("%s_ = apply(x => {", t)
			L2 := f.next()
			f.w("%s\treturn mark(%d) + x", t, g.id("lambda_block_return", L2))
			f.w("%s})", t)
		default:
			f.w("%srun(() => {", t)
			g.block(d+1, depth-1, 1)
			f.w("%s})", t)
		}
	case 42: // composite literal elements on one line
		switch g.r.Intn(3) {
		case 0:
			f.w("%s_ = []int{mark(%d), mark(%d)}", t, g.id("slicelit", L), g.id("slicelit_2nd", L))
		case 1:
			f.w("%s_ = {\"a\": mark(%d), \"b\": mark(%d)}", t, g.id("maplit", L), g.id("maplit_2nd", L))
		default:
			f.w("%s_ = [mark(%d), mark(%d)]", t, g.id("xgoslicelit", L), g.id("xgoslicelit_2nd", L))
		}
	case 43: // return of several values
		v := g.v()
		f.w("%s%s := func() (int, int) {", t, v)
		L2 := f.next()
		f.w("%s\treturn mark(%d), mark(%d)", t, g.id("return", L2), g.id("return_2nd", L2))
		f.w("%s}", t)
		f.w("%s_, _ = %s()", t, v)
	case 44: // string interpolation, command call with several arguments
		if g.r.Bool() {
			f.w("%secho \"${mark(%d)} and ${mark(%d)}\"", t, g.id("interp", L), g.id("interp_2nd", L))
		} else {
			f.w("%sprintln mark(%d), mark(%d)", t, g.id("command", L), g.id("command_2nd", L))
		}
	case 45: // assignment forms with calls on both sides
		switch g.r.Intn(3) {
		case 0:
			f.w("%sarr[mark(%d)%%2] += mark(%d)", t, g.id("assignop_index", L), g.id("assignop_index_2nd", L))
		case 1:
			f.w("%sarr[mark(%d)%%2], tot = mark(%d), 3", t, g.id("assign_tuple", L), g.id("assign_tuple_2nd", L))
		default:
			f.w("%sch <- mark(%d) + mark(%d)", t, g.id("send", L), g.id("send_2nd", L))
		}
	case 46: // range with calls in key position target and operand; range over integer
		f.w("%sfor k := range mk(mark(%d)) {", t, g.id("range_key", L))
		f.w("%s\t_ = k", t)
		g.block(d+1, depth-1, 1)
		f.w("%s}", t)
	case 47: // type switch with init
		v := g.v()
		f.w("%sswitch y := mark(%d); %s := any(mark(%d) + y).(type) {", t, g.id("typeswitch_init", L), v, g.id("typeswitch_init_2nd", L))
		f.w("%scase int:\n%s\t_ = %s", t, t, v)
		g.block(d+1, depth-1, 1)
		f.w("%sdefault:\n%s\t_ = %s", t, t, v)
		f.w("%s}", t)
	case 48: // nested calls and method calls
		f.w("%s_ = use(use(mark(%d), 1), (&T0{}).id(mark(%d)))", t, g.id("nested_call", L), g.id("nested_call_2nd", L))
	case 49: // conditional expression pieces: && / || (short circuit)
		f.w("%s_ = mark(%d) > 0 && mark(%d) > 0 || mark(%d) > 0", t, g.id("andor", L), g.id("andor_2nd", L), g.id("andor_3rd", L))
	case 50: // error-wrap forms
		switch g.r.Intn(2) {
		case 0:
			f.w("%s_ = must(mark(%d))?:mark(%d)", t, g.id("errwrap_default", L), g.id("errwrap_default_2nd", L))
		default:
			f.w("%s_ = use(must(mark(%d))!, must(mark(%d))!)", t, g.id("errwrap", L), g.id("errwrap_2nd", L))
		}
	default: // index / slice expressions
		f.w("%s_ = mk(mark(%d))[mark(%d)-%d:]", t, g.id("slice_expr", L), g.id("slice_expr_2nd", L), g.nid)
	}
}

const prelude = `import (
	"runtime"
	"strings"
)

func mark(id int) int {
	pc, file, line, _ := runtime.Caller(1)
	fn := runtime.FuncForPC(pc)
	ef, el := fn.FileLine(fn.Entry())
	println "PROBE", id, file, line, ef, el, fn.Name()
	return id
}

func use(a, b int) int {
	return a + b
}

func mk(a int) []int {
	return [a]
}

func apply(f func(int) int) int {
	return f(1)
}

func run(f func()) {
	f()
}

func must(a int) (int, error) {
	return a, nil
}

func chv(a int) chan int {
	c := make(chan int, 1)
	c <- a
	return c
}

type T0 struct {
	z int
}

type E2 struct {
	e2 int
}

// embedded fields of every form, a tag
type E1 struct {
	T0
	*E2
	strings.Builder
	*strings.Reader
	tagged int ` + "`" + `json:"t"` + "`" + `
}

func (p *T0) id(a int) int {
	return a
}

var (
	tot int
	arr [2]int
	ch  = make(chan int, 100000)
)
`

// genProgram: main.xgo (prelude, functions, methods, top-level statements) + optionally a class file.
func genProgram(r *vh.Rand, idx int) *progGen {
	g := &progGen{r: r, stats: map[string]int{}}
	cfg := configs[r.Intn(len(configs))]
	if r.Chance(35) {
		cfg = configs[0]
	}
	g.dir, g.relBase, g.cfgKind = cfg[0], cfg[1], cfg[2]
	mainName := []string{"main.xgo", "prog_1.xgo", "a.b.xgo", "m.gop"}[r.Intn(4)]
	main := &srcFile{name: mainName}
	g.files = append(g.files, main)
	g.cur = main
	if r.Bool() {
		main.w("// Program %d generated for C09.\n", idx)
	}
	main.w("%s", prelude)
	var calls []string
	nf := 1 + r.Intn(3)
	for i := 0; i < nf; i++ {
		name := fmt.Sprintf("f%d", i)
		doc := 0
		if r.Chance(60) {
			doc = 1 + r.Intn(3)
			if r.Chance(30) { // block-style doc comment
				doc = -1
				if r.Bool() {
					main.w("/* %s block doc */", name)
				} else {
					main.w("/* %s block doc\n   more */", name)
				}
			} else {
				for j := 0; j < doc; j++ {
					main.w("// %s doc line %d", name, j)
				}
			}
		}
		L := main.next()
		g.fn = name
		g.funcs = append(g.funcs, fnInfo{Name: name, File: mainName, Line: L, Doc: doc})
		if r.Bool() {
			main.w("func %s(a int) int {", name)
		} else {
			main.w("func %s(\n\ta int,\n) int {", name) // signature spanning lines
		}
		g.block(1, 2, 2+r.Intn(4))
		Lr := main.next()
		main.w("\treturn mark(%d)", g.id("return", Lr))
		main.w("}\n")
		calls = append(calls, fmt.Sprintf("%s(1)", name))
	}
	// a type with methods
	if r.Chance(70) {
		main.w("type T struct {\n\tx int\n}\n")
		for i := 0; i < 1+r.Intn(2); i++ {
			name := fmt.Sprintf("m%d", i)
			doc := 0
			if r.Bool() {
				doc = 1
				main.w("// %s is a method", name)
			}
			L := main.next()
			g.fn = "T." + name
			g.funcs = append(g.funcs, fnInfo{Name: "T." + name, File: mainName, Line: L, Doc: doc})
			main.w("func (p *T) %s() int {", name)
			g.block(1, 1, 1+r.Intn(3))
			main.w("\treturn p.x\n}\n")
			calls = append(calls, fmt.Sprintf("(&T{}).%s()", name))
		}
	}
	// a normal class file
	if r.Chance(50) {
		cf := &srcFile{name: []string{"Rect.gox", "Shape.gox"}[r.Intn(2)]}
		cls := strings.TrimSuffix(cf.name, ".gox")
		g.files = append(g.files, cf)
		g.cur = cf
		if r.Bool() {
			cf.w("// class file of %s\n", cls)
		}
		if r.Bool() {
			cf.w("var (\n\tT0\n\t*E2\n\tw, h int\n)\n") // class file with embedded fields
		} else {
			cf.w("var (\n\tw, h int\n)\n")
		}
		for i := 0; i < 1+r.Intn(2); i++ {
			name := fmt.Sprintf("area%d", i)
			doc := 0
			if r.Bool() {
				doc = 2
				cf.w("// %s computes\n// something", name)
			}
			L := cf.next()
			g.fn = cls + "." + name
			g.funcs = append(g.funcs, fnInfo{Name: cls + "." + name, File: cf.name, Line: L, Doc: doc})
			cf.w("func %s() int {", name)
			g.block(1, 1, 1+r.Intn(3))
			cf.w("\treturn w * h\n}\n")
			calls = append(calls, fmt.Sprintf("(&%s{}).%s()", cls, name))
		}
		g.cur = main
	}
	// a class file that consists of statements only: its first statement is at BYTE 0 of the file
	if r.Chance(40) {
		cf := &srcFile{name: []string{"Only.gox", "Zz.gox", "Aa.gox"}[r.Intn(3)]}
		cls := strings.TrimSuffix(cf.name, ".gox")
		g.files = append(g.files, cf)
		g.cur = cf
		g.fn = cls + ".Main"
		g.funcs = append(g.funcs, fnInfo{Name: cls + ".Main", File: cf.name, Line: 1})
		cf.w("mark(%d)", g.id("script_first_byte", 1))
		g.block(0, 1, 1+r.Intn(3))
		g.cur = main
		calls = append(calls, fmt.Sprintf("!(&%s{}).Main()", cls)) // no result
		g.stats["file_script_class"]++
	}
	// files without any declaration
	if r.Chance(25) {
		g.files = append(g.files, &srcFile{name: "empty.xgo"})
		g.stats["file_empty"]++
	}
	if r.Chance(25) {
		cf := &srcFile{name: "doc_only.xgo"}
		cf.w("// Only a comment.\n\n/* and a\n   block comment */")
		g.files = append(g.files, cf)
		g.stats["file_comment_only"]++
	}
	// top-level statements = body of the shadow entry main
	g.fn = ""
	g.funcs = append(g.funcs, fnInfo{Name: "main", File: mainName, Line: main.next()})
	L := main.next()
	main.w("mark(%d)", g.id("expr", L))
	for _, c := range calls {
		g.noise(0)
		if strings.HasPrefix(c, "!") {
			main.w("%s", c[1:])
		} else {
			main.w("_ = %s", c)
		}
	}
	g.block(0, 2, 2+r.Intn(4))
	return g
}
