// Correspondence + oracle harness for C09 (line directives map statements back to XGo lines).
//
//	(i)   posfor cases: every generated Go file (and mutated copies with malformed directives) is
//	      handed line by line to the Lean model `posFor`; the implementation column is the position
//	      table go/scanner + go/token build for the same bytes.
//	(ii)  static oracle: in the generated Go file every probe call `mark(<id>)` — the first call of
//	      its statement — must have the (file, line) of the statement in the XGo source; every
//	      declared function's `func` keyword must have the line of the XGo declaration.
//	(iii) runtime oracle (the property's observation point): the built programs print
//	      runtime.Caller(1) and the enclosing function's entry line for every executed probe.
package main

import (
	"bytes"
	"fmt"
	goast "go/ast"
	goparser "go/parser"
	goscanner "go/scanner"
	gotoken "go/token"
	"io"
	"os"
	"os/exec"
	"path/filepath"
	"regexp"
	"strconv"
	"strings"
	"sync"
	"time"

	"github.com/goplus/gogen/packages"
	"github.com/goplus/xgo/cl"
	"github.com/goplus/xgo/parser"
	"github.com/goplus/xgo/parser/fsx/memfs"
	"github.com/goplus/xgo/token"
	"github.com/goplus/xgo/x/build"
	"verifharness/vh"
)

func repo() string {
	if r := os.Getenv("VERIF_REPO"); r != "" {
		return r
	}
	return "/repo"
}

var (
	impOnce sync.Once
	impFset *token.FileSet
	imp     *packages.Importer
)

// expCache: export data of the few packages generated programs import, from ONE `go list` call.
type expCache struct{ m map[string]string }

func (c *expCache) Find(dir, pkgPath string) (io.ReadCloser, error) {
	f, ok := c.m[pkgPath]
	if !ok {
		cmd := exec.Command("go", "list", "-export", "-f", "{{.Export}}", pkgPath)
		cmd.Dir = repo()
		out, err := cmd.Output()
		if err != nil {
			return nil, fmt.Errorf("go list -export %s: %v", pkgPath, err)
		}
		f = strings.TrimSpace(string(out))
		c.m[pkgPath] = f
	}
	if f == "" {
		return nil, fmt.Errorf("no export data for %s", pkgPath)
	}
	return os.Open(f)
}

func setup() {
	impOnce.Do(func() {
		impFset = token.NewFileSet()
		imp = packages.NewImporter(impFset)
		c := &expCache{m: map[string]string{}}
		cmd := exec.Command("go", "list", "-export", "-deps", "-f", "{{.ImportPath}}\t{{.Export}}", "fmt", "runtime", "strings", "math", "errors",
			"github.com/qiniu/x/stringutil", "github.com/qiniu/x/stringslice", "github.com/qiniu/x/errors", "github.com/qiniu/x/xgo/ng", "github.com/qiniu/x/xgo", "github.com/qiniu/x/osx")
		cmd.Dir = repo()
		out, _ := cmd.Output()
		for _, l := range strings.Split(string(out), "\n") {
			if f := strings.SplitN(l, "\t", 2); len(f) == 2 && f[1] != "" {
				c.m[f[0]] = f[1]
			}
		}
		imp.SetCache(c)
	})
}

// compile the package with file-line output ON. comments=true: parser.ParseComments (what the
// xgo tool does); false: x/build's mode.
func compile(g *progGen, comments bool) (out string, err error) {
	defer func() {
		if r := recover(); r != nil {
			err = fmt.Errorf("PANIC: %v", r)
		}
	}()
	setup()
	fmap := map[string]string{}
	var names []string
	for _, f := range g.files {
		text := strings.Join(f.lines, "\n") + "\n"
		if len(f.lines) == 0 {
			text = ""
		}
		fmap[g.dir+"/"+f.name] = text
		names = append(names, f.name)
	}
	mfs := memfs.New(map[string][]string{g.dir: names}, fmap)
	var mode parser.Mode
	if comments {
		mode = parser.ParseComments
	}
	pkgs, err := parser.ParseFSDir(impFset, mfs, g.dir, parser.Config{ClassKind: build.ClassKind, Mode: mode})
	if err != nil {
		return "", fmt.Errorf("parse: %v", err)
	}
	conf := &cl.Config{Fset: impFset, Importer: imp, RelativeBase: g.relBase, NoFileLine: false,
		LookupClass: func(ext string) (*cl.Project, bool) { return nil, false }}
	p, err := cl.NewPackage("", pkgs["main"], conf)
	if err != nil {
		return "", err
	}
	var b strings.Builder
	if err := p.WriteTo(&b); err != nil {
		return "", err
	}
	return b.String(), nil
}

// ---- (i) the directive model vs go/scanner ---------------------------------------------------

// inTokFlags: for every physical line, whether its first byte lies inside a multi-line token.
func inTokFlags(src []byte) (string, bool) {
	fset := gotoken.NewFileSet()
	file := fset.AddFile("out.go", -1, len(src))
	var s goscanner.Scanner
	s.Init(file, src, func(gotoken.Position, string) {}, goscanner.ScanComments)
	nlines := bytes.Count(src, []byte("\n"))
	if len(src) > 0 && src[len(src)-1] != '\n' {
		nlines++
	}
	flags := bytes.Repeat([]byte("0"), nlines)
	blockDirective := false
	lineOf := func(off int) int { return bytes.Count(src[:off], []byte("\n")) } // 0-based
	for {
		pos, tok, lit := s.Scan()
		if tok == gotoken.EOF {
			break
		}
		if (tok == gotoken.STRING || tok == gotoken.COMMENT) && strings.Contains(lit, "\n") {
			off := file.Offset(pos)
			l0 := lineOf(off)
			for i := 1; i <= strings.Count(lit, "\n"); i++ {
				if l0+i < nlines {
					flags[l0+i] = '1'
				}
			}
		}
		if tok == gotoken.COMMENT && strings.HasPrefix(lit, "/*line ") {
			blockDirective = true
		}
	}
	return string(flags), blockDirective
}

func splitLines(src []byte) [][]byte {
	ls := bytes.Split(src, []byte("\n"))
	if len(ls) > 0 && len(ls[len(ls)-1]) == 0 {
		ls = ls[:len(ls)-1]
	}
	return ls
}

// implPositions: go/scanner + go/token's view of every physical line.
func implPositions(src []byte) string {
	fset := gotoken.NewFileSet()
	file := fset.AddFile("out.go", -1, len(src))
	var s goscanner.Scanner
	s.Init(file, src, func(gotoken.Position, string) {}, goscanner.ScanComments)
	for {
		if _, tok, _ := s.Scan(); tok == gotoken.EOF {
			break
		}
	}
	n := len(splitLines(src))
	parts := make([]string, 0, n)
	off := 0
	lines := splitLines(src)
	for k := 0; k < n; k++ {
		p := fset.PositionFor(file.Pos(off), true)
		if p.Filename == "out.go" {
			parts = append(parts, "P:"+strconv.Itoa(p.Line))
		} else {
			parts = append(parts, vh.HexS(p.Filename)+":"+strconv.Itoa(p.Line))
		}
		off += len(lines[k]) + 1
		if off > len(src) {
			off = len(src)
		}
	}
	return strings.Join(parts, ",")
}

func posforCase(o *vh.Out, src []byte, nontrivial bool) {
	flags, blockDir := inTokFlags(src)
	if blockDir {
		o.Count("posfor_skipped_block_directive")
		return
	}
	ls := splitLines(src)
	if len(ls) != len(flags) {
		o.Count("posfor_skipped_line_count")
		return
	}
	hs := make([]string, len(ls))
	for i, l := range ls {
		hs[i] = vh.Hex(l)
	}
	o.Case("posfor\t"+strings.Join(hs, ",")+"\t"+flags, implPositions(src), nontrivial)
	o.Count("posfor_cases")
}

var dirRe = regexp.MustCompile(`(?m)^//line [^\n]*$`)

// mutate rewrites some directives into other (often malformed) shapes: the model must agree
// with go/scanner on those too.
func mutate(r *vh.Rand, src string) string {
	shapes := []string{
		"//line other.xgo:%d:1", "//line other.xgo:%d", "//line :%d:3", "//line :%d", "//line x.xgo:0:1", "//line x.xgo:%d:0",
		"//line x.xgo:1073741824:1", "//line x.xgo:1073741825:1", "//line x.xgo:99999999999999999999999", "//line x.xgo:%d:",
		"//line x.xgo:%dx", "//line x.xgo", "//line a:3:%d", "//line a:b:%d:2", " //line x.xgo:%d:1", "\t//line x.xgo:%d:1",
		"// line x.xgo:%d:1", "//line  y.xgo:%d:1", "//line x.xgo:%d:1 ", "//line x.xgo:+%d:1", "//line x.xgo:%d:1\r", "//line x.xgo: %d:1",
		"//line x.xgo:0%d:01", "//line C:dir/x.xgo:%d", "//linex.xgo:%d:1", "//line\tx.xgo:%d:1", "//line x.xgo:%d:1:1", "//line :0:0",
	}
	return dirRe.ReplaceAllStringFunc(src, func(m string) string {
		if !r.Chance(45) {
			return m
		}
		s := shapes[r.Intn(len(shapes))]
		if strings.Contains(s, "%d") {
			return fmt.Sprintf(s, 1+r.Intn(500))
		}
		return s
	})
}

// ---- (ii) static oracle ------------------------------------------------------------------

func staticOracle(o *vh.Out, g *progGen, mode string, out string, caseLine string) {
	fset := gotoken.NewFileSet()
	f, err := goparser.ParseFile(fset, "out.go", out, goparser.ParseComments)
	if err != nil {
		o.Oracle("output-unparseable", caseLine, err.Error())
		return
	}
	byID := map[int]probe{}
	for _, p := range g.probes {
		byID[p.ID] = p
	}
	seen := map[int]bool{}
	goast.Inspect(f, func(n goast.Node) bool {
		c, ok := n.(*goast.CallExpr)
		if !ok {
			return true
		}
		id, ok := c.Fun.(*goast.Ident)
		if !ok || id.Name != "mark" || len(c.Args) != 1 {
			return true
		}
		lit, ok := c.Args[0].(*goast.BasicLit)
		if !ok {
			return true
		}
		n1, _ := strconv.Atoi(lit.Value)
		p, ok := byID[n1]
		if !ok {
			return true
		}
		seen[n1] = true
		pos := fset.Position(c.Pos())
		o.Count("static_probes")
		if want := filepath.Clean(g.directiveName(p.File)); pos.Filename != want {
			o.Oracle("stmt-file:"+g.cfgKind+":"+mode, caseLine,
				fmt.Sprintf("probe %d (%s) written in %s/%s with RelativeBase %q: expected directive file %s, generated Go names %s", p.ID, p.Kind, g.dir, p.File, g.relBase, want, pos.Filename))
		} else if pos.Line != p.Line {
			o.Count("static_mismatch_" + p.Kind)
			o.Oracle("stmt-line:"+p.Kind+":"+mode, caseLine,
				fmt.Sprintf("probe %d (%s) written at %s:%d, generated Go maps it to %s:%d", p.ID, p.Kind, p.File, p.Line, pos.Filename, pos.Line))
		}
		return true
	})
	for _, p := range g.probes {
		if !seen[p.ID] {
			o.Count("static_probe_not_found")
		}
	}
	// declared functions: the `func` keyword
	fns := map[string]fnInfo{}
	for _, fi := range g.funcs {
		fns[fi.Name] = fi
	}
	for _, d := range f.Decls {
		fd, ok := d.(*goast.FuncDecl)
		if !ok {
			continue
		}
		name := fd.Name.Name
		if fd.Recv != nil && len(fd.Recv.List) == 1 {
			t := fd.Recv.List[0].Type
			if st, ok := t.(*goast.StarExpr); ok {
				t = st.X
			}
			if id, ok := t.(*goast.Ident); ok {
				name = id.Name + "." + name
			}
		}
		fi, ok := fns[name]
		if !ok {
			continue
		}
		pos := fset.Position(fd.Pos())
		o.Count("static_funcs")
		if want := filepath.Clean(g.directiveName(fi.File)); pos.Filename != want {
			o.Oracle("func-file:"+g.cfgKind+":"+mode, caseLine,
				fmt.Sprintf("func %s written in %s/%s with RelativeBase %q: expected directive file %s, generated Go names %s", name, g.dir, fi.File, g.relBase, want, pos.Filename))
		} else if pos.Line != fi.Line {
			kind := "func"
			if fi.Doc > 0 {
				kind = "func-with-doc"
			} else if fi.Doc < 0 {
				kind = "func-with-blockdoc"
			}
			if name == "main" {
				kind = "shadow-main"
			}
			o.Oracle("func-line:"+kind+":"+mode, caseLine,
				fmt.Sprintf("func %s written at %s:%d (doc lines %d), generated Go maps the func keyword to %s:%d", name, fi.File, fi.Line, fi.Doc, pos.Filename, pos.Line))
		}
	}
}

// ---- (iii) runtime oracle ------------------------------------------------------------------

type built struct {
	g    *progGen
	mode string
	out  string
	line string
	dir  string // directory of the generated main.go (relative //line names are relative to it)
}

// runtimeFile: the file name the built program reports for a //line name (cmd/compile keeps a
// relative name of a line directive as written).
func (b built) runtimeFile(src string) string {
	return filepath.Clean(b.g.directiveName(src))
}

func runBatch(dir string, progs []built, timeout time.Duration) ([]string, error) {
	os.MkdirAll(dir, 0o755)
	gomod := fmt.Sprintf("module verifprog\n\ngo 1.18\n\nrequire github.com/goplus/xgo v0.0.0\n\nreplace github.com/goplus/xgo => %s\n", repo())
	os.WriteFile(filepath.Join(dir, "go.mod"), []byte(gomod), 0o644)
	sum, _ := os.ReadFile(filepath.Join(repo(), "go.sum"))
	os.WriteFile(filepath.Join(dir, "go.sum"), sum, 0o644)
	for i := range progs {
		progs[i].dir = filepath.Join(dir, fmt.Sprintf("p%03d", i))
	}
	for i, p := range progs {
		d := filepath.Join(dir, fmt.Sprintf("p%03d", i))
		os.MkdirAll(d, 0o755)
		os.WriteFile(filepath.Join(d, "main.go"), []byte(p.out), 0o644)
	}
	bin := filepath.Join(dir, "bin")
	os.MkdirAll(bin, 0o755)
	env := append(os.Environ(), "GOFLAGS=-mod=mod", "GOPROXY=off", "GOSUMDB=off", "GOTOOLCHAIN=local", "CGO_ENABLED=0")
	// -l: no inlining in the generated main packages, so that runtime.FuncForPC names the function
	// the probe is written in (std and dependencies are not rebuilt)
	cmd := exec.Command("go", "build", "-gcflags=-l", "-o", bin+"/", "./...")
	cmd.Dir, cmd.Env = dir, env
	if out, err := cmd.CombinedOutput(); err != nil {
		return nil, fmt.Errorf("go build: %v\n%s", err, out)
	}
	res := make([]string, len(progs))
	var wg sync.WaitGroup
	sem := make(chan struct{}, 8)
	for i := range progs {
		wg.Add(1)
		go func(i int) {
			defer wg.Done()
			sem <- struct{}{}
			defer func() { <-sem }()
			c := exec.Command(filepath.Join(bin, fmt.Sprintf("p%03d", i)))
			var so bytes.Buffer
			c.Stdout = &so
			done := make(chan error, 1)
			c.Start()
			go func() { done <- c.Wait() }()
			select {
			case <-done:
			case <-time.After(timeout):
				c.Process.Kill()
			}
			res[i] = so.String()
		}(i)
	}
	wg.Wait()
	return res, nil
}

func runtimeOracle(o *vh.Out, b built, stdout string) {
	byID := map[int]probe{}
	for _, p := range b.g.probes {
		byID[p.ID] = p
	}
	fns := map[string]fnInfo{}
	for _, fi := range b.g.funcs {
		fns[fi.Name] = fi
	}
	seen := map[int]bool{}
	for _, line := range strings.Split(stdout, "\n") {
		fs := strings.Fields(line)
		if len(fs) != 7 || fs[0] != "PROBE" {
			continue
		}
		id, _ := strconv.Atoi(fs[1])
		p, ok := byID[id]
		if !ok || seen[id] {
			continue
		}
		seen[id] = true
		o.Count("runtime_probes")
		file, ln := fs[2], fs[3]
		if want := b.runtimeFile(p.File); file != want {
			o.Oracle("stmt-file:"+b.g.cfgKind+":"+b.mode, b.line,
				fmt.Sprintf("runtime.Caller: probe %d (%s) written in %s/%s (RelativeBase %q) reported in file %s, expected %s", p.ID, p.Kind, b.g.dir, p.File, b.g.relBase, file, want))
		} else if ln != strconv.Itoa(p.Line) {
			o.Oracle("stmt-line:"+p.Kind+":"+b.mode, b.line,
				fmt.Sprintf("runtime.Caller: probe %d (%s) written at %s:%d reported at %s:%s", p.ID, p.Kind, p.File, p.Line, file, ln))
		}
		// function entry: only when the probe runs in the declared function itself (not in a closure)
		name := strings.TrimPrefix(fs[6], "main.")
		name = strings.NewReplacer("(*", "", ")", "").Replace(name)
		if fi, ok := fns[name]; ok {
			o.Count("runtime_entries")
			ef, el := fs[4], fs[5]
			if want := b.runtimeFile(fi.File); ef != want {
				o.Oracle("func-file:"+b.g.cfgKind+":"+b.mode, b.line,
					fmt.Sprintf("runtime entry of %s written in %s/%s (RelativeBase %q) reported in file %s, expected %s", name, b.g.dir, fi.File, b.g.relBase, ef, want))
			} else if el != strconv.Itoa(fi.Line) {
				kind := "func"
				if fi.Doc > 0 {
					kind = "func-with-doc"
				} else if fi.Doc < 0 {
					kind = "func-with-blockdoc"
				}
				if name == "main" {
					kind = "shadow-main"
				}
				o.Oracle("func-line:"+kind+":"+b.mode, b.line,
					fmt.Sprintf("runtime entry of %s written at %s:%d (doc lines %d) reported at %s:%s", name, fi.File, fi.Line, fi.Doc, ef, el))
			}
		}
	}
	for _, p := range b.g.probes {
		if !seen[p.ID] {
			o.Count("runtime_probe_not_executed")
		}
	}
}

func main() {
	f := vh.ParseFlags()
	if v := os.Getenv("C09_ONLY"); v != "" {
		forceKind, _ = strconv.Atoi(v)
	}
	os.MkdirAll(f.Out, 0o755)
	abs, _ := filepath.Abs(f.Out)
	o := vh.NewOut(f.Out)
	defer o.Close()
	os.Chdir(repo())
	if f.Replay != "" {
		// "prog <seed> <index> <mode>" regenerates one program; "posfor …" lines are pure model inputs
		fs := strings.Fields(strings.ReplaceAll(f.Replay, "\t", " "))
		if len(fs) == 4 && fs[0] == "prog" {
			seed, _ := strconv.ParseUint(fs[1], 10, 64)
			idx, _ := strconv.Atoi(fs[2])
			g := genProgram(vh.NewRand(seed).Fork(idx), idx)
			out, err := compile(g, fs[3] == "comments")
			line := fmt.Sprintf("prog\t%d\t%d\t%s", seed, idx, fs[3])
			if err != nil {
				fmt.Println("compile error:", err)
				for _, sf := range g.files {
					fmt.Printf("--- %s\n", sf.name)
					for i, l := range sf.lines {
						fmt.Printf("%4d  %s\n", i+1, l)
					}
				}
				return
			}
			for _, sf := range g.files {
				fmt.Printf("--- %s\n", sf.name)
				for i, l := range sf.lines {
					fmt.Printf("%4d  %s\n", i+1, l)
				}
			}
			fmt.Println("--- generated Go\n" + out)
			staticOracle(o, g, fs[3], out, line)
			bs := []built{{g: g, mode: fs[3], out: out, line: line}}
			res, err := runBatch(filepath.Join(abs, "build"), bs, 20*time.Second)
			if err == nil {
				runtimeOracle(o, bs[0], res[0])
			} else {
				fmt.Println(err)
			}
			os.RemoveAll(filepath.Join(abs, "build"))
		}
		return
	}
	r := vh.NewRand(f.Seed)
	var progs []built
	nRun := 6
	if f.Tier == "thorough" {
		nRun = 60
	}
	for i := 0; i < f.N; i++ {
		g := genProgram(r.Fork(i), i)
		mode := "comments"
		if i%3 == 2 {
			mode = "nocomments"
		}
		line := fmt.Sprintf("prog\t%d\t%d\t%s", f.Seed, i, mode)
		out, err := compile(g, mode == "comments")
		if err != nil {
			o.Count("compile_error")
			if os.Getenv("C09_DEBUG") != "" {
				fmt.Fprintf(os.Stderr, "prog %d: %v\n", i, err)
			}
			continue
		}
		o.Count("programs_" + mode)
		o.Count("config_" + g.cfgKind)
		o.Count(fmt.Sprintf("files_%d", len(g.files)))
		for k, v := range g.stats {
			o.Stats[k] += v
		}
		staticOracle(o, g, mode, out, line)
		posforCase(o, []byte(out), true)
		mr := r.Fork(i + 1000000)
		for k := 0; k < 2; k++ {
			posforCase(o, []byte(mutate(mr, out)), true)
		}
		if len(progs) < nRun {
			progs = append(progs, built{g: g, mode: mode, out: out, line: line})
		}
	}
	// hand-written directive corner cases for the model
	for _, s := range []string{
		"package p\n//line a.xgo:5:1\nvar x = `raw\n//line b.xgo:9:1\nstill raw`\nvar y = 1\n",
		"package p\n/* c\n//line a.xgo:5:1\n*/\nvar y = 1\n//line a.xgo:7\nvar z = 2\n",
		"//line a.xgo:1:1\npackage p\n\n\n//line :20:5\nvar y = 1\n//line :30\nvar z = 2\n",
		"package p\n//line a.xgo:5:1\r\nvar y = 1\r\n",
		"package p\nvar a = 1 //line a.xgo:5:1\nvar y = 1\n//line a.xgo:7:1",
	} {
		posforCase(o, []byte(s), true)
	}
	if len(progs) > 0 {
		res, err := runBatch(filepath.Join(abs, "build"), progs, 30*time.Second)
		if err != nil {
			// the generated Go does not build: a C06 matter, reported here as a broken run
			fmt.Fprintln(os.Stderr, err)
			o.Count("runtime_batch_build_failed")
			o.Oracle("generated-go-does-not-build", progs[0].line, firstLines(err.Error(), 12))
		} else {
			for i, b := range progs {
				runtimeOracle(o, b, res[i])
				o.Count("programs_run")
			}
		}
		os.RemoveAll(filepath.Join(abs, "build"))
	}
}

func firstLines(s string, n int) string {
	ls := strings.Split(s, "\n")
	if len(ls) > n {
		ls = ls[:n]
	}
	return strings.Join(ls, "\n")
}
