// Harness for C22 (printing a synthesized tree preserves its structure) and the
// model/implementation tie of M3 (lean/GopModel/Model/ExprSyntax.lean, driver drv_expr).
//
//	pp <tree>      synthesized tree -> real printer.Fprint -> real scanner -> real parser.ParseExpr
//	               impl line: hex(text)|tokens|tree-or-ERR ; oracle: reparsed tree == tree modulo ParenExpr
//	parse <toks>   arbitrary token list -> real parser.ParseExpr on the spaced-out text
//	glue <a>;<b>   two tokens printed adjacently -> real scanner
package main

import (
	"bytes"
	"fmt"
	"reflect"
	"strings"

	"github.com/goplus/xgo/ast"
	"github.com/goplus/xgo/parser"
	"github.com/goplus/xgo/printer"
	"github.com/goplus/xgo/token"
	"verifharness/exprx"
	"verifharness/vh"
)

func realPrint(e ast.Expr) (s string) {
	defer func() {
		if r := recover(); r != nil {
			s = fmt.Sprint("PANIC ", r)
		}
	}()
	var b bytes.Buffer
	if err := printer.Fprint(&b, token.NewFileSet(), e); err != nil {
		return "PRINTERR " + err.Error()
	}
	return b.String()
}

func realParse(src string) (e ast.Expr, res string) {
	defer func() {
		if r := recover(); r != nil {
			e, res = nil, "PANIC"
		}
	}()
	x, err := parser.ParseExpr(src)
	if err != nil {
		return x, "ERR"
	}
	return x, exprx.Ser(x)
}

func hasParen(e ast.Expr) bool { return strings.Contains(exprx.Ser(e), "P(") }

func kind(e ast.Expr) string {
	if e == nil || reflect.ValueOf(e).IsNil() {
		return "nil"
	}
	return strings.TrimPrefix(fmt.Sprintf("%T", e), "*ast.")
}

func children(e ast.Expr) []ast.Expr {
	var l []ast.Expr
	add := func(xs ...ast.Expr) {
		for _, x := range xs {
			if x != nil && !reflect.ValueOf(x).IsNil() {
				l = append(l, x)
			}
		}
	}
	switch x := e.(type) {
	case *ast.BinaryExpr:
		add(x.X, x.Y)
	case *ast.UnaryExpr:
		add(x.X)
	case *ast.StarExpr:
		add(x.X)
	case *ast.ParenExpr:
		add(x.X)
	case *ast.SelectorExpr:
		add(x.X)
	case *ast.IndexExpr:
		add(x.X, x.Index)
	case *ast.SliceExpr:
		add(x.X, x.Low, x.High, x.Max)
	case *ast.CallExpr:
		add(x.Fun)
		add(x.Args...)
	case *ast.CompositeLit:
		add(x.Type)
		for _, el := range x.Elts {
			if kv, ok := el.(*ast.KeyValueExpr); ok {
				add(kv.Key, kv.Value)
			} else {
				add(el)
			}
		}
	case *ast.SliceLit:
		add(x.Elts...)
	case *ast.LambdaExpr:
		add(x.Rhs...)
	case *ast.ErrWrapExpr:
		add(x.X, x.Default)
	case *ast.TypeAssertExpr:
		add(x.X)
	}
	return l
}

// roundTrips: the C22 predicate on the implementation for a paren-free tree.
func roundTrips(e ast.Expr) bool {
	txt := realPrint(e)
	if strings.HasPrefix(txt, "PANIC") || strings.HasPrefix(txt, "PRINTERR") {
		return false
	}
	e2, res := realParse(txt)
	if res == "ERR" || res == "PANIC" {
		return false
	}
	return exprx.Ser(exprx.StripParens(e2)) == exprx.Ser(e)
}

func minimalFailing(e ast.Expr) ast.Expr {
	for _, c := range children(e) {
		if !roundTrips(c) {
			return minimalFailing(c)
		}
	}
	return e
}

// classify gives the stable key of a C22 failure: the shape of the smallest failing subtree.
func classify(e ast.Expr) string {
	m := minimalFailing(e)
	switch x := m.(type) {
	case *ast.SliceExpr:
		if (x.Low != nil && exprx.EndsBareErrWrap(x.Low)) || (x.Max != nil && x.High != nil && exprx.EndsBareErrWrap(x.High)) {
			return "errwrap-before-colon"
		}
	case *ast.CompositeLit:
		for _, el := range x.Elts {
			if kv, ok := el.(*ast.KeyValueExpr); ok {
				if exprx.EndsBareErrWrap(kv.Key) {
					return "errwrap-before-colon"
				}
				if exprx.EltBraceHazard(kv.Key) || exprx.EltBraceHazard(kv.Value) {
					return "composite-element-leading-brace"
				}
			} else if exprx.EltBraceHazard(el) {
				return "composite-element-leading-brace"
			}
		}
	case *ast.LambdaExpr:
		if !x.RhsHasParen && len(x.Rhs) == 1 && exprx.StartsParenOrBrace(x.Rhs[0]) {
			return "lambda-body-leading-paren"
		}
	}
	// kinds of the children as a sorted set (one defect, one key)
	set := map[string]bool{}
	for _, c := range children(m) {
		set[kind(c)] = true
	}
	var ks []string
	for k := range set {
		ks = append(ks, k)
	}
	sortStrings(ks)
	k := "roundtrip:" + kind(m) + "(" + strings.Join(ks, ",") + ")"
	if b, ok := m.(*ast.BinaryExpr); ok {
		k = "roundtrip:BinaryExpr:" + exprx.OpNames[b.Op]
	}
	if u, ok := m.(*ast.UnaryExpr); ok {
		k += ":" + exprx.OpNames[u.Op]
	}
	return k
}

func runPP(e ast.Expr, o *vh.Out, bucket string) {
	want := exprx.Ser(e)
	line := "pp\t" + want
	txt := realPrint(e)
	var impl string
	failed := false
	if strings.HasPrefix(txt, "PANIC") || strings.HasPrefix(txt, "PRINTERR") {
		impl = txt
		failed = true
	} else {
		toks, nerr := exprx.Scan(txt)
		e2, res := realParse(txt)
		impl = vh.HexS(txt) + "|" + exprx.SerToks(toks) + "|" + res
		if nerr > 0 {
			impl += "|SCANERR"
		}
		if res == "ERR" || res == "PANIC" || nerr > 0 {
			failed = true
			o.Count("reparse_" + strings.ToLower(res))
		} else if !hasParen(e) {
			failed = exprx.Ser(exprx.StripParens(e2)) != want
			if e2s := exprx.Ser(e2); e2s != want {
				o.Count("parens_inserted")
			}
		}
	}
	if !hasParen(e) {
		o.Count("oracle_evaluated")
		if failed {
			o.Oracle(classify(e), line, "printed="+txt)
		}
	}
	o.Count(bucket)
	o.Count("root_" + kind(e))
	o.Count(fmt.Sprintf("size_%02d", min(len(want)/40, 10)))
	o.Case(line, impl, len(want) > 12)
}

func runParse(toks string, o *vh.Out, bucket string) {
	txt, err := exprx.DeserToks(toks)
	if err != nil {
		return
	}
	ts, nerr := exprx.Scan(txt)
	if nerr > 0 {
		o.Count("parse_skipped_scanerr")
		return
	}
	ser := exprx.SerToks(ts)
	if strings.Contains(ser, "x:") {
		o.Count("parse_skipped_token")
		return
	}
	txt2, _ := exprx.DeserToks(ser)
	_, res := realParse(txt2)
	o.Count(bucket)
	if res == "ERR" || res == "PANIC" {
		o.Count("parse_" + strings.ToLower(res))
	} else {
		o.Count("parse_ok")
	}
	o.Case("parse\t"+ser, res, len(ts) > 2)
}

func runGlue(a, b string, o *vh.Out) {
	ta, err1 := exprx.TokText(a)
	tb, err2 := exprx.TokText(b)
	if err1 != nil || err2 != nil {
		return
	}
	ts, nerr := exprx.Scan(ta + tb)
	res := "glue"
	if nerr == 0 && len(ts) == 2 && exprx.SerTok(ts[0]) == a && exprx.SerTok(ts[1]) == b && ts[1].Off == len(ta) {
		res = "sep"
	}
	// an identifier directly followed by a raw string is a domain text literal for the parser
	if strings.HasPrefix(a, "i:") && strings.HasPrefix(b, "l:STRING:60") {
		res = "glue"
	}
	o.Count("glue_" + res)
	o.Case("glue\t"+a+";"+b, res, true)
}

func min(a, b int) int {
	if a < b {
		return a
	}
	return b
}

var exprCorpus = []string{
	"a", "a + b * c", "(a + b) * c", "-a!", "(-a)!", "a!.b?(c)", "a?:b", "a?:b + c", "a?:-b?:c", "(a?:b).c", "a!:b",
	"x => x + 1", "(x, y) => x * y", "() => 1", "=> a", "x => (a, b)", "x => y => z", "(x) => x", "f(x => x, y)", "(a, b)", "()", "(a, b) + 1",
	"a[1]", "a[1:2]", "a[:]", "a[1:2:3]", "a[::]", "a[1::3]", "a[:2:]", "a[b?:c]", "a[(b?):c]", "a[]", "a[1,2]",
	"f()", "f(a,)", "f(a, b...)", "f(a..., )", "f(a..., b)", "f(,)", "f(a b)",
	"T{}", "T{a, b}", "T{a: 1, b: 2,}", "{1, 2}", "{a: {1}, b: {}}", "a.b{c}", "a[b]{c}", "(T){}", "f(){1}", "T{x => y}", "T{k: x => y}",
	"[1, 2]", "[a, b][0]", "[a, b,]", "[]", "[a]", "[a].b",
	"$a", "${a}", "$", "1m", "1.5s + 2", "a.(T)", "a.(type)", "a.(p.T)", "a.", "a.1",
	"*p", "**p", "*a + b", "*(a + b)", "&a", "&^a", "& ^a", "<-c", "<-<-c", "- -a", "--a", "a - -b", "a--b", "a / *p", "a/*p", "a & &b", "a && b", "a &^ b", "a & ^b",
	"a = b", "a == b", "a -> b", "a <> b", "a < -b", "a <- b", "a << b", "a < <-b", "!a!", "a!!", "a ! b", "a != b", "a? b", "a ?: b",
	"1 .x", "1.x", "1..x", "a +", "+", "", "a b", "a, b", "(a", "a)", "a ? : b", "a?:", "a => ", "a + b => c", "1 => x", "a.b => c",
	"f(a)(b)[c].d!?", "a || b && c == d + e * f", "a * b + c == d && e || f", "a << b >> c &^ d", "a + (b)", "((a))", "-(a + b)", "(a)!", "a.b.c.d",
	"c\"x\"", "py\"x\"", "`raw`", "'c'", "0x1p-2", "1e9", "1r", "2i", "a + 1r", "x ? y : z",
	"func() {}", "map[a]b{}", "[]int{1}", "struct{}{}", "[...]int{}", "tpl`a`", "a `b`", "[x for x in y]", "{for x in y}",
}

func main() {
	f := vh.ParseFlags()
	o := vh.NewOut(f.Out)
	defer o.Close()
	if f.Replay != "" {
		fs := strings.SplitN(f.Replay, "\t", 2)
		if len(fs) != 2 {
			return
		}
		switch fs[0] {
		case "pp":
			e, err := exprx.Deser(fs[1])
			if err != nil {
				fmt.Println("replay:", err)
				return
			}
			runPP(e, o, "replay")
			fmt.Printf("printed: %q\n", realPrint(e))
		case "stmt":
			var sd uint64
			var i int
			if _, err := fmt.Sscanf(fs[1], "%d,%d", &sd, &i); err == nil {
				runStmt(sd, i, o)
			}
		case "parse":
			runParse(fs[1], o, "replay")
		case "glue":
			ab := strings.SplitN(fs[1], ";", 2)
			if len(ab) == 2 {
				runGlue(ab[0], ab[1], o)
			}
		}
		return
	}
	thorough := f.Tier == "thorough"

	// 1. exhaustive small scope: all unary/binary/postfix combinations over two leaves, in normal
	// mode and in compact mode (second argument of a call)
	a, b, p1 := exprx.Id("a"), exprx.Id("b"), &ast.BasicLit{Kind: token.INT, Value: "1"}
	var level1 []ast.Expr
	leaves := []ast.Expr{a, p1}
	if thorough {
		leaves = append(leaves, &ast.BasicLit{Kind: token.FLOAT, Value: ".5"}, &ast.BasicLit{Kind: token.RAT, Value: "1r"})
	}
	level1 = append(level1, leaves...)
	for _, l := range leaves {
		for _, op := range exprx.UnOps {
			level1 = append(level1, &ast.UnaryExpr{Op: op, X: l})
		}
		level1 = append(level1, &ast.StarExpr{X: l},
			&ast.ErrWrapExpr{X: l, Tok: token.NOT}, &ast.ErrWrapExpr{X: l, Tok: token.QUESTION},
			&ast.ErrWrapExpr{X: l, Tok: token.QUESTION, Default: b},
			&ast.SelectorExpr{X: l, Sel: b}, &ast.CallExpr{Fun: l}, &ast.IndexExpr{X: l, Index: b},
			&ast.LambdaExpr{Lhs: []*ast.Ident{b}, Rhs: []ast.Expr{l}})
	}
	compact := func(e ast.Expr) ast.Expr { return &ast.CallExpr{Fun: exprx.Id("f"), Args: []ast.Expr{b, e}} }
	for _, op := range exprx.BinOps {
		for _, x := range level1 {
			for _, y := range level1 {
				e := &ast.BinaryExpr{X: x, Op: op, Y: y}
				runPP(e, o, "exh_binary")
				runPP(compact(e), o, "exh_binary_compact")
			}
		}
	}
	for _, x := range level1 {
		for _, op := range exprx.UnOps {
			runPP(&ast.UnaryExpr{Op: op, X: x}, o, "exh_unary")
		}
		runPP(&ast.StarExpr{X: x}, o, "exh_unary")
		runPP(&ast.ErrWrapExpr{X: x, Tok: token.NOT}, o, "exh_postfix")
		runPP(&ast.ErrWrapExpr{X: b, Tok: token.QUESTION, Default: x}, o, "exh_postfix")
		runPP(&ast.ErrWrapExpr{X: x, Tok: token.QUESTION, Default: x}, o, "exh_postfix")
		runPP(&ast.SelectorExpr{X: x, Sel: b}, o, "exh_postfix")
		runPP(&ast.CallExpr{Fun: x, Args: []ast.Expr{x}}, o, "exh_postfix")
		runPP(&ast.CallExpr{Fun: b, Args: []ast.Expr{x}, Ellipsis: 1}, o, "exh_postfix")
		runPP(&ast.IndexExpr{X: x, Index: x}, o, "exh_postfix")
		runPP(&ast.SliceExpr{X: x, Low: b, High: x}, o, "exh_postfix")
		runPP(&ast.LambdaExpr{Lhs: []*ast.Ident{b}, Rhs: []ast.Expr{x}}, o, "exh_postfix")
	}
	// three-operator chains: every pair of binary operators in both association orders
	for _, op1 := range exprx.BinOps {
		for _, op2 := range exprx.BinOps {
			runPP(&ast.BinaryExpr{X: &ast.BinaryExpr{X: a, Op: op1, Y: b}, Op: op2, Y: p1}, o, "exh_chain")
			runPP(&ast.BinaryExpr{X: a, Op: op1, Y: &ast.BinaryExpr{X: b, Op: op2, Y: p1}}, o, "exh_chain")
			if thorough {
				for _, op3 := range exprx.BinOps {
					runPP(compact(&ast.BinaryExpr{X: &ast.BinaryExpr{X: a, Op: op1, Y: &ast.UnaryExpr{Op: token.SUB, X: b}}, Op: op2,
						Y: &ast.BinaryExpr{X: &ast.StarExpr{X: a}, Op: op3, Y: p1}}), o, "exh_chain3")
				}
			}
		}
	}

	// 2. token pair table
	var toks []string
	for _, n := range exprx.OpNames {
		if n != "TILDE" { // '~' is in the token table but not scanned (C33); never printed in expressions
			toks = append(toks, "o:"+n)
		}
	}
	sortStrings(toks)
	words := []string{"i:" + vh.HexS("a"), "i:" + vh.HexS("c"), "l:INT:" + vh.HexS("1"), "l:FLOAT:" + vh.HexS("1.5"), "l:FLOAT:" + vh.HexS(".5"),
		"l:FLOAT:" + vh.HexS("1e9"), "l:IMAG:" + vh.HexS("2i"), "l:RAT:" + vh.HexS("1r"), "l:STRING:" + vh.HexS(`"s"`), "l:STRING:" + vh.HexS("`r`"),
		"l:CHAR:" + vh.HexS("'a'"), "l:CSTRING:" + vh.HexS(`"x"`), "l:INT:" + vh.HexS("0x1F")}
	for _, x := range toks {
		for _, y := range toks {
			runGlue(x, y, o)
		}
		for _, w := range words {
			runGlue(x, w, o)
			runGlue(w, x, o)
		}
	}

	// 3. parser tie on arbitrary token lists: corpus + token-level mutants of printed trees
	for _, s := range exprCorpus {
		ts, nerr := exprx.Scan(s)
		if nerr == 0 {
			runParse(exprx.SerToks(ts), o, "parse_corpus")
		}
	}

	// 3b. synthesized STATEMENT trees: every ast.Stmt kind, no positions -> real printer.Fprint ->
	// real parser.ParseFile -> structural compare (dropped empty statements ignored)
	for i := 0; i < f.N/4+200; i++ {
		runStmt(f.Seed, i, o)
	}

	// 4. random synthesized trees
	r := vh.NewRand(f.Seed)
	for i := 0; i < f.N; i++ {
		rr := r.Fork(i)
		g := &exprx.Gen{R: rr, Ext: i%4 != 0, Parens: i%5 == 4, Hazards: 3}
		e := g.Expr(1 + rr.Intn(4))
		bucket := "rand_core"
		if g.Ext {
			bucket = "rand_ext"
		}
		if g.Parens {
			bucket += "_parens"
		}
		runPP(e, o, bucket)
		if i%3 == 0 {
			txt := realPrint(e)
			ts, nerr := exprx.Scan(txt)
			if nerr == 0 && len(ts) > 0 && !strings.HasPrefix(txt, "PANIC") {
				ser := strings.Split(exprx.SerToks(ts), ",")
				k := rr.Intn(len(ser))
				switch rr.Intn(4) {
				case 0: // delete
					ser = append(ser[:k:k], ser[k+1:]...)
				case 1: // duplicate
					ser = append(ser[:k+1:k+1], ser[k:]...)
				case 2: // swap
					if k+1 < len(ser) {
						ser[k], ser[k+1] = ser[k+1], ser[k]
					}
				default: // replace
					ser[k] = toks[rr.Intn(len(toks))]
				}
				runParse(strings.Join(ser, ","), o, "parse_mutant")
			}
		}
	}
}

// runStmt: statement tree number i of the seed (case line `stmt <seed>,<i>`, replayable).
func runStmt(seed uint64, i int, o *vh.Out) {
	rr := vh.NewRand(seed).Fork(5000000 + i)
	fd := exprx.NewStmtGen(rr).FuncTree(1 + rr.Intn(3))
	text, key, detail, ok := exprx.StmtRoundTrip(fd)
	line := fmt.Sprintf("stmt\t%d,%d", seed, i)
	o.Count("stmt_trees")
	if !ok {
		o.Oracle(key, line, detail+" printed="+text)
		o.Case(line, "FAIL "+key, true)
	} else {
		o.Case(line, "ok", len(text) > 30)
	}
}

func sortStrings(s []string) {
	for i := 1; i < len(s); i++ {
		for j := i; j > 0 && s[j] < s[j-1]; j-- {
			s[j], s[j-1] = s[j-1], s[j]
		}
	}
}
