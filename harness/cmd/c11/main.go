// Differential + oracle harness for C11 (a normal .gox class file behaves like its explicit struct form).
//
// (a) type view: every generated class file is compiled by the real compiler (CompileDir of
//
//	{C*.gox, helpers.xgo, main.xgo}); the generated Go is type-checked with go/types and the view
//	of the class type (fields: name/type/embedded/tag; methods: receiver name/type/pointer;
//	package-level variables from later var blocks) is compared with the model's `genType`.
//
// (b) behaviour (property oracle): the same program written with explicit structs and
//
//	`func (this *T)` methods (plain XGo, generated from the same abstract description) is
//	compiled too; both are built and run; the output per class must be equal.
package main

import (
	"fmt"
	"go/ast"
	goparser "go/parser"
	gotoken "go/token"
	"go/types"
	"io"
	"log"
	"os"
	"path/filepath"
	"regexp"
	"sort"
	"strings"
	"time"

	"verifharness/compcx"
	"verifharness/vh"
	"verifharness/xrun"
)

// ---------------------------------------------------------------------------------------------
// abstract description

type typeExpr struct {
	kind string // "i" ident, "s" pkg.sel, "o" other text
	pkg  string
	name string // ident / selector name / other text
	star int    // leading '*'
}

func (t typeExpr) text() string {
	s := strings.Repeat("*", t.star)
	switch t.kind {
	case "s":
		return s + t.pkg + "." + t.name
	}
	return s + t.name
}
func (t typeExpr) code() string {
	p := strings.Repeat("p.", t.star)
	switch t.kind {
	case "i":
		return p + "i." + vh.HexS(t.name)
	case "s":
		return p + "s." + vh.HexS(t.pkg) + "." + vh.HexS(t.name)
	}
	return p + "o." + vh.HexS(t.name)
}

type fieldSpec struct {
	names []string // empty: embedded
	typ   typeExpr
	tag   string // "" none
	kind  string // value kind of the field: int,string,float64,bool,[]int,[]string,map,embedBase,embedInner,embedPkg,other
}

type param struct{ name, typ string }

type methodDesc struct {
	name    string
	params  []param
	result  string // "", "int", "string"
	body    []stmt
	retExpr *expr
	// shadow methods: a parameter or the named result carries the name of a field/method
	namedResult string // "" or the name of the (int) result
	rawBody     string // body text, identical in both forms (members via this., locals bare)
}

type globalVar struct {
	name, typ, init string
}

type classDesc struct {
	idx          int
	name         string
	pre          []string // "I","K","T"
	fields       []fieldSpec
	noVarBlock   bool
	varAfterFunc bool // the only var block follows the first function: not the class fields
	dupField     bool // a repeated field name (compile error "redeclared")
	capture      bool // embedded *strings.Reader + method using len(): member captures builtin
	predecl      bool // some members are named like Go predeclared identifiers
	shadow       bool // locals/parameters/results shadow members inside the methods
	globals      []globalVar
	methods      []methodDesc
	explicitRecv bool // one extra method on the auxiliary type declared in the file
	useLines     []string
	gen          string
}

// expressions (typed int or string)
type expr struct {
	op    string // "int","str","field","param","bin","call","len","const","global","promoted"
	val   string
	l, r  *expr
	args  []*expr
	bare  bool // class form: write the member without `this.`
	typ   string
	field string
}

type stmt struct {
	op    string // "assign","addassign","append","mapset","if","echo","callstmt","toggle","local"
	field string
	e     *expr
	e2    *expr
	body  []stmt
	bare  bool
}

// ---------------------------------------------------------------------------------------------
// generation

type gen struct {
	r       *vh.Rand
	c       *classDesc
	intF    []string // int fields usable in expressions (declared fields and promoted)
	strF    []string
	sliceI  []string
	sliceS  []string
	mapF    []string
	boolF   []string
	floatF  []string
	methods []methodDesc
	avoid   map[string]bool // predeclared names taken by members: the bodies must not use them as builtins
}

// Go predeclared identifiers usable as member names: inside a class-file method the bare name
// denotes the member (this.<name>), in the explicit form it is written this.<name>.
var predeclNames = []string{"min", "max", "len", "cap", "new", "println", "print", "string", "int", "error",
	"true", "false", "nil", "append", "copy", "close", "iota", "real", "imag", "panic", "delete", "recover", "complex", "clear"}

var fieldStems = []string{"fa", "fb", "fc", "fd", "fe", "fg", "fh", "fi", "fj", "fk", "fl", "fm"}

func genClass(r *vh.Rand, idx int, tier string) *classDesc {
	c := &classDesc{idx: idx, name: fmt.Sprintf("C%d", idx)}
	g := &gen{r: r, c: c, avoid: map[string]bool{}}
	// leading GenDecls
	for _, k := range []string{"I", "K", "T"} {
		if r.Chance(45) {
			c.pre = append(c.pre, k)
		}
	}
	// imports come first (as in any Go/XGo file); const and type declarations in either order
	if n := len(c.pre); n >= 2 && c.pre[n-2] == "K" && c.pre[n-1] == "T" && r.Fork(1).Bool() {
		c.pre[n-2], c.pre[n-1] = "T", "K"
	}
	switch {
	case r.Chance(5):
		c.noVarBlock = true
	case r.Chance(5):
		c.varAfterFunc = true
	case r.Chance(4):
		c.dupField = true
	}
	if c.varAfterFunc {
		c.pre = nil
	}
	nf := 1 + r.Intn(5)
	if tier == "thorough" && r.Chance(20) {
		nf = 6 + r.Intn(5)
	}
	c.predecl = !c.varAfterFunc && !c.dupField && r.Chance(40)
	pool := append([]string{}, predeclNames...)
	rp := r.Fork(2)
	for i := len(pool) - 1; i > 0; i-- {
		j := rp.Intn(i + 1)
		pool[i], pool[j] = pool[j], pool[i]
	}
	takeP := func() (string, bool) {
		if c.predecl && len(pool) > 0 && rp.Chance(55) {
			n := pool[0]
			pool = pool[1:]
			g.avoid[n] = true
			return n, true
		}
		return "", false
	}
	stem := 0
	next := func() string {
		if n, ok := takeP(); ok {
			return n
		}
		s := fieldStems[stem%len(fieldStems)]
		stem++
		if c.varAfterFunc { // these become package-level variables: unique per class
			return fmt.Sprintf("v%d%s%d", idx, s, stem)
		}
		return fmt.Sprintf("%s%d", s, stem)
	}
	embeds := map[string]bool{}
	if !c.noVarBlock {
		for i := 0; i < nf; i++ {
			var f fieldSpec
			switch k := r.Intn(12); {
			case k < 3:
				f = fieldSpec{names: []string{next()}, typ: typeExpr{kind: "i", name: "int"}, kind: "int"}
				if r.Chance(35) {
					f.names = append(f.names, next())
				}
				if r.Chance(15) {
					f.names = append(f.names, next())
				}
			case k < 5:
				f = fieldSpec{names: []string{next()}, typ: typeExpr{kind: "i", name: "string"}, kind: "string"}
				if r.Chance(25) {
					f.names = append(f.names, next())
				}
			case k == 5:
				f = fieldSpec{names: []string{next()}, typ: typeExpr{kind: "o", name: "[]int"}, kind: "[]int"}
			case k == 6:
				f = fieldSpec{names: []string{next()}, typ: typeExpr{kind: "o", name: "[]string"}, kind: "[]string"}
			case k == 7:
				f = fieldSpec{names: []string{next()}, typ: typeExpr{kind: "o", name: "map[string]int"}, kind: "map"}
			case k == 8:
				if r.Bool() {
					f = fieldSpec{names: []string{next()}, typ: typeExpr{kind: "i", name: "bool"}, kind: "bool"}
				} else {
					f = fieldSpec{names: []string{next()}, typ: typeExpr{kind: "i", name: "float64"}, kind: "float64"}
				}
			case k == 9 && !embeds["Base"] && !c.varAfterFunc:
				f = fieldSpec{typ: typeExpr{kind: "i", name: "Base"}, kind: "embedBase"}
				embeds["Base"] = true
			case k == 10 && !embeds["Inner"] && !c.varAfterFunc:
				f = fieldSpec{typ: typeExpr{kind: "i", name: "Inner", star: 1}, kind: "embedInner"}
				embeds["Inner"] = true
			case k == 11 && !embeds["Replacer"] && !c.varAfterFunc:
				f = fieldSpec{typ: typeExpr{kind: "s", pkg: "strings", name: "Replacer", star: 1}, kind: "embedPkg"}
				embeds["Replacer"] = true
				if r.Bool() {
					f = fieldSpec{names: []string{next()}, typ: typeExpr{kind: "i", name: "Base", star: 1}, kind: "other"}
				}
			default:
				f = fieldSpec{names: []string{next()}, typ: typeExpr{kind: "i", name: "int"}, kind: "int"}
			}
			if r.Chance(20) && !c.varAfterFunc {
				f.tag = fmt.Sprintf(`json:"%s,omitempty" x:"%d"`, next(), i)
			}
			c.fields = append(c.fields, f)
		}
	}
	if c.dupField && len(c.fields) > 0 {
		// repeat the first declared name
		first := ""
		for _, f := range c.fields {
			if len(f.names) > 0 {
				first = f.names[0]
				break
			}
		}
		if first == "" {
			c.dupField = false
		} else {
			c.fields = append(c.fields, fieldSpec{names: []string{first}, typ: typeExpr{kind: "i", name: "string"}, kind: "string"})
		}
	}
	usesPkg := false
	for _, f := range c.fields {
		if f.kind == "embedPkg" {
			usesPkg = true
		}
	}
	hasI := false
	for _, p := range c.pre {
		if p == "I" {
			hasI = true
		}
	}
	if usesPkg && !hasI {
		c.pre = append([]string{"I"}, c.pre...)
	}
	// globals (a later var block; without a class var block the first var block would be
	// taken for the class fields by the parser, so no globals then)
	if r.Chance(40) && !c.noVarBlock {
		c.globals = append(c.globals, globalVar{fmt.Sprintf("g%da", idx), "int", fmt.Sprint(2 + r.Intn(7))})
		if r.Chance(40) {
			c.globals = append(c.globals, globalVar{fmt.Sprintf("g%db", idx), "string", `"gs"`})
		}
	}
	// usable fields
	if !c.varAfterFunc && !c.dupField {
		for _, f := range c.fields {
			for _, n := range f.names {
				switch f.kind {
				case "int":
					g.intF = append(g.intF, n)
				case "string":
					g.strF = append(g.strF, n)
				case "[]int":
					g.sliceI = append(g.sliceI, n)
				case "[]string":
					g.sliceS = append(g.sliceS, n)
				case "map":
					g.mapF = append(g.mapF, n)
				case "bool":
					g.boolF = append(g.boolF, n)
				case "float64":
					g.floatF = append(g.floatF, n)
				}
			}
			if f.kind == "embedBase" {
				g.intF = append(g.intF, "id") // promoted field of Base
			}
		}
	}
	// methods
	nm := 1 + r.Intn(4)
	mnames := []string{"ma", "mb", "Area", "grow", "Describe", "mf"}
	// all member names are fixed before any body is generated (the bodies avoid them as builtins)
	methodNames := make([]string, nm)
	for i := range methodNames {
		methodNames[i] = fmt.Sprintf("%s%d", mnames[i%len(mnames)], idx)
		if n, ok := takeP(); ok {
			methodNames[i] = n
		}
	}
	for i := 0; i < nm; i++ {
		m := methodDesc{name: methodNames[i]}
		np := r.Intn(3)
		for k := 0; k < np; k++ {
			t := "int"
			if r.Chance(35) {
				t = "string"
			}
			m.params = append(m.params, param{fmt.Sprintf("p%d", k), t})
		}
		switch r.Intn(3) {
		case 0:
			m.result = "int"
		case 1:
			m.result = "string"
		}
		ns := 1 + r.Intn(3)
		for k := 0; k < ns; k++ {
			m.body = append(m.body, g.stmt(&m, 0))
		}
		if m.result != "" {
			m.retExpr = g.expr(&m, m.result, 2)
		}
		g.methods = append(g.methods, m)
	}
	// locals, loop variables, closure and lambda parameters, parameters and named results that
	// SHADOW a field or a method, used at every nesting depth; members are reached through this.
	// (Go scoping: the innermost declaration wins; identical text in both forms)
	if len(g.intF) > 0 && r.Chance(60) {
		c.shadow = true
		for i := range g.methods {
			if r.Chance(60) {
				F := g.pick(g.intF)
				M := g.methods[r.Intn(len(g.methods))].name
				sn := shadowSnippets(F, M, idx)
				st := stmt{op: "raw", field: sn[r.Intn(len(sn))]}
				g.methods[i].body = append(g.methods[i].body, st)
			}
		}
		F := g.pick(g.intF)
		F2 := g.pick(g.intF)
		M := g.methods[r.Intn(len(g.methods))].name
		g.methods = append(g.methods, methodDesc{name: fmt.Sprintf("shp%d", idx), params: []param{{F, "int"}, {M, "int"}}, result: "int",
			rawBody: fmt.Sprintf("\tif %[1]s > 0 {\n\t\techo \"shp\", %[1]s, %[2]s, this.%[1]s\n\t\tfunc() {\n\t\t\tthis.%[1]s += %[1]s + %[2]s\n\t\t}()\n\t\tfor k := 0; k < 2; k++ {\n\t\t\t%[1]s += k\n\t\t}\n\t}\n\treturn %[1]s * 10 + %[2]s\n", F, M)})
		g.methods = append(g.methods, methodDesc{name: fmt.Sprintf("shr%d", idx), result: "int", namedResult: F2,
			rawBody: fmt.Sprintf("\tfor k := 0; k < 3; k++ {\n\t\t%[1]s += k + 1\n\t\tif %[1]s > 2 {\n\t\t\tthis.%[1]s += %[1]s\n\t\t}\n\t}\n\tdefer func() {\n\t\t%[1]s += 100\n\t}()\n\treturn\n", F2)})
	}
	c.methods = g.methods
	c.explicitRecv = r.Chance(30) && containsStr(c.pre, "T")
	// the special capture case replaces the class by a fixed shape
	return c
}

// shadowSnippets: statement groups in which a local / loop variable / closure or lambda parameter
// is called like the int field F or the method M and is used from nested blocks and closures.
func shadowSnippets(F, M string, idx int) []string {
	rep := func(t string) string {
		return strings.NewReplacer("‹F›", F, "‹M›", M).Replace(t)
	}
	return []string{
		rep(`{
	‹F› := this.‹F› + 1
	if ‹F› > -1000 {
		echo "sh1", ‹F›
		for i := 0; i < 2; i++ {
			‹F› += i
		}
		func() {
			echo "sh1c", ‹F›
			this.‹F› += 1
		}()
	}
	echo "sh1e", ‹F›, this.‹F›
}`),
		rep(`for ‹F› := 0; ‹F› < 2; ‹F›++ {
	if ‹F› >= 0 {
		echo "sh2", ‹F›, this.‹F›
	}
}
for _, ‹F› := range []int{4, 5} {
	func() {
		echo "sh2r", ‹F›
	}()
}`),
		rep(`func(‹F› int) {
	if ‹F› > 0 {
		echo "sh3", ‹F›, this.‹F›
		switch {
		case ‹F› > 1:
			this.‹F› += ‹F›
		}
	}
}(3)`),
		rep(`{
	‹M› := 5
	if ‹M› > 0 {
		echo "sh4", ‹M›
		func() {
			‹M› += 2
		}()
	}
	echo "sh4e", ‹M›
}`),
		rep(`echo "sh5", applyInt(‹F› => {
	if ‹F› > 0 {
		return ‹F› + this.‹F›
	}
	return ‹F›
}, 2), applyInt(‹M› => ‹M› * 3, 4)`),
		rep(`{
	var ‹F›, ‹M› = 7, "m"
	for k := 0; k < 1; k++ {
		if ‹M› == "m" {
			echo "sh6", ‹F› + k, ‹M›
		}
	}
}`),
	}
}

func containsStr(xs []string, s string) bool {
	for _, x := range xs {
		if x == s {
			return true
		}
	}
	return false
}

func (g *gen) pick(xs []string) string { return xs[g.r.Intn(len(xs))] }

func (g *gen) expr(m *methodDesc, typ string, depth int) *expr {
	r := g.r
	bare := r.Chance(60)
	var choices []func() *expr
	if typ == "int" {
		choices = append(choices, func() *expr { return &expr{op: "int", val: fmt.Sprint(r.Intn(9) + 1), typ: typ} })
		if len(g.intF) > 0 {
			choices = append(choices, func() *expr { return &expr{op: "field", field: g.pick(g.intF), bare: bare, typ: typ} })
			choices = append(choices, func() *expr { return &expr{op: "field", field: g.pick(g.intF), bare: bare, typ: typ} })
		}
		for _, p := range m.params {
			if p.typ == "int" {
				p := p
				choices = append(choices, func() *expr { return &expr{op: "param", val: p.name, typ: typ} })
			}
		}
		var lens []string
		lens = append(lens, g.sliceI...)
		lens = append(lens, g.sliceS...)
		lens = append(lens, g.mapF...)
		lens = append(lens, g.strF...)
		if len(lens) > 0 && !g.avoid["len"] {
			choices = append(choices, func() *expr { return &expr{op: "len", field: g.pick(lens), bare: bare, typ: typ} })
		}
		for _, gv := range g.c.globals {
			if gv.typ == "int" {
				gv := gv
				choices = append(choices, func() *expr { return &expr{op: "global", val: gv.name, typ: typ} })
			}
		}
		if containsStr(g.c.pre, "K") {
			choices = append(choices, func() *expr { return &expr{op: "global", val: fmt.Sprintf("K%d", g.c.idx), typ: typ} })
		}
		if depth > 0 {
			choices = append(choices, func() *expr {
				return &expr{op: "bin", val: []string{"+", "*", "-"}[r.Intn(3)], l: g.expr(m, "int", depth-1), r: g.expr(m, "int", depth-1), typ: typ}
			})
		}
	} else {
		choices = append(choices, func() *expr {
			return &expr{op: "str", val: fmt.Sprintf("%q", []string{"a", "bc", "", "x y"}[r.Intn(4)]), typ: typ}
		})
		if len(g.strF) > 0 {
			choices = append(choices, func() *expr { return &expr{op: "field", field: g.pick(g.strF), bare: bare, typ: typ} })
			choices = append(choices, func() *expr { return &expr{op: "field", field: g.pick(g.strF), bare: bare, typ: typ} })
		}
		for _, p := range m.params {
			if p.typ == "string" {
				p := p
				choices = append(choices, func() *expr { return &expr{op: "param", val: p.name, typ: typ} })
			}
		}
		if depth > 0 {
			choices = append(choices, func() *expr {
				return &expr{op: "bin", val: "+", l: g.expr(m, "string", depth-1), r: g.expr(m, "string", depth-1), typ: typ}
			})
		}
	}
	// calls of earlier methods with a matching result
	if depth > 0 {
		for _, pm := range g.methods {
			if pm.result == typ {
				pm := pm
				choices = append(choices, func() *expr {
					e := &expr{op: "call", val: pm.name, bare: bare, typ: typ}
					for _, p := range pm.params {
						e.args = append(e.args, g.expr(m, p.typ, 0))
					}
					return e
				})
			}
		}
	}
	return choices[r.Intn(len(choices))]()
}

func (g *gen) stmt(m *methodDesc, depth int) stmt {
	r := g.r
	bare := r.Chance(60)
	var choices []func() stmt
	if len(g.intF) > 0 {
		choices = append(choices, func() stmt {
			op := "assign"
			if r.Bool() {
				op = "addassign"
			}
			return stmt{op: op, field: g.pick(g.intF), e: g.expr(m, "int", 1), bare: bare}
		})
	}
	if len(g.strF) > 0 {
		choices = append(choices, func() stmt {
			// the appended string is a literal or a parameter: a field or a method result on the
			// right-hand side would double the string on every call (output of many megabytes)
			var e *expr = &expr{op: "str", val: fmt.Sprintf("%q", []string{"a", "bc", "x y"}[r.Intn(3)]), typ: "string"}
			for _, p := range m.params {
				if p.typ == "string" && r.Bool() {
					e = &expr{op: "param", val: p.name, typ: "string"}
				}
			}
			return stmt{op: "addassign", field: g.pick(g.strF), e: e, bare: bare}
		})
	}
	if len(g.sliceI) > 0 && !g.avoid["append"] {
		choices = append(choices, func() stmt { return stmt{op: "append", field: g.pick(g.sliceI), e: g.expr(m, "int", 1), bare: bare} })
	}
	if len(g.sliceS) > 0 && !g.avoid["append"] {
		choices = append(choices, func() stmt { return stmt{op: "append", field: g.pick(g.sliceS), e: g.expr(m, "string", 1), bare: bare} })
	}
	if len(g.mapF) > 0 && !g.avoid["nil"] && !g.avoid["string"] && !g.avoid["int"] {
		choices = append(choices, func() stmt {
			return stmt{op: "mapset", field: g.pick(g.mapF), e: g.expr(m, "string", 0), e2: g.expr(m, "int", 1), bare: bare}
		})
	}
	if len(g.boolF) > 0 {
		choices = append(choices, func() stmt { return stmt{op: "toggle", field: g.pick(g.boolF), bare: bare} })
	}
	if len(g.floatF) > 0 {
		choices = append(choices, func() stmt { return stmt{op: "faddassign", field: g.pick(g.floatF), bare: bare} })
	}
	choices = append(choices, func() stmt {
		t := "int"
		if r.Bool() {
			t = "string"
		}
		return stmt{op: "echo", e: g.expr(m, t, 1)}
	})
	for _, pm := range g.methods {
		pm := pm
		choices = append(choices, func() stmt {
			e := &expr{op: "call", val: pm.name, bare: bare}
			for _, p := range pm.params {
				e.args = append(e.args, g.expr(m, p.typ, 0))
			}
			return stmt{op: "callstmt", e: e}
		})
	}
	if depth == 0 {
		choices = append(choices, func() stmt {
			return stmt{op: "if", e: g.expr(m, "int", 1), body: []stmt{g.stmt(m, 1)}}
		})
	}
	return choices[r.Intn(len(choices))]()
}

// ---------------------------------------------------------------------------------------------
// rendering

type form int

const (
	classForm form = iota
	explicitForm
)

func member(f form, bare bool, name string) string {
	if f == classForm && bare {
		return name
	}
	return "this." + name
}

func (e *expr) render(f form) string {
	switch e.op {
	case "int", "str":
		return e.val
	case "field":
		return member(f, e.bare, e.field)
	case "param", "global":
		return e.val
	case "len":
		return "len(" + member(f, e.bare, e.field) + ")"
	case "bin":
		return "(" + e.l.render(f) + " " + e.val + " " + e.r.render(f) + ")"
	case "call":
		as := make([]string, len(e.args))
		for i, a := range e.args {
			as[i] = a.render(f)
		}
		return member(f, e.bare, e.val) + "(" + strings.Join(as, ", ") + ")"
	}
	return "0"
}

func renderStmts(ss []stmt, f form, ind string) string {
	var b strings.Builder
	for _, s := range ss {
		fld := member(f, s.bare, s.field)
		switch s.op {
		case "assign":
			fmt.Fprintf(&b, "%s%s = %s\n", ind, fld, s.e.render(f))
		case "addassign":
			fmt.Fprintf(&b, "%s%s += %s\n", ind, fld, s.e.render(f))
		case "faddassign":
			fmt.Fprintf(&b, "%s%s += 1.5\n", ind, fld)
		case "append":
			fmt.Fprintf(&b, "%s%s = append(%s, %s)\n", ind, fld, fld, s.e.render(f))
		case "mapset":
			fmt.Fprintf(&b, "%sif %s == nil {\n%s\t%s = make(map[string]int)\n%s}\n%s%s[%s] = %s\n", ind, fld, ind, fld, ind, ind, fld, s.e.render(f), s.e2.render(f))
		case "toggle":
			fmt.Fprintf(&b, "%s%s = !%s\n", ind, fld, fld)
		case "echo":
			fmt.Fprintf(&b, "%secho \"m\", %s\n", ind, s.e.render(f))
		case "raw":
			for _, l := range strings.Split(strings.TrimRight(s.field, "\n"), "\n") {
				b.WriteString(ind + l + "\n")
			}
		case "callstmt":
			fmt.Fprintf(&b, "%s%s\n", ind, s.e.render(f))
		case "if":
			fmt.Fprintf(&b, "%sif %s > 3 {\n%s%s}\n", ind, s.e.render(f), renderStmts(s.body, f, ind+"\t"), ind)
		}
	}
	return b.String()
}

func (m *methodDesc) sig() string {
	ps := make([]string, len(m.params))
	for i, p := range m.params {
		ps[i] = p.name + " " + p.typ
	}
	s := m.name + "(" + strings.Join(ps, ", ") + ")"
	if m.namedResult != "" {
		s += " (" + m.namedResult + " " + m.result + ")"
	} else if m.result != "" {
		s += " " + m.result
	}
	return s
}

func (m *methodDesc) render(f form, cls string) string {
	var b strings.Builder
	if f == classForm {
		fmt.Fprintf(&b, "func %s {\n", m.sig())
	} else {
		fmt.Fprintf(&b, "func (this *%s) %s {\n", cls, m.sig())
	}
	b.WriteString(m.rawBody)
	b.WriteString(renderStmts(m.body, f, "\t"))
	if m.retExpr != nil {
		fmt.Fprintf(&b, "\treturn %s\n", m.retExpr.render(f))
	}
	b.WriteString("}\n\n")
	return b.String()
}

// preText renders the leading declarations; the explicit form (a plain .xgo file) must have
// its imports first, a class file may have them anywhere among the leading declarations.
func (c *classDesc) preText(f form) string {
	var b strings.Builder
	pre := c.pre
	if f == explicitForm {
		pre = nil
		for _, p := range c.pre {
			if p == "I" {
				pre = append(pre, p)
			}
		}
		for _, p := range c.pre {
			if p != "I" {
				pre = append(pre, p)
			}
		}
	}
	for _, p := range pre {
		switch p {
		case "I":
			b.WriteString("import \"strings\"\n\n")
		case "K":
			fmt.Fprintf(&b, "const K%d = %d\n\n", c.idx, 3+c.idx%5)
		case "T":
			fmt.Fprintf(&b, "type Aux%d struct {\n\tn int\n}\n\n", c.idx)
		}
	}
	return b.String()
}

func (c *classDesc) fieldLines(ind string) string {
	var b strings.Builder
	for _, f := range c.fields {
		line := ""
		if len(f.names) > 0 {
			line = strings.Join(f.names, ", ") + " "
		}
		line += f.typ.text()
		if f.tag != "" {
			line += " `" + f.tag + "`"
		}
		b.WriteString(ind + line + "\n")
	}
	return b.String()
}

func (c *classDesc) globalsText() string {
	if len(c.globals) == 0 {
		return ""
	}
	var b strings.Builder
	b.WriteString("var (\n")
	for _, g := range c.globals {
		fmt.Fprintf(&b, "\t%s %s = %s\n", g.name, g.typ, g.init)
	}
	b.WriteString(")\n\n")
	return b.String()
}

func (c *classDesc) auxMethod() string {
	if !c.explicitRecv {
		return ""
	}
	return fmt.Sprintf("func (a *Aux%d) Twice() int {\n\treturn a.n * 2\n}\n\n", c.idx)
}

func (c *classDesc) usesStringsImport() bool {
	return containsStr(c.pre, "I")
}

// classText: the .gox file
func (c *classDesc) classText() string {
	var b strings.Builder
	b.WriteString(c.preText(classForm))
	varBlock := ""
	if !c.noVarBlock {
		varBlock = "var (\n" + c.fieldLines("\t") + ")\n\n"
	}
	if c.varAfterFunc {
		if len(c.methods) > 0 {
			b.WriteString(c.methods[0].render(classForm, c.name))
		}
		b.WriteString(varBlock)
		b.WriteString(c.globalsText())
		for _, m := range c.methods[1:] {
			b.WriteString(m.render(classForm, c.name))
		}
	} else {
		b.WriteString(varBlock)
		b.WriteString(c.globalsText())
		for _, m := range c.methods {
			b.WriteString(m.render(classForm, c.name))
		}
	}
	b.WriteString(c.auxMethod())
	if c.usesStringsImport() {
		fmt.Fprintf(&b, "func up%d(s string) string {\n\treturn strings.ToUpper(s)\n}\n", c.idx)
	}
	return b.String()
}

// explicitText: plain XGo file with the explicit struct and pointer-receiver methods
func (c *classDesc) explicitText() string {
	var b strings.Builder
	b.WriteString(c.preText(explicitForm))
	if c.varAfterFunc {
		fmt.Fprintf(&b, "type %s struct {\n}\n\n", c.name)
		// the var block declares package-level variables
		if !c.noVarBlock {
			b.WriteString("var (\n" + c.fieldLines("\t") + ")\n\n")
		}
	} else {
		fmt.Fprintf(&b, "type %s struct {\n%s}\n\n", c.name, c.fieldLines("\t"))
	}
	b.WriteString(c.globalsText())
	for _, m := range c.methods {
		b.WriteString(m.render(explicitForm, c.name))
	}
	b.WriteString(c.auxMethod())
	if c.usesStringsImport() {
		fmt.Fprintf(&b, "func (this *%s) up%d(s string) string {\n\treturn strings.ToUpper(s)\n}\n", c.name, c.idx)
	}
	return b.String()
}

// useText: the function in main.xgo that exercises the class
func (c *classDesc) useText(r *vh.Rand) string {
	var b strings.Builder
	fmt.Fprintf(&b, "func use%d() {\n", c.idx)
	// construct
	var keyed []string
	if !c.varAfterFunc && !c.dupField {
		for _, f := range c.fields {
			for _, n := range f.names {
				if f.kind == "int" && r.Chance(50) {
					keyed = append(keyed, fmt.Sprintf("%s: %d", n, 1+r.Intn(5)))
				}
				if f.kind == "string" && r.Chance(50) {
					keyed = append(keyed, fmt.Sprintf("%s: %q", n, "s"+n[:2]))
				}
			}
			if f.kind == "embedInner" {
				keyed = append(keyed, "Inner: &Inner{val: 7}")
			}
			if f.kind == "embedBase" && r.Bool() {
				keyed = append(keyed, "Base: Base{id: 4}")
			}
		}
	}
	if len(keyed) == 0 && r.Bool() {
		fmt.Fprintf(&b, "\tc := new(%s)\n", c.name)
	} else {
		fmt.Fprintf(&b, "\tc := &%s{%s}\n", c.name, strings.Join(keyed, ", "))
	}
	for round := 0; round < 2; round++ {
		for _, m := range c.methods {
			as := make([]string, len(m.params))
			for i, p := range m.params {
				if p.typ == "int" {
					as[i] = fmt.Sprint(1 + r.Intn(6))
				} else {
					as[i] = fmt.Sprintf("%q", []string{"u", "vw"}[r.Intn(2)])
				}
			}
			call := fmt.Sprintf("c.%s(%s)", m.name, strings.Join(as, ", "))
			if m.result != "" {
				fmt.Fprintf(&b, "\techo \"%s %s\", %s\n", c.name, m.name, call)
			} else {
				fmt.Fprintf(&b, "\t%s\n", call)
			}
		}
	}
	// observe the fields
	if !c.varAfterFunc && !c.dupField {
		for _, f := range c.fields {
			for _, n := range f.names {
				switch f.kind {
				case "int", "string", "[]int", "[]string", "bool", "float64":
					fmt.Fprintf(&b, "\techo \"%s .%s\", c.%s\n", c.name, n, n)
				case "map":
					fmt.Fprintf(&b, "\techo \"%s .%s\", len(c.%s)\n", c.name, n, n)
				}
			}
			switch f.kind {
			case "embedBase":
				fmt.Fprintf(&b, "\techo \"%s Ident\", c.Ident(), c.id\n", c.name)
			case "embedInner":
				fmt.Fprintf(&b, "\techo \"%s Val\", c.Val(), c.val\n", c.name)
			case "embedPkg":
				fmt.Fprintf(&b, "\techo \"%s Replacer\", c.Replacer == nil\n", c.name)
			}
		}
	} else if c.varAfterFunc {
		for _, f := range c.fields {
			for _, n := range f.names {
				if f.kind == "int" || f.kind == "string" {
					fmt.Fprintf(&b, "\techo \"%s global\", %s\n", c.name, n)
				}
			}
		}
	}
	if c.usesStringsImport() {
		fmt.Fprintf(&b, "\techo \"%s up\", c.up%d(\"q\")\n", c.name, c.idx)
	}
	if c.explicitRecv {
		fmt.Fprintf(&b, "\techo \"%s aux\", (&Aux%d{n: 4}).Twice()\n", c.name, c.idx)
	}
	fmt.Fprintf(&b, "\techo \"%s end\"\n}\n\n", c.name)
	return b.String()
}

const helpersText = `type Base struct {
	id int
}

func (b *Base) Ident() int {
	return b.id + 100
}

type Inner struct {
	val int
}

func (i *Inner) Val() int {
	return i.val * 2
}

func applyInt(f func(int) int, x int) int {
	return f(x)
}
`

// ---------------------------------------------------------------------------------------------
// case line for the model

func (c *classDesc) caseLine() string {
	var ds []string
	specs := func() string {
		parts := make([]string, len(c.fields))
		for i, f := range c.fields {
			ns := make([]string, len(f.names))
			for j, n := range f.names {
				ns[j] = vh.HexS(n)
			}
			tag := "none"
			if f.tag != "" {
				tag = vh.HexS(f.tag)
			}
			parts[i] = strings.Join(ns, ",") + "~" + f.typ.code() + "~" + tag
		}
		if len(parts) == 0 {
			return "V"
		}
		return "V:" + strings.Join(parts, ";")
	}
	gl := func() string {
		parts := make([]string, len(c.globals))
		for i, g := range c.globals {
			parts[i] = vh.HexS(g.name) + "~i." + vh.HexS(g.typ) + "~none"
		}
		return "V:" + strings.Join(parts, ";")
	}
	fn := func(name string) string { return "F:" + vh.HexS(name) + ":-" }
	ds = append(ds, c.pre...)
	if c.varAfterFunc {
		if len(c.methods) > 0 {
			ds = append(ds, fn(c.methods[0].name))
		}
		if !c.noVarBlock {
			ds = append(ds, specs())
		}
		if len(c.globals) > 0 {
			ds = append(ds, gl())
		}
		for _, m := range c.methods[1:] {
			ds = append(ds, fn(m.name))
		}
	} else {
		if !c.noVarBlock {
			ds = append(ds, specs())
		}
		if len(c.globals) > 0 {
			ds = append(ds, gl())
		}
		for _, m := range c.methods {
			ds = append(ds, fn(m.name))
		}
	}
	if c.explicitRecv {
		ds = append(ds, "F:"+vh.HexS("Twice")+":"+vh.HexS("a")+"."+vh.HexS(fmt.Sprintf("Aux%d", c.idx))+".1")
	}
	if c.usesStringsImport() {
		ds = append(ds, fn(fmt.Sprintf("up%d", c.idx)))
	}
	return fmt.Sprintf("c11type\t%s\t%s\t%s", vh.HexS(c.name), strings.Join(ds, "|"), c.gen)
}

// ---------------------------------------------------------------------------------------------
// go/types view of the generated Go

func typeView(pkg *types.Package, c *classDesc) string {
	qual := func(p *types.Package) string {
		if p == pkg {
			return ""
		}
		return p.Name()
	}
	obj := pkg.Scope().Lookup(c.name)
	tn, ok := obj.(*types.TypeName)
	if !ok {
		return "NO-TYPE"
	}
	named, ok := tn.Type().(*types.Named)
	if !ok {
		return "NOT-NAMED"
	}
	st, ok := named.Underlying().(*types.Struct)
	if !ok {
		return "NOT-STRUCT"
	}
	var fs []string
	for i := 0; i < st.NumFields(); i++ {
		f := st.Field(i)
		fs = append(fs, fmt.Sprintf("%s:%s:%d:%s", vh.HexS(f.Name()), vh.HexS(types.TypeString(f.Type(), qual)), b2i(f.Embedded()), vh.HexS(st.Tag(i))))
	}
	showM := func(fn *types.Func) string {
		sig := fn.Type().(*types.Signature)
		rv := sig.Recv()
		rt := rv.Type()
		ptr := 0
		if p, ok := rt.(*types.Pointer); ok {
			rt, ptr = p.Elem(), 1
		}
		return fmt.Sprintf("%s:%s:%s:%d", vh.HexS(fn.Name()), vh.HexS(rv.Name()), vh.HexS(types.TypeString(rt, qual)), ptr)
	}
	// methods in the order of the class file; then any method of the class type not expected
	var ms []string
	seen := map[string]bool{}
	lookupM := func(tname, mname string) *types.Func {
		o, ok := pkg.Scope().Lookup(tname).(*types.TypeName)
		if !ok {
			return nil
		}
		n, ok := o.Type().(*types.Named)
		if !ok {
			return nil
		}
		for i := 0; i < n.NumMethods(); i++ {
			if n.Method(i).Name() == mname {
				return n.Method(i)
			}
		}
		return nil
	}
	expect := func(tname, mname string) {
		if fn := lookupM(tname, mname); fn != nil {
			ms = append(ms, showM(fn))
			seen[tname+"."+mname] = true
		} else {
			ms = append(ms, "MISSING-"+vh.HexS(tname+"."+mname))
		}
	}
	order := c.methods
	for i, m := range order {
		if c.varAfterFunc && i == 0 {
			expect(c.name, m.name)
			continue
		}
		expect(c.name, m.name)
	}
	if c.explicitRecv {
		expect(fmt.Sprintf("Aux%d", c.idx), "Twice")
	}
	if c.usesStringsImport() {
		expect(c.name, fmt.Sprintf("up%d", c.idx))
	}
	for i := 0; i < named.NumMethods(); i++ {
		if !seen[c.name+"."+named.Method(i).Name()] {
			ms = append(ms, "EXTRA-"+showM(named.Method(i)))
		}
	}
	// package-level variables the model expects as globals: report those that exist
	var gs []string
	cand := []string{}
	if c.varAfterFunc {
		for _, f := range c.fields {
			cand = append(cand, f.names...)
		}
	}
	for _, g := range c.globals {
		cand = append(cand, g.name)
	}
	for _, n := range cand {
		if v, ok := pkg.Scope().Lookup(n).(*types.Var); ok && !v.IsField() {
			gs = append(gs, vh.HexS(n))
		}
	}
	return "ok fields=" + strings.Join(fs, ",") + " redecl= methods=" + strings.Join(ms, ",") + " globals=" + strings.Join(gs, ",")
}

func b2i(b bool) int {
	if b {
		return 1
	}
	return 0
}

func checkGo(src []byte) (*types.Package, error) {
	fset := gotoken.NewFileSet()
	f, err := goparser.ParseFile(fset, "out.go", src, 0)
	if err != nil {
		return nil, err
	}
	conf := types.Config{Importer: compcx.Importer(), Error: func(error) {}}
	pkg, _ := conf.Check("main", fset, []*ast.File{f}, nil)
	return pkg, nil
}

// ---------------------------------------------------------------------------------------------

var fileRe = regexp.MustCompile(`(C\d+)\.gox:(\d+):\d+: ([^\n]*)`)
var fileReX = regexp.MustCompile(`c(\d+)x\.xgo:(\d+):\d+: ([^\n]*)`)

func mainText(classes []*classDesc, seed uint64) string {
	var b strings.Builder
	for _, c := range classes {
		b.WriteString(c.useText(vh.NewRand(seed).Fork(9000 + c.idx)))
	}
	for _, c := range classes {
		fmt.Fprintf(&b, "use%d()\n", c.idx)
	}
	return b.String()
}

func segment(out string) map[string]string {
	m := map[string]string{}
	cur := ""
	// lines of one class are contiguous between "<C> ..." lines; method echo lines ("m ...") belong
	// to the class whose use function is running: use the `<C> end` markers
	var buf []string
	for _, line := range strings.Split(out, "\n") {
		buf = append(buf, line)
		if strings.HasSuffix(line, " end") {
			cur = strings.TrimSuffix(line, " end")
			m[cur] = strings.Join(buf, "\n")
			buf = nil
		}
	}
	if len(buf) > 1 {
		m["<tail>"] = strings.Join(buf, "\n")
	}
	return m
}

func run(classes []*classDesc, o *vh.Out, workdir string, seed uint64) {
	os.MkdirAll(workdir, 0o755)
	// compile the class form; classes whose file does not compile are reported and dropped
	dropped := map[string]string{}
	var classOut, explOut []byte
	for iter := 0; iter < 6; iter++ {
		files := map[string]string{"helpers.xgo": helpersText}
		var live []*classDesc
		for _, c := range classes {
			if _, bad := dropped[c.name]; !bad {
				files[c.name+".gox"] = c.classText()
				live = append(live, c)
			}
		}
		files["main.xgo"] = mainText(live, seed)
		if d := os.Getenv("C11_DUMPDIR"); d != "" {
			os.MkdirAll(d, 0o755)
			for n, t := range files {
				os.WriteFile(filepath.Join(d, n), []byte(t), 0o644)
			}
		}
		out, err := compcx.CompileDir(files)
		if err == nil {
			classOut = out
			break
		}
		ms := fileRe.FindAllStringSubmatch(err.Error(), -1)
		if len(ms) == 0 {
			o.Oracle("class-program-compile-error", "program", firstLine(err.Error()))
			os.WriteFile(filepath.Join(workdir, "c11_failed.txt"), []byte(err.Error()), 0o644)
			return
		}
		for _, m := range ms {
			if _, ok := dropped[m[1]]; !ok {
				dropped[m[1]] = m[3]
			}
		}
	}
	var live []*classDesc
	for _, c := range classes {
		if msg, bad := dropped[c.name]; bad {
			o.Count("class_compile_error")
			if strings.Contains(msg, "redeclared") {
				o.Count("class_redeclared")
				o.Case(c.caseLine(), "redecl="+vh.HexS(strings.Fields(msg)[0]), true)
			}
			// other compile errors: no type view exists; reported through the oracle only
			if !c.dupField {
				key := "class-form-compile-error"
				if c.capture {
					key = "member-captures-builtin"
				}
				// is the explicit form fine? (then the class form alone is at fault)
				_, e2 := compcx.CompileDir(map[string]string{"helpers.xgo": helpersText,
					fmt.Sprintf("c%dx.xgo", c.idx): c.explicitText(), "main.xgo": mainText([]*classDesc{c}, seed)})
				if e2 == nil {
					o.Oracle(key, c.caseLine(), msg)
				} else {
					o.Oracle("generator-invalid-program", c.caseLine(), firstLine(e2.Error()))
				}
			}
		} else {
			live = append(live, c)
		}
	}
	if classOut == nil || len(live) == 0 {
		return
	}
	// (a) the go/types view
	pkg, perr := checkGo(classOut)
	if perr != nil || pkg == nil {
		o.Oracle("generated-go-unparsable", "program", fmt.Sprint(perr))
		return
	}
	for _, c := range live {
		o.Count(fmt.Sprintf("fields_%d", len(c.fields)))
		o.Count(fmt.Sprintf("methods_%d", len(c.methods)))
		for _, f := range c.fields {
			o.Count("fieldkind_" + f.kind)
			if f.tag != "" {
				o.Count("field_tagged")
			}
			if len(f.names) > 1 {
				o.Count("field_multiname")
			}
		}
		if c.predecl {
			o.Count("shape_predeclared_member_names")
		}
		if c.shadow {
			o.Count("shape_locals_shadow_members")
		}
		switch {
		case c.noVarBlock:
			o.Count("shape_no_var_block")
		case c.varAfterFunc:
			o.Count("shape_var_after_func")
		default:
			o.Count("shape_normal")
		}
		o.Case(c.caseLine(), typeView(pkg, c), true)
	}
	// (b) behaviour: explicit form
	files := map[string]string{"helpers.xgo": helpersText, "main.xgo": mainText(live, seed)}
	for _, c := range live {
		files[fmt.Sprintf("c%dx.xgo", c.idx)] = c.explicitText()
	}
	var err error
	explOut, err = compcx.CompileDir(files)
	if err != nil {
		os.WriteFile(filepath.Join(workdir, "c11_failed.txt"), []byte(err.Error()), 0o644)
		fmt.Fprintln(os.Stderr, "explicit form does not compile (generator bug):", firstLine(err.Error()))
		os.Exit(2)
	}
	// property oracle (a), independent of the model: the class type and the explicit struct type
	// have the same go/types view (fields in order with type, embedded flag and tag; methods with
	// receiver name, type and pointer-ness; package-level variables)
	if pkgX, xerr := checkGo(explOut); xerr == nil && pkgX != nil {
		for _, c := range live {
			a, b := typeView(pkg, c), typeView(pkgX, c)
			o.Count("type_view_compared")
			if a != b {
				o.Oracle("type-differs-from-explicit-form", c.caseLine(), fmt.Sprintf("class form: %s | explicit form: %s", a, b))
			}
		}
	}
	res, rerr := xrun.RunBatch(filepath.Join(workdir, "c11run"), [][]byte{classOut, explOut}, 60*time.Second)
	if rerr != nil || len(res) != 2 {
		fmt.Fprintln(os.Stderr, "RunBatch:", rerr)
		os.Exit(2)
	}
	if res[1].BuildErr != "" {
		fmt.Fprintln(os.Stderr, "explicit form does not build (generator bug):", res[1].BuildErr)
		os.Exit(2)
	}
	if res[0].BuildErr != "" {
		o.Oracle("class-form-go-build-error", "program", firstLine(res[0].BuildErr))
		return
	}
	if res[0].Exit != res[1].Exit || res[0].Panic != res[1].Panic || res[0].Timeout != res[1].Timeout {
		o.Oracle("behaviour-exit-differs", "program", res[0].String()+" vs "+res[1].String())
	}
	sa, sb := segment(res[0].Stdout), segment(res[1].Stdout)
	for _, c := range live {
		o.Count("behaviour_compared")
		if sa[c.name] != sb[c.name] {
			o.Oracle("behaviour-differs", c.caseLine(), fmt.Sprintf("class form: %q explicit form: %q", sa[c.name], sb[c.name]))
		}
		if sa[c.name] == "" {
			o.Oracle("no-output", c.caseLine(), "")
		}
	}
}

// captureClass: an embedded *strings.Reader promotes Len; `len(x)` in a method then resolves to
// this.Len (class members are looked up before universe names, also by capitalised name).
func captureClass(idx int) *classDesc {
	c := &classDesc{idx: idx, name: fmt.Sprintf("C%d", idx), pre: []string{"I"}, capture: true}
	c.fields = []fieldSpec{
		{typ: typeExpr{kind: "s", pkg: "strings", name: "Reader", star: 1}, kind: "embedOther"},
		{names: []string{"tags"}, typ: typeExpr{kind: "o", name: "[]string"}, kind: "[]string"},
	}
	m := methodDesc{name: fmt.Sprintf("count%d", idx), result: "int",
		retExpr: &expr{op: "len", field: "tags", bare: true, typ: "int"}}
	c.methods = []methodDesc{m}
	return c
}

func firstLine(s string) string {
	if i := strings.IndexByte(s, '\n'); i >= 0 {
		return s[:i]
	}
	return s
}

func main() {
	f := vh.ParseFlags()
	if abs, err := filepath.Abs(f.Out); err == nil {
		f.Out = abs
	}
	o := vh.NewOut(f.Out)
	defer o.Close()
	log.SetOutput(io.Discard)
	compcx.Warm()
	mk := func(seed uint64, idx int, tier string) *classDesc {
		c := genClass(vh.NewRand(seed).Fork(idx), idx, tier)
		c.gen = fmt.Sprintf("gen=%d:%d:%s", seed, idx, tier)
		return c
	}
	if f.Replay != "" {
		fs := strings.Split(f.Replay, "\t")
		var seed uint64
		var idx int
		tier := "quick"
		ok := false
		for _, x := range fs {
			if strings.HasPrefix(x, "gen=") {
				p := strings.Split(x[4:], ":")
				if len(p) == 3 {
					fmt.Sscan(p[0], &seed)
					fmt.Sscan(p[1], &idx)
					tier = p[2]
					ok = true
				}
			}
		}
		if !ok {
			fmt.Fprintln(os.Stderr, "replay line without gen=seed:index:tier")
			os.Exit(2)
		}
		var c *classDesc
		if idx >= 100000 {
			c = captureClass(idx)
			c.gen = fmt.Sprintf("gen=%d:%d:%s", seed, idx, tier)
		} else {
			c = mk(seed, idx, tier)
		}
		if os.Getenv("C11_DUMP") != "" {
			fmt.Println(c.classText())
		}
		run([]*classDesc{c}, o, f.Out, seed)
		return
	}
	n := f.N
	per := 40
	idx := 0
	for n > 0 {
		k := per
		if n < k {
			k = n
		}
		var classes []*classDesc
		for i := 0; i < k; i++ {
			classes = append(classes, mk(f.Seed, idx, f.Tier))
			idx++
		}
		run(classes, o, filepath.Join(f.Out, fmt.Sprintf("b%d", idx)), f.Seed)
		n -= k
	}
	// the documented member-captures-builtin case, alone
	cc := captureClass(100000)
	cc.gen = fmt.Sprintf("gen=%d:%d:%s", f.Seed, 100000, f.Tier)
	run([]*classDesc{cc}, o, filepath.Join(f.Out, "cap"), f.Seed)
	_ = sort.Strings
}
