// Differential + oracle harness for C25 (Go-to-XGo style conversion `xgo fmt --smart` preserves behaviour).
//
// Generated Go main packages (several files each, as `xgo fmt --smart --mvgo dir` sees them) are
//
//	(a) built with Go and run;
//	(b) converted file by file with the real x/format.GopstyleSource (what `xgo fmt --smart`
//	    calls, see cmd/internal/gopfmt), compiled as one XGo package with the real compiler,
//	    built and run;
//
// stdout per unit, exit status and panic must agree (property oracle).  A conversion that does
// not parse/compile, or changes the output, is reported with the kind of the unit as key.
// Differential ties with the Lean model: rewrite decisions + import removal on scope-tree units
// (`c25scope`), shape of converted function literals (`c25lambda`), lower-casing (`c25lower`).
package main

import (
	"fmt"
	goast "go/ast"
	goparser "go/parser"
	gotoken "go/token"
	"io"
	"log"
	"os"
	"path/filepath"
	"regexp"
	"sort"
	"strconv"
	"strings"
	"time"

	"github.com/goplus/xgo/ast"
	"github.com/goplus/xgo/parser"
	"github.com/goplus/xgo/token"
	xformat "github.com/goplus/xgo/x/format"
	"verifharness/compcx"
	"verifharness/vh"
	"verifharness/xrun"
)

// ---------------------------------------------------------------------------------------------
// units

type unit struct {
	idx   int
	kind  string // key of an oracle failure of this unit
	name  string // file name without extension
	src   string // Go source of the file
	scope *scopeInfo
	// filled by the run
	conv       string
	convErr    string
	dropped    bool
	standalone bool
	static     bool // converted and compared with the model only (not part of a program)
}

type scopeInfo struct {
	caseLine string
	tags     []string
	imports  []imp
}

const commonGo = `package main

import "fmt"

type T struct{ id string }

func newT(id string) T { return T{id} }

func (t T) Println(a ...interface{}) {
	fmt.Println(append([]interface{}{"T." + t.id + ".Println"}, a...)...)
}
func (t T) Print(a ...interface{}) {
	fmt.Print(append([]interface{}{"T." + t.id + ".Print "}, a...)...)
}
func (t T) Printf(format string, a ...interface{}) {
	fmt.Printf("T."+t.id+".Printf "+format, a...)
}
func (t T) Sprint(a ...interface{}) string   { return "T." + t.id + ".Sprint " + fmt.Sprint(a...) }
func (t T) Sprintln(a ...interface{}) string { return "T." + t.id + ".Sprintln " + fmt.Sprint(a...) }
func (t T) Sprintf(format string, a ...interface{}) string {
	return "T." + t.id + ".Sprintf " + fmt.Sprintf(format, a...)
}
func (t T) Errorf(format string, a ...interface{}) error {
	return fmt.Errorf("T."+t.id+".Errorf "+format, a...)
}
func (t T) Sscan(s string, a ...interface{}) (int, error) { return len(s), fmt.Errorf("T.%s.Sscan", t.id) }
func (t T) ToUpper(s string) string                      { return "T." + t.id + ".ToUpper " + s }
func (t T) Quote(s string) string                        { return "T." + t.id + ".Quote " + s }

func emit(v ...interface{})             { fmt.Println(v...) }
func emitf(f interface{}, tag string)   { fmt.Println("value", tag, f != nil) }
func run0(f func())                     { f() }
func run1(f func(T), t T)               { f(t) }
func apply(f func(int) int, x int) int  { return f(x) }
func apply2(f func(int, int) int) int   { return f(3, 4) }
func pair(f func(int) (int, string))    { a, b := f(2); fmt.Println("pair", a, b) }
func each(xs []int, f func(int))        { for _, x := range xs { f(x) } }
func variadic(f func(xs ...int) int) int { return f(1, 2, 3) }
func anyOf(v interface{})               { fmt.Printf("any %T\n", v) }
`

// scopeUnit: behav units are compiled and run inside a program; they import under alias names
// only (a local variable called like a real package makes the XGo compiler rename the import in
// the merged Go file, and gogen then misses references - a compiler defect independent of the
// conversion).  Static units (any import form) are only converted and compared with the model.
func scopeUnit(r *vh.Rand, idx int, behav bool) *unit {
	g := &sgen{r: r, unit: idx, labels: map[string]bool{}}
	// imports of the file
	if behav {
		g.imports = []imp{{"f", "fmt"}}
		switch r.Intn(4) {
		case 0:
			g.imports = append(g.imports, imp{"st", "strings"})
		case 1:
			g.imports = append([]imp{{"sc", "strconv"}}, g.imports...)
		case 2:
			g.imports = append(g.imports, imp{"f2", "fmt"})
		}
	} else {
		g.imports = []imp{{"fmt", "fmt"}}
		switch r.Intn(5) {
		case 0:
			g.imports = []imp{{"f", "fmt"}}
		case 1:
			g.imports = append(g.imports, imp{"strings", "strings"})
		case 2:
			g.imports = append([]imp{{"strconv", "strconv"}}, g.imports...)
		case 3:
			g.imports = append(g.imports, imp{"f", "fmt"}, imp{"strings", "strings"})
		}
	}
	grouped := r.Bool()
	type fn struct {
		name            string
		recv            string
		params, results []string
		body            *S
		callArgs        string
	}
	var fns []fn
	mk := func(name, recv string, params, results []string) fn {
		g.labels = map[string]bool{}
		g.stmts = 0
		e := newEnv()
		// receiver, parameters and named results live in the function's outermost block
		if recv != "" {
			e.set(recv, kVarT)
		}
		for _, p := range params {
			e.set(p, kVarT)
		}
		for _, p := range results {
			e.set(p, kVarT)
		}
		body := g.stmts_(e, 3, 2+r.Intn(4))
		return fn{name: name, recv: recv, params: params, results: results, body: body}
	}
	fns = append(fns, mk(fmt.Sprintf("unit%d", idx), "", nil, nil))
	nh := r.Intn(3)
	for h := 0; h < nh; h++ {
		name := fmt.Sprintf("h%d_%d", idx, h)
		switch r.Intn(3) {
		case 0:
			fns = append(fns, mk(name, "", []string{g.shadowName()}, nil))
		case 1:
			fns = append(fns, mk(name, g.shadowName(), nil, nil))
		case 2:
			fns = append(fns, mk(name, "", nil, []string{g.shadowName()}))
		}
	}
	// a function that refers to every import, so that the Go file is valid; whether the fmt
	// reference is a print function decides whether the import survives the conversion
	keep := &S{k: "skip"}
	var ks []*S
	for _, im := range g.imports {
		sel := "Sprint"
		switch im.path {
		case "strings":
			sel = "ToUpper"
		case "strconv":
			sel = "Quote"
		default:
			if r.Chance(35) {
				sel = "Sscan"
			}
		}
		ks = append(ks, &S{k: "use", x: im.name, sel: sel, tag: g.tag(), form: "call"})
	}
	keep = seqOf(ks)
	fns = append(fns, fn{name: fmt.Sprintf("keep%d", idx), body: keep})

	var b strings.Builder
	b.WriteString("package main\n\n")
	if grouped {
		b.WriteString("import (\n")
		for _, im := range g.imports {
			if im.name != im.path {
				fmt.Fprintf(&b, "\t%s %q\n", im.name, im.path)
			} else {
				fmt.Fprintf(&b, "\t%q\n", im.path)
			}
		}
		b.WriteString(")\n\n")
	} else {
		for _, im := range g.imports {
			if im.name != im.path {
				fmt.Fprintf(&b, "import %s %q\n", im.name, im.path)
			} else {
				fmt.Fprintf(&b, "import %q\n", im.path)
			}
		}
		b.WriteString("\n")
	}
	// callees are declared before their callers (the compiler loads a function declared later
	// inside the scope of the first caller - a compiler defect independent of the conversion)
	fns = append(append([]fn{}, fns[1:]...), fns[0])
	last := len(fns) - 1
	var funcsCode []string
	for i, f := range fns {
		hdr := "func "
		isM := "0"
		if f.recv != "" {
			hdr += fmt.Sprintf("(%s T) ", f.recv)
			isM = "1"
		}
		ps := make([]string, len(f.params))
		for j, p := range f.params {
			ps[j] = p + " T"
		}
		hdr += f.name + "(" + strings.Join(ps, ", ") + ")"
		if len(f.results) > 0 {
			hdr += " (" + f.results[0] + " T)"
		}
		fmt.Fprintf(&b, "%s {\n", hdr)
		f.body.render(&b, "\t")
		if i == last {
			// the unit function calls its helpers and the keep function
			for _, h := range fns[:last] {
				switch {
				case h.recv != "":
					fmt.Fprintf(&b, "\tnewT(\"rv\").%s()\n", h.name)
				case len(h.params) > 0:
					fmt.Fprintf(&b, "\t%s(newT(\"pa\"))\n", h.name)
				case len(h.results) > 0:
					fmt.Fprintf(&b, "\t_ = %s()\n", h.name)
				default:
					fmt.Fprintf(&b, "\t%s()\n", h.name)
				}
			}
		}
		if len(f.results) > 0 {
			b.WriteString("\treturn\n")
		}
		b.WriteString("}\n\n")
		var pf strings.Builder
		f.body.postfix(&pf)
		funcsCode = append(funcsCode, fmt.Sprintf("%s|%s|%s|%s|%s|%s", f.name, f.recv, isM,
			strings.Join(f.params, ","), strings.Join(f.results, ","), strings.TrimSpace(pf.String())))
	}
	imps := make([]string, len(g.imports))
	for i, im := range g.imports {
		imps[i] = im.name + "=" + im.path
	}
	caseLine := fmt.Sprintf("c25scope\t%s\t-\t-\t%s", strings.Join(imps, ","), strings.Join(funcsCode, ";"))
	return &unit{idx: idx, kind: "scope-tree", name: fmt.Sprintf("u%d", idx), src: b.String(), static: !behav,
		scope: &scopeInfo{caseLine: caseLine, tags: g.tags, imports: g.imports}}
}

// ---------------------------------------------------------------------------------------------
// conversion and extraction

func convert(name, src string) (out string, err string) {
	defer func() {
		if r := recover(); r != nil {
			err = fmt.Sprintf("PANIC: %v", r)
		}
	}()
	b, e := xformat.GopstyleSource([]byte(src), name)
	if e != nil {
		return "", "ERROR: " + firstLine(e.Error())
	}
	return string(b), ""
}

func firstLine(s string) string {
	if i := strings.IndexByte(s, '\n'); i >= 0 {
		return s[:i]
	}
	return s
}

func litValue(e ast.Expr) (string, bool) {
	if l, ok := e.(*ast.BasicLit); ok && l.Kind == token.STRING {
		if v, err := strconv.Unquote(l.Value); err == nil {
			return v, true
		}
	}
	return "", false
}

// decisions of the real formatter on a scope unit, read off the converted source
func scopeImpl(u *unit) string {
	fset := token.NewFileSet()
	f, err := parser.ParseFile(fset, u.name+".xgo", u.conv, parser.ParseComments)
	if err != nil {
		return "UNPARSABLE " + firstLine(err.Error())
	}
	dec := map[string]string{}
	ast.Inspect(f, func(n ast.Node) bool {
		c, ok := n.(*ast.CallExpr)
		if !ok {
			return true
		}
		for _, a := range c.Args {
			v, ok := litValue(a)
			if !ok {
				continue
			}
			for _, t := range u.scope.tags {
				if v == t {
					var node ast.Expr = c.Fun
					if id, ok := c.Fun.(*ast.Ident); ok && id.Name == "emitf" && len(c.Args) > 0 {
						node = c.Args[0]
					}
					switch x := node.(type) {
					case *ast.Ident:
						dec[t] = "R:" + x.Name
					case *ast.SelectorExpr:
						dec[t] = "K"
					default:
						dec[t] = fmt.Sprintf("?%T", node)
					}
				}
			}
		}
		return true
	})
	// decisions in the order of the case line (file order of the functions)
	tags := append([]string{}, u.scope.tags...)
	pos := map[string]int{}
	for _, t := range tags {
		pos[t] = strings.Index(u.scope.caseLine, ":"+t+" ")
		if pos[t] < 0 {
			pos[t] = strings.Index(u.scope.caseLine, ":"+t)
		}
	}
	sort.SliceStable(tags, func(i, j int) bool { return pos[tags[i]] < pos[tags[j]] })
	parts := make([]string, len(tags))
	for i, t := range tags {
		d, ok := dec[t]
		if !ok {
			d = "MISSING"
		}
		parts[i] = t + "=" + d
	}
	left := map[string]bool{}
	for _, d := range f.Decls {
		if gd, ok := d.(*ast.GenDecl); ok && gd.Tok == token.IMPORT {
			for _, sp := range gd.Specs {
				is := sp.(*ast.ImportSpec)
				p, _ := strconv.Unquote(is.Path.Value)
				n := filepath.Base(p)
				if is.Name != nil {
					n = is.Name.Name
				}
				left[n] = true
			}
		}
	}
	var removed []string
	for _, im := range u.scope.imports {
		if !left[im.name] {
			removed = append(removed, im.name)
		}
	}
	return strings.Join(parts, ",") + " removed=" + strings.Join(removed, ",")
}

// function literals that are direct call arguments, in source order (Go original)
type flitShape struct{ params, results, body, variadic string }

func goFuncLits(src string) ([]flitShape, error) {
	fset := gotoken.NewFileSet()
	f, err := goparser.ParseFile(fset, "x.go", src, 0)
	if err != nil {
		return nil, err
	}
	fields := func(fl *goast.FieldList) string {
		if fl == nil || len(fl.List) == 0 {
			return "-"
		}
		parts := make([]string, len(fl.List))
		for i, fd := range fl.List {
			ns := make([]string, len(fd.Names))
			for j, n := range fd.Names {
				ns[j] = n.Name
			}
			parts[i] = strings.Join(ns, ",")
		}
		return strings.Join(parts, ";")
	}
	var res []flitShape
	goast.Inspect(f, func(n goast.Node) bool {
		c, ok := n.(*goast.CallExpr)
		if !ok {
			return true
		}
		for _, a := range c.Args {
			fl, ok := a.(*goast.FuncLit)
			if !ok {
				continue
			}
			var bs []string
			for _, st := range fl.Body.List {
				if r, ok := st.(*goast.ReturnStmt); ok {
					bs = append(bs, fmt.Sprintf("ret:%d", len(r.Results)))
				} else {
					bs = append(bs, "other")
				}
			}
			body := strings.Join(bs, ";")
			if len(bs) == 0 {
				body = "-"
			}
			variadic := "-"
			for _, fd := range fl.Type.Params.List {
				if _, ok := fd.Type.(*goast.Ellipsis); ok {
					variadic = "variadic"
				}
			}
			res = append(res, flitShape{fields(fl.Type.Params), fields(fl.Type.Results), body, variadic})
		}
		return true
	})
	return res, nil
}

// what the converted source has in place of those literals, in source order
func xgoLambdas(name, src string) ([]string, error) {
	fset := token.NewFileSet()
	f, err := parser.ParseFile(fset, name, src, 0)
	if err != nil {
		return nil, err
	}
	idents := func(ids []*ast.Ident) string {
		ns := make([]string, len(ids))
		for i, id := range ids {
			ns[i] = id.Name
		}
		return strings.Join(ns, ",")
	}
	var res []string
	ast.Inspect(f, func(n ast.Node) bool {
		c, ok := n.(*ast.CallExpr)
		if !ok {
			return true
		}
		for _, a := range c.Args {
			switch l := a.(type) {
			case *ast.FuncLit:
				res = append(res, "unchanged")
			case *ast.LambdaExpr:
				res = append(res, fmt.Sprintf("expr lhs=%s nrhs=%d lp=%v rp=%v", idents(l.Lhs), len(l.Rhs), l.LhsHasParen, l.RhsHasParen))
			case *ast.LambdaExpr2:
				res = append(res, fmt.Sprintf("block lhs=%s nstmts=%d lp=%v", idents(l.Lhs), len(l.Body.List), l.LhsHasParen))
			}
		}
		return true
	})
	return res, nil
}

// ---------------------------------------------------------------------------------------------
// programs

type program struct {
	name     string
	kind     string // key for whole-program failures (main features)
	units    []*unit
	mainSrc  func(live []*unit) string // Go source of main.go given the live units
	extra    map[string]string         // further Go files (name -> src), converted like the others
	exitCode int
	noCommon bool // the program consists of main.go (+extra) only
}

func plainMain(p *program) func(live []*unit) string {
	return func(live []*unit) string {
		var b strings.Builder
		b.WriteString("package main\n\nimport \"fmt\"\n\nfunc main() {\n")
		for _, u := range live {
			if u.standalone {
				continue
			}
			fmt.Fprintf(&b, "\tfmt.Println(\"<%d\")\n\tunit%d()\n\tfmt.Println(\">%d\")\n", u.idx, u.idx, u.idx)
		}
		b.WriteString("}\n")
		return b.String()
	}
}

func segments(out string) map[int]string {
	m := map[int]string{}
	cur := -1
	var buf []string
	for _, line := range strings.Split(out, "\n") {
		var k int
		if n, _ := fmt.Sscanf(line, "<%d", &k); n == 1 && strings.HasPrefix(line, "<") {
			cur = k
			buf = nil
			continue
		}
		if n, _ := fmt.Sscanf(line, ">%d", &k); n == 1 && strings.HasPrefix(line, ">") && k == cur {
			m[cur] = strings.Join(buf, "\n")
			cur = -1
			continue
		}
		if cur >= 0 {
			buf = append(buf, line)
		}
	}
	if cur >= 0 {
		m[cur] = strings.Join(buf, "\n") + "\n<unterminated>"
	}
	return m
}

var unitFileRe = regexp.MustCompile(`(u\d+)\.xgo:(\d+):\d+: ([^\n]*)`)
var anyFileRe = regexp.MustCompile(`(\w+)\.xgo:(\d+):\d+: ([^\n]*)`)

// The file with func main sorts after every other file of the package: the XGo compiler loads the
// body of a function that is declared in a later file inside the scope of its first caller (a
// compiler defect that does not depend on the conversion), so callees come first.
const mainFile = "zz_main"

type built struct {
	p        *program
	live     []*unit
	origSrcs map[string]string
	convGo   []byte
	failed   string
}

// prepare converts every file of the program and compiles the converted package with the real
// XGo compiler; units whose converted file does not convert/compile are reported and dropped.
func prepare(p *program, o *vh.Out) *built {
	bt := &built{p: p, origSrcs: map[string]string{}}
	// the original program always has all units
	if !p.noCommon {
		bt.origSrcs["common.go"] = commonGo
	}
	for _, u := range p.units {
		bt.origSrcs[u.name+".go"] = u.src
	}
	for n, s := range p.extra {
		bt.origSrcs[n] = s
	}
	bt.origSrcs[mainFile+".go"] = p.mainSrc(p.units)
	// convert
	commonX, cerr := convert("common.go", commonGo)
	if cerr != "" {
		o.Oracle("common-file-not-converted", p.name, cerr)
		bt.failed = cerr
		return bt
	}
	for _, u := range p.units {
		u.conv, u.convErr = convert(u.name+".go", u.src)
		if u.convErr != "" {
			u.dropped = true
			o.Oracle(u.kind, "unit "+u.name+" of "+p.name, "conversion failed: "+u.convErr+"\n"+u.src)
		}
	}
	extraX := map[string]string{}
	for n, s := range p.extra {
		x, e := convert(n, s)
		if e != "" {
			o.Oracle(p.kind, p.name, "conversion of "+n+" failed: "+e)
			bt.failed = e
			return bt
		}
		extraX[strings.TrimSuffix(n, ".go")+".xgo"] = x
	}
	for iter := 0; iter < 8; iter++ {
		var live []*unit
		for _, u := range p.units {
			if !u.dropped {
				live = append(live, u)
			}
		}
		mainX, merr := convert(mainFile+".go", p.mainSrc(live))
		if merr != "" {
			o.Oracle(p.kind, p.name, "conversion of main.go failed: "+merr)
			bt.failed = merr
			return bt
		}
		files := map[string]string{mainFile + ".xgo": mainX}
		if !p.noCommon {
			files["common.xgo"] = commonX
		}
		for n, s := range extraX {
			files[n] = s
		}
		for _, u := range live {
			files[u.name+".xgo"] = u.conv
		}
		out, err := compcx.CompileDir(files)
		if err == nil {
			bt.live, bt.convGo = live, out
			return bt
		}
		ms := unitFileRe.FindAllStringSubmatch(err.Error(), -1)
		progress := false
		for _, m := range ms {
			for _, u := range live {
				if u.name == m[1] && !u.dropped {
					u.dropped = true
					progress = true
					if !compilesAsXgo(u, commonGo) {
						// the compiler rejects the ORIGINAL file as well: not caused by the conversion
						o.Count("unit_rejected_by_compiler_before_conversion")
						continue
					}
					o.Oracle(u.kind, "unit "+u.name+" of "+p.name, "converted file does not compile: "+m[3]+"\n--- original\n"+u.src+"\n--- converted\n"+u.conv)
				}
			}
		}
		if !progress {
			detail := firstLine(err.Error())
			if m := anyFileRe.FindStringSubmatch(err.Error()); m != nil {
				detail = m[1] + ".xgo:" + m[2] + ": " + m[3]
			}
			o.Oracle(p.kind, p.name, "converted program does not compile: "+detail+"\n--- main.go\n"+p.mainSrc(live)+"\n--- main.xgo\n"+mainX)
			bt.failed = detail
			return bt
		}
	}
	bt.failed = "too many rounds"
	return bt
}

// compilesAsXgo: does the XGo compiler accept the unit's original Go source (as an .xgo file)?
func compilesAsXgo(u *unit, common string) bool {
	stub := fmt.Sprintf("package main\n\nfunc main() {\n\tunit%d()\n}\n", u.idx)
	_, err := compcx.CompileDir(map[string]string{"common.xgo": common, u.name + ".xgo": u.src, "main.xgo": stub})
	return err == nil
}

func joinFiles(files map[string]string) []byte {
	// RunBatch takes one file per program: put every program in its own directory instead
	return nil
}

// ---------------------------------------------------------------------------------------------

func main() {
	f := vh.ParseFlags()
	if abs, err := filepath.Abs(f.Out); err == nil {
		f.Out = abs
	}
	o := vh.NewOut(f.Out)
	defer o.Close()
	log.SetOutput(io.Discard)
	compcx.Warm("sort", "strings", "strconv", "errors", "time", "os", "sync")
	r := vh.NewRand(f.Seed)
	if f.Replay != "" {
		replay(f, o)
		return
	}
	var progs []*program
	nextIdx := 0
	nbulk, perBulk := 2, f.N/2
	if f.Tier == "thorough" {
		nbulk, perBulk = 6, f.N/6
	}
	if perBulk < 4 {
		perBulk = 4
	}
	for b := 0; b < nbulk; b++ {
		p := &program{name: fmt.Sprintf("bulk%d", b), kind: "plain-main"}
		for i := 0; i < perBulk; i++ {
			switch i {
			case 0: // every bulk program has a call-chain unit and an expression-position unit
				p.units = append(p.units, chainUnit(r.Fork(nextIdx), nextIdx))
			case 1:
				p.units = append(p.units, unitFromTemplate(r.Fork(nextIdx), nextIdx, templateByKind("fmt-expr-position")))
			default:
				p.units = append(p.units, genUnit(r.Fork(nextIdx), nextIdx, f.Seed))
			}
			nextIdx++
		}
		p.mainSrc = plainMain(p)
		progs = append(progs, p)
	}
	progs = append(progs, featurePrograms(r.Fork(900000), &nextIdx, f.Seed, f.Tier)...)
	runPrograms(progs, o, f.Out)
	// static scope units: conversion vs model only
	nstatic := f.N / 2
	for i := 0; i < nstatic; i++ {
		u := scopeUnit(r.Fork(700000+i), 700000+i, false)
		staticUnit(u, o)
	}
	lowerCases(r.Fork(800000), o, 70)
}

func staticUnit(u *unit, o *vh.Out) {
	u.conv, u.convErr = convert(u.name+".go", u.src)
	o.Count("unit_scope-tree-static")
	if u.convErr != "" {
		o.Oracle("scope-tree", "unit "+u.name+" (static)", "conversion failed: "+u.convErr+"\n"+u.src)
		return
	}
	o.Case(u.scope.caseLine, scopeImpl(u), len(u.scope.tags) >= 2)
	lambdaCases(u, o)
}

func genUnit(r *vh.Rand, idx int, seed uint64) *unit {
	k := r.Intn(100)
	var u *unit
	if k < 40 {
		u = scopeUnit(r, idx, true)
	} else {
		u = templateUnit(r, idx)
	}
	return u
}

func runPrograms(progs []*program, o *vh.Out, outdir string) {
	work := filepath.Join(outdir, "c25run")
	os.MkdirAll(work, 0o755)
	var bts []*built
	for _, p := range progs {
		bts = append(bts, prepare(p, o))
	}
	// write all programs into one module and build them with one `go build ./...`
	type slot struct {
		bt   *built
		orig bool
	}
	var slots []slot
	var dirs []map[string]string
	for _, bt := range bts {
		slots = append(slots, slot{bt, true})
		dirs = append(dirs, bt.origSrcs)
		if bt.convGo != nil {
			slots = append(slots, slot{bt, false})
			dirs = append(dirs, map[string]string{"main.go": string(bt.convGo)})
		}
	}
	res, err := runDirs(work, dirs, 60*time.Second)
	if err != nil {
		fmt.Fprintln(os.Stderr, "runDirs:", err)
		os.Exit(2)
	}
	results := map[*built][2]*xrun.Result{}
	for i, s := range slots {
		pr := results[s.bt]
		rr := res[i]
		if s.orig {
			pr[0] = &rr
		} else {
			pr[1] = &rr
		}
		results[s.bt] = pr
	}
	for _, bt := range bts {
		pr := results[bt]
		orig, conv := pr[0], pr[1]
		p := bt.p
		o.Count("program_" + p.kind)
		if orig == nil || orig.BuildErr != "" {
			be := ""
			if orig != nil {
				be = orig.BuildErr
			}
			os.WriteFile(filepath.Join(outdir, "c25_generator_bug_"+p.name+".txt"), []byte(be), 0o644)
			fmt.Fprintf(os.Stderr, "generator bug: original program %s does not build:\n%s\n", p.name, be)
			for n, s := range bt.origSrcs {
				os.WriteFile(filepath.Join(outdir, "c25_bug_"+p.name+"_"+n), []byte(s), 0o644)
			}
			os.Exit(2)
		}
		// differential lines (independent of the run)
		for _, u := range p.units {
			o.Count("unit_" + u.kind)
			if u.convErr != "" {
				continue
			}
			if u.scope != nil {
				o.Case(u.scope.caseLine, scopeImpl(u), len(u.scope.tags) >= 2)
			}
			lambdaCases(u, o)
		}
		if bt.failed != "" || conv == nil {
			continue
		}
		if conv.BuildErr != "" {
			if len(p.units) == 0 {
				// a feature program: the main file itself is the subject
				o.Oracle(p.kind, p.name, "the Go generated from the converted program does not build: "+strings.ReplaceAll(conv.BuildErr, "\n", " | "))
			} else if !attributeBuildErrors(bt, conv.BuildErr, o) {
				o.Oracle(p.kind+"-converted-go-build-error", p.name, firstLine(conv.BuildErr)+" | "+strings.ReplaceAll(conv.BuildErr, "\n", " | "))
			}
			continue
		}
		if orig.Timeout || conv.Timeout {
			o.Oracle(p.kind+"-timeout", p.name, fmt.Sprintf("orig timeout=%v converted timeout=%v", orig.Timeout, conv.Timeout))
			continue
		}
		so, sc := segments(orig.Stdout), segments(conv.Stdout)
		for _, u := range bt.live {
			if u.standalone {
				continue
			}
			o.Count("unit_behaviour_compared")
			if so[u.idx] != sc[u.idx] {
				o.Oracle(u.kind, "unit "+u.name+" of "+p.name,
					fmt.Sprintf("output differs: go=%q xgo=%q\n--- original\n%s\n--- converted\n%s", so[u.idx], sc[u.idx], u.src, u.conv))
			}
		}
		// whole program: everything outside unit segments, exit status, panic
		if stripSegments(orig.Stdout, nil) != stripSegments(conv.Stdout, nil) {
			o.Oracle(p.kind, p.name, fmt.Sprintf("output outside units differs: go=%q xgo=%q", stripSegments(orig.Stdout, nil), stripSegments(conv.Stdout, nil)))
		}
		if orig.Exit != conv.Exit || (orig.Panic == "") != (conv.Panic == "") {
			o.Oracle(p.kind, p.name, fmt.Sprintf("exit status differs: go exit=%d panic=%q xgo exit=%d panic=%q", orig.Exit, orig.Panic, conv.Exit, conv.Panic))
		}
	}
}

var buildErrRe = regexp.MustCompile(`main\.go:(\d+):\d+: ([^\n]*)`)
var trailingNum = regexp.MustCompile(`(\d+)(?:_\d+)?$`)

// attributeBuildErrors maps `go build` errors of the generated Go file to the unit whose function
// contains the line; true if every error could be attributed.
func attributeBuildErrors(bt *built, buildErr string, o *vh.Out) bool {
	fset := gotoken.NewFileSet()
	f, err := goparser.ParseFile(fset, "main.go", bt.convGo, 0)
	if err != nil {
		return false
	}
	type span struct {
		from, to int
		name     string
	}
	var spans []span
	for _, d := range f.Decls {
		if fd, ok := d.(*goast.FuncDecl); ok {
			spans = append(spans, span{fset.Position(fd.Pos()).Line, fset.Position(fd.End()).Line, fd.Name.Name})
		}
	}
	all := true
	seen := map[int]bool{}
	ms := buildErrRe.FindAllStringSubmatch(buildErr, -1)
	if len(ms) == 0 {
		return false
	}
	for _, m := range ms {
		line, _ := strconv.Atoi(m[1])
		found := false
		for _, sp := range spans {
			if line < sp.from || line > sp.to {
				continue
			}
			nm := trailingNum.FindStringSubmatch(sp.name)
			if nm == nil {
				break
			}
			idx, _ := strconv.Atoi(nm[1])
			for _, u := range bt.live {
				if u.idx == idx {
					found = true
					if !seen[idx] {
						seen[idx] = true
						o.Oracle(u.kind, "unit "+u.name+" of "+bt.p.name,
							"the Go generated from the converted file does not build: "+m[2]+"\n--- original\n"+u.src+"\n--- converted\n"+u.conv)
					}
				}
			}
		}
		if !found {
			all = false
		}
	}
	return all
}

// stripSegments returns the output lines that are not inside a unit segment.
func stripSegments(out string, _ []int) string {
	var keep []string
	in := false
	for _, line := range strings.Split(out, "\n") {
		if strings.HasPrefix(line, "<") {
			in = true
			continue
		}
		if strings.HasPrefix(line, ">") {
			in = false
			continue
		}
		if !in {
			keep = append(keep, line)
		}
	}
	return strings.Join(keep, "\n")
}

func lambdaCases(u *unit, o *vh.Out) {
	shapes, err := goFuncLits(u.src)
	if err != nil || len(shapes) == 0 {
		return
	}
	got, err := xgoLambdas(u.name+".xgo", u.conv)
	if err != nil {
		return
	}
	for i, sh := range shapes {
		impl := "MISSING"
		if i < len(got) {
			impl = got[i]
		}
		o.Count("lambda_case")
		o.Case(fmt.Sprintf("c25lambda\t%s\t%s\t%s\t%s\tunit=%s#%d", sh.params, sh.results, sh.body, sh.variadic, u.name, i), impl, true)
	}
}

var identRe = regexp.MustCompile(`x\.([^\s(]+)`)

func lowerCases(r *vh.Rand, o *vh.Out, n int) {
	names := []string{"Println", "A", "Z9", "already", "_Under", "ÉCOLE", "URL", "X_y", "aB", "Foo", "M", "Ünï",
		"Map", "Range", "Go", "Type", "Func", "Select", "Mapx", "Var", "Chan", "Default", "If", "IF"}
	for i := 0; i < n; i++ {
		var name string
		if i < len(names) {
			name = names[i]
		} else {
			al := "ABZabz_09É"
			rs := []rune(al)
			k := 1 + r.Intn(5)
			b := []rune{rs[r.Intn(6)]} // starts with a letter
			for j := 1; j < k; j++ {
				b = append(b, rs[r.Intn(len(rs))])
			}
			name = string(b)
		}
		src := "package p\n\nfunc f() {\n\tx." + name + "(1)\n}\n"
		out, cerr := convert("p.go", src)
		impl := "ERR " + cerr
		if cerr == "" {
			if m := identRe.FindStringSubmatch(out); m != nil {
				impl = m[1]
			} else {
				impl = "NOT-FOUND " + out
			}
		}
		o.Count("lower_case")
		o.Case("c25lower\t"+name, impl, true)
	}
}

// runDirs: like xrun.RunBatch, but every program is a directory of files.
func runDirs(dir string, progs []map[string]string, timeout time.Duration) ([]xrun.Result, error) {
	// reuse RunBatch for building/running by writing the extra files after it has laid out the
	// module: RunBatch writes main.go per program; additional files are added first.
	os.MkdirAll(dir, 0o755)
	mains := make([][]byte, len(progs))
	for i, files := range progs {
		d := filepath.Join(dir, fmt.Sprintf("p%05d", i))
		os.MkdirAll(d, 0o755)
		names := make([]string, 0, len(files))
		for n := range files {
			names = append(names, n)
		}
		sort.Strings(names)
		for _, n := range names {
			if n == "main.go" && len(files) == 1 {
				mains[i] = []byte(files[n])
				continue
			}
			if err := os.WriteFile(filepath.Join(d, n), []byte(files[n]), 0o644); err != nil {
				return nil, err
			}
		}
	}
	for i := range mains {
		if mains[i] == nil {
			mains[i] = []byte("package main\n") // RunBatch writes main.go; the program's files are already there
		}
	}
	return xrun.RunBatch(dir, mains, timeout)
}

func replay(f *vh.Flags, o *vh.Out) {
	// a replay line is either a differential case line (c25scope / c25lambda / c25lower) or
	// "unit <name> of <program>" from an oracle failure: regenerate the run's programs and keep
	// only the named program/unit.
	line := f.Replay
	fs := strings.Split(line, "\t")
	switch fs[0] {
	case "c25lower":
		lowerOne(fs[1], o)
		return
	}
	// regenerate everything for this seed/tier and filter
	r := vh.NewRand(f.Seed)
	var progs []*program
	nextIdx := 0
	nbulk, perBulk := 2, f.N/2
	if f.Tier == "thorough" {
		nbulk, perBulk = 6, f.N/6
	}
	if perBulk < 4 {
		perBulk = 4
	}
	for b := 0; b < nbulk; b++ {
		p := &program{name: fmt.Sprintf("bulk%d", b), kind: "plain-main"}
		for i := 0; i < perBulk; i++ {
			switch i {
			case 0:
				p.units = append(p.units, chainUnit(r.Fork(nextIdx), nextIdx))
			case 1:
				p.units = append(p.units, unitFromTemplate(r.Fork(nextIdx), nextIdx, templateByKind("fmt-expr-position")))
			default:
				p.units = append(p.units, genUnit(r.Fork(nextIdx), nextIdx, f.Seed))
			}
			nextIdx++
		}
		p.mainSrc = plainMain(p)
		progs = append(progs, p)
	}
	progs = append(progs, featurePrograms(r.Fork(900000), &nextIdx, f.Seed, f.Tier)...)
	want := ""
	if m := regexp.MustCompile(`unit (u\d+) of (\w+)`).FindStringSubmatch(line); m != nil {
		want = m[1]
	} else if m := regexp.MustCompile(`unit=(u\d+)#`).FindStringSubmatch(line); m != nil {
		want = m[1]
	} else if fs[0] == "c25scope" {
		for _, p := range progs {
			for _, u := range p.units {
				if u.scope != nil && u.scope.caseLine == line {
					want = u.name
				}
			}
		}
	}
	var sel []*program
	for _, p := range progs {
		if want == "" {
			if strings.Contains(line, p.name) {
				sel = append(sel, p)
			}
			continue
		}
		var us []*unit
		for _, u := range p.units {
			if u.name == want {
				us = append(us, u)
			}
		}
		if len(us) > 0 {
			p.units = us
			sel = append(sel, p)
		}
	}
	if len(sel) == 0 {
		fmt.Fprintln(os.Stderr, "replay: nothing matches; rerun the whole seed")
		sel = progs
	}
	runPrograms(sel, o, f.Out)
}

func lowerOne(name string, o *vh.Out) {
	src := "package p\n\nfunc f() {\n\tx." + name + "(1)\n}\n"
	out, cerr := convert("p.go", src)
	impl := "ERR " + cerr
	if cerr == "" {
		if m := identRe.FindStringSubmatch(out); m != nil {
			impl = m[1]
		}
	}
	o.Case("c25lower\t"+name, impl, true)
}
