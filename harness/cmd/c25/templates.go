package main

// Template units (one Go file each, `func unit§()` is called from main) and feature programs
// (properties of the main file: unwrapping of `func main`, init order, exit status, names that
// capture builtins).  `§` is replaced by the unit index so that all package-level names are unique.

import (
	"fmt"
	"strings"

	"verifharness/vh"
)

func inst(src string, idx int) string { return strings.ReplaceAll(src, "§", fmt.Sprint(idx)) }

// pickLines keeps a random non-empty subset of the statements (in order).
func pickLines(r *vh.Rand, lines []string, min int) string {
	var out []string
	for len(out) < min {
		out = out[:0]
		for _, l := range lines {
			if r.Chance(65) {
				out = append(out, l)
			}
		}
	}
	return "\t" + strings.Join(out, "\n\t") + "\n"
}

type tmpl struct {
	kind    string
	weight  int
	imports []string
	decls   string
	lines   []string
	min     int
	pre     string // statements always first in the unit function
	post    string // statements always last
}

var templates = []tmpl{
	{kind: "print-basic", weight: 10, imports: []string{"fmt", "os"},
		decls: "type p§ struct{ X, Y int }\n\nfunc two§() (int, string) { return §, \"b\" }\n",
		lines: []string{
			`fmt.Println("a", 1, 2.5, true, nil)`,
			`fmt.Printf("%d-%s-%v\n", 7, "s", []int{1, 2})`,
			`fmt.Print("x", 1, 2, "y\n")`,
			`fmt.Println(two§())`,
			`fmt.Println(p§{1, 2}, &p§{3, 4})`,
			`fmt.Println()`,
			`fmt.Println(fmt.Sprintf("%05.1f|%q", 3.14159, "q"), fmt.Sprint("a", 1, 2, "b"), fmt.Sprintln("z"))`,
			`fmt.Println(fmt.Errorf("wrap: %w", fmt.Errorf("inner %d", §)))`,
			`fmt.Fprintln(os.Stdout, "fp", 1)`,
			`fmt.Fprintf(os.Stdout, "%s!\n", "ff")`,
			`fmt.Fprint(os.Stdout, "fq\n")`,
			`fmt.Println(-1, +2, !true, "s"+"t", (1+2)*3, []string{"a"}, map[string]int{"k": 1})`,
			`fmt.Println(len(fmt.Sprint(12345)), cap(make([]int, 2, 5)))`,
			`if s := fmt.Sprint(§); len(s) > 0 {
		fmt.Println("len", len(s))
	}`,
		}, min: 3},
	{kind: "fmt-value", weight: 4, imports: []string{"fmt"},
		decls: "func ap§(f func(a ...interface{}) string, x int) { fmt.Println(f(x, \"v\")) }\n",
		lines: []string{
			`p := fmt.Println
	p("via p", §)`,
			`q := fmt.Sprintf
	fmt.Println(q("%d|", 3))`,
			`ap§(fmt.Sprint, 5)`,
		}, min: 2},
	{kind: "fmt-kept", weight: 4, imports: []string{"fmt"},
		decls: "type s§ struct{}\n\nfunc (s§) String() string { return \"S§\" }\n\nvar _ fmt.Stringer = s§{}\n",
		lines: []string{
			`var n int
	var w string
	fmt.Sscanf("12 ab", "%d %s", &n, &w)
	fmt.Println(n, w)`,
			`var st fmt.Stringer = s§{}
	fmt.Println(st, st.String())`,
			`fmt.Println(fmt.Sprint(s§{}))`,
		}, min: 2},
	{kind: "lambda-expr", weight: 8, imports: []string{"fmt", "sort", "strings"},
		lines: []string{
			`fmt.Println(apply(func(x int) int { return x*§ + 1 }, 3))`,
			`fmt.Println(apply2(func(a, b int) int { return a*b - § }))`,
			`pair(func(x int) (int, string) { return x + 1, "p§" })`,
			`xs := []int{3, 1, 2, §}
	sort.Slice(xs, func(i, j int) bool { return xs[i] < xs[j] })
	fmt.Println(xs)`,
			`fmt.Println(strings.Map(func(r rune) rune { return r + 1 }, "abc"))`,
			`fmt.Println(strings.FieldsFunc("a,b;c", func(r rune) bool { return r == ',' || r == ';' }))`,
			`fmt.Println(apply(func(int) int { return 9 }, 1), apply2(func(int, int) int { return -6 }))`,
			`fmt.Println(variadic(func(xs ...int) int { return len(xs) + § }))`,
			`k := 10
	fmt.Println(apply(func(x int) int { return x + k }, apply(func(y int) int { return y * 2 }, 4)))`,
		}, min: 3},
	{kind: "lambda-block", weight: 8, imports: []string{"fmt", "sync"},
		decls: "func tw§(x int) (int, string) { return x + §, \"tw\" }\n",
		lines: []string{
			`pair(func(x int) (int, string) { return tw§(x) })`,
			`sum := 0
	each([]int{1, 2, 3}, func(x int) {
		sum += x
		fmt.Println("e", x, sum)
	})
	fmt.Println("sum", sum)`,
			`run0(func() { fmt.Println("np§") })`,
			`run0(func() {
		each([]int{7, 8}, func(x int) { fmt.Println("nested", x) })
	})`,
			`pair(func(x int) (a int, b string) {
		a, b = x*2, "named"
		return
	})`,
			`pair(func(x int) (int, string) {
		if x > 100 {
			return 0, "big"
		}
		return x, "small"
	})`,
			`func() {
		defer func() { fmt.Println("deferred §") }()
		fmt.Println("body §")
	}()`,
			`var wg sync.WaitGroup
	wg.Add(1)
	go func() {
		defer wg.Done()
		fmt.Println("goroutine §")
	}()
	wg.Wait()`,
			`counter := func() func() int {
		c := §
		return func() int { c++; return c }
	}()
	fmt.Println(counter(), counter())`,
			`fmt.Println(variadic(func(xs ...int) int {
		t := 0
		for _, x := range xs {
			t += x
		}
		return t
	}))`,
		}, min: 3},
	{kind: "method-call", weight: 8, imports: []string{"fmt", "strings", "time", "errors"},
		decls: `type acc§ struct{ n int }

func (a *acc§) Add(d int) *acc§ { a.n += d; return a }
func (a *acc§) Show()           { fmt.Println("acc", a.n) }
func (a acc§) Value() int       { return a.n }

type wrap§ struct {
	acc§
	label string
}

type shower§ interface{ Show() }
`,
		lines: []string{
			`a := &acc§{}
	a.Add(1).Add(-2).Show()
	a.Add(§)
	a.Show()
	fmt.Println(a.Value())`,
			`w := wrap§{label: "w"}
	w.Add(4)
	w.Show()
	fmt.Println(w.label, w.Value(), w.acc§.Value())`,
			`var sh shower§ = &acc§{n: 9}
	sh.Show()`,
			`fmt.Println(time.Unix(0, 0).UTC().Year(), 3*time.Second)`,
			`fmt.Println(strings.NewReader("xyz").Len(), errors.New("e§").Error())`,
			`var sb strings.Builder
	sb.WriteString("sb")
	sb.WriteByte('!')
	fmt.Println(sb.String(), sb.Len())`,
		}, min: 3},
	{kind: "pkg-func", weight: 6, imports: []string{"fmt", "strings", "strconv", "sort", "os", "errors"},
		lines: []string{
			`fmt.Println(strings.ToUpper("abc"), strings.Repeat("ab", 2), strings.Split("a,b", ","), strings.Join([]string{"x", "y"}, "-"))`,
			`n, err := strconv.Atoi("4§")
	fmt.Println(n, err, strconv.Itoa(n+1), strconv.Quote("q"))`,
			`ys := []int{5, 2, §}
	sort.Ints(ys)
	fmt.Println(ys, sort.SearchInts(ys, 5))`,
			`fmt.Println(os.Getenv("VERIF_NOPE_§") == "", len(os.Args) > 0)`,
			`e1 := errors.New("base")
	e2 := fmt.Errorf("ctx: %w", e1)
	fmt.Println(errors.Is(e2, e1), errors.Unwrap(e2) == e1)`,
			`fmt.Println(strings.Contains("hello", "ell"), strings.Index("hello", "l"), strings.TrimSpace("  t "), strings.Fields(" a b "))`,
		}, min: 3},
	{kind: "command-style", weight: 8, imports: []string{"fmt"},
		decls: `func v§(xs ...interface{}) { fmt.Println(xs...) }
func g§(x int) int          { return x * 2 }
func z§()                   { fmt.Println("z§") }

type c§ struct{ n int }

func (c *c§) M(d int) *c§ { c.n += d; return c }
func (c *c§) P()          { fmt.Println("c", c.n) }
`,
		pre: "a, b := 1, 2\n\tpa := &a\n\t_, _, _ = a, b, pa\n",
		lines: []string{
			`v§((a + b) * 3)`, `v§((a+b)*3, 4)`, `v§([]int{1}, 2)`, `v§([2]int{1, 2}[0])`, `v§(-a)`, `v§(+a)`,
			`v§(!true)`, `v§(&a != nil)`, `v§("s" + "t")`, `v§(a, -b)`, `v§(func() int { return 7 }())`,
			`v§(map[string]int{"k": 1})`, `v§(struct{ X int }{1})`, `v§(g§(3))`, `v§(nil)`, `v§('c')`, `v§(1.5)`,
			`v§(a - b)`, `v§(a - -b)`, `v§(*pa)`, `v§([]interface{}{1, "x"}...)`, `v§()`, `z§()`, `g§(-1)`,
			`(&c§{}).M(1).M(-2).P()`, `v§(a, func(x int) int { return x }(2))`, `v§(<-func() chan int { ch := make(chan int, 1); ch <- 5; return ch }())`,
			`v§(a<<2, a&^b, a|b, ^a)`, `v§([]byte("hi"), string(rune(65)), float64(a)/2)`,
		}, min: 8},
	{kind: "shadowed-fmt", weight: 6, imports: []string{"fmt"},
		decls: `func sp§(fmt T)        { fmt.Println("param") }
func (fmt T) sr§()     { fmt.Println("recv") }
func sn§() (fmt T)     { fmt = newT("res"); fmt.Println("result"); return }
`,
		lines: []string{
			`{
		fmt := newT("def")
		fmt.Println("b")
	}`,
			`sp§(newT("p"))`, `newT("r").sr§()`, `_ = sn§()`,
			`for _, fmt := range []T{newT("rg")} {
		fmt.Println("range")
	}`,
			`var i§ interface{} = newT("ts")
	switch fmt := i§.(type) {
	case T:
		fmt.Println("typeswitch")
	}`,
			`if fmt := newT("if"); true {
		fmt.Println("if")
	}`,
			`func(fmt T) { fmt.Println("lit") }(newT("fl"))`,
			`run1(func(fmt T) { fmt.Println("lit-arg") }, newT("fa"))`,
			`switch k := §; {
	case k >= 0:
		fmt := newT("case")
		fmt.Println("in-case")
	}`,
			`{
		var fmt = newT("var")
		fmt.Println("var")
	}`,
			`ch§ := make(chan T, 1)
	ch§ <- newT("sel")
	select {
	case fmt := <-ch§:
		fmt.Println("select")
	}`,
		}, min: 5, post: "fmt.Println(\"after\")\n"},
	{kind: "builtin-name-local", weight: 4, imports: []string{"fmt"},
		lines: []string{
			`{
		printf := 3
		fmt.Printf("%d\n", printf)
	}`,
			`{
		echo := "e"
		fmt.Println(echo)
	}`,
			`func(errorf string) { fmt.Println(fmt.Errorf("x%s", errorf)) }("y")`,
			`for sprint := 0; sprint < 1; sprint++ {
		fmt.Println(fmt.Sprint(sprint))
	}`,
			`fmt.Println("plain")`,
			`{
		fmt.Println("before")
		println := 1
		_ = println
		fmt.Print("p\n")
		print := 2
		_ = print
		fmt.Print("q\n")
	}`,
		}, min: 3},
	{kind: "control-flow", weight: 6, imports: []string{"fmt"},
		lines: []string{
			`fmt:
	for i := 0; i < 3; i++ {
		if i == 1 {
			continue fmt
		}
		fmt.Println("label", i)
	}`,
			`i§ := 0
loop§:
	if i§ < 2 {
		fmt.Println("goto", i§)
		i§++
		goto loop§
	}`,
			`ch := make(chan int, 1)
	select {
	case v := <-ch:
		fmt.Println("got", v)
	default:
		fmt.Println("default")
	}`,
			`switch x := §; {
	case x > 1000:
		fmt.Println("big")
	case x >= 0:
		fmt.Println("nonneg")
		fallthrough
	default:
		fmt.Println("fell")
	}`,
			`for _, v := range []interface{}{1, "s", 2.5, nil} {
		switch t := v.(type) {
		case int:
			fmt.Println("int", t)
		case string:
			fmt.Println("string", t)
		default:
			fmt.Println("other", t)
		}
	}`,
			`for i := 0; i < 2; i++ {
		defer fmt.Println("defer", i)
	}`,
			`m := map[string]int{"a": 1}
	if v, ok := m["a"]; ok {
		fmt.Println("ok", v)
	} else if v2, ok2 := m["b"]; ok2 {
		fmt.Println(v2)
	} else {
		fmt.Println("none")
	}`,
		}, min: 3},
	{kind: "header-call", weight: 3, imports: []string{"fmt"},
		lines: []string{
			`for i := 0; i < 2; fmt.Print("post ") {
		i++
	}
	fmt.Println()`,
			`if fmt.Println("if-init"); true {
		fmt.Println("body")
	}`,
			`switch fmt.Println("sw-init"); {
	default:
		fmt.Println("default")
	}`,
			`for fmt.Println("for-init"); false; {
	}`,
		}, min: 2},
	{kind: "other-pkg-print", weight: 4, imports: []string{"fmt", "log", "os"},
		pre: "log.SetFlags(0)\n\tlog.SetOutput(os.Stdout)\n\tdefer log.SetOutput(os.Stderr)\n",
		lines: []string{
			`log.Printf("n %d", §)`,
			`log.Print("a", 1, "b")`,
			`log.Println("ln", §)`,
			`fmt.Println(log.Prefix() == "")`,
			`lg := log.New(os.Stdout, "p§ ", 0)
	lg.Printf("x %d", 1)
	lg.Println("y")`,
		}, min: 3},
	{kind: "fmt-expr-position", weight: 9, imports: []string{"fmt", "strings"},
		decls: `type st§ struct {
	A string
	B error
}

func rv§() (string, error) { return fmt.Sprint("r"), fmt.Errorf("e%d", §) }

func (s st§) with(a string) st§ { s.A += a; return s }
`,
		lines: []string{
			`m§ := map[string]int{fmt.Sprint("k", §): 1, "x": len(fmt.Sprint(22))}
	fmt.Println(m§)`,
			`fmt.Println([]string{"a", "b"}[len(fmt.Sprint(1))], map[string]int{"7": 3}[fmt.Sprint(7)])`,
			`fmt.Println("abcdef"[len(fmt.Sprint(1)):len(fmt.Sprint(123))+1], []int{1, 2, 3, 4}[len(fmt.Sprint(1)):len(fmt.Sprint(12)):len(fmt.Sprint(123))])`,
			`switch "1" {
	case fmt.Sprint(2), fmt.Sprint(1):
		fmt.Println("case hit")
	}`,
			`switch fmt.Sprint(§) {
	case "x":
	default:
		fmt.Println("tag default")
	}`,
			`ch§ := make(chan string, 1)
	ch§ <- fmt.Sprint("sent", §)
	fmt.Println(<-ch§)
	select {
	case ch§ <- fmt.Sprintf("sel%d", §):
	default:
	}
	fmt.Println(<-ch§)`,
			`func() {
		defer fmt.Println("deferred", fmt.Sprint(1))
		defer func() { fmt.Println(fmt.Sprint("deferred closure")) }()
	}()`,
			`done§ := make(chan bool)
	go func(s string) {
		fmt.Println("in go", s)
		done§ <- true
	}(fmt.Sprint("arg"))
	<-done§`,
			`fmt.Println(rv§())`,
			`fmt.Println(st§{A: fmt.Sprint("a"), B: fmt.Errorf("b")}, st§{fmt.Sprint(1), nil}, &st§{A: fmt.Sprint("p")}, []st§{{A: fmt.Sprint("n")}}, [...]string{1: fmt.Sprint("i")})`,
			`fmt.Println(map[string]st§{fmt.Sprint("mk"): {A: fmt.Sprint("mv")}}, map[st§]bool{{A: fmt.Sprint("sk")}: true})`,
			`cl§ := func() string { return fmt.Sprint("cl") }
	fmt.Println(cl§(), func(s string) string { return s + fmt.Sprint("!") }(fmt.Sprint("iife")))`,
			`fmt.Println(fmt.Errorf("e%d", §).Error(), st§{}.with(fmt.Sprint("w")).A)
	ef§ := fmt.Errorf("mv").Error
	rp§ := strings.NewReplacer("a", fmt.Sprint("b")).Replace
	fmt.Println(ef§(), rp§("aa"))`,
			`for _, c := range fmt.Sprint("ab") {
		fmt.Println(string(c))
	}
	for i := len(fmt.Sprint(1)); i < len(fmt.Sprint(123)); i += len(fmt.Sprint(1)) {
		fmt.Println("loop", i)
	}`,
			`if s := fmt.Sprint(1); s == fmt.Sprint(1) && len(fmt.Sprint(12)) > 1 {
		fmt.Println("if", s)
	} else if fmt.Sprint(2) == "3" {
		fmt.Println("never")
	}`,
			`fmt.Println(interface{}(fmt.Sprint("t")).(string), -len(fmt.Sprint(1)), (fmt.Sprint("p")), *(&[]string{fmt.Sprint("s")}[0]), !(fmt.Sprint(1) == "2"))
	fmt.Println([]interface{}{fmt.Sprint("v"), 1}...)`,
			`acc§ := ""
	acc§ += fmt.Sprint(1)
	var typed§ string = fmt.Sprintf("%02d", §)
	n§, e§ := len(fmt.Sprint(12)), fmt.Errorf("x")
	fmt.Println(acc§, typed§, n§, e§)`,
			`switch x := interface{}(fmt.Sprint(1)).(type) {
	case string:
		fmt.Println("ts", x)
	}`,
			`lb§:
	for {
		fmt.Println(fmt.Sprint("labeled"))
		break lb§
	}`,
		}, min: 6},
	{kind: "globals", weight: 4, imports: []string{"fmt"},
		decls: `var g§ = fmt.Sprintf("g%d", §)

const k§ = § + 1

var (
	m§ = map[string]int{"a": k§}
	e§ = fmt.Errorf("e%d", k§)
)
`,
		lines: []string{`fmt.Println(g§, k§, m§, e§)`, `fmt.Printf("%s %d\n", g§, len(m§))`}, min: 1},
	// --- units that exhibit recorded defects of the tree (known findings) ---
	{kind: "lowercase-method-collision", weight: 2, imports: []string{"fmt"},
		decls: "type lc§ struct{}\n\nfunc (lc§) Foo() { fmt.Println(\"Foo\") }\nfunc (lc§) foo() { fmt.Println(\"foo\") }\n",
		lines: []string{`var t lc§
	t.Foo()`}, min: 1},
	{kind: "lowercase-field-call", weight: 2, imports: []string{"fmt"},
		decls: "type fc§ struct{ F func(int) int }\n",
		lines: []string{`s := fc§{F: func(x int) int { return x + 1 }}
	fmt.Println(s.F(1))`}, min: 1},
	{kind: "lowercase-pkg-typeconv", weight: 2, imports: []string{"fmt", "time"},
		lines: []string{`fmt.Println(time.Duration(5))`}, min: 1},
	{kind: "lambda-untyped-param", weight: 2, imports: []string{"fmt"},
		lines: []string{`anyOf(func(x int) int { return x })
	fmt.Println("after")`}, min: 1},
}

// chainUnit: call statements over selector chains: root of every kind (identifier, call result,
// index, parenthesis, type assertion, composite literal, map index) × depth 1..3 × unexported /
// exported methods and func-typed fields × 0 / 1 / n arguments.
func chainUnit(r *vh.Rand, idx int) *unit {
	decls := `type ct§ struct {
	n  int
	in *ct§
	h  func()
	g  func(int)
}

func (c *ct§) inc()             { c.n++; fmt.Println("inc", c.n) }
func (c *ct§) Bump()            { c.n += 10; fmt.Println("Bump", c.n) }
func (c *ct§) add(d int) *ct§   { c.n += d; fmt.Println("add", c.n); return c }
func (c *ct§) Add3(a, b, d int) { c.n += a + b + d; fmt.Println("Add3", c.n) }
func (c *ct§) self() *ct§       { return c }

type cn§ struct {
	cnt  *ct§
	hf   func()
	kids []*cn§
}

func (c *cn§) touch()      { fmt.Println("touch", c.cnt.n) }
func (c *cn§) Poke(k int)  { fmt.Println("Poke", c.cnt.n+k) }

func nc§() *ct§ {
	c := &ct§{}
	c.in = c
	c.h = func() { fmt.Println("h", c.n) }
	c.g = func(k int) { fmt.Println("g", c.n+k) }
	return c
}

func nn§() *cn§ {
	c := &cn§{cnt: nc§()}
	c.hf = func() { fmt.Println("hf", c.cnt.n) }
	c.kids = []*cn§{c}
	return c
}

var root§ = nn§()

func get§() *cn§ { return root§ }
`
	roots := []string{"r", "get§()", "rs[0]", "(r)", "ri.(*cn§)", "(&cn§{cnt: nc§(), kids: root§.kids, hf: root§.hf})", "mp[\"k\"]", "cn§{cnt: nc§(), kids: root§.kids, hf: root§.hf}", "get§().kids[0]", "(*pr)"}
	paths := []string{".cnt", ".cnt.in", ".cnt.self()", ".cnt.in.in", ".kids[0].cnt", ".cnt.self().in"}
	members := []string{"inc()", "Bump()", "h()", "add(2)", "Add3(1, 2, 3)", "g(5)", "self().inc()", "add(1).add(2)"}
	own := []string{"touch()", "Poke(4)", "hf()"}
	var b strings.Builder
	b.WriteString("\tr := root§\n\trs := []*cn§{root§}\n\tvar ri interface{} = root§\n\tmp := map[string]*cn§{\"k\": root§}\n\tpr := &r\n\t_, _, _, _, _ = r, rs, ri, mp, pr\n")
	n := 14 + r.Intn(10)
	for i := 0; i < n; i++ {
		root := roots[r.Intn(len(roots))]
		if r.Chance(25) {
			if strings.HasPrefix(root, "cn§{") { // touch needs a pointer receiver on an addressable value
				root = "get§()"
			}
			fmt.Fprintf(&b, "\t%s.%s\n", root, own[r.Intn(len(own))])
			continue
		}
		fmt.Fprintf(&b, "\t%s%s.%s\n", root, paths[r.Intn(len(paths))], members[r.Intn(len(members))])
	}
	src := "package main\n\nimport \"fmt\"\n\n" + decls + "\nfunc unit§() {\n" + b.String() + "}\n"
	return &unit{idx: idx, kind: "call-chain", name: fmt.Sprintf("u%d", idx), src: inst(src, idx)}
}

func templateUnit(r *vh.Rand, idx int) *unit {
	if r.Chance(8) {
		return chainUnit(r, idx)
	}
	total := 0
	for _, t := range templates {
		total += t.weight
	}
	k := r.Intn(total)
	var t tmpl
	for _, c := range templates {
		if k < c.weight {
			t = c
			break
		}
		k -= c.weight
	}
	return unitFromTemplate(r, idx, t)
}

func templateByKind(kind string) tmpl {
	for _, t := range templates {
		if t.kind == kind {
			return t
		}
	}
	panic("no template " + kind)
}

func unitFromTemplate(r *vh.Rand, idx int, t tmpl) *unit {
	body := t.pre
	if body != "" {
		body = "\t" + body
	}
	body += pickLines(r, t.lines, t.min)
	if t.post != "" {
		body += "\t" + t.post
	}
	// imports actually used by the chosen statements and the declarations
	var b strings.Builder
	b.WriteString("package main\n\n")
	used := func(p string) bool {
		base := p
		return strings.Contains(body, base+".") || strings.Contains(t.decls, base+".")
	}
	var imps []string
	for _, p := range t.imports {
		if used(p) {
			imps = append(imps, p)
		}
	}
	switch {
	case len(imps) == 1:
		fmt.Fprintf(&b, "import %q\n\n", imps[0])
	case len(imps) > 1:
		if r.Bool() {
			b.WriteString("import (\n")
			for _, p := range imps {
				fmt.Fprintf(&b, "\t%q\n", p)
			}
			b.WriteString(")\n\n")
		} else {
			for _, p := range imps {
				fmt.Fprintf(&b, "import %q\n", p)
			}
			b.WriteString("\n")
		}
	}
	if t.decls != "" {
		b.WriteString(t.decls + "\n")
	}
	b.WriteString("func unit§() {\n" + body + "}\n")
	return &unit{idx: idx, kind: t.kind, name: fmt.Sprintf("u%d", idx), src: inst(b.String(), idx)}
}

// ---------------------------------------------------------------------------------------------
// feature programs: the main file itself is what is tested

func unitCalls(live []*unit) string {
	var b strings.Builder
	for _, u := range live {
		fmt.Fprintf(&b, "\tfmt.Println(\"<%d\")\n\tunit%d()\n\tfmt.Println(\">%d\")\n", u.idx, u.idx, u.idx)
	}
	return b.String()
}

func featurePrograms(r *vh.Rand, nextIdx *int, seed uint64, tier string) []*program {
	small := func(n int) []*unit {
		var us []*unit
		for i := 0; i < n; i++ {
			us = append(us, genUnit(r.Fork(*nextIdx), *nextIdx, seed))
			*nextIdx++
		}
		return us
	}
	mk := func(name, kind string, n int, main func(calls string) string, extra map[string]string) *program {
		p := &program{name: name, kind: kind, units: small(n), extra: extra, noCommon: n == 0}
		p.mainSrc = func(live []*unit) string { return main(unitCalls(live)) }
		return p
	}
	var ps []*program
	// main is the last declaration: it is unwrapped into top-level statements
	ps = append(ps, mk("mainunwrap", "main-unwrap", 3, func(calls string) string {
		return `package main

import (
	"fmt"
	"os"
)

type cfg struct{ name string }

func (c cfg) String() string { return "cfg:" + c.name }

func helper(n int) int { return n + 1 }

func main() {
	fmt.Println("start", helper(1))
	mcfg := cfg{"x"}
	fmt.Println(mcfg)
	defer fmt.Println("deferred in main")
	mtotal := 0
	for mi := 0; mi < 3; mi++ {
		mtotal += helper(mi)
	}
	fmt.Printf("total=%d\n", mtotal)
` + calls + `	if len(os.Args) > 5 {
		return
	}
	func() {
		fmt.Println("closure", mtotal)
	}()
	var mlate = helper(mtotal)
	fmt.Println("late", mlate)
}
`
	}, nil))
	// main is not the last declaration: kept as a function
	ps = append(ps, mk("mainnotlast", "main-not-last", 2, func(calls string) string {
		return `package main

import "fmt"

func main() {
	fmt.Println("start")
` + calls + `	after()
}

func after() {
	fmt.Println("after main")
}
`
	}, nil))
	// package-level initialisation order and init functions (only in this file)
	ps = append(ps, mk("maininit", "main-init-globals", 2, func(calls string) string {
		return `package main

import "fmt"

func mk(s string) int { fmt.Println("mk", s); return len(s) }

var g1 = mk("g1")

func init() { fmt.Println("init1", g1) }

var g2 = mk("g2") + g1

func init() { fmt.Println("init2", g2) }

func main() {
	fmt.Println("main", g1, g2)
` + calls + `}
`
	}, nil))
	// exit status and panic
	ps = append(ps, mk("mainexit", "main-exit", 1, func(calls string) string {
		return `package main

import (
	"fmt"
	"os"
)

func main() {
	fmt.Println("before exit")
` + calls + `	defer fmt.Println("never printed")
	os.Exit(3)
}
`
	}, nil))
	ps = append(ps, mk("mainpanic", "main-panic", 1, func(calls string) string {
		return `package main

import (
	"errors"
	"fmt"
)

func main() {
	defer func() {
		r := recover()
		fmt.Println("recovered", r)
		panic(fmt.Errorf("again: %v", r))
	}()
	fmt.Println("before panic")
` + calls + `	panic(errors.New("boom"))
}
`
	}, nil))
	// a function of the same file is called like a builtin the formatter rewrites to (fix 94c70f5)
	ps = append(ps, mk("capturesame", "builtin-name-capture", 0, func(calls string) string {
		return `package main

import "fmt"

func echo(a ...interface{}) { fmt.Print("my echo\n") }

func errorf(format string, a ...interface{}) error { return nil }

var sprint = "not a function"

func main() {
	fmt.Println("x")
	fmt.Println(fmt.Errorf("e"), fmt.Sprint(1), sprint)
	echo("direct")
	fmt.Printf("%d\n", 3)
}
`
	}, nil))
	// --- known findings ---
	// a local variable declaration that opens main becomes a package-level variable
	ps = append(ps, mk("mainleadingvar", "main-unwrap-leading-var", 0, func(calls string) string {
		return `package main

import "fmt"

func mk(s string) int { fmt.Println("mk", s); return 1 }

func init() { fmt.Println("init") }

func main() {
	var a = mk("a")
	fmt.Println("main", a)
}
`
	}, nil))
	// a fmt function used as a value inside a composite literal: the rewritten builtin is emitted
	// unresolved by the compiler (the generated Go does not build)
	ps = append(ps, mk("fmtvaluecomposite", "fmt-value-in-composite", 0, func(calls string) string {
		return `package main

import "fmt"

func main() {
	fs := []func(a ...interface{}) (int, error){fmt.Println, fmt.Print}
	fs[0]("slot0")
	fs[1]("slot1\n")
}
`
	}, nil))
	// the capturing function is declared in another file of the package
	ps = append(ps, mk("capturecross", "builtin-name-capture-crossfile", 0, func(calls string) string {
		return `package main

import "fmt"

func main() {
	fmt.Println("x")
}
`
	}, map[string]string{"other.go": `package main

import "os"

func echo(a ...interface{}) { os.Stdout.WriteString("my echo\n") }
`}))
	return ps
}
