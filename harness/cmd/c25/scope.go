package main

// Scope-tree units: random trees of blocks / declarations / uses `X.Sel`, mirroring
// Model/GopStyle.lean `Stmt`.  Each tree is rendered as a valid Go file (a unit of the test
// package) AND as the postfix case line for the Lean driver.  The generator tracks Go's scoping
// itself (what `X` denotes at each point) to render uses that type-check.

import (
	"fmt"
	"strings"

	"verifharness/vh"
)

type S struct {
	k           string // skip seq block use def var type flit if for range switch clause label
	names       []string
	x, sel, tag string
	d           bool
	c           []*S
	form        string // use: call|value ; flit: iife|argblock|arg1
	ids         []string
	elseTaken   bool
	nclauses    int
}

func sk() *S { return &S{k: "skip"} }

func seqOf(xs []*S) *S {
	if len(xs) == 0 {
		return sk()
	}
	r := xs[0]
	for _, x := range xs[1:] {
		r = &S{k: "seq", c: []*S{r, x}}
	}
	return r
}

// postfix encoding for the driver
func (s *S) postfix(b *strings.Builder) {
	for _, c := range s.c {
		c.postfix(b)
	}
	switch s.k {
	case "skip", "seq", "block", "if", "for", "switch", "clause":
		b.WriteString(s.k + " ")
	case "use":
		fmt.Fprintf(b, "use:%s:%s:%s ", s.x, s.sel, s.tag)
	case "def", "var", "flit":
		fmt.Fprintf(b, "%s:%s ", s.k, strings.Join(s.names, ","))
	case "type", "label":
		fmt.Fprintf(b, "%s:%s ", s.k, s.names[0])
	case "range":
		d := "0"
		if s.d {
			d = "1"
		}
		fmt.Fprintf(b, "range:%s:%s ", d, strings.Join(s.names, ","))
	}
}

type envKind int

const (
	kNone envKind = iota
	kImport
	kVarT
	kTypeT
	kOther // declared, but not usable as X (int loop variables etc.)
)

// env: what every name denotes at this point (Go scoping, generator side) and the names declared
// in the current block (a block cannot declare a name twice).
type env struct {
	vis map[string]envKind
	cur map[string]bool
}

func newEnv() env { return env{vis: map[string]envKind{}, cur: map[string]bool{}} }

// clone opens a nested block.
func (e env) clone() env {
	n := newEnv()
	for k, v := range e.vis {
		n.vis[k] = v
	}
	return n
}

func (e env) set(name string, k envKind) { e.vis[name] = k; e.cur[name] = true }

type sgen struct {
	r       *vh.Rand
	unit    int
	ntag    int
	nid     int
	tags    []string
	imports []imp // imports of the file
	stmts   int
	labels  map[string]bool // labels of the current function (unique per function)
}

type imp struct{ name, path string }

var fmtSels = []string{"Println", "Printf", "Print", "Sprint", "Sprintf", "Sprintln", "Errorf", "Sscan"}
var strSels = []string{"Sprint", "Sprintf", "Sprintln"} // selectors that yield a string (expression positions)

func (g *sgen) tag() string {
	g.ntag++
	t := fmt.Sprintf("u%dt%d", g.unit, g.ntag)
	g.tags = append(g.tags, t)
	return t
}
func (g *sgen) id() string { g.nid++; return fmt.Sprintf("d%d", g.nid) }

// shadow candidates: the file's import names and the builtin names the formatter rewrites to
func (g *sgen) shadowName() string {
	var c []string
	for _, i := range g.imports {
		c = append(c, i.name, i.name)
	}
	c = append(c, "echo", "printf", "errorf", "sprint", "print", "println", "sprintf", "x9")
	return c[g.r.Intn(len(c))]
}

// declName: a shadow candidate not yet declared in the current block
func (g *sgen) declName(e env) string {
	for try := 0; try < 6; try++ {
		if n := g.shadowName(); !e.cur[n] {
			return n
		}
	}
	return "x" + g.id()
}

// usable X at this point: imports not hidden, and T variables; types only in value form
func (g *sgen) pickX(e env, exprPos bool) (x string, kind envKind, ok bool) {
	var c []string
	for _, i := range g.imports {
		c = append(c, i.name, i.name)
	}
	for n, k := range e.vis {
		if k == kVarT || (k == kTypeT && !exprPos) {
			c = append(c, n)
		}
	}
	// deterministic order
	sortStrings(c)
	for try := 0; try < 8; try++ {
		x = c[g.r.Intn(len(c))]
		k, declared := e.vis[x]
		if !declared {
			return x, kImport, true
		}
		if k == kVarT || (k == kTypeT && !exprPos) {
			return x, k, true
		}
	}
	return "", kNone, false
}

func sortStrings(xs []string) {
	for i := 1; i < len(xs); i++ {
		for j := i; j > 0 && xs[j] < xs[j-1]; j-- {
			xs[j], xs[j-1] = xs[j-1], xs[j]
		}
	}
}

func (g *sgen) pathOf(x string) string {
	for _, i := range g.imports {
		if i.name == x {
			return i.path
		}
	}
	return ""
}

// selectors available on what x denotes
func (g *sgen) pickSel(x string, kind envKind, exprPos bool) string {
	if kind == kImport {
		switch g.pathOf(x) {
		case "strings":
			return "ToUpper"
		case "strconv":
			return "Quote"
		}
	}
	if exprPos {
		return strSels[g.r.Intn(len(strSels))]
	}
	return fmtSels[g.r.Intn(len(fmtSels))]
}

func (g *sgen) use(e env, exprPos bool) *S {
	x, kind, ok := g.pickX(e, exprPos)
	if !ok {
		return sk()
	}
	s := &S{k: "use", x: x, sel: g.pickSel(x, kind, exprPos), tag: g.tag(), form: "call"}
	if kind == kTypeT {
		s.form = "value"
	}
	return s
}

// exprUse: an expression tree (possibly empty) for rhs/cond positions
func (g *sgen) exprUse(e env, p int) *S {
	if g.r.Chance(p) {
		return g.use(e, true)
	}
	return sk()
}

func (g *sgen) stmt(e env, depth int) *S {
	g.stmts++
	r := g.r
	k := r.Intn(100)
	if depth <= 0 || g.stmts > 40 {
		k = k % 45
	}
	switch {
	case k < 30:
		return g.use(e, false)
	case k < 40: // define (sometimes two names)
		n := g.declName(e)
		s := &S{k: "def", names: []string{n}, c: []*S{g.exprUse(e, 50)}, ids: []string{g.id()}}
		e.set(n, kVarT)
		if r.Chance(20) {
			m := g.declName(e)
			s.names = append(s.names, m)
			s.ids = append(s.ids, g.id())
			e.set(m, kVarT)
		}
		return s
	case k < 45: // var
		n := g.declName(e)
		s := &S{k: "var", names: []string{n}, c: []*S{g.exprUse(e, 50)}, ids: []string{g.id()}}
		e.set(n, kVarT)
		return s
	case k < 48: // local type
		n := g.declName(e)
		e.set(n, kTypeT)
		return &S{k: "type", names: []string{n}, c: []*S{sk()}}
	case k < 56:
		return &S{k: "block", c: []*S{g.stmts_(e.clone(), depth-1, 1+r.Intn(3))}}
	case k < 64: // function literal
		var ps []string
		if r.Chance(70) {
			ps = append(ps, g.shadowName())
		}
		e2 := e.clone() // parameters live in the body block
		for _, p := range ps {
			e2.set(p, kVarT)
		}
		form := []string{"iife", "argblock", "arg1"}[r.Intn(3)]
		if len(ps) == 0 && form == "arg1" {
			form = "argblock"
		}
		if len(ps) == 1 && form == "argblock" {
			form = "arg1"
		}
		return &S{k: "flit", names: ps, form: form, ids: []string{g.id()}, c: []*S{g.stmts_(e2, depth-1, 1+r.Intn(3))}}
	case k < 72: // if
		e1 := e.clone()
		var init *S = sk()
		if r.Chance(60) {
			n := g.shadowName()
			init = &S{k: "def", names: []string{n}, c: []*S{g.exprUse(e, 30)}, ids: []string{g.id()}}
			e1.set(n, kVarT)
		}
		cond := g.exprUse(e1, 50)
		s := &S{k: "if", elseTaken: r.Chance(40)}
		thn := g.stmts_(e1.clone(), depth-1, 1+r.Intn(2))
		var els *S = sk()
		if r.Chance(60) {
			els = &S{k: "block", c: []*S{g.stmts_(e1.clone(), depth-1, 1+r.Intn(2))}}
		} else {
			s.elseTaken = false
		}
		s.c = []*S{init, cond, thn, els}
		return s
	case k < 80: // for
		e1 := e.clone()
		cnt := "c" + g.id()
		names := []string{cnt}
		ids := []string{""}
		if r.Chance(50) {
			n := g.shadowName()
			names = append(names, n)
			ids = append(ids, g.id())
			e1.set(n, kVarT)
		}
		e1.set(cnt, kOther)
		init := &S{k: "def", names: names, ids: ids, c: []*S{sk()}}
		cond := g.exprUse(e1, 30)
		var post *S = sk()
		if r.Chance(35) {
			post = g.use(e1, false)
		}
		body := g.stmts_(e1.clone(), depth-1, 1+r.Intn(2))
		return &S{k: "for", c: []*S{init, cond, post, body}}
	case k < 87: // range
		s := &S{k: "range", d: r.Chance(75)}
		var x *S = sk()
		if s.d {
			x = g.exprUse(e, 40)
		}
		e1 := e.clone()
		if s.d {
			n := g.shadowName()
			if r.Bool() {
				s.names = []string{"_", n}
			} else {
				s.names = []string{n}
				s.form = "key"
			}
			e1.set(n, kVarT)
			s.ids = []string{g.id()}
		}
		body := g.stmts_(e1, depth-1, 1+r.Intn(2))
		s.c = []*S{x, body}
		return s
	case k < 95: // switch inside a counting loop so that every clause runs
		e0 := e.clone()
		sw := "s" + g.id()
		e0.set(sw, kOther)
		e1 := e0.clone()
		var init *S = sk()
		if r.Chance(50) {
			n := g.shadowName()
			init = &S{k: "def", names: []string{n}, c: []*S{sk()}, ids: []string{g.id()}}
			e1.set(n, kVarT)
		}
		ncl := 1 + r.Intn(3)
		var cls []*S
		for i := 0; i < ncl; i++ {
			ex := g.exprUse(e1, 30)
			body := g.stmts_(e1.clone(), depth-1, 1+r.Intn(2))
			cls = append(cls, &S{k: "clause", c: []*S{ex, body}})
		}
		swS := &S{k: "switch", nclauses: ncl, names: []string{sw}, c: []*S{init, sk(), seqOf(cls)}}
		loopInit := &S{k: "def", names: []string{sw}, ids: []string{""}, c: []*S{sk()}}
		return &S{k: "for", form: "swloop", nclauses: ncl, c: []*S{loopInit, sk(), sk(), swS}}
	default: // labeled loop; the label may be called like an import
		l := g.shadowName()
		if l == "x9" || r.Bool() || g.labels[l] {
			l = "L" + g.id()
		}
		g.labels[l] = true
		e1 := e.clone()
		cnt := "c" + g.id()
		e1.set(cnt, kOther)
		init := &S{k: "def", names: []string{cnt}, ids: []string{""}, c: []*S{sk()}}
		body := g.stmts_(e1, depth-1, 1+r.Intn(2))
		return &S{k: "label", names: []string{l}, c: []*S{{k: "for", form: "labeled", names: []string{l}, c: []*S{init, sk(), sk(), body}}}}
	}
}

func (g *sgen) stmts_(e env, depth, n int) *S {
	var xs []*S
	for i := 0; i < n; i++ {
		xs = append(xs, g.stmt(e, depth))
	}
	return seqOf(xs)
}

// ---------------------------------------------------------------------------------------------
// rendering to Go

func tval(id string) string { return fmt.Sprintf("newT(%q)", id) }

// expression text of an expression-position tree (a single use or skip): a string value
func (s *S) exprText() string {
	if s.k != "use" {
		return ""
	}
	return s.callText()
}

func (s *S) callText() string {
	switch s.sel {
	case "Printf", "Sprintf", "Errorf":
		return fmt.Sprintf("%s.%s(\"%%s|\", %q)", s.x, s.sel, s.tag)
	case "Print":
		return fmt.Sprintf("%s.%s(%q, \"\\n\")", s.x, s.sel, s.tag)
	}
	return fmt.Sprintf("%s.%s(%q)", s.x, s.sel, s.tag)
}

func (s *S) useStmtText() string {
	if s.form == "value" {
		return fmt.Sprintf("emitf(%s.%s, %q)", s.x, s.sel, s.tag)
	}
	switch s.sel {
	case "Println", "Print":
		return s.callText()
	case "Printf":
		return fmt.Sprintf("%s.Printf(\"%%s\\n\", %q)", s.x, s.tag)
	}
	return "emit(" + s.callText() + ")"
}

func argOf(e *S, id string) string {
	if t := e.exprText(); t != "" {
		return "newT(" + t + ")"
	}
	return tval(id)
}

func condOf(e *S, val bool) string {
	t := e.exprText()
	switch {
	case t == "" && val:
		return "true"
	case t == "":
		return "false"
	case val:
		return "len(" + t + ") >= 0"
	}
	return "len(" + t + ") < 0"
}

func (s *S) render(b *strings.Builder, ind string) {
	w := func(format string, a ...interface{}) { fmt.Fprintf(b, ind+format+"\n", a...) }
	switch s.k {
	case "skip":
	case "seq":
		s.c[0].render(b, ind)
		s.c[1].render(b, ind)
	case "block":
		w("{")
		s.c[0].render(b, ind+"\t")
		w("}")
	case "use":
		w("%s", s.useStmtText())
	case "def", "var":
		vals := make([]string, len(s.names))
		for i := range s.names {
			if i == 0 {
				vals[i] = argOf(s.c[0], s.ids[i])
			} else {
				vals[i] = tval(s.ids[i])
			}
		}
		if s.k == "def" {
			w("%s := %s", strings.Join(s.names, ", "), strings.Join(vals, ", "))
		} else {
			w("var %s = %s", s.names[0], vals[0])
		}
		for _, n := range s.names {
			w("_ = %s", n)
		}
	case "type":
		w("type %s struct{ T }", s.names[0])
	case "flit":
		ps := make([]string, len(s.names))
		as := make([]string, len(s.names))
		for i, n := range s.names {
			ps[i] = n + " T"
			as[i] = tval(s.ids[0])
		}
		switch s.form {
		case "iife":
			w("func(%s) {", strings.Join(ps, ", "))
			s.c[0].render(b, ind+"\t")
			w("}(%s)", strings.Join(as, ", "))
		case "argblock":
			w("run0(func() {")
			s.c[0].render(b, ind+"\t")
			w("})")
		case "arg1":
			w("run1(func(%s) {", ps[0])
			s.c[0].render(b, ind+"\t")
			w("}, %s)", as[0])
		}
	case "if":
		init, cond, thn, els := s.c[0], s.c[1], s.c[2], s.c[3]
		hdr := "if "
		if init.k == "def" {
			hdr += fmt.Sprintf("%s := %s; ", init.names[0], argOf(init.c[0], init.ids[0]))
		}
		hdr += condOf(cond, !s.elseTaken) + " {"
		w("%s", hdr)
		if init.k == "def" {
			w("\t_ = %s", init.names[0])
		}
		thn.render(b, ind+"\t")
		if els.k == "block" {
			w("} else {")
			if init.k == "def" {
				w("\t_ = %s", init.names[0])
			}
			els.c[0].render(b, ind+"\t")
		}
		w("}")
	case "for":
		init, cond, post, body := s.c[0], s.c[1], s.c[2], s.c[3]
		cnt := init.names[0]
		switch s.form {
		case "swloop":
			w("for %s := 0; %s < %d; %s++ {", cnt, cnt, s.nclauses, cnt)
			body.render(b, ind+"\t")
			w("}")
		case "labeled":
			w("for %s := 0; %s < 2; %s++ {", cnt, cnt, cnt)
			body.render(b, ind+"\t")
			w("\tif %s == 0 {", cnt)
			w("\t\tcontinue %s", s.names[0])
			w("\t}")
			w("\tbreak %s", s.names[0])
			w("}")
		default:
			names := strings.Join(init.names, ", ")
			vals := []string{"0"}
			for _, id := range init.ids[1:] {
				vals = append(vals, tval(id))
			}
			c := cnt + " < 1"
			if t := cond.exprText(); t != "" {
				c += " && len(" + t + ") >= 0"
			}
			if post.k == "use" {
				// the post statement is the use; the counter is advanced in the body
				pt := post.useStmtText()
				w("for %s := %s; %s; %s {", names, strings.Join(vals, ", "), c, pt)
				w("\t%s++", cnt)
			} else {
				w("for %s := %s; %s; %s++ {", names, strings.Join(vals, ", "), c, cnt)
			}
			for _, n := range init.names[1:] {
				w("\t_ = %s", n)
			}
			body.render(b, ind+"\t")
			w("}")
		}
	case "range":
		x, body := s.c[0], s.c[1]
		if !s.d {
			w("for range []int{0} {")
		} else if s.form == "key" {
			w("for %s := range map[T]bool{%s: true} {", s.names[0], argOf(x, s.ids[0]))
			w("\t_ = %s", s.names[0])
		} else {
			w("for _, %s := range []T{%s} {", s.names[1], argOf(x, s.ids[0]))
			w("\t_ = %s", s.names[1])
		}
		body.render(b, ind+"\t")
		w("}")
	case "switch":
		init, cls := s.c[0], s.c[2]
		hdr := "switch "
		if init.k == "def" {
			hdr += fmt.Sprintf("%s := %s; ", init.names[0], tval(init.ids[0]))
		}
		w("%s{", hdr)
		var list []*S
		var flat func(x *S)
		flat = func(x *S) {
			if x.k == "seq" {
				flat(x.c[0])
				flat(x.c[1])
			} else if x.k == "clause" {
				list = append(list, x)
			}
		}
		flat(cls)
		for i, cl := range list {
			c := fmt.Sprintf("%s == %d", s.names[0], i)
			if t := cl.c[0].exprText(); t != "" {
				c += " && len(" + t + ") >= 0"
			}
			w("case %s:", c)
			if init.k == "def" {
				w("\t_ = %s", init.names[0])
			}
			cl.c[1].render(b, ind+"\t")
		}
		w("}")
	case "label":
		fmt.Fprintf(b, "%s%s:\n", strings.TrimSuffix(ind, "\t"), s.names[0])
		s.c[0].render(b, ind)
	}
}
