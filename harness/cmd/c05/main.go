// Differential + oracle harness for C05 (string interpolation).
//
// Part A (parser level): generated literals through the real parser.ParseExprFrom; the
// BasicLit.Extra.Parts (string parts, expression parts with their offsets) and the two
// "invalid $ expression" errors are compared with the model's splitParts.
//
//	isplit <d|r> <hex text between the quotes>
//
// Part B (program level): ONE generated XGo program per run, compiled with the real compiler,
// built and executed.  For every literal it prints the interpolated value with the trace of the
// probe functions called by its embedded expressions, and the same for the explicit
// concatenation (text pieces, strconv formatting, Error()).  The oracle compares the two on
// the implementation; the case line lets the model compute the value from the split parts.
//
//	ival <d|r> <hex text> <hex string form of hole 1>,<hex … hole 2>,…
package main

import (
	"fmt"
	"os"
	"path/filepath"
	"regexp"
	"strconv"
	"strings"
	"time"

	"github.com/goplus/xgo/ast"
	"github.com/goplus/xgo/parser"
	"github.com/goplus/xgo/scanner"
	"github.com/goplus/xgo/token"
	"verifharness/vh"
	"verifharness/xrun"
)

// ---------------------------------------------------------------- part A

func quoteOf(q string) string {
	if q == "r" {
		return "`"
	}
	return `"`
}

// pieces a literal text is assembled from
var plainD = []string{"a", "b", "xyz", " ", "{", "}", "é", "日本", `\n`, `\"`, `\\`, `\x41`, `é`, "'", "`", "%s", "0"}
var plainR = []string{"a", "b", "xyz", " ", "{", "}", "é", "日本", `\n`, `\`, `"`, "'", "%s", "0", "\n"}
var special = []string{
	"$$", "$$", "${x}", "${a+b}", "${ x }", "${f(x)}", "${x.y}", "${1}", "${}", "${+}", "${x y}", "${ }",
	"${x", "${", "$", "$a", "$ ", "$}", "${{x}}", "${a}}", "${$}", "${$$}", "$${x}", "$$$", "${x}${y}", "$é", "${é}", "${日}",
}

func genText(r *vh.Rand, q string) string {
	plain := plainD
	if q == "r" {
		plain = plainR
	}
	n := r.Intn(7)
	var sb strings.Builder
	pSpecial := []int{10, 35, 60}[r.Intn(3)]
	for i := 0; i < n; i++ {
		if r.Chance(pSpecial) {
			s := special[r.Intn(len(special))]
			if q == "d" && strings.Contains(s, "`") {
				s = "$$"
			}
			sb.WriteString(s)
		} else {
			s := plain[r.Intn(len(plain))]
			if q == "r" && s == "`" {
				s = "'"
			}
			sb.WriteString(s)
		}
	}
	return sb.String()
}

func caseA(q, text string) string { return "isplit\t" + q + "\t" + vh.HexS(text) }

func runA(o *vh.Out, q, text string) {
	src := quoteOf(q) + text + quoteOf(q)
	impl := func() (res string) {
		defer func() {
			if e := recover(); e != nil {
				res = fmt.Sprintf("PANIC %v", e)
			}
		}()
		fset := token.NewFileSet()
		x, err := parser.ParseExprFrom(fset, "", []byte(src), parser.AllErrors)
		lit, ok := x.(*ast.BasicLit)
		if !ok || lit.Kind != token.STRING || lit.Value != src {
			o.Count("A_not_one_literal")
			return "NOTLIT"
		}
		base := int(lit.ValuePos) + 1 // position of the first byte of the text
		parts := "nil"
		if lit.Extra != nil {
			var ps []string
			for _, p := range lit.Extra.Parts {
				switch v := p.(type) {
				case string:
					ps = append(ps, "S:"+vh.HexS(v))
				case ast.Expr:
					a, b := int(v.Pos())-base, int(v.End())-base
					// the parser gets the bytes between `${` and `}`; the AST node is tight:
					// widen over blanks and line ends (generated expressions have no other padding)
					for a > 0 && a <= len(text) && isBlank(text[a-1]) {
						a--
					}
					for b >= 0 && b < len(text) && isBlank(text[b]) {
						b++
					}
					if _, bad := v.(*ast.BadExpr); bad {
						o.Count("A_badexpr_part")
					} else {
						o.Count("A_expr_part")
					}
					ps = append(ps, fmt.Sprintf("E:%d:%d", a, b))
				default:
					ps = append(ps, fmt.Sprintf("?%T", p))
				}
			}
			parts = strings.Join(ps, "|")
			o.Count(fmt.Sprintf("A_parts_%d", min2(len(lit.Extra.Parts), 6)))
		} else {
			o.Count("A_extra_nil")
		}
		es := "-"
		if el, ok := err.(scanner.ErrorList); ok {
			for _, e := range el {
				if !strings.HasPrefix(e.Msg, "invalid $ expression") {
					continue
				}
				k := "N"
				if strings.Contains(e.Msg, "doesn't end with") {
					k = "U"
				}
				if es != "-" {
					es += "+" // more than one: the model has at most one
				} else {
					es = ""
				}
				es += fmt.Sprintf("%s@%d", k, e.Pos.Offset-1)
			}
		}
		if es == "-" {
			o.Count("A_no_split_error")
		} else {
			o.Count("A_split_error_" + es[:1])
		}
		return parts + " " + es
	}()
	// property oracle on the implementation, independent of the model: when there is no error
	// the parts re-render to the reading `(char | $$ | ${e})*` of the text (refSplit)
	if !strings.HasPrefix(impl, "PANIC") && impl != "NOTLIT" && strings.HasSuffix(impl, " -") {
		want, ok := refItems(text, false)
		got := implItems(strings.TrimSuffix(impl, " -"), text)
		if !ok {
			// the grammar reading fails but the implementation reports nothing: acceptable only
			// as the lenient reading (a stray `$` / an unterminated `${` standing for itself)
			want, _ = refItems(text, true)
		}
		if got != want {
			o.Oracle("split-differs-from-grammar", caseA(q, text), "impl "+got+" want "+want)
		}
	}
	if strings.HasPrefix(impl, "PANIC") {
		o.Oracle("parser-panic", caseA(q, text), impl)
	}
	o.Case(caseA(q, text), impl, strings.Contains(text, "$"))
}

func isBlank(c byte) bool { return c == ' ' || c == '\t' || c == '\n' || c == '\r' }

func min2(a, b int) int {
	if a < b {
		return a
	}
	return b
}

// refItems: one left-to-right pass, independent of the Go code and of the Lean model.
// Items: bytes as hex, holes as <a:b>.  ok=false: the literal is erroneous.
func refItems(text string, lenient bool) (string, bool) {
	var sb strings.Builder
	i := 0
	sawSpecial := strings.Contains(text, "$$") || strings.Contains(text, "${")
	for i < len(text) {
		c := text[i]
		if c != '$' || i+1 == len(text) {
			fmt.Fprintf(&sb, "%02x", c)
			i++
			continue
		}
		switch text[i+1] {
		case '$':
			sb.WriteString("24")
			i += 2
		case '{':
			if i+2 == len(text) {
				sb.WriteString("247b")
				i += 2
				continue
			}
			j := strings.IndexByte(text[i+2:], '}')
			if j < 0 {
				if lenient {
					sb.WriteString("24")
					i++
					continue
				}
				return "", false
			}
			fmt.Fprintf(&sb, "<%d:%d>", i+2, i+2+j)
			i = i + 2 + j + 1
		default:
			if sawSpecial && !lenient {
				return "", false
			}
			// no `$$` / `${` anywhere: every `$` stands for itself
			fmt.Fprintf(&sb, "%02x", c)
			i++
		}
	}
	return sb.String(), true
}

func implItems(parts, text string) string {
	if parts == "nil" {
		return fmt.Sprintf("%x", text)
	}
	var sb strings.Builder
	for _, p := range strings.Split(parts, "|") {
		if strings.HasPrefix(p, "S:") {
			b, _ := vh.UnHex(p[2:])
			s := string(b)
			if strings.HasSuffix(s, "$$") { // what compileStringLitEx does with such a part
				s = s[:len(s)-1]
			}
			fmt.Fprintf(&sb, "%x", s)
		} else if strings.HasPrefix(p, "E:") {
			sb.WriteString("<" + p[2:] + ">")
		}
	}
	return sb.String()
}

// ---------------------------------------------------------------- part B

type hole struct {
	src  string // XGo expression text (no '}' and no quotes)
	conc string // explicit string form in XGo
	val  string // expected string form (harness-side strconv)
	ids  []int  // probe ids in evaluation order
}

type litB struct {
	q      string
	text   string   // literal text between the quotes
	pieces []string // "T<raw text>" / "H" in order (from splitRef)
	holes  []hole
	concat string // explicit concatenation expression
}

var strVars = []struct{ name, val string }{
	{"s0", "x"}, {"s1", "héllo"}, {"s2", ""}, {"s3", "$"}, {"s4", "a}b{"}, {"s5", "${s0}"}, {"s6", "line\nbreak"},
}

const preludeB = `import "strconv"

type myErr struct {
	msg string
}

func (e *myErr) Error() string {
	return e.msg
}

var ev []int

func pi(id int, n int) int {
	ev = append(ev, id)
	return n
}

func pl(id int, n int64) int64 {
	ev = append(ev, id)
	return n
}

func pu(id int, n uint64) uint64 {
	ev = append(ev, id)
	return n
}

func ps(id int, s string) string {
	ev = append(ev, id)
	return s
}

func pe(id int, s string) error {
	ev = append(ev, id)
	return &myErr{s}
}

type tag struct {
	n int
}

func (t tag) String() string {
	return "tag#" + strconv.Itoa(t.n)
}

func pt(id int, n int) tag {
	ev = append(ev, id)
	return tag{n}
}

func hx(s string) string {
	const d = "0123456789abcdef"
	b := []byte(s)
	r := make([]byte, 0, 2*len(b)+1)
	for _, c := range b {
		r = append(r, d[c>>4], d[c&15])
	}
	if len(r) == 0 {
		return "-"
	}
	return string(r)
}

func out(kind string, i int, v string) {
	println kind, i, hx(v), ev
	ev = nil
}

var vi = 42
var vneg = -7
var dl = "\x24"

`

var probeID = regexp.MustCompile(`p[iluset]\((\d+),`)

// mkHole derives the explicit string form and the evaluation order from the expression text
// (so that a replay can rebuild a literal from its case line).
func mkHole(src, val string) hole {
	h := hole{src: src, val: val}
	for _, m := range probeID.FindAllStringSubmatch(src, -1) {
		n, _ := strconv.Atoi(m[1])
		h.ids = append(h.ids, n)
	}
	switch {
	case strings.HasPrefix(src, "ps(") && strings.Contains(src, ", ps("): // nested call: inner first
		h.ids[0], h.ids[1] = h.ids[1], h.ids[0]
		h.conc = src
	case strings.HasPrefix(src, "ps("), strings.HasPrefix(src, "s"):
		h.conc = src
	case strings.HasPrefix(src, "pi("), src == "vi":
		h.conc = "strconv.Itoa(" + src + ")"
	case strings.HasPrefix(src, "pl("):
		h.conc = "strconv.FormatInt(" + src + ", 10)"
	case strings.HasPrefix(src, "pu("):
		h.conc = "strconv.FormatUint(" + src + ", 10)"
	case strings.HasPrefix(src, "pe("):
		h.conc = src + ".Error()"
	case strings.HasPrefix(src, "pt("):
		h.conc = src + ".String()"
	default:
		h.conc = "UNKNOWN_HOLE"
	}
	return h
}

func genHole(r *vh.Rand, id *int) (string, string) {
	next := func() int { *id++; return *id }
	sv := strVars[r.Intn(len(strVars))]
	n := r.Intn(2001) - 1000
	switch r.Intn(11) {
	case 0, 1:
		return fmt.Sprintf("pi(%d, %d)", next(), n), strconv.Itoa(n)
	case 2:
		big := int64(n) * 4294967311
		return fmt.Sprintf("pl(%d, %d)", next(), big), strconv.FormatInt(big, 10)
	case 3:
		u := uint64(n+1000) * 9223372036854775
		return fmt.Sprintf("pu(%d, %d)", next(), u), strconv.FormatUint(u, 10)
	case 4, 5:
		return fmt.Sprintf("ps(%d, %s)", next(), sv.name), sv.val
	case 6:
		return fmt.Sprintf("pe(%d, %s)", next(), sv.name), sv.val
	case 7:
		return fmt.Sprintf("pt(%d, %d)", next(), n), "tag#" + strconv.Itoa(n)
	case 8: // variables: no event
		if r.Bool() {
			return "vi", "42"
		}
		return sv.name, sv.val
	case 9: // arithmetic over two probes: evaluated left to right
		i, j := next(), next()
		return fmt.Sprintf("pi(%d, %d) + pi(%d, 3)*vneg", i, n, j), strconv.Itoa(n - 21)
	default: // nested call: inner first
		i, j := next(), next()
		return fmt.Sprintf("ps(%d, ps(%d, %s) + s0)", i, j, sv.name), sv.val + "x"
	}
}

var textD = []string{"a", "xyz", " ", "{", "}", "}{", "é", "日本", `\n`, `\t`, `\"`, `\\`, `\x41`, "'", "`", "%d", "0", "$$", "$$", "$$$$", "a$$b"}
var textR = []string{"a", "xyz", " ", "{", "}", "}{", "é", "日本", `\n`, `\`, `"`, "'", "%d", "0", "$$", "$$", "$$$$", "a$$b", "\n"}

// value of a text piece (the generator's own table, independent of strconv.Unquote)
func pieceValue(q, p string) string {
	if q == "r" {
		return p
	}
	rep := strings.NewReplacer(`\n`, "\n", `\t`, "\t", `\"`, `"`, `\\`, `\`, `\x41`, "A")
	return rep.Replace(p)
}

// splitRef: the grammar reading of a valid literal text, one left-to-right pass:
// text pieces (with `$$` already read as `$`) and the sources of the holes.
func splitRef(text string) (pieces []string, holeSrc []string) {
	cur := ""
	flush := func() {
		if cur != "" {
			pieces = append(pieces, "T"+cur)
			cur = ""
		}
	}
	for i := 0; i < len(text); {
		if text[i] == '$' && i+1 < len(text) && text[i+1] == '$' {
			cur += "$"
			i += 2
			continue
		}
		if text[i] == '$' && i+2 < len(text) && text[i+1] == '{' {
			if j := strings.IndexByte(text[i+2:], '}'); j >= 0 {
				flush()
				pieces = append(pieces, "H")
				holeSrc = append(holeSrc, text[i+2:i+2+j])
				i += 2 + j + 1
				continue
			}
		}
		cur += text[i : i+1]
		i++
	}
	flush()
	return
}

// finish derives pieces and the explicit concatenation from the text and the hole values
func finish(q, text string, vals []string) litB {
	l := litB{q: q, text: text}
	qt := quoteOf(q)
	var srcs []string
	l.pieces, srcs = splitRef(text)
	var terms []string
	hi := 0
	for _, p := range l.pieces {
		if p == "H" {
			v := ""
			if hi < len(vals) {
				v = vals[hi]
			}
			h := mkHole(srcs[hi], v)
			hi++
			l.holes = append(l.holes, h)
			terms = append(terms, h.conc)
		} else {
			// no `$` inside the literals of the explicit form (they are XGo literals too)
			for k, seg := range strings.Split(p[1:], "$") {
				if k > 0 {
					terms = append(terms, "dl")
				}
				if seg != "" {
					terms = append(terms, qt+seg+qt)
				}
			}
		}
	}
	// "" + … keeps the explicit form a string concatenation even with a single term
	l.concat = `"" + ` + strings.Join(append(terms, qt+qt), " + ")
	return l
}

func genLitB(r *vh.Rand, id *int, shape int) litB {
	q := "d"
	if r.Chance(25) {
		q = "r"
	}
	texts := textD
	if q == "r" {
		texts = textR
	}
	text := ""
	var vals []string
	addHole := func() {
		src, val := genHole(r, id)
		text += "${" + src + "}"
		vals = append(vals, val)
	}
	switch shape {
	case 0: // a single hole and nothing else (no Concat call)
		addHole()
	case 1: // only `$$`
		text = "$$"
	case 2: // plain text, no `$`
		text = texts[r.Intn(12)]
	case 3: // ends with `${`
		text = "ab"
		addHole()
		text += "${"
	case 4: // ends with a lone `$`
		addHole()
		text += "$"
	default:
		n := 1 + r.Intn(6)
		for i := 0; i < n; i++ {
			if r.Chance(50) {
				addHole()
			} else {
				text += texts[r.Intn(len(texts))]
			}
		}
	}
	return finish(q, text, vals)
}

func (l litB) expected() (val string, ids []int, holeVals []string) {
	hi := 0
	for _, p := range l.pieces {
		if p == "H" {
			h := l.holes[hi]
			hi++
			val += h.val
			ids = append(ids, h.ids...)
			holeVals = append(holeVals, vh.HexS(h.val))
		} else {
			val += pieceValue(l.q, p[1:])
		}
	}
	return
}

func caseB(l litB) string {
	_, _, hv := l.expected()
	return "ival\t" + l.q + "\t" + vh.HexS(l.text) + "\t" + strings.Join(hv, ",")
}

// progB builds the XGo source printing every literal (I) and its explicit concatenation (X).
func progB(lits []litB) string {
	var sb strings.Builder
	sb.WriteString(preludeB)
	for _, s := range strVars {
		fmt.Fprintf(&sb, "var %s = %s\n", s.name, strings.ReplaceAll(strconv.Quote(s.val), "$", `\x24`))
	}
	sb.WriteString("\n")
	// chunks keep the functions small
	const chunk = 40
	nf := 0
	for i, l := range lits {
		if i%chunk == 0 {
			if i > 0 {
				sb.WriteString("}\n\n")
			}
			fmt.Fprintf(&sb, "func part%d() {\n", nf)
			nf++
		}
		qt := quoteOf(l.q)
		fmt.Fprintf(&sb, "\tout \"I\", %d, %s%s%s\n", i, qt, l.text, qt)
		fmt.Fprintf(&sb, "\tout \"X\", %d, %s\n", i, l.concat)
	}
	sb.WriteString("}\n\n")
	for i := 0; i < nf; i++ {
		fmt.Fprintf(&sb, "part%d()\n", i)
	}
	return sb.String()
}

// tryB compiles (XGo → Go), builds and runs the program for lits.
func tryB(f *vh.Flags, o *vh.Out, lits []litB, keep bool) (stdout string, err error) {
	src := progB(lits)
	if keep {
		os.WriteFile(filepath.Join(f.Out, "prog.xgo"), []byte(src), 0o644)
	}
	t0 := time.Now()
	gosrc, err := xrun.CompileFile("main.xgo", src, false)
	if err != nil {
		return "", fmt.Errorf("the generated XGo program does not compile: %v", err)
	}
	if keep {
		o.Stats["ms_xgo_compile"] = int(time.Since(t0).Milliseconds())
		os.WriteFile(filepath.Join(f.Out, "prog.go.txt"), gosrc, 0o644)
	}
	t0 = time.Now()
	res, err := xrun.RunBatch(filepath.Join(f.Out, "build"), [][]byte{gosrc}, 60*time.Second)
	if keep {
		o.Stats["ms_go_build_run"] = int(time.Since(t0).Milliseconds())
	}
	os.RemoveAll(filepath.Join(f.Out, "build"))
	if err != nil {
		return "", err
	}
	if res[0].BuildErr != "" || res[0].Timeout || res[0].Exit != 0 {
		msg := res[0].String()
		if len(msg) > 1500 {
			msg = msg[:1500]
		}
		return "", fmt.Errorf("generated program failed: %s", msg)
	}
	return res[0].Stdout, nil
}

func runB(f *vh.Flags, o *vh.Out, lits []litB) error {
	stdout, err := tryB(f, o, lits, true)
	if err != nil {
		// every literal is valid and its explicit concatenation is plain Go: find one literal
		// that alone makes the program fail (bisection) and report it as a concrete input
		first := err
		cur := lits
		for len(cur) > 1 {
			half := cur[:len(cur)/2]
			if _, e := tryB(f, o, half, false); e != nil {
				cur = half
			} else {
				cur = cur[len(cur)/2:]
			}
		}
		if _, e := tryB(f, o, cur, false); e == nil {
			return first // not attributable to one literal
		} else {
			msg := e.Error()
			if len(msg) > 600 {
				msg = msg[:600]
			}
			o.Oracle("literal-does-not-compile-or-run", caseB(cur[0]), msg)
			o.Case(caseB(cur[0]), "FAILED", true)
			return nil
		}
	}
	type rec struct{ hex, ev string }
	got := map[string]rec{}
	for _, ln := range strings.Split(stdout, "\n") {
		fs := strings.SplitN(ln, " ", 4)
		if len(fs) == 4 {
			got[fs[0]+fs[1]] = rec{fs[2], fs[3]}
		}
	}
	for i, l := range lits {
		I, X := got["I"+strconv.Itoa(i)], got["X"+strconv.Itoa(i)]
		cl := caseB(l)
		want, ids, _ := l.expected()
		wantEv := strings.ReplaceAll(fmt.Sprint(ids), "[]", "[]")
		if I.hex == "" || X.hex == "" {
			o.Oracle("program-output-missing", cl, fmt.Sprintf("literal %d", i))
		} else {
			// the property on the implementation: interpolation == explicit concatenation, and
			// embedded expressions evaluated once, left to right (same trace)
			if I.hex != X.hex {
				o.Oracle("value-differs-from-concatenation", cl, "interpolated "+I.hex+" explicit "+X.hex)
			} else if I.hex != vh.HexS(want) {
				o.Oracle("value-differs-from-expected", cl, "interpolated "+I.hex+" expected "+vh.HexS(want))
			}
			if I.ev != X.ev || I.ev != wantEv {
				o.Oracle("evaluation-order-or-count", cl, "interpolated "+I.ev+" explicit "+X.ev+" expected "+wantEv)
			}
		}
		o.Count(fmt.Sprintf("B_holes_%d", min2(len(l.holes), 4)))
		o.Count("B_quote_" + l.q)
		impl := "V:" + I.hex
		if I.hex == "" {
			impl = "MISSING"
		}
		o.Case(cl, impl, len(l.holes) > 0 || strings.Contains(l.text, "$"))
	}
	return nil
}

func genLits(r *vh.Rand, n int) []litB {
	id := 0
	var lits []litB
	for i := 0; i < n; i++ {
		shape := 99
		if i < 10 {
			shape = i % 5
		}
		lits = append(lits, genLitB(r.Fork(i), &id, shape))
	}
	return lits
}

// ---------------------------------------------------------------- main

func main() {
	f := vh.ParseFlags()
	f.Out, _ = filepath.Abs(f.Out)
	os.Chdir(xrun.Repo())                       // the in-process importer runs the go command in the current directory
	if pf := os.Getenv("C05_PROBE"); pf != "" { // manual experiments: compile one XGo file and show the Go
		src, _ := os.ReadFile(pf)
		gosrc, err := xrun.CompileFile("main.xgo", string(src), false)
		fmt.Printf("%s\nerr=%v\n", gosrc, err)
		return
	}
	o := vh.NewOut(f.Out)
	o.Samples = []string{}
	defer o.Close()
	fail := func(err error) {
		fmt.Println(err)
		o.Close()
		os.Exit(1)
	}
	if f.Replay != "" {
		fs := strings.Fields(strings.ReplaceAll(f.Replay, "\t", " "))
		if len(fs) >= 3 && fs[0] == "isplit" {
			b, _ := vh.UnHex(fs[2])
			runA(o, fs[1], string(b))
			return
		}
		if len(fs) >= 3 && fs[0] == "ival" {
			b, _ := vh.UnHex(fs[2])
			var vals []string
			if len(fs) > 3 {
				for _, h := range strings.Split(fs[3], ",") {
					v, _ := vh.UnHex(h)
					vals = append(vals, string(v))
				}
			}
			if err := runB(f, o, []litB{finish(fs[1], string(b), vals)}); err != nil {
				fail(err)
			}
			return
		}
		fail(fmt.Errorf("bad replay line %q", f.Replay))
	}
	// A1: exhaustive small scope over {a, $, {, }}
	L := 7
	if f.Tier == "thorough" {
		L = 9
	}
	alpha := []byte("a${}")
	var rec func(prefix []byte)
	rec = func(prefix []byte) {
		runA(o, "d", string(prefix))
		if len(prefix) == L {
			return
		}
		for _, c := range alpha {
			rec(append(append([]byte{}, prefix...), c))
		}
	}
	rec(nil)
	o.Stats["A_exhaustive_upto_len"] = L
	// A2: every special piece alone and in pairs, both quote kinds
	for _, q := range []string{"d", "r"} {
		for _, a := range special {
			if q == "d" && strings.Contains(a, "`") {
				continue
			}
			runA(o, q, a)
			for _, b := range special {
				runA(o, q, a+b)
				runA(o, q, "x"+a+"é"+b+"z")
			}
		}
	}
	// A3: random
	r := vh.NewRand(f.Seed)
	for i := 0; i < f.N; i++ {
		rr := r.Fork(i)
		q := "d"
		if rr.Chance(25) {
			q = "r"
		}
		runA(o, q, genText(rr, q))
	}
	// B: one compiled program
	if err := runB(f, o, genLits(vh.NewRand(f.Seed^0xb5), replayN(f))); err != nil {
		fail(err)
	}
}

// number of program-level literals of a run (a function of the tier only, so that a replay
// regenerates the same list)
func replayN(f *vh.Flags) int {
	if f.Tier == "thorough" {
		return 3000
	}
	return 600
}
