// Differential + oracle harness for C18 (ast.Walk / ast.Inspect).
//
// Case line:  walk \t <m> \t <recipe> \t <dumped tree>
//
//	m       prune modulus: the visitor descends into node id unless m > 0 && id % m == 0
//	recipe  how to rebuild the real tree for -replay (file|path, mut|path|seed, synth|seed|kind|malformed|depth,
//	        pkg|seed|n)
//	tree    astx.Dumper serialisation (ids by node identity, all Node-typed fields by reflection)
//
// Impl out:  "ok e1 e2 …" | "PANIC e1 e2 …"   with e = node id for Visit(node), "^" for Visit(nil)
//
// Oracle (property predicate on the real Walk/Inspect, independent of the Lean model): on every
// well-formed tree the visit sequence equals the reflection-based preorder (astx.SpecChildren:
// every non-nil entry of every Node-typed field, declaration order, reviewed exclusions),
// Inspect behaves like Walk, no panic; on parsed files the siblings are visited in
// non-decreasing source position.
package main

import (
	"fmt"
	"os"
	"path/filepath"
	"reflect"
	"sort"
	"strconv"
	"strings"

	"github.com/goplus/xgo/ast"
	"verifharness/astx"
	"verifharness/vh"
)

type recorder struct {
	d    *astx.Dumper
	m    int
	evs  []string
	seen []ast.Node // non-nil nodes in visit order
}

func (r *recorder) note(n ast.Node) bool {
	if astx.IsNil(n) {
		r.evs = append(r.evs, "^")
		return true
	}
	id, ok := r.d.Lookup(n)
	if !ok {
		id = r.d.ID(n) // a node the reflection dump did not reach
		r.evs = append(r.evs, "?"+strconv.Itoa(id))
	} else {
		r.evs = append(r.evs, strconv.Itoa(id))
	}
	r.seen = append(r.seen, n)
	return !(r.m > 0 && id%r.m == 0)
}

type visitor struct{ r *recorder }

func (v visitor) Visit(n ast.Node) ast.Visitor {
	if v.r.note(n) {
		return v
	}
	return nil
}

func runWalk(d *astx.Dumper, root ast.Node, m int, inspect bool) (out string, rec *recorder, panicked bool, msg string) {
	rec = &recorder{d: d, m: m}
	func() {
		defer func() {
			if e := recover(); e != nil {
				panicked = true
				msg = fmt.Sprint(e)
			}
		}()
		if inspect {
			ast.Inspect(root, rec.note)
		} else {
			ast.Walk(visitor{rec}, root)
		}
	}()
	if panicked {
		return strings.TrimSpace("PANIC " + strings.Join(rec.evs, " ")), rec, true, msg
	}
	return strings.TrimSpace("ok " + strings.Join(rec.evs, " ")), rec, false, ""
}

// specWalk: the reflection-based expectation.
func specWalk(d *astx.Dumper, n ast.Node, m int, evs *[]string) {
	id := d.ID(n)
	*evs = append(*evs, strconv.Itoa(id))
	if m > 0 && id%m == 0 {
		return
	}
	for _, c := range astx.SpecChildren(n) {
		specWalk(d, c.Node, m, evs)
	}
	*evs = append(*evs, "^")
}

// classify the first difference between the real visit sequence and the expectation:
// rebuild, from the real events, the children visited under each node and compare per node.
func classify(d *astx.Dumper, root ast.Node, m int, want, got []string, panicked bool, byID map[int]ast.Node) (key, detail string) {
	type frame struct {
		id   int
		kids []int
	}
	visited := map[int][]int{} // id -> visited children ids (in order)
	closed := map[int]bool{}
	pruned := map[int]bool{}
	var stack []*frame
	lastKind := ""
	if !panicked {
		// first divergence: the expectation closes a node (Visit(nil)) where Walk goes on or stops
		var open []int
		for i := 0; i < len(want); i++ {
			if i >= len(got) || got[i] != want[i] {
				if want[i] == "^" && len(open) > 0 && (i >= len(got) || got[i] != "^") {
					k := astx.KindName(byID[open[len(open)-1]])
					return "missing-visit-nil:" + k, fmt.Sprintf("no Visit(nil) after the children of %s (id %d)", k, open[len(open)-1])
				}
				break
			}
			if want[i] == "^" {
				if len(open) > 0 {
					open = open[:len(open)-1]
				}
			} else if id, err := strconv.Atoi(want[i]); err == nil && !(m > 0 && id%m == 0) {
				open = append(open, id)
			}
		}
	}
	if panicked && len(got) > 0 && got[len(got)-1] == "^" {
		// Walk was handed a nil child: the visitor saw nil, then Walk panicked; the culprit is
		// the innermost open node
		got = got[:len(got)-1]
	}
	for _, e := range got {
		if e == "^" {
			if len(stack) == 0 {
				return "nil-call-unbalanced", "Visit(nil) without open node"
			}
			f := stack[len(stack)-1]
			stack = stack[:len(stack)-1]
			visited[f.id] = f.kids
			closed[f.id] = true
			continue
		}
		unknown := strings.HasPrefix(e, "?")
		id, _ := strconv.Atoi(strings.TrimPrefix(e, "?"))
		if unknown {
			return "visited-unknown-node", fmt.Sprintf("Walk reached a node (id %d) that is in no Node-typed field", id)
		}
		if len(stack) > 0 {
			stack[len(stack)-1].kids = append(stack[len(stack)-1].kids, id)
		}
		lastKind = astx.KindName(byID[id])
		if m > 0 && id%m == 0 { // pruned by the visitor: no children, no Visit(nil)
			pruned[id] = true
			continue
		}
		stack = append(stack, &frame{id: id})
	}
	if panicked {
		if len(stack) > 0 {
			lastKind = astx.KindName(byID[stack[len(stack)-1].id])
		}
		return "panic:" + lastKind, "Walk panicked while visiting a " + lastKind
	}
	for len(stack) > 0 { // pruned nodes and unclosed ones
		f := stack[len(stack)-1]
		stack = stack[:len(stack)-1]
		visited[f.id] = f.kids
	}
	ids := make([]int, 0, len(visited))
	for id := range visited {
		ids = append(ids, id)
	}
	sort.Ints(ids)
	for _, id := range ids {
		n := byID[id]
		kind := astx.KindName(n)
		want := astx.SpecChildren(n)
		gotKids := visited[id]
		if pruned[id] {
			continue
		}
		wantIDs := make([]int, len(want))
		slotOf := map[int]string{}
		for i, c := range want {
			wantIDs[i] = d.ID(c.Node)
			slotOf[wantIDs[i]] = c.Slot
		}
		if fmt.Sprint(wantIDs) == fmt.Sprint(gotKids) {
			continue
		}
		gotSet := map[int]int{}
		for _, g := range gotKids {
			gotSet[g]++
		}
		for _, w := range wantIDs {
			if gotSet[w] == 0 {
				return "unvisited:" + kind + "." + slotOf[w], fmt.Sprintf("child id %d in field %s of %s (id %d) not visited", w, slotOf[w], kind, id)
			}
		}
		for g, c := range gotSet {
			if c > 1 {
				return "visited-twice:" + kind, fmt.Sprintf("child id %d of %s visited %d times", g, kind, c)
			}
			if _, ok := slotOf[g]; !ok {
				return "extra-visit:" + kind, fmt.Sprintf("id %d visited under %s (id %d) is not one of its children", g, kind, id)
			}
		}
		return "order:" + kind, fmt.Sprintf("children of %s (id %d) visited as %v, source order %v", kind, id, gotKids, wantIDs)
	}
	return "sequence-differs", "visit sequence differs from the reflection-based preorder"
}

// posOrder: on parsed trees, consecutive children visited under one node must not go
// backwards in the source.  Exception (reviewed): FuncDecl.Type starts at the `func` keyword,
// i.e. before Recv and Name, by go/ast convention.
func posOrder(m int, evs []string, byID map[int]ast.Node) (string, string) {
	type frame struct {
		id   int
		last ast.Node
	}
	var stack []*frame
	for _, e := range evs {
		if e == "^" {
			if len(stack) > 0 {
				stack = stack[:len(stack)-1]
			}
			continue
		}
		id, err := strconv.Atoi(e)
		if err != nil {
			continue
		}
		n := byID[id]
		if len(stack) > 0 {
			p := stack[len(stack)-1]
			pk := astx.KindName(byID[p.id])
			if p.last != nil && n.Pos().IsValid() && p.last.Pos().IsValid() && n.Pos() < p.last.Pos() {
				if !(pk == "FuncDecl" && astx.KindName(n) == "FuncType") {
					return "posorder:" + pk, fmt.Sprintf("under %s (id %d): %s at %d visited after %s at %d", pk, p.id,
						astx.KindName(n), n.Pos(), astx.KindName(p.last), p.last.Pos())
				}
			}
			p.last = n
		}
		if m > 0 && id%m == 0 {
			continue
		}
		stack = append(stack, &frame{id: id})
	}
	return "", ""
}

// sortBlocks reorders the top-level child blocks of a root's event list by their first id.
func sortBlocks(evs []string, m int) []string {
	if len(evs) < 2 || evs[len(evs)-1] != "^" {
		return evs
	}
	var blocks [][]string
	depth, start := 0, 1
	for i := 1; i < len(evs)-1; i++ {
		if evs[i] == "^" {
			depth--
		} else {
			id, _ := strconv.Atoi(evs[i])
			if !(m > 0 && id%m == 0) {
				depth++
			}
		}
		if depth == 0 {
			blocks = append(blocks, evs[start:i+1])
			start = i + 1
		}
	}
	if start != len(evs)-1 {
		return evs
	}
	sort.Slice(blocks, func(i, j int) bool {
		a, _ := strconv.Atoi(blocks[i][0])
		b, _ := strconv.Atoi(blocks[j][0])
		return a < b
	})
	res := []string{evs[0]}
	for _, b := range blocks {
		res = append(res, b...)
	}
	return append(res, "^")
}

func collect(d *astx.Dumper, n ast.Node, byID map[int]ast.Node, depth int) {
	if astx.IsNil(n) || depth > 4000 {
		return
	}
	id := d.ID(n)
	if _, ok := byID[id]; ok {
		return
	}
	byID[id] = n
	cs, _ := astx.Children(n)
	for _, c := range cs {
		collect(d, c.Node, byID, depth+1)
	}
}

type caseIn struct {
	recipe     string
	root       ast.Node
	m          int
	wellFormed bool // the property applies (no nil outside documented-nilable fields)
	parsed     bool // positions are source positions
}

func runCase(c caseIn, o *vh.Out) {
	d := astx.NewDumper()
	tree := d.Dump("root", c.root)
	line := fmt.Sprintf("walk\t%d\t%s\t%s", c.m, c.recipe, tree)
	short := fmt.Sprintf("walk\t%d\t%s", c.m, c.recipe) // for oracle records: enough for -replay
	byID := map[int]ast.Node{}
	collect(d, c.root, byID, 0)

	out, rec, panicked, msg := runWalk(d, c.root, c.m, false)
	out2, rec2, _, _ := runWalk(d, c.root, c.m, true)
	if _, isPkg := c.root.(*ast.Package); isPkg && !panicked {
		// Package.Files is a map: Walk visits the files in map iteration order; the file blocks
		// are sorted by id (= by file name, the dump order) on the implementation side
		rec.evs = sortBlocks(rec.evs, c.m)
		rec2.evs = sortBlocks(rec2.evs, c.m)
		out = strings.TrimSpace("ok " + strings.Join(rec.evs, " "))
		out2 = strings.TrimSpace("ok " + strings.Join(rec2.evs, " "))
	}
	if out != out2 && !panicked {
		o.Oracle("inspect-differs", short, "Walk: "+clip(out)+" Inspect: "+clip(out2))
	}
	for _, n := range byID {
		if astx.KindName(n) == "" {
			o.Oracle("foreign-node:"+reflect.TypeOf(n).String(), short, "the tree contains a node that is not an ast node kind (Walk cannot have a case for it)")
			break
		}
	}
	kind := astx.KindName(c.root)
	o.Count("root_" + kind)
	if panicked {
		o.Count("impl_panic")
	} else {
		o.Count("impl_ok")
	}
	if c.wellFormed {
		var want []string
		specWalk(d, c.root, c.m, &want)
		wantS := "ok " + strings.Join(want, " ")
		if out != wantS {
			key, detail := classify(d, c.root, c.m, want, rec.evs, panicked, byID)
			if panicked {
				detail += " (" + clip(msg) + ")"
			}
			o.Oracle(key, short, detail)
		} else if c.parsed {
			if key, detail := posOrder(c.m, rec.evs, byID); key != "" {
				o.Oracle(key, short, detail)
			}
		}
	}
	sz := d.N
	switch {
	case sz < 10:
		o.Count("size_lt10")
	case sz < 100:
		o.Count("size_lt100")
	case sz < 1000:
		o.Count("size_lt1000")
	default:
		o.Count("size_ge1000")
	}
	for _, n := range byID {
		o.Stats["kindseen_"+astx.KindName(n)]++
	}
	o.Case(line, out, sz >= 3)
}

func clip(s string) string {
	if len(s) > 300 {
		return s[:300] + "…"
	}
	return s
}

// ---- recipes ------------------------------------------------------------------------------------

func rel(p string) string {
	r, err := filepath.Rel(astx.Repo(), p)
	if err != nil {
		return p
	}
	return r
}

func fromRecipe(recipe string, m int) (caseIn, error) {
	fs := strings.Split(recipe, "|")
	switch fs[0] {
	case "file", "emb", "mut", "dense", "gen", "tokmut":
		p, err := astx.ParseRecipe(recipe)
		if err != nil {
			return caseIn{}, err
		}
		return caseIn{recipe, p.File, m, true, true}, nil
	case "synth":
		seed, _ := strconv.ParseUint(fs[1], 10, 64)
		mal, _ := strconv.Atoi(fs[3])
		depth, _ := strconv.Atoi(fs[4])
		for _, t := range astx.KindTypes() {
			if t.Elem().Name() == fs[2] {
				s := astx.NewSynth(vh.NewRand(seed))
				s.Malformed = mal
				return caseIn{recipe, s.Node(t, depth), m, mal == 0, false}, nil
			}
		}
		return caseIn{}, fmt.Errorf("unknown kind %s", fs[2])
	case "pkg":
		seed, _ := strconv.ParseUint(fs[1], 10, 64)
		n, _ := strconv.Atoi(fs[2])
		r := vh.NewRand(seed)
		xgo, _ := astx.CorpusFiles()
		pkg := &ast.Package{Name: "main", Files: map[string]*ast.File{}}
		for i := 0; i < n && len(xgo) > 0; i++ {
			path := xgo[r.Intn(len(xgo))]
			if p, err := astx.SafeParse(path, nil); err == nil {
				pkg.Files[rel(path)] = p.File
			}
		}
		return caseIn{recipe, pkg, m, true, false}, nil
	}
	return caseIn{}, fmt.Errorf("bad recipe %q", recipe)
}

func main() {
	f := vh.ParseFlags()
	o := vh.NewOut(f.Out)
	defer o.Close()
	if f.Replay != "" {
		fs := strings.SplitN(f.Replay, "\t", 4)
		if len(fs) < 3 {
			fmt.Fprintln(os.Stderr, "bad replay line")
			os.Exit(2)
		}
		m, _ := strconv.Atoi(fs[1])
		c, err := fromRecipe(fs[2], m)
		if err != nil {
			fmt.Fprintln(os.Stderr, "replay:", err)
			os.Exit(2)
		}
		runCase(c, o)
		return
	}
	r := vh.NewRand(f.Seed)
	thorough := f.Tier == "thorough"
	try := func(recipe string, m int) {
		c, err := fromRecipe(recipe, m)
		if err != nil {
			o.Count("skipped_" + strings.SplitN(recipe, "|", 2)[0] + "_parse_error")
			return
		}
		runCase(c, o)
	}
	prune := func(rr *vh.Rand) int {
		if rr.Chance(60) {
			return 0
		}
		return 2 + rr.Intn(9)
	}

	// 1. corpus: every XGo-family file, and Go files (all in thorough, a seeded sample in quick)
	for _, name := range astx.EmbeddedFiles() { // fixed regression corpus (neg_*: near-valid, walked if accepted)
		try("emb|"+name, 0)
		try("emb|"+name+"#1", 0)
	}
	xgo, gofiles := astx.CorpusFiles()
	for i, p := range xgo {
		try("file|"+rel(p), 0)
		if i%3 == int(f.Seed%3) {
			try("file|"+rel(p), 2+r.Fork(i).Intn(9))
		}
	}
	nGo := 45
	if thorough {
		nGo = len(gofiles)
	}
	for i := 0; i < nGo && len(gofiles) > 0; i++ {
		p := gofiles[i]
		if !thorough {
			p = gofiles[r.Fork(1000+i).Intn(len(gofiles))]
		}
		if fi, err := os.Stat(p); err == nil && fi.Size() > 120000 && !thorough {
			continue
		}
		try("file|"+rel(p), 0)
	}
	// 2. generated: layout mutations of XGo files
	nMut := len(xgo) / 2
	if thorough {
		nMut = len(xgo) * 3
	}
	for i := 0; i < nMut && len(xgo) > 0; i++ {
		rr := r.Fork(2000 + i)
		p := xgo[rr.Intn(len(xgo))]
		try(fmt.Sprintf("mut|%s|%d", rel(p), rr.U64()%1000000), prune(rr))
	}
	// 2b. NEW source text: generated scripts and token-level mutants of valid sources, parsed in
	// every mode; whatever the parser returns with err == nil is a "tree produced by the parser"
	nGen := f.N / 4
	emb := astx.EmbeddedFiles()
	for i := 0; i < nGen; i++ {
		rr := r.Fork(4000 + i)
		rec := fmt.Sprintf("gen|%d", rr.U64()%100000000)
		if i%3 == 2 {
			rec += fmt.Sprintf("#%d", 1+rr.Intn(len(astx.ParseModes)-1))
		}
		try(rec, prune(rr))
		ref := "emb:" + emb[rr.Intn(len(emb))]
		if rr.Bool() && len(xgo) > 0 {
			ref = "file:" + rel(xgo[rr.Intn(len(xgo))])
		}
		try(fmt.Sprintf("tokmut|%s|%d", ref, rr.U64()%100000000), 0)
	}
	// 3. packages
	for i := 0; i < 6; i++ {
		rr := r.Fork(3000 + i)
		try(fmt.Sprintf("pkg|%d|%d", rr.U64()%1000000, rr.Intn(4)), prune(rr))
	}
	// 4. synthesised trees: every registered kind as root, well-formed and malformed
	kinds := astx.KindTypes()
	per := f.N / (len(kinds) + 1)
	if per < 2 {
		per = 2
	}
	for ki, t := range kinds {
		for j := 0; j < per; j++ {
			rr := r.Fork(100000 + ki*1000 + j)
			mal := 0
			if j%4 == 3 && t.Elem().Name() != "Package" { // (a panic inside a Package walk happens after a random number of files)
				mal = 8 + rr.Intn(20)
			}
			depth := 1 + rr.Intn(4)
			if thorough && j%10 == 0 {
				depth = 6
			}
			try(fmt.Sprintf("synth|%d|%s|%d|%d", rr.U64()%100000000, t.Elem().Name(), mal, depth), prune(rr))
		}
	}
	o.Stats["kinds_registered"] = len(kinds)
	seen := 0
	for _, t := range kinds {
		if o.Stats["kindseen_"+t.Elem().Name()] > 0 {
			seen++
		}
	}
	o.Stats["kinds_seen_in_trees"] = seen
	_ = reflect.TypeOf
}
