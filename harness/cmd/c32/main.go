// Differential + oracle harness for C32 (the TPL scanner tokenises like the XGo scanner).
// Per source and mode: the real TPL scanner vs the `tpl` model, the real XGo scanner vs the `xgo`
// model, and one `shlex` line: the domain decision (SharedLexemesOnly, on the real XGo scanner's
// output) and whether the two REAL scanners return the same token boundaries, kinds (by spelling),
// literals and inserted semicolons — compared with the Lean model's decision and comparison.
// Oracle: in the domain => the real scanners agree.
package main

import (
	"fmt"
	"os"
	"strings"

	"verifharness/scangen"
	"verifharness/vh"
)

var o *vh.Out

var idents = []string{"a", "x", "c", "C", "py", "r", "i", "e", "_", "x1", "_a", "A_b9", "foo", "Bar", "brea", "breakx", "é", "世界", "aé", "x٣", "doc", "IDENT", "STRING", "INT"}
var numbers = []string{"0", "1", "42", "1_000", "1__0", "1_", "00", "08", "0128", "09.5", "0x1F", "0x", "0x_1", "0x1.8p1", "0x1.8", "0x1p", "0b101", "0b2", "0o17", "0o8", "1.", ".5", "1.5", "1e10", "1e-", "1e",
	"1i", "1.5i", "0x1i", "089i", "1r", "1.5r", "2ri", "1km", "2.5s", "3ms", "1_km", "1é", "1e1km", "0x1km", "1x", "0bx", "1i2", "1ix", "1 km", "1km x", "1km\n"}
var strs = []string{`""`, `"a"`, `"a\nb"`, `"\""`, `"\q"`, `"\x4"`, `"\uD800"`, `"\777"`, `"é世"`, "\"a\x00b\"", `"a`, "\"a\nb\"", `"a\`, "`abc`", "`a\rb`", "`a\r\nb\r`", "`abc", `'a'`, `'\n'`, `''`, `'ab'`, `'é'`, `'a`, `'\`}
var comments = []string{"// c", "//", "//\r", "// a\rb", "/* c */", "/**/", "/*/", "/* a\nb */", "/* a\r\nb */", "/* *\r/ */", "/*\r*/", "/* a", "/*", "/* x */ // y", "//line f.go:10", "//line f:0", "/*line f:0*/",
	"# c", "#", "#!", "#\r", "# a\rb", "#/", "#/ x", "#*", "#* x */", "##", "#é"}
var ops = []string{"+", "-", "*", "/", "%", "&", "|", "^", "<<", ">>", "&^", "+=", "-=", "*=", "/=", "%=", "&=", "|=", "^=", "<<=", ">>=", "&^=", "&&", "||", "<-", "++", "--", "==", "<", ">", "=", "!", "!=", "<=", ">=", ":=", "...", "(", "[", "{", ",", ".", ")", "]", "}", ";", ":",
	"?", "=>", "->", "<>", "$", "~", "**", "@", "..", "**=", "* *", "*/", "!!", "~~"}
var keywordsSome = []string{"break", "return", "func", "if", "type", "var", "go", "map"}
var seps = []string{"", " ", " ", " ", "\n", "\n", "\t", "\r\n", "  ", " \n "}

func sharedSequence(r *vh.Rand) []byte {
	var b []byte
	n := r.Intn(10)
	for i := 0; i < n; i++ {
		var l string
		switch p := r.Intn(100); {
		case p < 4:
			l = r.Pick(keywordsSome)
		case p < 24:
			l = r.Pick(idents)
		case p < 42:
			l = r.Pick(numbers)
		case p < 54:
			l = r.Pick(strs)
		case p < 68:
			l = r.Pick(comments)
		default:
			l = r.Pick(ops)
		}
		b = append(b, l...)
		sep := r.Pick(seps)
		if sep == "" && r.Chance(60) {
			sep = " "
		}
		b = append(b, sep...)
	}
	if r.Chance(30) {
		b = []byte(strings.TrimRight(string(b), " \n\t\r"))
	}
	return b
}

func one(src []byte, mode int) {
	t := scangen.RunTpl(src, mode)
	x := scangen.RunXGo(src, mode)
	o.Case(scangen.CaseLine("tpl", mode, src), t.Canon(), len(src) >= 2)
	o.Case(scangen.CaseLine("xgo", mode, src), x.Canon(), len(src) >= 2)
	reasons := scangen.SharedLexemesOnly(src)
	agree, where := scangen.Agree32(t, x)
	l, d := scangen.UnicodeClasses(src)
	line := fmt.Sprintf("shlex\t%d\t%s\t%s\t%s", mode, vh.Hex(src), l, d)
	dom := "out"
	if len(reasons) == 0 {
		dom = "in"
		o.Count("domain_in")
	} else {
		o.Count("domain_out")
		for _, r := range reasons {
			o.Count("excluded_" + strings.TrimPrefix(r, "x:"))
		}
	}
	ag := "differ"
	if agree {
		ag = "agree"
	}
	if len(reasons) == 0 && !agree {
		o.Oracle("scanners-differ:"+where, line, "tpl: "+t.Canon()+" xgo: "+x.Canon())
	}
	if !agree && len(reasons) > 0 {
		o.Count("out_of_domain_differ")
	}
	o.Case(line, dom+" "+ag, len(reasons) == 0 && len(src) >= 2)
}

func main() {
	f := vh.ParseFlags()
	o = vh.NewOut(f.Out)
	defer o.Close()
	if f.Replay != "" {
		fs := strings.Fields(f.Replay)
		if len(fs) >= 3 && fs[0] == "shlex" {
			var mode int
			fmt.Sscan(fs[1], &mode)
			src, _ := vh.UnHex(fs[2])
			one(src, mode)
			return
		}
		d, mode, src, err := scangen.ParseCaseLine(f.Replay)
		if err != nil {
			fmt.Fprintln(os.Stderr, err)
			os.Exit(2)
		}
		o.Case(scangen.CaseLine(d, mode, src), scangen.Run(d, src, mode).Canon(), true)
		return
	}
	for _, s := range scangen.Regression {
		one([]byte(s), 1)
		one([]byte(s), 0)
	}
	r := vh.NewRand(f.Seed)
	g := &scangen.Gen{R: r, Corpus: scangen.LoadCorpus(0), Stat: o.Count}
	// exhaustive small scope over the symbols that drive the hidden state (nParen, insertSemi)
	depth := 4
	if f.Tier == "thorough" {
		depth = 6
		scangen.Exhaustive([]string{"1", "k", " ", "\n", "*", "/", "#", ".", "!", "(", ")", "a"}, 4, func(b []byte) { one(b, 1) })
	}
	scangen.Exhaustive(scangen.StateAlphabet, depth, func(b []byte) { one(b, 1) })
	o.Stats["exhaustive_state_depth"] = depth
	for i := 0; i < f.N; i++ {
		rr := r.Fork(i)
		g.R = rr
		var src []byte
		switch p := rr.Intn(100); {
		case p < 45:
			o.Count("src_shared_sequence")
			src = sharedSequence(rr)
		case p < 60:
			o.Count("src_state_probe")
			src = g.StateProbe(false)
		case p < 70:
			o.Count("src_shared_sequence_mutated")
			src = g.Mutate(sharedSequence(rr))
		default:
			src = g.Source()
		}
		one(src, 1)
		one(src, 0)
		if rr.Chance(5) {
			one(src, 3)
		}
	}
}
