// C06 harness: compiler success implies valid, well-typed Go output.
// Search machinery (not proof).  The REAL cl.NewPackage decides success; the written Go must parse
// (go/parser), type-check (go/types, export data, offline) and - for a sample in quick, all in
// thorough - compile with gc.
//
// Two input streams:
//
//	V  valid-by-construction XGo programs (every sugar piece alone, then random combinations driven
//	   by VERIF_SEED).  A compile success whose Go is rejected is a violation keyed finely:
//	   success-bad-go:<judge>:<class> etc.
//	M  a FIXED regression list: a systematic family "one Go static rule violated per program"
//	   (compa/rules.go), then near-miss mutants and corpus packages, frozen in
//	   corpus/C06/stream_m.jsonl.gz (seed-independent; quick = its first N entries, thorough = all).
//	   XGo's partial static checking (gogen) accepts many of these although Go rejects them; the
//	   outcome of the unchanged tree is the committed baseline corpus/C06/known_bad_accepts.txt
//	   (id, class).  A stream-M case is a violation iff XGo accepts it, Go rejects the output and
//	   (id, class) is NOT in the baseline (key new-bad-accept:<class>:<id>); baseline hits are
//	   reported under gogen-lacks-check:<class> (one known finding per class).
//
// Maintenance (not run by the check):  c06 -mkstream <dir> -out <scratch>   regenerates both files
// from the current generators/corpus and the current tree.
package main

import (
	"bufio"
	"bytes"
	"compress/gzip"
	"crypto/sha1"
	"encoding/hex"
	"encoding/json"
	"flag"
	"fmt"
	"os"
	"os/exec"
	"path/filepath"
	"regexp"
	"sort"
	"strings"
	"time"

	"verifharness/compa"
	"verifharness/vh"
)

var env *compa.Env

// ------------------------------------------------------------------------------- judging

// verdict of one package: "" (XGo rejected it, or accepted with good Go) or "<judge>:<class>".
type verdict struct {
	status string // PARSE-ERR | NOPKG | PANIC | ERR | OK | OK-BAD
	class  string // for OK-BAD: e.g. "go-types:missing-return", "write-panics:…", "write-fails:…"
	msg    string
	src    []byte // written Go when status == OK
}

func judge(fs compa.Files) verdict {
	p := compa.Parse(fs)
	if p.Panic != "" || p.Err != nil {
		return verdict{status: "PARSE-ERR"}
	}
	pkg := compa.MainPkg(p.Pkgs)
	if pkg == nil {
		return verdict{status: "NOPKG"}
	}
	c := env.Compile(p.Fset, pkg, false)
	switch {
	case c.Panic != "":
		return verdict{status: "PANIC", msg: c.Panic} // C07's oracle, not C06's
	case c.Err != nil:
		return verdict{status: "ERR", msg: c.Err.Error()}
	case c.WPanic != "":
		return verdict{status: "OK-BAD", class: "write-panics:" + compa.KeyOnly(c.WPanic), msg: c.WPanic}
	case c.WriteErr != nil:
		return verdict{status: "OK-BAD", class: "write-fails:" + compa.ErrClass(c.WriteErr.Error()), msg: c.WriteErr.Error()}
	}
	if class, msg := env.GoCheck(c.Src, fs); class != "" {
		return verdict{status: "OK-BAD", class: class, msg: msg}
	}
	return verdict{status: "OK", src: c.Src}
}

// ------------------------------------------------------------------------------- gc stage

type built struct {
	caseLine string
	id       string // stream M id ("" = stream V)
	src      []byte
	fs       compa.Files
}

var toBuild []built

var buildErrRe = regexp.MustCompile(`(?m)^(?:\./)?p\d+/[^:\s]+:\d+:\d+: (.*)$`)

// buildAll compiles every queued output with the Go toolchain (gc), all in one
// `go list -e -export ./...` (compile only: nothing is linked or run).  Returns index -> class.
func buildAll(o *vh.Out, dir string) map[int][2]string {
	res := map[int][2]string{}
	if len(toBuild) == 0 {
		return res
	}
	compa.WriteModule(dir)
	for i, b := range toBuild {
		d := filepath.Join(dir, fmt.Sprintf("p%05d", i))
		os.MkdirAll(d, 0o755)
		os.WriteFile(filepath.Join(d, "xgo_autogen.go"), b.src, 0o644)
		for _, n := range b.fs.Names() {
			if strings.HasSuffix(n, ".go") && !strings.HasSuffix(n, "_test.go") {
				os.WriteFile(filepath.Join(d, n), []byte(b.fs[n]), 0o644)
			}
		}
	}
	cmd := exec.Command("go", "list", "-e", "-export", "-f", "@@{{.ImportPath}}|{{if .Error}}{{.Error.Err}}{{end}}", "./...")
	cmd.Dir = dir
	cmd.Env = append(os.Environ(), "GOFLAGS=-mod=mod", "GOPROXY=off", "GOSUMDB=off", "GOTOOLCHAIN=local", "CGO_ENABLED=0")
	var out, serr bytes.Buffer
	cmd.Stdout, cmd.Stderr = &out, &serr
	err := cmd.Run()
	o.Stats["go_build_packages"] += len(toBuild)
	n := 0
	for _, rec := range strings.Split(out.String(), "@@") {
		k := strings.IndexByte(rec, '|')
		if k < 0 || !strings.HasPrefix(rec, "verifprog/p") {
			continue
		}
		n++
		var i int
		fmt.Sscanf(rec[len("verifprog/p"):k], "%d", &i)
		msg := strings.TrimSpace(rec[k+1:])
		if msg == "" || i < 0 || i >= len(toBuild) {
			continue
		}
		first := msg
		if m := buildErrRe.FindStringSubmatch(msg); m != nil {
			first = m[1]
		}
		if strings.Contains(msg, "use of internal package") || !strings.Contains(msg, "xgo_autogen.go") {
			o.Count("go_build_skipped_not_about_output")
			continue // an artefact of building outside /repo, or an error in the package's own Go files
		}
		res[i] = [2]string{"gc:" + compa.ErrClass(first), firstN(msg, 300)}
	}
	if n != len(toBuild) {
		fmt.Fprintf(os.Stderr, "go list -export: %v: %d of %d packages listed\n%s\n", err, n, len(toBuild), firstN(serr.String(), 2000))
		os.Exit(3)
	}
	return res
}

func firstN(s string, n int) string {
	if len(s) > n {
		return s[:n]
	}
	return s
}

// ------------------------------------------------------------------------------- stream M files

type mEntry struct {
	ID     string            `json:"id"`
	Origin string            `json:"origin"`
	Files  map[string]string `json:"files"`
}

func idOf(fs compa.Files) string {
	h := sha1.Sum([]byte(compa.Blob(fs)))
	return hex.EncodeToString(h[:6])
}

func readStream(dir string, max int) ([]mEntry, error) {
	f, err := os.Open(filepath.Join(dir, "stream_m.jsonl.gz"))
	if err != nil {
		return nil, err
	}
	defer f.Close()
	zr, err := gzip.NewReader(f)
	if err != nil {
		return nil, err
	}
	var out []mEntry
	sc := bufio.NewScanner(zr)
	sc.Buffer(make([]byte, 1<<20), 16<<20)
	for sc.Scan() {
		if max > 0 && len(out) >= max {
			break
		}
		var e mEntry
		if err := json.Unmarshal(sc.Bytes(), &e); err != nil {
			return nil, err
		}
		out = append(out, e)
	}
	return out, sc.Err()
}

// baseline: "id class" pairs accepted-but-bad on the unchanged tree.
func readBaseline(dir string) (map[string]bool, error) {
	b, err := os.ReadFile(filepath.Join(dir, "known_bad_accepts.txt"))
	if err != nil {
		return nil, err
	}
	m := map[string]bool{}
	for _, ln := range strings.Split(string(b), "\n") {
		if ln == "" || strings.HasPrefix(ln, "#") {
			continue
		}
		fs := strings.SplitN(ln, "\t", 3)
		if len(fs) >= 2 {
			m[fs[0]+" "+fs[1]] = true
		}
	}
	return m, nil
}

var nearMiss = []string{"ident-swap", "ident-undefined", "type-swap", "lit-swap", "drop-arg", "add-arg", "drop-line", "dup-line",
	"drop-return", "define-assign", "lhs-count", "unused-var", "unused-import", "op-swap", "dup-decl", "dup-case"}

const streamSeed = 20260921 // constant: stream M never depends on VERIF_SEED

// mkStream builds the fixed list: every 4th entry a corpus package as is (until exhausted),
// the others near-miss mutants of generated programs (2/3) and of corpus packages (1/3).
func mkStream(total int) []mEntry {
	corpus := compa.LoadCorpus(true)
	r := vh.NewRand(streamSeed)
	var out []mEntry
	seen := map[string]bool{}
	add := func(fs compa.Files, origin string) {
		id := idOf(fs)
		if seen[id] {
			return
		}
		seen[id] = true
		out = append(out, mEntry{ID: id, Origin: origin, Files: fs})
	}
	// the systematic family first: one violated Go static rule per program
	for _, it := range compa.RuleViolations() {
		add(it.Files, it.Origin)
	}
	ci := 0
	for i := 0; len(out) < total && i < total*3; i++ {
		rr := r.Fork(i)
		switch {
		case i%4 == 0 && ci < len(corpus):
			add(corpus[ci].Files, "corpus:"+corpus[ci].Origin)
			ci++
		case i%3 != 0:
			fs, pcs := compa.GenXGo(rr, 1+rr.Intn(3), "")
			mf, kinds := compa.MutateFiles(rr, fs, nearMiss, 1+rr.Intn(2), "")
			add(mf, "genmut:"+strings.Join(pcs, "+")+"/"+kinds)
		default:
			it := corpus[rr.Intn(len(corpus))]
			other := corpus[rr.Intn(len(corpus))]
			var osrc string
			for _, n := range other.Files.Names() {
				osrc = other.Files[n]
				break
			}
			kinds := nearMiss
			if rr.Chance(20) {
				kinds = append(append([]string{}, nearMiss...), "splice", "swap-tokens", "dup-span")
			}
			mf, ks := compa.MutateFiles(rr, it.Files, kinds, 1+rr.Intn(2), osrc)
			add(mf, "corpusmut:"+it.Origin+"/"+ks)
		}
	}
	return out
}

func firstSrcLine(fs compa.Files) string {
	for _, n := range fs.Names() {
		if !strings.HasSuffix(n, ".go") || len(fs) == 1 {
			for _, l := range strings.Split(fs[n], "\n") {
				if t := strings.TrimSpace(l); t != "" {
					return n + ": " + firstN(t, 100)
				}
			}
		}
	}
	return ""
}

// maintenance: regenerate stream_m.jsonl.gz + known_bad_accepts.txt from the current tree.
func runMkStream(o *vh.Out, dir, scratch string, total int) {
	os.MkdirAll(dir, 0o755)
	entries := mkStream(total)
	f, err := os.Create(filepath.Join(dir, "stream_m.jsonl.gz"))
	if err != nil {
		panic(err)
	}
	zw, _ := gzip.NewWriterLevel(f, gzip.BestCompression)
	for _, e := range entries {
		b, _ := json.Marshal(e)
		zw.Write(b)
		zw.Write([]byte("\n"))
	}
	zw.Close()
	f.Close()
	type row struct{ id, class, first string }
	var rows []row
	perClass := map[string]int{}
	for _, e := range entries {
		fs := compa.Files(e.Files)
		v := judge(fs)
		switch v.status {
		case "OK-BAD":
			rows = append(rows, row{e.ID, v.class, firstSrcLine(fs)})
			perClass[v.class]++
		case "OK":
			toBuild = append(toBuild, built{id: e.ID, src: v.src, fs: fs})
		}
	}
	for i, cm := range buildAll(o, filepath.Join(scratch, "build")) {
		rows = append(rows, row{toBuild[i].id, cm[0], firstSrcLine(toBuild[i].fs)})
		perClass[cm[0]]++
	}
	var b strings.Builder
	b.WriteString("# C06 baseline of the FIXED stream M (corpus/C06/stream_m.jsonl.gz): packages that the unchanged XGo compiler\n")
	b.WriteString("# accepts although Go rejects the written output.  id <TAB> class <TAB> first source line.  Regenerate with\n")
	b.WriteString("#   c06 -mkstream /verif/corpus/C06 -out <scratch>      (maintenance; never at check time)\n")
	for _, r := range rows {
		fmt.Fprintf(&b, "%s\t%s\t%s\n", r.id, r.class, r.first)
	}
	os.WriteFile(filepath.Join(dir, "known_bad_accepts.txt"), []byte(b.String()), 0o644)
	var classes []string
	for c := range perClass {
		classes = append(classes, c)
	}
	sort.Strings(classes)
	fmt.Printf("stream M: %d entries, %d bad accepts\n", len(entries), len(rows))
	for _, c := range classes {
		fmt.Printf("finding: property=C06 key=gogen-lacks-check:%s gogen (outside /repo) does not implement the Go static check behind \"%s\": XGo accepts, Go rejects the written output; %d fixed inputs listed in corpus/C06/known_bad_accepts.txt (stream M); not repaired: the check belongs in gogen\n", c, c, perClass[c])
	}
}

// ------------------------------------------------------------------------------- main

func main() {
	mk := flag.String("mkstream", "", "MAINTENANCE: regenerate the fixed stream M and its baseline into this directory")
	mdir := flag.String("c06dir", "/verif/corpus/C06", "directory of stream_m.jsonl.gz and known_bad_accepts.txt")
	f := vh.ParseFlags()
	o := vh.NewOut(f.Out)
	defer o.Close()
	t0 := time.Now()
	tick := func(what string) {
		if os.Getenv("COMPA_DEBUG") != "" {
			fmt.Fprintf(os.Stderr, "[%6.1fs] %s\n", time.Since(t0).Seconds(), what)
		}
	}
	var err error
	if *mk != "" {
		corpus := compa.LoadCorpus(true)
		env, err = compa.NewEnv(filepath.Join(f.Out, "env"), append(compa.ImportPaths(corpus), "nosuch/pkg")...)
		if err != nil {
			fmt.Fprintln(os.Stderr, "env:", err)
			os.Exit(2)
		}
		runMkStream(o, *mk, f.Out, 7000)
		return
	}
	thorough := f.Tier == "thorough"
	nM := 1500
	if thorough {
		nM = 0 // all
	}
	var stream []mEntry
	if f.Replay == "" {
		stream, err = readStream(*mdir, nM)
		if err != nil {
			fmt.Fprintln(os.Stderr, "stream M:", err)
			os.Exit(2)
		}
	}
	baseline, err := readBaseline(*mdir)
	if err != nil {
		fmt.Fprintln(os.Stderr, "baseline:", err)
		os.Exit(2)
	}
	var items []compa.Item
	for _, e := range stream {
		items = append(items, compa.Item{Files: e.Files})
	}
	env, err = compa.NewEnv(filepath.Join(f.Out, "env"), append(compa.ImportPaths(items), "nosuch/pkg")...)
	if err != nil {
		fmt.Fprintln(os.Stderr, "env:", err)
		os.Exit(2)
	}
	tick("env ready")

	shrunk := map[string]bool{}
	// stream V: a bad accept is a violation keyed by judge+class; first instance of a key is shrunk
	caseV := func(fs compa.Files, origin string, wantBuild bool) {
		caseLine := "c06\t" + compa.Blob(fs)
		v := judge(fs)
		o.Count("V_" + v.status)
		if v.status == "ERR" && os.Getenv("COMPA_DEBUG") != "" {
			fmt.Fprintf(os.Stderr, "V ERR %s: %s\n", origin, v.msg)
		}
		if v.status == "OK-BAD" {
			key := "success-bad-go:" + v.class
			if strings.HasPrefix(v.class, "write-") {
				key = "success-" + v.class
			}
			// the two recorded stream-V findings are keyed by class AND construct, so that the same
			// Go error class coming from another construct is a new violation
			for piece, class := range map[string]string{"late-callee-shadow-pkg": "go-types:undefined-package-name", "paren-complit-header": "go-parse:missing-parentheses-around-composite-literal"} {
				if v.class == class && strings.Contains(origin, piece) {
					key += "@" + piece
				}
			}
			if !shrunk[key] {
				shrunk[key] = true
				fs = compa.DDMin(fs, 80, func(t compa.Files) bool { w := judge(t); return w.status == "OK-BAD" && w.class == v.class })
			}
			o.Oracle(key, "c06\t"+compa.Blob(fs), origin+": "+v.msg)
		}
		if v.status == "OK" && wantBuild {
			toBuild = append(toBuild, built{caseLine: caseLine, src: v.src, fs: fs})
		}
		o.Case(caseLine, v.status, v.status != "PARSE-ERR" && v.status != "NOPKG")
	}
	// stream M: baseline lookup by (id, class)
	reportM := func(id, class, caseLine, detail string) {
		if baseline[id+" "+class] {
			o.Count("M_baseline_hit")
			o.Oracle("gogen-lacks-check:"+class, caseLine, "stream M id "+id+" (listed in corpus/C06/known_bad_accepts.txt): "+detail)
			return
		}
		o.Oracle("new-bad-accept:"+class+":"+id, caseLine, "stream M id "+id+" is accepted by XGo, rejected by Go, and NOT in the baseline: "+detail)
	}
	caseM := func(e mEntry, wantBuild bool) {
		fs := compa.Files(e.Files)
		caseLine := "c06\t" + compa.Blob(fs)
		v := judge(fs)
		o.Count("M_" + v.status)
		if v.status == "OK-BAD" {
			reportM(e.ID, v.class, caseLine, e.Origin+": "+v.msg)
		}
		if v.status == "OK" && wantBuild {
			toBuild = append(toBuild, built{caseLine: caseLine, id: e.ID, src: v.src, fs: fs})
		}
		o.Case(caseLine, v.status, v.status != "PARSE-ERR" && v.status != "NOPKG")
	}
	finishBuilds := func() {
		for i, cm := range buildAll(o, filepath.Join(f.Out, "build")) {
			b := toBuild[i]
			if b.id != "" {
				reportM(b.id, cm[0], b.caseLine, cm[1])
			} else {
				o.Oracle("success-go-build-fails:"+strings.TrimPrefix(cm[0], "gc:"), b.caseLine, cm[1])
			}
		}
	}

	if f.Replay != "" {
		fs := strings.SplitN(f.Replay, "\t", 2)
		if len(fs) == 2 {
			files := compa.UnBlob(fs[1])
			id := idOf(files)
			// a replayed package is judged as stream M if its id is in the baseline, else as stream V
			inBase := false
			for k := range baseline {
				if strings.HasPrefix(k, id+" ") {
					inBase = true
				}
			}
			if inBase {
				caseM(mEntry{ID: id, Origin: "replay", Files: files}, true)
			} else {
				caseV(files, "replay", true)
			}
			finishBuilds()
		}
		return
	}

	r := vh.NewRand(f.Seed)
	buildEvery := 12
	if thorough {
		buildEvery = 1
	}
	nb := 0
	wantBuild := func() bool { nb++; return nb%buildEvery == 0 }

	// ---- stream V
	for i, name := range compa.PieceNames() {
		fs, _ := compa.GenXGo(r.Fork(1000000+i), 1, name)
		caseV(fs, "piece:"+name, true)
	}
	if os.Getenv("COMPA_DEBUG") == "pieces" {
		return
	}
	for i := 0; i < f.N; i++ {
		rr := r.Fork(i)
		fs, pcs := compa.GenXGo(rr, 1+rr.Intn(4), "")
		caseV(fs, "gen:"+strings.Join(pcs, "+"), wantBuild())
	}
	tick("stream V done")
	// ---- stream M (fixed list)
	for _, e := range stream {
		caseM(e, wantBuild())
	}
	o.Stats["stream_M_entries"] = len(stream)
	tick("stream M done")
	finishBuilds()
	tick("build done")
	o.Stats["golist_slow_path"] = env.NList
}
