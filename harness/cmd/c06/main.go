// C06 harness: compiler success implies valid, well-typed Go output.
// Search machinery (not proof): generated valid XGo programs (every sugar), near-miss mutants,
// corpus and mutated corpus; the REAL cl.NewPackage decides success; the written Go must parse
// (go/parser), type-check (go/types, export data, offline) and - for a sample in quick, all in
// thorough - `go build`.
package main

import (
	"bytes"
	"fmt"
	"os"
	"os/exec"
	"path/filepath"
	"regexp"
	"strings"
	"time"

	"verifharness/compa"
	"verifharness/vh"
)

var env *compa.Env

type built struct {
	caseLine string
	src      []byte
	fs       compa.Files
}

var toBuild []built

// judgeKey re-evaluates one package in-process and returns the oracle key ("" = no violation);
// used by the shrinker.
func judgeKey(fs compa.Files) string {
	p := compa.Parse(fs)
	if p.Panic != "" || p.Err != nil {
		return ""
	}
	pkg := compa.MainPkg(p.Pkgs)
	if pkg == nil {
		return ""
	}
	c := env.Compile(p.Fset, pkg, false)
	switch {
	case c.Panic != "" || c.Err != nil:
		return ""
	case c.WPanic != "":
		return "success-write-panics:" + compa.KeyOnly(c.WPanic)
	case c.WriteErr != nil:
		return "success-write-fails:" + compa.ErrClass(c.WriteErr.Error())
	}
	if class, _ := env.GoCheck(c.Src, fs); class != "" {
		return "success-bad-go:" + class
	}
	return ""
}

var shrunk = map[string]bool{}

// report records an oracle failure; the first instance of each key is shrunk (lines dropped
// while the same key persists).
func report(o *vh.Out, key string, fs compa.Files, detail string) {
	if !shrunk[key] && !strings.HasPrefix(key, "success-go-build-fails") {
		shrunk[key] = true
		fs = compa.DDMin(fs, 80, func(t compa.Files) bool { return judgeKey(t) == key })
	}
	o.Oracle(key, "c06\t"+compa.Blob(fs), detail)
}

func runCase(o *vh.Out, fs compa.Files, origin string, wantBuild bool) {
	caseLine := "c06\t" + compa.Blob(fs)
	p := compa.Parse(fs)
	if p.Panic != "" {
		o.Count("skip_parser_panic")
		o.Case(caseLine, "PARSE-PANIC", false)
		return
	}
	if p.Err != nil {
		if os.Getenv("COMPA_DEBUG") != "" {
			fmt.Fprintf(os.Stderr, "PARSE-ERR %s: %v\n", origin, p.Err)
		}
		o.Count("skip_parse_error")
		o.Case(caseLine, "PARSE-ERR", false)
		return
	}
	pkg := compa.MainPkg(p.Pkgs)
	if pkg == nil {
		o.Count("skip_no_package")
		o.Case(caseLine, "NOPKG", false)
		return
	}
	c := env.Compile(p.Fset, pkg, false)
	switch {
	case c.Panic != "":
		o.Count("compile_escaped_panic") // C07's oracle, not C06's
		o.Case(caseLine, "PANIC "+compa.KeyOnly(c.Panic), true)
		return
	case c.Err != nil:
		if os.Getenv("COMPA_DEBUG") != "" {
			fmt.Fprintf(os.Stderr, "ERR %s: %v\n", origin, c.Err)
		}
		o.Count("compile_error")
		o.Count("errclass_" + compa.ErrClass(c.Err.Error()))
		o.Case(caseLine, "ERR", true)
		return
	case c.WPanic != "":
		o.Count("compile_ok")
		report(o, "success-write-panics:"+compa.KeyOnly(c.WPanic), fs, origin+": "+c.WPanic)
		o.Case(caseLine, "OK-WRITEPANIC", true)
		return
	case c.WriteErr != nil:
		// success reported but the output cannot even be written
		o.Count("compile_ok")
		report(o, "success-write-fails:"+compa.ErrClass(c.WriteErr.Error()), fs, origin+": "+c.WriteErr.Error())
		o.Case(caseLine, "OK-WRITEERR", true)
		return
	}
	o.Count("compile_ok")
	o.Count("ok_from_" + strings.SplitN(origin, ":", 2)[0])
	class, msg := env.GoCheck(c.Src, fs)
	if class != "" {
		report(o, "success-bad-go:"+class, fs, origin+": "+msg)
		o.Case(caseLine, "OK-BADGO "+class, true)
		return
	}
	if wantBuild {
		toBuild = append(toBuild, built{caseLine, c.Src, fs})
	}
	o.Case(caseLine, "OK", true)
}

var buildErrRe = regexp.MustCompile(`(?m)^(?:\./)?p\d+/[^:\s]+:\d+:\d+: (.*)$`)

// buildAll compiles every queued output with the Go toolchain (gc), all in one
// `go list -e -export ./...` (compile only: nothing is linked or run; link-time needs of
// llgo/C demo programs are outside the property).
func buildAll(o *vh.Out, dir string) {
	if len(toBuild) == 0 {
		return
	}
	compa.WriteModule(dir)
	for i, b := range toBuild {
		d := filepath.Join(dir, fmt.Sprintf("p%05d", i))
		os.MkdirAll(d, 0o755)
		os.WriteFile(filepath.Join(d, "xgo_autogen.go"), b.src, 0o644)
		for _, n := range b.fs.Names() {
			if strings.HasSuffix(n, ".go") && !strings.HasSuffix(n, "_test.go") {
				os.WriteFile(filepath.Join(d, n), []byte(b.fs[n]), 0o644)
			}
		}
	}
	cmd := exec.Command("go", "list", "-e", "-export", "-f", "@@{{.ImportPath}}|{{if .Error}}{{.Error.Err}}{{end}}", "./...")
	cmd.Dir = dir
	cmd.Env = append(os.Environ(), "GOFLAGS=-mod=mod", "GOPROXY=off", "GOSUMDB=off", "GOTOOLCHAIN=local", "CGO_ENABLED=0")
	var out, serr bytes.Buffer
	cmd.Stdout, cmd.Stderr = &out, &serr
	err := cmd.Run()
	o.Stats["go_build_packages"] += len(toBuild)
	n := 0
	for _, rec := range strings.Split(out.String(), "@@") {
		k := strings.IndexByte(rec, '|')
		if k < 0 || !strings.HasPrefix(rec, "verifprog/p") {
			continue
		}
		n++
		var i int
		fmt.Sscanf(rec[len("verifprog/p"):k], "%d", &i)
		msg := strings.TrimSpace(rec[k+1:])
		if msg == "" || i < 0 || i >= len(toBuild) {
			continue
		}
		first := msg
		if m := buildErrRe.FindStringSubmatch(msg); m != nil {
			first = m[1]
		}
		if strings.Contains(msg, "use of internal package") || !strings.Contains(msg, "xgo_autogen.go") {
			o.Count("go_build_skipped_not_about_output")
			continue // an artefact of building outside /repo, or an error in the package's own Go files
		}
		o.Oracle("success-go-build-fails:"+compa.ErrClass(first), toBuild[i].caseLine, firstN(msg, 300))
	}
	if n != len(toBuild) {
		fmt.Fprintf(os.Stderr, "go list -export: %v: %d of %d packages listed\n%s\n", err, n, len(toBuild), firstN(serr.String(), 2000))
		os.Exit(3)
	}
}

func firstN(s string, n int) string {
	if len(s) > n {
		return s[:n]
	}
	return s
}

func main() {
	f := vh.ParseFlags()
	o := vh.NewOut(f.Out)
	defer o.Close()
	var err error
	t0 := time.Now()
	corpus := compa.LoadCorpus(true)
	env, err = compa.NewEnv(filepath.Join(f.Out, "env"), append(compa.ImportPaths(corpus), "nosuch/pkg")...)
	tick := func(what string) {
		if os.Getenv("COMPA_DEBUG") != "" {
			fmt.Fprintf(os.Stderr, "[%6.1fs] %s\n", time.Since(t0).Seconds(), what)
		}
	}
	tick("env ready")
	if err != nil {
		fmt.Fprintln(os.Stderr, "env:", err)
		os.Exit(2)
	}
	if f.Replay != "" {
		fs := strings.SplitN(f.Replay, "\t", 2)
		if len(fs) == 2 {
			runCase(o, compa.UnBlob(fs[1]), "replay", true)
			buildAll(o, filepath.Join(f.Out, "build"))
		}
		return
	}
	thorough := f.Tier == "thorough"
	r := vh.NewRand(f.Seed)
	buildEvery := 12
	if thorough {
		buildEvery = 1
	}
	nb := 0
	wantBuild := func() bool { nb++; return nb%buildEvery == 0 }

	// 0. every sugar piece alone (coverage floor: each sugar compiled at least once per run)
	for i, name := range compa.PieceNames() {
		fs, _ := compa.GenXGo(r.Fork(1000000+i), 1, name)
		runCase(o, fs, "piece:"+name, true)
	}
	if os.Getenv("COMPA_DEBUG") == "pieces" {
		return
	}
	o.Stats["corpus_items"] = len(corpus)
	nearMiss := []string{"ident-swap", "ident-undefined", "type-swap", "lit-swap", "drop-arg", "add-arg", "drop-line", "dup-line",
		"drop-return", "define-assign", "lhs-count", "unused-var", "unused-import", "op-swap", "dup-decl", "dup-case"}
	// 1. corpus as is (a rotating slice in quick, all in thorough)
	for i, it := range corpus {
		if thorough || (i+int(f.Seed))%4 == 0 {
			runCase(o, it.Files, "corpus:"+it.Origin, wantBuild())
		}
	}
	tick("corpus done")
	// 2. generated programs and their near-miss mutants; mutated corpus
	for i := 0; i < f.N; i++ {
		rr := r.Fork(i)
		switch {
		case i%4 == 0:
			fs, pcs := compa.GenXGo(rr, 1+rr.Intn(4), "")
			runCase(o, fs, "gen:"+strings.Join(pcs, "+"), wantBuild())
		case i%4 == 1 || i%4 == 2:
			fs, pcs := compa.GenXGo(rr, 1+rr.Intn(3), "")
			mf, kinds := compa.MutateFiles(rr, fs, nearMiss, 1+rr.Intn(2), "")
			o.Count("mut_" + strings.SplitN(kinds, "+", 2)[0])
			runCase(o, mf, "genmut:"+strings.Join(pcs, "+")+"/"+kinds, wantBuild())
		default:
			it := corpus[rr.Intn(len(corpus))]
			other := corpus[rr.Intn(len(corpus))]
			var osrc string
			for _, n := range other.Files.Names() {
				osrc = other.Files[n]
				break
			}
			kinds := nearMiss
			if rr.Chance(20) {
				kinds = append(append([]string{}, nearMiss...), "splice", "swap-tokens", "dup-span")
			}
			mf, ks := compa.MutateFiles(rr, it.Files, kinds, 1+rr.Intn(2), osrc)
			o.Count("mut_" + strings.SplitN(ks, "+", 2)[0])
			runCase(o, mf, "corpusmut:"+it.Origin+"/"+ks, wantBuild())
		}
	}
	tick("cases done")
	buildAll(o, filepath.Join(f.Out, "build"))
	tick("build done")
	o.Stats["golist_slow_path"] = env.NList
}
