// Hook trace -> case lines for the Lean driver.
package main

import (
	"fmt"
	"sort"
	"strconv"
	"strings"

	"github.com/goplus/xgo/x/jsonrpc2"
)

func b01(b bool) byte {
	if b {
		return '1'
	}
	return '0'
}

type refTable struct {
	calls map[*jsonrpc2.AsyncCall]int
	reqs  map[any]int
}

func (t *refTable) call(c *jsonrpc2.AsyncCall) int {
	if n, ok := t.calls[c]; ok {
		return n
	}
	n := len(t.calls) + 1
	t.calls[c] = n
	return n
}

func (t *refTable) req(r any) int {
	if n, ok := t.reqs[r]; ok {
		return n
	}
	n := len(t.reqs) + 1
	t.reqs[r] = n
	return n
}

func (t *refTable) visit(st *jsonrpc2.VerifState) {
	for _, e := range st.Outgoing {
		t.call(e.Call)
	}
	for _, e := range st.ByID {
		t.req(e.Req)
	}
	for _, e := range st.Queue {
		t.req(e.Req)
	}
}

func fmtState(st *jsonrpc2.VerifState, t *refTable) string {
	var sb strings.Builder
	sb.Write([]byte{b01(st.ConnClosing), b01(st.Reading), b01(st.ReadErr), b01(st.WriteErr), b01(st.CloserOpen), b01(st.Done), b01(st.HandlerRunning)})
	sb.WriteByte(';')
	sb.WriteString(strconv.Itoa(st.OutNotif))
	sb.WriteByte(';')
	sb.WriteString(strconv.Itoa(st.Incoming))
	sb.WriteByte(';')
	if len(st.Outgoing) == 0 {
		sb.WriteByte('-')
	}
	for i, e := range st.Outgoing {
		if i > 0 {
			sb.WriteByte(',')
		}
		fmt.Fprintf(&sb, "%s:%d:%s:%c", jsonrpc2.VerifIDString(e.Key), t.call(e.Call), jsonrpc2.VerifIDString(e.CallID), b01(e.Ready))
	}
	sb.WriteByte(';')
	if len(st.ByID) == 0 {
		sb.WriteByte('-')
	}
	for i, e := range st.ByID {
		if i > 0 {
			sb.WriteByte(',')
		}
		fmt.Fprintf(&sb, "%s:%d:%s", jsonrpc2.VerifIDString(e.Key), t.req(e.Req), jsonrpc2.VerifIDString(e.ReqID))
	}
	sb.WriteByte(';')
	if len(st.Queue) == 0 {
		sb.WriteByte('-')
	}
	for i, e := range st.Queue {
		if i > 0 {
			sb.WriteByte(',')
		}
		fmt.Fprintf(&sb, "%d:%s", t.req(e.Req), jsonrpc2.VerifIDString(e.ReqID))
	}
	return sb.String()
}

// fmtStateRaw formats a state for diagnostics only (fresh numbering).
func fmtStateRaw(st *jsonrpc2.VerifState) string {
	return fmtState(st, &refTable{calls: map[*jsonrpc2.AsyncCall]int{}, reqs: map[any]int{}})
}

func siteLine(site string) int {
	if !strings.HasPrefix(site, "conn.go:") {
		return 0
	}
	n, err := strconv.Atoi(site[len("conn.go:"):])
	if err != nil {
		return 0
	}
	return n
}

func classifyPanic(s string) string {
	switch {
	case strings.Contains(s, "retire called twice"):
		return "retire-called-twice"
	case strings.Contains(s, "incoming count is already zero"):
		return "incoming-already-zero"
	case strings.Contains(s, "non-idle when already done"):
		return "non-idle-when-done"
	case strings.Contains(s, "close of closed channel"):
		return "close-of-closed-channel"
	case strings.Contains(s, "close of nil channel"):
		return "close-of-nil-channel"
	case strings.Contains(s, "nil pointer dereference") || strings.Contains(s, "nil map"):
		return "nil-deref"
	case strings.Contains(s, "concurrent map"):
		return "concurrent-map"
	case strings.Contains(s, "all goroutines are asleep"):
		return "deadlock"
	case strings.Contains(s, "index out of range") || strings.Contains(s, "slice bounds"):
		return "index-out-of-range"
	case strings.Contains(s, "c39 harness"):
		return "harness"
	}
	return "other"
}

// traceLines converts the hook records of this scenario's connections into
// step/chain case lines and evaluates the trace-level oracle parts.
func (sc *scenario) traceLines() {
	sc.recMu.Lock()
	recs := append([]*jsonrpc2.VerifRecord(nil), sc.recs...)
	sc.recMu.Unlock()
	mine := map[*jsonrpc2.Connection]*endpoint{}
	for _, ep := range sc.eps {
		if ep.conn != nil {
			mine[ep.conn] = ep
		}
	}
	t := &refTable{calls: map[*jsonrpc2.AsyncCall]int{}, reqs: map[any]int{}}
	per := map[*jsonrpc2.Connection][]*jsonrpc2.VerifRecord{}
	for _, r := range recs {
		if mine[r.Conn] == nil {
			sc.count("stale_records")
			continue
		}
		t.visit(&r.Pre)
		t.visit(&r.Post)
		for _, e := range r.Retired {
			t.call(e.Call)
		}
		per[r.Conn] = append(per[r.Conn], r)
	}
	closeRaced := false
	var lines []string
	for _, ep := range sc.eps {
		rs := per[ep.conn]
		sort.SliceStable(rs, func(i, j int) bool { return rs[i].Seq < rs[j].Seq })
		prevPost := ""
		for k, r := range rs {
			L := siteLine(r.Site)
			pre, post := fmtState(&r.Pre, t), fmtState(&r.Post, t)
			type ret struct {
				ref int
				s   string
			}
			var rets []ret
			for _, e := range r.Retired {
				ref := t.call(e.Call)
				rets = append(rets, ret{ref, fmt.Sprintf("%d:%s:%s", ref, jsonrpc2.VerifIDString(e.CallID), jsonrpc2.VerifIDString(e.RespID))})
			}
			sort.Slice(rets, func(i, j int) bool { return rets[i].ref < rets[j].ref })
			retStr := "-"
			if len(rets) > 0 {
				parts := make([]string, len(rets))
				for i, x := range rets {
					parts[i] = x.s
				}
				retStr = strings.Join(parts, ",")
			}
			if k > 0 {
				lines = append(lines, "chain\t"+prevPost+"\t"+pre)
			}
			lines = append(lines, fmt.Sprintf("step\t%d\t%s\t%s\t%s", L, pre, post, retStr))
			prevPost = post
			sc.count(fmt.Sprintf("site_%d", L))
			if r.Panic != nil {
				sc.fail("panic-in-update:"+classifyPanic(fmt.Sprint(r.Panic)), fmt.Sprintf("conn=%s site=%s panic=%v", ep.name, r.Site, r.Panic))
			}
			if r.Post.Done && r.Post.Reading {
				sc.fail("done-with-reader-running", fmt.Sprintf("conn=%s site=%s: done was closed while the reader goroutine is still running: %s", ep.name, r.Site, post))
			}
			if L == 510 || r.Func != "" && strings.HasSuffix(r.Func, ".Close") {
				if len(r.Pre.Outgoing) > 0 || r.Pre.Incoming > 0 {
					closeRaced = true
				}
			}
		}
	}
	if closeRaced {
		sc.count("close_raced_inflight")
	}
	sc.lines = lines
}
