// Randomized concurrent test harness + property oracle for C39
// (x/jsonrpc2.Connection: every call completes exactly once with its own
// answer, every incoming call is answered at most once, Close waits for the
// in-flight handlers).
//
// Process structure: the parent splits the scenario indices into batches and
// runs each batch in a child process (the code under test can panic in its own
// goroutines or hang); it restarts children after a crash/hang and merges the
// children's step lines, oracle lines and counters into the vh.Out files.
//
// Behaviour of the unchanged code worth knowing (none of it violates C39):
//   - Close/Wait block as long as an outgoing call is unanswered and the transport
//     stays open. Two Connections whose Writers both fail WITHOUT closing the
//     transport therefore wait for each other forever; the harness cuts the link
//     in that situation ("both_write_faults") and otherwise after the soft
//     deadline ("winddown_forced_sever"); only what still hangs after the link
//     is cut is reported (close-hang / wait-hang / await-hang).
//   - The reader goroutine itself writes responses (preempted calls, rejections
//     while shutting down), so two Connections over an unbuffered transport
//     (net.Pipe, fakenet over io.Pipe) can deadlock in Write; the harness buffers
//     at least one direction of such links (pumpWriter).
//   - A call request whose id is still in use is dropped silently (no response
//     is written: acceptRequest clears req.ID), so it never counts as answered.
//
// Files: main.go (parent/child plumbing), gen.go (scenario generation from
// (seed, idx)), transport.go (pipes, fault wrapper, wire taps), raw.go (scripted
// raw peer), run.go (scenario execution + oracle), trace.go (hook trace -> lines).
package main

import (
	"bufio"
	"bytes"
	"flag"
	"fmt"
	"os"
	"os/exec"
	"path/filepath"
	"runtime"
	"sort"
	"strconv"
	"strings"
	"sync"
	"sync/atomic"
	"time"

	"github.com/goplus/xgo/x/jsonrpc2"
	"verifharness/vh"
)

var (
	flagChild  = flag.String("child", "", "internal: run scenarios lo:hi in this process")
	flagRepeat = flag.Int("repeat", 1, "internal: repeat the child range up to this many times, until an oracle failure")
)

func main() {
	f := vh.ParseFlags()
	if *flagChild != "" {
		childMain(f, *flagChild)
		return
	}
	parentMain(f)
}

func scenLine(seed uint64, idx int) string { return fmt.Sprintf("scen\t%d\t%d", seed, idx) }

// ---------------------------------------------------------------------------
// child

type childOut struct {
	mu       sync.Mutex
	progress *os.File
	steps    *os.File
	oracle   *os.File
	counts   *os.File
	seen     map[string]struct{}
	nFails   int
}

func mustCreate(dir, name string) *os.File {
	f, err := os.Create(filepath.Join(dir, name))
	if err != nil {
		fmt.Fprintln(os.Stderr, "c39 child:", err)
		os.Exit(4)
	}
	return f
}

func newChildOut(dir string) *childOut {
	os.MkdirAll(dir, 0o755)
	return &childOut{
		progress: mustCreate(dir, "progress.txt"),
		steps:    mustCreate(dir, "steps.txt"),
		oracle:   mustCreate(dir, "oracle.txt"),
		counts:   mustCreate(dir, "counts.txt"),
		seen:     map[string]struct{}{},
	}
}

func oneLine(s string) string {
	s = strings.ReplaceAll(s, "\n", "\\n")
	s = strings.ReplaceAll(s, "\r", "\\r")
	return strings.ReplaceAll(s, "\t", " ")
}

func (co *childOut) oracleLine(key, caseLine, detail string) {
	co.mu.Lock()
	co.nFails++
	fmt.Fprintf(co.oracle, "%s\t%s\t%s\n", oneLine(key), strings.ReplaceAll(caseLine, "\t", " "), oneLine(detail))
	co.mu.Unlock()
}

func (co *childOut) writeResult(caseLine string, res *scenResult) {
	co.mu.Lock()
	var sb strings.Builder
	for _, l := range res.lines {
		if _, dup := co.seen[l]; dup {
			continue
		}
		co.seen[l] = struct{}{}
		sb.WriteString(l)
		sb.WriteByte('\n')
	}
	co.steps.WriteString(sb.String())
	sb.Reset()
	keys := make([]string, 0, len(res.counts))
	for k := range res.counts {
		keys = append(keys, k)
	}
	sort.Strings(keys)
	for _, k := range keys {
		fmt.Fprintf(&sb, "%s\t%d\n", k, res.counts[k])
	}
	fmt.Fprintf(&sb, "steps_total\t%d\n", len(res.lines))
	co.counts.WriteString(sb.String())
	co.mu.Unlock()
	for _, f := range res.fails {
		co.oracleLine(f.key, caseLine, f.detail)
	}
}

func childMain(f *vh.Flags, rng string) {
	parts := strings.SplitN(rng, ":", 2)
	lo, err1 := strconv.Atoi(parts[0])
	hi, err2 := lo+1, error(nil)
	if len(parts) == 2 {
		hi, err2 = strconv.Atoi(parts[1])
	}
	if err1 != nil || err2 != nil {
		fmt.Fprintln(os.Stderr, "c39 child: bad -child range", rng)
		os.Exit(4)
	}
	co := newChildOut(f.Out)
	tier := tierOf(f.Tier)
	jsonrpc2.VerifYield = verifYield
	jsonrpc2.VerifSink = func(rec *jsonrpc2.VerifRecord) {
		sc, _ := curScenario.Load().(*scenario)
		if sc != nil {
			sc.sink(rec)
		}
		if rec.Panic != nil { // the process is about to die: write it out now
			cl := "scen\t?\t?"
			if sc != nil {
				cl = sc.caseLine
			}
			co.oracleLine("panic-in-update:"+classifyPanic(fmt.Sprint(rec.Panic)), cl, fmt.Sprintf("site=%s func=%s panic=%v", rec.Site, rec.Func, rec.Panic))
		}
	}
	baseGoroutines = runtime.NumGoroutine() + 1 // + the scenario goroutine
	for rep := 0; rep < *flagRepeat; rep++ {
		runChildRange(f, co, tier, lo, hi)
		if co.nFails > 0 {
			break
		}
	}
	os.Exit(0)
}

func runChildRange(f *vh.Flags, co *childOut, tier tierCfg, lo, hi int) {
	for idx := lo; idx < hi; idx++ {
		fmt.Fprintf(co.progress, "BEGIN %d\n", idx)
		done := make(chan *scenResult, 1)
		go func() { done <- runScenario(f.Seed, idx, f.Tier) }()
		var res *scenResult
		select {
		case res = <-done:
		case <-time.After(tier.hard + 8*time.Second):
			sc, _ := curScenario.Load().(*scenario)
			detail := "scenario watchdog expired"
			if sc != nil {
				detail += " | " + sc.stateSummary()
			}
			co.oracleLine("hang", scenLine(f.Seed, idx), detail+" | "+goroutineDump(1400))
			fmt.Fprintf(co.progress, "END %d\n", idx)
			os.Exit(3)
		}
		co.writeResult(scenLine(f.Seed, idx), res)
		fmt.Fprintf(co.progress, "END %d\n", idx)
		if debugTimes {
			fmt.Fprintf(os.Stderr, "scen %d %s %v %s\n", idx, res.desc, res.dur, res.phases)
		}
		if res.sticky {
			os.Exit(3)
		}
	}
}

// ---------------------------------------------------------------------------
// parent

type parent struct {
	f        *vh.Flags
	o        *vh.Out
	mu       sync.Mutex // guards o and the fields below
	seen     map[string]struct{}
	total    int
	ran      int
	events   int32 // crashes + hangs
	childSeq int32
	keep     bool
}

const maxEvents = 8

var debugTimes = os.Getenv("C39_DEBUG") != ""

func nontrivialLine(l string) bool {
	fs := strings.Split(l, "\t")
	switch fs[0] {
	case "step":
		return len(fs) >= 5 && (fs[2] != fs[3] || fs[4] != "-")
	case "chain":
		return len(fs) >= 3 && fs[1] != fs[2]
	}
	return false
}

func readLines(path string, fn func(string)) {
	fh, err := os.Open(path)
	if err != nil {
		return
	}
	defer fh.Close()
	s := bufio.NewScanner(fh)
	s.Buffer(make([]byte, 1<<20), 1<<26)
	for s.Scan() {
		fn(s.Text())
	}
}

// progressOf returns the last index begun, whether it ended, and how many ended.
func progressOf(dir string) (last int, ended bool, nEnded int) {
	last = -1
	readLines(filepath.Join(dir, "progress.txt"), func(l string) {
		var k string
		var i int
		if n, _ := fmt.Sscanf(l, "%s %d", &k, &i); n != 2 {
			return
		}
		if k == "BEGIN" {
			last, ended = i, false
		} else if k == "END" && i == last {
			ended = true
			nEnded++
		}
	})
	return
}

func (p *parent) merge(dir string) (nOracle int) {
	p.mu.Lock()
	defer p.mu.Unlock()
	readLines(filepath.Join(dir, "steps.txt"), func(l string) {
		if l == "" {
			return
		}
		if _, dup := p.seen[l]; dup {
			return
		}
		p.seen[l] = struct{}{}
		p.o.Case(l, "ok", nontrivialLine(l))
	})
	readLines(filepath.Join(dir, "oracle.txt"), func(l string) {
		fs := strings.SplitN(l, "\t", 3)
		if len(fs) < 3 {
			return
		}
		nOracle++
		p.o.Oracle(fs[0], fs[1], fs[2])
	})
	readLines(filepath.Join(dir, "counts.txt"), func(l string) {
		fs := strings.SplitN(l, "\t", 2)
		if len(fs) != 2 {
			return
		}
		n, err := strconv.Atoi(fs[1])
		if err != nil {
			return
		}
		p.o.Stats[fs[0]] += n
	})
	return
}

// runChild runs scenarios [lo,hi) in one child; returns the next index to run.
func (p *parent) runChild(seed uint64, lo, hi int) (next int, nOracle int) {
	return p.runChildN(seed, lo, hi, 1)
}

func (p *parent) runChildN(seed uint64, lo, hi, repeat int) (next int, nOracle int) {
	k := atomic.AddInt32(&p.childSeq, 1)
	dir := filepath.Join(p.f.Out, fmt.Sprintf("child-%d", k))
	os.RemoveAll(dir)
	cmd := exec.Command(os.Args[0], "-seed", strconv.FormatUint(seed, 10), "-tier", p.f.Tier,
		"-out", dir, "-child", fmt.Sprintf("%d:%d", lo, hi), "-repeat", strconv.Itoa(repeat))
	var stderr bytes.Buffer
	cmd.Stderr = &stderr
	cmd.Stdout = nil
	cmd.Env = append(os.Environ(), "GOTRACEBACK=single")
	tier := tierOf(p.f.Tier)
	killed := int32(0)
	if err := cmd.Start(); err != nil {
		p.mu.Lock()
		p.o.Oracle("crash:startup", scenLine(seed, lo), err.Error())
		p.mu.Unlock()
		atomic.AddInt32(&p.events, 1)
		return lo + 1, 1
	}
	exited := make(chan struct{})
	go func() { // backstop: kill a child that makes no progress at all
		lastSize, lastChange := int64(-1), time.Now()
		for {
			select {
			case <-exited:
				return
			case <-time.After(500 * time.Millisecond):
			}
			var sz int64
			if st, err := os.Stat(filepath.Join(dir, "progress.txt")); err == nil {
				sz = st.Size()
			}
			if sz != lastSize {
				lastSize, lastChange = sz, time.Now()
			} else if time.Since(lastChange) > tier.hard+30*time.Second {
				atomic.StoreInt32(&killed, 1)
				cmd.Process.Kill()
				return
			}
		}
	}()
	err := cmd.Wait()
	close(exited)
	last, ended, nEnded := progressOf(dir)
	nOracle = p.merge(dir)
	p.mu.Lock()
	p.ran += nEnded
	p.mu.Unlock()
	if !p.keep {
		defer os.RemoveAll(dir)
	}
	if err == nil {
		return hi, nOracle
	}
	code := -1
	if ee, ok := err.(*exec.ExitError); ok {
		code = ee.ExitCode()
	}
	if last < lo {
		last = lo
	}
	if code == 3 && atomic.LoadInt32(&killed) == 0 {
		// the child recorded a hang / leak itself and asked to be replaced
		atomic.AddInt32(&p.events, 1)
		return last + 1, nOracle
	}
	se := stderr.String()
	key := "crash:" + classifyPanic(se)
	if atomic.LoadInt32(&killed) != 0 {
		key = "hang"
		se = "child made no progress and was killed by the parent\n" + se
	} else if !strings.Contains(se, "panic:") && !strings.Contains(se, "fatal error:") {
		key = "crash:exit-" + strconv.Itoa(code)
	}
	if len(se) > 1500 {
		se = se[:1500]
	}
	p.mu.Lock()
	p.o.Oracle(key, scenLine(seed, last), se)
	if !ended {
		p.ran++
	}
	p.mu.Unlock()
	atomic.AddInt32(&p.events, 1)
	return last + 1, nOracle + 1
}

func (p *parent) runRange(seed uint64, lo, hi int) {
	for cur := lo; cur < hi; {
		if atomic.LoadInt32(&p.events) >= maxEvents {
			return
		}
		cur, _ = p.runChild(seed, cur, hi)
	}
}

func parentMain(f *vh.Flags) {
	o := vh.NewOut(f.Out)
	defer o.Close()
	p := &parent{f: f, o: o, seen: map[string]struct{}{}, keep: os.Getenv("C39_KEEP") != ""}
	if f.Replay != "" {
		p.replay(f.Replay)
		return
	}
	t0 := time.Now()
	workers := runtime.NumCPU() / 2
	if workers > 4 {
		workers = 4
	}
	if workers < 1 {
		workers = 1
	}
	n := f.N
	chunk := (n + workers*3 - 1) / (workers * 3)
	if chunk < 10 {
		chunk = 10
	}
	type job struct{ lo, hi int }
	jobs := make(chan job, n/chunk+2)
	for lo := 0; lo < n; lo += chunk {
		hi := lo + chunk
		if hi > n {
			hi = n
		}
		jobs <- job{lo, hi}
	}
	close(jobs)
	var wg sync.WaitGroup
	for w := 0; w < workers; w++ {
		wg.Add(1)
		go func() {
			defer wg.Done()
			for j := range jobs {
				if atomic.LoadInt32(&p.events) >= maxEvents {
					continue
				}
				p.runRange(f.Seed, j.lo, j.hi)
			}
		}()
	}
	wg.Wait()
	o.Stats["scenarios"] = p.ran
	o.Stats["scenarios_requested"] = n
	o.Stats["steps_distinct"] = len(p.seen)
	o.Stats["children"] = int(p.childSeq)
	o.Stats["crash_or_hang_events"] = int(p.events)
	if atomic.LoadInt32(&p.events) >= maxEvents {
		o.Stats["aborted_early"] = 1
	}
	o.Stats["wall_ms"] = int(time.Since(t0) / time.Millisecond)
}

// replay re-runs one case line.
func (p *parent) replay(line string) {
	fs := strings.Fields(strings.ReplaceAll(line, "\\t", "\t"))
	if len(fs) == 0 {
		return
	}
	if fs[0] != "scen" {
		// step/chain lines are re-checked by the Lean driver
		p.o.Case(line, "ok", true)
		return
	}
	if len(fs) < 3 {
		p.o.Oracle("harness", line, "malformed replay line")
		return
	}
	seed, err1 := strconv.ParseUint(fs[1], 10, 64)
	idx, err2 := strconv.Atoi(fs[2])
	if err1 != nil || err2 != nil {
		p.o.Oracle("harness", line, "malformed replay line")
		return
	}
	// one child repeats the scenario in-process until an oracle failure shows up
	// (schedules are nondeterministic); a crashed/hung child ends the replay too.
	_, nOracle := p.runChildN(seed, idx, idx+1, 200)
	p.o.Stats["replay_reproduced"] = 0
	if nOracle > 0 {
		p.o.Stats["replay_reproduced"] = 1
	}
	p.o.Stats["replay_attempts"] = p.ran
	p.o.Stats["scenarios"] = p.ran
	p.o.Stats["steps_distinct"] = len(p.seen)
}
