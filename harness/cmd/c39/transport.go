// Transports, fault injection wrapper and wire taps for the C39 harness.
package main

import (
	"context"
	"errors"
	"io"
	"net"
	"runtime"
	"sync"
	"sync/atomic"
	"time"

	"github.com/goplus/xgo/x/fakenet"
	"github.com/goplus/xgo/x/jsonrpc2"
)

// ---------------------------------------------------------------------------
// scheduling noise: one cheap goroutine-safe PRNG (atomic weyl sequence + mix)

var (
	noiseState   uint64
	yieldGosched uint32 // threshold out of 65536: VerifYield calls Gosched
	yieldSleep   uint32 // threshold out of 65536: VerifYield sleeps a few µs
	ioGosched    uint32 // threshold out of 65536: Read/Write of faultConn yields
	ioSleep      uint32
	ioChunk      uint32 // threshold out of 65536: a Read returns a short chunk
)

func noise() uint64 {
	x := atomic.AddUint64(&noiseState, 0x9E3779B97F4A7C15)
	x = (x ^ (x >> 30)) * 0xBF58476D1CE4E5B9
	x = (x ^ (x >> 27)) * 0x94D049BB133111EB
	return x ^ (x >> 31)
}

// verifYield is installed as jsonrpc2.VerifYield (runs with stateMu held).
func verifYield() {
	z := noise()
	v := uint32(z & 0xffff)
	g := atomic.LoadUint32(&yieldGosched)
	if v < g {
		runtime.Gosched()
	} else if v < g+atomic.LoadUint32(&yieldSleep) {
		time.Sleep(time.Duration(1+(z>>16)%8) * time.Microsecond)
	}
}

func ioNoise() {
	z := noise()
	v := uint32(z & 0xffff)
	g := atomic.LoadUint32(&ioGosched)
	if v < g {
		runtime.Gosched()
	} else if v < g+atomic.LoadUint32(&ioSleep) {
		time.Sleep(time.Duration(1+(z>>16)%16) * time.Microsecond)
	}
}

// ---------------------------------------------------------------------------
// unbounded one-directional byte queue

type bufHalf struct {
	mu      sync.Mutex
	cond    *sync.Cond
	buf     []byte
	wclosed bool // writer closed: reader drains, then io.EOF
	rclosed bool // reader closed: reads and writes fail
}

func newBufHalf() *bufHalf {
	h := &bufHalf{}
	h.cond = sync.NewCond(&h.mu)
	return h
}

func (h *bufHalf) Read(p []byte) (int, error) {
	h.mu.Lock()
	defer h.mu.Unlock()
	for {
		if h.rclosed {
			return 0, io.ErrClosedPipe
		}
		if len(h.buf) > 0 {
			n := copy(p, h.buf)
			h.buf = h.buf[n:]
			if len(h.buf) == 0 {
				h.buf = nil
			}
			return n, nil
		}
		if h.wclosed {
			return 0, io.EOF
		}
		h.cond.Wait()
	}
}

func (h *bufHalf) Write(p []byte) (int, error) {
	h.mu.Lock()
	defer h.mu.Unlock()
	if h.wclosed || h.rclosed {
		return 0, io.ErrClosedPipe
	}
	h.buf = append(h.buf, p...)
	h.cond.Broadcast()
	return len(p), nil
}

func (h *bufHalf) closeWrite() {
	h.mu.Lock()
	h.wclosed = true
	h.cond.Broadcast()
	h.mu.Unlock()
}

func (h *bufHalf) closeRead() {
	h.mu.Lock()
	h.rclosed = true
	h.buf = nil
	h.cond.Broadcast()
	h.mu.Unlock()
}

func (h *bufHalf) empty() bool {
	h.mu.Lock()
	defer h.mu.Unlock()
	return len(h.buf) == 0
}

// bufConn is one end of the buffered duplex pipe (transport c).
type bufConn struct{ in, out *bufHalf }

func (c *bufConn) Read(p []byte) (int, error)  { return c.in.Read(p) }
func (c *bufConn) Write(p []byte) (int, error) { return c.out.Write(p) }
func (c *bufConn) Close() error {
	c.in.closeRead()
	c.out.closeWrite()
	return nil
}

// ---------------------------------------------------------------------------
// pumpWriter decouples Write from a synchronous transport (unbounded queue +
// pump goroutine), like a socket send buffer. Write errors are reported late.

type pumpWriter struct {
	under io.Writer
	mu    sync.Mutex
	cond  *sync.Cond
	q     [][]byte
	busy  bool
	err   error
	stop  bool
	done  chan struct{}
}

func newPumpWriter(under io.Writer) *pumpWriter {
	p := &pumpWriter{under: under, done: make(chan struct{})}
	p.cond = sync.NewCond(&p.mu)
	go p.run()
	return p
}

func (p *pumpWriter) run() {
	defer close(p.done)
	for {
		p.mu.Lock()
		for len(p.q) == 0 && !p.stop {
			p.cond.Wait()
		}
		if len(p.q) == 0 {
			p.mu.Unlock()
			return
		}
		b := p.q[0]
		p.q = p.q[1:]
		p.busy = true
		p.mu.Unlock()
		_, err := p.under.Write(b)
		p.mu.Lock()
		p.busy = false
		if err != nil {
			p.err = err
			p.q = nil
			p.stop = true
		}
		p.cond.Broadcast()
		p.mu.Unlock()
		if err != nil {
			return
		}
	}
}

func (p *pumpWriter) Write(b []byte) (int, error) {
	p.mu.Lock()
	defer p.mu.Unlock()
	if p.err != nil {
		return 0, p.err
	}
	if p.stop {
		return 0, io.ErrClosedPipe
	}
	p.q = append(p.q, append([]byte(nil), b...))
	p.cond.Broadcast()
	return len(b), nil
}

// flush waits (bounded) for queued data to be handed to the transport.
func (p *pumpWriter) flush(max time.Duration) {
	deadline := time.Now().Add(max)
	for {
		p.mu.Lock()
		idle := (len(p.q) == 0 && !p.busy) || p.err != nil
		p.mu.Unlock()
		if idle || time.Now().After(deadline) {
			return
		}
		runtime.Gosched()
		time.Sleep(50 * time.Microsecond)
	}
}

func (p *pumpWriter) shutdown() {
	p.mu.Lock()
	p.stop = true
	p.q = nil
	p.cond.Broadcast()
	p.mu.Unlock()
}

// ---------------------------------------------------------------------------
// wire taps

type tapMsg struct {
	seq    uint64 // global decode sequence number
	isResp bool
	call   bool // request with a valid id
	id     string
	method string
	hasErr bool
}

var tapSeq uint64

type tap struct {
	h      *bufHalf
	done   chan struct{}
	msgs   []tapMsg // owned by run() until done is closed
	broken error
}

func newTap() *tap {
	t := &tap{h: newBufHalf(), done: make(chan struct{})}
	go t.run()
	return t
}

func (t *tap) run() {
	defer close(t.done)
	rd := jsonrpc2.HeaderFramer().Reader(t.h)
	for {
		msg, _, err := rd.Read(context.Background())
		if err != nil {
			t.broken = err
			break
		}
		m := tapMsg{seq: atomic.AddUint64(&tapSeq, 1)}
		switch v := msg.(type) {
		case *jsonrpc2.Request:
			m.call = v.IsCall()
			m.id = jsonrpc2.VerifIDString(v.ID)
			m.method = v.Method
		case *jsonrpc2.Response:
			m.isResp = true
			m.id = jsonrpc2.VerifIDString(v.ID)
			m.hasErr = v.Error != nil
		}
		t.msgs = append(t.msgs, m)
	}
	buf := make([]byte, 4096)
	for {
		if _, err := t.h.Read(buf); err != nil {
			return
		}
	}
}

func (t *tap) feed(p []byte) {
	if len(p) > 0 {
		t.h.Write(p)
	}
}
func (t *tap) close() { t.h.closeWrite() }

// ---------------------------------------------------------------------------
// faultConn wraps the io.ReadWriteCloser handed to a jsonrpc2 Connection.

var (
	errWriteFault = errors.New("c39: injected write fault")
	errReadFault  = errors.New("c39: injected read fault")
)

type faultConn struct {
	name       string
	under      io.ReadWriteCloser
	w          io.Writer // under or a pumpWriter over it
	pump       *pumpWriter
	onTwice    func(n int32)
	closeCalls int32
	wCountdown int32 // >0: number of further Write calls that succeed; 0: off
	wFailing   int32
	rFailing   int32
	writes     int64
	reads      int64
	rtap, wtap *tap
}

func newFaultConn(name string, under io.ReadWriteCloser, pumped bool) *faultConn {
	fc := &faultConn{name: name, under: under, w: under, rtap: newTap(), wtap: newTap()}
	if pumped {
		fc.pump = newPumpWriter(under)
		fc.w = fc.pump
	}
	return fc
}

func (fc *faultConn) Read(p []byte) (int, error) {
	ioNoise()
	if atomic.LoadInt32(&fc.rFailing) != 0 {
		return 0, errReadFault
	}
	if len(p) > 1 && uint32(noise()&0xffff) < atomic.LoadUint32(&ioChunk) {
		k := 1 + int(noise()%24)
		if k < len(p) {
			p = p[:k]
		}
	}
	n, err := fc.under.Read(p)
	if atomic.LoadInt32(&fc.rFailing) != 0 {
		return 0, errReadFault // data arriving after the fault is lost
	}
	if n > 0 {
		atomic.AddInt64(&fc.reads, 1)
		fc.rtap.feed(p[:n])
	}
	return n, err
}

func (fc *faultConn) Write(p []byte) (int, error) {
	ioNoise()
	if atomic.LoadInt32(&fc.wFailing) != 0 {
		return 0, errWriteFault
	}
	if c := atomic.LoadInt32(&fc.wCountdown); c > 0 {
		if atomic.AddInt32(&fc.wCountdown, -1) <= 0 {
			atomic.StoreInt32(&fc.wFailing, 1)
		}
	}
	n, err := fc.w.Write(p)
	if n > 0 {
		atomic.AddInt64(&fc.writes, 1)
		fc.wtap.feed(p[:n])
	}
	return n, err
}

// Close is what the Connection calls (state.closer).
func (fc *faultConn) Close() error {
	n := atomic.AddInt32(&fc.closeCalls, 1)
	if n > 1 && fc.onTwice != nil {
		fc.onTwice(n)
	}
	if fc.pump != nil {
		fc.pump.flush(3 * time.Millisecond)
		fc.pump.shutdown()
	}
	return fc.under.Close()
}

func (fc *faultConn) failWritesAfter(k int) {
	if k <= 0 {
		atomic.StoreInt32(&fc.wFailing, 1)
		return
	}
	atomic.StoreInt32(&fc.wCountdown, int32(k))
}
func (fc *faultConn) failReads() { atomic.StoreInt32(&fc.rFailing, 1) }

// release frees harness resources (not counted as a Close by the Connection).
func (fc *faultConn) release() {
	if fc.pump != nil {
		fc.pump.shutdown()
	}
	fc.under.Close()
	fc.rtap.close()
	fc.wtap.close()
}

// ---------------------------------------------------------------------------
// links

const (
	trNetPipe = iota
	trFakenet
	trBuffered
	nTransports
)

var transportNames = []string{"netpipe", "fakenet", "bufpipe"}

type link struct {
	kind    int
	ends    [2]io.ReadWriteCloser
	extra   []io.Closer
	severed int32
}

func newLink(kind int) *link {
	l := &link{kind: kind}
	switch kind {
	case trNetPipe:
		a, b := net.Pipe()
		l.ends = [2]io.ReadWriteCloser{a, b}
	case trFakenet:
		r1, w1 := io.Pipe() // A -> B
		r2, w2 := io.Pipe() // B -> A
		l.ends = [2]io.ReadWriteCloser{
			fakenet.NewConn("A", r2, w1),
			fakenet.NewConn("B", r1, w2),
		}
	default:
		ab, ba := newBufHalf(), newBufHalf()
		l.ends = [2]io.ReadWriteCloser{&bufConn{in: ba, out: ab}, &bufConn{in: ab, out: ba}}
	}
	return l
}

func (l *link) synchronous() bool { return l.kind != trBuffered }

// sever closes the link in both directions from outside ("peer disconnect").
func (l *link) sever() {
	atomic.StoreInt32(&l.severed, 1)
	l.ends[0].Close()
	l.ends[1].Close()
}

// severOne closes only one end (the other side sees EOF after draining).
func (l *link) severOne(i int) {
	atomic.StoreInt32(&l.severed, 1)
	l.ends[i].Close()
}
