// Scenario execution and the C39 property oracle.
package main

import (
	"context"
	"encoding/json"
	"errors"
	"fmt"
	"io"
	"runtime"
	"sort"
	"strings"
	"sync"
	"sync/atomic"
	"time"

	"github.com/goplus/xgo/x/jsonrpc2"
)

type tierCfg struct {
	phase time.Duration // maximal duration of the program phase
	soft  time.Duration // after wind-down start: force-sever the link
	hard  time.Duration // per-scenario deadline: whatever is still pending hangs
}

func tierOf(name string) tierCfg {
	if name == "thorough" {
		return tierCfg{phase: 400 * time.Millisecond, soft: 3 * time.Second, hard: 15 * time.Second}
	}
	return tierCfg{phase: 80 * time.Millisecond, soft: 1500 * time.Millisecond, hard: 6 * time.Second}
}

type failure struct{ key, detail string }

type params struct {
	N  int64 `json:"n"`
	K  int   `json:"k"`
	ID any   `json:"id,omitempty"`
}

// badParams cannot be JSON-encoded: NewCall/NewNotification/NewResponse fail to marshal it.
type badParams struct {
	N int64    `json:"n"`
	C chan int `json:"c"`
}

type result struct {
	N    int64  `json:"n"`
	ID   string `json:"id"`
	From string `json:"from,omitempty"`
	Dup  bool   `json:"dup,omitempty"`
}

var (
	errBoom      = jsonrpc2.NewError(1234, "boom")
	errAsyncBoom = jsonrpc2.NewError(1235, "async boom")
	errRaw       = jsonrpc2.NewError(4321, "raw error")
)

type gate struct {
	once sync.Once
	ch   chan struct{}
}

func (g *gate) release() { g.once.Do(func() { close(g.ch) }) }

// group counts running helper goroutines (waited for by polling).
type group struct{ n int64 }

func (g *group) add()       { atomic.AddInt64(&g.n, 1) }
func (g *group) done()      { atomic.AddInt64(&g.n, -1) }
func (g *group) zero() bool { return atomic.LoadInt64(&g.n) == 0 }

type scenario struct {
	seed     uint64
	idx      int
	tier     tierCfg
	sp       *spec
	caseLine string

	recMu sync.Mutex
	recs  []*jsonrpc2.VerifRecord

	mu     sync.Mutex
	fails  []failure
	counts map[string]int
	sticky bool // goroutines may be stuck: the child process must be replaced

	gates    []*gate
	nonce    int64
	eps      []*endpoint
	link     *link
	raw      *rawPeer
	clients  group
	misc     group // cancelers, extra awaiters, async responders
	stopping int32
	forced   int32
	phase    atomic.Value
	phaseLog strings.Builder
	t0       time.Time
	lines    []string
}

func (sc *scenario) fail(key, detail string) {
	sc.mu.Lock()
	if len(sc.fails) < 20 {
		sc.fails = append(sc.fails, failure{key, sc.sp.describe() + " " + detail})
	}
	sc.mu.Unlock()
}

func (sc *scenario) count(k string) {
	sc.mu.Lock()
	sc.counts[k]++
	sc.mu.Unlock()
}

func (sc *scenario) countN(k string, n int) {
	if n == 0 {
		return
	}
	sc.mu.Lock()
	sc.counts[k] += n
	sc.mu.Unlock()
}

func (sc *scenario) nextNonce() int64 { return atomic.AddInt64(&sc.nonce, 1) }
func (sc *scenario) setPhase(s string) {
	sc.phase.Store(s)
	if debugTimes {
		fmt.Fprintf(&sc.phaseLog, "%s@%dus ", s, time.Since(sc.t0)/time.Microsecond)
	}
}
func (sc *scenario) isStopping() bool { return atomic.LoadInt32(&sc.stopping) != 0 }

func (sc *scenario) releaseAllGates() {
	for _, g := range sc.gates {
		g.release()
	}
}

func (sc *scenario) gateWait(ctx context.Context, k int) {
	g := sc.gates[k%len(sc.gates)]
	if ctx == nil {
		<-g.ch
		return
	}
	select {
	case <-g.ch:
	case <-ctx.Done():
	}
}

// waitUntil polls cond until it holds or the deadline passes.
func waitUntil(cond func() bool, deadline time.Time) bool {
	d := 20 * time.Microsecond
	for i := 0; ; i++ {
		if cond() {
			return true
		}
		if time.Now().After(deadline) {
			return cond()
		}
		if i < 20 {
			runtime.Gosched()
			continue
		}
		time.Sleep(d)
		if d < 500*time.Microsecond {
			d *= 2
		}
	}
}

func closed(ch chan struct{}) bool {
	select {
	case <-ch:
		return true
	default:
		return false
	}
}

// ---------------------------------------------------------------------------
// endpoints (jsonrpc2 Connections under test)

type waitRec struct {
	kind string
	done chan struct{}
}

type callRec struct {
	ep     *endpoint
	method string
	nonce  int64
	ac     *jsonrpc2.AsyncCall

	mu     sync.Mutex
	have   bool
	errStr string
	res    result
}

type endpoint struct {
	sc   *scenario
	i    int
	name string
	cs   *connSpec
	conn *jsonrpc2.Connection
	fc   *faultConn

	active       int32 // Handle invocations executing
	preActive    int32 // Preempt invocations executing
	asyncPending int32 // ErrAsyncResponse returned, Respond not yet called
	doneSeen     int32
	onDoneN      int32
	closeStarted int32

	mu        sync.Mutex
	calls     []*callRec
	closes    []*waitRec
	waits     []*waitRec
	finalDone chan struct{}
}

type fixedDialer struct{ rwc io.ReadWriteCloser }

func (d fixedDialer) Dial(context.Context) (io.ReadWriteCloser, error) { return d.rwc, nil }

func (ep *endpoint) busy() int32 {
	return atomic.LoadInt32(&ep.active) + atomic.LoadInt32(&ep.preActive) + atomic.LoadInt32(&ep.asyncPending)
}

func (ep *endpoint) busyDetail() string {
	return fmt.Sprintf("conn=%s handlers=%d preempts=%d asyncPending=%d", ep.name,
		atomic.LoadInt32(&ep.active), atomic.LoadInt32(&ep.preActive), atomic.LoadInt32(&ep.asyncPending))
}

func (ep *endpoint) onDone() {
	if n := atomic.AddInt32(&ep.onDoneN, 1); n > 1 {
		ep.sc.fail("ondone-twice", fmt.Sprintf("conn=%s onDone invoked %d times", ep.name, n))
	}
	atomic.StoreInt32(&ep.doneSeen, 1)
	if ep.busy() != 0 {
		ep.sc.fail("close-before-handlers", "onDone fired while handlers execute: "+ep.busyDetail())
	}
}

// doneObserved is called when Close or Wait returned.
func (ep *endpoint) doneObserved(what string) {
	if atomic.LoadInt32(&ep.onDoneN) == 0 {
		ep.sc.fail("ondone-twice", fmt.Sprintf("conn=%s %s returned before onDone fired", ep.name, what))
	}
	if ep.busy() != 0 {
		ep.sc.fail("close-before-handlers", what+" returned while handlers execute: "+ep.busyDetail())
	}
}

func (ep *endpoint) bind(ctx context.Context, c *jsonrpc2.Connection) jsonrpc2.ConnectionOptions {
	ep.conn = c
	switch ep.cs.bindClose {
	case 1:
		w := ep.newWaitRec("close")
		c.Close()
		ep.doneObserved("Close(in Bind)")
		close(w.done)
	case 2:
		ep.startClose(1)
	}
	opts := jsonrpc2.ConnectionOptions{
		Handler: jsonrpc2.HandlerFunc(ep.handle),
		OnInternalError: func(err error) {
			ep.sc.count("internal_error_" + classifyInternal(err))
		},
	}
	if ep.cs.preempter {
		opts.Preempter = jsonrpc2.PreempterFunc(ep.preempt)
	}
	return opts
}

func classifyInternal(err error) string {
	s := err.Error()
	switch {
	case strings.Contains(s, "Request not found"):
		return "respond-not-found"
	case strings.Contains(s, "ErrAsyncResponse"):
		return "async-for-notification"
	case strings.Contains(s, "non-nil result with a non-nil error"):
		return "result-and-error"
	case strings.Contains(s, "non-nil result for"):
		return "result-for-notification"
	case strings.Contains(s, "malformed result"):
		return "malformed-result"
	case strings.Contains(s, "unexpected message"):
		return "unexpected-message"
	}
	return "other"
}

func (ep *endpoint) newWaitRec(kind string) *waitRec {
	w := &waitRec{kind: kind, done: make(chan struct{})}
	ep.mu.Lock()
	if kind == "close" {
		ep.closes = append(ep.closes, w)
	} else {
		ep.waits = append(ep.waits, w)
	}
	ep.mu.Unlock()
	return w
}

func (ep *endpoint) startClose(n int) {
	atomic.StoreInt32(&ep.closeStarted, 1)
	for i := 0; i < n; i++ {
		w := ep.newWaitRec("close")
		go func() {
			ep.conn.Close()
			ep.doneObserved("Close")
			close(w.done)
		}()
	}
}

func (ep *endpoint) startWait() {
	w := ep.newWaitRec("wait")
	go func() {
		ep.conn.Wait()
		ep.doneObserved("Wait")
		close(w.done)
	}()
}

func (ep *endpoint) pendingOf(kind string) (n, total int) {
	ep.mu.Lock()
	defer ep.mu.Unlock()
	l := ep.closes
	if kind == "wait" {
		l = ep.waits
	}
	for _, w := range l {
		if !closed(w.done) {
			n++
		}
	}
	return n, len(l)
}

func (ep *endpoint) enter(ctr *int32, what string) {
	atomic.AddInt32(ctr, 1)
	if atomic.LoadInt32(&ep.doneSeen) != 0 {
		ep.sc.fail("close-before-handlers", fmt.Sprintf("conn=%s %s invocation started after the connection was done", ep.name, what))
	}
}

func decodeID(v any) (jsonrpc2.ID, bool) {
	switch x := v.(type) {
	case float64:
		return jsonrpc2.Int64ID(int64(x)), true
	case string:
		return jsonrpc2.StringID(x), true
	}
	return jsonrpc2.ID{}, false
}

func (ep *endpoint) handle(ctx context.Context, req *jsonrpc2.Request) (any, error) {
	ep.enter(&ep.active, "Handle")
	defer atomic.AddInt32(&ep.active, -1)
	ep.sc.count("handled_" + methodClass(req.Method))
	return ep.dispatch(ctx, req)
}

func methodClass(m string) string {
	switch m {
	case "echo", "slow", "err", "nh", "async", "callback", "notifyback", "pre", "preasync", "cancel", "note", "hold", "badres", "asyncbad":
		return m
	}
	return "unknown"
}

func (ep *endpoint) dispatch(ctx context.Context, req *jsonrpc2.Request) (any, error) {
	var p params
	json.Unmarshal(req.Params, &p)
	isCall := req.IsCall()
	id := req.ID
	idStr := jsonrpc2.VerifIDString(id)
	echo := func() (any, error) {
		if !isCall {
			return nil, nil
		}
		return &result{N: p.N, ID: idStr, From: ep.name}, nil
	}
	switch req.Method {
	case "echo", "pre", "note", "hold":
		return echo()
	case "slow":
		ep.sc.gateWait(ctx, p.K)
		return echo()
	case "err":
		return nil, errBoom
	case "nh":
		return nil, jsonrpc2.ErrNotHandled
	case "badres":
		// a result that cannot be marshaled: processResult reports an internal error,
		// writes no response, and must still finish the request
		if !isCall {
			return nil, nil
		}
		return &badParams{N: p.N, C: make(chan int)}, nil
	case "async", "preasync", "asyncbad":
		if !isCall {
			return nil, nil
		}
		ep.startAsync(id, p, idStr, req.Method == "asyncbad")
		return nil, jsonrpc2.ErrAsyncResponse
	case "callback":
		cctx, cancel := context.WithTimeout(ctx, time.Duration(1+p.K%6)*time.Millisecond)
		rec := ep.newCall(cctx, "echo", p.K>>3)
		rec.awaitOnce(cctx)
		cancel()
		return echo()
	case "notifyback":
		ep.notify(context.Background(), "note", p.K>>3, nil)
		return echo()
	case "cancel":
		if cid, ok := decodeID(p.ID); ok {
			ep.conn.Cancel(cid)
			ep.sc.count("cancel_delivered")
		}
		return echo()
	}
	return nil, jsonrpc2.ErrNotHandled
}

func (ep *endpoint) preempt(ctx context.Context, req *jsonrpc2.Request) (any, error) {
	ep.enter(&ep.preActive, "Preempt")
	defer atomic.AddInt32(&ep.preActive, -1)
	switch req.Method {
	case "cancel":
		if req.IsCall() {
			return nil, jsonrpc2.ErrNotHandled
		}
		ep.sc.count("preempted_cancel")
		return ep.dispatch(ctx, req)
	case "pre", "preasync":
		ep.sc.count("preempted_" + req.Method)
		return ep.dispatch(ctx, req)
	}
	return nil, jsonrpc2.ErrNotHandled
}

// startAsync starts the goroutine that calls Respond exactly once.
func (ep *endpoint) startAsync(id jsonrpc2.ID, p params, idStr string, badResult bool) {
	atomic.AddInt32(&ep.asyncPending, 1)
	ep.sc.misc.add()
	go func() {
		defer ep.sc.misc.done()
		k := p.K
		for i := 0; i < (k>>1)&3; i++ {
			runtime.Gosched()
		}
		if k&1 == 1 {
			ep.sc.gateWait(nil, k>>3)
		} else if (k>>3)&3 == 0 {
			time.Sleep(time.Duration(1+(k>>5)%200) * time.Microsecond)
		}
		atomic.AddInt32(&ep.asyncPending, -1)
		var err error
		if badResult {
			// Respond with an unmarshalable result: exactly one Respond, as the contract demands
			err = ep.conn.Respond(id, &badParams{N: p.N, C: make(chan int)}, nil)
			ep.sc.count("async_respond_badresult")
		} else if (k>>8)%5 == 0 {
			err = ep.conn.Respond(id, nil, errAsyncBoom)
			ep.sc.count("async_respond_error")
		} else {
			err = ep.conn.Respond(id, &result{N: p.N, ID: idStr, From: ep.name}, nil)
			ep.sc.count("async_respond_result")
		}
		if err != nil {
			ep.sc.count("async_respond_returned_error")
		}
	}()
}

func (ep *endpoint) newCall(ctx context.Context, method string, k int, bad ...bool) *callRec {
	rec := &callRec{ep: ep, method: method, nonce: ep.sc.nextNonce()}
	if len(bad) > 0 && bad[0] {
		// params that cannot be marshaled: Call retires the call itself, nothing is registered
		rec.ac = ep.conn.Call(ctx, method, &badParams{N: rec.nonce, C: make(chan int)})
		ep.sc.count("op_call_badparams")
	} else {
		rec.ac = ep.conn.Call(ctx, method, &params{N: rec.nonce, K: k})
	}
	ep.mu.Lock()
	ep.calls = append(ep.calls, rec)
	ep.mu.Unlock()
	return rec
}

func (ep *endpoint) notify(ctx context.Context, method string, k int, id any, bad ...bool) {
	var err error
	if len(bad) > 0 && bad[0] {
		// params that cannot be marshaled: Notify passes Notify#1, fails before c.write, and its
		// deferred Notify#0 must still run
		err = ep.conn.Notify(ctx, method, &badParams{N: ep.sc.nextNonce(), C: make(chan int)})
		ep.sc.count("op_notify_badparams")
	} else {
		err = ep.conn.Notify(ctx, method, &params{N: ep.sc.nextNonce(), K: k, ID: id})
	}
	ep.sc.count("notify_" + classifyErr(err))
}

func classifyErr(err error) string {
	switch {
	case err == nil:
		return "ok"
	case errors.Is(err, jsonrpc2.ErrClientClosing):
		return "client-closing"
	case errors.Is(err, jsonrpc2.ErrServerClosing):
		return "server-closing"
	case errors.Is(err, jsonrpc2.ErrMethodNotFound):
		return "method-not-found"
	case errors.Is(err, errBoom):
		return "handler-error"
	case errors.Is(err, errAsyncBoom):
		return "async-error"
	case errors.Is(err, errRaw):
		return "raw-error"
	case err != nil && strings.Contains(err.Error(), "marshaling"):
		return "marshal-error"
	case errors.Is(err, jsonrpc2.ErrInternal):
		return "internal"
	case errors.Is(err, jsonrpc2.ErrUnknown):
		return "unknown-closing"
	case errors.Is(err, context.Canceled):
		return "canceled"
	case errors.Is(err, context.DeadlineExceeded):
		return "deadline"
	case errors.Is(err, errWriteFault):
		return "write-fault"
	case errors.Is(err, errReadFault):
		return "read-fault"
	case errors.Is(err, io.EOF):
		return "eof"
	case errors.Is(err, io.ErrClosedPipe), errors.Is(err, io.ErrUnexpectedEOF):
		return "closed-pipe"
	}
	s := err.Error()
	switch {
	case strings.Contains(s, "closed pipe"):
		return "closed-pipe"
	case strings.Contains(s, "EOF"):
		return "eof"
	case strings.Contains(s, "invalid header"), strings.Contains(s, "Content-Length"), strings.Contains(s, "unmarshaling"), strings.Contains(s, "invalid message"):
		return "wire-garbage"
	case strings.Contains(s, "injected"):
		return "fault"
	}
	return "other"
}

// awaitOnce awaits the call with ctx; a ctx error is not an outcome of the call.
func (rec *callRec) awaitOnce(ctx context.Context) bool {
	var res result
	err := rec.ac.Await(ctx, &res)
	if err != nil && ctx.Err() != nil && err == ctx.Err() {
		rec.ep.sc.count("await_ctx_" + classifyErr(err))
		return false
	}
	rec.outcome(err, res)
	return true
}

// outcome records a real outcome of the call and evaluates oracle part 1.
func (rec *callRec) outcome(err error, res result) {
	sc := rec.ep.sc
	es := "<nil>"
	if err != nil {
		es = err.Error()
		res = result{}
	}
	own := jsonrpc2.VerifIDString(rec.ac.ID())
	rec.mu.Lock()
	first := !rec.have
	if first {
		rec.have, rec.errStr, rec.res = true, es, res
	}
	prevE, prevR := rec.errStr, rec.res
	rec.mu.Unlock()
	if !first {
		if prevE != es || prevR != res {
			sc.fail("await-inconsistent", fmt.Sprintf("conn=%s call id=%s method=%s: first (%s,%+v) then (%s,%+v)", rec.ep.name, own, rec.method, prevE, prevR, es, res))
		}
		return
	}
	sc.count("call_" + classifyErr(err))
	if err != nil {
		return
	}
	switch {
	case res.N != rec.nonce || res.ID != own || res.Dup:
		sc.fail("await-wrong-answer", fmt.Sprintf("conn=%s call id=%s method=%s nonce=%d got result n=%d id=%s dup=%v from=%s", rec.ep.name, own, rec.method, rec.nonce, res.N, res.ID, res.Dup, res.From))
	case rec.method == "err" || rec.method == "nh" || rec.method == "badres" || rec.method == "asyncbad":
		sc.fail("await-wrong-answer", fmt.Sprintf("conn=%s call id=%s method=%s was never answered successfully but Await returned %+v", rec.ep.name, own, rec.method, res))
	}
}

func (ep *endpoint) callsSnapshot() []*callRec {
	ep.mu.Lock()
	defer ep.mu.Unlock()
	return append([]*callRec(nil), ep.calls...)
}

// ---------------------------------------------------------------------------
// client programs

func (ep *endpoint) makeCtx(mode int, dur time.Duration) (context.Context, context.CancelFunc) {
	switch mode {
	case ctxCancelled:
		ctx, cancel := context.WithCancel(context.Background())
		cancel()
		return ctx, cancel
	case ctxSoonCancelled:
		ctx, cancel := context.WithCancel(context.Background())
		ep.sc.misc.add()
		go func() {
			defer ep.sc.misc.done()
			for i := 0; i < int(noise()%4); i++ {
				runtime.Gosched()
			}
			cancel()
		}()
		return ctx, cancel
	}
	return context.WithCancel(context.Background())
}

func (ep *endpoint) runClient(ops []op) {
	sc := ep.sc
	defer sc.clients.done()
	var mine []*callRec
	for _, o := range ops {
		if sc.isStopping() && o.kind != opClose {
			sc.count("op_skipped")
			continue
		}
		sc.count("op_" + opNames[o.kind])
		switch o.kind {
		case opCall:
			cctx, ccancel := ep.makeCtx(o.ctx, 0)
			rec := ep.newCall(cctx, o.method, o.k, o.bad)
			mine = append(mine, rec)
			switch o.await {
			case awTimeout:
				ctx, cancel := context.WithTimeout(context.Background(), o.dur)
				rec.awaitOnce(ctx)
				cancel()
			case awCancelRace:
				ctx, cancel := context.WithCancel(context.Background())
				sc.misc.add()
				go func(d time.Duration) {
					defer sc.misc.done()
					if d < 60*time.Microsecond {
						for i := 0; i < int(d/(10*time.Microsecond)); i++ {
							runtime.Gosched()
						}
					} else {
						time.Sleep(d)
					}
					cancel()
				}(o.dur)
				if !rec.awaitOnce(ctx) {
					sc.count("await_cancel_race_lost")
				}
				cancel()
			case awDouble:
				sc.misc.add()
				go func(d time.Duration) {
					defer sc.misc.done()
					ctx, cancel := context.WithTimeout(context.Background(), d)
					rec.awaitOnce(ctx)
					cancel()
				}(o.dur)
				ctx, cancel := context.WithTimeout(context.Background(), o.dur)
				rec.awaitOnce(ctx)
				cancel()
			}
			ccancel()
		case opNotify:
			cctx, ccancel := ep.makeCtx(o.ctx, 0)
			ep.notify(cctx, o.method, o.k, nil, o.bad)
			ccancel()
		case opCancelNotify:
			if len(mine) > 0 {
				rec := mine[len(mine)-1-o.k%len(mine)]
				ep.notify(context.Background(), "cancel", 0, rec.ac.ID().Raw())
			}
		case opYield:
			for i := 0; i < o.k; i++ {
				runtime.Gosched()
			}
		case opSleep:
			time.Sleep(o.dur)
		case opClose:
			ep.startClose(o.k)
		case opWait:
			ep.startWait()
		case opSever:
			sc.link.sever()
		case opSeverMe:
			sc.link.severOne(ep.i)
		case opWFault:
			ep.fc.failWritesAfter(o.k)
		case opRFault:
			ep.fc.failReads()
		case opRelease:
			sc.gates[o.k%len(sc.gates)].release()
		case opAwaitAll:
			ctx, cancel := context.WithTimeout(context.Background(), o.dur)
			for _, rec := range mine {
				rec.awaitOnce(ctx)
			}
			cancel()
		}
	}
}

// finalAwaiter awaits every known call until the hard deadline.
func (ep *endpoint) startFinalAwaiter(hard time.Time) {
	ep.finalDone = make(chan struct{})
	recs := ep.callsSnapshot()
	go func() {
		defer close(ep.finalDone)
		ctx, cancel := context.WithDeadline(context.Background(), hard.Add(5*time.Second))
		defer cancel()
		for _, rec := range recs {
			rec.awaitOnce(ctx)
		}
	}()
}

// ---------------------------------------------------------------------------
// the scenario

type scenResult struct {
	desc   string
	dur    time.Duration
	phases string
	lines  []string
	fails  []failure
	counts map[string]int
	sticky bool
}

var curScenario atomic.Value // *scenario

func (sc *scenario) sink(rec *jsonrpc2.VerifRecord) {
	cp := *rec
	sc.recMu.Lock()
	sc.recs = append(sc.recs, &cp)
	sc.recMu.Unlock()
}

func runScenario(seed uint64, idx int, tierName string) *scenResult {
	sp := genSpec(seed, idx, tierName)
	sc := &scenario{seed: seed, idx: idx, tier: tierOf(tierName), sp: sp, counts: map[string]int{},
		caseLine: fmt.Sprintf("scen\t%d\t%d", seed, idx)}
	sc.t0 = time.Now()
	sc.setPhase("setup")
	curScenario.Store(sc)
	sc.run()
	sc.setPhase("end")
	curScenario.Store((*scenario)(nil))
	sc.mu.Lock()
	defer sc.mu.Unlock()
	return &scenResult{desc: sp.describe(), dur: time.Since(sc.t0), phases: sc.phaseLog.String(), lines: sc.lines, fails: sc.fails, counts: sc.counts, sticky: sc.sticky}
}

func (sc *scenario) run() {
	sp := sc.sp
	runtime.GOMAXPROCS(sp.procs)
	atomic.StoreUint32(&yieldGosched, sp.yGosched)
	atomic.StoreUint32(&yieldSleep, sp.ySleep)
	atomic.StoreUint32(&ioGosched, sp.ioGosched)
	atomic.StoreUint32(&ioSleep, sp.ioSleep)
	atomic.StoreUint32(&ioChunk, sp.ioChunk)
	atomic.StoreUint64(&noiseState, sc.seed*1000003+uint64(sc.idx)+uint64(time.Now().UnixNano()))
	jsonrpc2.VerifReset()

	sc.count("kind_" + kindNames[sp.kind])
	sc.count("profile_" + sp.profile)
	sc.count("transport_" + transportNames[sp.transport])
	sc.count(fmt.Sprintf("gomaxprocs_%d", sp.procs))

	for i := 0; i < sp.nGates; i++ {
		sc.gates = append(sc.gates, &gate{ch: make(chan struct{})})
	}
	sc.link = newLink(sp.transport)
	nConn := 2
	if sp.kind == 1 {
		nConn = 1
	}
	t0 := time.Now()
	hard := t0.Add(sc.tier.hard)

	// endpoints; Dial runs Bind and starts the reader
	for i := 0; i < nConn; i++ {
		cs := &sp.conns[i]
		ep := &endpoint{sc: sc, i: i, name: string(rune('A' + i)), cs: cs}
		ep.fc = newFaultConn(ep.name, sc.link.ends[i], cs.pumped && sc.link.synchronous())
		ep.fc.onTwice = func(n int32) {
			sc.fail("closer-closed-twice", fmt.Sprintf("conn=%s: the Connection called Close on its ReadWriteCloser %d times", ep.name, n))
		}
		sc.eps = append(sc.eps, ep)
		if cs.bindClose != 0 {
			sc.count("bind_close")
		}
	}
	if sp.kind == 1 {
		sc.raw = newRawPeer(sc, sc.link.ends[1])
	}
	for _, ep := range sc.eps {
		c, err := jsonrpc2.Dial(context.Background(), fixedDialer{ep.fc}, jsonrpc2.BinderFunc(ep.bind), ep.onDone)
		if err != nil || c != ep.conn {
			sc.fail("harness", fmt.Sprintf("Dial: %v", err))
			sc.sticky = true
			return
		}
		for j := 0; j < ep.cs.earlyWait; j++ {
			ep.startWait()
		}
	}
	if sc.raw != nil {
		sc.raw.start()
	}

	// program phase
	sc.setPhase("program")
	for _, ep := range sc.eps {
		for _, ops := range ep.cs.clients {
			sc.clients.add()
			go ep.runClient(ops)
		}
	}
	waitUntil(sc.clients.zero, t0.Add(sc.tier.phase))
	if sc.raw != nil {
		waitUntil(func() bool { return closed(sc.raw.scriptDone) }, t0.Add(sc.tier.phase))
	}

	// wind-down
	sc.setPhase("winddown-clients")
	atomic.StoreInt32(&sc.stopping, 1)
	sc.releaseAllGates()
	softDL := time.Now().Add(sc.tier.soft)
	if softDL.After(hard) {
		softDL = hard
	}
	clientsDone := func() bool {
		return sc.clients.zero() && (sc.raw == nil || closed(sc.raw.scriptDone))
	}
	if !waitUntil(clientsDone, softDL) {
		sc.forceSever("client programs")
		if !waitUntil(clientsDone, hard) {
			sc.hang("client programs or raw script did not finish")
			return
		}
	}
	if sc.raw != nil {
		sc.raw.flushHeld()
		if sc.raw.neverCount() > 0 {
			sc.raw.close()
		}
	}
	for _, ep := range sc.eps {
		ep.startFinalAwaiter(hard)
	}
	if sp.graceful {
		dl := time.Now().Add(100 * time.Millisecond)
		if dl.After(softDL) {
			dl = softDL
		}
		waitUntil(func() bool {
			for _, ep := range sc.eps {
				if !closed(ep.finalDone) {
					return false
				}
			}
			return true
		}, dl)
	}
	sc.setPhase("winddown-close")
	for _, ep := range sc.eps {
		n := 1
		if sc.idx%3 == 0 {
			n = 2
		}
		ep.startClose(n)
	}
	allDone := func() bool {
		for _, ep := range sc.eps {
			if n, _ := ep.pendingOf("close"); n > 0 {
				return false
			}
			if n, _ := ep.pendingOf("wait"); n > 0 {
				return false
			}
			if !closed(ep.finalDone) || ep.busy() != 0 {
				return false
			}
		}
		return sc.misc.zero()
	}
	// Two Connections whose Writers both fail while the transport stays open can
	// never answer each other: Close (by design) waits for the unanswered outgoing
	// calls until the link breaks. Break it soon instead of waiting for softDL.
	bothWriteFaults := func() bool {
		return len(sc.eps) == 2 && atomic.LoadInt32(&sc.eps[0].fc.wFailing) != 0 && atomic.LoadInt32(&sc.eps[1].fc.wFailing) != 0
	}
	graceDL := time.Now().Add(30 * time.Millisecond)
	waitUntil(func() bool { return allDone() || (bothWriteFaults() && time.Now().After(graceDL)) }, softDL)
	if !allDone() && bothWriteFaults() {
		sc.count("both_write_faults")
		sc.link.sever()
	}
	if !waitUntil(allDone, softDL) {
		sc.forceSever("close")
		if !waitUntil(allDone, hard) {
			sc.attributeHang()
			return
		}
	}
	sc.setPhase("winddown-raw")
	if sc.raw != nil {
		sc.raw.close()
		if !waitUntil(sc.raw.finished, hard) {
			sc.hang("raw peer goroutines did not finish")
			return
		}
		sc.raw.evaluate()
	}

	// all connections are done, all Call()s have returned
	sc.setPhase("post")
	for _, ep := range sc.eps {
		if n := atomic.LoadInt32(&ep.onDoneN); n != 1 {
			sc.fail("ondone-twice", fmt.Sprintf("conn=%s onDone invoked %d times although Close returned", ep.name, n))
		}
		for _, rec := range ep.callsSnapshot() {
			own := jsonrpc2.VerifIDString(rec.ac.ID())
			if !rec.ac.IsReady() {
				sc.fail("await-not-ready-after-done", fmt.Sprintf("conn=%s call id=%s method=%s IsReady()=false after Wait returned", ep.name, own, rec.method))
				continue
			}
			ctx, cancel := context.WithTimeout(context.Background(), time.Second)
			if !rec.awaitOnce(ctx) {
				sc.fail("await-not-ready-after-done", fmt.Sprintf("conn=%s call id=%s method=%s Await timed out after Wait returned", ep.name, own, rec.method))
			}
			cancel()
		}
		if n, _ := ep.pendingOf("close"); atomic.LoadInt32(&ep.closeStarted) != 0 && n == 0 {
			sc.count("closes_returned")
		}
	}
	sc.link.sever()
	for _, ep := range sc.eps {
		ep.fc.release()
	}
	sc.setPhase("taps")
	tapsDone := func() bool {
		for _, ep := range sc.eps {
			if !closed(ep.fc.rtap.done) || !closed(ep.fc.wtap.done) {
				return false
			}
		}
		return true
	}
	if !waitUntil(tapsDone, hard.Add(2*time.Second)) {
		sc.hang("wire taps did not drain")
		return
	}
	sc.evaluateWire()
	sc.setPhase("leak")
	sc.checkLeak()
	sc.setPhase("trace")
	sc.traceLines()
	if atomic.LoadInt32(&sc.forced) != 0 {
		sc.count("winddown_forced_sever")
	}
}

func (sc *scenario) forceSever(why string) {
	if atomic.CompareAndSwapInt32(&sc.forced, 0, 1) {
		if debugTimes {
			fmt.Fprintf(&sc.phaseLog, "FORCED(%s: %s) ", why, sc.stateSummary())
		}
		sc.link.sever()
		if sc.raw != nil {
			sc.raw.close()
		}
	}
}

func (sc *scenario) hang(detail string) {
	sc.sticky = true
	sc.fail("hang", detail+" | "+sc.stateSummary()+" | "+goroutineDump(1400))
	sc.traceLines()
}

func (sc *scenario) stateSummary() string {
	var sb strings.Builder
	fmt.Fprintf(&sb, "phase=%v forcedSever=%d clients=%d misc=%d", sc.phase.Load(), atomic.LoadInt32(&sc.forced), atomic.LoadInt64(&sc.clients.n), atomic.LoadInt64(&sc.misc.n))
	sc.recMu.Lock()
	last := map[*jsonrpc2.Connection]*jsonrpc2.VerifRecord{}
	for _, r := range sc.recs {
		last[r.Conn] = r
	}
	sc.recMu.Unlock()
	for _, ep := range sc.eps {
		pc, tc := ep.pendingOf("close")
		pw, tw := ep.pendingOf("wait")
		fmt.Fprintf(&sb, " [%s closesPending=%d/%d waitsPending=%d/%d %s", ep.name, pc, tc, pw, tw, ep.busyDetail())
		if r := last[ep.conn]; r != nil {
			fmt.Fprintf(&sb, " last=%s state=%s", r.Site, fmtStateRaw(&r.Post))
		}
		sb.WriteString("]")
	}
	return sb.String()
}

// attributeHang: the hard deadline passed although gates are released and the
// link is severed; name what is stuck.
func (sc *scenario) attributeHang() {
	sc.sticky = true
	sum := sc.stateSummary()
	dump := goroutineDump(1200)
	any := false
	for _, ep := range sc.eps {
		if n, t := ep.pendingOf("close"); n > 0 {
			any = true
			sc.fail("close-hang", fmt.Sprintf("conn=%s: %d of %d Close() calls did not return within %v (gates released, link severed) | %s | %s", ep.name, n, t, sc.tier.hard, sum, dump))
		}
		if n, t := ep.pendingOf("wait"); n > 0 {
			any = true
			sc.fail("wait-hang", fmt.Sprintf("conn=%s: %d of %d Wait() calls did not return | %s", ep.name, n, t, sum))
		}
		if !closed(ep.finalDone) {
			any = true
			var ids []string
			for _, rec := range ep.callsSnapshot() {
				if !rec.ac.IsReady() {
					ids = append(ids, jsonrpc2.VerifIDString(rec.ac.ID())+"/"+rec.method)
				}
			}
			sc.fail("await-hang", fmt.Sprintf("conn=%s: Await did not return for calls %v | %s", ep.name, ids, sum))
		}
	}
	if !any {
		sc.fail("hang", "handlers or helper goroutines did not finish | "+sum+" | "+dump)
	}
	sc.traceLines()
}

func (sc *scenario) evaluateWire() {
	for _, ep := range sc.eps {
		reqs, resps := map[string]int{}, map[string]int{}
		for _, m := range ep.fc.rtap.msgs {
			if !m.isResp && m.call {
				reqs[m.id]++
			}
		}
		for _, m := range ep.fc.wtap.msgs {
			if m.isResp {
				resps[m.id]++
			}
		}
		sc.countN("wire_requests_in", len(ep.fc.rtap.msgs))
		sc.countN("wire_messages_out", len(ep.fc.wtap.msgs))
		ids := make([]string, 0, len(resps))
		for id := range resps {
			ids = append(ids, id)
		}
		sort.Strings(ids)
		for _, id := range ids {
			if resps[id] > reqs[id] {
				key := "answered-twice"
				if reqs[id] == 0 {
					key = "response-unknown-id"
				}
				sc.fail(key, fmt.Sprintf("conn=%s wrote %d responses with id=%s but read %d call requests with that id", ep.name, resps[id], id, reqs[id]))
			}
		}
	}
}

// ---------------------------------------------------------------------------
// goroutine inspection

const connFrame = "x/jsonrpc2.(*Connection)"

func stackAll() string {
	buf := make([]byte, 1<<20)
	for {
		n := runtime.Stack(buf, true)
		if n < len(buf) {
			return string(buf[:n])
		}
		buf = make([]byte, 2*len(buf))
	}
}

func jsonrpcGoroutines() []string {
	var out []string
	for _, g := range strings.Split(stackAll(), "\n\n") {
		if strings.Contains(g, connFrame) {
			out = append(out, g)
		}
	}
	return out
}

func topFrames(g string, n int) string {
	var fs []string
	for _, l := range strings.Split(g, "\n") {
		if strings.HasPrefix(l, "\t") || strings.HasPrefix(l, "goroutine ") {
			if strings.HasPrefix(l, "goroutine ") {
				fs = append(fs, strings.TrimSuffix(l, ":"))
			}
			continue
		}
		if i := strings.LastIndex(l, "("); i > 0 {
			l = l[:i]
		}
		l = strings.TrimPrefix(l, "github.com/goplus/xgo/")
		fs = append(fs, l)
		if len(fs) > n {
			break
		}
	}
	return strings.Join(fs, " < ")
}

func goroutineDump(max int) string {
	var sb strings.Builder
	for _, g := range strings.Split(stackAll(), "\n\n") {
		if !strings.Contains(g, "jsonrpc2") {
			continue
		}
		sb.WriteString(topFrames(g, 6))
		sb.WriteString(" || ")
		if sb.Len() > max {
			break
		}
	}
	s := sb.String()
	if len(s) > max {
		s = s[:max]
	}
	return s
}

var baseGoroutines int

func (sc *scenario) checkLeak() {
	deadline := time.Now().Add(2 * time.Second)
	var left []string
	for i := 0; ; i++ {
		if runtime.NumGoroutine() <= baseGoroutines {
			return
		}
		left = jsonrpcGoroutines()
		if len(left) == 0 {
			return
		}
		if time.Now().After(deadline) {
			break
		}
		if i < 5 {
			runtime.Gosched()
		} else {
			time.Sleep(time.Duration(i) * 100 * time.Microsecond)
		}
	}
	var tops []string
	for _, g := range left {
		tops = append(tops, topFrames(g, 4))
	}
	d := strings.Join(tops, " || ")
	if len(d) > 1500 {
		d = d[:1500]
	}
	sc.sticky = true
	sc.fail("goroutine-leak", fmt.Sprintf("%d goroutines inside the Connection 2s after wind-down: %s", len(left), d))
}
