// Scripted raw peer: speaks the wire protocol by hand.
package main

import (
	"context"
	"encoding/json"
	"fmt"
	"io"
	"runtime"
	"sync"
	"sync/atomic"
	"time"

	"github.com/goplus/xgo/x/jsonrpc2"
)

type rawPeer struct {
	sc  *scenario
	rwc io.ReadWriteCloser

	wmu sync.Mutex // one frame at a time

	mu         sync.Mutex
	reqStarted map[string]int // id -> call requests whose write has started
	respSeen   map[string]int // id -> responses read
	dupSent    map[string]bool
	held       [][]byte
	never      int
	ansQ       [][]byte
	ansCond    *sync.Cond
	ansStop    bool
	flushed    bool
	garbage    bool // malformed input was sent: later requests are not read by the Connection

	closedFlag int32
	scriptDone chan struct{}
	readerDone chan struct{}
	answerDone chan struct{}
	connCalls  int
	connNotifs int
}

func newRawPeer(sc *scenario, rwc io.ReadWriteCloser) *rawPeer {
	r := &rawPeer{sc: sc, rwc: rwc, reqStarted: map[string]int{}, respSeen: map[string]int{}, dupSent: map[string]bool{},
		scriptDone: make(chan struct{}), readerDone: make(chan struct{}), answerDone: make(chan struct{})}
	r.ansCond = sync.NewCond(&r.mu)
	return r
}

func (r *rawPeer) start() {
	go r.reader()
	go r.answerer()
	go r.script()
}

func (r *rawPeer) finished() bool {
	return closed(r.scriptDone) && closed(r.readerDone) && closed(r.answerDone)
}

func (r *rawPeer) close() {
	if atomic.CompareAndSwapInt32(&r.closedFlag, 0, 1) {
		r.rwc.Close()
		r.mu.Lock()
		r.ansStop = true
		r.ansCond.Broadcast()
		r.mu.Unlock()
	}
}

func (r *rawPeer) isClosed() bool { return atomic.LoadInt32(&r.closedFlag) != 0 }

func frame(data []byte) []byte {
	return append([]byte(fmt.Sprintf("Content-Length: %d\r\n\r\n", len(data))), data...)
}

func encode(msg jsonrpc2.Message) []byte {
	data, err := jsonrpc2.EncodeMessage(msg)
	if err != nil {
		panic("c39 harness: " + err.Error())
	}
	return frame(data)
}

func (r *rawPeer) send(b []byte) error {
	r.wmu.Lock()
	defer r.wmu.Unlock()
	// sometimes split the frame into two writes
	if len(b) > 8 && noise()%4 == 0 {
		k := 1 + int(noise()%uint64(len(b)-1))
		if _, err := r.rwc.Write(b[:k]); err != nil {
			return err
		}
		b = b[k:]
	}
	_, err := r.rwc.Write(b)
	return err
}

func (id rawID) toID() jsonrpc2.ID {
	if !id.valid {
		return jsonrpc2.ID{}
	}
	if id.str {
		return jsonrpc2.StringID(id.s)
	}
	return jsonrpc2.Int64ID(id.i)
}

func (id rawID) raw() any {
	if id.str {
		return id.s
	}
	return id.i
}

func (r *rawPeer) reader() {
	defer close(r.readerDone)
	rd := jsonrpc2.HeaderFramer().Reader(r.rwc)
	for {
		msg, _, err := rd.Read(context.Background())
		if err != nil {
			return
		}
		switch v := msg.(type) {
		case *jsonrpc2.Request:
			if v.IsCall() {
				r.onCall(v)
			} else {
				r.mu.Lock()
				r.connNotifs++
				r.mu.Unlock()
			}
		case *jsonrpc2.Response:
			r.onResp(v)
		}
	}
}

func (r *rawPeer) pickMode(method string, k int) int {
	switch method {
	case "hold":
		return ansHold
	case "err", "nh":
		return ansError
	}
	w := r.sc.sp.raw.ansWeight
	t := 0
	for _, x := range w {
		t += x
	}
	x := (k >> 4) % t
	for m, y := range w {
		if x < y {
			return m
		}
		x -= y
	}
	return ansNow
}

func (r *rawPeer) onCall(v *jsonrpc2.Request) {
	var p params
	json.Unmarshal(v.Params, &p)
	idStr := jsonrpc2.VerifIDString(v.ID)
	good, _ := json.Marshal(&result{N: p.N, ID: idStr, From: "raw"})
	okResp := encode(&jsonrpc2.Response{ID: v.ID, Result: json.RawMessage(good)})
	mode := r.pickMode(v.Method, p.K)
	r.sc.count(fmt.Sprintf("raw_answer_mode_%d", mode))
	r.mu.Lock()
	defer r.mu.Unlock()
	r.connCalls++
	if r.flushed && (mode == ansHold || mode == ansNever) {
		mode = ansNow // wind-down has begun: nothing is held back any more
	}
	switch mode {
	case ansNow:
		r.ansQ = append(r.ansQ, okResp)
	case ansTwice:
		bad, _ := json.Marshal(&result{N: -1, ID: idStr, From: "raw", Dup: true})
		r.ansQ = append(r.ansQ, okResp, encode(&jsonrpc2.Response{ID: v.ID, Result: json.RawMessage(bad)}))
	case ansHold:
		r.held = append(r.held, okResp)
	case ansNever:
		r.never++
	case ansError:
		r.ansQ = append(r.ansQ, encode(&jsonrpc2.Response{ID: v.ID, Error: errRaw}))
	}
	r.ansCond.Broadcast()
}

func (r *rawPeer) neverCount() int {
	r.mu.Lock()
	defer r.mu.Unlock()
	return r.never
}

func (r *rawPeer) flushHeld() {
	r.mu.Lock()
	r.ansQ = append(r.ansQ, r.held...)
	r.held = nil
	r.flushed = true
	r.ansCond.Broadcast()
	r.mu.Unlock()
}

func (r *rawPeer) answerer() {
	defer close(r.answerDone)
	for {
		r.mu.Lock()
		for len(r.ansQ) == 0 && !r.ansStop {
			r.ansCond.Wait()
		}
		if r.ansStop {
			r.mu.Unlock()
			return
		}
		b := r.ansQ[0]
		r.ansQ = r.ansQ[1:]
		r.mu.Unlock()
		if err := r.send(b); err != nil {
			r.sc.count("raw_answer_write_failed")
		}
	}
}

// onResp: a response written by the Connection arrived.
func (r *rawPeer) onResp(v *jsonrpc2.Response) {
	id := jsonrpc2.VerifIDString(v.ID)
	r.mu.Lock()
	r.respSeen[id]++
	seen, started := r.respSeen[id], r.reqStarted[id]
	r.mu.Unlock()
	if seen > started {
		key := "answered-twice"
		if started == 0 {
			key = "response-unknown-id"
		}
		r.sc.fail(key, fmt.Sprintf("raw peer read response #%d with id=%s after starting only %d call requests with that id", seen, id, started))
	}
	if v.Error != nil {
		r.sc.count("raw_got_" + classifyErr(v.Error))
	} else {
		r.sc.count("raw_got_result")
	}
}

func (r *rawPeer) answered(id string) bool {
	r.mu.Lock()
	defer r.mu.Unlock()
	return r.respSeen[id] >= r.reqStarted[id]
}

func (r *rawPeer) script() {
	defer close(r.scriptDone)
	sc := r.sc
	for _, st := range sc.sp.raw.steps {
		if sc.isStopping() || r.isClosed() {
			sc.count("raw_step_skipped")
			continue
		}
		switch st.kind {
		case rCall:
			id := st.id.toID()
			ids := jsonrpc2.VerifIDString(id)
			pj, _ := json.Marshal(&params{N: sc.nextNonce(), K: st.k})
			b := encode(&jsonrpc2.Request{ID: id, Method: st.method, Params: pj})
			r.mu.Lock()
			if r.reqStarted[ids] > r.respSeen[ids] {
				r.dupSent[ids] = true
				sc.count("raw_dup_id_sent")
			} else if r.reqStarted[ids] > 0 {
				sc.count("raw_id_reused")
			}
			r.reqStarted[ids]++
			r.mu.Unlock()
			sc.count("raw_call")
			if err := r.send(b); err != nil {
				sc.count("raw_write_failed")
			}
			if st.wait {
				if waitUntil(func() bool { return r.answered(ids) || sc.isStopping() || r.isClosed() }, time.Now().Add(8*time.Millisecond)) && r.answered(ids) {
					sc.count("raw_wait_answered")
				} else {
					sc.count("raw_wait_timeout")
				}
			}
		case rNotify:
			pj, _ := json.Marshal(&params{N: sc.nextNonce(), K: st.k})
			sc.count("raw_notify")
			r.send(encode(&jsonrpc2.Request{Method: st.method, Params: pj}))
		case rCancel:
			pj, _ := json.Marshal(&params{ID: st.id.raw()})
			sc.count("raw_cancel")
			r.send(encode(&jsonrpc2.Request{Method: "cancel", Params: pj}))
		case rResp:
			sc.count("raw_bogus_response")
			var b []byte
			if st.k == 0 {
				b = encode(&jsonrpc2.Response{ID: st.id.toID(), Error: errRaw})
			} else {
				bad, _ := json.Marshal(&result{N: -2, ID: "bogus", From: "raw", Dup: true})
				b = encode(&jsonrpc2.Response{ID: st.id.toID(), Result: json.RawMessage(bad)})
			}
			r.send(b)
		case rGarbage:
			sc.count(fmt.Sprintf("raw_garbage_%d", st.k))
			r.sendGarbage(st.k)
		case rClose:
			sc.count("raw_disconnect")
			r.close()
		case rSleep:
			time.Sleep(st.dur)
		case rYield:
			for i := 0; i < st.k; i++ {
				runtime.Gosched()
			}
		case rRelease:
			sc.gates[st.k%len(sc.gates)].release()
		}
	}
}

func (r *rawPeer) sendGarbage(k int) {
	var b []byte
	closeAfter := false
	switch k {
	case 0:
		b = []byte("Content-Length: abc\r\n\r\n")
	case 1:
		b = []byte("Content-Length: 0\r\n\r\n")
	case 2:
		b = []byte("this line has no colon\r\n\r\n")
	case 3:
		b = []byte("\r\n")
	case 4:
		b = frame([]byte("{not json"))
	case 5:
		b = frame([]byte(`{"jsonrpc":"1.0","method":"echo","id":1}`))
	case 6:
		b = frame([]byte(`{"jsonrpc":"2.0","result":1}`))
	case 7:
		b = frame([]byte(`{"jsonrpc":"2.0","id":{},"method":"echo"}`))
	case 8:
		b = []byte("Content-Length: 50\r\n\r\n{\"jsonrpc\"")
		closeAfter = true
	case 9:
		b = []byte("Content-Len")
		closeAfter = true
	case 10:
		b = []byte("Content-Length: -5\r\n\r\n")
	default:
		// not garbage at all: an extra header is ignored
		pj, _ := json.Marshal(&params{N: r.sc.nextNonce()})
		data, _ := jsonrpc2.EncodeMessage(&jsonrpc2.Request{Method: "echo", Params: pj})
		b = append([]byte(fmt.Sprintf("Content-Type: x/y\r\nContent-Length: %d\r\n\r\n", len(data))), data...)
	}
	if k <= 10 {
		r.mu.Lock()
		r.garbage = true
		r.mu.Unlock()
	}
	r.send(b)
	if closeAfter {
		r.close()
	}
}

// evaluate: statistics from the raw peer's point of view (after everything finished).
// dup_id_rejections_seen: requests with an id that was re-sent while in flight and
// that got no response (a duplicate is rejected silently: conn.go clears req.ID).
func (r *rawPeer) evaluate() {
	r.mu.Lock()
	defer r.mu.Unlock()
	for id := range r.dupSent {
		if d := r.reqStarted[id] - r.respSeen[id]; d > 0 {
			r.sc.countN("dup_id_rejections_seen", d)
		}
	}
	r.sc.countN("raw_conn_calls_seen", r.connCalls)
	r.sc.countN("raw_conn_notifs_seen", r.connNotifs)
}
