// Scenario generation for the C39 harness: everything here is a pure function
// of (seed, idx); the run-time schedule is not.
package main

import (
	"fmt"
	"time"

	"verifharness/vh"
)

type opKind int

const (
	opCall opKind = iota
	opNotify
	opCancelNotify // Notify("cancel", id of one of this goroutine's earlier calls)
	opYield
	opSleep
	opClose   // start K concurrent Close() calls on the own connection
	opWait    // start a Wait() caller
	opSever   // close the link from outside (both directions)
	opSeverMe // close only the own underlying end from outside
	opWFault  // own writes start failing after K more writes
	opRFault  // own reads start failing
	opRelease // release gate K
	opAwaitAll
	nOpKinds
)

var opNames = []string{"call", "notify", "cancelnotify", "yield", "sleep", "close", "wait", "sever", "severme", "wfault", "rfault", "release", "awaitall"}

const (
	ctxBackground = iota
	ctxCancelled
	ctxSoonCancelled
)

const (
	awTimeout = iota
	awCancelRace
	awLater
	awDouble
)

type op struct {
	kind   opKind
	method string
	k      int // behaviour selector sent as params.K / count / gate number
	ctx    int
	await  int
	dur    time.Duration
	bad    bool // params that cannot be JSON-encoded (marshal fails before anything is written)
}

type connSpec struct {
	preempter bool
	bindClose int // 0 no, 1 Close inside Bind, 2 go Close inside Bind
	earlyWait int // Wait() callers started right after Dial
	clients   [][]op
	pumped    bool
}

// raw peer script
type rawKind int

const (
	rCall rawKind = iota
	rNotify
	rCancel  // cancel notification for id
	rResp    // response with an id the Connection never used
	rGarbage // malformed input (variant k); the reader of the Connection dies
	rClose   // close the raw end
	rSleep
	rYield
	rRelease
	rWaitResp // wait (bounded) for a response to id
)

type rawID struct {
	str   bool
	s     string
	i     int64
	valid bool
}

type rawStep struct {
	kind   rawKind
	id     rawID
	method string
	k      int
	dur    time.Duration
	wait   bool // rCall: wait (bounded) for the response before continuing
}

const (
	ansNow = iota
	ansTwice
	ansHold  // answer at wind-down
	ansNever // never answered: retired by EOF
	ansError
	nAnsModes
)

type rawSpec struct {
	steps     []rawStep
	ansWeight [nAnsModes]int // weights for answering the Connection's calls (selected by params.K)
}

type spec struct {
	kind      int // 0 conn-conn, 1 conn-raw
	profile   string
	transport int
	procs     int
	yGosched  uint32
	ySleep    uint32
	ioGosched uint32
	ioSleep   uint32
	ioChunk   uint32
	nGates    int
	conns     [2]connSpec
	raw       rawSpec
	graceful  bool // wind-down: await all calls before Close
}

var kindNames = []string{"conn-conn", "conn-raw"}

func (s *spec) describe() string {
	return fmt.Sprintf("kind=%s profile=%s transport=%s procs=%d", kindNames[s.kind], s.profile, transportNames[s.transport], s.procs)
}

type weighted struct {
	w int
	s string
}

func pickW(r *vh.Rand, ws []weighted) string {
	t := 0
	for _, w := range ws {
		t += w.w
	}
	x := r.Intn(t)
	for _, w := range ws {
		if x < w.w {
			return w.s
		}
		x -= w.w
	}
	return ws[0].s
}

var callMethods = []weighted{{30, "echo"}, {20, "slow"}, {7, "err"}, {5, "nh"}, {12, "async"}, {6, "callback"}, {5, "notifyback"}, {8, "pre"}, {7, "preasync"}, {4, "badres"}, {4, "asyncbad"}}
var slowMethods = []weighted{{60, "slow"}, {15, "async"}, {10, "preasync"}, {10, "echo"}, {5, "callback"}}
var fastMethods = []weighted{{60, "echo"}, {15, "pre"}, {10, "err"}, {5, "nh"}, {10, "notifyback"}}
var notifyMethods = []weighted{{30, "echo"}, {10, "slow"}, {10, "err"}, {8, "nh"}, {8, "async"}, {8, "notifyback"}, {10, "pre"}, {6, "preasync"}, {10, "note"}, {3, "badres"}, {3, "asyncbad"}}

func genDur(r *vh.Rand, maxMicros int) time.Duration {
	return time.Duration(1+r.Intn(maxMicros)) * time.Microsecond
}

func genCall(r *vh.Rand, methods []weighted) op {
	o := op{kind: opCall, method: pickW(r, methods), k: r.Intn(1 << 16)}
	switch x := r.Intn(100); {
	case x < 84:
		o.ctx = ctxBackground
	case x < 91:
		o.ctx = ctxCancelled
	default:
		o.ctx = ctxSoonCancelled
	}
	switch x := r.Intn(100); {
	case x < 45:
		o.await = awTimeout
		o.dur = genDur(r, 3000)
	case x < 60:
		o.await = awCancelRace
		o.dur = genDur(r, 300)
	case x < 85:
		o.await = awLater
	default:
		o.await = awDouble
		o.dur = genDur(r, 3000)
	}
	o.bad = r.Chance(5)
	return o
}

func genNotify(r *vh.Rand) op {
	o := op{kind: opNotify, method: pickW(r, notifyMethods), k: r.Intn(1 << 16)}
	switch x := r.Intn(100); {
	case x < 88:
		o.ctx = ctxBackground
	case x < 94:
		o.ctx = ctxCancelled
	default:
		o.ctx = ctxSoonCancelled
	}
	o.bad = r.Chance(8)
	return o
}

func genPause(r *vh.Rand) op {
	if r.Chance(60) {
		return op{kind: opYield, k: 1 + r.Intn(4)}
	}
	return op{kind: opSleep, dur: genDur(r, 400)}
}

// genClient makes a general client program of n ops.
func genClient(r *vh.Rand, n int, methods []weighted) []op {
	var ops []op
	for i := 0; i < n; i++ {
		switch x := r.Intn(100); {
		case x < 55:
			ops = append(ops, genCall(r, methods))
		case x < 75:
			ops = append(ops, genNotify(r))
		case x < 82:
			ops = append(ops, op{kind: opCancelNotify, k: r.Intn(8)})
		case x < 96:
			ops = append(ops, genPause(r))
		default:
			ops = append(ops, op{kind: opAwaitAll, dur: genDur(r, 2000)})
		}
	}
	return ops
}

// genChaos makes a program of disturbing events for one endpoint.
func genChaos(r *vh.Rand, s *spec, closeP, severP, wfaultP, rfaultP int) []op {
	var ops []op
	if r.Chance(70) {
		ops = append(ops, op{kind: opSleep, dur: genDur(r, 1500)})
	}
	add := func(o op) {
		ops = append(ops, genPause(r))
		if r.Chance(50) {
			ops = append(ops, genPause(r))
		}
		ops = append(ops, o)
	}
	if r.Chance(wfaultP) {
		add(op{kind: opWFault, k: r.Intn(8)})
	}
	if r.Chance(rfaultP) {
		add(op{kind: opRFault})
	}
	if r.Chance(severP) {
		if r.Chance(70) {
			add(op{kind: opSever})
		} else {
			add(op{kind: opSeverMe})
		}
	}
	if r.Chance(closeP) {
		add(op{kind: opClose, k: 1 + r.Intn(3)})
	}
	for g := 0; g < s.nGates; g++ {
		if r.Chance(60) {
			add(op{kind: opRelease, k: g})
		}
	}
	// shuffle groups a little: rotate
	return ops
}

func genSpec(seed uint64, idx int, tier string) *spec {
	r := vh.NewRand(seed).Fork(idx)
	scale := 1
	if tier == "thorough" {
		scale = 2
	}
	s := &spec{}
	s.procs = []int{1, 2, 4, 8}[r.Intn(4)]
	s.transport = r.Intn(nTransports)
	s.nGates = 1 + r.Intn(2)
	s.graceful = r.Chance(35)
	switch r.Intn(4) {
	case 0: // calm
	case 1:
		s.yGosched = uint32(r.Intn(3000))
	case 2:
		s.yGosched = uint32(r.Intn(20000))
		s.ySleep = uint32(r.Intn(400))
	default:
		s.yGosched = uint32(r.Intn(8000))
		s.ySleep = uint32(r.Intn(150))
	}
	switch r.Intn(3) {
	case 0:
	case 1:
		s.ioGosched = uint32(r.Intn(8000))
		s.ioChunk = uint32(r.Intn(6000))
	default:
		s.ioGosched = uint32(r.Intn(30000))
		s.ioSleep = uint32(r.Intn(600))
		s.ioChunk = uint32(r.Intn(30000))
	}
	if r.Chance(38) {
		s.kind = 1
		genRawScenario(r, s, scale)
	} else {
		s.kind = 0
		genConnConn(r, s, scale)
	}
	return s
}

func genConnConn(r *vh.Rand, s *spec, scale int) {
	prof := pickW(r, []weighted{
		{34, "mix"}, {14, "outstanding-close"}, {10, "outstanding-sever"}, {9, "notify-only-close"},
		{9, "notify-after-close"}, {12, "gated-close"}, {6, "faults"}, {6, "bindclose"},
	})
	s.profile = prof
	for e := 0; e < 2; e++ {
		c := &s.conns[e]
		c.preempter = r.Chance(65)
		c.earlyWait = []int{0, 0, 1, 2}[r.Intn(4)]
		// at least one direction is pumped on synchronous transports
		c.pumped = e == 0 || r.Chance(50)
	}
	if r.Chance(50) { // which direction is guaranteed to be pumped
		s.conns[0].pumped, s.conns[1].pumped = s.conns[1].pumped, s.conns[0].pumped
	}
	nOps := func(lo, hi int) int { return (lo + r.Intn(hi-lo+1)) * scale }
	switch prof {
	case "mix":
		for e := 0; e < 2; e++ {
			g := 1 + r.Intn(3)
			for i := 0; i < g; i++ {
				s.conns[e].clients = append(s.conns[e].clients, genClient(r, nOps(2, 6), callMethods))
			}
			s.conns[e].clients = append(s.conns[e].clients, genChaos(r, s, 45, 12, 8, 6))
		}
	case "outstanding-close", "outstanding-sever":
		// many calls outstanding (handlers gated) when Close / sever strikes
		for e := 0; e < 2; e++ {
			g := 1 + r.Intn(3)
			if e == 1 && r.Chance(40) {
				g = 0
			}
			for i := 0; i < g; i++ {
				var ops []op
				n := nOps(2, 5)
				for j := 0; j < n; j++ {
					o := genCall(r, slowMethods)
					o.ctx = ctxBackground
					if r.Chance(70) {
						o.await = awLater
					}
					ops = append(ops, o)
					if r.Chance(20) {
						ops = append(ops, genNotify(r))
					}
				}
				s.conns[e].clients = append(s.conns[e].clients, ops)
			}
			if prof == "outstanding-close" {
				s.conns[e].clients = append(s.conns[e].clients, genChaos(r, s, 85, 5, 3, 3))
			} else {
				s.conns[e].clients = append(s.conns[e].clients, genChaos(r, s, 25, 90, 5, 5))
			}
		}
	case "notify-only-close":
		for e := 0; e < 2; e++ {
			g := 1 + r.Intn(2)
			for i := 0; i < g; i++ {
				var ops []op
				n := nOps(2, 6)
				for j := 0; j < n; j++ {
					ops = append(ops, genNotify(r))
					if r.Chance(30) {
						ops = append(ops, genPause(r))
					}
				}
				s.conns[e].clients = append(s.conns[e].clients, ops)
			}
			s.conns[e].clients = append(s.conns[e].clients, genChaos(r, s, 80, 5, 3, 3))
		}
	case "notify-after-close":
		// Close first, then Notify / Call on the closed(ing) connection, then Close again
		for e := 0; e < 2; e++ {
			var ops []op
			if r.Chance(60) {
				ops = append(ops, genCall(r, fastMethods))
			}
			if r.Chance(50) {
				ops = append(ops, genNotify(r))
			}
			if e == 0 || r.Chance(50) {
				ops = append(ops, op{kind: opClose, k: 1 + r.Intn(2)})
				if r.Chance(60) {
					ops = append(ops, genPause(r))
				}
				n := nOps(1, 3)
				for j := 0; j < n; j++ {
					if r.Chance(65) {
						ops = append(ops, genNotify(r))
					} else {
						ops = append(ops, genCall(r, fastMethods))
					}
					if r.Chance(40) {
						ops = append(ops, genPause(r))
					}
				}
				ops = append(ops, op{kind: opClose, k: 1})
			} else {
				ops = append(ops, genClient(r, nOps(1, 3), callMethods)...)
			}
			s.conns[e].clients = append(s.conns[e].clients, ops)
			if r.Chance(40) {
				s.conns[e].clients = append(s.conns[e].clients, genClient(r, nOps(1, 3), fastMethods))
			}
		}
	case "gated-close":
		// handlers are blocked on gates while Close is called on the handling side
		for e := 0; e < 2; e++ {
			var ops []op
			n := nOps(1, 4)
			for j := 0; j < n; j++ {
				if r.Chance(75) {
					o := genCall(r, slowMethods)
					o.ctx = ctxBackground
					o.await = awLater
					ops = append(ops, o)
				} else {
					o := genNotify(r)
					o.method = "slow"
					o.ctx = ctxBackground
					ops = append(ops, o)
				}
			}
			s.conns[e].clients = append(s.conns[e].clients, ops)
			var ch []op
			ch = append(ch, op{kind: opSleep, dur: genDur(r, 600)})
			ch = append(ch, op{kind: opClose, k: 1 + r.Intn(3)})
			ch = append(ch, op{kind: opSleep, dur: genDur(r, 800)})
			for g := 0; g < s.nGates; g++ {
				ch = append(ch, op{kind: opRelease, k: g})
				ch = append(ch, genPause(r))
			}
			s.conns[e].clients = append(s.conns[e].clients, ch)
		}
	case "faults":
		for e := 0; e < 2; e++ {
			g := 1 + r.Intn(2)
			for i := 0; i < g; i++ {
				s.conns[e].clients = append(s.conns[e].clients, genClient(r, nOps(3, 6), callMethods))
			}
			s.conns[e].clients = append(s.conns[e].clients, genChaos(r, s, 30, 15, 55, 45))
		}
	case "bindclose":
		for e := 0; e < 2; e++ {
			if e == 0 || r.Chance(30) {
				s.conns[e].bindClose = 1 + r.Intn(2)
			}
			s.conns[e].clients = append(s.conns[e].clients, genClient(r, nOps(1, 4), callMethods))
			if r.Chance(50) {
				s.conns[e].clients = append(s.conns[e].clients, genChaos(r, s, 50, 10, 5, 5))
			}
		}
	}
}

var rawIDPool = []rawID{
	{valid: true, i: 0}, {valid: true, i: 1}, {valid: true, i: 2}, {valid: true, i: 3}, {valid: true, i: 7},
	{valid: true, i: -1}, {valid: true, i: -77}, {valid: true, i: 1 << 40}, {valid: true, i: 9007199254740991},
	{valid: true, str: true, s: ""}, {valid: true, str: true, s: "a"}, {valid: true, str: true, s: "x1"},
	{valid: true, str: true, s: "1"}, {valid: true, str: true, s: "id/ü"},
}

// ids the Connection itself never uses for its own calls (its ids are 1,2,3,...)
var bogusIDPool = []rawID{
	{valid: true, i: 0}, {valid: true, i: -1}, {valid: true, i: -5}, {valid: true, i: 1 << 41},
	{valid: true, str: true, s: ""}, {valid: true, str: true, s: "1"}, {valid: true, str: true, s: "zz"},
}

func genRawScenario(r *vh.Rand, s *spec, scale int) {
	prof := pickW(r, []weighted{
		{22, "raw-mix"}, {16, "raw-dup-id"}, {16, "raw-reuse-id"}, {14, "raw-bogus-resp"},
		{10, "raw-garbage"}, {10, "raw-notify-flood"}, {12, "raw-disconnect"},
	})
	s.profile = prof
	c := &s.conns[0]
	c.preempter = r.Chance(65)
	c.earlyWait = []int{0, 0, 1, 2}[r.Intn(4)]
	c.pumped = r.Chance(25)
	if r.Chance(4) {
		c.bindClose = 1 + r.Intn(2)
	}
	nOps := func(lo, hi int) int { return (lo + r.Intn(hi-lo+1)) * scale }
	rs := &s.raw
	rs.ansWeight = [nAnsModes]int{60, 10, 15, 5, 10}
	fresh := 100
	freshID := func() rawID {
		fresh++
		if r.Chance(25) {
			return rawID{valid: true, str: true, s: fmt.Sprintf("f%d", fresh)}
		}
		return rawID{valid: true, i: int64(fresh)}
	}
	poolID := func() rawID { return rawIDPool[r.Intn(len(rawIDPool))] }
	pause := func() {
		if r.Chance(50) {
			rs.steps = append(rs.steps, rawStep{kind: rYield, k: 1 + r.Intn(3)})
		} else {
			rs.steps = append(rs.steps, rawStep{kind: rSleep, dur: genDur(r, 300)})
		}
	}
	rawCall := func(id rawID, methods []weighted, wait bool) {
		rs.steps = append(rs.steps, rawStep{kind: rCall, id: id, method: pickW(r, methods), k: r.Intn(1 << 16), wait: wait})
	}
	rawNotify := func() {
		rs.steps = append(rs.steps, rawStep{kind: rNotify, method: pickW(r, notifyMethods), k: r.Intn(1 << 16)})
	}
	// the Connection's own client side
	clientMethods := []weighted{{50, "echo"}, {15, "err"}, {10, "nh"}, {25, "hold"}}
	addClients := func(lo, hi, closeP, severP, wfP, rfP int) {
		g := r.Intn(3)
		for i := 0; i < g; i++ {
			c.clients = append(c.clients, genClient(r, nOps(lo, hi), clientMethods))
		}
		c.clients = append(c.clients, genChaos(r, s, closeP, severP, wfP, rfP))
	}
	switch prof {
	case "raw-mix":
		n := nOps(3, 8)
		for i := 0; i < n; i++ {
			switch x := r.Intn(100); {
			case x < 45:
				id := freshID()
				if r.Chance(30) {
					id = poolID()
				}
				rawCall(id, callMethods, r.Chance(40))
			case x < 65:
				rawNotify()
			case x < 75:
				rs.steps = append(rs.steps, rawStep{kind: rResp, id: bogusIDPool[r.Intn(len(bogusIDPool))], k: r.Intn(4)})
			case x < 82:
				rs.steps = append(rs.steps, rawStep{kind: rCancel, id: poolID()})
			default:
				pause()
			}
		}
		addClients(2, 5, 45, 10, 8, 6)
	case "raw-dup-id":
		// first call gated (stays in flight), then the same id again, several times
		n := nOps(1, 3)
		for i := 0; i < n; i++ {
			id := poolID()
			first := pickW(r, []weighted{{60, "slow"}, {25, "async"}, {15, "preasync"}})
			rs.steps = append(rs.steps, rawStep{kind: rCall, id: id, method: first, k: r.Intn(1<<16) | 1}) // odd k: async waits for the gate
			if r.Chance(50) {
				pause()
			}
			d := 1 + r.Intn(3)
			for j := 0; j < d; j++ {
				rawCall(id, callMethods, false)
				if r.Chance(30) {
					rawNotify()
				}
			}
			if r.Chance(30) {
				rs.steps = append(rs.steps, rawStep{kind: rCancel, id: id})
			}
		}
		pause()
		for g := 0; g < s.nGates; g++ {
			if r.Chance(70) {
				rs.steps = append(rs.steps, rawStep{kind: rRelease, k: g})
			}
		}
		addClients(1, 3, 40, 8, 5, 5)
	case "raw-reuse-id":
		n := nOps(1, 3)
		for i := 0; i < n; i++ {
			id := poolID()
			reps := 2 + r.Intn(3)
			for j := 0; j < reps; j++ {
				m := pickW(r, []weighted{{50, "echo"}, {20, "async"}, {15, "pre"}, {15, "preasync"}})
				rs.steps = append(rs.steps, rawStep{kind: rCall, id: id, method: m, k: r.Intn(1<<16) &^ 1, wait: true}) // even k: async does not wait for the gate
			}
			if r.Chance(40) {
				rawNotify()
			}
		}
		// then Notify on the Connection after it was closed (client side)
		var ops []op
		ops = append(ops, op{kind: opSleep, dur: genDur(r, 800)})
		ops = append(ops, op{kind: opClose, k: 1})
		ops = append(ops, genNotify(r), genNotify(r))
		if r.Chance(60) {
			c.clients = append(c.clients, ops)
		}
		addClients(1, 3, 25, 5, 3, 3)
	case "raw-bogus-resp":
		// the Connection has calls outstanding ("hold": raw answers at wind-down)
		rs.ansWeight = [nAnsModes]int{15, 35, 35, 5, 10}
		g := 1 + r.Intn(3)
		for i := 0; i < g; i++ {
			var ops []op
			n := nOps(2, 5)
			for j := 0; j < n; j++ {
				o := genCall(r, []weighted{{70, "echo"}, {30, "hold"}})
				o.ctx = ctxBackground
				ops = append(ops, o)
			}
			c.clients = append(c.clients, ops)
		}
		c.clients = append(c.clients, genChaos(r, s, 40, 10, 5, 5))
		n := nOps(2, 6)
		for i := 0; i < n; i++ {
			if r.Chance(70) {
				rs.steps = append(rs.steps, rawStep{kind: rResp, id: bogusIDPool[r.Intn(len(bogusIDPool))], k: r.Intn(4)})
			} else {
				rawCall(freshID(), callMethods, false)
			}
			pause()
		}
	case "raw-garbage":
		rs.ansWeight = [nAnsModes]int{30, 10, 40, 15, 5}
		n := nOps(1, 4)
		for i := 0; i < n; i++ {
			if r.Chance(60) {
				rawCall(freshID(), callMethods, false)
			} else {
				rawNotify()
			}
		}
		rs.steps = append(rs.steps, rawStep{kind: rGarbage, k: r.Intn(12)})
		if r.Chance(50) {
			rawCall(freshID(), fastMethods, false)
		}
		if r.Chance(60) {
			pause()
			rs.steps = append(rs.steps, rawStep{kind: rClose})
		}
		addClients(2, 5, 35, 5, 5, 5)
	case "raw-notify-flood":
		n := nOps(3, 10)
		for i := 0; i < n; i++ {
			rawNotify()
			if r.Chance(20) {
				pause()
			}
		}
		var ops []op
		m := nOps(1, 5)
		for j := 0; j < m; j++ {
			ops = append(ops, genNotify(r))
		}
		c.clients = append(c.clients, ops)
		c.clients = append(c.clients, genChaos(r, s, 85, 5, 3, 3))
	case "raw-disconnect":
		rs.ansWeight = [nAnsModes]int{30, 10, 30, 25, 5}
		n := nOps(2, 6)
		cut := r.Intn(n + 1)
		for i := 0; i < n; i++ {
			if i == cut {
				rs.steps = append(rs.steps, rawStep{kind: rClose})
			}
			if r.Chance(65) {
				rawCall(freshID(), callMethods, r.Chance(20))
			} else {
				rawNotify()
			}
			if r.Chance(30) {
				pause()
			}
		}
		if cut == n {
			rs.steps = append(rs.steps, rawStep{kind: rClose})
		}
		g := 1 + r.Intn(3)
		for i := 0; i < g; i++ {
			var ops []op
			m := nOps(2, 5)
			for j := 0; j < m; j++ {
				o := genCall(r, []weighted{{50, "echo"}, {50, "hold"}})
				o.ctx = ctxBackground
				if r.Chance(60) {
					o.await = awLater
				}
				ops = append(ops, o)
			}
			c.clients = append(c.clients, ops)
		}
		c.clients = append(c.clients, genChaos(r, s, 40, 10, 5, 5))
	}
}
