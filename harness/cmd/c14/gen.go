package main

// Generator of well-typed Go files (no imports, so that go/types checks them in-process).
// Typed by construction over a fixed prelude; every generated file is nevertheless
// type-checked and dropped (and counted) if the checker disagrees.  Covers generics, labels,
// struct tags, iota, goto, select, type switches, all statement forms, composite literals,
// conversions, slices, func literals, channels.

import (
	"fmt"
	"strings"

	"verifharness/vh"
)

const preludeHead = "package p\n\n"

const tildeNum = "type Num interface{ ~int | ~int64 | ~float64 }\n"
const plainNum = "type Num interface{ int | int64 | float64 }\n"

const prelude = `
type Pair[K comparable, V any] struct {
	Key K ` + "`json:\"key,omitempty\"`" + `
	Val V ` + "`json:\"val\" xml:\"v,attr\"`" + `
}

func (p *Pair[K, V]) Set(k K, v V) { p.Key, p.Val = k, v }

type List[T any] struct {
	items []T
	next  *List[T]
}

func (l *List[T]) Push(x T) *List[T] { l.items = append(l.items, x); return l }
func (l *List[T]) Len() int          { return len(l.items) }

func Map[T, U any](xs []T, f func(T) U) []U {
	var r []U
	for _, x := range xs {
		r = append(r, f(x))
	}
	return r
}

func Sum[T Num](xs ...T) T {
	var s T
	for _, x := range xs {
		s += x
	}
	return s
}

type Color int

const (
	Red Color = iota
	Green
	Blue
	_
	Last = iota * 10
)

const (
	KB = 1 << (10 * (iota + 1))
	MB
	GB
)

type Shape interface {
	Area() float64
	Perimeter() float64
}

type Rect struct{ W, H float64 }

func (r Rect) Area() float64      { return r.W * r.H }
func (r Rect) Perimeter() float64 { return 2 * (r.W + r.H) }

type T struct {
	a  int
	b  []int
	c  map[string]int
	ch chan int
	f  func(int) int
	p  *T
	e  struct{ x, y int } "plain tag"
	Rect
}

func (t *T) get(i int) *T       { return t }
func (t T) Run(xs ...int) int   { return len(xs) }
func get(i int) *T              { return &g }
func run(f func(int) int) int   { return f(1) }
func mk() (int, string, error)  { return 0, "", nil }

var g T

type K struct{ a, b int }

var m2 map[K]int
var mm map[K]map[string][]int

func pk(k K, ks ...K) bool { return k.a < len(ks) }
`

type gen struct {
	r     *vh.Rand
	b     strings.Builder
	nvar  int
	nlab  int
	depth int
	feat  map[string]int
	tilde bool
}

func (g *gen) tl() string {
	if g.tilde {
		return "~"
	}
	return ""
}

func (g *gen) pick(xs ...string) string { return xs[g.r.Intn(len(xs))] }
func (g *gen) hit(f string)             { g.feat[f]++ }

func (g *gen) fresh(p string) string {
	g.nvar++
	if g.r.Chance(12) { // non-ASCII identifiers
		return fmt.Sprintf("%s%s%d", p, g.pick("é", "π", "变量", "ñ_", "Ж"), g.nvar)
	}
	return fmt.Sprintf("%s%d", p, g.nvar)
}

// ty: a type expression of every form, nesting depth <= d.  nilable: only types to which nil
// converts (pointer, slice, map, chan, func, interface).
func (g *gen) ty(d int, nilable bool) string {
	if d <= 0 {
		if nilable {
			return g.pick("*int", "[]int", "map[string]int", "chan int", "func()", "interface{}", "*T", "[]K", "Shape", "error", "<-chan int", "chan<- int")
		}
		return g.pick("int", "string", "T", "K", "Color", "float64", "bool", "byte", "rune", "Rect", "[2]int", "struct{}", "uint8")
	}
	e := func() string { return g.ty(d-1, g.r.Chance(40)) }
	switch g.r.Intn(22) {
	case 0:
		return "*" + e()
	case 1:
		return "[]" + e()
	case 2:
		return "map[" + g.pick("string", "int", "K", "[2]int", "Color", "*T", "interface{}", "chan int") + "]" + e()
	case 3:
		return "chan " + e()
	case 4:
		return "chan<- " + e()
	case 5:
		return "<-chan " + e()
	case 6:
		g.hit("nested_arrow_chan")
		return "<-chan <-chan " + e()
	case 7:
		g.hit("nested_arrow_chan")
		return g.pick("<-chan <-chan <-chan ", "<-chan chan<- <-chan ", "chan<- <-chan ", "<-chan (<-chan ", "chan (<-chan ") + e() + g.pick("", "")
	case 8:
		return "func(" + g.pick("", e(), e()+", "+e(), "..."+e(), "x "+e(), "x, y "+e()) + ")" + g.pick("", " "+e(), " ("+e()+", error)", " (r "+e()+")")
	case 9:
		return "interface{ M(" + e() + ") " + e() + " }"
	case 10:
		return "interface{}"
	case 11:
		if !nilable {
			return "[" + g.pick("2", "0", "1<<2", "len(\"ab\")") + "]" + e()
		}
	case 12:
		if !nilable {
			return "struct{ f " + e() + "; g, h " + e() + " }"
		}
	case 13:
		if !nilable {
			return g.pick("Pair[string, "+e()+"]", "List["+e()+"]", "Pair[K, List["+e()+"]]")
		}
	case 14:
		return "*" + g.pick("List["+e()+"]", "Pair[int, "+e()+"]", "struct{ f "+e()+" }", "[2]"+e())
	case 15:
		return "(" + g.ty(d-1, nilable) + ")"
	case 16:
		return "[]" + "(" + e() + ")"
	case 17:
		return "chan (" + e() + ")"
	}
	return g.ty(d-1, nilable)
}

// typePositions: one statement that uses generated types in a position where the Go grammar
// allows a type inside an expression.
func (g *gen) typePositions() string {
	g.hit("type_in_expr")
	d := 1 + g.r.Intn(3)
	t, n := g.ty(d, false), g.ty(d, true)
	v := g.fresh("v")
	fix := func(s string) string { // close the parenthesis opened by the "(<-chan" alternatives
		if strings.Count(s, "(") > strings.Count(s, ")") {
			s += strings.Repeat(")", strings.Count(s, "(")-strings.Count(s, ")"))
		}
		return s
	}
	t, n = fix(t), fix(n)
	switch g.r.Intn(16) {
	case 0:
		return "_ = (" + n + ")(nil)"
	case 1:
		return "_ = ((" + n + "))(nil)"
	case 2:
		return "_ = new(" + g.pick(t, n) + ")"
	case 3:
		return "_ = make(chan " + g.pick(t, n) + g.pick(")", ", 1)")
	case 4:
		return "_ = make(" + g.pick("<-chan ", "chan<- ", "<-chan <-chan ", "<-chan chan<- ", "chan<- <-chan ") + g.pick(t, n) + g.pick(")", ", a)")
	case 5:
		return "_ = make([]" + g.pick(t, n) + ", 1, 2)\n_ = make(map[string]" + g.pick(t, n) + ")"
	case 6:
		return "_ = []" + g.pick(t, n) + "{}\n_ = map[K]" + g.pick(t, n) + "{}\n_ = [2]" + g.pick(t, n) + "{}"
	case 7:
		return "_ = struct{ f " + n + " }{}\n_ = &struct{ f, g " + t + " }{}\n_ = [...]" + n + "{nil, 2: nil}"
	case 8:
		return v + ", ok" + v + " := any.(" + g.pick(t, n) + ")\n_, _ = " + v + ", ok" + v
	case 9:
		return "switch " + v + " := any.(type) {\ncase " + g.pick(t, n) + ":\n_ = " + v + "\ndefault:\n}"
	case 10:
		return "switch any.(type) {\ncase nil, " + n + ":\n}"
	case 11:
		return "_ = Map[" + g.pick(t, n) + ", " + g.pick(t, n) + "]\n_ = List[" + n + "]{}\n_ = Pair[string, " + t + "]{}"
	case 12:
		return "_ = func(x " + t + ", ys ..." + n + ") (r " + g.pick(t, n) + ") {\n_, _ = x, ys\nreturn\n}"
	case 13:
		return "var " + v + " " + g.pick(t, n) + "\n_ = " + v
	case 14:
		return "_ = (*" + g.pick(t, "[]"+t) + ")(nil)\n_ = []" + n + "(nil)\n_ = map[string]" + t + "(nil)\n_ = interface{ M() " + t + " }(nil)"
	}
	return "_ = (func(" + n + ") " + t + ")(nil)\n_ = (chan<- " + n + ")(nil)\n_ = (<-chan <-chan " + t + ")(nil)\n_ = new(<-chan <-chan <-chan " + n + ")"
}

// ---- expressions -----------------------------------------------------------

func (g *gen) ie(d int) string { // int expression
	if d <= 0 {
		return g.pick("a", "r", "7", "0x1F", "1_000", "len(xs)", "t.a", "g.a", "t.e.x", "cap(xs)", "0b101", "0o17", "int(Last)",
			"0X1F", "0B101", "0O17", "0X_1f", "0b_1", "0O_7", "0XA_B", "017", "0_17", "0xBE_ef", "m2[K{1, 2}]", "int('a'*0 + 1)", "int('\x41' - '\u0041' + 2)")
	}
	switch g.r.Intn(26) {
	case 0:
		return "xs[" + g.idx(d-1) + "]"
	case 1:
		return "m[" + g.se(d-1) + "]"
	case 2:
		return "t.p.b[" + g.idx(d-1) + "]"
	case 3:
		return "t.f(" + g.ie(d-1) + ")"
	case 4:
		return "(" + g.ie(d-1) + ")"
	case 5:
		return g.pick("-", "+", "^") + g.ie(d-1)
	case 6, 7, 8, 9:
		op := g.pick("+", "-", "*", "/", "%", "&", "|", "^", "<<", ">>", "&^")
		rhs := g.ie(d - 1)
		if op == "/" || op == "%" {
			rhs = "(" + rhs + " | 1)"
		}
		if op == "<<" || op == ">>" {
			rhs = g.pick("1", "2", "uint(a)", "(a & 7)")
		}
		return g.ie(d-1) + " " + op + " " + rhs
	case 10:
		return "int(sh.Area() * " + g.fe(d-1) + ")"
	case 11:
		return "<-ch"
	case 12:
		g.hit("generic_call")
		return g.pick("Sum(", "Sum[int](") + g.ie(d-1) + ", " + g.ie(d-1) + ")"
	case 13:
		g.hit("funclit")
		return "func() int { return " + g.ie(d-1) + " }()"
	case 14:
		return "*(&a)"
	case 15:
		return "t.c[" + g.se(d-1) + "]"
	case 16:
		return g.pick("min(", "max(") + g.ie(d-1) + ", " + g.ie(d-1) + ")"
	case 17:
		return "t.get(" + g.ie(d-1) + ").a"
	case 18:
		return "get(" + g.ie(d-1) + ").Run(" + g.ie(d-1) + ")"
	case 19:
		return "run(func(x int) int { return x + " + g.ie(d-1) + " })"
	case 20:
		return "len(" + g.se(d-1) + ")"
	case 21:
		return "any.(int)"
	case 22:
		g.hit("complit")
		return "[]int{" + g.ie(d-1) + ", 2: " + g.ie(d-1) + "}[0]"
	case 23:
		return "(&List[int]{}).Push(" + g.ie(d-1) + ").Len()"
	case 24:
		return "len(xs[" + g.idx(d-1) + ":])"
	}
	return g.ie(0)
}

// idx: a non-constant int expression (safe as index, slice bound, case value)
func (g *gen) idx(d int) string {
	if d <= 0 {
		return g.pick("a", "r", "len(xs)", "t.a")
	}
	return g.pick("a", "r", "t.a") + g.pick(" + ", " - ", " * ", " & ", " | ") + g.ie(d-1)
}

func (g *gen) fe(d int) string {
	if d <= 0 {
		return g.pick("1.5", "2e3", ".25", "sh.Area()", "t.W", "float64(a)", "0x1p-2", "1_0.5e+1", "0X1P-2", "0X_1FFFP-16", "1E3", "0x.8p1", "0X1.8P+0_1", "1.", "0e0", "real(0XAi)", "imag(1_0i)")
	}
	switch g.r.Intn(5) {
	case 0:
		return g.fe(d-1) + g.pick(" + ", " * ", " - ", " / ") + g.fe(d-1)
	case 1:
		return "float64(" + g.idx(d-1) + ")"
	case 2:
		return "Sum(" + g.fe(d-1) + ", " + g.fe(d-1) + ")"
	case 3:
		return "(-" + g.fe(d-1) + ")"
	}
	return g.fe(0)
}

func (g *gen) se(d int) string {
	if d <= 0 {
		return g.pick("b", `"lit"`, "`raw`", `"a\tb\n"`, `"é\u00e9\x41"`, `""`, `"\101\U0001F600\xff\a\v"`, "`a\\n`", `"\""`, `"'"`)
	}
	switch g.r.Intn(6) {
	case 0:
		return g.se(d-1) + " + " + g.se(d-1)
	case 1:
		return "string(rune(" + g.ie(d-1) + "))"
	case 2:
		return "b[" + g.idx(d-1) + ":" + g.idx(d-1) + "]"
	case 3:
		return "(" + g.se(d-1) + ")"
	case 4:
		return "string([]byte(" + g.se(d-1) + "))"
	}
	return g.se(0)
}

func (g *gen) be(d int) string {
	if d <= 0 {
		return g.pick("a < r", "err != nil", "sh != nil", "true", "b == \"\"", "t == nil", "len(xs) > 0", "!false")
	}
	switch g.r.Intn(7) {
	case 0:
		return g.ie(d-1) + g.pick(" == ", " != ", " < ", " <= ", " > ", " >= ") + g.ie(d-1)
	case 1:
		return g.be(d-1) + " && " + g.be(d-1)
	case 2:
		return g.be(d-1) + " || " + g.be(d-1)
	case 3:
		return "!(" + g.be(d-1) + ")"
	case 4:
		return g.se(d-1) + " == " + g.se(d-1)
	case 5:
		return "(" + g.be(d-1) + ")"
	}
	return g.be(0)
}

// ---- statements ------------------------------------------------------------

func (g *gen) block(n int, loop string) string {
	var sb strings.Builder
	sb.WriteString("{\n")
	for i := 0; i < n; i++ {
		sb.WriteString(g.stmt(loop))
		sb.WriteString("\n")
	}
	sb.WriteString("}")
	return sb.String()
}

// stmt generates one statement; loop is the label of an enclosing labeled loop ("" if none,
// "-" if inside an unlabeled loop).
func (g *gen) stmt(loop string) string {
	g.depth++
	defer func() { g.depth-- }()
	d := 2
	if g.depth > 3 {
		return g.simple(d)
	}
	k := g.r.Intn(44)
	if k == 40 {
		k = 39
	}
	if k > 40 {
		return g.typePositions()
	}
	if k < 18 {
		return g.simple(d)
	}
	n := 1 + g.r.Intn(3)
	switch k {
	case 18, 19:
		g.hit("if")
		s := "if " + g.be(d) + " " + g.block(n, loop)
		if g.r.Bool() {
			v := g.fresh("v")
			s += " else if " + v + " := " + g.ie(d) + "; " + v + " > 0 " + g.block(1, loop)
		}
		if g.r.Bool() {
			s += " else " + g.block(1, loop)
		}
		return s
	case 20:
		g.hit("for3")
		i := g.fresh("i")
		return "for " + i + " := 0; " + i + " < " + g.ie(1) + "; " + i + g.pick("++", " += 2") + " " + g.block(n, "-")
	case 21:
		g.hit("forcond")
		return "for " + g.be(d) + " " + g.block(n, "-")
	case 22:
		g.hit("forever")
		return "for {\n" + g.stmt("-") + "\nbreak\n}"
	case 23:
		g.hit("range")
		i, v := g.fresh("i"), g.fresh("v")
		return g.pick(
			"for "+i+", "+v+" := range xs {\n_, _ = "+i+", "+v+"\n"+g.stmt("-")+"\n}",
			"for range xs "+g.block(n, "-"),
			"for "+i+" := range m {\n_ = "+i+"\n}",
			"for "+i+" := range 10 {\n_ = "+i+"\n}",
			"var "+i+" int\nfor "+i+" = range xs {\n}\n_ = "+i,
			"for _, "+v+" := range []string{\"a\", \"b\"} {\n_ = "+v+"\n}",
		)
	case 24, 25:
		g.hit("switch")
		v := g.fresh("v")
		init, tag := "", g.pick("a", g.ie(1))
		if g.r.Bool() {
			init, tag = v+" := "+g.ie(1)+"; ", v
		}
		s := "switch " + init + tag + " {\n"
		s += "case 1, 2:\n" + g.stmt(loop) + "\n" + g.pick("", "fallthrough\n")
		s += "case " + g.idx(1) + ":\n"
		s += g.pick("default:\n"+g.stmt(loop)+"\n", "")
		s += "}"
		return s
	case 26:
		g.hit("switch_tagless")
		return "switch {\ncase " + g.be(d) + ":\n" + g.stmt(loop) + "\ncase " + g.be(1) + ", " + g.be(1) + ":\ndefault:\n}"
	case 27, 28:
		g.hit("typeswitch")
		v := g.fresh("v")
		return g.pick(
			"switch "+v+" := any.(type) {\ncase int:\n_ = "+v+" + 1\ncase string, []int:\n_ = "+v+"\ncase nil:\ncase Shape:\n_ = "+v+".Area()\ncase Pair[string, int]:\ndefault:\n"+g.stmt(loop)+"\n}",
			"switch any.(type) {\ncase *T, func(int) int:\n"+g.stmt(loop)+"\ncase map[string]int, chan<- int:\n}",
			"switch x := a; "+v+" := any.(type) {\ncase interface{ Area() float64 }:\n_, _ = x, "+v+"\n}",
		)
	case 29, 30:
		g.hit("select")
		v, ok := g.fresh("v"), g.fresh("ok")
		return "select {\ncase " + v + " := <-ch:\n_ = " + v + "\ncase ch <- " + g.ie(1) + ":\n" + g.stmt(loop) + "\ncase " + v + ", " + ok + " := <-t.ch:\n_, _ = " + v + ", " + ok + "\ncase a = <-ch:\ncase <-ch:\n" + g.pick("default:\n", "") + "}"
	case 31, 32:
		g.hit("label")
		g.nlab++
		l := fmt.Sprintf("L%d", g.nlab)
		i := g.fresh("i")
		return l + ":\nfor " + i + " := 0; " + i + " < 3; " + i + "++ {\nfor {\nif " + g.be(1) + " {\ncontinue " + l + "\n}\n" + g.stmt(l) + "\nbreak " + l + "\n}\n}"
	case 33:
		g.hit("goto")
		g.nlab++
		l := fmt.Sprintf("G%d", g.nlab)
		return g.pick(
			"{\ngoto "+l+"\n"+l+":\n"+g.simple(1)+"\n}",
			"{\n"+l+":\na++\nif a < "+g.ie(1)+" {\ngoto "+l+"\n}\n}",
			l+":\n{\nif a > 100 {\ngoto "+l+"\n}\n}",
		)
	case 34:
		g.hit("defer_go")
		return g.pick("defer func() {\nrecover()\n}()", "go t.f("+g.ie(1)+")", "defer t.Run(1, 2)", "go func(x int) {\n_ = x\n}("+g.ie(1)+")")
	case 35:
		g.hit("decl_stmt")
		x, y := g.fresh("x"), g.fresh("y")
		return g.pick(
			"var "+x+", "+y+" int = "+g.ie(1)+", "+g.ie(1)+"\n_, _ = "+x+", "+y,
			"const (\n"+x+" = iota\n"+y+"\n)\n_ = "+x+" + "+y,
			"type "+x+" struct {\na int \"t\"\nb, c string `k:\"v\"`\n}\n_ = "+x+"{a: "+g.ie(1)+"}",
			"var (\n"+x+" <-chan int = ch\n"+y+" = [...]string{2: \"x\"}\n)\n_, _ = "+x+", "+y,
			"type "+x+" = List[Pair[string, int]]\nvar "+y+" "+x+"\n_ = "+y,
			"var "+x+" func(int, ...string) (n int, err error)\n_ = "+x,
		)
	case 36:
		g.hit("block")
		return g.block(n, loop)
	case 39:
		g.hit("header_exprlev")
		v := g.fresh("v")
		return g.pick(
			"if m2[K{1, 2}] == "+g.ie(1)+" "+g.block(1, loop),
			"if m2[K{a: "+g.ie(1)+"}] > 0 && pk(K{}, K{1, 2}) "+g.block(1, loop),
			"switch m2[K{}] {\ncase 1:\n}",
			"switch "+v+" := m2[K{1, 2}]; {\ncase "+v+" > 0:\n}",
			"for "+v+" := range mm[K{1, 2}] {\n_ = "+v+"\n}",
			"for "+v+" := range mm[K{}][\"k\"] {\n_ = "+v+"\n}",
			"for m2[K{b: 1}] < "+g.ie(1)+" {\nbreak\n}",
			"for "+v+" := m2[K{}]; "+v+" < len([]int{1, 2}); "+v+" += m2[K{1, 1}] {\n}",
			"if (K{1, 2}) == (K{}) "+g.block(1, loop),
			"if pk(K{1, 2}) "+g.block(1, loop),
			"if "+v+" := (K{"+g.ie(1)+", 2}); "+v+".a > 0 "+g.block(1, loop),
			"for _, "+v+" := range []K{{1, 2}, {}} {\n_ = "+v+"\n}",
			"for _, "+v+" := range [...]func() int{func() int { return 1 }} {\n_ = "+v+"()\n}",
			"if func() bool { return m2[K{}] > 0 }() "+g.block(1, loop),
			"switch func() K { return K{} }().a {\ncase 0:\n}",
			"if "+v+", ok := any.(K); ok && "+v+" == (K{}) "+g.block(1, loop),
			"if xs[1:2:3][0] > xs[:2][0] "+g.block(1, loop),
			"for xs[a&1:][0] < len(xs[:a&1:2]) {\nbreak\n}",
			"switch "+v+" := any.(type) {\ncase K:\n_ = m2["+v+"]\ncase map[K]int:\n_ = "+v+"[K{}]\n}",
			"if len(map[K]int{{1, 2}: 3}) > 0 "+g.block(1, loop),
			"if _, ok := (map[K]int{})[K{}]; !ok "+g.block(1, loop),
			"for range ([]int{1}) {\n}",
			"if struct{ x int }{1}.x > 0 "+g.block(1, loop)+" else if (struct{}{}) == struct{}{} {\n}",
		)
	case 37:
		if loop != "" {
			g.hit("break_continue")
			if loop != "-" && g.r.Bool() {
				return "if " + g.be(1) + " {\n" + g.pick("break ", "continue ") + loop + "\n}"
			}
			return "if " + g.be(1) + " {\n" + g.pick("break", "continue") + "\n}"
		}
		return g.simple(d)
	case 38:
		g.hit("return")
		return "if " + g.be(1) + " {\nreturn " + g.ie(d) + ", nil\n}"
	}
	return g.simple(d)
}

func (g *gen) simple(d int) string {
	switch g.r.Intn(34) {
	case 0:
		return "a = " + g.ie(d)
	case 1:
		return "a, r = " + g.ie(d) + ", " + g.ie(d)
	case 2:
		v := g.fresh("v")
		return v + " := " + g.ie(d) + "\n_ = " + v
	case 3:
		return "a " + g.pick("+=", "-=", "*=", "|=", "&=", "^=", "&^=", "<<=", ">>=") + " " + g.pick("1", "3")
	case 4:
		return g.pick("a++", "t.a--", "xs[0]++", "t.p.b["+g.idx(1)+"]++", "m[b]--", "g.e.x++")
	case 5:
		return "xs[" + g.idx(d) + "] = " + g.ie(d)
	case 6:
		return "m[" + g.se(1) + "] = " + g.ie(d)
	case 7:
		return "*(&a) = " + g.ie(d)
	case 8:
		return "g.e.x, g.e.y = " + g.ie(1) + ", " + g.ie(1)
	case 9:
		g.hit("send")
		return g.pick("ch", "t.ch", "g.p.ch") + " <- " + g.ie(d)
	case 10:
		return "<-ch"
	case 11:
		g.hit("call_stmt")
		return g.pick("t.f(", "g.p.f(", "get(1).Run(", "t.get(0).get(1).Run(", "println(", "Sum(", "Sum[int](", "run(t.f); t.Run(") + g.ie(d) + ")"
	case 12:
		return "(t.f)(" + g.ie(d) + ")"
	case 13:
		return "*t = T{a: " + g.ie(d) + ", b: []int{" + g.ie(1) + "}, Rect: Rect{1, 2}}"
	case 14:
		g.hit("funclit")
		return "func() {\n" + g.simple(1) + "\n}()"
	case 15:
		g.hit("complit")
		return "_ = " + g.pick(
			"map[string][]int{\"a\": {1}, \"b\": nil}",
			"Pair[string, int]{Key: "+g.se(1)+", Val: "+g.ie(1)+"}",
			"&T{a: "+g.ie(1)+", p: &T{}, e: struct{ x, y int }{1, 2}}",
			"[...]string{2: \"x\", \"y\"}",
			"struct{ x int }{"+g.ie(1)+"}",
			"[]Pair[int, string]{{1, \"a\"}, {Key: 2}}",
			"[][]int{{1, 2}, {}, nil}",
			"[]*T{{a: 1}, nil}",
			"map[Pair[int, int]]struct{}{{1, 2}: {}}",
		)
	case 16:
		g.hit("slice")
		return "_ = " + g.pick("xs["+g.idx(1)+":]", "xs[:"+g.idx(1)+"]", "xs["+g.idx(1)+":"+g.idx(1)+":"+g.idx(1)+"]", "xs[:]", "b[1:]", "xs[:"+g.idx(1)+":"+g.idx(1)+"]")
	case 17:
		g.hit("typeassert")
		v, ok := g.fresh("v"), g.fresh("ok")
		return v + ", " + ok + " := any.(Shape)\n_, _ = " + v + ", " + ok
	case 18:
		g.hit("conversion")
		return "_ = " + g.pick("[]byte("+g.se(1)+")", "(*T)(nil)", "(func(int) int)(nil)", "(chan<- int)(nil)", "(<-chan int)(ch)", "[]rune("+g.se(1)+")", "Color("+g.ie(1)+")", "interface{}("+g.ie(1)+")", "(interface{ Area() float64 })(sh)", "map[string]int(nil)", "[]int(nil)", "(*[2]int)(xs)")
	case 19:
		g.hit("generic_inst")
		return g.pick(
			"_ = Map[int, string](xs, func(i int) string { return "+g.se(1)+" })",
			"_ = Map(xs, func(i int) int { return i })",
			"{\nvar lx List[int]\n_, _ = lx, Pair[string, List[int]]{}\n}",
			"(&Pair[string, int]{}).Set("+g.se(1)+", "+g.ie(1)+")",
			"_ = Sum[float64]",
			"_ = (*List[Pair[int, string]]).Len",
		)
	case 20:
		x, s, e := g.fresh("x"), g.fresh("s"), g.fresh("e")
		return x + ", " + s + ", " + e + " := mk()\n_, _, _ = " + x + ", " + s + ", " + e
	case 21:
		return "_, b, err = mk()"
	case 22:
		return "if " + g.be(d) + " {\n}"
	case 23:
		g.hit("index_stmt_start")
		return g.pick("[]int{1}[0]++", "map[string]int{}[\"a\"]++", "[]func(){func() {}}[0]()", "struct{ f func() }{func() {}}.f()", "(*t).a = 1", "(t).p.a = 2", "(&[2]int{})[1]++; _ = a")
	case 24:
		return "_ = " + g.be(d)
	case 25:
		return "_ = " + g.fe(d)
	case 26:
		return "b = " + g.se(d)
	case 27:
		return "b += " + g.se(1)
	case 28:
		return "t.f = func(x int) int { return x }"
	case 29:
		g.hit("chan_types")
		x := g.fresh("c")
		return "var " + x + " " + g.pick("chan<- chan int", "<-chan (<-chan int)", "chan (<-chan int)", "chan<- func()", "<-chan chan<- int", "map[string]chan<- int", "[]<-chan int", "func(<-chan int) chan<- int") + "\n_ = " + x
	case 30:
		return "_ = " + g.pick("'a'", "'\\n'", "'\\x41'", "'\\u00e9'", "1i", "2.5i", "0x1p4", "1e-3", "`a\nb`", "\"\\\"\"", "'\\''")
	case 31:
		return "any = " + g.pick("a", "b", "t", "nil", "sh", "xs", "func() {}", "struct{}{}", "[0]int{}")
	case 32:
		return "_ = &a\n_ = *t.p\n_ = -a - -r\n_ = a - +r\n_ = ^a ^ ^r\n_ = a & ^r\n_ = a &^ r\n_ = !(a < r) == !true"
	}
	return ";"
}

// ---- top level ---------------------------------------------------------------

func (g *gen) topDecl() string {
	n := g.fresh("D")
	switch g.r.Intn(12) {
	case 0:
		g.hit("top_var")
		return "var (\n" + n + "a, " + n + "b = 1, \"s\"\n" + n + "c []int\n" + n + "d = map[string]int{\"a\": 1}\n)"
	case 1:
		g.hit("top_type_group")
		return "type (\n" + n + "A = int\n" + n + "B []" + n + "A\n" + n + "C func(" + n + "A, ...string) (" + n + "B, error)\n)"
	case 2:
		g.hit("top_generic_type")
		return "type " + n + "[T interface{ "+g.tl()+"int | "+g.tl()+"string }, U any] []T\n\nfunc (x " + n + "[T, U]) Len() int { return len(x) }"
	case 3:
		g.hit("top_iface")
		return "type " + n + " interface {\nShape\ncomparable\n"+g.tl()+"int | "+g.tl()+"string\nM(x, y int, _ ...string) (r float64)\n}"
	case 4:
		g.hit("top_iota")
		return "const (\n" + n + "a = iota + 1\n" + n + "b\n_\n" + n + "c, " + n + "d = iota, -iota\n" + n + "e uint8 = 1 << iota\n)"
	case 5:
		g.hit("top_struct_tags")
		return "type " + n + " struct {\nA, B int `json:\"a,omitempty\" yaml:\"b\"`\n*T \"embedded ptr\"\nPair[string, int] `k:\"v\"`\nf func(int) (int, error)\n_ [4]byte\n}"
	case 6:
		g.hit("top_method")
		return "type " + n + " []int\n\nfunc (" + n + ") M0()        {}\nfunc (_ *" + n + ") M1(int) {}\nfunc (x " + n + ") M2() (n int, _ error) { return len(x), nil }"
	case 7:
		g.hit("top_generic_func")
		return "func " + n + "[K comparable, V int | float64, S interface{ "+g.tl()+"[]V }](m map[K]S, k K, f func(V) bool) (r V) {\nfor _, v := range m[k] {\nif f(v) {\nr += v\n}\n}\nreturn\n}"
	case 8:
		g.hit("top_func_types")
		return "var " + n + " = func(f func(func(int) int) func() int, xs ...[]int) (<-chan int, chan<- int) {\nreturn nil, nil\n}"
	case 9:
		g.hit("top_alias_arrays")
		return "type " + n + " = [4][2]*[]map[[2]int]func() [3]chan int"
	case 10:
		g.hit("top_const_typed")
		return "const " + n + " float64 = 1 << 3 / 2.0\n\nvar _ = complex(" + n + ", 1) + 'a'*1i - 0x10p-2"
	}
	g.hit("top_empty_iface")
	return "type " + n + " interface{}\n\ntype " + n + "s struct{}\n\nvar _ " + n + " = " + n + "s{}"
}

func genProgram(r *vh.Rand, feat map[string]int) string {
	g := &gen{r: r, feat: feat}
	g.b.WriteString(preludeHead)
	if r.Chance(8) {
		g.tilde = true
		g.hit("tilde_constraint")
		g.b.WriteString(tildeNum)
	} else {
		g.b.WriteString(plainNum)
	}
	g.b.WriteString(prelude)
	nd := 1 + r.Intn(3)
	for i := 0; i < nd; i++ {
		g.b.WriteString("\n" + g.topDecl() + "\n")
	}
	nf := 1 + r.Intn(3)
	for i := 0; i < nf; i++ {
		fmt.Fprintf(&g.b, "\nfunc f%d(a int, b string, xs []int, m map[string]int, ch chan int, t *T, sh Shape, any interface{}) (r int, err error) {\n", i)
		ns := 2 + r.Intn(10)
		for j := 0; j < ns; j++ {
			g.b.WriteString(g.stmt(""))
			g.b.WriteString("\n")
		}
		g.b.WriteString("return " + g.ie(2) + ", err\n}\n")
	}
	return g.b.String()
}
