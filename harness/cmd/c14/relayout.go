package main

// Layout mutator: re-emits the token sequence of a valid Go file with random NON-gofmt
// layout (blanks before '(' '[' '{', no blanks around operators, newlines inside
// expressions, comments between any two tokens, explicit ';').  The token sequence as seen
// by go/scanner is preserved (verified by re-scanning), hence the go/parser tree is the same
// up to positions and the file stays type-correct.

import (
	"bytes"
	goscanner "go/scanner"
	gotoken "go/token"

	"verifharness/vh"
)

type gtok struct {
	tok gotoken.Token
	lit string
	off int
}

func goTokens(src []byte, comments bool) (toks []gtok, ok bool) {
	ok = true
	fset := gotoken.NewFileSet()
	f := fset.AddFile("", -1, len(src))
	var s goscanner.Scanner
	mode := goscanner.Mode(0)
	if comments {
		mode = goscanner.ScanComments
	}
	s.Init(f, src, func(gotoken.Position, string) { ok = false }, mode)
	for {
		pos, tok, lit := s.Scan()
		if tok == gotoken.EOF {
			return
		}
		toks = append(toks, gtok{tok, lit, f.Offset(pos)})
	}
}

func text(t gtok) string {
	if t.tok == gotoken.SEMICOLON {
		return ";"
	}
	if t.lit != "" {
		return t.lit
	}
	return t.tok.String()
}

// semiAfter: a newline after this token makes the scanner insert a semicolon.
func semiAfter(t gotoken.Token) bool {
	switch t {
	case gotoken.IDENT, gotoken.INT, gotoken.FLOAT, gotoken.IMAG, gotoken.CHAR, gotoken.STRING,
		gotoken.BREAK, gotoken.CONTINUE, gotoken.FALLTHROUGH, gotoken.RETURN,
		gotoken.INC, gotoken.DEC, gotoken.RPAREN, gotoken.RBRACK, gotoken.RBRACE:
		return true
	}
	return false
}

func isBracketish(t gotoken.Token) bool {
	switch t {
	case gotoken.LPAREN, gotoken.RPAREN, gotoken.LBRACK, gotoken.RBRACK, gotoken.LBRACE, gotoken.RBRACE,
		gotoken.COMMA, gotoken.SEMICOLON:
		return true
	}
	return false
}

// layout profiles (percent chances)
type profile struct {
	glue, blank, newline, comment, explicitSemi int
	name                                        string
}

var profiles = []profile{
	{glue: 60, blank: 25, newline: 5, comment: 5, explicitSemi: 10, name: "dense"},
	{glue: 10, blank: 60, newline: 15, comment: 10, explicitSemi: 20, name: "airy"},
	{glue: 30, blank: 30, newline: 30, comment: 25, explicitSemi: 50, name: "wild"},
	{glue: 90, blank: 5, newline: 0, comment: 0, explicitSemi: 90, name: "oneline"},
}

var blanks = []string{" ", "  ", "\t", " \t "}
var gcomments = []string{"/*c*/", " /* x (y) [z] */ ", "/**/", "/* a\tb */"}

// ways a file may end after its last token (an automatic semicolon is inserted at EOF too)
var fileEndings = []string{
	"\n", "\n", "", " ", " \t ", "/*c*/", " /* c */ /*d*/", " /* c */ \t", "//c", " // c (x)", "\r\n", "\n\n  \n", "\n/* end */", "\n// end",
	"/* multi\nline */", " /*a*/\n",
}

func lineEndings(r *vh.Rand, p profile) []string {
	if !r.Chance(p.comment + 10) {
		return []string{"\n", "\n", "\n", "\r\n", " \n", "\t\r\n"}
	}
	return []string{
		" // c (x) [y] {z}\n", "/*c*/\n", " /*a*/ /*b*/\n", " /* a */\t/* b */ // c\n", "/* multi\nline */", " /* multi\n line */ /* more */\n",
		" /*c*/\r\n", "//\n", "/**/\n",
	}
}

// relayout returns a new text with the same go/scanner token sequence, or nil.
func relayout(src []byte, r *vh.Rand, p profile) []byte {
	toks, ok := goTokens(src, false)
	if !ok || len(toks) == 0 {
		return nil
	}
	var b bytes.Buffer
	if r.Chance(5) {
		b.WriteString("\xef\xbb\xbf") // a byte order mark is permitted as the first character
	}
	for i, t := range toks {
		auto := t.tok == gotoken.SEMICOLON && t.lit == "\n"
		if auto {
			// an automatically inserted semicolon: keep a newline, or make it explicit
			if r.Chance(p.explicitSemi) {
				b.WriteString(";")
				if !r.Chance(p.glue) {
					b.WriteString(sepAfter(r, p, true))
				}
			} else if i+1 == len(toks) {
				// the semicolon inserted at the end of the file: every way a file may end
				b.WriteString(r.Pick(fileEndings))
			} else {
				// the end of a line: comments (also several, also a multi-line one, which itself
				// ends the line) between the last token and the line break; LF or CRLF
				b.WriteString(r.Pick(lineEndings(r, p)))
				if r.Chance(p.blank) {
					b.WriteString(r.Pick(blanks))
				}
			}
			continue
		}
		b.WriteString(text(t))
		if i+1 == len(toks) {
			b.WriteString(r.Pick(fileEndings))
			break
		}
		n := toks[i+1]
		if n.tok == gotoken.SEMICOLON && n.lit == "\n" {
			continue // separator decided when the semicolon is emitted
		}
		canGlue := isBracketish(t.tok) || isBracketish(n.tok)
		nlOK := !semiAfter(t.tok)
		if canGlue && r.Chance(p.glue) {
			continue
		}
		b.WriteString(sepAfter(r, p, nlOK))
	}
	out := b.Bytes()
	// verify: identical token sequence (auto and explicit semicolons alike)
	nt, ok2 := goTokens(out, false)
	if !ok2 || len(nt) != len(toks) {
		return nil
	}
	for i := range nt {
		if nt[i].tok != toks[i].tok || (nt[i].tok != gotoken.SEMICOLON && nt[i].lit != toks[i].lit) {
			return nil
		}
	}
	return out
}

// sepAfter returns a non-empty separator; newlines only if nlOK.
func sepAfter(r *vh.Rand, p profile, nlOK bool) string {
	s := ""
	if r.Chance(p.comment) {
		s += r.Pick(gcomments)
	}
	if nlOK && r.Chance(p.newline) {
		if r.Chance(p.comment) {
			s += " // lc"
		}
		s += "\n"
		if r.Chance(50) {
			s += r.Pick(blanks)
		}
	} else if s == "" || r.Chance(p.blank) {
		s += r.Pick(blanks)
	}
	return s
}

// blankBefore inserts one blank before the k-th occurrence (mod count) of '(' '[' or '{' that
// directly follows an identifier: the minimal non-gofmt change.
func blankBefore(src []byte, r *vh.Rand) []byte {
	toks, ok := goTokens(src, false)
	if !ok {
		return nil
	}
	var cand []int
	for i := 1; i < len(toks); i++ {
		switch toks[i].tok {
		case gotoken.LPAREN, gotoken.LBRACK, gotoken.LBRACE:
			if toks[i-1].tok == gotoken.IDENT && toks[i-1].off+len(toks[i-1].lit) == toks[i].off {
				cand = append(cand, toks[i].off)
			}
		case gotoken.SUB, gotoken.MUL, gotoken.AND, gotoken.ARROW, gotoken.XOR, gotoken.ADD:
			// "x - y" -> "x -y": blank before a binary operator glued to its right operand
			if toks[i-1].tok == gotoken.IDENT && i+1 < len(toks) &&
				toks[i].off > toks[i-1].off+len(toks[i-1].lit) &&
				toks[i+1].off == toks[i].off+len(toks[i].tok.String())+1 && src[toks[i+1].off-1] == ' ' {
				cand = append(cand, -toks[i+1].off) // negative: delete the blank before this offset
			}
		}
	}
	if len(cand) == 0 {
		return nil
	}
	k := 1 + r.Intn(4)
	out := append([]byte{}, src...)
	// apply from the back so offsets stay valid
	picks := map[int]bool{}
	for j := 0; j < k; j++ {
		picks[cand[r.Intn(len(cand))]] = true
	}
	for i := len(cand) - 1; i >= 0; i-- {
		c := cand[i]
		if !picks[c] {
			continue
		}
		if c >= 0 {
			out = append(out[:c], append([]byte{' '}, out[c:]...)...)
		} else {
			c = -c
			out = append(out[:c-1], out[c:]...)
		}
	}
	return out
}
