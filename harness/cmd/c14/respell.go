package main

// Literal-respelling mutation: every number, rune and string literal of a valid Go file may be
// replaced by another spelling of the SAME value (judge: go/scanner + go/constant + strconv):
// upper/lower-case base prefixes 0X 0B 0O, legacy octal, '_' separators in every legal position
// (also right after the prefix), hex floats with p/P exponents, upper-case E, imaginary suffix,
// rune and string escapes (\x \u \U octal, simple escapes), raw vs interpreted strings.
// gofmt-ed corpora never contain most of these spellings.

import (
	"bytes"
	"fmt"
	"go/constant"
	gotoken "go/token"
	"math/big"
	"strconv"
	"strings"
	"unicode/utf8"

	"verifharness/vh"
)

func underscores(digits string, r *vh.Rand, afterPrefix bool) string {
	// insert '_' between digits (and, if afterPrefix, possibly in front: the prefix counts as a digit)
	var b strings.Builder
	if afterPrefix && r.Chance(40) {
		b.WriteByte('_')
	}
	for i := 0; i < len(digits); i++ {
		b.WriteByte(digits[i])
		if i+1 < len(digits) && r.Chance(30) {
			b.WriteByte('_')
		}
	}
	return b.String()
}

func caseMix(s string, r *vh.Rand) string {
	switch r.Intn(3) {
	case 0:
		return strings.ToUpper(s)
	case 1:
		return strings.ToLower(s)
	}
	b := []byte(s)
	for i := range b {
		if r.Bool() {
			b[i] = strings.ToUpper(string(b[i]))[0]
		}
	}
	return string(b)
}

func respellInt(lit string, r *vh.Rand) string {
	v := constant.MakeFromLiteral(lit, gotoken.INT, 0)
	if v.Kind() != constant.Int {
		return ""
	}
	n, ok := new(big.Int).SetString(v.ExactString(), 10)
	if !ok || n.Sign() < 0 {
		return ""
	}
	switch r.Intn(6) {
	case 0: // decimal
		return underscores(n.Text(10), r, false)
	case 1, 2: // hex, any case of prefix and digits
		return "0" + r.Pick([]string{"x", "X"}) + underscores(caseMix(n.Text(16), r), r, true)
	case 3: // 0o / 0O
		return "0" + r.Pick([]string{"o", "O"}) + underscores(n.Text(8), r, true)
	case 4: // legacy octal
		return "0" + underscores(n.Text(8), r, true)
	}
	if n.BitLen() > 24 {
		return "0" + r.Pick([]string{"x", "X"}) + underscores(caseMix(n.Text(16), r), r, true)
	}
	return "0" + r.Pick([]string{"b", "B"}) + underscores(n.Text(2), r, true)
}

func respellFloat(lit string, r *vh.Rand) string {
	low := strings.ToLower(lit)
	if strings.HasPrefix(low, "0x") {
		// hex float: case of x, p and digits; separators in the mantissa digits
		i := strings.IndexByte(low, 'p')
		if i < 0 {
			return ""
		}
		mant, exp := strings.ReplaceAll(low[2:i], "_", ""), strings.ReplaceAll(low[i+1:], "_", "")
		if j := strings.IndexByte(mant, '.'); j >= 0 {
			mant = underscores(caseMix(mant[:j], r), r, j > 0) + "." + underscores(caseMix(mant[j+1:], r), r, false)
			if strings.HasPrefix(mant, "_.") || strings.HasPrefix(mant, ".") {
				mant = strings.TrimPrefix(mant, "_")
			}
		} else {
			mant = underscores(caseMix(mant, r), r, true)
		}
		sign := ""
		if exp != "" && (exp[0] == '+' || exp[0] == '-') {
			sign, exp = exp[:1], exp[1:]
		}
		return "0" + r.Pick([]string{"x", "X"}) + mant + r.Pick([]string{"p", "P"}) + sign + underscores(exp, r, false)
	}
	if r.Chance(35) {
		// decimal -> hex float when the value is a dyadic rational
		v := constant.MakeFromLiteral(lit, gotoken.FLOAT, 0)
		if f, ok := constant.Float64Val(v); ok || f != 0 {
			bf := new(big.Float).SetPrec(200)
			if _, _, err := bf.Parse(strings.ReplaceAll(low, "_", ""), 10); err == nil {
				s := bf.Text('p', -1) // 0x1.8p+00
				if i := strings.IndexByte(s, 'p'); i > 0 && len(s) < 40 {
					return "0" + r.Pick([]string{"x", "X"}) + caseMix(s[2:i], r) + r.Pick([]string{"p", "P"}) + s[i+1:]
				}
			}
		}
	}
	// decimal: case of e, separators in digit runs, "1.0" <-> "1."
	var b strings.Builder
	run := ""
	flush := func() {
		if run != "" {
			b.WriteString(underscores(run, r, false))
			run = ""
		}
	}
	for i := 0; i < len(low); i++ {
		c := low[i]
		switch {
		case c >= '0' && c <= '9':
			run += string(c)
		case c == '_':
		case c == 'e':
			flush()
			b.WriteString(r.Pick([]string{"e", "E"}))
		default:
			flush()
			b.WriteByte(c)
		}
	}
	flush()
	return b.String()
}

func respellImag(lit string, r *vh.Rand) string {
	body := strings.TrimSuffix(lit, "i")
	low := strings.ToLower(body)
	if strings.ContainsAny(low, ".ep") && !strings.HasPrefix(low, "0x") || strings.Contains(low, "p") {
		if s := respellFloat(body, r); s != "" {
			return s + "i"
		}
		return ""
	}
	if strings.HasPrefix(low, "0x") || strings.HasPrefix(low, "0b") || strings.HasPrefix(low, "0o") {
		if s := respellInt(body, r); s != "" {
			return s + "i"
		}
		return ""
	}
	// decimal digits (a leading 0 is decimal in an imaginary literal, for backward compatibility)
	d := strings.ReplaceAll(low, "_", "")
	return underscores(d, r, false) + "i"
}

func escRune(c rune, r *vh.Rand, quote byte) string {
	switch r.Intn(7) {
	case 0:
		if c < 256 {
			return fmt.Sprintf("\\x%s", caseMix(fmt.Sprintf("%02x", c), r))
		}
	case 1:
		if c < 0x10000 && (c < 0xD800 || c > 0xDFFF) {
			return "\\u" + caseMix(fmt.Sprintf("%04x", c), r)
		}
	case 2:
		if c < 0xD800 || (c > 0xDFFF && c <= 0x10FFFF) {
			return "\\U" + caseMix(fmt.Sprintf("%08x", c), r)
		}
	case 3:
		if c < 256 {
			return fmt.Sprintf("\\%03o", c)
		}
	}
	switch c {
	case '\a':
		return `\a`
	case '\b':
		return `\b`
	case '\f':
		return `\f`
	case '\n':
		return `\n`
	case '\r':
		return `\r`
	case '\t':
		return `\t`
	case '\v':
		return `\v`
	case '\\':
		return `\\`
	case rune(quote):
		return "\\" + string(quote)
	}
	if c < 0x20 || c == 0x7f || c == utf8.RuneError || c > 0x10FFFF || (c >= 0xD800 && c <= 0xDFFF) {
		if c < 256 {
			return fmt.Sprintf("\\x%02x", c)
		}
		return fmt.Sprintf("\\U%08x", c)
	}
	return string(c)
}

func respellChar(lit string, r *vh.Rand) string {
	s, err := strconv.Unquote(lit)
	if err != nil {
		return ""
	}
	c, _ := utf8.DecodeRuneInString(s)
	if len(s) == 1 && s[0] >= 0x80 { // '\x80': a rune value given as a byte escape
		c = rune(s[0])
	}
	return "'" + escRune(c, r, '\'') + "'"
}

func respellString(lit string, r *vh.Rand) string {
	val, err := strconv.Unquote(lit)
	if err != nil || len(val) > 300 {
		return ""
	}
	if r.Chance(30) && !strings.ContainsAny(val, "`\r") && utf8.ValidString(val) {
		return "`" + val + "`"
	}
	var b strings.Builder
	b.WriteByte('"')
	for i := 0; i < len(val); {
		c, n := utf8.DecodeRuneInString(val[i:])
		if c == utf8.RuneError && n == 1 || r.Chance(15) {
			// byte-wise: \xNN or octal
			for j := 0; j < n; j++ {
				if r.Bool() {
					fmt.Fprintf(&b, "\\x%s", caseMix(fmt.Sprintf("%02x", val[i+j]), r))
				} else {
					fmt.Fprintf(&b, "\\%03o", val[i+j])
				}
			}
		} else if r.Chance(35) || c == '"' || c == '\\' || c < 0x20 || c == 0x7f {
			if c >= 0x80 && c < 256 {
				// \xNN would be a byte, not the rune: use \u
				b.WriteString("\\u" + fmt.Sprintf("%04x", c))
			} else {
				b.WriteString(escRune(c, r, '"'))
			}
		} else {
			b.WriteRune(c)
		}
		i += n
	}
	b.WriteByte('"')
	return b.String()
}

func sameValue(tok gotoken.Token, a, b string) bool {
	switch tok {
	case gotoken.STRING:
		x, e1 := strconv.Unquote(a)
		y, e2 := strconv.Unquote(b)
		return e1 == nil && e2 == nil && x == y
	case gotoken.CHAR:
		x := constant.MakeFromLiteral(a, tok, 0)
		y := constant.MakeFromLiteral(b, tok, 0)
		return x.Kind() == constant.Int && y.Kind() == constant.Int && constant.Compare(x, gotoken.EQL, y)
	}
	x := constant.MakeFromLiteral(a, tok, 0)
	y := constant.MakeFromLiteral(b, tok, 0)
	if x.Kind() == constant.Unknown || y.Kind() == constant.Unknown {
		return false
	}
	return constant.Compare(x, gotoken.EQL, y)
}

// respell returns a text in which about pct percent of the literals are spelt differently
// (same token kinds, same values), or nil if nothing changed / the result is not accepted.
func respell(src []byte, r *vh.Rand, pct int) ([]byte, int) {
	toks, ok := goTokens(src, false)
	if !ok {
		return nil, 0
	}
	var out bytes.Buffer
	last, changed := 0, 0
	for _, t := range toks {
		var alt string
		if !r.Chance(pct) {
			continue
		}
		switch t.tok {
		case gotoken.INT:
			alt = respellInt(t.lit, r)
		case gotoken.FLOAT:
			alt = respellFloat(t.lit, r)
		case gotoken.IMAG:
			alt = respellImag(t.lit, r)
		case gotoken.CHAR:
			alt = respellChar(t.lit, r)
		case gotoken.STRING:
			alt = respellString(t.lit, r)
		default:
			continue
		}
		if alt == "" || alt == t.lit || !sameValue(t.tok, t.lit, alt) {
			continue
		}
		// the candidate must scan as exactly one token of the same kind
		at, aok := goTokens([]byte(alt), false)
		if !aok || len(at) == 0 || at[0].tok != t.tok || at[0].lit != alt || (len(at) > 1 && !(len(at) == 2 && at[1].tok == gotoken.SEMICOLON)) {
			continue
		}
		out.Write(src[last:t.off])
		out.WriteString(alt)
		last = t.off + len(t.lit)
		changed++
	}
	if changed == 0 {
		return nil, 0
	}
	out.Write(src[last:])
	res := out.Bytes()
	nt, ok2 := goTokens(res, false)
	if !ok2 || len(nt) != len(toks) {
		return nil, 0
	}
	for i := range nt {
		if nt[i].tok != toks[i].tok {
			return nil, 0
		}
	}
	return res, changed
}
