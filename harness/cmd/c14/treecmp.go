package main

// Structural comparison of a go/ast tree with an XGo ast tree, driven by the go/ast types
// (reflection): shape, identifiers, literals, operators; positions, comments, scopes and
// objects are ignored.  The first difference is reported with the byte offset of the
// innermost enclosing go/ast statement (or declaration).

import (
	"fmt"
	goast "go/ast"
	gotoken "go/token"
	"reflect"

	xtoken "github.com/goplus/xgo/token"
)

var (
	goPosType  = reflect.TypeOf(gotoken.Pos(0))
	goTokType  = reflect.TypeOf(gotoken.Token(0))
	xTokType   = reflect.TypeOf(xtoken.Token(0))
	goCGType   = reflect.TypeOf((*goast.CommentGroup)(nil))
	goObjType  = reflect.TypeOf((*goast.Object)(nil))
	goScpType  = reflect.TypeOf((*goast.Scope)(nil))
	goStmtType = reflect.TypeOf((*goast.Stmt)(nil)).Elem()
	goDeclType = reflect.TypeOf((*goast.Decl)(nil)).Elem()
)

// position fields whose validity is part of the shape
var posShape = map[string]bool{
	"CallExpr.Ellipsis": true, // f(xs...)
	"GenDecl.Lparen":    true, // grouped declaration
	"TypeSpec.Assign":   true, // alias
}

// fields of go/ast nodes that are not syntax (or are derived)
var skipField = map[string]bool{
	"File.Imports": true, "File.Unresolved": true, "File.Comments": true, "File.GoVersion": true,
	"File.Scope": true, "Ident.Obj": true,
}

type diff struct {
	what string
	off  int // offset (go/ast positions) of the innermost enclosing statement/declaration; -1 unknown
}

type cmpCtx struct {
	fset   *gotoken.FileSet
	anchor []goast.Node
}

func (c *cmpCtx) here() int {
	if n := len(c.anchor); n > 0 {
		return c.fset.Position(c.anchor[n-1].Pos()).Offset
	}
	return -1
}

func (c *cmpCtx) fail(format string, a ...interface{}) *diff {
	return &diff{fmt.Sprintf(format, a...), c.here()}
}

// cmp compares go/ast value g with XGo value x.
func (c *cmpCtx) cmp(g, x reflect.Value, path string) *diff {
	switch g.Kind() {
	case reflect.Interface:
		if x.Kind() != reflect.Interface {
			return c.fail("%s: kind %v vs %v", path, g.Kind(), x.Kind())
		}
		if g.IsNil() || x.IsNil() {
			if g.IsNil() != x.IsNil() {
				return c.fail("%s: nil %v vs %v", path, g.IsNil(), x.IsNil())
			}
			return nil
		}
		return c.cmp(g.Elem(), x.Elem(), path)
	case reflect.Ptr:
		if x.Kind() != reflect.Ptr {
			return c.fail("%s: kind ptr vs %v", path, x.Kind())
		}
		if g.IsNil() || x.IsNil() {
			if g.IsNil() != x.IsNil() {
				return c.fail("%s: nil %v vs %v", path, g.IsNil(), x.IsNil())
			}
			return nil
		}
		gt, xt := g.Type().Elem(), x.Type().Elem()
		if gt.Name() != xt.Name() {
			return c.fail("%s: node %s vs %s", path, gt.Name(), xt.Name())
		}
		pushed := false
		if g.Type().Implements(goStmtType) || g.Type().Implements(goDeclType) {
			c.anchor = append(c.anchor, g.Interface().(goast.Node))
			pushed = true
		}
		d := c.cmp(g.Elem(), x.Elem(), path+"/"+gt.Name())
		if pushed {
			c.anchor = c.anchor[:len(c.anchor)-1]
		}
		return d
	case reflect.Struct:
		gt := g.Type()
		for i := 0; i < gt.NumField(); i++ {
			f := gt.Field(i)
			key := gt.Name() + "." + f.Name
			if skipField[key] || f.Type == goCGType || f.Type == goObjType || f.Type == goScpType {
				continue
			}
			xf := x.FieldByName(f.Name)
			if key == "SendStmt.Value" {
				// XGo generalises the send statement: Values []Expr (+ Ellipsis); a Go send has exactly one value
				vals, ell := x.FieldByName("Values"), x.FieldByName("Ellipsis")
				if !vals.IsValid() || vals.Len() != 1 || (ell.IsValid() && ell.Int() != 0) {
					return c.fail("%s: send statement values differ", path)
				}
				if d := c.cmp(g.Field(i), vals.Index(0), path+".Value"); d != nil {
					return d
				}
				continue
			}
			if f.Type == goPosType {
				if posShape[key] {
					if !xf.IsValid() {
						return c.fail("%s: XGo node lacks field %s", path, f.Name)
					}
					if (g.Field(i).Int() != 0) != (xf.Int() != 0) {
						return c.fail("%s.%s: presence %v vs %v", path, f.Name, g.Field(i).Int() != 0, xf.Int() != 0)
					}
				}
				continue
			}
			if !xf.IsValid() {
				// a go/ast field the XGo node does not have: only a difference if it is set
				if !g.Field(i).IsZero() {
					return c.fail("%s: XGo node lacks field %s", path, f.Name)
				}
				continue
			}
			if d := c.cmp(g.Field(i), xf, path+"."+f.Name); d != nil {
				return d
			}
		}
		return nil
	case reflect.Slice:
		if x.Kind() != reflect.Slice {
			return c.fail("%s: kind slice vs %v", path, x.Kind())
		}
		if g.Len() != x.Len() {
			// locate: compare the common prefix first so that the anchor is precise
			n := g.Len()
			if x.Len() < n {
				n = x.Len()
			}
			for i := 0; i < n; i++ {
				if d := c.cmp(g.Index(i), x.Index(i), fmt.Sprintf("%s[%d]", path, i)); d != nil {
					return d
				}
			}
			d := c.fail("%s: len %d vs %d", path, g.Len(), x.Len())
			if n < g.Len() {
				if nd, ok := g.Index(n).Interface().(goast.Node); ok && nd != nil && !reflect.ValueOf(nd).IsNil() {
					d.off = c.fset.Position(nd.Pos()).Offset
				}
			}
			return d
		}
		for i := 0; i < g.Len(); i++ {
			if d := c.cmp(g.Index(i), x.Index(i), fmt.Sprintf("%s[%d]", path, i)); d != nil {
				return d
			}
		}
		return nil
	case reflect.String:
		if x.Kind() != reflect.String || g.String() != x.String() {
			return c.fail("%s: %q vs %q", path, g.String(), fmt.Sprint(x.Interface()))
		}
		return nil
	case reflect.Bool:
		if x.Kind() != reflect.Bool || g.Bool() != x.Bool() {
			return c.fail("%s: %v vs %v", path, g.Interface(), x.Interface())
		}
		return nil
	case reflect.Int, reflect.Int8, reflect.Int16, reflect.Int32, reflect.Int64:
		if g.Type() == goTokType {
			if x.Type() != xTokType {
				return c.fail("%s: token vs %v", path, x.Type())
			}
			gs, xs := gotoken.Token(g.Int()).String(), xtoken.Token(x.Int()).String()
			if gs != xs {
				return c.fail("%s: token %s vs %s", path, gs, xs)
			}
			return nil
		}
		if !x.CanInt() || g.Int() != x.Int() {
			return c.fail("%s: %v vs %v", path, g.Interface(), x.Interface())
		}
		return nil
	case reflect.Map: // ast.Scope/Package maps never reached
		return nil
	}
	return c.fail("%s: unhandled kind %v", path, g.Kind())
}
