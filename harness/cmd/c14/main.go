// Harness for C14: valid Go files parse to the same tree with the XGo parser as with go/parser.
//
// (1) file level (the property oracle): every .go file of the tree under test and a GOROOT/src
//     sample, layout-mutated variants of them (same go/scanner token sequence, non-gofmt
//     layout) and generated, go/types-checked Go files are parsed by both parsers and the
//     trees compared structurally.  A difference is attributed to the command-style call
//     heuristic iff the XGo tree contains a command-style call (CallExpr.IsCommand) — the
//     known by-design deviation, reported under a key per trigger token; those sites are then
//     repaired (callee and next token made adjacent — the token sequence is unchanged) and the
//     file compared again until no site is left: any remaining difference is a violation.
// (2) statement level (correspondence of Model/CmdAmbig.lean): for sampled simple statements
//     the real parser's decision (command call taken at which token) is emitted next to the
//     real scanner's token list; the Lean driver answers the same question from the tokens.
package main

import (
	"fmt"
	goast "go/ast"
	goparser "go/parser"
	gotoken "go/token"
	gotypes "go/types"
	"os"
	"path/filepath"
	"reflect"
	"sort"
	"strings"

	xast "github.com/goplus/xgo/ast"
	xparser "github.com/goplus/xgo/parser"
	xscanner "github.com/goplus/xgo/scanner"
	xtoken "github.com/goplus/xgo/token"
	"verifharness/pgo"
	"verifharness/vh"
)

var out *vh.Out
var keySeen = map[string]int{}

// ---- XGo side --------------------------------------------------------------

type xres struct {
	f     *xast.File
	fset  *xtoken.FileSet
	err   error
	panic string
}

func parseX(src []byte, mode xparser.Mode) (r xres) {
	defer func() {
		if e := recover(); e != nil {
			r.panic = fmt.Sprint(e)
		}
	}()
	r.fset = xtoken.NewFileSet()
	r.f, r.err = xparser.ParseFile(r.fset, "x.go", src, mode)
	return
}

type site struct {
	funPos, funEnd int  // offsets of the callee
	funKind        string // node kind of the callee
	untrusted      bool // found after the first reported error (the tree is not faithful there)
}

func cmdSites(r xres) (sites []site) {
	if r.f == nil {
		return
	}
	defer func() { recover() }() // partial trees may hold invalid positions
	tf := r.fset.File(r.f.Pos())
	if tf == nil {
		r.fset.Iterate(func(f *xtoken.File) bool { tf = f; return false })
	}
	pgo.WalkNodes(reflect.ValueOf(r.f), func(n interface{}) {
		if c, ok := n.(*xast.CallExpr); ok && c.IsCommand() && c.Fun != nil {
			func() {
				defer func() { recover() }()
				sites = append(sites, site{funPos: tf.Offset(c.Fun.Pos()), funEnd: tf.Offset(c.Fun.End()),
					funKind: strings.TrimPrefix(reflect.TypeOf(c.Fun).String(), "*ast.")})
			}()
		}
	})
	sort.Slice(sites, func(i, j int) bool { return sites[i].funEnd < sites[j].funEnd })
	return
}

func nextTok(toks []pgo.Tok, off int) *pgo.Tok {
	i := sort.Search(len(toks), func(i int) bool { return toks[i].Pos >= off })
	if i < len(toks) {
		return &toks[i]
	}
	return nil
}

// siteKey: the recorded deviations are command calls whose callee is an identifier or a
// selector (isCmd also admits an ErrWrapExpr, which Go tokens cannot form); anything else
// gets its own key.
func siteKey(k xtoken.Token, funKind string) string {
	if funKind != "Ident" && funKind != "SelectorExpr" && funKind != "" {
		return "cmd-callee-" + funKind + "-" + pgo.KindName(k)
	}
	switch k {
	case xtoken.LPAREN:
		return "cmd-lparen"
	case xtoken.LBRACK:
		return "cmd-lbrack"
	case xtoken.LBRACE:
		return "cmd-lbrace"
	case xtoken.NOT:
		return "cmd-not"
	case xtoken.SUB, xtoken.AND, xtoken.MUL, xtoken.ARROW, xtoken.XOR, xtoken.ADD:
		return "cmd-glued-unary"
	}
	return "cmd-operand-" + pgo.KindName(k)
}

// ---- file level ------------------------------------------------------------

func fileCase(mode xparser.Mode, src []byte) string {
	return fmt.Sprintf("file\t%d\t%s", mode, vh.Hex(src))
}

func oracle(key string, mode xparser.Mode, src []byte, detail string) {
	keySeen[key]++
	out.Count("oracle_" + key)
	if keySeen[key] <= 2 {
		out.Oracle(key, fileCase(mode, src), detail)
	}
}

type verdict struct {
	kind   string // same | diff | xerr | panic
	detail string
	off    int
	sites  []site
	toks   []pgo.Tok
	errs   []int // offsets of the XGo errors
}

func compareOnce(src []byte, mode xparser.Mode, gfset *gotoken.FileSet, g *goast.File) verdict {
	x := parseX(src, mode)
	if x.panic != "" {
		return verdict{kind: "panic", detail: x.panic}
	}
	v := verdict{sites: cmdSites(x)}
	v.toks, _ = pgo.Scan(src)
	if x.err != nil {
		v.kind, v.detail, v.off = "xerr", x.err.Error(), -1
		if mode&xparser.AllErrors == 0 {
			// after a bailout (more than 10 errors) the tree is dropped: look for the sites with AllErrors
			if xa := parseX(src, mode|xparser.AllErrors); xa.panic == "" && xa.err != nil {
				x = xa
				v.sites = cmdSites(xa)
			}
		}
		// the tree is only faithful up to the first error: trust command calls before it
		first := len(src)
		if el, ok := x.err.(xscanner.ErrorList); ok {
			for _, e := range el {
				if e.Pos.Offset < first {
					first = e.Pos.Offset
				}
				v.errs = append(v.errs, e.Pos.Offset)
			}
		}
		v.off = first
		for i := range v.sites {
			// the callee was parsed before anything was reported <=> it ends before the first error
			// ... and it is the adjacency test that made it a command call (not a tuple found
			// during error recovery): the next token does not touch the callee
			b := nextTok(v.toks, v.sites[i].funEnd)
			v.sites[i].untrusted = v.sites[i].funEnd > first || b == nil || b.Pos == v.sites[i].funEnd
		}
		return v
	}
	c := &cmpCtx{fset: gfset}
	if d := c.cmp(reflect.ValueOf(g), reflect.ValueOf(x.f), ""); d != nil {
		v.kind, v.detail, v.off = "diff", d.what, d.off
		return v
	}
	v.kind = "same"
	return v
}

func parseGo(src []byte) (*gotoken.FileSet, *goast.File, error) {
	fset := gotoken.NewFileSet()
	f, err := goparser.ParseFile(fset, "x.go", src, goparser.ParseComments|goparser.SkipObjectResolution)
	return fset, f, err
}

// compareRepaired compares the two trees; while the XGo tree holds (trusted) command-style
// calls, they are reported under their key (if the trees differ) and repaired, and the
// comparison is repeated.  The returned verdict has no command-call site left.
func compareRepaired(src []byte, mode xparser.Mode, report bool) (verdict, []byte, int) {
	gfset, g, err := parseGo(src)
	if err != nil {
		return verdict{kind: "gorejects", detail: err.Error()}, src, 0
	}
	cur := src
	for iter := 0; ; iter++ {
		v := compareOnce(cur, mode, gfset, g)
		trustedAny := false
		for _, s := range v.sites {
			if !s.untrusted {
				trustedAny = true
			}
		}
		if !trustedAny {
			if len(v.sites) > 0 {
				out.Count("only_untrusted_sites")
			}
			v.sites = nil
		}
		if v.kind != "panic" && v.kind != "same" && len(v.sites) == 0 && iter < 80 {
			// the XGo scanner inserts a semicolon after '!' and '...' at a line end (recorded finding)
			if next, key := repairLineEnd(cur); next != nil {
				if report {
					oracle(key, mode, cur, fmt.Sprintf("%s: %s", v.kind, v.detail))
				}
				out.Count("repaired_" + key)
				if gfset, g, err = parseGo(next); err != nil {
					return verdict{kind: "repairbroke", detail: err.Error()}, next, iter
				}
				cur = next
				continue
			}
		}
		if v.kind == "xerr" && len(v.sites) == 0 && iter < 80 {
			// the tree may have lost the call (error recovery): evaluate the statements that hold
			// an error position on their own
			if next, key, at := stmtFallback(cur, gfset, g, v.errs); next != nil {
				if report {
					oracle(key, mode, snippetAround(cur, at, at+1), fmt.Sprintf("%s: %s", v.kind, v.detail))
				}
				out.Count("repaired_by_stmt_fallback")
				if gfset, g, err = parseGo(next); err != nil {
					return verdict{kind: "repairbroke", detail: err.Error()}, next, iter
				}
				cur = next
				continue
			}
		}
		if v.kind == "panic" || len(v.sites) == 0 || iter >= 80 {
			if iter >= 80 {
				out.Count("repair_limit_reached")
			}
			return v, cur, iter
		}
		// Repair: make callee and next token adjacent.  All sites are tried first (sites after
		// the first error are not trusted, but a deletion that keeps the go/scanner token
		// sequence cannot change the Go file); if that changes the tokens, only trusted ones.
		apply := func(all bool) ([]byte, bool) {
			next := append([]byte{}, cur...)
			repaired := false
			for i := len(v.sites) - 1; i >= 0; i-- {
				s := v.sites[i]
				if s.untrusted && !all {
					continue
				}
				b := nextTok(v.toks, s.funEnd)
				if b == nil || s.funEnd < 0 || b.Pos > len(next) || (i+1 < len(v.sites) && v.sites[i+1].funEnd == s.funEnd) {
					continue
				}
				if b.Pos > s.funEnd {
					next = append(next[:s.funEnd], next[b.Pos:]...)
					repaired = true
				}
			}
			return next, repaired
		}
		for _, s := range v.sites {
			if s.untrusted {
				continue
			}
			if b := nextTok(v.toks, s.funEnd); b != nil {
				if v.kind != "same" {
					if report {
						oracle(siteKey(b.Kind, s.funKind), mode, snippetAround(cur, s.funPos, b.End), fmt.Sprintf("%s: %s", v.kind, v.detail))
					}
				} else {
					out.Count("cmd_site_same_shape")
				}
			}
		}
		next, repaired := apply(true)
		if repaired && !sameGoTokens(cur, next) {
			next, repaired = apply(false)
		}
		if !repaired {
			v.sites = nil
			if v.kind == "same" {
				return v, cur, iter
			}
			v.detail = "no repairable command-style call: " + v.detail
			return v, cur, iter
		}
		// the repaired text has the same go/scanner tokens; re-parse with go/parser for positions
		gfset, g, err = parseGo(next)
		if err != nil {
			return verdict{kind: "repairbroke", detail: err.Error()}, next, iter
		}
		cur = next
	}
}

// stmtFallback finds command-call sites by parsing single statements (those containing an
// error position) on their own and repairs them.
func stmtFallback(cur []byte, fset *gotoken.FileSet, f *goast.File, errs []int) ([]byte, string, int) {
	refs := collectStmts(fset, f)
	type fix struct{ from, to int }
	var fixes []fix
	key, at := "", -1
	n := 0
	for _, ref := range refs {
		if ref.ctx != "list" || ref.end <= ref.start || ref.end > len(cur) {
			continue
		}
		hit := false
		for _, e := range errs {
			if e >= ref.start && e <= ref.end+1 {
				hit = true
				break
			}
		}
		if !hit {
			continue
		}
		if n++; n > 300 {
			break
		}
		_, impl, ok := stmtCase("list", cur[ref.start:ref.end])
		if !ok || !strings.HasPrefix(impl, "site ") {
			continue
		}
		var rel int
		var kind string
		fmt.Sscanf(impl, "site %d %s", &rel, &kind)
		// the callee ends at the last non-blank, non-comment byte before the site token:
		// use the scanner's tokens of the file
		toks, sok := pgo.Scan(cur)
		if !sok {
			return nil, "", -1
		}
		bpos := ref.start + rel
		i := sort.Search(len(toks), func(i int) bool { return toks[i].Pos >= bpos })
		if i == 0 || i >= len(toks) || toks[i].Pos != bpos || toks[i-1].End >= bpos {
			continue
		}
		fixes = append(fixes, fix{toks[i-1].End, bpos})
		if at < 0 || ref.start < at {
			at, key = ref.start, siteKey(toks[i].Kind, "")
		}
	}
	if len(fixes) == 0 {
		return nil, "", -1
	}
	sort.Slice(fixes, func(i, j int) bool { return fixes[i].from > fixes[j].from })
	next := append([]byte{}, cur...)
	last := len(next) + 1
	for _, fx := range fixes {
		if fx.to > last {
			continue // overlapping (nested statements)
		}
		next = append(next[:fx.from], next[fx.to:]...)
		last = fx.from
	}
	if !sameGoTokens(cur, next) {
		return nil, "", -1
	}
	return next, key, at
}

func sameGoTokens(a, b []byte) bool {
	ta, ok1 := goTokens(a, false)
	tb, ok2 := goTokens(b, false)
	if !ok1 || !ok2 || len(ta) != len(tb) {
		return false
	}
	for i := range ta {
		if ta[i].tok != tb[i].tok || ta[i].lit != tb[i].lit {
			return false
		}
	}
	return true
}

// repairLineEnd joins a '!' or '...' token with the next token when a newline separates them.
func repairLineEnd(src []byte) ([]byte, string) {
	toks, ok := goTokens(src, false)
	if !ok {
		return nil, ""
	}
	key := ""
	out := append([]byte{}, src...)
	for i := len(toks) - 2; i >= 0; i-- {
		t := toks[i]
		if t.tok != gotoken.NOT && t.tok != gotoken.ELLIPSIS {
			continue
		}
		end := t.off + len(t.tok.String())
		nxt := toks[i+1].off
		if nxt > end && strings.ContainsRune(string(src[end:nxt]), '\n') {
			out = append(out[:end], append([]byte{' '}, out[nxt:]...)...)
			if t.tok == gotoken.NOT {
				key = "scan-not-before-newline"
			} else if key == "" {
				key = "scan-ellipsis-before-newline"
			}
		}
	}
	if key == "" {
		return nil, ""
	}
	return out, key
}

// unsupported lists the Go syntax used in a declaration that the XGo parser does not have
// (recorded findings): type parameter declarations, type sets in interfaces, instantiated
// embedded interfaces, "${" inside an interpreted string literal.
func unsupported(d goast.Decl) (keys []string) {
	seen := map[string]bool{}
	add := func(k string) {
		if !seen[k] {
			seen[k] = true
			keys = append(keys, k)
		}
	}
	var typeset func(e goast.Expr) bool
	typeset = func(e goast.Expr) bool {
		switch x := e.(type) {
		case *goast.BinaryExpr:
			return x.Op == gotoken.OR
		case *goast.UnaryExpr:
			return x.Op == gotoken.TILDE
		case *goast.ParenExpr:
			return typeset(x.X)
		}
		return false
	}
	goast.Inspect(d, func(n goast.Node) bool {
		switch x := n.(type) {
		case *goast.FuncType:
			if x.TypeParams != nil {
				add("go-typeparams-decl")
			}
		case *goast.TypeSpec:
			if x.TypeParams != nil {
				add("go-typeparams-decl")
			}
		case *goast.InterfaceType:
			if x.Methods != nil {
				for _, f := range x.Methods.List {
					if len(f.Names) != 0 {
						continue
					}
					switch t := f.Type.(type) {
					case *goast.IndexExpr, *goast.IndexListExpr:
						add("go-interface-embeds-instantiated")
					case *goast.Ident, *goast.SelectorExpr:
					default:
						if typeset(t) {
							add("go-interface-typeset")
						} else {
							add("go-interface-typeset") // a non-interface type term, e.g. interface{ []int }
						}
					}
				}
			}
		case *goast.BasicLit:
			if x.Kind == gotoken.STRING && strings.Contains(x.Value, "${") {
				add("go-string-dollar-brace")
			}
		}
		return true
	})
	sort.Strings(keys)
	return
}

func violationKey(v verdict) string {
	switch v.kind {
	case "xerr":
		return "xgo-rejects"
	case "panic":
		return "xgo-panic"
	case "repairbroke":
		return "harness-repair-broke-file"
	}
	return "tree-diff"
}

// checkFile runs the property oracle on one valid Go text.
func checkFile(origin string, src []byte, mode xparser.Mode) {
	gfset, g, err := parseGo(src)
	if err != nil {
		out.Count("skip_goparser_rejects_" + origin)
		return
	}
	out.Count("files_" + origin)
	v, _, iters := compareRepaired(src, mode, true)
	out.Count("whole_" + v.kind + "_" + origin)
	if iters > 0 {
		out.Count("files_with_cmd_sites")
	}
	if v.kind == "same" {
		return
	}
	// attribute the difference to declarations
	explained := 0
	for _, d := range g.Decls {
		s, e := gfset.Position(d.Pos()).Offset, gfset.Position(d.End()).Offset
		if s < 0 || e > len(src) || s > e {
			continue
		}
		mini := []byte("package p\n\n" + string(src[s:e]) + "\n")
		dv, dcur, diters := compareRepaired(mini, mode, false)
		if dv.kind == "same" || dv.kind == "gorejects" {
			continue
		}
		explained++
		detail := fmt.Sprintf("%s @%d (declaration of a %s file, after %d repairs)", dv.detail, dv.off, origin, diters)
		if feats := unsupported(d); len(feats) > 0 && dv.kind != "panic" {
			oracle(feats[0], mode, dcur, strings.Join(feats, ",")+": "+detail)
			out.Count("decl_known_unsupported")
			continue
		}
		oracle(violationKey(dv), mode, dcur, detail)
	}
	if explained == 0 {
		// no single declaration differs on its own: the difference needs the file context
		_, cur, iters := compareRepaired(src, mode, false)
		oracle(violationKey(v)+"-whole-file", mode, cur, fmt.Sprintf("%s @%d (origin %s, after %d repairs)", v.detail, v.off, origin, iters))
	}
}

// snippetAround: a small valid Go file showing the statement line that holds the site.
func snippetAround(src []byte, from, to int) []byte {
	s, e := from, to
	for s > 0 && src[s-1] != '\n' && src[s-1] != ';' && src[s-1] != '{' {
		s--
	}
	for e < len(src) && src[e] != '\n' && src[e] != ';' && src[e] != '}' {
		e++
	}
	return []byte("package p\n\nfunc _() {\n" + strings.TrimSpace(string(src[s:e])) + "\n}\n")
}

// ---- statement level (correspondence with the Lean model) --------------------

type stmtRef struct {
	ctx        string // list | hdr
	start, end int
}

func collectStmts(fset *gotoken.FileSet, f *goast.File) (res []stmtRef) {
	off := func(p gotoken.Pos) int { return fset.Position(p).Offset }
	isSimple := func(s goast.Stmt) bool {
		switch s.(type) {
		case *goast.ExprStmt, *goast.AssignStmt, *goast.SendStmt, *goast.IncDecStmt:
			return true
		}
		return false
	}
	add := func(ctx string, s goast.Stmt) {
		if s == nil {
			return
		}
		if l, ok := s.(*goast.LabeledStmt); ok && ctx == "list" {
			res = append(res, stmtRef{ctx, off(l.Pos()), off(l.Colon) + 1})
			return
		}
		if isSimple(s) {
			res = append(res, stmtRef{ctx, off(s.Pos()), off(s.End())})
		}
	}
	goast.Inspect(f, func(n goast.Node) bool {
		switch s := n.(type) {
		case *goast.BlockStmt:
			for _, x := range s.List {
				add("list", x)
			}
		case *goast.CaseClause:
			for _, x := range s.Body {
				add("list", x)
			}
		case *goast.CommClause:
			add("hdr", s.Comm)
			for _, x := range s.Body {
				add("list", x)
			}
		case *goast.LabeledStmt:
			add("list", s.Stmt)
		case *goast.IfStmt:
			add("hdr", s.Init)
		case *goast.ForStmt:
			add("hdr", s.Init)
			add("hdr", s.Post)
		case *goast.SwitchStmt:
			add("hdr", s.Init)
		case *goast.TypeSwitchStmt:
			add("hdr", s.Init)
		}
		return true
	})
	return
}

const listPre, listPost = "package p\n\nfunc _() {\n", "\n}\n"
const hdrPre, hdrPost = "package p\n\nfunc _() {\nif ", "; true {\n}\n}\n"

// stmtCase evaluates one statement on the real scanner + parser.  Token offsets are relative
// to the statement start.  Returns ok=false if the snippet cannot be scanned.
func stmtCase(ctx string, stmt []byte) (caseLine, impl string, ok bool) {
	pre, post := listPre, listPost
	if ctx == "hdr" {
		pre, post = hdrPre, hdrPost
	}
	src := []byte(pre + string(stmt) + post)
	toks, sok := pgo.Scan(src)
	if !sok {
		return "", "", false
	}
	start, end := len(pre), len(pre)+len(stmt)
	var sb strings.Builder
	extra := 0
	for _, t := range toks {
		if t.Pos < start {
			continue
		}
		if t.Pos >= end {
			extra++
			if extra > 2 {
				break
			}
		}
		if sb.Len() > 0 {
			sb.WriteByte(' ')
		}
		fmt.Fprintf(&sb, "%s:%d:%d", pgo.KindName(t.Kind), t.Pos-start, t.End-start)
	}
	caseLine = fmt.Sprintf("cmd\t%s\t%s\t%s", ctx, sb.String(), vh.Hex(stmt))
	x := parseX(src, 0)
	if x.panic != "" {
		return caseLine, "PANIC " + x.panic, true
	}
	impl = "none"
	for _, s := range cmdSites(x) {
		if s.funPos == start {
			if b := nextTok(toks, s.funEnd); b != nil {
				impl = fmt.Sprintf("site %d %s", b.Pos-start, pgo.KindName(b.Kind))
			}
			break
		}
	}
	return caseLine, impl, true
}

func emitStmtCases(src []byte, r *vh.Rand, max int) {
	fset, f, err := parseGo(src)
	if err != nil {
		return
	}
	refs := collectStmts(fset, f)
	// sample without replacement
	for i := 0; i < max && len(refs) > 0; i++ {
		k := r.Intn(len(refs))
		ref := refs[k]
		refs[k] = refs[len(refs)-1]
		refs = refs[:len(refs)-1]
		if ref.end <= ref.start || ref.end > len(src) || ref.end-ref.start > 1500 {
			continue
		}
		cl, impl, ok := stmtCase(ref.ctx, src[ref.start:ref.end])
		if !ok {
			out.Count("stmt_unscannable")
			continue
		}
		out.Count("stmt_ctx_" + ref.ctx)
		if strings.HasPrefix(impl, "site") {
			out.Count("stmt_impl_" + strings.Fields(impl)[2])
		} else {
			out.Count("stmt_impl_none")
		}
		out.Case(cl, impl, true)
	}
}

// ---- inputs ------------------------------------------------------------------

var fixed = []string{
	"package p\n\nfunc _(a []int) {\n\ta [0] = 1\n}\n",
	"package p\n\nfunc _() {\n\tget (1).Run()\n}\n",
	"package p\n\nfunc _(f func(int)) {\n\tf (1)\n}\n",
	"package p\n\nfunc _(ch chan int, v int) {\n\tch <-v\n}\n",
	"package p\n\nfunc _(f func(int, int)) {\n\tf (1, 2)\n\tf ()\n}\n",
	"package p\n\nfunc _() {\n\tfor {\n\t\tbreak }\n\tfor { continue }\nL:\n\tfor { goto L }\n}\n",
	"package p\n\nfunc _(x, y int) {\n\tmap [string]int{}[\"a\"]++\n\tx/*c*/++\n}\n",
	"package p\n\nfunc _(a struct{ b struct{ c func(int) } }) {\n\ta.b.c (1)\n\ta.b. c(2)\n\ta .b.c(3)\n}\n",
	"package p\n\nfunc _(s string) string {\n\treturn \"${\" + s + \"$$\" + \"${x}\"\n}\n",
	"package p\n\nfunc _(in, echo, printf int) (tpl string) {\n\tin = echo\n\tprintf++\n\treturn\n}\n",
	"package p\n\ntype T struct{ a, b int }\n\nfunc _(x T) {\n\tT {1, 2}.a = 1\n\t_ = x\n}\n",
}

func typeChecks(src string) bool {
	fset := gotoken.NewFileSet()
	f, err := goparser.ParseFile(fset, "g.go", src, goparser.SkipObjectResolution)
	if err != nil {
		return false
	}
	ok := true
	conf := gotypes.Config{Error: func(e error) {
		ok = false
		if os.Getenv("C14_DEBUG") != "" {
			if te, isTE := e.(gotypes.Error); isTE {
				ln := fset.Position(te.Pos).Line
				fmt.Fprintf(os.Stderr, "TYPEERR %v\n    %s\n", e, strings.Split(src, "\n")[ln-1])
			}
		}
	}}
	conf.Check("p", fset, []*goast.File{f}, nil)
	return ok
}

func skipDir(n string) bool {
	return n == "testdata" || strings.HasPrefix(n, "_") || strings.HasPrefix(n, ".") || n == "vendor"
}

func pickMode(r *vh.Rand) xparser.Mode {
	switch r.Intn(4) {
	case 0:
		return xparser.ParseComments
	case 1:
		return xparser.ParseComments | xparser.AllErrors
	case 2:
		return xparser.AllErrors
	}
	return 0
}

func variants(origin string, src []byte, r *vh.Rand, nRelayout int, stmtMax int) {
	checkFile(origin, src, pickMode(r))
	emitStmtCases(src, r, stmtMax/2)
	if len(src) > 80000 {
		return
	}
	for i := 0; i < nRelayout; i++ {
		p := profiles[r.Intn(len(profiles))]
		if v := relayout(src, r, p); v != nil {
			out.Count("relayout_" + p.name)
			checkFile(origin+"_relayout", v, pickMode(r))
			emitStmtCases(v, r, stmtMax)
		} else {
			out.Count("relayout_failed")
		}
	}
	if v, n := respell(src, r, 60); v != nil {
		out.Count("respell_files")
		out.Stats["respelt_literals"] += n
		checkFile(origin+"_respell", v, pickMode(r))
		if r.Chance(30) {
			if w := relayout(v, r, profiles[r.Intn(len(profiles))]); w != nil {
				checkFile(origin+"_respell_relayout", w, pickMode(r))
			}
		}
	} else {
		out.Count("respell_none")
	}
	if r.Chance(50) {
		if v := blankBefore(src, r); v != nil {
			out.Count("relayout_blankbefore")
			checkFile(origin+"_blank", v, pickMode(r))
			emitStmtCases(v, r, stmtMax)
		}
	}
}

func main() {
	f := vh.ParseFlags()
	out = vh.NewOut(f.Out)
	defer out.Close()
	if f.Replay != "" {
		fs := strings.Split(f.Replay, "\t")
		if len(fs) < 3 {
			fs = strings.Fields(f.Replay) // oracle.txt lines have blanks instead of tabs
		}
		switch {
		case len(fs) >= 3 && fs[0] == "file":
			var m int
			fmt.Sscan(fs[1], &m)
			src, _ := vh.UnHex(fs[2])
			checkFile("replay", src, xparser.Mode(m))
		case len(fs) >= 2 && fs[0] == "cmd":
			stmt, _ := vh.UnHex(fs[len(fs)-1])
			if cl, impl, ok := stmtCase(fs[1], stmt); ok {
				out.Case(cl, impl, true)
			}
		}
		return
	}
	thorough := f.Tier == "thorough"
	r := vh.NewRand(f.Seed)

	// fixed inputs: the recorded deviations and past disagreements
	for i, s := range fixed {
		checkFile("fixed", []byte(s), 0)
		emitStmtCases([]byte(s), r.Fork(1000+i), 50)
	}
	if ents, err := os.ReadDir("/verif/corpus/C14"); err == nil && os.Getenv("C14_NOCORPUS") == "" {
		for i, e := range ents {
			if b, err := os.ReadFile(filepath.Join("/verif/corpus/C14", e.Name())); err == nil && strings.HasSuffix(e.Name(), ".go") {
				// the regression mini-corpus: one rare construct per file; unchanged in two modes,
				// then re-spelt and re-laid-out (deterministic per file and seed)
				checkFile("corpus", b, 0)
				checkFile("corpus", b, xparser.ParseComments|xparser.AllErrors)
				emitStmtCases(b, r.Fork(2000+i), 50)
				rr := r.Fork(3000 + i)
				for j := 0; j < 2; j++ {
					if v, _ := respell(b, rr, 80); v != nil {
						checkFile("corpus_respell", v, pickMode(rr))
					}
					if v := relayout(b, rr, profiles[(i+j)%len(profiles)]); v != nil {
						checkFile("corpus_relayout", v, pickMode(rr))
					}
				}
			}
		}
	}

	goExt := map[string]bool{".go": true}
	repoFiles := pgo.Collect(pgo.Repo(), goExt, 400000, skipDir)
	var rootFiles []pgo.File
	if gr := pgo.GoRootSrc(); gr != "" {
		rootFiles = pgo.Collect(gr, goExt, 400000, skipDir)
	}
	out.Stats["corpus_repo_go_files"] = len(repoFiles)
	out.Stats["corpus_goroot_go_files"] = len(rootFiles)

	nRepo, nRoot, nRelayout, stmtMax := f.N*2/5, f.N*3/5, 1, 12
	if thorough {
		nRepo, nRoot, nRelayout, stmtMax = len(repoFiles), f.N-len(repoFiles), 2, 24
	}
	sample := func(fs []pgo.File, n int, salt int) []pgo.File {
		rr := r.Fork(salt)
		idx := make([]int, len(fs))
		for i := range idx {
			idx[i] = i
		}
		for i := len(idx) - 1; i > 0; i-- {
			j := rr.Intn(i + 1)
			idx[i], idx[j] = idx[j], idx[i]
		}
		if n > len(idx) {
			n = len(idx)
		}
		res := make([]pgo.File, 0, n)
		for _, i := range idx[:n] {
			res = append(res, fs[i])
		}
		return res
	}
	for i, cf := range sample(repoFiles, nRepo, 1) {
		variants("repo", cf.Src, r.Fork(10000+i), nRelayout, stmtMax)
	}
	for i, cf := range sample(rootFiles, nRoot, 2) {
		variants("goroot", cf.Src, r.Fork(100000+i), nRelayout, stmtMax)
	}

	// generated, type-checked programs
	nGen := f.N / 2
	feat := map[string]int{}
	for i := 0; i < nGen; i++ {
		rr := r.Fork(500000 + i)
		src := genProgram(rr, feat)
		if !typeChecks(src) {
			out.Count("gen_rejected_by_gotypes")
			if out.Stats["gen_rejected_by_gotypes"] <= 3 {
				out.Samples = append(out.Samples, "gen-typeerr: "+vh.HexS(src))
			}
			continue
		}
		out.Count("gen_typechecked")
		variants("gen", []byte(src), rr, nRelayout+1, stmtMax)
	}
	for k, v := range feat {
		out.Stats["gen_feature_"+k] = v
	}
}
