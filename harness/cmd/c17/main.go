// Differential + oracle harness for C17 (Pos()/End() of every AST node).
//
// Case line:  span \t <recipe> \t <dumped tree with field values>
// Impl out:   "id:Pos:End" of every node, preorder ("!" where the method panics)
//
// Oracle on the real parser output (independent of the Lean model), for every node of every
// error-free parse:
//
//	tokstart/tokend  Pos is the start of a scanned token, End the end of one
//	unbalanced       the tokens in [Pos, End) are balanced in () [] {}
//	outside/overlap  children lie within the parent's span, in order, without overlapping
//	reparse          the source slice of an expression node re-parses to the same expression
//	layout-*         for kinds with a layout (extract/c17_layout.txt): the node's own tokens are
//	                 real tokens at the recorded offsets, Pos = start of the first element,
//	                 End = stop of the last element, elements in source order
package main

import (
	"fmt"
	"os"
	"path/filepath"
	"reflect"
	"sort"
	"strconv"
	"strings"

	"github.com/goplus/xgo/ast"
	"github.com/goplus/xgo/parser"
	"github.com/goplus/xgo/token"
	"verifharness/astx"
	"verifharness/vh"
)

type ctxFile struct {
	p        *astx.Parsed
	base     int
	toks     []astx.Tok // comments included
	tokStart map[int]bool
	tokEnd   map[int]bool
	exact    map[[2]int]bool // (start, stop) offsets of single tokens
	line     string
	short    string // case line without the tree (enough for -replay)
	o        *vh.Out
	seen     map[string]bool // oracle keys already reported for this file
	nfail    int             // failures so far (to spot failures inside a subtree)
}

func (c *ctxFile) fail(key, detail string) {
	c.nfail++
	if c.seen[key] {
		return
	}
	c.seen[key] = true
	c.o.Oracle(key, c.short, detail)
}

func (c *ctxFile) src(pos, end token.Pos) string {
	a, b := int(pos)-c.base, int(end)-c.base
	if a < 0 || b > len(c.p.Src) || a > b {
		return ""
	}
	return string(c.p.Src[a:b])
}

func clip(s string) string {
	s = strings.ReplaceAll(s, "\n", "\\n")
	if len(s) > 80 {
		return s[:80] + "…"
	}
	return s
}

func (c *ctxFile) where(n ast.Node) string {
	return fmt.Sprintf("%s [%d,%d) %q", astx.KindName(n), int(n.Pos())-c.base, int(n.End())-c.base, clip(c.src(n.Pos(), n.End())))
}

// balanced reports whether the tokens inside [a, b) (offsets) are bracket-balanced.
func (c *ctxFile) balanced(a, b int) bool {
	i := sort.Search(len(c.toks), func(i int) bool { return c.toks[i].Off >= a })
	var stack []token.Token
	for ; i < len(c.toks) && c.toks[i].End <= b; i++ {
		switch t := c.toks[i].Tok; t {
		case token.LPAREN, token.LBRACK, token.LBRACE:
			stack = append(stack, t)
		case token.RPAREN, token.RBRACK, token.RBRACE:
			if len(stack) == 0 {
				return false
			}
			open := stack[len(stack)-1]
			stack = stack[:len(stack)-1]
			if (t == token.RPAREN) != (open == token.LPAREN) || (t == token.RBRACK) != (open == token.LBRACK) {
				return false
			}
		}
	}
	return len(stack) == 0
}

// shape: position-free structure of a tree (kinds, names, literal values, operators, flags).
func shape(n ast.Node, b *strings.Builder, depth int) {
	if astx.IsNil(n) || depth > 200 {
		b.WriteString("nil")
		return
	}
	b.WriteString(astx.KindName(n))
	v := reflect.ValueOf(n).Elem()
	t := v.Type()
	for i := 0; i < t.NumField(); i++ {
		f := t.Field(i)
		if !f.IsExported() {
			continue
		}
		switch f.Type.Kind() {
		case reflect.String:
			fmt.Fprintf(b, " %s=%q", f.Name, v.Field(i).String())
		case reflect.Bool:
			if v.Field(i).Bool() {
				b.WriteString(" " + f.Name)
			}
		case reflect.Int:
			if f.Type == reflect.TypeOf(token.Token(0)) || f.Type.Name() == "ChanDir" {
				fmt.Fprintf(b, " %s=%d", f.Name, v.Field(i).Int())
			}
		}
	}
	cs, _ := astx.Children(n)
	b.WriteString("(")
	for _, c := range cs {
		if !astx.IsNil(c.Node) && isComment(c.Node) {
			continue // comments are not part of the expression (ParseExpr drops them)
		}
		if c.Slot == "Doc" || c.Slot == "Comment" {
			continue
		}
		b.WriteString(c.Slot + ":")
		shape(c.Node, b, depth+1)
		b.WriteString(" ")
	}
	b.WriteString(")")
}

// Kinds whose source slice is an expression (or a type) by itself — calibrated on the corpus:
// every occurrence re-parses to the same tree.  Not listed: KeyValueExpr, Ellipsis, ElemEllipsis,
// ForPhrase, RangeExpr, LambdaExpr*, MatrixLit (only accepted as a call argument), FuncType
// (method signatures and declarations are not types by themselves — see reparse).
var reparseKinds = map[string]bool{
	"Ident": true, "BasicLit": true, "NumberUnitLit": true, "EnvExpr": true, "SliceLit": true,
	"ErrWrapExpr": true, "ComprehensionExpr": true, "DomainTextLit": true, "CompositeLit": true, "ParenExpr": true,
	"SelectorExpr": true, "IndexExpr": true, "IndexListExpr": true, "SliceExpr": true, "TypeAssertExpr": true, "StarExpr": true,
	"UnaryExpr": true, "BinaryExpr": true, "FuncLit": true, "CallExpr": true,
	"ChanType": true, "ArrayType": true, "MapType": true, "StructType": true, "InterfaceType": true,
}

// Statement kinds whose source slice is a statement of a script by itself (calibrated likewise).
var reparseStmtKinds = map[string]bool{
	"ExprStmt": true, "AssignStmt": true, "SendStmt": true, "IncDecStmt": true, "GoStmt": true, "DeferStmt": true,
	"IfStmt": true, "ForStmt": true, "RangeStmt": true, "ForPhraseStmt": true, "SwitchStmt": true,
	"TypeSwitchStmt": true, "SelectStmt": true, "ReturnStmt": true, "LabeledStmt": true, "BranchStmt": true,
}

func shapeOf(n ast.Node) string {
	var b strings.Builder
	shape(n, &b, 0)
	return b.String()
}

// parseAsStmt parses text as the only statement of a script.
func parseAsStmt(text string) (st ast.Stmt, err error) {
	p2, err := astx.SafeParse("/reparse/s.xgo", []byte(text+"\n"))
	if err != nil {
		return nil, err
	}
	if p2.File.ShadowEntry == nil || p2.File.ShadowEntry.Body == nil || len(p2.File.Decls) != 1 || len(p2.File.ShadowEntry.Body.List) != 1 {
		return nil, fmt.Errorf("not a single statement")
	}
	return p2.File.ShadowEntry.Body.List[0], nil
}

// parseAsType parses text as the type of a variable declaration.
func parseAsType(text string) (ast.Expr, error) {
	p2, err := astx.SafeParse("/reparse/t.xgo", []byte("var _ "+text+"\n"))
	if err != nil {
		return nil, err
	}
	if len(p2.File.Decls) != 1 {
		return nil, fmt.Errorf("not a single declaration")
	}
	gd, ok := p2.File.Decls[0].(*ast.GenDecl)
	if !ok || len(gd.Specs) != 1 {
		return nil, fmt.Errorf("not a var declaration")
	}
	vs, ok := gd.Specs[0].(*ast.ValueSpec)
	if !ok || vs.Type == nil || len(vs.Values) != 0 {
		return nil, fmt.Errorf("not a type")
	}
	return vs.Type, nil
}

// reparse: the re-parse clause.  An expression node's source slice must parse (as an expression,
// or as a type, or — for a command-style call — as the expression statement of a script) to a tree
// of the same shape; a statement's slice must parse to the same statement.
func (c *ctxFile) reparse(n ast.Node, parentKind string) { // parentKind: "<Kind>.<Slot>" of the parent
	kind := astx.KindName(n)
	text := c.src(n.Pos(), n.End())
	if text == "" {
		return
	}
	want := ""
	var outcome string
	var perr error
	switch x := n.(type) {
	case ast.Stmt:
		if !reparseStmtKinds[kind] && kind != "LabeledStmt" && kind != "ReturnStmt" && kind != "BranchStmt" && kind != "BlockStmt" && kind != "DeclStmt" && kind != "EmptyStmt" {
			return
		}
		if strings.HasPrefix(text, "func") {
			return // at the top level of a script `func …` starts a declaration
		}
		switch parentKind[strings.LastIndex(parentKind, ".")+1:] {
		case "Init", "Post", "Assign", "Comm":
			// simple statements of if/for/switch/select headers are parsed without the command-call
			// rule (`switch any (a).(type)`); as stand-alone statements they may read differently
			return
		}
		want = shapeOf(n)
		st, err := parseAsStmt(text)
		switch {
		case err != nil:
			outcome, perr = "error", err
		case shapeOf(st) != want:
			outcome = "differs"
		default:
			outcome = "ok"
		}
		c.o.Count("restmt_" + outcome + "_" + kind)
		if outcome != "ok" && reparseStmtKinds[kind] {
			c.fail("reparse:"+kind, fmt.Sprintf("%s re-parsed as a statement: %s (%v)", c.where(n), outcome, perr))
		}
		return
	case ast.Expr:
		if id, ok := n.(*ast.Ident); ok && !token.IsIdentifier(id.Name) {
			return // operator name of an overload declaration (`func (a T) + (b T)`)
		}
		want = shapeOf(n)
		if call, ok := n.(*ast.CallExpr); ok && call.IsCommand() {
			// command-style call: only a statement context gives this form
			st, err := parseAsStmt(text)
			outcome = "ok"
			if err != nil {
				outcome, perr = "error", err
			} else if es, isES := st.(*ast.ExprStmt); !isES || shapeOf(es.X) != want {
				outcome = "differs"
			}
			c.o.Count("reparse_cmdcall_" + outcome)
			if outcome != "ok" && strings.HasPrefix(parentKind, "ExprStmt.") {
				c.fail("reparse:CallExpr", fmt.Sprintf("%s (command style) re-parsed as a statement: %s (%v)", c.where(n), outcome, perr))
			}
			return
		}
		_ = x
	default:
		return
	}
	// expression, then type
	outcome = "error"
	var e2 ast.Expr
	func() {
		defer func() {
			if r := recover(); r != nil {
				perr = fmt.Errorf("panic: %v", r)
			}
		}()
		e2, perr = parser.ParseExpr(text)
	}()
	if perr == nil {
		outcome = "differs"
		if shapeOf(e2) == want {
			outcome = "ok"
		}
	}
	if outcome != "ok" {
		if t2, err := parseAsType(text); err == nil && shapeOf(t2) == want {
			outcome = "ok"
		}
	}
	c.o.Count("reparse_" + outcome)
	c.o.Count("reparse_" + outcome + "_" + kind)
	flag := reparseKinds[kind]
	if kind == "FuncType" { // a type by itself only when it starts with `func` and is not a declaration's signature
		flag = strings.HasPrefix(text, "func") && !strings.HasPrefix(parentKind, "FuncDecl.")
	}
	if outcome != "ok" && flag {
		c.fail("reparse:"+kind, fmt.Sprintf("%s re-parses with %s (%v)", c.where(n), outcome, perr))
	}
}

func isComment(n ast.Node) bool {
	switch n.(type) {
	case *ast.Comment, *ast.CommentGroup:
		return true
	}
	return false
}

// check applies the oracles to n and its subtree.
//
//	synthetic: n has no tokens of its own in the source (shadow entry function parts)
//	inLit:     n lies inside a string / domain text literal (its tokens are not tokens of the file)
func (c *ctxFile) check(n ast.Node, parentKind string, synthetic, inLit bool, depth int) {
	if astx.IsNil(n) || depth > 3000 {
		return
	}
	kind := astx.KindName(n)
	c.o.Count("node_" + kind)
	pos, end := n.Pos(), n.End()
	po, eo := int(pos)-c.base, int(end)-c.base
	if id, ok := n.(*ast.Ident); ok && id.Implicit() {
		synthetic = true
	}
	if _, ok := n.(*ast.Package); ok {
		synthetic = true
	}
	if fd, ok := n.(*ast.FuncDecl); ok && fd.Shadow {
		synthetic = true // the entry function synthesised around the top-level statements
	}
	file, isFile := n.(*ast.File)
	failsBefore := c.nfail
	// (b) nesting and order of the children (and, first, the subtrees: a wrong span inside makes every
	// enclosing span look wrong too, so the generic checks below are skipped for ancestors)
	fd, isFuncDecl := n.(*ast.FuncDecl)
	var prev ast.Node
	prevSlot := ""
	for _, ch := range astx.SpecChildren(n) {
		cn := ch.Node
		childSynthetic := synthetic
		if isFuncDecl && fd.Shadow { // Name, Type and the brace-less Body block are synthetic too
			childSynthetic = true
		}
		if _, isBlock := n.(*ast.BlockStmt); isBlock && synthetic {
			childSynthetic = false
		}
		childInLit := inLit || strings.HasPrefix(ch.Slot, "Extra_")
		if !isComment(cn) && !synthetic && kind != "Package" {
			if (cn.Pos().IsValid() || cn.End().IsValid()) && (cn.Pos() < pos || cn.End() > end) {
				c.fail("outside:"+kind+"."+ch.Slot, fmt.Sprintf("child %s lies outside its parent %s", c.where(cn), c.where(n)))
			}
			skipOrder := isFuncDecl && ch.Slot == "Type" // FuncType spans from `func` to the results, around Recv and Name
			if !skipOrder {
				if !cn.Pos().IsValid() && !cn.End().IsValid() {
					continue // a child without tokens takes no part in the order
				}
				if prev != nil && cn.Pos() < prev.End() {
					c.fail("overlap:"+kind+"."+prevSlot+"/"+ch.Slot, fmt.Sprintf("in %s: %s starts before %s ends", c.where(n), c.where(cn), c.where(prev)))
				}
				prev, prevSlot = cn, ch.Slot
			}
		}
		c.check(cn, kind+"."+ch.Slot, childSynthetic, childInLit, depth+1)
	}
	cleanBelow := c.nfail == failsBefore
	if !pos.IsValid() && !end.IsValid() && !synthetic {
		// a node without any token (the empty receiver list of a static method `func .New()`)
		if es, ok, _ := astx.LayoutElems(n); kind == "FieldList" || (ok && len(es) == 0) {
			c.o.Count("node_without_tokens")
			synthetic = true
		}
	}
	if !synthetic && !inLit && cleanBelow {
		// (a) token boundaries
		skipPos := isFile && file.NoPkgDecl // the implicit package name sits at offset 0
		if !skipPos && !c.tokStart[po] {
			c.fail("tokstart:"+kind, c.where(n)+": Pos is not the start of a token")
		}
		shadowPlusOne := false
		if isFile && file.ShadowEntry != nil && file.ShadowEntry.Shadow && file.ShadowEntry.Body != nil {
			// the brace-less body of the shadow entry records Rbrace = End of the last statement,
			// and BlockStmt.End() adds 1 for a brace that is not there
			if l := file.ShadowEntry.Body.List; len(l) > 0 && end == l[len(l)-1].End()+1 {
				shadowPlusOne = true
				c.fail("file-end-shadow-plus-one", fmt.Sprintf("File.End()=%d is one past the End (%d) of the last top-level statement", eo, eo-1))
			}
		}
		if pos != end && !c.tokEnd[eo] && !shadowPlusOne {
			c.fail("tokend:"+kind, c.where(n)+": End is not the end of a token")
		}
		if end < pos {
			c.fail("negative-span:"+kind, c.where(n))
		}
		// (c) bracket balance
		if !c.balanced(po, eo) {
			c.fail("unbalanced:"+kind, c.where(n)+": brackets in the span are not balanced")
		}
		// (d) re-parse
		c.reparse(n, parentKind)
	}
	// (f) every set token.Pos field lies within the span and points at its token
	if !synthetic && !inLit {
		for _, pf := range astx.PosFieldsOf(n) {
			off := int(pf.Pos) - c.base
			key := kind + "." + pf.Name
			switch {
			case pf.Spec.Skip:
			case pf.Spec.EqPos:
				if pf.Pos != pos {
					c.fail("posfield:"+key, fmt.Sprintf("%s: %s=%d is not the node's Pos", c.where(n), pf.Name, off))
				}
			case pf.Spec.EqEnd:
				if pf.Pos != end {
					c.fail("posfield:"+key, fmt.Sprintf("%s: %s=%d is not the node's End", c.where(n), pf.Name, off))
				}
			case pf.Spec.TokStart:
				if !c.tokStart[off] || pf.Pos < pos || pf.Pos >= end {
					c.fail("posfield:"+key, fmt.Sprintf("%s: %s=%d is not the start of a token inside the span", c.where(n), pf.Name, off))
				}
			default:
				found := ""
				for _, w := range pf.Want {
					if c.exact[[2]int{off, off + len(w)}] && off+len(w) <= len(c.p.Src) && string(c.p.Src[off:off+len(w)]) == w {
						found = w
					}
				}
				if found == "" {
					c.fail("posfield-token:"+key, fmt.Sprintf("%s: no token %q at %s=%d", c.where(n), pf.Want, pf.Name, off))
				} else if pf.Pos < pos || int(pf.Pos)+len(found) > int(end) {
					c.fail("posfield-outside:"+key, fmt.Sprintf("%s: its token %q at %s=%d lies outside the span", c.where(n), found, pf.Name, off))
				}
			}
		}
	}
	// (e) layout
	if !synthetic {
		if elems, ok, why := astx.LayoutElems(n); ok {
			c.o.Count("layout_checked")
			if len(elems) > 0 {
				if elems[0].Start != int(pos) {
					c.fail("pos-not-first:"+kind, fmt.Sprintf("%s: Pos=%d but the first element (%s) starts at %d", c.where(n), po, elems[0].What, elems[0].Start-c.base))
				}
				if last := elems[len(elems)-1]; last.Stop != int(end) {
					c.fail("end-not-last:"+kind, fmt.Sprintf("%s: End=%d but the last element (%s) stops at %d", c.where(n), eo, last.What, last.Stop-c.base))
				}
			}
			for i, e := range elems {
				if e.Stop < e.Start || (i > 0 && e.Start < elems[i-1].Stop) {
					c.fail("layout-order:"+kind, fmt.Sprintf("%s: element %s [%d,%d) is out of source order", c.where(n), e.What, e.Start-c.base, e.Stop-c.base))
				}
				if !inLit && e.Tok {
					a, b := e.Start-c.base, e.Stop-c.base
					switch {
					case e.Exact && !c.exact[[2]int{a, b}]:
						c.fail("layout-token:"+kind+"."+e.What, fmt.Sprintf("%s: no token [%d,%d) in the source for field %s", c.where(n), a, b, e.What))
					case e.StartOnly && !c.tokStart[a]:
						c.fail("layout-token:"+kind+"."+e.What, fmt.Sprintf("%s: %s=%d is not the start of a token", c.where(n), e.What, a))
					case e.StopOnly && !c.tokEnd[b]:
						c.fail("layout-token:"+kind+"."+e.What, fmt.Sprintf("%s: %s=%d is not the end of a token", c.where(n), e.What, b))
					case !e.Exact && !e.StartOnly && !e.StopOnly && e.Stop > e.Start && (!c.tokStart[a] || !c.tokEnd[b]):
						c.fail("layout-token:"+kind+"."+e.What, fmt.Sprintf("%s: [%d,%d) for field %s does not consist of whole tokens", c.where(n), a, b, e.What))
					}
				}
			}
		} else if why != "unspecified" {
			c.o.Count("layout_skipped_missing_mandatory")
		}
	}
}

func runParsed(recipe string, p *astx.Parsed, o *vh.Out) {
	c := &ctxFile{p: p, o: o, tokStart: map[int]bool{}, tokEnd: map[int]bool{}, exact: map[[2]int]bool{}, seen: map[string]bool{}}
	p.Fset.Iterate(func(f *token.File) bool { c.base = f.Base(); return false })
	c.toks, _ = astx.Scan(p.Src, true)
	for _, t := range c.toks {
		c.tokStart[t.Off] = true
		c.tokEnd[t.End] = true
		c.exact[[2]int{t.Off, t.End}] = true
	}
	d := astx.NewDumper()
	tree, order := d.DumpSpans("root", p.File)
	c.line = "span\t" + recipe + "\t" + tree
	c.short = "span\t" + recipe
	parts := make([]string, len(order))
	for i, n := range order {
		parts[i] = strconv.Itoa(d.ID(n)) + ":" + safe(n.Pos) + ":" + safe(n.End)
	}
	for i, n := range order {
		if k := astx.KindName(n); k == "" {
			c.fail("foreign-node:"+reflect.TypeOf(n).String(), "the parser returned (err == nil) a tree containing a node that is not an ast node kind")
		} else if strings.Contains(parts[i], "!") {
			c.fail("pos-panic:"+k, fmt.Sprintf("Pos()/End() of a %s panics: %s", k, parts[i]))
		}
	}
	c.check(p.File, "", false, false, 0)
	switch {
	case d.N < 30:
		o.Count("size_lt30")
	case d.N < 300:
		o.Count("size_lt300")
	default:
		o.Count("size_ge300")
	}
	o.Case(c.line, strings.Join(parts, " "), d.N >= 5)
}

func safe(f func() token.Pos) (s string) {
	defer func() {
		if recover() != nil {
			s = "!"
		}
	}()
	return strconv.Itoa(int(f()))
}

// synthesised (not parsed) trees: differential only — the generated Pos/End bodies against the
// real methods on arbitrary field values, panics included.
func runSynth(recipe string, root ast.Node, o *vh.Out) {
	d := astx.NewDumper()
	tree, order := d.DumpSpans("root", root)
	parts := make([]string, len(order))
	for i, n := range order {
		parts[i] = strconv.Itoa(d.ID(n)) + ":" + safe(n.Pos) + ":" + safe(n.End)
	}
	o.Count("synth_" + astx.KindName(root))
	o.Case("span\t"+recipe+"\t"+tree, strings.Join(parts, " "), d.N >= 3)
}

func rel(p string) string {
	r, err := filepath.Rel(astx.Repo(), p)
	if err != nil {
		return p
	}
	return r
}

func runRecipe(recipe string, o *vh.Out) error {
	fs := strings.Split(recipe, "|")
	switch fs[0] {
	case "file", "emb", "mut", "dense", "gen", "tokmut":
		p, err := astx.ParseRecipe(recipe)
		if err != nil {
			return err
		}
		runParsed(recipe, p, o)
	case "synth":
		seed, _ := strconv.ParseUint(fs[1], 10, 64)
		mal, _ := strconv.Atoi(fs[3])
		depth, _ := strconv.Atoi(fs[4])
		for _, t := range astx.KindTypes() {
			if t.Elem().Name() == fs[2] {
				s := astx.NewSynth(vh.NewRand(seed))
				s.Malformed = mal
				runSynth(recipe, s.Node(t, depth), o)
				return nil
			}
		}
		return fmt.Errorf("unknown kind %s", fs[2])
	default:
		return fmt.Errorf("bad recipe %q", recipe)
	}
	return nil
}

func main() {
	f := vh.ParseFlags()
	o := vh.NewOut(f.Out)
	defer o.Close()
	if f.Replay != "" {
		fs := strings.SplitN(f.Replay, "\t", 3)
		if len(fs) < 2 {
			fmt.Fprintln(os.Stderr, "bad replay line")
			os.Exit(2)
		}
		if err := runRecipe(fs[1], o); err != nil {
			fmt.Fprintln(os.Stderr, "replay:", err)
			os.Exit(2)
		}
		return
	}
	r := vh.NewRand(f.Seed)
	thorough := f.Tier == "thorough"
	try := func(recipe string) {
		if err := runRecipe(recipe, o); err != nil {
			o.Count("skipped_" + strings.SplitN(recipe, "|", 2)[0] + "_parse_error")
		}
	}
	// fixed regression corpus first: every embedded file as is and in three dense layouts (a blank /
	// a comment before every token, blank+comment before every closing token and separator);
	// the near-valid neg_* files are walked whenever the parser accepts them
	for _, name := range astx.EmbeddedFiles() {
		try("emb|" + name)
		for m := 0; m < 3; m++ {
			try(fmt.Sprintf("dense|emb:%s|%d", name, m))
		}
	}
	xgo, gofiles := astx.CorpusFiles()
	for _, p := range xgo {
		try("file|" + rel(p))
	}
	nGo := 40
	if thorough {
		nGo = len(gofiles)
	}
	for i := 0; i < nGo && len(gofiles) > 0; i++ {
		p := gofiles[i]
		if !thorough {
			p = gofiles[r.Fork(1000+i).Intn(len(gofiles))]
			if fi, err := os.Stat(p); err == nil && fi.Size() > 100000 {
				continue
			}
		}
		try("file|" + rel(p))
	}
	nMut := len(xgo) / 2
	if thorough {
		nMut = len(xgo) * 6
	}
	for i := 0; i < nMut && len(xgo) > 0; i++ {
		rr := r.Fork(2000 + i)
		try(fmt.Sprintf("mut|%s|%d", rel(xgo[rr.Intn(len(xgo))]), rr.U64()%1000000))
	}
	for i, p := range xgo { // dense layouts of the XGo corpus (one mode per file in quick, all in thorough)
		for m := 0; m < 3; m++ {
			if thorough || m == (i+int(f.Seed))%3 {
				try(fmt.Sprintf("dense|file:%s|%d", rel(p), m))
			}
		}
	}
	for i := 0; i < f.N; i++ {
		rr := r.Fork(5000 + i)
		rec := fmt.Sprintf("gen|%d", rr.U64()%100000000)
		if i%4 == 3 {
			rec += fmt.Sprintf("#%d", 1+rr.Intn(len(astx.ParseModes)-1))
		}
		try(rec)
	}
	// token-level mutants of valid sources (most are rejected by the parser)
	nTok := f.N
	emb := astx.EmbeddedFiles()
	for i := 0; i < nTok; i++ {
		rr := r.Fork(7000 + i)
		ref := "emb:" + emb[rr.Intn(len(emb))]
		if rr.Bool() && len(xgo) > 0 {
			ref = "file:" + rel(xgo[rr.Intn(len(xgo))])
		}
		try(fmt.Sprintf("tokmut|%s|%d", ref, rr.U64()%100000000))
	}
	// synthesised trees (differential only)
	kinds := astx.KindTypes()
	per := 4
	if thorough {
		per = 40
	}
	for ki, t := range kinds {
		if t.Elem().Name() == "Package" {
			continue
		}
		for j := 0; j < per; j++ {
			rr := r.Fork(100000 + ki*1000 + j)
			mal := 0
			if j%2 == 1 {
				mal = 10 + rr.Intn(20)
			}
			try(fmt.Sprintf("synth|%d|%s|%d|%d", rr.U64()%100000000, t.Elem().Name(), mal, 1+rr.Intn(3)))
		}
	}
}
