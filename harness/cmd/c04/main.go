// Differential + oracle harness for C04 (range expressions in for-in / for-range / comprehension).
//
// ONE XGo program per run is generated, compiled in-process with the real compiler (cl via
// x/build), built and executed.  It prints, for every probe (start, end, step, with the way each
// bound is written) and every context, the sequence of values the body saw.  Case lines:
//
//	rfor  <ctx>/<kinds> <cap> <start|_> <end> <step|_>    statement contexts (toForStmt)
//	renum <ctx>/<kinds> <cap> <start|_> <end> <step|_>    comprehension (newRange … Gop_Enum/Next)
//
// kinds: one letter per bound — L literal, N negated literal, V variable, K constant, P pure call,
// S stateful call (returns x on its first evaluation, x+1 afterwards), A arithmetic on a variable,
// _ omitted.  The oracle compares the contexts with each other on the implementation's output.
package main

import (
	"fmt"
	"os"
	"path/filepath"
	"sort"
	"strconv"
	"strings"
	"time"

	"verifharness/vh"
	"verifharness/xrun"
)

const capN = 40

type probe struct {
	kinds   [3]byte // for start, end, step ('_' = omitted; never for end)
	s, e, k int
}

func (p probe) fields() string {
	f := func(kind byte, v int) string {
		if kind == '_' {
			return "_"
		}
		return strconv.Itoa(v)
	}
	return fmt.Sprintf("%d\t%s\t%d\t%s", capN, f(p.kinds[0], p.s), p.e, f(p.kinds[2], p.k))
}

func (p probe) caseLine(op, ctx string) string {
	return op + "\t" + ctx + "/" + string(p.kinds[:]) + "\t" + p.fields()
}

// effective values (omitted start = 0, omitted step = 1 are what the *property* says)
func (p probe) eff() (int, int, int) {
	s, k := p.s, p.k
	if p.kinds[0] == '_' {
		s = 0
	}
	if p.kinds[2] == '_' {
		k = 1
	}
	return s, p.e, k
}

// text of one bound inside the probe function; decl collects declarations
func boundText(kind byte, v int, name string, decl *strings.Builder) string {
	switch kind {
	case 'L':
		return strconv.Itoa(v)
	case 'N':
		return "-" + strconv.Itoa(-v)
	case 'V':
		fmt.Fprintf(decl, "\t%s := %d\n", name, v)
		return name
	case 'K':
		fmt.Fprintf(decl, "\tconst %s = %d\n", name, v)
		return name
	case 'P':
		return fmt.Sprintf("pv(%d)", v)
	case 'S':
		return fmt.Sprintf("sv(%d)", v)
	case 'A':
		fmt.Fprintf(decl, "\t%s := %d\n", name, v-1)
		return "(" + name + " + 1)"
	case 'M': // negated identifier: the syntactic sign is the opposite of the variable's
		fmt.Fprintf(decl, "\t%s := %d\n", name, -v)
		return "-" + name
	case 'R': // parenthesised identifier
		fmt.Fprintf(decl, "\t%s := %d\n", name, v)
		return "(" + name + ")"
	case 'Q': // selector
		fmt.Fprintf(decl, "\t%s := &box{%d}\n", name, v)
		return name + ".n"
	case 'X': // index
		fmt.Fprintf(decl, "\t%s := []int{0, %d}\n", name, v)
		return name + "[1]"
	case 'D': // negated parenthesised literal: -(-2) is 2, -(2) is -2
		if v > 0 {
			return fmt.Sprintf("-(-%d)", v)
		}
		return fmt.Sprintf("-(%d)", -v)
	case 'F': // negated call
		return fmt.Sprintf("-pv(%d)", -v)
	}
	return ""
}

func (p probe) rangeText(decl *strings.Builder, pfx string) (string, int) {
	nS := 0
	for _, k := range p.kinds {
		if k == 'S' {
			nS++
		}
	}
	var sb strings.Builder
	if p.kinds[0] != '_' {
		sb.WriteString(boundText(p.kinds[0], p.s, pfx+"s", decl))
	}
	sb.WriteString(":")
	sb.WriteString(boundText(p.kinds[1], p.e, pfx+"e", decl))
	if p.kinds[2] != '_' {
		sb.WriteString(":")
		sb.WriteString(boundText(p.kinds[2], p.k, pfx+"k", decl))
	}
	return sb.String(), nS
}

const prelude = `var calls int
var lim int
var cur string
var curTag string
var ticks int
var over bool

func chk(i int) bool {
	ticks++
	if ticks > 100 {
		over = true
		return true
	}
	return i%2 == 0
}

func pv(x int) int {
	return x
}

type box struct {
	n int
}

type box3 struct {
	s, e, k int
}

// storage behind the operands of the mutation probes, and the body's mutation
var me, mk int
var mqe, mqk = &box{}, &box{}
var ma = []int{0, 0, 0}
var mutN int

func bump() {
	mutN++
	if mutN <= 3 {
		me++
		mk++
		mqe.n++
		mqk.n++
		ma[1]++
		ma[2]++
	}
}

func bumpx(x int) int {
	bump()
	return x
}

func sv(x int) int {
	calls++
	if calls > lim {
		return x + 1
	}
	return x
}

func emit(tag string, s, e, k int, ctx string, capped bool, a []int) {
	fl := "done"
	if capped {
		fl = "cap"
	}
	println tag, s, e, k, ctx, fl, a
}

func rec() {
	if r := recover(); r != nil {
		println curTag, 0, 0, 0, cur, "panic", "[]"
	}
}

`

// contexts emits the code running range expression R in every context.
// tag/s/e/k are XGo expressions printed with each line.
func contexts(sb *strings.Builder, ind, R, tag, s, e, k string, nS int, arrow bool) {
	w := func(format string, a ...interface{}) {
		for _, l := range strings.Split(fmt.Sprintf(format, a...), "\n") {
			sb.WriteString(ind + l + "\n")
		}
	}
	begin := func(ctx string) {
		w("cur = %q\ncalls = 0\nlim = %d\na = nil\ncapped = false\nticks = 0\nover = false", ctx, nS)
	}
	body := "\ta = append(a, i)\n\tif len(a) >= " + strconv.Itoa(capN) + " {\n\t\tcapped = true\n\t\tbreak\n\t}\n}"
	end := func(ctx string) { w("emit %s, %s, %s, %s, %q, capped, a", tag, s, e, k, ctx) }
	in := "in"
	if arrow {
		in = "<-"
	}
	begin("in")
	w("for i %s %s {\n%s", in, R, body)
	end("in")
	begin("range")
	w("for i := range %s {\n%s", R, body)
	end("range")
	begin("assign")
	w("for j = range %s {\n%s", R, strings.ReplaceAll(body, "append(a, i)", "append(a, j)"))
	end("assign")
	begin("count")
	w("for range %s {\n\ta = append(a, 0)\n\tif len(a) >= %d {\n\t\tcapped = true\n\t\tbreak\n\t}\n}", R, capN)
	end("count")
	begin("cond")
	w("for i %s %s if chk(i) {\n\tif over {\n\t\tcapped = true\n\t\tbreak\n\t}\n%s", in, R, body)
	end("cond")
	begin("comp")
	w("a = [x for x %s %s]", in, R)
	end("comp")
}

func probeFunc(sb *strings.Builder, idx int, p probe, arrow bool) {
	var decl strings.Builder
	R, nS := p.rangeText(&decl, "b")
	fmt.Fprintf(sb, "func p%d() {\n\tcurTag = \"P%d\"\n\tdefer rec()\n\tvar a []int\n\tvar capped bool\n\tvar j int\n\t_ = j\n", idx, idx)
	sb.WriteString(decl.String())
	contexts(sb, "\t", R, fmt.Sprintf("\"P%d\"", idx), "0", "0", "0", nS, arrow)
	sb.WriteString("}\n\n")
}

// grid: all (s, e, k) with |s|,|e| <= G, 0 < |k| <= K, bounds read from variables (kinds VVV:
// toForStmt keeps the identifiers in the loop header) and from expressions (AAA: temporaries).
func gridFunc(sb *strings.Builder, G, K int) {
	fmt.Fprintf(sb, "func grid() {\n\tvar a []int\n\tvar capped bool\n\tvar j int\n\t_ = j\n")
	fmt.Fprintf(sb, "\tfor gs := -%d; gs <= %d; gs++ {\n\t\tfor ge := -%d; ge <= %d; ge++ {\n\t\t\tfor gk := -%d; gk <= %d; gk++ {\n", G, G, G, G, K, K)
	sb.WriteString("\t\t\t\tif gk == 0 {\n\t\t\t\t\tcontinue\n\t\t\t\t}\n")
	contexts(sb, "\t\t\t\t", "gs:ge:gk", `"GV"`, "gs", "ge", "gk", 0, false)
	contexts(sb, "\t\t\t\t", "(gs + 0):(ge + 0):(gk + 0)", `"GA"`, "gs", "ge", "gk", 0, true)
	sb.WriteString("\t\t\t\tgn := -gk\n\t\t\t\tgq := &box3{gs, ge, gk}\n")
	contexts(sb, "\t\t\t\t", "gs:ge:-gn", `"GM"`, "gs", "ge", "gk", 0, false)
	contexts(sb, "\t\t\t\t", "gq.s:gq.e:gq.k", `"GQ"`, "gs", "ge", "gk", 0, true)
	sb.WriteString("\t\t\t}\n")
	// omitted parts
	contexts(sb, "\t\t\t", "gs:ge", `"GS"`, "gs", "ge", "1", 0, false)
	sb.WriteString("\t\t}\n")
	sb.WriteString("\t\tge := gs\n")
	contexts(sb, "\t\t", ":ge", `"GE"`, "0", "ge", "1", 0, false)
	fmt.Fprintf(sb, "\t\tfor gk := -%d; gk <= %d; gk++ {\n\t\t\tif gk == 0 {\n\t\t\t\tcontinue\n\t\t\t}\n", K, K)
	contexts(sb, "\t\t\t", ":ge:gk", `"GK"`, "0", "ge", "gk", 0, false)
	sb.WriteString("\t\t}\n\t}\n}\n\n")
}

var fixed = []probe{
	{[3]byte{'L', 'L', 'N'}, 10, 0, -1}, // the known counterexample
	{[3]byte{'L', 'L', 'N'}, 0, 10, -1}, // negative step, start < end: emitted loop runs away
	{[3]byte{'L', 'L', 'L'}, 1, 10, 3},
	{[3]byte{'L', 'L', 'L'}, 0, 3, 1},
	{[3]byte{'_', 'L', '_'}, 0, 10, 1},
	{[3]byte{'L', 'L', '_'}, 1, 5, 1},
	{[3]byte{'_', 'L', 'L'}, 0, 10, 2},
	{[3]byte{'L', 'L', 'L'}, 5, 5, 1},   // zero length
	{[3]byte{'L', 'L', 'L'}, 7, 2, 2},   // start > end, positive step
	{[3]byte{'L', 'L', 'L'}, 0, 3, 100}, // step > span
	{[3]byte{'L', 'L', 'L'}, 0, 3, 0},   // step 0: iterator panics, loop runs away
	{[3]byte{'L', 'L', 'L'}, 3, 0, 0},
	{[3]byte{'P', 'P', 'P'}, 0, 6, 2},
	{[3]byte{'S', 'S', 'S'}, 0, 6, 2},
	{[3]byte{'L', 'S', 'L'}, 0, 6, 2},
	{[3]byte{'L', 'L', 'S'}, 0, 6, 2},
	{[3]byte{'V', 'V', 'V'}, -3, 4, 2},
	{[3]byte{'K', 'K', 'K'}, 9, -2, -4},
	{[3]byte{'A', 'A', 'A'}, -7, 7, 5},
	{[3]byte{'N', 'N', 'N'}, -1, -9, -3},
	{[3]byte{'_', 'N', 'N'}, 0, -9, -3},
	{[3]byte{'L', 'L', 'M'}, 0, 10, 2},  // step written -k with k == -2
	{[3]byte{'L', 'L', 'D'}, 0, 10, 2},  // -(-2)
	{[3]byte{'L', 'L', 'F'}, 0, 10, 2},  // -pv(-2)
	{[3]byte{'L', 'L', 'M'}, 10, 0, -2}, // -k with k == 2
	{[3]byte{'M', 'M', 'M'}, 3, 9, 2},
	{[3]byte{'Q', 'Q', 'Q'}, 0, 3, 1},
	{[3]byte{'X', 'X', 'X'}, -2, 7, 3},
	{[3]byte{'R', 'R', 'R'}, 1, 6, 2},
	{[3]byte{'L', 'Q', '_'}, 0, 3, 1},
	{[3]byte{'D', 'F', 'D'}, -4, 5, 4},
}

// Mutation probes: the loop body changes the variable / field / element an operand reads.
// By the documented meaning (and in the comprehension, whose element expression does the same
// mutation) the operands are evaluated once, before the loop.
type mprobe struct {
	ek, kk  byte // operand form of end and step: L literal, V identifier, R (v), A (v + 0), Q selector, X index, P call reading the variable, M negated identifier
	s, e, k int
}

var formName = map[byte]string{'V': "ident", 'R': "paren", 'A': "arith", 'Q': "selector", 'X': "index", 'P': "call", 'M': "negated-ident"}

func (m mprobe) caseLine(op, ctx string) string {
	return fmt.Sprintf("%s\t%s/L%c%c\t%d\t%d\t%d\t%d", op, ctx, m.ek, m.kk, capN, m.s, m.e, m.k)
}

func mEnd(kind byte, v int) string {
	switch kind {
	case 'V':
		return "me"
	case 'R':
		return "(me)"
	case 'A':
		return "(me + 0)"
	case 'Q':
		return "mqe.n"
	case 'X':
		return "ma[1]"
	case 'P':
		return "pv(me)"
	}
	return strconv.Itoa(v)
}

func mStep(kind byte, v int) string {
	switch kind {
	case 'V':
		return "mk"
	case 'R':
		return "(mk)"
	case 'A':
		return "(mk + 0)"
	case 'Q':
		return "mqk.n"
	case 'X':
		return "ma[2]"
	case 'P':
		return "pv(mk)"
	case 'M':
		return "-mk"
	}
	return strconv.Itoa(v)
}

func mprobeFunc(sb *strings.Builder, idx int, m mprobe) {
	R := fmt.Sprintf("%d:%s:%s", m.s, mEnd(m.ek, m.e), mStep(m.kk, m.k))
	if m.s < 0 {
		R = fmt.Sprintf("-%d:%s:%s", -m.s, mEnd(m.ek, m.e), mStep(m.kk, m.k))
	}
	mk := m.k
	if m.kk == 'M' {
		mk = -m.k
	}
	reset := fmt.Sprintf("\tme, mk, mqe.n, mqk.n, ma[1], ma[2], mutN = %d, %d, %d, %d, %d, %d, 0\n\ta = nil\n\tcapped = false\n", m.e, mk, m.e, m.k, m.e, m.k)
	body := fmt.Sprintf("\t\tbump()\n\t\ta = append(a, i)\n\t\tif len(a) >= %d {\n\t\t\tcapped = true\n\t\t\tbreak\n\t\t}\n\t}\n", capN)
	tag := fmt.Sprintf("\"M%d\"", idx)
	fmt.Fprintf(sb, "func m%d() {\n\tvar a []int\n\tvar capped bool\n\tvar j int\n\t_ = j\n", idx)
	sb.WriteString(reset)
	fmt.Fprintf(sb, "\tfor i in %s {\n%s\temit %s, 0, 0, 0, \"min\", capped, a\n", R, body, tag)
	sb.WriteString(reset)
	fmt.Fprintf(sb, "\tfor i := range %s {\n%s\temit %s, 0, 0, 0, \"mrange\", capped, a\n", R, body, tag)
	sb.WriteString(reset)
	fmt.Fprintf(sb, "\tfor j = range %s {\n%s\temit %s, 0, 0, 0, \"massign\", capped, a\n", R, strings.ReplaceAll(body, "append(a, i)", "append(a, j)"), tag)
	sb.WriteString(reset)
	fmt.Fprintf(sb, "\ta = [bumpx(x) for x in %s]\n\temit %s, 0, 0, 0, \"mcomp\", capped, a\n}\n\n", R, tag)
}

func genMProbes(r *vh.Rand, n int) []mprobe {
	forms := []byte("VRAQXP")
	var ms []mprobe
	add := func(ek, kk byte, rr *vh.Rand) {
		s := rr.Intn(7) - 3
		ms = append(ms, mprobe{ek, kk, s, s + 1 + rr.Intn(8), 1 + rr.Intn(3)})
	}
	i := 0
	for _, f := range forms { // every form as end, as step, as both
		add(f, 'L', r.Fork(i))
		add('L', f, r.Fork(i+1))
		add(f, f, r.Fork(i+2))
		i += 3
	}
	add('L', 'M', r.Fork(i))
	for len(ms) < n {
		i++
		rr := r.Fork(i)
		f := forms[rr.Intn(len(forms))]
		switch rr.Intn(3) {
		case 0:
			add(f, 'L', rr)
		case 1:
			add('L', f, rr)
		default:
			add(f, f, rr)
		}
	}
	return ms
}

func reportMut(o *vh.Out, m mprobe, get func(ctx string) line) {
	comp := get("mcomp")
	form := m.ek
	if form == 'L' {
		form = m.kk
	}
	simple := m.ek == 'V' || m.kk == 'V' // identifiers stay in the loop header (modelled: no temporary)
	o.Count("mutation_probes")
	o.Count("mutation_form_" + formName[form])
	o.Case(m.caseLine("renum", "mcomp"), comp.String(), true)
	var all []string
	bad := false
	for _, c := range []string{"min", "mrange", "massign"} {
		l := get(c)
		if !simple {
			o.Case(m.caseLine("rfor", c), l.String(), true)
		}
		all = append(all, c+"="+l.String())
		if l.String() != comp.String() {
			bad = true
		}
	}
	if bad {
		o.Oracle("mutated-bound-"+formName[form], m.caseLine("rfor", "min"), strings.Join(all, " ")+" mcomp="+comp.String())
	}
}

func genProbe(r *vh.Rand) probe {
	var p probe
	p.s = r.Intn(25) - 12
	switch {
	case r.Chance(15):
		p.e = p.s // zero length
	case r.Chance(10):
		p.e = p.s + r.Intn(3) - 1
	default:
		p.e = r.Intn(25) - 12
	}
	switch {
	case r.Chance(4):
		p.k = 0
	case r.Chance(10):
		p.k = (r.Intn(2)*2 - 1) * (20 + r.Intn(30)) // |step| > |end-start|
	default:
		p.k = r.Intn(6) + 1
		if r.Chance(40) {
			p.k = -p.k
		}
	}
	kind := func(v int) byte {
		ks := "LVKPSAMRQXDF"
		c := ks[r.Intn(len(ks))]
		if c == 'L' && v < 0 {
			c = 'N'
		}
		return c
	}
	p.kinds = [3]byte{kind(p.s), kind(p.e), kind(p.k)}
	if r.Chance(20) {
		p.kinds[0], p.s = '_', 0
	}
	if r.Chance(20) {
		p.kinds[2], p.k = '_', 1
	}
	return p
}

type line struct {
	flag string
	vals string // "1,4,7" or "-"
}

func parseOut(stdout string) map[string]line { // key: tag|s|e|k|ctx
	res := map[string]line{}
	for _, l := range strings.Split(stdout, "\n") {
		f := strings.SplitN(l, " ", 7)
		if len(f) != 7 {
			continue
		}
		v := strings.TrimSuffix(strings.TrimPrefix(f[6], "["), "]")
		v = strings.ReplaceAll(v, " ", ",")
		if v == "" {
			v = "-"
		}
		res[strings.Join(f[:5], "|")] = line{f[5], v}
	}
	return res
}

func (l line) String() string {
	if l.flag == "" {
		return "MISSING"
	}
	if l.flag == "panic" {
		return "panic"
	}
	return l.flag + " " + l.vals
}

var stmtCtx = []string{"in", "range", "assign"}

func evens(l line) line {
	if l.vals == "-" || l.flag != "done" {
		return l
	}
	var out []string
	for _, v := range strings.Split(l.vals, ",") {
		n, _ := strconv.Atoi(v)
		if n%2 == 0 {
			out = append(out, v)
		}
	}
	if len(out) == 0 {
		return line{l.flag, "-"}
	}
	return line{l.flag, strings.Join(out, ",")}
}

func zeros(l line) line {
	if l.vals == "-" || l.flag == "panic" || l.flag == "" {
		return l
	}
	n := len(strings.Split(l.vals, ","))
	return line{l.flag, strings.TrimSuffix(strings.Repeat("0,", n), ",")}
}

// report one probe: case lines for model comparison + the property oracle on the implementation
func report(o *vh.Out, p probe, get func(ctx string) line) {
	_, _, k := p.eff()
	comp := get("comp")
	for _, c := range stmtCtx {
		l := get(c)
		o.Case(p.caseLine("rfor", c), l.String(), l.vals != "-" || k < 0)
	}
	o.Case(p.caseLine("renum", "comp"), comp.String(), comp.vals != "-")
	o.Count("probes")
	switch {
	case k == 0:
		o.Count("step_zero")
		return // outside the property (step must be non-zero); model comparison only
	case k < 0:
		o.Count("step_neg")
	default:
		o.Count("step_pos")
	}
	if comp.vals == "-" {
		o.Count("seq_empty")
	} else {
		o.Count("seq_nonempty")
	}
	key := "contexts-differ"
	if k < 0 {
		key = "neg-step-forstmt"
	}
	var all []string
	bad := false
	for _, c := range stmtCtx {
		l := get(c)
		all = append(all, c+"="+l.String())
		if l.String() != comp.String() {
			bad = true
		}
	}
	if l := get("count"); l.String() != zeros(comp).String() {
		bad = true
		all = append(all, "count="+l.String())
	}
	if l := get("cond"); l.flag != "cap" && l.String() != evens(comp).String() {
		bad = true
		all = append(all, "cond="+l.String())
	}
	if bad {
		o.Oracle(key, p.caseLine("rfor", "in"), strings.Join(all, " ")+" comp="+comp.String())
	}
}

func run(f *vh.Flags, o *vh.Out, probes []probe, mprobes []mprobe, G, K int) error {
	var sb strings.Builder
	sb.WriteString(prelude)
	r := vh.NewRand(f.Seed ^ 0x5bd1e995)
	for i, p := range probes {
		probeFunc(&sb, i, p, r.Bool())
	}
	for i, m := range mprobes {
		mprobeFunc(&sb, i, m)
	}
	if G > 0 {
		gridFunc(&sb, G, K)
	}
	for i := range probes {
		fmt.Fprintf(&sb, "p%d()\n", i)
	}
	for i := range mprobes {
		fmt.Fprintf(&sb, "m%d()\n", i)
	}
	if G > 0 {
		sb.WriteString("grid()\n")
	}
	src := sb.String()
	os.WriteFile(filepath.Join(f.Out, "prog.xgo"), []byte(src), 0o644)
	t0 := time.Now()
	gosrc, err := xrun.CompileFile("main.xgo", src, false)
	if err != nil {
		return fmt.Errorf("the generated XGo program does not compile: %v", err)
	}
	o.Stats["ms_xgo_compile"] = int(time.Since(t0).Milliseconds())
	os.WriteFile(filepath.Join(f.Out, "prog.go.txt"), gosrc, 0o644)
	t0 = time.Now()
	res, err := xrun.RunBatch(filepath.Join(f.Out, "build"), [][]byte{gosrc}, 120*time.Second)
	o.Stats["ms_go_build_run"] = int(time.Since(t0).Milliseconds())
	os.RemoveAll(filepath.Join(f.Out, "build"))
	if err != nil {
		return err
	}
	if res[0].BuildErr != "" || res[0].Timeout || res[0].Exit != 0 {
		msg := res[0].String()
		if len(msg) > 1500 {
			msg = msg[:1500]
		}
		return fmt.Errorf("generated program failed: %s", msg)
	}
	out := parseOut(res[0].Stdout)
	for i, m := range mprobes {
		tag := fmt.Sprintf("M%d|0|0|0|", i)
		reportMut(o, m, func(ctx string) line { return out[tag+ctx] })
	}
	for i, p := range probes {
		tag := fmt.Sprintf("P%d|0|0|0|", i)
		report(o, p, func(ctx string) line { return out[tag+ctx] })
	}
	if G > 0 {
		grid := func(tag string, kinds string, s, e, k int) {
			p := probe{[3]byte{kinds[0], kinds[1], kinds[2]}, s, e, k}
			ps, pe, pk := p.eff()
			key := fmt.Sprintf("%s|%d|%d|%d|", tag, ps, pe, pk)
			report(o, p, func(ctx string) line { return out[key+ctx] })
		}
		for s := -G; s <= G; s++ {
			for e := -G; e <= G; e++ {
				for k := -K; k <= K; k++ {
					if k != 0 {
						grid("GV", "VVV", s, e, k)
						grid("GA", "AAA", s, e, k)
						grid("GM", "VVM", s, e, k)
						grid("GQ", "QQQ", s, e, k)
					}
				}
				grid("GS", "VV_", s, e, 1)
			}
			grid("GE", "_V_", 0, s, 1)
			for k := -K; k <= K; k++ {
				if k != 0 {
					grid("GK", "_VV", 0, s, k)
				}
			}
		}
		// omitted parts mean 0 / 1 (on the implementation): `:e` vs `0:e:1`, `s:e` vs `s:e:1`, `:e:k` vs `0:e:k`
		for s := -G; s <= G; s++ {
			for _, c := range append(append([]string{}, stmtCtx...), "comp") {
				if a, b := out[fmt.Sprintf("GE|0|%d|1|%s", s, c)], out[fmt.Sprintf("GV|0|%d|1|%s", s, c)]; a != b {
					o.Oracle("omitted-default", fmt.Sprintf("rfor\t%s/_V_\t%d\t_\t%d\t_", c, capN, s), a.String()+" vs explicit "+b.String())
				}
				for e := -G; e <= G; e++ {
					if a, b := out[fmt.Sprintf("GS|%d|%d|1|%s", s, e, c)], out[fmt.Sprintf("GV|%d|%d|1|%s", s, e, c)]; a != b {
						o.Oracle("omitted-default", fmt.Sprintf("rfor\t%s/VV_\t%d\t%d\t%d\t_", c, capN, s, e), a.String()+" vs explicit "+b.String())
					}
				}
				for k := -K; k <= K; k++ {
					if k == 0 {
						continue
					}
					if a, b := out[fmt.Sprintf("GK|0|%d|%d|%s", s, k, c)], out[fmt.Sprintf("GV|0|%d|%d|%s", s, k, c)]; a != b {
						o.Oracle("omitted-default", fmt.Sprintf("rfor\t%s/_VV\t%d\t_\t%d\t%d", c, capN, s, k), a.String()+" vs explicit "+b.String())
					}
				}
			}
		}
	}
	return nil
}

func parseReplay(s string) (probe, error) {
	f := strings.Fields(strings.ReplaceAll(s, "\t", " "))
	var p probe
	if len(f) != 6 {
		return p, fmt.Errorf("bad replay line %q", s)
	}
	i := strings.IndexByte(f[1], '/')
	if i < 0 || len(f[1]) != i+4 {
		return p, fmt.Errorf("bad ctx/kinds %q", f[1])
	}
	copy(p.kinds[:], f[1][i+1:])
	if f[3] != "_" {
		p.s, _ = strconv.Atoi(f[3])
	}
	p.e, _ = strconv.Atoi(f[4])
	p.k = 1
	if f[5] != "_" {
		p.k, _ = strconv.Atoi(f[5])
	}
	return p, nil
}

func main() {
	f := vh.ParseFlags()
	f.Out, _ = filepath.Abs(f.Out)
	// the in-process importer resolves packages (fmt, github.com/qiniu/x/xgo) with the go
	// command in the current directory: use the module of the tree under test
	os.Chdir(xrun.Repo())
	o := vh.NewOut(f.Out)
	o.Samples = []string{}
	defer o.Close()
	if f.Replay != "" {
		p, err := parseReplay(f.Replay)
		if err == nil {
			if fs := strings.Fields(strings.ReplaceAll(f.Replay, "\t", " ")); strings.HasPrefix(fs[1], "m") {
				err = run(f, o, nil, []mprobe{{p.kinds[1], p.kinds[2], p.s, p.e, p.k}}, 0, 0)
			} else {
				err = run(f, o, []probe{p}, nil, 0, 0)
			}
		}
		if err != nil {
			fmt.Println(err)
			o.Close()
			os.Exit(1)
		}
		return
	}
	probes := append([]probe{}, fixed...)
	r := vh.NewRand(f.Seed)
	for i := 0; i < f.N; i++ {
		probes = append(probes, genProbe(r.Fork(i)))
	}
	G, K := 8, 6
	if f.Tier == "thorough" {
		G, K = 12, 12
	}
	o.Stats["grid_G"], o.Stats["grid_K"] = G, K
	nm := 40
	if f.Tier == "thorough" {
		nm = 300
	}
	if err := run(f, o, probes, genMProbes(vh.NewRand(f.Seed^0x6d75), nm), G, K); err != nil {
		fmt.Println(err)
		o.Close()
		os.Exit(1)
	}
	kinds := map[string]int{}
	for _, p := range probes {
		kinds[string(p.kinds[:])]++
	}
	ks := make([]string, 0, len(kinds))
	for k := range kinds {
		ks = append(ks, k)
	}
	sort.Strings(ks)
	o.Stats["distinct_kind_triples"] = len(ks)
}
