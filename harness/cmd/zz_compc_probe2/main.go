package main

import (
	"fmt"
	"time"

	"verifharness/compcx"
)

func main() {

	for i := 0; i < 4; i++ {
		t := time.Now()
		_, err := compcx.CompileFile("main.xgo", fmt.Sprintf("echo %d\n", i))
		fmt.Println(i, time.Since(t), err)
	}
	t := time.Now()
	_, err := compcx.CompileFile("main.xgo", "var b bool\nfunc f(a int) {}\nf b\n")
	fmt.Println("err case", time.Since(t), err)
	t = time.Now()
	_, err = compcx.CompileFile("main.xgo", "echo 5\n")
	fmt.Println("after", time.Since(t), err)
}
