// Correspondence + oracle harness for C12 (recorded type information obeys its invariants).
//
//   - every program (corpus files of the tree under test that type-check, generated XGo programs,
//     generated Go-compatible programs) is checked with the REAL typesutil.NewChecker(...).Files(...);
//     oracle on the dumped Info: Defs[id]==nil or at id's position, Uses[id] elsewhere, every node of
//     Types/Scopes (and Selections/Implicits) inside the checked files;
//   - Go-compatible programs are also checked by go/types on the same text: every identifier go/types
//     resolves must be recorded by typesutil with the same object kind, name, type string and
//     declaration offset;
//   - the Lean scope model `resolve` is compared with go/types on the linearised function bodies
//     (driver op "scope").
package main

import (
	"fmt"
	goast "go/ast"
	goparser "go/parser"
	"go/types"
	"io"
	"os"
	"os/exec"
	"path/filepath"
	"reflect"
	"sort"
	"strings"
	"sync"
	"time"

	"github.com/goplus/gogen/packages"
	"github.com/goplus/xgo/ast"
	"github.com/goplus/xgo/cl"
	"github.com/goplus/xgo/parser"
	"github.com/goplus/xgo/token"
	"github.com/goplus/xgo/x/typesutil"
	"verifharness/vh"
)

func repo() string {
	if r := os.Getenv("VERIF_REPO"); r != "" {
		return r
	}
	return "/repo"
}

// ---- importer with a pre-filled export table (one `go list -export -deps`) --------------------

type expCache struct {
	mu sync.Mutex
	m  map[string]string
}

func goList(args ...string) ([]byte, error) {
	cmd := exec.Command("go", append([]string{"list", "-export", "-e"}, args...)...)
	cmd.Dir = repo()
	cmd.Env = append(os.Environ(), "GOFLAGS=-mod=mod", "GOPROXY=off", "GOSUMDB=off", "GOTOOLCHAIN=local", "CGO_ENABLED=0")
	return cmd.Output()
}

func (c *expCache) load() {
	c.m = map[string]string{}
	out, _ := goList("-deps", "-f", "{{.ImportPath}}\t{{.Export}}", "fmt", "math", "strings", "strconv", "errors", "os", "sort", "time",
		"reflect", "runtime", "io", "bytes", "math/big", "github.com/qiniu/x/stringutil", "github.com/qiniu/x/stringslice", "github.com/qiniu/x/errors",
		"github.com/qiniu/x/xgo/ng", "github.com/qiniu/x/xgo", "github.com/qiniu/x/osx",
		"encoding/json", "regexp", "bufio", "github.com/goplus/lib/c", "github.com/goplus/lib/py", "github.com/goplus/lib/py/math", "github.com/goplus/lib/py/numpy",
		"github.com/goplus/lib/py/std", "github.com/goplus/xgo/ast", "github.com/goplus/xgo/cl/internal/huh", "github.com/goplus/xgo/cl/internal/unit",
		"github.com/goplus/xgo/parser", "github.com/goplus/xgo/scanner", "github.com/goplus/xgo/token", "github.com/goplus/xgo/tpl/...")
	for _, l := range strings.Split(string(out), "\n") {
		if f := strings.SplitN(l, "\t", 2); len(f) == 2 && f[1] != "" {
			c.m[f[0]] = f[1]
		}
	}
}

var nFallback int

func (c *expCache) Find(dir, pkgPath string) (io.ReadCloser, error) {
	c.mu.Lock()
	f, ok := c.m[pkgPath]
	c.mu.Unlock()
	if !ok {
		nFallback++
		if os.Getenv("C12_DEBUG") != "" {
			fmt.Fprintln(os.Stderr, "FALLBACK", pkgPath)
		}
		out, err := goList("-f", "{{.Export}}", pkgPath)
		if err != nil {
			return nil, fmt.Errorf("go list -export %s: %v", pkgPath, err)
		}
		f = strings.TrimSpace(string(out))
		c.mu.Lock()
		c.m[pkgPath] = f
		c.mu.Unlock()
	}
	if f == "" {
		return nil, fmt.Errorf("no export data for %s", pkgPath)
	}
	return os.Open(f)
}

var (
	fset *token.FileSet
	imp  *packages.Importer
)

func setup() {
	fset = token.NewFileSet()
	imp = packages.NewImporter(fset)
	c := &expCache{}
	c.load()
	imp.SetCache(c)
}

func newInfo() *typesutil.Info {
	return &typesutil.Info{
		Types:      make(map[ast.Expr]types.TypeAndValue),
		Defs:       make(map[*ast.Ident]types.Object),
		Uses:       make(map[*ast.Ident]types.Object),
		Implicits:  make(map[ast.Node]types.Object),
		Selections: make(map[*ast.SelectorExpr]*types.Selection),
		Scopes:     make(map[ast.Node]*types.Scope),
		Overloads:  make(map[*ast.Ident]types.Object),
	}
}

type checked struct {
	files []*ast.File
	info  *typesutil.Info
	pkg   *types.Package
	errs  []string
	panic string
}

// checkXGo runs the real checker over XGo sources (name → text); Go files are passed as goFiles.
func checkXGo(srcs map[string]string) (res *checked, perr error) {
	res = &checked{info: newInfo()}
	var names []string
	for n := range srcs {
		names = append(names, n)
	}
	sort.Strings(names)
	var gofiles []*goast.File
	pkgName := "main"
	for _, n := range names {
		if strings.HasSuffix(n, ".go") {
			f, err := goparser.ParseFile(fset, n, srcs[n], goparser.ParseComments)
			if err != nil {
				return nil, err
			}
			gofiles = append(gofiles, f)
			continue
		}
		f, err := parser.ParseEntry(fset, n, srcs[n], parser.Config{Mode: parser.ParseComments})
		if err != nil {
			return nil, err
		}
		res.files = append(res.files, f)
		pkgName = f.Name.Name
	}
	res.pkg = types.NewPackage("main", pkgName)
	conf := &types.Config{Importer: imp, Error: func(err error) { res.errs = append(res.errs, err.Error()) }}
	ginfo := &types.Info{Defs: map[*goast.Ident]types.Object{}, Uses: map[*goast.Ident]types.Object{}}
	func() {
		defer func() {
			if r := recover(); r != nil {
				res.panic = fmt.Sprint(r)
			}
		}()
		chk := typesutil.NewChecker(conf, &typesutil.Config{Types: res.pkg, Fset: fset}, ginfo, res.info)
		if err := chk.Files(gofiles, res.files); err != nil && len(res.errs) == 0 {
			res.errs = append(res.errs, err.Error())
		}
	}()
	return res, nil
}

func objKind(o types.Object) string {
	if o == nil {
		return "nil"
	}
	k := strings.TrimPrefix(reflect.TypeOf(o).String(), "*types.")
	if v, ok := o.(*types.Var); ok && v.IsField() {
		k = "Field"
	}
	return k
}

func nodeKind(n interface{}) string {
	if n == nil {
		return "nil"
	}
	return strings.TrimPrefix(strings.TrimPrefix(reflect.TypeOf(n).String(), "*ast."), "*")
}

// ---- the invariants of Info --------------------------------------------------------------

func inFiles(files []*ast.File, pos, end token.Pos) bool {
	if !pos.IsValid() {
		return false
	}
	for _, f := range files {
		tf := fset.File(f.Pos())
		if tf == nil {
			continue
		}
		lo, hi := token.Pos(tf.Base()), token.Pos(tf.Base()+tf.Size())
		if pos >= lo && pos <= hi && (!end.IsValid() || (end >= lo && end <= hi)) {
			return true
		}
	}
	return false
}

func embeddedName(t ast.Expr) *ast.Ident {
	for {
		switch v := t.(type) {
		case *ast.Ident:
			return v
		case *ast.StarExpr:
			t = v.X
		case *ast.SelectorExpr:
			return v.Sel
		default:
			return nil
		}
	}
}

func exprText(e ast.Expr) string {
	if id, ok := e.(*ast.Ident); ok {
		return id.Name
	}
	return ""
}

func safeSpan(n ast.Node) (pos, end token.Pos) {
	if n == nil || reflect.ValueOf(n).IsNil() {
		return
	}
	defer func() {
		if recover() != nil {
			end = token.NoPos
		}
	}()
	pos = n.Pos()
	end = n.End()
	return
}

// identContexts: how each identifier of the files is used syntactically (for finer oracle keys).
func identContexts(files []*ast.File) map[*ast.Ident]string {
	res := map[*ast.Ident]string{}
	set := func(e ast.Expr, ctx string) {
		if id, ok := e.(*ast.Ident); ok && id != nil {
			res[id] = ctx
		}
	}
	for _, f := range files {
		ast.Inspect(f, func(n ast.Node) bool {
			switch v := n.(type) {
			case *ast.AssignStmt:
				if v.Tok == token.DEFINE {
					for i, l := range v.Lhs {
						if i == 0 {
							set(l, "define-first")
						} else {
							set(l, "define-nonfirst")
						}
					}
				}
			case *ast.RangeStmt:
				if v.Tok == token.DEFINE {
					set(v.Key, "range-var")
					set(v.Value, "range-var")
				}
			case *ast.ForPhrase:
				if v.Key != nil {
					res[v.Key] = "forphrase-var"
				}
				if v.Value != nil {
					res[v.Value] = "forphrase-var"
				}
			case *ast.ForPhraseStmt:
				if v.ForPhrase != nil {
					if v.Key != nil {
						res[v.Key] = "forphrase-var"
					}
					if v.Value != nil {
						res[v.Value] = "forphrase-var"
					}
				}
			case *ast.ComprehensionExpr:
				for _, fp := range v.Fors {
					if fp.Key != nil {
						res[fp.Key] = "forphrase-var"
					}
					if fp.Value != nil {
						res[fp.Value] = "forphrase-var"
					}
				}
			case *ast.LambdaExpr:
				for _, id := range v.Lhs {
					res[id] = "lambda-param"
				}
			case *ast.LambdaExpr2:
				for _, id := range v.Lhs {
					res[id] = "lambda-param"
				}
			case *ast.Field:
				for _, id := range v.Names {
					res[id] = "field-or-param"
				}
				if len(v.Names) == 0 {
					if id := embeddedName(v.Type); id != nil {
						res[id] = "embedded-field"
					}
				}
			case *ast.ValueSpec:
				for _, id := range v.Names {
					res[id] = "valuespec"
				}
				if len(v.Names) == 0 { // class-file field block: embedded field
					if id := embeddedName(v.Type); id != nil {
						res[id] = "embedded-field"
					}
				}
			case *ast.TypeSpec:
				res[v.Name] = "typespec"
			case *ast.FuncDecl:
				res[v.Name] = "funcdecl"
			case *ast.ImportSpec:
				if v.Name != nil {
					res[v.Name] = "importspec"
				}
			case *ast.LabeledStmt:
				res[v.Label] = "label"
			}
			return true
		})
	}
	return res
}

func invariants(o *vh.Out, c *checked, origin, caseLine string) {
	ctxOf := identContexts(c.files)
	inAST := map[*ast.Ident]bool{}
	for _, f := range c.files {
		ast.Inspect(f, func(n ast.Node) bool {
			if id, ok := n.(*ast.Ident); ok {
				inAST[id] = true
			}
			return true
		})
	}
	cx := func(id *ast.Ident) string {
		if strings.HasPrefix(id.Name, "_gop_") || strings.HasPrefix(id.Name, "_xgo_") {
			return "synthesized-name"
		}
		if s, ok := ctxOf[id]; ok {
			return s
		}
		if !inAST[id] {
			return "outside-file-ast"
		}
		return "other"
	}
	where := func(p token.Pos) string {
		if !p.IsValid() {
			return "-"
		}
		return fset.Position(p).String()
	}
	for id, obj := range c.info.Defs {
		o.Count("defs")
		if obj == nil {
			o.Count("defs_nil")
			continue
		}
		if obj.Pos() != id.Pos() {
			o.Oracle("defs-not-at-own-pos:"+objKind(obj)+":"+cx(id), caseLine,
				fmt.Sprintf("%s: Defs[%s @%s] = %s declared at %s", origin, id.Name, where(id.Pos()), objKind(obj), where(obj.Pos())))
		}
		if !inFiles(c.files, id.Pos(), id.End()) {
			o.Count("defs_ident_outside_files")
		}
	}
	for id, obj := range c.info.Uses {
		o.Count("uses")
		if obj == nil {
			o.Oracle("uses-nil", caseLine, fmt.Sprintf("%s: Uses[%s @%s] = nil", origin, id.Name, where(id.Pos())))
			continue
		}
		if !id.Pos().IsValid() {
			o.Count("uses_synthesized_ident") // an identifier the compiler made up: it has no position to compare
			continue
		}
		if obj.Pos() == id.Pos() {
			o.Oracle("uses-at-own-pos:"+objKind(obj)+":"+cx(id), caseLine,
				fmt.Sprintf("%s: Uses[%s @%s] is declared at the same position", origin, id.Name, where(id.Pos())))
		}
	}
	for e := range c.info.Types {
		o.Count("types")
		if e == nil || reflect.ValueOf(e).IsNil() {
			o.Oracle("types-nil-key", caseLine, origin+": Types has an entry whose key is a nil expression")
			continue
		}
		if ps, en := safeSpan(e); !inFiles(c.files, ps, en) {
			if !ps.IsValid() {
				kind := nodeKind(e)
				if id, ok := e.(*ast.Ident); ok {
					for _, f := range c.files {
						if cls, _, _ := cl.ClassNameAndExt(fset.Position(f.Pos()).Filename); f.IsClass && cls == id.Name {
							kind = "Ident:classfile-receiver-type"
						}
					}
				}
				o.Oracle("types-node-without-position:"+kind, caseLine, fmt.Sprintf("%s: Types has a %s without position: %s", origin, nodeKind(e), exprText(e)))
			} else {
				o.Oracle("types-node-outside-files:"+nodeKind(e), caseLine, fmt.Sprintf("%s: Types has a %s at %s..%s", origin, nodeKind(e), where(e.Pos()), where(e.End())))
			}
		}
	}
	for n := range c.info.Scopes {
		o.Count("scopes")
		if ps, en := safeSpan(n); !inFiles(c.files, ps, en) {
			o.Oracle("scopes-node-outside-files:"+nodeKind(n), caseLine, fmt.Sprintf("%s: Scopes has a %s at %s..%s", origin, nodeKind(n), where(ps), where(en)))
		}
	}
	for n := range c.info.Selections {
		o.Count("selections")
		if ps, en := safeSpan(n); !inFiles(c.files, ps, en) {
			o.Oracle("selections-node-outside-files", caseLine, fmt.Sprintf("%s: Selections has a node at %s", origin, where(n.Pos())))
		}
	}
	for n := range c.info.Implicits {
		o.Count("implicits")
		if ps, en := safeSpan(n); !inFiles(c.files, ps, en) {
			o.Oracle("implicits-node-outside-files:"+nodeKind(n), caseLine, fmt.Sprintf("%s: Implicits has a %s at %s", origin, nodeKind(n), where(ps)))
		}
	}
}

// ---- Go-compatible programs: typesutil vs go/types ---------------------------------------

type goChecked struct {
	files []*goast.File
	info  *types.Info
	errs  []string
}

// fileStride separates the offsets of the files of one program: global offset = index*fileStride + offset.
const fileStride = 10000000

// globalOff maps a position to (index of its file in the program)*fileStride + offset; -1 if unknown.
func globalOff(bases []int, p token.Pos) int {
	if !p.IsValid() {
		return -1
	}
	f := fset.File(p)
	if f == nil {
		return -1
	}
	for i, b := range bases {
		if b == f.Base() {
			return i*fileStride + int(p) - b
		}
	}
	return -1
}

func (g *goChecked) bases() []int {
	var bs []int
	for _, f := range g.files {
		bs = append(bs, fset.File(f.Pos()).Base())
	}
	return bs
}

func checkGo(names, srcs []string) (*goChecked, error) {
	g := &goChecked{info: &types.Info{
		Defs: map[*goast.Ident]types.Object{}, Uses: map[*goast.Ident]types.Object{},
		Types: map[goast.Expr]types.TypeAndValue{}, Selections: map[*goast.SelectorExpr]*types.Selection{},
		Implicits: map[goast.Node]types.Object{},
	}}
	for i := range names {
		f, err := goparser.ParseFile(fset, names[i], srcs[i], goparser.ParseComments)
		if err != nil {
			return nil, err
		}
		g.files = append(g.files, f)
	}
	conf := &types.Config{Importer: imp, Error: func(err error) { g.errs = append(g.errs, err.Error()) }}
	conf.Check("main", fset, g.files, g.info)
	return g, nil
}

// varInitSeesOuter: some `var x … = …x…` inside a function whose right-hand x is (by Go's scope
// rules) an OUTER x, not the one being declared.
func varInitSeesOuter(g *goChecked) bool { return len(varInitOuterIdents(g)) > 0 }

// varInitOuterIdents: the identifiers inside `var x … = …x…` (local) that name the declared variable
// but denote, by Go's scope rules, an outer entity.
func varInitOuterIdents(g *goChecked) map[*goast.Ident]bool {
	res := map[*goast.Ident]bool{}
	found := false
	for _, gf := range g.files {
		goast.Inspect(gf, func(n goast.Node) bool {
			ds, ok := n.(*goast.DeclStmt)
			if !ok {
				return true
			}
			gd := ds.Decl.(*goast.GenDecl)
			for _, sp := range gd.Specs {
				vs, ok := sp.(*goast.ValueSpec)
				if !ok {
					continue
				}
				names := map[string]bool{}
				for _, n := range vs.Names {
					names[n.Name] = true
				}
				for _, v := range vs.Values {
					goast.Inspect(v, func(m goast.Node) bool {
						if id, ok := m.(*goast.Ident); ok && names[id.Name] && g.info.Uses[id] != nil {
							found = true
							res[id] = true
						}
						return true
					})
				}
			}
			return true
		})
	}
	_ = found
	return res
}

func typeStr(t types.Type) string {
	if t == nil {
		return "<nil>"
	}
	return types.TypeString(t, func(p *types.Package) string { return p.Name() })
}

func compareWithGo(o *vh.Out, g *goChecked, c *checked, caseLine string) {
	// offsets are per program: file i of the Go side corresponds to file i of the XGo side
	var bases []int
	bases = append(bases, g.bases()...)
	gn := len(bases)
	for _, xf := range c.files {
		bases = append(bases, fset.File(xf.Pos()).Base())
	}
	off := func(p token.Pos) int {
		v := globalOff(bases, p)
		if v >= gn*fileStride {
			v -= gn * fileStride
		}
		return v
	}
	// XGo identifiers by offset
	// XGo identifiers by offset, one table per map (an embedded field's identifier is in BOTH maps:
	// "Defs returns the field *Var it defines", "Uses returns the *TypeName it denotes")
	xdefs := map[int]types.Object{}
	for id, obj := range c.info.Defs {
		if obj != nil {
			xdefs[off(id.Pos())] = obj
		}
	}
	xuses := map[int]types.Object{}
	for id, obj := range c.info.Uses {
		if obj != nil {
			xuses[off(id.Pos())] = obj
		}
	}
	// the declaration of an object = the identifier whose Defs entry it is (independent of Object.Pos)
	gdef := map[types.Object]int{}
	for id, obj := range g.info.Defs {
		if obj != nil {
			gdef[obj] = off(id.Pos())
		}
	}
	xdef := map[types.Object]int{}
	for id, obj := range c.info.Defs {
		if obj != nil {
			xdef[obj] = off(id.Pos())
		}
	}
	selfInit := varInitOuterIdents(g)
	cmp := func(id *goast.Ident, gobj types.Object, role string) {
		if gobj == nil || id.Name == "_" {
			return
		}
		o.Count("go_idents")
		table, other := xdefs, xuses
		if role == "use" {
			table, other = xuses, xdefs
		}
		xobj, ok := table[off(id.Pos())]
		kind := objKind(gobj)
		if !ok {
			if _, swapped := other[off(id.Pos())]; swapped {
				o.Count("ident_recorded_in_other_map_only")
			}
			o.Count("ident_missing_" + role + "_" + kind)
			o.Oracle("ident-not-recorded:"+role+":"+kind, caseLine,
				fmt.Sprintf("identifier %s at offset %d: go/types has %s %s (%s), typesutil records nothing", id.Name, off(id.Pos()), role, kind, typeStr(gobj.Type())))
			return
		}
		if k2 := objKind(xobj); k2 != kind {
			o.Oracle("ident-object-differs:kind:"+kind, caseLine, fmt.Sprintf("identifier %s at offset %d: go/types %s, typesutil %s", id.Name, off(id.Pos()), kind, k2))
			return
		}
		if xobj.Name() != gobj.Name() {
			o.Oracle("ident-object-differs:name:"+kind, caseLine, fmt.Sprintf("identifier %s at offset %d: go/types object %s, typesutil object %s", id.Name, off(id.Pos()), gobj.Name(), xobj.Name()))
		}
		if kind != "PkgName" && typeStr(xobj.Type()) != typeStr(gobj.Type()) {
			o.Oracle("ident-object-differs:type:"+kind, caseLine, fmt.Sprintf("identifier %s at offset %d: go/types type %s, typesutil type %s", id.Name, off(id.Pos()), typeStr(gobj.Type()), typeStr(xobj.Type())))
		}
		if gp, ok1 := gdef[gobj]; ok1 {
			if xp, ok2 := xdef[xobj]; ok2 && gp != xp {
				suffix := ""
				if selfInit[id] {
					suffix = ":var-initialiser-names-outer-variable"
				}
				o.Oracle("ident-object-differs:declaration:"+kind+suffix, caseLine, fmt.Sprintf("identifier %s at offset %d: go/types resolves it to the declaration at offset %d, typesutil to the one at %d", id.Name, off(id.Pos()), gp, xp))
			} else if !ok2 {
				o.Count("decl_of_object_not_in_defs")
			}
		}
		if off(gobj.Pos()) != off(xobj.Pos()) && gobj.Pkg() != nil && gobj.Pkg().Path() == "main" {
			o.Count("object_pos_differs_from_gotypes")
		}
	}
	for id, obj := range g.info.Defs {
		cmp(id, obj, "def")
	}
	for id, obj := range g.info.Uses {
		cmp(id, obj, "use")
	}
	// expression types: every expression go/types has a type for must be in typesutil's Types
	// (agreement of the type strings is counted only: untyped constants are recorded differently)
	parents := map[goast.Expr]goast.Node{}
	var stack []goast.Node
	for _, gf := range g.files {
		goast.Inspect(gf, func(n goast.Node) bool {
			if n == nil {
				stack = stack[:len(stack)-1]
				return true
			}
			if e, ok := n.(goast.Expr); ok && len(stack) > 0 {
				parents[e] = stack[len(stack)-1]
			}
			stack = append(stack, n)
			return true
		})
	}
	type key struct{ lo, hi int }
	xt := map[key]types.TypeAndValue{}
	for e, tv := range c.info.Types {
		if ps, en := safeSpan(e); ps.IsValid() {
			xt[key{off(ps), off(en)}] = tv
		}
	}
	for e, tv := range g.info.Types {
		k := key{off(e.Pos()), off(e.End())}
		kind := strings.TrimPrefix(reflect.TypeOf(e).String(), "*ast.")
		o.Count("go_types_" + kind)
		x, ok := xt[k]
		if !ok {
			o.Count("types_missing_" + kind)
			// Info.Types: "maps expressions to their types … invalid expressions are omitted"
			par, ok := parents[e]
			if !ok {
				o.Count("gotypes_synthesized_expr") // e.g. the literal 1 go/types makes up for x++
				continue
			}
			ctx := ":in-" + strings.TrimPrefix(reflect.TypeOf(par).String(), "*ast.")
			o.Oracle("types-not-recorded:"+kind+ctx, caseLine, fmt.Sprintf("%s at offset %d..%d: go/types records type %s, typesutil records nothing", kind, k.lo, k.hi, typeStr(tv.Type)))
			continue
		}
		if typeStr(x.Type) != typeStr(tv.Type) {
			o.Count("types_differ_" + kind)
		}
	}
}

// ---- programs ----------------------------------------------------------------------------

// corpusDirs: every directory of the tree under test (any depth) that holds XGo source files
// (*.xgo, *.gop, *.gox), in sorted order.  Nested git worktrees / checkouts and hidden directories
// are skipped.
func corpusDirs() []string {
	root := repo()
	seen := map[string]bool{}
	filepath.Walk(root, func(path string, fi os.FileInfo, err error) error {
		if err != nil {
			return nil
		}
		if fi.IsDir() {
			base := filepath.Base(path)
			if path != root {
				if strings.HasPrefix(base, ".") {
					return filepath.SkipDir
				}
				if _, err := os.Stat(filepath.Join(path, ".git")); err == nil {
					return filepath.SkipDir // somebody's worktree
				}
			}
			return nil
		}
		switch filepath.Ext(path) {
		case ".xgo", ".gop", ".gox":
			seen[filepath.Dir(path)] = true
		}
		return nil
	})
	var res []string
	for d := range seen {
		res = append(res, d)
	}
	sort.Strings(res)
	return res
}

func main() {
	f := vh.ParseFlags()
	o := vh.NewOut(f.Out)
	defer o.Close()
	os.Chdir(repo())
	setup()
	runGo := func(seed uint64, idx int) {
		srcs, stats := genGoProgram(vh.NewRand(seed).Fork(idx))
		src := strings.Join(srcs, "\n// ---- next file ----\n")
		line := fmt.Sprintf("goprog\t%d\t%d", seed, idx)
		var gnames []string
		xsrcs := map[string]string{}
		for i, t := range srcs {
			gnames = append(gnames, fmt.Sprintf("g%d_%d_%c.go", seed, idx, 'a'+i))
			xsrcs[fmt.Sprintf("x%d_%d_%c.xgo", seed, idx, 'a'+i)] = t // sorted like the Go files
		}
		o.Count(fmt.Sprintf("go_program_files_%d", len(srcs)))
		g, err := checkGo(gnames, srcs)
		if err != nil {
			o.Count("gen_go_unparseable")
			if os.Getenv("C12_DEBUG") != "" {
				fmt.Fprintln(os.Stderr, err, "\n"+src)
			}
			return
		}
		if len(g.errs) > 0 {
			o.Count("gen_go_type_errors")
			if os.Getenv("C12_DEBUG") != "" {
				fmt.Fprintln(os.Stderr, g.errs[0])
			}
			return // only programs go/types accepts are "Go-compatible programs"
		}
		for k, v := range stats {
			o.Stats[k] += v
		}
		c, err := checkXGo(xsrcs)
		if err != nil {
			o.Oracle("go-program-rejected-by-xgo-parser", line, err.Error())
			return
		}
		if c.panic != "" {
			o.Oracle("checker-panic", line, c.panic)
			return
		}
		o.Count("go_programs")
		if len(c.errs) > 0 {
			o.Count("go_programs_with_xgo_errors")
			key := "go-program-rejected-by-checker:other"
			if varInitSeesOuter(g) {
				key = "go-program-rejected-by-checker:var-initialiser-names-outer-variable"
			}
			o.Oracle(key, line, c.errs[0])
			return
		}
		invariants(o, c, "generated Go-compatible program", line)
		compareWithGo(o, g, c, line)
		// the scope model against go/types
		pkgEnv, toks, expect := linearise(g)
		o.Case("scope\t"+pkgEnv+"\t"+toks, expect, true)
		if os.Getenv("C12_DUMP") != "" {
			fmt.Fprintln(os.Stderr, src)
		}
	}
	if f.Replay != "" {
		fs := strings.Fields(strings.ReplaceAll(f.Replay, "\t", " "))
		switch {
		case len(fs) == 3 && fs[0] == "goprog":
			var seed uint64
			var idx int
			fmt.Sscan(fs[1], &seed)
			fmt.Sscan(fs[2], &idx)
			srcs, _ := genGoProgram(vh.NewRand(seed).Fork(idx))
			fmt.Println(strings.Join(srcs, "\n// ---- next file ----\n"))
			runGo(seed, idx)
		case len(fs) == 2 && fs[0] == "corpus":
			runCorpus(o, filepath.Join(repo(), fs[1]))
		case len(fs) == 2 && fs[0] == "corpusdir":
			runCorpusDir(o, filepath.Join(repo(), fs[1]))
		case len(fs) == 3 && fs[0] == "xgoprog":
			var seed uint64
			var idx int
			fmt.Sscan(fs[1], &seed)
			fmt.Sscan(fs[2], &idx)
			runXGo(o, seed, idx)
		}
		return
	}
	capSec := 30.0
	if f.Tier == "thorough" {
		capSec = 300
	}
	t0 := time.Now()
	dirs := corpusDirs()
	// start at a seed-dependent directory so that different seeds cover different parts when the cap cuts
	start := 0
	if len(dirs) > 0 {
		start = int(f.Seed*7919) % len(dirs)
	}
	for i := range dirs {
		if time.Since(t0).Seconds() > capSec {
			o.Stats["corpus_dirs_skipped_time_cap"] = len(dirs) - i
			break
		}
		runCorpusDir(o, dirs[(start+i)%len(dirs)])
	}
	o.Stats["corpus_dirs_total"] = len(dirs)
	for i := 0; i < f.N; i++ {
		runGo(f.Seed, i)
		if i%4 == 0 {
			runXGo(o, f.Seed, i)
		}
	}
	o.Stats["go_list_fallbacks"] = nFallback
}

// runCorpusDir checks the XGo (and Go) files of one directory as a package; if that does not
// type-check (several packages, unknown class kinds, missing imports …) each XGo file is tried alone.
func runCorpusDir(o *vh.Out, dir string) {
	ents, err := os.ReadDir(dir)
	if err != nil {
		return
	}
	rel, _ := filepath.Rel(repo(), dir)
	prefix := "" // file names are kept: class type names derive from them
	srcs := map[string]string{}
	var xfiles []string
	for _, e := range ents {
		n := e.Name()
		if e.IsDir() || strings.HasPrefix(n, "_") || strings.HasPrefix(n, "gop_autogen") || strings.HasPrefix(n, "xgo_autogen") || strings.HasSuffix(n, "_test.go") {
			continue
		}
		switch filepath.Ext(n) {
		case ".xgo", ".gop", ".gox":
			xfiles = append(xfiles, n)
		case ".go":
		default:
			continue
		}
		b, err := os.ReadFile(filepath.Join(dir, n))
		if err != nil {
			continue
		}
		name := prefix + n
		if strings.HasSuffix(name, ".gop") {
			name = strings.TrimSuffix(name, ".gop") + ".xgo"
		}
		srcs[name] = string(b)
	}
	if len(xfiles) == 0 {
		return
	}
	o.Count("corpus_dirs")
	if len(srcs) > 1 {
		if c, err := checkXGo(srcs); err == nil && c.panic == "" && len(c.errs) == 0 {
			o.Count("corpus_packages")
			o.Count("corpus_programs")
			invariants(o, c, rel, "corpusdir\t"+rel)
			return
		}
	}
	for _, n := range xfiles {
		runCorpus(o, filepath.Join(dir, n))
	}
}

func runCorpus(o *vh.Out, path string) {
	b, err := os.ReadFile(path)
	if err != nil {
		return
	}
	rel, _ := filepath.Rel(repo(), path)
	line := "corpus\t" + rel
	name := filepath.Base(rel)
	if strings.HasSuffix(name, ".gop") {
		name = strings.TrimSuffix(name, ".gop") + ".xgo"
	}
	c, err := checkXGo(map[string]string{name: string(b)})
	if err != nil {
		o.Count("corpus_unparseable")
		return
	}
	if c.panic != "" {
		o.Count("corpus_checker_panic")
		return
	}
	if len(c.errs) > 0 {
		o.Count("corpus_type_errors")
		return // the property quantifies over programs that type-check
	}
	o.Count("corpus_programs")
	invariants(o, c, rel, line)
}

func runXGo(o *vh.Out, seed uint64, idx int) {
	srcs := genXGoProgram(vh.NewRand(seed ^ 0x12c).Fork(idx))
	line := fmt.Sprintf("xgoprog\t%d\t%d", seed, idx)
	c, err := checkXGo(srcs)
	if err != nil {
		o.Count("gen_xgo_unparseable")
		if os.Getenv("C12_DEBUG") != "" {
			fmt.Fprintln(os.Stderr, err)
		}
		return
	}
	if c.panic != "" {
		o.Oracle("checker-panic", line, c.panic)
		return
	}
	if len(c.errs) > 0 {
		o.Count("gen_xgo_type_errors")
		if os.Getenv("C12_DEBUG") != "" {
			fmt.Fprintln(os.Stderr, c.errs[0])
		}
		return
	}
	o.Count("xgo_programs")
	invariants(o, c, "generated XGo program", line)
}
