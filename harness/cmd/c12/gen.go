package main

import (
	"fmt"
	"strings"

	"verifharness/vh"
)

// Generator of Go-compatible programs (valid Go AND valid XGo with the same meaning), rich in
// scoping: a small pool of names re-declared in nested blocks, if/for/switch/type-switch/range
// header scopes, closures capturing and shadowing, labels, methods, struct fields, package-level
// declarations used before their textual declaration.

type gty int

const (
	tInt gty = iota
	tStr
	tSlice // []int
	tPtr   // *T0
	tFn    // func(int) int
)

type gvar struct {
	name string
	ty   gty
}

type goGen struct {
	r      *vh.Rand
	b      strings.Builder
	scopes [][]gvar
	nlabel int
	ntmp   int
	stats  map[string]int
	inLoop int
	extras []extraDecl
}

// shadowed: a local declaration of the name is visible (the package-level entity is not).
func (g *goGen) shadowed(name string) bool {
	for i := len(g.scopes) - 1; i >= 1; i-- {
		for _, v := range g.scopes[i] {
			if v.name == name {
				return true
			}
		}
	}
	return false
}

func (g *goGen) extraOf(kinds ...string) *extraDecl {
	var cand []*extraDecl
	for i := range g.extras {
		for _, k := range kinds {
			if g.extras[i].kind == k && !g.shadowed(g.extras[i].name) {
				cand = append(cand, &g.extras[i])
			}
		}
	}
	if len(cand) == 0 {
		return nil
	}
	return cand[g.r.Intn(len(cand))]
}

var namePool = []string{"a", "b", "x", "y", "i", "n", "s", "t", "v", "k", "err2", "g0", "c0", "f1",
	// local variables named like predeclared / XGo builtin identifiers
	"any", "echo", "cap", "min", "lines", "bigint", "real", "open"}

// Names that mean something to Go (predeclared) or to XGo (builtin package: cl/builtin.go) and that
// the generator does not otherwise rely on: used as package-level type / const / var / func names.
var specialTypeNames = []string{"any", "bigint", "bigrat", "bigfloat", "int128", "uint128", // XGo builtin types
	"bool", "byte", "rune", "int8", "int16", "int32", "int64", "uint", "uint8", "uint16", "uint32", "uint64", "uintptr",
	"float32", "float64", "complex64", "complex128", "comparable"}
var specialValueNames = []string{"echo", "print", "println", "printf", "errorf", "fprint", "fprintln", "fprintf", "sprint", "sprintln",
	"sprintf", "open", "create", "lines", "errorln", "fatal", "blines", "newRange", // XGo builtin functions
	"cap", "clear", "close", "complex", "copy", "delete", "imag", "max", "min", "new", "panic", "real", "recover", "iota"}

type extraDecl struct {
	name string
	kind string // type | const | var | func
	file int    // 0: main file, 1: second file
}

func (g *goGen) push() { g.scopes = append(g.scopes, nil) }
func (g *goGen) pop()  { g.scopes = g.scopes[:len(g.scopes)-1] }
func (g *goGen) declare(name string, ty gty) {
	g.scopes[len(g.scopes)-1] = append(g.scopes[len(g.scopes)-1], gvar{name, ty})
}

// visible variables of a type (innermost declaration of each name wins)
func (g *goGen) vars(ty gty) []string {
	seen := map[string]bool{}
	var res []string
	for i := len(g.scopes) - 1; i >= 0; i-- {
		sc := g.scopes[i]
		for j := len(sc) - 1; j >= 0; j-- {
			if !seen[sc[j].name] {
				seen[sc[j].name] = true
				if sc[j].ty == ty {
					res = append(res, sc[j].name)
				}
			}
		}
	}
	return res
}

func (g *goGen) pick(xs []string) string { return xs[g.r.Intn(len(xs))] }

func (g *goGen) newName() string { return namePool[g.r.Intn(len(namePool))] }

// a name not yet declared in the CURRENT scope (":=" needs at least one new variable; var would clash)
func (g *goGen) freshInScope() string {
	cur := g.scopes[len(g.scopes)-1]
	for try := 0; try < 8; try++ {
		n := g.newName()
		clash := false
		for _, v := range cur {
			clash = clash || v.name == n
		}
		if !clash {
			return n
		}
	}
	g.ntmp++
	return fmt.Sprintf("tmp%d", g.ntmp)
}

func (g *goGen) intExpr(depth int) string {
	vs := g.vars(tInt)
	k := g.r.Intn(11)
	if depth <= 0 {
		k = g.r.Intn(3)
	}
	switch k {
	case 0:
		return fmt.Sprint(g.r.Intn(20))
	case 1, 2:
		if len(vs) > 0 {
			return g.pick(vs)
		}
		return "C1"
	case 3:
		return g.intExpr(depth-1) + " + " + g.intExpr(depth-1)
	case 4:
		if ss := g.vars(tStr); len(ss) > 0 {
			return "len(" + g.pick(ss) + ")"
		}
		return "len(G1)"
	case 5:
		if fs := g.vars(tFn); len(fs) > 0 {
			return g.pick(fs) + "(" + g.intExpr(depth-1) + ")"
		}
		return "F0(" + g.intExpr(depth-1) + ", G1)"
	case 6:
		if ps := g.vars(tPtr); len(ps) > 0 {
			p := g.pick(ps)
			if g.r.Bool() {
				return p + ".fa"
			}
			return p + ".M0(" + g.intExpr(depth-1) + ")"
		}
		return "G0"
	case 7:
		if sl := g.vars(tSlice); len(sl) > 0 {
			return g.pick(sl) + "[0]"
		}
		return "(" + g.intExpr(depth-1) + ") * 2"
	case 8:
		return "strings.Count(" + g.strExpr(depth-1) + ", \"a\")"
	case 9:
		if e := g.extraOf("const", "var", "func"); e != nil {
			g.stats["use_special_"+e.kind]++
			if e.kind == "func" {
				return e.name + "(" + g.intExpr(depth-1) + ")"
			}
			return e.name
		}
		return "int(C0) - " + g.intExpr(depth-1)
	default:
		return "int(C0) - " + g.intExpr(depth-1)
	}
}

func (g *goGen) strExpr(depth int) string {
	vs := g.vars(tStr)
	switch g.r.Intn(5) {
	case 0:
		return fmt.Sprintf("%q", g.newName())
	case 1, 2:
		if len(vs) > 0 {
			return g.pick(vs)
		}
		return "G1"
	case 3:
		if depth > 0 {
			return g.strExpr(depth-1) + " + " + g.strExpr(depth-1)
		}
		return "G1"
	default:
		if depth > 0 {
			return "fmt.Sprint(" + g.intExpr(depth-1) + ")"
		}
		return "\"z\""
	}
}

func (g *goGen) line(d int, format string, a ...interface{}) {
	g.b.WriteString(strings.Repeat("\t", d))
	fmt.Fprintf(&g.b, format, a...)
	g.b.WriteByte('\n')
}

func (g *goGen) use(d int, name string) { g.line(d, "_ = %s", name) }

func (g *goGen) block(d, depth, n int) {
	for i := 0; i < n; i++ {
		g.stmt(d, depth)
	}
}

func (g *goGen) stmt(d, depth int) {
	k := g.r.Intn(28)
	if depth <= 0 && k >= 8 && k <= 17 {
		k = g.r.Intn(8)
	}
	g.stats[fmt.Sprintf("stmt_%02d", k)]++
	switch k {
	case 0: // short variable declaration, possibly shadowing, rhs may use the OUTER variable of the same name
		n := g.freshInScope()
		if g.r.Bool() {
			g.line(d, "%s := %s", n, g.intExpr(2))
			g.declare(n, tInt)
		} else {
			g.line(d, "%s := %s", n, g.strExpr(2))
			g.declare(n, tStr)
		}
		g.use(d, n)
	case 1: // var declaration
		n := g.freshInScope()
		switch g.r.Intn(3) {
		case 0:
			g.line(d, "var %s = %s", n, g.intExpr(2))
			g.declare(n, tInt)
		case 1:
			g.line(d, "var %s int", n)
			g.declare(n, tInt)
		default:
			g.line(d, "var %s []int = []int{%s, 2}", n, g.intExpr(1))
			g.declare(n, tSlice)
		}
		g.use(d, n)
	case 2: // two-variable define with one possibly existing
		n1, n2 := g.freshInScope(), ""
		g.declare(n1, tInt)
		n2 = g.freshInScope()
		g.scopes[len(g.scopes)-1] = g.scopes[len(g.scopes)-1][:len(g.scopes[len(g.scopes)-1])-1]
		g.line(d, "%s, %s := %s, %s", n1, n2, g.intExpr(1), g.strExpr(1))
		g.declare(n1, tInt)
		g.declare(n2, tStr)
		g.line(d, "_, _ = %s, %s", n1, n2)
	case 3: // assignment to a visible int variable
		if vs := g.vars(tInt); len(vs) > 0 {
			v := g.pick(vs)
			if v != "C1" {
				g.line(d, "%s = %s", v, g.intExpr(2))
				return
			}
		}
		g.line(d, "G0 = %s", g.intExpr(2))
	case 4:
		g.line(d, "fmt.Println(%s, %s)", g.intExpr(2), g.strExpr(1))
	case 5: // pointer to struct, field uses
		n := g.freshInScope()
		g.line(d, "%s := &T0{fa: %s, fb: %s}", n, g.intExpr(1), g.strExpr(1))
		g.declare(n, tPtr)
		g.line(d, "%s.next = %s", n, n)
		g.line(d, "%s.fa++", n)
	case 6: // local const
		n := g.freshInScope()
		g.line(d, "const %s = %d", n, g.r.Intn(9))
		g.declare(n, tFn+2) // declared (blocks the name in this scope) but never picked: constants are not assignable
		g.use(d, n)
	case 7:
		if sl := g.vars(tSlice); len(sl) > 0 {
			s := g.pick(sl)
			g.line(d, "%s = append(%s, %s)", s, s, g.intExpr(1))
		} else {
			g.line(d, "G0 += %s", g.intExpr(1))
		}
	case 8: // if with init, else-if with its own init, else
		g.push()
		n := g.freshInScope()
		g.line(d, "if %s := %s; %s > %s {", n, g.intExpr(1), n, g.intExpr(1))
		g.declare(n, tInt)
		g.push()
		g.block(d+1, depth-1, 1+g.r.Intn(2))
		g.pop()
		if g.r.Bool() {
			g.push()
			m := g.freshInScope()
			for m == n {
				m = g.freshInScope()
			}
			g.line(d, "} else if %s := %s; %s != \"\" && %s > 0 {", m, g.strExpr(1), m, n)
			g.declare(m, tStr)
			g.push()
			g.block(d+1, depth-1, 1)
			g.pop()
			g.line(d, "} else {")
			g.push()
			g.line(d+1, "_, _ = %s, %s", n, m)
			g.block(d+1, depth-1, 1)
			g.pop()
			g.pop()
		}
		g.line(d, "}")
		g.pop()
	case 9: // three-clause for
		g.push()
		n := g.freshInScope()
		g.line(d, "for %s := 0; %s < %s; %s++ {", n, n, g.intExpr(1), n)
		g.declare(n, tInt)
		g.push()
		g.inLoop++
		g.block(d+1, depth-1, 1+g.r.Intn(2))
		if g.r.Chance(30) {
			g.line(d+1, "if %s > 3 {", n)
			g.line(d+2, "break")
			g.line(d+1, "}")
		}
		g.inLoop--
		g.pop()
		g.line(d, "}")
		g.pop()
	case 10: // range with key/value
		g.push()
		kname := g.freshInScope()
		g.declare(kname, tInt)
		vname := g.freshInScope()
		src := "[]int{1, 2}"
		if sl := g.vars(tSlice); len(sl) > 0 && g.r.Bool() {
			src = g.pick(sl)
		}
		g.line(d, "for %s, %s := range %s {", kname, vname, src)
		g.declare(vname, tInt)
		g.push()
		g.line(d+1, "_, _ = %s, %s", kname, vname)
		g.inLoop++
		g.block(d+1, depth-1, 1)
		g.inLoop--
		g.pop()
		g.line(d, "}")
		g.pop()
	case 11: // switch with init; each clause is a scope
		g.push()
		n := g.freshInScope()
		g.line(d, "switch %s := %s; {", n, g.intExpr(1))
		g.declare(n, tInt)
		for c := 0; c < 2; c++ {
			g.line(d, "case %s > %d:", n, c)
			g.push()
			g.block(d+1, depth-1, 1)
			g.pop()
		}
		g.line(d, "default:")
		g.push()
		g.block(d+1, depth-1, 1)
		g.pop()
		g.line(d, "}")
		g.pop()
	case 12: // type switch with bound variable
		g.push()
		n := g.freshInScope()
		g.line(d, "switch %s := interface{}(%s).(type) {", n, g.intExpr(1))
		g.line(d, "case int:")
		g.push()
		g.declare(n, tInt)
		g.line(d+1, "_ = %s + 1", n)
		g.block(d+1, depth-1, 1)
		g.pop()
		g.line(d, "case string:")
		g.push()
		g.declare(n, tStr)
		g.line(d+1, "_ = %s + \"\"", n)
		g.pop()
		g.line(d, "default:")
		g.line(d+1, "_ = %s", n)
		g.line(d, "}")
		g.pop()
	case 13: // closure with parameter shadowing an outer name, captured variables
		fn := g.freshInScope()
		p := g.newName()
		g.line(d, "%s := func(%s int) int {", fn, p)
		g.push() // parameters and body share one block
		g.declare(p, tInt)
		g.block(d+1, depth-1, 1+g.r.Intn(2))
		g.line(d+1, "return %s", g.intExpr(1))
		g.pop()
		g.line(d, "}")
		g.declare(fn, tFn)
		g.use(d, fn)
	case 14: // plain block
		g.line(d, "{")
		g.push()
		g.block(d+1, depth-1, 1+g.r.Intn(3))
		g.pop()
		g.line(d, "}")
	case 15: // labeled loop with continue
		g.nlabel++
		l := fmt.Sprintf("L%d", g.nlabel)
		g.push()
		n := g.freshInScope()
		g.line(d, "%s:", l)
		g.line(d, "for %s := 0; %s < 2; %s++ {", n, n, n)
		g.declare(n, tInt)
		g.push()
		g.line(d+1, "if %s == %s {", n, g.intExpr(1))
		g.line(d+2, "continue %s", l)
		g.line(d+1, "}")
		g.block(d+1, depth-1, 1)
		g.pop()
		g.line(d, "}")
		g.pop()
	case 16: // select
		g.line(d, "select {")
		g.push()
		n := g.freshInScope()
		g.line(d, "case %s := <-Ch:", n)
		g.declare(n, tInt)
		g.line(d+1, "_ = %s", n)
		g.block(d+1, depth-1, 1)
		g.pop()
		g.line(d, "default:")
		g.push()
		g.block(d+1, depth-1, 1)
		g.pop()
		g.line(d, "}")
	case 17: // defer / go with closures
		if g.r.Bool() {
			g.line(d, "defer func() {")
		} else {
			g.line(d, "go func() {")
		}
		g.push()
		g.block(d+1, depth-1, 1)
		g.pop()
		g.line(d, "}()")
	case 18: // method value / struct literal / composite
		g.line(d, "_ = (&T0{}).M0")
		g.line(d, "_ = []T0{{fa: %s}}", g.intExpr(1))
	case 19: // map + comma-ok forms
		m := g.freshInScope()
		g.line(d, "%s := map[string]int{%s: %s}", m, g.strExpr(1), g.intExpr(1))
		g.scopes[len(g.scopes)-1] = append(g.scopes[len(g.scopes)-1], gvar{m, tFn + 1})
		g.push()
		v, ok := g.freshInScope(), ""
		g.declare(v, tInt)
		ok = g.freshInScope()
		g.line(d, "if %s, %s := %s[%s]; %s {", v, ok, m, g.strExpr(1), ok)
		g.line(d+1, "_ = %s", v)
		g.line(d, "}")
		g.pop()
	case 20: // interface use
		n := g.freshInScope()
		g.line(d, "var %s I0 = &T0{}", n)
		g.declare(n, tFn+3)
		g.line(d, "_ = %s.M0(%s)", n, g.intExpr(1))
	case 21:
		g.line(d, "G1 = %s", g.strExpr(2))
	case 22: // embedded fields: literal keys, promoted fields and methods
		n := g.freshInScope()
		g.line(d, "%s := &T1{E0: E0{ea: %s}, T0: &T0{fa: 2}, Tagged: %s}", n, g.intExpr(1), g.intExpr(1))
		g.declare(n, tFn+4)
		g.line(d, "_ = %s.ea + %s.EM() + %s.fa + %s.M0(1) + %s.Builder.Len() + %s.anon.p + %s.E0.ea", n, n, n, n, n, n, n)
		g.line(d, "%s.Reader = strings.NewReader(%s)", n, g.strExpr(1))
	case 23: // promotion through two levels, embedded interface
		n := g.freshInScope()
		g.line(d, "var %s T2", n)
		g.declare(n, tFn+5)
		g.line(d, "%s.I0 = &T0{}", n)
		g.line(d, "_ = %s.EM() + %s.T1.E0.ea + %s.I0.M0(%s) + %s.Tagged", n, n, n, g.intExpr(1), n)
	case 24: // anonymous struct types
		n := g.freshInScope()
		g.line(d, "%s := struct {", n)
		g.line(d+1, "a, b int")
		g.line(d+1, "s    string `k:\"v\"`")
		g.line(d+1, "E0")
		g.line(d, "}{a: %s, s: %s}", g.intExpr(1), g.strExpr(1))
		g.declare(n, tFn+6)
		g.line(d, "_ = %s.a + %s.b + len(%s.s) + %s.ea + %s.EM()", n, n, n, n, n)
	case 26, 27: // a package-level type named like a predeclared / XGo builtin type
		e := g.extraOf("type")
		if e == nil {
			g.line(d, "G0++")
			return
		}
		g.stats["use_special_type"]++
		n := g.freshInScope()
		if g.r.Bool() {
			g.line(d, "var %s %s", n, e.name)
			g.declare(n, tFn+8)
			g.line(d, "%s.v = %s", n, g.intExpr(1))
		} else {
			g.line(d, "%s := &%s{v: %s}", n, e.name, g.intExpr(1))
			g.declare(n, tFn+8)
		}
		g.line(d, "_ = []%s{*FX%s(%s)}", e.name, e.name, "nil")
		g.line(d, "_ = %s", n)
	default: // interface embedding another interface and a package-qualified one
		n := g.freshInScope()
		g.line(d, "var %s I1", n)
		g.declare(n, tFn+7)
		g.line(d, "if %s != nil {", n)
		g.line(d+1, "_ = %s.M0(1) + len(%s.String())", n, n)
		g.line(d, "}")
	}
}

// genGoProgram returns the program's files (1 or 2; text valid as Go and as XGo) and statistics.
func genGoProgram(r *vh.Rand) ([]string, map[string]int) {
	g := &goGen{r: r, stats: map[string]int{}}
	g.b.WriteString("package main\n\nimport (\n\t\"fmt\"\n\t\"strings\"\n)\n\n")
	// package-level declarations named like predeclared Go identifiers and XGo builtins
	two := r.Chance(40)
	used := map[string]bool{}
	for i, n := 0, r.Intn(5); i < n; i++ {
		var e extraDecl
		if r.Chance(45) {
			e = extraDecl{name: specialTypeNames[r.Intn(len(specialTypeNames))], kind: "type"}
		} else {
			e = extraDecl{name: specialValueNames[r.Intn(len(specialValueNames))], kind: []string{"const", "var", "func"}[r.Intn(3)]}
		}
		if used[e.name] {
			continue
		}
		used[e.name] = true
		if two && r.Bool() {
			e.file = 1
		}
		g.extras = append(g.extras, e)
		g.stats["special_"+e.kind]++
	}
	extraText := func(e extraDecl) string {
		switch e.kind {
		case "type":
			return fmt.Sprintf("type %s struct {\n\tv int\n}\n\n", e.name)
		case "const":
			return fmt.Sprintf("const %s = %d\n\n", e.name, 40+len(e.name))
		case "var":
			return fmt.Sprintf("var %s = %d\n\n", e.name, len(e.name))
		}
		return fmt.Sprintf("func %s(a int) int {\n\treturn a + %d\n}\n\n", e.name, len(e.name))
	}
	// references in TYPE EXPRESSIONS that come textually before the declarations (first file, top)
	for _, e := range g.extras {
		if e.kind == "type" {
			fmt.Fprintf(&g.b, "type U%s struct {\n\tf %s\n\tp *%s\n}\n\nfunc FX%s(p *%s) *%s {\n\tif p == nil {\n\t\treturn &%s{}\n\t}\n\treturn p\n}\n\n", e.name, e.name, e.name, e.name, e.name, e.name, e.name)
		}
	}
	// some package-level declarations are placed AFTER their uses
	late := r.Bool()
	decls := "var _, _ = fmt.Sprint, strings.Count\n\nconst C0 = 10\n\nconst C1 int = 3\n\nvar G0, G1 = 1, \"s\"\n\nvar Ch = make(chan int, 100)\n\n" +
		"type T0 struct {\n\tfa   int\n\tfb   string\n\tnext *T0\n}\n\ntype I0 interface {\n\tM0(x int) int\n}\n\n" +
		// embedded fields of every form (T, *T, pkg.T, *pkg.T), embedded interfaces, promotion through two
		// levels, struct tags, an anonymous struct type
		"type E0 struct {\n\tea int\n}\n\nfunc (e *E0) EM() int {\n\treturn e.ea\n}\n\n" +
		"type T1 struct {\n\tE0\n\t*T0\n\tstrings.Builder\n\t*strings.Reader\n\tTagged int `json:\"tagged,omitempty\"`\n\tanon   struct {\n\t\tp, q int\n\t}\n}\n\n" +
		"type T2 struct {\n\tT1\n\tI0\n}\n\ntype I1 interface {\n\tI0\n\tfmt.Stringer\n\tM1(a, b int) (int, error)\n}\n\n"
	lateExtras := r.Chance(70)
	for _, e := range g.extras {
		if e.file == 0 && !lateExtras {
			decls += extraText(e)
		}
	}
	if !late {
		g.b.WriteString(decls)
	}
	g.push() // package scope: names that function bodies may shadow
	g.declare("G0", tInt)
	g.declare("C1", tInt)
	g.declare("G1", tStr)
	// a method
	g.b.WriteString("func (t *T0) M0(x int) int {\n")
	g.push()
	g.declare("t", tPtr)
	g.declare("x", tInt)
	g.block(1, 1, 1+r.Intn(2))
	g.line(1, "return t.fa + x")
	g.pop()
	g.b.WriteString("}\n\n")
	// F0 with named results
	g.b.WriteString("func F0(a int, s string) (r int) {\n")
	g.push()
	g.declare("a", tInt)
	g.declare("s", tStr)
	g.declare("r", tInt)
	g.block(1, 2, 2+r.Intn(3))
	g.line(1, "return")
	g.pop()
	g.b.WriteString("}\n\n")
	nf := 1 + r.Intn(2)
	for i := 1; i <= nf; i++ {
		fmt.Fprintf(&g.b, "func F%d(n int, v ...int) (int, string) {\n", i)
		g.push()
		g.declare("n", tInt)
		g.declare("v", tSlice)
		g.block(1, 2, 2+r.Intn(4))
		g.line(1, "return %s, %s", g.intExpr(1), g.strExpr(1))
		g.pop()
		g.b.WriteString("}\n\n")
	}
	g.b.WriteString("func main() {\n")
	g.push()
	g.block(1, 3, 3+r.Intn(5))
	g.pop()
	g.b.WriteString("}\n")
	if late {
		g.b.WriteString("\n" + decls)
	}
	if lateExtras {
		g.b.WriteString("\n")
		for _, e := range g.extras {
			if e.file == 0 {
				g.b.WriteString(extraText(e))
			}
		}
	}
	files := []string{g.b.String()}
	if two {
		var b strings.Builder
		b.WriteString("package main\n\n")
		// the second file also refers to declarations of the first one
		b.WriteString("func More(a int) int {\n\treturn F0(a, G1) + C1\n}\n\n")
		for _, e := range g.extras {
			if e.file == 1 {
				b.WriteString(extraText(e))
			}
		}
		files = append(files, b.String())
	}
	return files, g.stats
}
