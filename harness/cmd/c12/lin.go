package main

import (
	"fmt"
	goast "go/ast"
	gotoken "go/token"
	"go/types"
	"strings"
)

// linearise turns a type-checked Go file into the scope-event stream of Model/Scope.lean, following
// the Go spec's scoping rules ("Declarations and scope"), and lists what go/types resolved every
// emitted use to.  Identifiers that are not looked up lexically (selected fields and methods,
// struct-literal keys, labels) are recognised through go/types and left out.
type lin struct {
	g      *goChecked
	toks   []string
	expect []string
	scopes []map[string]bool
	bases  []int
}

func (l *lin) off(p gotoken.Pos) int { return globalOff(l.bases, p) }

func (l *lin) open()  { l.toks = append(l.toks, "("); l.scopes = append(l.scopes, map[string]bool{}) }
func (l *lin) close() { l.toks = append(l.toks, ")"); l.scopes = l.scopes[:len(l.scopes)-1] }

func (l *lin) decl(id *goast.Ident) {
	if id == nil || id.Name == "_" {
		return
	}
	l.toks = append(l.toks, fmt.Sprintf("d%s@%d", id.Name, l.off(id.Pos())))
	l.scopes[len(l.scopes)-1][id.Name] = true
}

func (l *lin) declAt(name string, pos gotoken.Pos) {
	l.toks = append(l.toks, fmt.Sprintf("d%s@%d", name, l.off(pos)))
	l.scopes[len(l.scopes)-1][name] = true
}

func (l *lin) use(id *goast.Ident) {
	if id.Name == "_" {
		return
	}
	obj := l.g.info.Uses[id]
	if obj == nil {
		return
	}
	switch o := obj.(type) {
	case *types.Var:
		if o.IsField() {
			return
		}
	case *types.Label:
		return
	case *types.Func:
		if sig, ok := o.Type().(*types.Signature); ok && sig.Recv() != nil {
			return
		}
	}
	l.toks = append(l.toks, fmt.Sprintf("u%s@%d", id.Name, l.off(id.Pos())))
	if obj.Pos().IsValid() && obj.Pkg() != nil && obj.Pkg().Path() == "main" {
		l.expect = append(l.expect, fmt.Sprintf("%d>%d", l.off(id.Pos()), l.off(obj.Pos())))
	} else {
		l.expect = append(l.expect, fmt.Sprintf("%d>U", l.off(id.Pos())))
	}
}

func (l *lin) expr(e goast.Expr) {
	switch v := e.(type) {
	case nil:
	case *goast.Ident:
		l.use(v)
	case *goast.BasicLit:
	case *goast.SelectorExpr:
		l.expr(v.X)
	case *goast.CallExpr:
		l.expr(v.Fun)
		for _, a := range v.Args {
			l.expr(a)
		}
	case *goast.BinaryExpr:
		l.expr(v.X)
		l.expr(v.Y)
	case *goast.UnaryExpr:
		l.expr(v.X)
	case *goast.StarExpr:
		l.expr(v.X)
	case *goast.ParenExpr:
		l.expr(v.X)
	case *goast.IndexExpr:
		l.expr(v.X)
		l.expr(v.Index)
	case *goast.SliceExpr:
		l.expr(v.X)
		l.expr(v.Low)
		l.expr(v.High)
		l.expr(v.Max)
	case *goast.TypeAssertExpr:
		l.expr(v.X)
		l.expr(v.Type)
	case *goast.KeyValueExpr:
		l.expr(v.Key)
		l.expr(v.Value)
	case *goast.CompositeLit:
		l.expr(v.Type)
		for _, x := range v.Elts {
			l.expr(x)
		}
	case *goast.FuncLit:
		l.open()
		l.signature(v.Type, nil)
		l.stmts(v.Body.List)
		l.close()
	case *goast.ArrayType:
		l.expr(v.Len)
		l.expr(v.Elt)
	case *goast.MapType:
		l.expr(v.Key)
		l.expr(v.Value)
	case *goast.ChanType:
		l.expr(v.Value)
	case *goast.Ellipsis:
		l.expr(v.Elt)
	case *goast.StructType:
		for _, f := range v.Fields.List {
			l.expr(f.Type)
		}
	case *goast.InterfaceType:
		for _, f := range v.Methods.List {
			if ft, ok := f.Type.(*goast.FuncType); ok {
				l.fieldTypes(ft.Params)
				l.fieldTypes(ft.Results)
			} else {
				l.expr(f.Type)
			}
		}
	case *goast.FuncType:
		l.fieldTypes(v.Params)
		l.fieldTypes(v.Results)
	default:
		panic(fmt.Sprintf("linearise: expression %T", e))
	}
}

func (l *lin) fieldTypes(fl *goast.FieldList) {
	if fl == nil {
		return
	}
	for _, f := range fl.List {
		l.expr(f.Type)
	}
}

// signature: receiver, parameter and result names are declared in the function's block
func (l *lin) signature(ft *goast.FuncType, recv *goast.FieldList) {
	for _, fl := range []*goast.FieldList{recv, ft.Params, ft.Results} {
		l.fieldTypes(fl)
	}
	for _, fl := range []*goast.FieldList{recv, ft.Params, ft.Results} {
		if fl == nil {
			continue
		}
		for _, f := range fl.List {
			for _, n := range f.Names {
				l.decl(n)
			}
		}
	}
}

func (l *lin) stmts(ss []goast.Stmt) {
	for _, s := range ss {
		l.stmt(s)
	}
}

func (l *lin) block(b *goast.BlockStmt) {
	l.open()
	l.stmts(b.List)
	l.close()
}

func (l *lin) genDecl(d *goast.GenDecl) {
	for _, sp := range d.Specs {
		switch s := sp.(type) {
		case *goast.ValueSpec:
			l.expr(s.Type)
			for _, v := range s.Values {
				l.expr(v)
			}
			for _, n := range s.Names {
				l.decl(n)
			}
		case *goast.TypeSpec:
			l.decl(s.Name)
			l.expr(s.Type)
		}
	}
}

func (l *lin) stmt(s goast.Stmt) {
	switch v := s.(type) {
	case nil:
	case *goast.ExprStmt:
		l.expr(v.X)
	case *goast.AssignStmt:
		for _, r := range v.Rhs {
			l.expr(r)
		}
		for _, lh := range v.Lhs {
			if id, ok := lh.(*goast.Ident); ok && v.Tok == gotoken.DEFINE {
				if id.Name != "_" && !l.scopes[len(l.scopes)-1][id.Name] {
					l.decl(id) // a new variable; an existing one of the same block is assigned (a use)
					continue
				}
			}
			l.expr(lh)
		}
	case *goast.IncDecStmt:
		l.expr(v.X)
	case *goast.SendStmt:
		l.expr(v.Chan)
		l.expr(v.Value)
	case *goast.ReturnStmt:
		for _, r := range v.Results {
			l.expr(r)
		}
	case *goast.GoStmt:
		l.expr(v.Call)
	case *goast.DeferStmt:
		l.expr(v.Call)
	case *goast.BranchStmt, *goast.EmptyStmt:
	case *goast.LabeledStmt:
		l.stmt(v.Stmt)
	case *goast.DeclStmt:
		l.genDecl(v.Decl.(*goast.GenDecl))
	case *goast.BlockStmt:
		l.block(v)
	case *goast.IfStmt:
		l.open()
		l.stmt(v.Init)
		l.expr(v.Cond)
		l.block(v.Body)
		switch e := v.Else.(type) {
		case *goast.IfStmt:
			l.stmt(e)
		case *goast.BlockStmt:
			l.block(e)
		}
		l.close()
	case *goast.ForStmt:
		l.open()
		l.stmt(v.Init)
		l.expr(v.Cond)
		l.stmt(v.Post)
		l.block(v.Body)
		l.close()
	case *goast.RangeStmt:
		l.expr(v.X)
		l.open()
		for _, e := range []goast.Expr{v.Key, v.Value} {
			if e == nil {
				continue
			}
			if id, ok := e.(*goast.Ident); ok && v.Tok == gotoken.DEFINE {
				l.decl(id)
			} else {
				l.expr(e)
			}
		}
		l.block(v.Body)
		l.close()
	case *goast.SwitchStmt:
		l.open()
		l.stmt(v.Init)
		l.expr(v.Tag)
		for _, c := range v.Body.List {
			cc := c.(*goast.CaseClause)
			l.open()
			for _, e := range cc.List {
				l.expr(e)
			}
			l.stmts(cc.Body)
			l.close()
		}
		l.close()
	case *goast.TypeSwitchStmt:
		l.open()
		l.stmt(v.Init)
		var bound *goast.Ident
		switch a := v.Assign.(type) {
		case *goast.AssignStmt:
			bound = a.Lhs[0].(*goast.Ident)
			l.expr(a.Rhs[0].(*goast.TypeAssertExpr).X)
		case *goast.ExprStmt:
			l.expr(a.X.(*goast.TypeAssertExpr).X)
		}
		for _, c := range v.Body.List {
			cc := c.(*goast.CaseClause)
			l.open()
			for _, e := range cc.List {
				l.expr(e)
			}
			if bound != nil {
				// the per-clause variable: go/types gives it the position of the identifier in the header
				if obj := l.g.info.Implicits[cc]; obj != nil {
					l.declAt(bound.Name, obj.Pos())
				} else {
					l.decl(bound)
				}
			}
			l.stmts(cc.Body)
			l.close()
		}
		l.close()
	case *goast.SelectStmt:
		for _, c := range v.Body.List {
			cc := c.(*goast.CommClause)
			l.open()
			l.stmt(cc.Comm)
			l.stmts(cc.Body)
			l.close()
		}
	default:
		panic(fmt.Sprintf("linearise: statement %T", s))
	}
}

func linearise(g *goChecked) (pkgEnv, toks, expect string) {
	l := &lin{g: g, scopes: []map[string]bool{{}}, bases: g.bases()}
	var env []string
	for _, gf := range g.files {
		for _, d := range gf.Decls {
			switch v := d.(type) {
			case *goast.GenDecl:
				for _, sp := range v.Specs {
					switch s := sp.(type) {
					case *goast.ImportSpec:
						name := strings.Trim(s.Path.Value, `"`)
						if i := strings.LastIndexByte(name, '/'); i >= 0 {
							name = name[i+1:]
						}
						pos := s.Path.Pos()
						if s.Name != nil {
							name, pos = s.Name.Name, s.Name.Pos()
						}
						env = append(env, fmt.Sprintf("%s@%d", name, l.off(pos)))
					case *goast.ValueSpec:
						for _, n := range s.Names {
							if n.Name != "_" {
								env = append(env, fmt.Sprintf("%s@%d", n.Name, l.off(n.Pos())))
							}
						}
					case *goast.TypeSpec:
						env = append(env, fmt.Sprintf("%s@%d", s.Name.Name, l.off(s.Name.Pos())))
					}
				}
			case *goast.FuncDecl:
				if v.Recv == nil && v.Name.Name != "init" && v.Name.Name != "_" {
					env = append(env, fmt.Sprintf("%s@%d", v.Name.Name, l.off(v.Name.Pos())))
				}
			}
		}
	}
	for _, gf := range g.files {
		for _, d := range gf.Decls {
			switch v := d.(type) {
			case *goast.GenDecl:
				if v.Tok == gotoken.IMPORT {
					continue
				}
				for _, sp := range v.Specs {
					switch s := sp.(type) {
					case *goast.ValueSpec:
						l.expr(s.Type)
						for _, x := range s.Values {
							l.expr(x)
						}
					case *goast.TypeSpec:
						l.expr(s.Type)
					}
				}
			case *goast.FuncDecl:
				l.open()
				l.signature(v.Type, v.Recv)
				if v.Body != nil {
					l.stmts(v.Body.List)
				}
				l.close()
			}
		}
	}
	return strings.Join(env, ","), strings.Join(l.toks, " "), strings.Join(l.expect, ",")
}
