// C07 harness: the compiler never crashes or hangs on parseable input; error positions lie
// inside the compiled files; x/build helpers return errors rather than panicking.
// Search machinery (not proof): mutated corpus and generated programs (every parseable source and
// the partial ASTs returned alongside parse errors) are fed to the REAL cl.NewPackage and x/build
// in a CHILD process (address-space limit, GOMEMLIMIT, bounded stack, 10 s CPU / 120 s wall per
// input).  Oracle: no escaped panic, no runtime fatal error, no timeout, no (nil, nil) result;
// every positioned error lies inside one of the compiled files.
package main

import (
	"flag"
	"fmt"
	"go/types"
	"os"
	"path/filepath"
	"strings"

	"verifharness/compa"
	"verifharness/vh"
)

var child *compa.Child
var seenKeys = map[string]bool{}

func failKeys(oc compa.Outcome) (keys []string, detail string) {
	if oc.Timeout != "" {
		return []string{"timeout:" + oc.Timeout + ":" + oc.Detail}, oc.Detail
	}
	if oc.Crash != "" {
		return []string{"crash:" + oc.Crash}, oc.Detail
	}
	r := oc.Rep
	for _, f := range []struct{ what, v string }{{"cl.NewPackage", r.Cl}, {"cl.NewPackage+Recorder", r.ClRec}, {"build.BuildFSDir", r.Bd}, {"build.BuildFile", r.Bf}} {
		if strings.HasPrefix(f.v, "ESC:") {
			keys = append(keys, "escaped-panic:"+f.what+":"+compa.KeyOnly(f.v[4:]))
			detail += f.what + " " + f.v + "; "
		}
		if f.v == "NILNIL" {
			keys = append(keys, "nil-result-nil-error:"+f.what)
		}
	}
	for _, is := range r.Issues {
		k := strings.SplitN(is, ": ", 2)[0]
		if strings.HasPrefix(k, "error-method-panics:") {
			keys = append(keys, k)
			detail += is + "; "
			continue
		}
		keys = append(keys, "error-position:"+k)
		detail += is + "; "
	}
	return
}

func implOf(oc compa.Outcome) string {
	if oc.Timeout != "" {
		return "TIMEOUT " + oc.Timeout
	}
	if oc.Crash != "" {
		return "CRASH " + oc.Crash
	}
	r := oc.Rep
	return fmt.Sprintf("parse=%s cl=%s rec=%s bd=%s bf=%s pos=%d issues=%d", r.Parse, short(r.Cl), short(r.ClRec), short(r.Bd), short(r.Bf), r.PosOK, len(r.Issues))
}

func short(s string) string {
	if strings.HasPrefix(s, "ESC:") {
		return "ESC"
	}
	return s
}

func runCase(o *vh.Out, fs compa.Files, origin string, shrink bool) {
	oc := child.Run(fs)
	caseLine := "c07\t" + compa.Blob(fs)
	keys, detail := failKeys(oc)
	if oc.Rep != nil {
		r := oc.Rep
		o.Count("parse_" + r.Parse)
		o.Count("cl_" + short(r.Cl))
		o.Count("bd_" + short(r.Bd))
		o.Stats["positions_checked"] += r.PosOK
		o.Stats["errors_without_position"] += r.Unpos
		o.Stats["errors_seen"] += r.NErr
		if r.WritePanic != "" {
			o.Count("gogen_writeto_panic_" + r.Parse)
		}
		for _, m := range r.RecovMsgs {
			o.Count("recovered_runtime_panic_as_error")
			_ = m
		}
	}
	for _, k := range keys {
		if shrink && !seenKeys[k] {
			seenKeys[k] = true
			// shrink: drop lines while the same failure key persists
			min := compa.DDMin(fs, 40, func(t compa.Files) bool {
				ks, _ := failKeys(child.Run(t))
				for _, x := range ks {
					if x == k {
						return true
					}
				}
				return false
			})
			o.Oracle(k, "c07\t"+compa.Blob(min), origin+": "+detail)
		} else if !shrink {
			o.Oracle(k, caseLine, origin+": "+detail)
		}
		o.Count("fail_" + strings.SplitN(k, ":", 2)[0])
	}
	o.Case(caseLine, implOf(oc), oc.Rep == nil || oc.Rep.Parse != "panic")
}

type failingImporter struct{}

func (failingImporter) Import(path string) (*types.Package, error) {
	return nil, fmt.Errorf("no such package %s", path)
}

// envCase: the one environment-dependent entry of the battery. An importer that cannot find
// "fmt" makes gogen.NewPackage panic inside cl.NewPackage; with a Recorder configured the deferred
// rec.Complete runs after the recover (model witness C07_recorder_defer_unprotected). The real
// NewPackage must return an error, not panic.
func envCase(o *vh.Out) {
	fs := compa.Files{"main.xgo": "echo 1\n"}
	for _, withRec := range []bool{false, true} {
		p := compa.Parse(fs)
		res := "err"
		func() {
			defer func() {
				if r := recover(); r != nil {
					res = "ESC:" + compa.PanicKey(r)
				}
			}()
			if _, err := compa.CompileWith(p.Fset, compa.MainPkg(p.Pkgs), failingImporter{}, withRec); err == nil {
				res = "ok"
			}
		}()
		line := fmt.Sprintf("c07env\tfailing-importer-recorder=%v", withRec)
		if strings.HasPrefix(res, "ESC:") {
			o.Oracle(fmt.Sprintf("escaped-panic:cl.NewPackage:importer-failure:recorder=%v", withRec), line, res)
		}
		o.Case(line, res[:3], true)
	}
}

func main() {
	if len(os.Args) >= 3 && os.Args[1] == "-worker" {
		compa.WorkerMain(os.Args[2])
		return
	}
	pastDir := flag.String("past", "/verif/corpus/C07", "directory of minimised past failures (*.blob), replayed first")
	f := vh.ParseFlags()
	o := vh.NewOut(f.Out)
	defer o.Close()
	corpus := compa.LoadCorpus(true)
	envDir := filepath.Join(f.Out, "env")
	if _, err := compa.NewEnv(envDir, append(compa.ImportPaths(corpus), "nosuch/pkg")...); err != nil {
		fmt.Fprintln(os.Stderr, "env:", err)
		os.Exit(2)
	}
	exe, _ := os.Executable()
	child = compa.NewChild(exe, envDir)
	defer child.Close()
	if strings.HasPrefix(f.Replay, "c07env") {
		envCase(o)
		return
	}
	if f.Replay != "" {
		fs := strings.SplitN(f.Replay, "\t", 2)
		if len(fs) == 2 {
			runCase(o, compa.UnBlob(fs[1]), "replay", false)
		}
		return
	}
	thorough := f.Tier == "thorough"
	r := vh.NewRand(f.Seed)
	o.Stats["corpus_items"] = len(corpus)
	envCase(o)
	// 0. minimised past failures
	if ents, err := os.ReadDir(*pastDir); err == nil {
		for _, e := range ents {
			if b, err := os.ReadFile(filepath.Join(*pastDir, e.Name())); err == nil && strings.HasSuffix(e.Name(), ".blob") {
				runCase(o, compa.UnBlob(strings.TrimSpace(string(b))), "past:"+e.Name(), false)
				o.Count("past_failures_replayed")
			}
		}
	}
	// 1. corpus as is (rotating quarter in quick)
	for i, it := range corpus {
		if thorough || (i+int(f.Seed))%4 == 0 {
			runCase(o, it.Files, "corpus:"+it.Origin, true)
		}
	}
	// 2. every sugar piece
	for i, name := range compa.PieceNames() {
		fs, _ := compa.GenXGo(r.Fork(1000000+i), 1, name)
		runCase(o, fs, "piece:"+name, true)
	}
	// 3. mutants: near-miss and garbage, of corpus and generated programs
	kinds := compa.MutKinds
	for i := 0; i < f.N; i++ {
		rr := r.Fork(i)
		var base compa.Files
		var origin string
		if i%3 == 0 {
			fs, pcs := compa.GenXGo(rr, 1+rr.Intn(3), "")
			base, origin = fs, "gen:"+strings.Join(pcs, "+")
		} else {
			it := corpus[rr.Intn(len(corpus))]
			base, origin = it.Files, "corpus:"+it.Origin
		}
		other := corpus[rr.Intn(len(corpus))]
		var osrc string
		for _, n := range other.Files.Names() {
			osrc = other.Files[n]
			break
		}
		mf, ks := compa.MutateFiles(rr, base, kinds, 1+rr.Intn(3), osrc)
		o.Count("mut_" + strings.SplitN(ks, "+", 2)[0])
		runCase(o, mf, origin+"/"+ks, true)
	}
	o.Stats["child_restarts"] = child.Restarts
}
