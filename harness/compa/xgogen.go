package compa

import (
	"fmt"
	"strings"

	"verifharness/vh"
)

// XProg is a generated XGo package: declarations, main statements (the tail of main.xgo) and
// extra files (class files).
type XProg struct {
	Imports map[string]bool
	Decls   []string
	Stmts   []string
	Extra   Files
	Pieces  []string
	n       int
}

func (p *XProg) id(prefix string) string {
	p.n++
	return fmt.Sprintf("%s%d", prefix, p.n)
}

func ints(r *vh.Rand, n int) []string {
	out := make([]string, n)
	for i := range out {
		out[i] = fmt.Sprint(r.Intn(40) - 8)
	}
	return out
}

func strs(r *vh.Rand, n int) []string {
	words := []string{"ab", "go", "xgo", "Hi", "k9", "", "zz top", "Q"}
	out := make([]string, n)
	for i := range out {
		out[i] = fmt.Sprintf("%q", words[r.Intn(len(words))])
	}
	return out
}

func pick(r *vh.Rand, xs ...string) string { return xs[r.Intn(len(xs))] }

type piece struct {
	name string
	gen  func(r *vh.Rand, p *XProg)
}

var xPieces = []piece{
	{"listcompr", func(r *vh.Rand, p *XProg) {
		a, b := p.id("a"), p.id("b")
		p.Stmts = append(p.Stmts,
			fmt.Sprintf("%s := [%s]", a, strings.Join(ints(r, 1+r.Intn(6)), ", ")),
			fmt.Sprintf("%s := [x %s %d for x <- %s if x %s %d]", b, pick(r, "+", "*", "-", "%"), 1+r.Intn(5), a, pick(r, ">", "<", "!=", ">="), r.Intn(10)),
			fmt.Sprintf("echo %s, len(%s), %s.len", b, b, a))
	}},
	{"listcompr-kv", func(r *vh.Rand, p *XProg) {
		a, b := p.id("a"), p.id("b")
		p.Stmts = append(p.Stmts,
			fmt.Sprintf("%s := [%s]", a, strings.Join(strs(r, 1+r.Intn(5)), ", ")),
			fmt.Sprintf("%s := [v + \"-\" + i.string for i, v <- %s if i %% 2 == %d]", b, a, r.Intn(2)),
			fmt.Sprintf("echo %s", b))
	}},
	{"mapcompr", func(r *vh.Rand, p *XProg) {
		m, q := p.id("m"), p.id("q")
		var kv []string
		for i, v := range ints(r, 1+r.Intn(5)) {
			kv = append(kv, fmt.Sprintf("\"k%d\": %s", i, v))
		}
		p.Stmts = append(p.Stmts,
			fmt.Sprintf("%s := {%s}", m, strings.Join(kv, ", ")),
			fmt.Sprintf("%s := {v: k for k, v <- %s if v > %d}", q, m, r.Intn(10)),
			fmt.Sprintf("echo %s, len(%s)", q, m),
			fmt.Sprintf("for k, v in %s {\n\tif v == %d {\n\t\techo k\n\t}\n}", m, r.Intn(10)))
	}},
	{"selectexists", func(r *vh.Rand, p *XProg) {
		a, v, ok, h := p.id("a"), p.id("v"), p.id("ok"), p.id("h")
		p.Stmts = append(p.Stmts,
			fmt.Sprintf("%s := [%s]", a, strings.Join(ints(r, 2+r.Intn(5)), ", ")),
			fmt.Sprintf("%s, %s := {x * 2 for x <- %s if x == %d}", v, ok, a, r.Intn(12)),
			fmt.Sprintf("%s := {for x <- %s if x > %d}", h, a, r.Intn(20)),
			fmt.Sprintf("echo %s, %s, %s, {x for x <- %s if x < 0}", v, ok, h, a))
	}},
	{"rangefor", func(r *vh.Rand, p *XProg) {
		s := p.id("sum")
		lo, hi, st := r.Intn(5), 5+r.Intn(20), 1+r.Intn(4)
		p.Stmts = append(p.Stmts,
			fmt.Sprintf("%s := 0", s),
			fmt.Sprintf("for i <- %d:%d:%d {\n\t%s += i\n}", lo, hi, st, s),
			fmt.Sprintf("for i in :%d {\n\t%s -= i\n}", hi, s),
			fmt.Sprintf("for i <- %d:%d {\n\t%s += i * 2\n}", lo, hi, s),
			fmt.Sprintf("echo %s, [x for x <- %d:%d], [i for i <- :%d:%d]", s, lo, hi, hi, st))
	}},
	{"nestedcompr", func(r *vh.Rand, p *XProg) {
		a, d := p.id("arr"), p.id("d")
		p.Stmts = append(p.Stmts,
			fmt.Sprintf("%s := [%s]", a, strings.Join(ints(r, 2+r.Intn(4)), ", ")),
			fmt.Sprintf("%s := [[a, b] for a <- %s if a < b for b <- %s if b > %d]", d, a, a, r.Intn(6)),
			fmt.Sprintf("echo %s, [[x, y] for x <- :3 for y <- :2]", d))
	}},
	{"interp", func(r *vh.Rand, p *XProg) {
		x, s, t := p.id("x"), p.id("s"), p.id("t")
		p.Stmts = append(p.Stmts,
			fmt.Sprintf("%s := %d", x, r.Intn(100)),
			fmt.Sprintf("%s := %s", s, strs(r, 1)[0]),
			fmt.Sprintf("%s := \"v=${%s} w=${%s+%d} s=${%s}$$ f=${%d.5} e=${%s * 2 - 1}\"", t, x, x, r.Intn(9), s, r.Intn(9), x),
			fmt.Sprintf("echo %s, \"${%s}\", %s.len", t, s, t))
	}},
	{"errwrap", func(r *vh.Rand, p *XProg) {
		p.Imports["strconv"] = true
		f, g := p.id("add"), p.id("safe")
		p.Decls = append(p.Decls,
			fmt.Sprintf("func %s(x, y string) (int, error) {\n\treturn strconv.Atoi(x)? + strconv.Atoi(y)?, nil\n}", f),
			fmt.Sprintf("func %s(x, y string) int {\n\treturn strconv.Atoi(x)?:%d + strconv.Atoi(y)?:0\n}", g, r.Intn(9)))
		p.Stmts = append(p.Stmts,
			fmt.Sprintf("echo %s(\"%d\", \"%d\")!", f, r.Intn(100), r.Intn(100)),
			fmt.Sprintf("echo %s(\"%d\", \"abc\")", g, r.Intn(100)),
			fmt.Sprintf("_, err%d := %s(\"1\", \"z\")\necho err%d != nil", p.n, f, p.n),
			fmt.Sprintf("echo \"%d\".int!, \"x\".int?:%d", r.Intn(100), r.Intn(9)))
	}},
	{"lambda", func(r *vh.Rand, p *XProg) {
		f, g := p.id("transform"), p.id("fold")
		p.Decls = append(p.Decls,
			fmt.Sprintf("func %s(a []float64, f func(float64) float64) []float64 {\n\treturn [f(x) for x <- a]\n}", f),
			fmt.Sprintf("func %s(a []int, z int, f func(acc, x int) int) int {\n\tfor x <- a {\n\t\tz = f(z, x)\n\t}\n\treturn z\n}", g))
		p.Stmts = append(p.Stmts,
			fmt.Sprintf("echo %s([1, 2, 3], x => x*%d)", f, 1+r.Intn(5)),
			fmt.Sprintf("echo %s([-3, 1, -5], x => {\n\tif x < 0 {\n\t\treturn -x\n\t}\n\treturn x\n})", f),
			fmt.Sprintf("echo %s([%s], %d, (acc, x) => acc %s x)", g, strings.Join(ints(r, 1+r.Intn(5)), ", "), r.Intn(5), pick(r, "+", "*", "-")))
	}},
	{"overload-inline", func(r *vh.Rand, p *XProg) {
		f := p.id("add")
		p.Decls = append(p.Decls, fmt.Sprintf("func %s = (\n\tfunc(a, b int) int {\n\t\treturn a + b\n\t}\n\tfunc(a, b string) string {\n\t\treturn a + b\n\t}\n)", f))
		p.Stmts = append(p.Stmts, fmt.Sprintf("echo %s(%d, %d), %s(\"Hello\", %s)", f, r.Intn(100), r.Intn(9), f, strs(r, 1)[0]))
	}},
	{"overload-ident", func(r *vh.Rand, p *XProg) {
		a, b, m := p.id("mulInt"), p.id("mulFloat"), p.id("mul")
		p.Decls = append(p.Decls,
			fmt.Sprintf("func %s(a, b int) int {\n\treturn a * b\n}", a),
			fmt.Sprintf("func %s(a, b float64) float64 {\n\treturn a * b\n}", b),
			fmt.Sprintf("func %s = (\n\t%s\n\t%s\n)", m, a, b))
		p.Stmts = append(p.Stmts, fmt.Sprintf("echo %s(%d, %d), %s(1.5, %d.25)", m, r.Intn(100), r.Intn(9), m, r.Intn(9)))
	}},
	{"overload-method", func(r *vh.Rand, p *XProg) {
		t := p.id("foo")
		p.Decls = append(p.Decls,
			fmt.Sprintf("type %s struct {\n\tn int\n}", t),
			fmt.Sprintf("func (a *%s) mulInt(b int) *%s {\n\ta.n *= b\n\treturn a\n}", t, t),
			fmt.Sprintf("func (a *%s) mulFoo(b *%s) *%s {\n\ta.n *= b.n\n\treturn a\n}", t, t, t),
			fmt.Sprintf("func (%s).mul = (\n\t(%s).mulInt\n\t(%s).mulFoo\n)", t, t, t))
		v := p.id("v")
		p.Stmts = append(p.Stmts, fmt.Sprintf("%s := &%s{%d}\necho %s.mul(%d).mul(&%s{2}).n", v, t, 1+r.Intn(9), v, r.Intn(9), t))
	}},
	{"overload-op", func(r *vh.Rand, p *XProg) {
		t := p.id("vec")
		p.Decls = append(p.Decls,
			fmt.Sprintf("type %s struct {\n\tx, y int\n}", t),
			fmt.Sprintf("func (a %s) + (b %s) %s {\n\treturn %s{a.x + b.x, a.y + b.y}\n}", t, t, t, t),
			fmt.Sprintf("func (a %s) * (k int) %s {\n\treturn %s{a.x * k, a.y * k}\n}", t, t, t),
			fmt.Sprintf("func -(a %s) %s {\n\treturn %s{-a.x, -a.y}\n}", t, t, t))
		p.Stmts = append(p.Stmts, fmt.Sprintf("echo %s{%d, 2} + %s{3, %d}, -%s{1, 1}, %s{1, 2} * %d", t, r.Intn(9), t, r.Intn(9), t, t, r.Intn(5)))
	}},
	{"cmdcalls", func(r *vh.Rand, p *XProg) {
		x := p.id("x")
		p.Stmts = append(p.Stmts,
			fmt.Sprintf("%s := %d", x, r.Intn(100)),
			fmt.Sprintf("println \"x:\", %s", x),
			fmt.Sprintf("printf \"%%d-%%s\\n\", %s, %s", x, strs(r, 1)[0]),
			fmt.Sprintf("echo sprintf(\"%%03d\", %s), sprint(%s, true)", x, x))
	}},
	{"appendsugar", func(r *vh.Rand, p *XProg) {
		a := p.id("a")
		p.Stmts = append(p.Stmts,
			fmt.Sprintf("%s := [%s]", a, strings.Join(ints(r, 1+r.Intn(3)), ", ")),
			fmt.Sprintf("%s <- %s", a, strings.Join(ints(r, 1+r.Intn(3)), ", ")),
			fmt.Sprintf("%s <- [7, 8]...", a),
			fmt.Sprintf("echo %s, cap(%s) >= len(%s)", a, a, a))
	}},
	{"rational", func(r *vh.Rand, p *XProg) {
		a, b := p.id("ra"), p.id("rb")
		p.Stmts = append(p.Stmts,
			fmt.Sprintf("%s := %dr/%d", a, 1+r.Intn(9), 1+r.Intn(9)),
			fmt.Sprintf("%s := %s + 2r/5 * %d", b, a, 1+r.Intn(5)),
			fmt.Sprintf("echo %s, %s, 1r << %d, %s > %s", a, b, 65+r.Intn(40), b, a))
	}},
	{"typedlits", func(r *vh.Rand, p *XProg) {
		a, b, c := p.id("fa"), p.id("ea"), p.id("mm")
		p.Stmts = append(p.Stmts,
			fmt.Sprintf("%s := [1, %d.5, 3]", a, r.Intn(9)),
			fmt.Sprintf("var %s []int = []", b),
			fmt.Sprintf("var %s map[string]float64 = {\"a\": 1, \"b\": %d.5}", c, r.Intn(9)),
			fmt.Sprintf("echo %s, %s, len(%s), %s, [\"a\", \"b\"], [[1], [2, 3]], {1: \"x\"}", a, b, b, c))
	}},
	{"autoprop", func(r *vh.Rand, p *XProg) {
		s := p.id("s")
		p.Stmts = append(p.Stmts,
			fmt.Sprintf("%s := %s", s, strs(r, 1)[0]),
			fmt.Sprintf("n%s := %d", s, r.Intn(50)),
			fmt.Sprintf("echo %s.len, %s.toUpper, %s.repeat(2), n%s.string + \"!\", [\"a\", \"b\"].capitalize", s, s, s, s))
	}},
	{"structs", func(r *vh.Rand, p *XProg) {
		t := p.id("pt")
		p.Decls = append(p.Decls,
			fmt.Sprintf("type %s struct {\n\tX, Y int\n\tName string\n}", t),
			fmt.Sprintf("func (p *%s) Move(dx, dy int) {\n\tp.X += dx\n\tp.Y += dy\n}", t),
			fmt.Sprintf("func (p %s) String() string {\n\treturn \"${p.Name}(${p.X},${p.Y})\"\n}", t))
		v := p.id("p")
		p.Stmts = append(p.Stmts,
			fmt.Sprintf("%s := &%s{%d, %d, \"pt\"}", v, t, r.Intn(9), r.Intn(9)),
			fmt.Sprintf("%s.move %d, %d", v, r.Intn(5), r.Intn(5)),
			fmt.Sprintf("echo %s, %s.X, %s.string", v, v, v))
	}},
	{"forinfilter", func(r *vh.Rand, p *XProg) {
		a, n := p.id("a"), p.id("n")
		p.Stmts = append(p.Stmts,
			fmt.Sprintf("%s := [%s]", a, strings.Join(ints(r, 2+r.Intn(5)), ", ")),
			fmt.Sprintf("%s := 0", n),
			fmt.Sprintf("for x <- %s if x %% 2 == 0 {\n\t%s += x\n}", a, n),
			fmt.Sprintf("for i, c in \"héllo\" {\n\tif i > %d {\n\t\t%s += int(c)\n\t}\n}", r.Intn(4), n),
			fmt.Sprintf("echo %s", n))
	}},
	{"udtrange", func(r *vh.Rand, p *XProg) {
		t := p.id("seq")
		p.Decls = append(p.Decls,
			fmt.Sprintf("type %s struct {\n\tn int\n}", t),
			fmt.Sprintf("func (p *%s) Gop_Enum(proc func(key int, val string)) {\n\tfor i := 0; i < p.n; i++ {\n\t\tproc(i, \"v\" + i.string)\n\t}\n}", t))
		q := p.id("sq")
		p.Stmts = append(p.Stmts,
			fmt.Sprintf("%s := &%s{%d}", q, t, r.Intn(4)),
			fmt.Sprintf("for k, v <- %s {\n\techo k, v\n}", q),
			fmt.Sprintf("echo [v for _, v <- %s]", q))
	}},
	{"classfile", func(r *vh.Rand, p *XProg) {
		c := fmt.Sprintf("Rect%d", p.n+1)
		p.n++
		p.Extra[c+".gox"] = fmt.Sprintf("var (\n\tWidth, Height int\n\ttag string\n)\n\nfunc Area() int {\n\treturn Width * Height\n}\n\nfunc Scale(k int) *%s {\n\tWidth *= k\n\tHeight *= k\n\treturn this\n}\n\nfunc label() string {\n\treturn \"${tag}:${Area()}\"\n}\n", c)
		v := p.id("rc")
		p.Stmts = append(p.Stmts,
			fmt.Sprintf("%s := &%s{%d, %d, \"r\"}", v, c, 1+r.Intn(9), 1+r.Intn(9)),
			fmt.Sprintf("echo %s.area, %s.scale(%d).area, %s.label", v, v, 1+r.Intn(4), v))
	}},
	{"gostyle", func(r *vh.Rand, p *XProg) {
		f := p.id("classify")
		p.Decls = append(p.Decls, fmt.Sprintf("func %s(v any) string {\n\tswitch x := v.(type) {\n\tcase int:\n\t\tif x > %d {\n\t\t\treturn \"big\"\n\t\t}\n\t\treturn \"int\"\n\tcase string:\n\t\treturn \"str:\" + x\n\tcase nil:\n\t\treturn \"nil\"\n\t}\n\treturn \"other\"\n}", f, r.Intn(50)))
		c := p.id("ch")
		p.Stmts = append(p.Stmts,
			fmt.Sprintf("echo %s(%d), %s(\"a\"), %s(nil), %s(1.5)", f, r.Intn(100), f, f, f),
			fmt.Sprintf("%s := make(chan int, 2)\ngo func() {\n\tdefer close(%s)\n\t%s <- %d\n}()\nfor v := range %s {\n\techo v\n}", c, c, c, r.Intn(9), c),
			fmt.Sprintf("func() {\n\tdefer func() {\n\t\techo recover()\n\t}()\n\tvar z []int\n\t_ = z[%d]\n}()", r.Intn(3)))
	}},
	{"mixgo", func(r *vh.Rand, p *XProg) {
		f := p.id("Mapf")
		p.Extra["gen"+f+".go"] = fmt.Sprintf("package main\n\nfunc %s[T, U any](a []T, f func(T) U) []U {\n\tr := make([]U, 0, len(a))\n\tfor _, x := range a {\n\t\tr = append(r, f(x))\n\t}\n\treturn r\n}\n\ntype Pair%s struct {\n\tA, B int\n}\n\nfunc (p Pair%s) Sum() int { return p.A + p.B }\n", f, f, f)
		p.Stmts = append(p.Stmts,
			fmt.Sprintf("echo %s([1, 2, %d], func(x int) string {\n\treturn x.string + \"!\"\n})", f, r.Intn(9)),
			fmt.Sprintf("echo Pair%s{%d, 2}.sum", f, r.Intn(9)))
	}},
	{"constiota", func(r *vh.Rand, p *XProg) {
		a := p.id("K")
		p.Decls = append(p.Decls, fmt.Sprintf("const (\n\t%sA = iota + %d\n\t%sB\n\t%sC = \"s\"\n)", a, r.Intn(5), a, a))
		x, y := p.id("x"), p.id("y")
		p.Stmts = append(p.Stmts,
			fmt.Sprintf("%s, %s := %sA, %sB", x, y, a, a),
			fmt.Sprintf("%s, %s = %s, %s", x, y, y, x),
			fmt.Sprintf("echo %s, %s, %sC, %s << %d", x, y, a, x, r.Intn(8)))
	}},
	{"switchloop", func(r *vh.Rand, p *XProg) {
		n := p.id("n")
		p.Stmts = append(p.Stmts,
			fmt.Sprintf("%s := 0", n),
			fmt.Sprintf("outer%d:\nfor i := 0; i < %d; i++ {\n\tswitch {\n\tcase i %% 3 == 0:\n\t\tcontinue outer%d\n\tcase i > %d:\n\t\tbreak outer%d\n\tdefault:\n\t\t%s += i\n\t}\n}", p.n, 5+r.Intn(10), p.n, 3+r.Intn(8), p.n, n),
			fmt.Sprintf("echo %s", n))
	}},
	{"late-callee-shadow-pkg", func(r *vh.Rand, p *XProg) {
		p.Imports["strconv"] = true
		t, u, k := p.id("fakeConv"), p.id("unit"), p.id("keep")
		p.Decls = append(p.Decls,
			fmt.Sprintf("type %s struct{}", t),
			fmt.Sprintf("func (%s) Itoa(n int) string {\n\treturn \"local\"\n}", t),
			fmt.Sprintf("func %s() string {\n\tstrconv := %s{}\n\t_ = strconv\n\treturn %s(%d)\n}", u, t, k, r.Intn(100)),
			fmt.Sprintf("func %s(n int) string {\n\treturn strconv.Itoa(n)\n}", k))
		p.Stmts = append(p.Stmts, fmt.Sprintf("echo %s()", u))
	}},
	{"paren-complit-header", func(r *vh.Rand, p *XProg) {
		t := p.id("hdr")
		p.Decls = append(p.Decls, fmt.Sprintf("type %s struct {\n\ta, b int\n}", t))
		p.Stmts = append(p.Stmts, fmt.Sprintf("if x := (%s{%d, 2}); x.a > %d {\n\techo \"big\", x\n} else if y := (%s{}); y == (%s{}) {\n\techo \"zero\", x, y\n}", t, r.Intn(10), r.Intn(10), t, t))
	}},
	{"switchconst", func(r *vh.Rand, p *XProg) {
		x := p.id("k")
		p.Stmts = append(p.Stmts,
			fmt.Sprintf("%s := %d", x, r.Intn(6)),
			fmt.Sprintf("switch %s {\ncase 0, 1:\n\techo \"low\"\ncase %d:\n\techo \"mid\"\n\tfallthrough\ncase 7:\n\techo \"seven\"\ndefault:\n\techo \"other\"\n}", x, 2+r.Intn(4)),
			fmt.Sprintf("switch s := \"v${%s}\"; s {\ncase \"v1\", \"v2\":\n\techo 12\ncase \"v3\":\n\techo 3\n}", x))
	}},
	// literal SPELLINGS: raw vs interpreted strings with escapes, quotes, newlines, with and without
	// ${}/$$ templates; rune literals; numeric spellings
	{"rawtemplates", func(r *vh.Rand, p *XProg) {
		x, s := p.id("x"), p.id("s")
		esc := pick(r, `\d+`, `\w`, `C:\dir`, `a\qb`)
		p.Stmts = append(p.Stmts,
			fmt.Sprintf("%s := %d", x, r.Intn(100)),
			fmt.Sprintf("%s := %s", s, strs(r, 1)[0]),
			fmt.Sprintf("echo `raw%s${%s} \"q\" ${%s}$$ end`", strings.ReplaceAll(esc, `\\`, `\`), x, s),
			fmt.Sprintf("echo `line1\nline2 ${%s+1}\n\tline3 \"${%s}\"`", x, s),
			fmt.Sprintf("echo \"esc\\t${%s}\\\"q\\\" \\\\ \\u00e9 ${%s}\\n\"", x, s),
			fmt.Sprintf("echo `no template %s \"q\"`, \"plain \\\"q\\\" \\\\n\", `$$ only ${%s}`, \"$$${%s}$$\"", strings.ReplaceAll(esc, `\\`, `\`), x, x),
			fmt.Sprintf("echo `${%s}`, `a${%s}`, `${%s}b`, `\"${%s}\"`, `\\${%s}\\`", x, x, x, s, x))
	}},
	{"literal-spellings", func(r *vh.Rand, p *XProg) {
		v := p.id("lit")
		p.Stmts = append(p.Stmts,
			fmt.Sprintf("echo 0x1F, 0o17, 0b101, 1_000, 017, 1e3, 1.5e-3, 0x1p-2, %d_0, 0X%X", 1+r.Intn(9), r.Intn(255)),
			"echo 'a', '\\n', '\\x41', '\\u00e9', '\\'', '\"', '\\\\', '\\000', '世'",
			fmt.Sprintf("%s := []any{\"\\x41\\101\\u0041\\U00000041\", `\\x41`, \"tab\\there\", `multi\nline`, \"\", ``}", v),
			fmt.Sprintf("echo %s, len(%s)", v, v))
	}},
	// TYPE EXPRESSIONS in every construct that takes types
	{"typeswitch-types", func(r *vh.Rand, p *XProg) {
		t, f := p.id("named"), p.id("kind")
		p.Decls = append(p.Decls,
			fmt.Sprintf("type %s struct {\n\ta int\n}", t),
			fmt.Sprintf("func (%s) String() string {\n\treturn \"named\"\n}", t),
			fmt.Sprintf(`func %[2]s(v any) string {
	switch x := v.(type) {
	case []int:
		return "[]int" + len(x).string
	case *%[1]s:
		return "*named"
	case map[string]int:
		return "map"
	case func(int) string:
		return x(%[3]d)
	case chan int, <-chan string:
		return "chan"
	case [2]bool:
		return "array"
	case struct{ a int }:
		return "struct"
	case %[1]s:
		return "named" + x.a.string
	case []%[1]s, *int, **%[1]s:
		return "list"
	case [][]string, map[int][]%[1]s:
		return "nested"
	case error:
		return "error"
	case interface{ String() string }:
		return "stringer"
	case nil:
		return "nil"
	}
	return "other"
}`, t, f, r.Intn(9)))
		p.Stmts = append(p.Stmts,
			fmt.Sprintf("echo %[2]s([]int{1}), %[2]s(&%[1]s{}), %[2]s(map[string]int{}), %[2]s(func(i int) string { return i.string }), %[2]s(make(chan int)), %[2]s([2]bool{}), %[2]s(struct{ a int }{1}), %[2]s(%[1]s{%[3]d}), %[2]s([]%[1]s{}), %[2]s([][]string{}), %[2]s(nil), %[2]s(1.5)", t, f, r.Intn(9)))
	}},
	{"type-exprs", func(r *vh.Rand, p *XProg) {
		t := p.id("rec")
		v := p.id("iv")
		p.Decls = append(p.Decls, fmt.Sprintf("type %s struct {\n\ta int\n\tb []string\n}", t))
		p.Stmts = append(p.Stmts,
			fmt.Sprintf("var %s any = []%s{{%d, nil}}", v, t, r.Intn(9)),
			fmt.Sprintf("if s, ok := %s.([]%s); ok {\n\techo len(s), s[0].a\n}", v, t),
			fmt.Sprintf("_, ok%s := %s.(map[string][]int)\n_, ok2%s := %s.(func(...int) (int, error))\necho ok%s, ok2%s", v, v, v, v, v, v),
			fmt.Sprintf("echo []byte(\"hi\"), []rune(\"hé\"), string([]byte{65, 66}), float64(%d)/2, (*%s)(nil) == nil, (func())(nil) == nil, map[string]int(nil) == nil, %s(struct {\n\ta int\n\tb []string\n}{1, nil}).a, uint8(%d), int64(-1)", r.Intn(9), t, t, r.Intn(200)),
			fmt.Sprintf("echo []%s{{1, nil}, {a: 2}}, map[string][]int{\"a\": {1}}, [...]int{1, 2, %d}, &%s{b: [\"x\"]}, struct{ a int }{1}, [2][]string{{\"a\"}, nil}, map[[2]int]*%s{{1, 2}: nil}, []*%s{{a: 1}}[0].a, []func() int{func() int { return %d }}[0]()", t, r.Intn(9), t, t, t, r.Intn(9)),
			fmt.Sprintf("var (\n\tf%s func(a int, b ...string) (n int, err error)\n\tc%s chan<- []int\n\tp%s **%s\n\tm%s map[string]map[int]bool\n\tarr%s [3][2]int\n)\necho f%s == nil, c%s == nil, p%s == nil, len(m%s), arr%s", v, v, v, t, v, v, v, v, v, v, v))
	}},
	// multi-file packages: a second normal file, in-package *_test.xgo files sorting before and after,
	// aliases/imports declared in one file and first used from another
	{"multifile", func(r *vh.Rand, p *XProg) {
		p.Imports["bytes"] = true
		id := p.id("mf")
		p.Decls = append(p.Decls,
			fmt.Sprintf("type Buf%s = bytes.Buffer", id),
			fmt.Sprintf("type pair%s struct {\n\tA, B int\n}", id))
		p.Extra["a_"+id+"_test.xgo"] = fmt.Sprintf("func useBuf%[1]s() int {\n\tvar b Buf%[1]s\n\tb.WriteString(\"x%[2]d\")\n\treturn b.Len() + helper%[1]s(pair%[1]s{1, 2})\n}\n", id, r.Intn(100))
		p.Extra["zz_"+id+"_test.xgo"] = fmt.Sprintf("import \"strings\"\n\nfunc late%[1]s() string {\n\treturn strings.Repeat(\"z\", helper%[1]s(pair%[1]s{%[2]d, 1}))\n}\n", id, r.Intn(4))
		p.Extra["lib_"+id+".xgo"] = fmt.Sprintf("import \"sort\"\n\ntype Ints%[1]s = sort.IntSlice\n\nfunc helper%[1]s(p pair%[1]s) int {\n\treturn p.A + p.B\n}\n\nfunc sorted%[1]s(a []int) []int {\n\tv := Ints%[1]s(a)\n\tv.Sort()\n\treturn a\n}\n", id)
		p.Stmts = append(p.Stmts, fmt.Sprintf("echo helper%[1]s(pair%[1]s{%[2]d, 3}), sorted%[1]s([3, 1, 2])", id, r.Intn(9)))
	}},
	// errwrap on callees with 1..4 values before the error, for every operator
	{"errwrap-arity", func(r *vh.Rand, p *XProg) {
		p.Imports["errors"] = true
		id := p.id("ew")
		p.Decls = append(p.Decls,
			fmt.Sprintf("func e0%s(fail bool) error {\n\tif fail {\n\t\treturn errors.New(\"e0\")\n\t}\n\treturn nil\n}", id),
			fmt.Sprintf("func e1%s(fail bool) (int, error) {\n\tif fail {\n\t\treturn 0, errors.New(\"e1\")\n\t}\n\treturn %d, nil\n}", id, r.Intn(9)),
			fmt.Sprintf("func e2%s(fail bool) (int, string, error) {\n\tif fail {\n\t\treturn 0, \"\", errors.New(\"e2\")\n\t}\n\treturn 1, \"b\", nil\n}", id),
			fmt.Sprintf("func e3%s(fail bool) (int, string, []int, error) {\n\tif fail {\n\t\treturn 0, \"\", nil, errors.New(\"e3\")\n\t}\n\treturn 1, \"b\", [3], nil\n}", id),
			fmt.Sprintf("func e4%s(fail bool) (a int, b string, c float64, d bool, err error) {\n\tif fail {\n\t\terr = errors.New(\"e4\")\n\t}\n\treturn 1, \"b\", 2.5, true, err\n}", id),
			fmt.Sprintf("func all%[1]s(fail bool) (n int, err error) {\n\te0%[1]s(fail)?\n\ta := e1%[1]s(false)?\n\tb, s := e2%[1]s(false)!\n\tc, t, u := e3%[1]s(false)!\n\td, v, f, g := e4%[1]s(false)!\n\techo s, t, u, v, f, g\n\treturn a + b + c + d, nil\n}", id))
		p.Stmts = append(p.Stmts,
			fmt.Sprintf("e0%[1]s(false)!\nx%[1]s := e1%[1]s(false)!\ny%[1]s, z%[1]s := e2%[1]s(false)!\np%[1]s, q%[1]s, r%[1]s := e3%[1]s(false)!\na%[1]s, b%[1]s, c%[1]s, d%[1]s := e4%[1]s(false)!\necho x%[1]s, y%[1]s, z%[1]s, p%[1]s, q%[1]s, r%[1]s, a%[1]s, b%[1]s, c%[1]s, d%[1]s", id),
			fmt.Sprintf("echo all%[1]s(false)\necho all%[1]s(true)\necho e1%[1]s(true)?:%[2]d, e1%[1]s(false)?:7", id, r.Intn(9)))
	}},
	{"closures", func(r *vh.Rand, p *XProg) {
		f := p.id("counter")
		p.Decls = append(p.Decls, fmt.Sprintf("func %s(step int) func() int {\n\tn := 0\n\treturn func() int {\n\t\tn += step\n\t\treturn n\n\t}\n}", f))
		c := p.id("c")
		p.Stmts = append(p.Stmts, fmt.Sprintf("%s := %s(%d)\n%s()\necho %s(), %s()", c, f, 1+r.Intn(5), c, c, c))
	}},
	{"variadic", func(r *vh.Rand, p *XProg) {
		f := p.id("sum")
		p.Decls = append(p.Decls, fmt.Sprintf("func %s(base int, xs ...int) (total int, n int) {\n\ttotal = base\n\tfor x <- xs {\n\t\ttotal += x\n\t}\n\tn = len(xs)\n\treturn\n}", f))
		p.Stmts = append(p.Stmts, fmt.Sprintf("echo %s(%d)\necho %s(1, %s)\necho %s(0, [1, 2, 3]...)", f, r.Intn(9), f, strings.Join(ints(r, 1+r.Intn(4)), ", "), f))
	}},
}

// PieceNames lists the sugar pieces.
func PieceNames() []string {
	ns := make([]string, len(xPieces))
	for i, p := range xPieces {
		ns[i] = p.name
	}
	return ns
}

// GenXGo generates a valid XGo package made of k random sugar pieces (or exactly the piece
// named only, if only != "").
func GenXGo(r *vh.Rand, k int, only string) (Files, []string) {
	p := &XProg{Imports: map[string]bool{}, Extra: Files{}}
	for i := 0; i < k; i++ {
		pc := xPieces[r.Intn(len(xPieces))]
		if only != "" {
			for _, q := range xPieces {
				if q.name == only {
					pc = q
				}
			}
		}
		pc.gen(r, p)
		p.Pieces = append(p.Pieces, pc.name)
	}
	var b strings.Builder
	if len(p.Imports) > 0 {
		var imps []string
		for im := range p.Imports {
			imps = append(imps, im)
		}
		sortStrings(imps)
		b.WriteString("import (\n")
		for _, im := range imps {
			fmt.Fprintf(&b, "\t%q\n", im)
		}
		b.WriteString(")\n\n")
	}
	for _, d := range p.Decls {
		b.WriteString(d)
		b.WriteString("\n\n")
	}
	for _, s := range p.Stmts {
		b.WriteString(s)
		b.WriteString("\n")
	}
	fs := Files{"main.xgo": b.String()}
	for n, d := range p.Extra {
		fs[n] = d
	}
	return fs, p.Pieces
}

func sortStrings(a []string) {
	for i := 1; i < len(a); i++ {
		for j := i; j > 0 && a[j] < a[j-1]; j-- {
			a[j], a[j-1] = a[j-1], a[j]
		}
	}
}
