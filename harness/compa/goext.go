package compa

// Extended Go programs for C01: features of the property's quantifier that the Lean model does
// not cover (maps, structs, methods, pointers, defer/recover, labelled loops, capturing closures,
// variadics, const/iota, type switches, fallthrough, goto, arrays, strings/runes, shifts and bit
// operations, interfaces, errors, named results, init(), package-level variables, run-time
// panics of several kinds).  They are compared two-way only: plain Go vs compiled-as-XGo.
// All are deterministic (maps are printed by fmt, which sorts keys).

import (
	"fmt"
	"strings"

	"verifharness/vh"
)

type extSnippet struct {
	name string
	gen  func(r *vh.Rand, id int) (decls, body string, imports []string)
}

var extSnippets = []extSnippet{
	{"maps", func(r *vh.Rand, id int) (string, string, []string) {
		return "", fmt.Sprintf(`	m%[1]d := map[string]int{"a": %[2]d, "b": %[3]d, "zz": 0}
	m%[1]d["c"] += %[4]d
	delete(m%[1]d, "b")
	v%[1]d, ok%[1]d := m%[1]d["q"]
	fmt.Println(m%[1]d, len(m%[1]d), v%[1]d, ok%[1]d)
	keys%[1]d := make([]string, 0)
	for k := range m%[1]d {
		keys%[1]d = append(keys%[1]d, k)
	}
	sort.Strings(keys%[1]d)
	fmt.Println(keys%[1]d, map[int][]string{%[2]d: {"x", "y"}, -1: nil})
`, id, r.Intn(50), r.Intn(50), r.Intn(9)), []string{"fmt", "sort"}
	}},
	{"structs-methods", func(r *vh.Rand, id int) (string, string, []string) {
		return fmt.Sprintf(`type point%[1]d struct {
	X, Y int
	tag  string
}

func (p point%[1]d) Add(q point%[1]d) point%[1]d { return point%[1]d{p.X + q.X, p.Y + q.Y, p.tag + q.tag} }
func (p *point%[1]d) Scale(k int)          { p.X *= k; p.Y *= k }
func (p point%[1]d) String() string        { return fmt.Sprintf("<%%d,%%d,%%s>", p.X, p.Y, p.tag) }

type shape%[1]d interface {
	Area() int
}
type rect%[1]d struct{ w, h int }
type sq%[1]d struct{ s int }

func (r rect%[1]d) Area() int { return r.w * r.h }
func (s sq%[1]d) Area() int   { return s.s * s.s }
`, id), fmt.Sprintf(`	p%[1]d := point%[1]d{%[2]d, %[3]d, "p"}
	q%[1]d := &point%[1]d{X: 1, tag: "q"}
	q%[1]d.Scale(%[4]d)
	fmt.Println(p%[1]d.Add(*q%[1]d), p%[1]d, *q%[1]d, q%[1]d.X)
	fmt.Printf("%%v %%+v\n", struct{ A, B int }{%[2]d, 2}, rect%[1]d{2, %[3]d})
	shapes%[1]d := []shape%[1]d{rect%[1]d{2, %[3]d}, sq%[1]d{%[4]d}, rect%[1]d{}}
	total%[1]d := 0
	for _, s := range shapes%[1]d {
		total%[1]d += s.Area()
	}
	fmt.Println(total%[1]d)
`, id, r.Intn(20), r.Intn(20), 1+r.Intn(5)), []string{"fmt"}
	}},
	{"defer-recover", func(r *vh.Rand, id int) (string, string, []string) {
		return fmt.Sprintf(`func safeDiv%[1]d(a, b int) (res int, err error) {
	defer func() {
		if r := recover(); r != nil {
			err = fmt.Errorf("recovered: %%v", r)
			res = -1
		}
	}()
	defer fmt.Println("deferred", a, b)
	res = a / b
	return res, nil
}
`, id), fmt.Sprintf(`	fmt.Println(safeDiv%[1]d(%[2]d, %[3]d))
	fmt.Println(safeDiv%[1]d(%[2]d, 0))
	for i := 0; i < 3; i++ {
		defer func(n int) { fmt.Println("main defer", n, i) }(i * %[3]d)
	}
`, id, 10+r.Intn(90), 1+r.Intn(9)), []string{"fmt"}
	}},
	{"labelled-loops", func(r *vh.Rand, id int) (string, string, []string) {
		return "", fmt.Sprintf(`	n%[1]d := 0
outer%[1]d:
	for i := 0; i < %[2]d; i++ {
		for j := 0; j < %[2]d; j++ {
			switch {
			case j == %[3]d:
				continue outer%[1]d
			case i*j > %[4]d:
				break outer%[1]d
			case j%%2 == 0:
				fallthrough
			default:
				n%[1]d += i*10 + j
			}
		}
	}
	k%[1]d := 0
loop%[1]d:
	if k%[1]d < %[3]d+2 {
		k%[1]d++
		goto loop%[1]d
	}
	fmt.Println(n%[1]d, k%[1]d)
`, id, 3+r.Intn(4), r.Intn(4), 3+r.Intn(10)), []string{"fmt"}
	}},
	{"closures", func(r *vh.Rand, id int) (string, string, []string) {
		return fmt.Sprintf(`func counter%[1]d(step int) (func() int, func()) {
	n := 0
	return func() int { n += step; return n }, func() { n = 0 }
}

func apply%[1]d(xs []int, fs ...func(int) int) []int {
	out := make([]int, len(xs))
	copy(out, xs)
	for _, f := range fs {
		for i := range out {
			out[i] = f(out[i])
		}
	}
	return out
}
`, id), fmt.Sprintf(`	inc%[1]d, reset%[1]d := counter%[1]d(%[2]d)
	inc%[1]d()
	a%[1]d := inc%[1]d()
	reset%[1]d()
	fmt.Println(a%[1]d, inc%[1]d())
	var fs%[1]d []func() int
	for i := 0; i < 3; i++ {
		i := i
		fs%[1]d = append(fs%[1]d, func() int { return i * %[3]d })
	}
	for _, f := range fs%[1]d {
		fmt.Print(f(), " ")
	}
	fmt.Println(apply%[1]d([]int{1, 2, %[2]d}, func(x int) int { return x + %[3]d }, func(x int) int { return x * x }))
`, id, 1+r.Intn(5), 1+r.Intn(7)), []string{"fmt"}
	}},
	{"const-iota-bits", func(r *vh.Rand, id int) (string, string, []string) {
		return fmt.Sprintf(`const (
	flagA%[1]d = 1 << iota
	flagB%[1]d
	flagC%[1]d
	mask%[1]d = flagA%[1]d | flagC%[1]d
)

type weekday%[1]d int

const (
	mon%[1]d weekday%[1]d = iota + %[2]d
	tue%[1]d
	_
	thu%[1]d
)
`, id, r.Intn(5)), fmt.Sprintf(`	x%[1]d := uint8(%[2]d)
	y%[1]d := int32(-%[3]d)
	fmt.Println(flagB%[1]d, mask%[1]d, mask%[1]d&^flagA%[1]d, thu%[1]d, mon%[1]d+tue%[1]d)
	fmt.Println(x%[1]d<<3, x%[1]d>>1, ^x%[1]d, x%[1]d*7, y%[1]d>>2, y%[1]d%%7, uint32(y%[1]d)>>28, x%[1]d^0x55, int8(x%[1]d)+100)
	var u%[1]d uint = 3
	fmt.Println(1<<u%[1]d, -7/2, -7%%2, 7.0/2, 1e3, 0x1p4, 'a'+1, "s"+string(rune(%[2]d+65)))
`, id, 200+r.Intn(55), 1+r.Intn(1000)), []string{"fmt"}
	}},
	{"type-switch", func(r *vh.Rand, id int) (string, string, []string) {
		return fmt.Sprintf(`type myErr%[1]d struct{ code int }

func (e *myErr%[1]d) Error() string { return fmt.Sprint("myErr ", e.code) }

func classify%[1]d(v interface{}) string {
	switch x := v.(type) {
	case nil:
		return "nil"
	case int, int64:
		return fmt.Sprintf("int:%%v", x)
	case string:
		return "str:" + x
	case []int:
		return fmt.Sprint("slice:", len(x))
	case error:
		return "err:" + x.Error()
	case fmt.Stringer:
		return "stringer"
	case func() int:
		return fmt.Sprint("func:", x())
	}
	return fmt.Sprintf("other:%%T", v)
}
`, id), fmt.Sprintf(`	for _, v := range []interface{}{nil, %[2]d, int64(7), "s", []int{1}, &myErr%[1]d{%[3]d}, errors.New("e"), 2.5, func() int { return %[2]d }, [2]bool{}} {
		fmt.Println(classify%[1]d(v))
	}
	var e%[1]d error = &myErr%[1]d{1}
	if me, ok := e%[1]d.(*myErr%[1]d); ok {
		fmt.Println(me.code, ok)
	}
	_, ok%[1]d := e%[1]d.(fmt.Stringer)
	fmt.Println(ok%[1]d)
`, id, r.Intn(100), r.Intn(100)), []string{"fmt", "errors"}
	}},
	{"arrays-strings", func(r *vh.Rand, id int) (string, string, []string) {
		return "", fmt.Sprintf(`	var arr%[1]d [4]int
	arr%[1]d[%[2]d] = %[3]d
	brr%[1]d := arr%[1]d
	brr%[1]d[0]++
	fmt.Println(arr%[1]d, brr%[1]d, arr%[1]d == brr%[1]d, len(arr%[1]d), [...]string{2: "x"})
	s%[1]d := "héllo, 世界"
	for i, c := range s%[1]d {
		if c > 127 {
			fmt.Print(i, ":", string(c), " ")
		}
	}
	fmt.Println(len(s%[1]d), s%[1]d[1], s%[1]d[7:], []byte(s%[1]d[:3]), []rune(s%[1]d)[1], strings.ToUpper(s%[1]d), strings.Repeat("ab", %[2]d))
	sl%[1]d := []int{0, 1, 2, 3, 4, 5}
	t%[1]d := sl%[1]d[1:4]
	t%[1]d = append(t%[1]d, 99)
	u%[1]d := sl%[1]d[2:3:3]
	u%[1]d = append(u%[1]d, 77)
	fmt.Println(sl%[1]d, t%[1]d, u%[1]d, len(t%[1]d), cap(t%[1]d), cap(u%[1]d) >= 2, copy(sl%[1]d, []int{9, 9}))
	mat%[1]d := [][]int{{1, 2}, {3}, nil}
	mat%[1]d[2] = append(mat%[1]d[2], mat%[1]d[0]...)
	fmt.Println(mat%[1]d, len(mat%[1]d[2]))
`, id, r.Intn(4), r.Intn(100)), []string{"fmt", "strings"}
	}},
	{"named-results-variadic", func(r *vh.Rand, id int) (string, string, []string) {
		return fmt.Sprintf(`func stats%[1]d(base int, xs ...int) (sum, n int, avg float64) {
	sum = base
	for _, x := range xs {
		sum += x
	}
	n = len(xs)
	if n == 0 {
		return
	}
	avg = float64(sum) / float64(n)
	return sum, n, avg
}

func swap%[1]d(a, b *int) { *a, *b = *b, *a }
`, id), fmt.Sprintf(`	fmt.Println(stats%[1]d(%[2]d))
	fmt.Println(stats%[1]d(1, %[2]d, %[3]d, 4))
	xs%[1]d := []int{%[3]d, 2}
	fmt.Println(stats%[1]d(0, xs%[1]d...))
	a%[1]d, b%[1]d := %[2]d, %[3]d
	swap%[1]d(&a%[1]d, &b%[1]d)
	pp%[1]d := &a%[1]d
	*pp%[1]d += 5
	fmt.Println(a%[1]d, b%[1]d, *pp%[1]d, pp%[1]d == &a%[1]d, new(int) != nil)
`, id, r.Intn(50), r.Intn(50)), []string{"fmt"}
	}},
	{"globals-init", func(r *vh.Rand, id int) (string, string, []string) {
		return fmt.Sprintf(`var (
	g%[1]d    = initG%[1]d()
	gs%[1]d   []string
	gm%[1]d   = map[string]int{}
	gcnt%[1]d int
)

func initG%[1]d() int {
	fmt.Println("initG%[1]d")
	return %[2]d
}

func init() {
	gs%[1]d = append(gs%[1]d, "init%[1]d")
	gm%[1]d["i"] = g%[1]d * 2
	fmt.Println("init", g%[1]d)
}

func bump%[1]d() int { gcnt%[1]d++; return gcnt%[1]d }
`, id, r.Intn(100)), fmt.Sprintf(`	fmt.Println(g%[1]d, gs%[1]d, gm%[1]d, bump%[1]d()+bump%[1]d()*10, gcnt%[1]d)
`, id), []string{"fmt"}
	}},
	{"generics-free-sort", func(r *vh.Rand, id int) (string, string, []string) {
		return fmt.Sprintf(`type byLen%[1]d []string

func (a byLen%[1]d) Len() int           { return len(a) }
func (a byLen%[1]d) Swap(i, j int)      { a[i], a[j] = a[j], a[i] }
func (a byLen%[1]d) Less(i, j int) bool { return len(a[i]) < len(a[j]) || (len(a[i]) == len(a[j]) && a[i] < a[j]) }
`, id), fmt.Sprintf(`	w%[1]d := byLen%[1]d{"ccc", "a", "bb", "aa", "", "%[2]d"}
	sort.Sort(w%[1]d)
	fmt.Println(w%[1]d, strconv.Itoa(%[2]d)+"!", strconv.Quote("q\t"))
	n%[1]d, err%[1]d := strconv.Atoi("%[2]dx")
	fmt.Println(n%[1]d, err%[1]d)
	var sb%[1]d strings.Builder
	for i := 0; i < 3; i++ {
		fmt.Fprintf(&sb%[1]d, "%%d-%%s|", i, w%[1]d[i])
	}
	fmt.Println(sb%[1]d.String(), strings.Fields(" a  b "), strings.Split("a,b,c", ","))
`, id, r.Intn(1000)), []string{"fmt", "sort", "strconv", "strings"}
	}},
	{"channels-select", func(r *vh.Rand, id int) (string, string, []string) {
		return "", fmt.Sprintf(`	ch%[1]d := make(chan int, 3)
	done%[1]d := make(chan struct{})
	go func() {
		defer close(done%[1]d)
		for v := range ch%[1]d {
			fmt.Println("got", v)
		}
	}()
	for i := 0; i < %[2]d; i++ {
		ch%[1]d <- i * %[3]d
	}
	close(ch%[1]d)
	<-done%[1]d
	select {
	case v, ok := <-ch%[1]d:
		fmt.Println("closed", v, ok)
	default:
		fmt.Println("default")
	}
`, id, 1+r.Intn(4), r.Intn(9)), []string{"fmt"}
	}},
	// shapes reported by builder compC (callee declared after its caller while the caller has a
	// local named like an imported package; composite literal in parentheses in an if/switch header)
	{"late-callee-shadow-pkg", func(r *vh.Rand, id int) (string, string, []string) {
		return fmt.Sprintf(`type fakeFmt%[1]d struct{}

func (fakeFmt%[1]d) Sprint(a ...interface{}) string { return "local" }

func unit%[1]d() string {
	fmt := fakeFmt%[1]d{}
	_ = fmt
	return keep%[1]d(%[2]d)
}

func keep%[1]d(n int) string { return fmt.Sprint("pkg", n) }
`, id, r.Intn(100)), fmt.Sprintf("\tfmt.Println(unit%[1]d())\n", id), []string{"fmt"}
	}},
	{"paren-complit-header", func(r *vh.Rand, id int) (string, string, []string) {
		return fmt.Sprintf("type hdr%[1]d struct{ a, b int }\n", id), fmt.Sprintf(`	if x := (hdr%[1]d{%[2]d, 2}); x.a > %[3]d {
		fmt.Println("big", x)
	} else if y := (hdr%[1]d{}); y == (hdr%[1]d{}) {
		fmt.Println("zero", x, y)
	}
	for _, v := range ([]hdr%[1]d{{1, 2}, {3, 4}}) {
		fmt.Println(v.a + v.b)
	}
`, id, r.Intn(10), r.Intn(10)), []string{"fmt"}
	}},
	{"local-named-like-pkg", func(r *vh.Rand, id int) (string, string, []string) {
		return fmt.Sprintf(`func localPkg%[1]d() int {
	switch strconv := %[2]d; {
	case strconv > 2:
		return strconv
	}
	return 0
}
`, id, r.Intn(9)), fmt.Sprintf("\tfmt.Println(localPkg%[1]d(), strconv.Itoa(%[2]d))\n", id, r.Intn(100)), []string{"fmt", "strconv"}
	}},
	// every syntactic variant of the range statement (define, assign, key-only, value-only, blank, no
	// variables; over slice, array, string, map, channel; assignable operands: field, element, *p)
	{"range-forms", func(r *vh.Rand, id int) (string, string, []string) {
		return fmt.Sprintf("type holder%[1]d struct{ f, g int }\n", id), fmt.Sprintf(`	xs%[1]d := []int{3, 1, %[2]d}
	var ri%[1]d, rv%[1]d, cnt%[1]d int
	for ri%[1]d = range xs%[1]d {
	}
	fmt.Println("key-only assign", ri%[1]d)
	for ri%[1]d, rv%[1]d = range xs%[1]d {
	}
	fmt.Println("key-value assign", ri%[1]d, rv%[1]d)
	ri%[1]d = -1
	for _, rv%[1]d = range xs%[1]d[:2] {
	}
	fmt.Println("value-only assign", ri%[1]d, rv%[1]d)
	for range xs%[1]d {
		cnt%[1]d++
	}
	for i := range xs%[1]d {
		cnt%[1]d += i
	}
	for _, v := range xs%[1]d {
		cnt%[1]d += v
	}
	for i, v := range xs%[1]d {
		cnt%[1]d += i * v
	}
	for _ = range xs%[1]d {
		cnt%[1]d++
	}
	fmt.Println("counts", cnt%[1]d)
	arr%[1]d := [4]string{"a", "b", "c", "d"}
	for ri%[1]d = range arr%[1]d {
	}
	for i, s := range arr%[1]d {
		fmt.Print(i, s, " ")
	}
	fmt.Println("array", ri%[1]d)
	str%[1]d := "héy!"
	var h%[1]d holder%[1]d
	for h%[1]d.f = range str%[1]d {
	}
	var rc%[1]d rune
	for h%[1]d.g, rc%[1]d = range str%[1]d {
	}
	var idx%[1]d [2]int
	for idx%[1]d[1] = range xs%[1]d {
	}
	pp%[1]d := &ri%[1]d
	for *pp%[1]d = range str%[1]d {
	}
	fmt.Println("string/field/elem/deref", h%[1]d, string(rc%[1]d), idx%[1]d, ri%[1]d)
	m%[1]d := map[string]int{"only": %[2]d}
	var mk%[1]d string
	for mk%[1]d = range m%[1]d {
	}
	fmt.Println("map key-only", mk%[1]d)
	for mk%[1]d, rv%[1]d = range m%[1]d {
	}
	for k, v := range m%[1]d {
		fmt.Println("map", k, v, mk%[1]d, rv%[1]d)
	}
	ch%[1]d := make(chan int, 3)
	ch%[1]d <- 7
	ch%[1]d <- %[2]d
	close(ch%[1]d)
	for rv%[1]d = range ch%[1]d {
		fmt.Println("chan assign", rv%[1]d)
	}
	var nilxs%[1]d []string
	for ri%[1]d = range nilxs%[1]d {
	}
	fmt.Println("after empty range", ri%[1]d)
`, id, r.Intn(50)), []string{"fmt"}
	}},
	// every assignment operator and inc/dec on every kind of operand
	{"assign-ops", func(r *vh.Rand, id int) (string, string, []string) {
		return fmt.Sprintf("type cell%[1]d struct{ n int }\n", id), fmt.Sprintf(`	a%[1]d, u%[1]d, f%[1]d, s%[1]d := %[2]d, uint8(%[3]d), 1.5, "s"
	a%[1]d += 3
	a%[1]d -= 1
	a%[1]d *= 5
	a%[1]d /= 2
	a%[1]d %%= 7
	a%[1]d <<= 3
	a%[1]d >>= 1
	a%[1]d |= 0x10
	a%[1]d &= 0x1f
	a%[1]d ^= 5
	a%[1]d &^= 1
	a%[1]d++
	u%[1]d += 200
	u%[1]d <<= 1
	u%[1]d--
	u%[1]d ^= 0xff
	f%[1]d *= 2
	f%[1]d -= 0.25
	f%[1]d /= 2
	f%[1]d++
	s%[1]d += "t"
	s%[1]d += s%[1]d
	fmt.Println(a%[1]d, u%[1]d, f%[1]d, s%[1]d)
	el%[1]d := []int{1, 2, 3}
	c%[1]d := &cell%[1]d{4}
	mm%[1]d := map[string]int{"k": 1}
	pi%[1]d := &a%[1]d
	el%[1]d[1] += 10
	el%[1]d[2]++
	el%[1]d[0] <<= 2
	c%[1]d.n *= 3
	c%[1]d.n--
	mm%[1]d["k"] += 5
	mm%[1]d["new"]++
	mm%[1]d["k"] &^= 2
	*pi%[1]d += 100
	(*pi%[1]d)++
	(a%[1]d) = a%[1]d + 1
	(el%[1]d[0])--
	fmt.Println(el%[1]d, *c%[1]d, mm%[1]d, a%[1]d)
`, id, r.Intn(50), r.Intn(100)), []string{"fmt"}
	}},
	// every binary/unary operator incl. bitwise and shifts, printed with MINIMAL parentheses so that
	// precedence and associativity decide the tree
	{"operator-precedence", func(r *vh.Rand, id int) (string, string, []string) {
		var b strings.Builder
		fmt.Fprintf(&b, "\tvar pa%[1]d, pb%[1]d, pc%[1]d, pd%[1]d uint32 = %[2]d, %[3]d, %[4]d, %[5]d\n\tvar pe%[1]d, pf%[1]d int = %[6]d, %[7]d\n", id, 1+r.Intn(200), 1+r.Intn(60000), 3+r.Intn(9), 0xf0f0+r.Intn(100), 5+r.Intn(40), -3-r.Intn(20))
		us := []string{fmt.Sprintf("pa%d", id), fmt.Sprintf("pb%d", id), fmt.Sprintf("pc%d", id), fmt.Sprintf("pd%d", id)}
		is := []string{fmt.Sprintf("pe%d", id), fmt.Sprintf("pf%d", id)}
		for k := 0; k < 10; k++ {
			vars := us
			if k%3 == 2 {
				vars = is
			}
			e1, _ := precExpr(r, vars, 3)
			e2, _ := precExpr(r, vars, 2)
			fmt.Fprintf(&b, "\tfmt.Println(%d, %s, %s %s %s)\n", k, e1, e1, []string{"<", "==", "!=", ">="}[r.Intn(4)], e2)
		}
		e3, _ := precExpr(r, us, 2)
		e4, _ := precExpr(r, us, 2)
		e5, _ := precExpr(r, is, 2)
		fmt.Fprintf(&b, "\tfmt.Println(%s < %s || %s > 0 && !(%s == %s), -%s, ^%s, +%s, !(%s != %s))\n", e3, e4, e5, e3, e4, is[0], us[0], is[1], e4, e3)
		return "", b.String(), []string{"fmt"}
	}},
	// switch in all its forms, minimal select, order of defers and recover
	{"switch-select-forms", func(r *vh.Rand, id int) (string, string, []string) {
		return fmt.Sprintf(`func sw%[1]d(x int, s string) (out []string) {
	defer func() {
		if e := recover(); e != nil {
			out = append(out, fmt.Sprint("recovered:", e))
		}
	}()
	defer func() { out = append(out, "d1") }()
	defer func() { out = append(out, "d2") }()
	switch {
	}
	switch x {
	}
	switch y := x * 2; {
	case y > 10:
		out = append(out, "big")
		fallthrough
	case y > 100:
		out = append(out, "fell")
	default:
		out = append(out, "small")
	}
	switch y := x %% 3; y {
	default:
		out = append(out, "dflt-first")
	case 0, 1:
		out = append(out, "01")
		if x > 4 {
			break
		}
		out = append(out, "after-break")
	}
	switch s {
	case "a", "b":
		out = append(out, "ab")
	case s + "":
		out = append(out, "self")
	}
	switch f := func() int { return x }; f() {
	case 1:
		out = append(out, "one")
	}
	ch := make(chan string, 1)
	select {
	case v := <-ch:
		out = append(out, v)
	default:
		out = append(out, "empty")
	}
	ch <- s
	select {
	case v, ok := <-ch:
		out = append(out, v, fmt.Sprint(ok))
	}
	select {
	case ch <- "sent":
		out = append(out, "send-ok")
	default:
	}
	if x == 7 {
		panic("seven")
	}
	return out
}
`, id), fmt.Sprintf("\tfmt.Println(sw%[1]d(%[2]d, \"a\"))\n\tfmt.Println(sw%[1]d(7, \"zz\"))\n\tfmt.Println(sw%[1]d(%[3]d, \"\"))\n", id, r.Intn(6), 50+r.Intn(9)), []string{"fmt"}
	}},
}

var precOps = []struct {
	op   string
	prec int
}{{"*", 5}, {"/", 5}, {"%", 5}, {"<<", 5}, {">>", 5}, {"&", 5}, {"&^", 5}, {"&^", 5}, {"+", 4}, {"-", 4}, {"|", 4}, {"|", 4}, {"^", 4}}

// precExpr builds a random integer expression over vars and returns it printed with minimal
// parentheses, together with the precedence of its top operator (6 = atom / unary).
func precExpr(r *vh.Rand, vars []string, depth int) (string, int) {
	if depth <= 0 || r.Chance(20) {
		v := vars[r.Intn(len(vars))]
		switch r.Intn(8) {
		case 0:
			return "^" + v, 6
		case 1:
			return "-" + v, 6
		case 2:
			return fmt.Sprint(1 + r.Intn(9)), 6
		}
		return v, 6
	}
	o := precOps[r.Intn(len(precOps))]
	l, lp := precExpr(r, vars, depth-1)
	var rs string
	var rp int
	switch o.op {
	case "/", "%":
		// divisor never zero: (x | 1) is an atom
		x, _ := precExpr(r, vars, depth-2)
		rs, rp = "("+x+" | 1)", 6
	case "<<", ">>":
		x, _ := precExpr(r, vars, depth-2)
		rs, rp = "("+x+" & 7)", 6
	default:
		rs, rp = precExpr(r, vars, depth-1)
	}
	isLit := func(x string) bool { return len(x) == 1 && x[0] >= '0' && x[0] <= '9' }
	if isLit(l) && (isLit(rs) || rp == 6 && strings.HasPrefix(rs, "(")) {
		l = vars[r.Intn(len(vars))] // never two constant operands (constant folding / overflow is compile time)
	}
	if lp < o.prec {
		l = "(" + l + ")"
	}
	if rp <= o.prec && rp != 6 { // left associative: equal precedence on the right needs parentheses
		rs = "(" + rs + ")"
	}
	sp := " "
	if o.prec == 5 && r.Chance(50) {
		sp = "" // gofmt style: tighter binding written without blanks
	}
	if sp == "" && (strings.HasPrefix(rs, "-") || strings.HasPrefix(rs, "^") || strings.HasPrefix(rs, "+")) {
		sp = " "
	}
	return l + sp + o.op + sp + rs, o.prec
}

// panicking tails: the program ends with one of these (exit status and panic value compared).
var extTails = []extSnippet{
	{"tail-nilmap", func(r *vh.Rand, id int) (string, string, []string) {
		return "", "\tvar nm map[string]int\n\tfmt.Println(nm[\"a\"], len(nm))\n\tnm[\"a\"] = 1\n", []string{"fmt"}
	}},
	{"tail-nilptr", func(r *vh.Rand, id int) (string, string, []string) {
		return "type nodeT struct{ next *nodeT; v int }\n", "\tvar np *nodeT\n\tfmt.Println(np == nil)\n\tfmt.Println(np.next.v)\n", []string{"fmt"}
	}},
	{"tail-typeassert", func(r *vh.Rand, id int) (string, string, []string) {
		return "", fmt.Sprintf("\tvar iv interface{} = %d\n\tfmt.Println(iv.(int))\n\tfmt.Println(iv.(string))\n", r.Intn(100)), []string{"fmt"}
	}},
	{"tail-customerr", func(r *vh.Rand, id int) (string, string, []string) {
		return "", fmt.Sprintf("\tdefer fmt.Println(\"deferred before panic\")\n\tpanic(fmt.Errorf(\"custom error %%d\", %d))\n", r.Intn(100)), []string{"fmt"}
	}},
	{"tail-slicebounds", func(r *vh.Rand, id int) (string, string, []string) {
		return "", fmt.Sprintf("\tsb := []int{1, 2, 3}\n\tkk := %d\n\tfmt.Println(sb[1:kk])\n", 4+r.Intn(5)), []string{"fmt"}
	}},
	{"tail-arrayidx", func(r *vh.Rand, id int) (string, string, []string) {
		return "", fmt.Sprintf("\tvar ar [3]int\n\tidx := %d\n\tar[idx%%5] = 1\n\tfmt.Println(ar)\n\tar[idx] = 2\n", 3+r.Intn(5)), []string{"fmt"}
	}},
	{"tail-exit-in-defer", func(r *vh.Rand, id int) (string, string, []string) {
		return "", fmt.Sprintf("\tdefer func() {\n\t\tfmt.Println(\"exiting\")\n\t\tos.Exit(%d)\n\t}()\n\tpanic(\"replaced by exit\")\n", 1+r.Intn(100)), []string{"fmt", "os"}
	}},
	{"tail-repanic", func(r *vh.Rand, id int) (string, string, []string) {
		return "", fmt.Sprintf("\tdefer func() {\n\t\tr := recover()\n\t\tfmt.Println(\"recovered\", r)\n\t\tpanic(fmt.Sprint(\"again \", r))\n\t}()\n\tvar z []int\n\t_ = z[%d]\n", r.Intn(4)), []string{"fmt"}
	}},
	{"tail-overflow-conv", func(r *vh.Rand, id int) (string, string, []string) {
		return "", fmt.Sprintf("\tbig := int64(1) << 40\n\toff := %d\n\tfmt.Println(int32(big+%d), uint8(big-1), int8(-129+off))\n\tvar d int\n\tfmt.Println(%d %% d)\n", r.Intn(3), r.Intn(100), r.Intn(100)), []string{"fmt"}
	}},
	{"tail-ok", func(r *vh.Rand, id int) (string, string, []string) {
		return "", fmt.Sprintf("\tif len(os.Args) > 5 {\n\t\tos.Exit(9)\n\t}\n\tfmt.Println(\"done\", %d)\n", r.Intn(100)), []string{"fmt", "os"}
	}},
}

// ExtNames lists the snippet names (coverage report).
func ExtNames() []string {
	var ns []string
	for _, s := range extSnippets {
		ns = append(ns, s.name)
	}
	for _, s := range extTails {
		ns = append(ns, s.name)
	}
	return ns
}

// GenGoExtNamed assembles the named snippets (in order; a name may repeat) and the normal-exit tail.
func GenGoExtNamed(r *vh.Rand, names []string) string {
	imports := map[string]bool{"fmt": true, "os": true}
	var decls, body strings.Builder
	for i, n := range names {
		for _, sn := range extSnippets {
			if sn.name == n {
				d, b, im := sn.gen(r, 50+i)
				decls.WriteString(d)
				if d != "" {
					decls.WriteString("\n")
				}
				body.WriteString(b)
				for _, x := range im {
					imports[x] = true
				}
			}
		}
	}
	var imps []string
	for x := range imports {
		imps = append(imps, x)
	}
	sortStrings(imps)
	var out strings.Builder
	out.WriteString("package main\n\nimport (\n")
	for _, x := range imps {
		fmt.Fprintf(&out, "\t%q\n", x)
	}
	out.WriteString(")\n\n" + decls.String() + "\nfunc main() {\n" + body.String())
	out.WriteString("\tif len(os.Args) > 5 {\n\t\tos.Exit(9)\n\t}\n}\n")
	return out.String()
}

// GenGoExt generates an extended (unmodelled) Go main program out of k snippets and one tail.
func GenGoExt(r *vh.Rand, k int) (src string, names []string) {
	imports := map[string]bool{}
	var decls, body strings.Builder
	perm := r.Intn(len(extSnippets))
	for i := 0; i < k; i++ {
		s := extSnippets[(perm+i*7)%len(extSnippets)] // 19 snippets: stride 7 is coprime
		d, b, im := s.gen(r, i+1)
		decls.WriteString(d)
		if d != "" {
			decls.WriteString("\n")
		}
		body.WriteString(b)
		for _, x := range im {
			imports[x] = true
		}
		names = append(names, s.name)
	}
	t := extTails[r.Intn(len(extTails))]
	d, b, im := t.gen(r, 99)
	decls.WriteString(d)
	body.WriteString(b)
	for _, x := range im {
		imports[x] = true
	}
	names = append(names, t.name)
	var imps []string
	for x := range imports {
		imps = append(imps, x)
	}
	sortStrings(imps)
	var out strings.Builder
	out.WriteString("package main\n\nimport (\n")
	for _, x := range imps {
		fmt.Fprintf(&out, "\t%q\n", x)
	}
	out.WriteString(")\n\n")
	out.WriteString(decls.String())
	out.WriteString("\nfunc main() {\n")
	out.WriteString(body.String())
	out.WriteString("}\n")
	return out.String(), names
}
