package compa

import (
	goast "go/ast"
	goparser "go/parser"
	gotoken "go/token"
	"reflect"
)

// SameGoAST reports whether two Go sources are the same program up to layout: equal syntax
// trees ignoring positions, comments, redundant parentheses, resolution data and XGo's
// `const _ = true` marker.  Used only to skip building a second, identical binary.
func SameGoAST(a, b []byte) bool {
	fa, ea := goparser.ParseFile(gotoken.NewFileSet(), "a.go", a, goparser.SkipObjectResolution)
	fb, eb := goparser.ParseFile(gotoken.NewFileSet(), "b.go", b, goparser.SkipObjectResolution)
	if ea != nil || eb != nil {
		return false
	}
	da, db := realDecls(fa), realDecls(fb)
	if len(da) != len(db) || fa.Name.Name != fb.Name.Name {
		return false
	}
	for i := range da {
		if !eqNode(reflect.ValueOf(da[i]), reflect.ValueOf(db[i])) {
			return false
		}
	}
	return true
}

func realDecls(f *goast.File) []goast.Decl {
	var out []goast.Decl
	for _, d := range f.Decls {
		if g, ok := d.(*goast.GenDecl); ok && g.Tok == gotoken.CONST && len(g.Specs) == 1 {
			if vs, ok := g.Specs[0].(*goast.ValueSpec); ok && len(vs.Names) == 1 && vs.Names[0].Name == "_" && len(vs.Values) == 1 {
				if id, ok := vs.Values[0].(*goast.Ident); ok && id.Name == "true" {
					continue
				}
			}
		}
		out = append(out, d)
	}
	return out
}

var posType = reflect.TypeOf(gotoken.Pos(0))

func unparen(v reflect.Value) reflect.Value {
	for v.IsValid() && (v.Kind() == reflect.Interface || v.Kind() == reflect.Ptr) && !v.IsNil() {
		if v.Kind() == reflect.Interface {
			v = v.Elem()
			continue
		}
		if p, ok := v.Interface().(*goast.ParenExpr); ok {
			v = reflect.ValueOf(p.X)
			continue
		}
		break
	}
	return v
}

func eqNode(a, b reflect.Value) bool {
	a, b = unparen(a), unparen(b)
	if !a.IsValid() || !b.IsValid() {
		return a.IsValid() == b.IsValid()
	}
	if a.Type() != b.Type() {
		return false
	}
	switch a.Kind() {
	case reflect.Ptr, reflect.Interface:
		if a.IsNil() || b.IsNil() {
			return a.IsNil() == b.IsNil()
		}
		switch a.Interface().(type) {
		case *goast.Object, *goast.Scope, *goast.CommentGroup, *goast.Comment:
			return true
		}
		return eqNode(a.Elem(), b.Elem())
	case reflect.Struct:
		for i := 0; i < a.NumField(); i++ {
			if a.Field(i).Type() == posType {
				// a position only matters as "present or not" (e.g. Lparen of a GenDecl, Ellipsis)
				if (a.Field(i).Int() == 0) != (b.Field(i).Int() == 0) && a.Type().Field(i).Name != "Lparen" && a.Type().Field(i).Name != "Rparen" {
					return false
				}
				continue
			}
			if !eqNode(a.Field(i), b.Field(i)) {
				return false
			}
		}
		return true
	case reflect.Slice:
		if a.Len() != b.Len() {
			return false
		}
		for i := 0; i < a.Len(); i++ {
			if !eqNode(a.Index(i), b.Index(i)) {
				return false
			}
		}
		return true
	case reflect.String:
		return a.String() == b.String()
	case reflect.Int, reflect.Int64, reflect.Int32:
		return a.Int() == b.Int()
	case reflect.Bool:
		return a.Bool() == b.Bool()
	case reflect.Uint, reflect.Uint64, reflect.Uint32:
		return a.Uint() == b.Uint()
	}
	return false
}
