package compa

// Name-resolution scenarios for C01 (two-way Go vs XGo): the SAME identifier is declared at two
// scope levels (package level before/after its user, universe, imported package name, parameter,
// named result, local const/var/type, loop variable, label, field) and is used where the binding
// is observable: value positions AND type/constant positions (array lengths, conversions, composite
// literal types, case expressions, constant expressions, iota, constant indices).  XGo loads
// package-level symbols lazily, so the position of the package-level declaration relative to the
// function matters: every scenario is generated in both placements.

import (
	"fmt"
	"strings"

	"verifharness/vh"
)

// NameScenario is one self-contained scenario: package-level declarations (placed before or after
// the functions), one function, and the statement calling it from main.
type NameScenario struct {
	Name    string
	After   bool // package-level declaration after the function that shadows it
	PkgDecl string
	Func    string
	Call    string
	Imports []string
}

type nameTpl struct {
	name string
	gen  func(r *vh.Rand, n string, id int) (pkg, fn, call string, imports []string)
}

var nameTpls = []nameTpl{
	{"const-arraylen", func(r *vh.Rand, n string, id int) (string, string, string, []string) {
		k := 3 + r.Intn(4)
		return fmt.Sprintf("const %s = 2\n", n),
			fmt.Sprintf(`func sc%[2]d() {
	const %[1]s = %[3]d
	var buf [%[1]s]int
	const dbl = %[1]s * 2
	for i := range buf {
		buf[i] = i * %[1]s
	}
	switch len(buf) {
	case %[1]s:
		fmt.Println("sc%[2]d local")
	case 2:
		fmt.Println("sc%[2]d global")
	}
	fmt.Println(len(buf), buf, dbl, len([%[1]s]string{}), len(make([]int, %[1]s)), [...]int{%[1]s: 1})
}
`, n, id, k), fmt.Sprintf("sc%d()", id), nil
	}},
	{"var-vs-pkgvar", func(r *vh.Rand, n string, id int) (string, string, string, []string) {
		return fmt.Sprintf("var %s = %d\n", n, r.Intn(100)),
			fmt.Sprintf("func sc%[2]d() {\n\t%[1]s := \"local\"\n\tfmt.Println(%[1]s, len(%[1]s), %[1]s+\"!\")\n}\n", n, id), fmt.Sprintf("sc%d()", id), nil
	}},
	{"var-vs-pkgfunc", func(r *vh.Rand, n string, id int) (string, string, string, []string) {
		return fmt.Sprintf("func %s() int { return %d }\n", n, r.Intn(100)),
			fmt.Sprintf("func sc%[2]d() {\n\t%[1]s := []int{1, 2}\n\tfmt.Println(%[1]s, len(%[1]s), %[1]s[1])\n}\n\nfunc sc%[2]db() int { return %[1]s() + 1 }\n", n, id), fmt.Sprintf("sc%[1]d()\n\tfmt.Println(sc%[1]db())", id), nil
	}},
	{"var-vs-pkgtype", func(r *vh.Rand, n string, id int) (string, string, string, []string) {
		return fmt.Sprintf("type %s struct{ x int }\n", n),
			fmt.Sprintf("func sc%[2]d() {\n\t%[1]s := 1.5\n\tfmt.Println(%[1]s*2, int(%[1]s))\n}\n\nfunc sc%[2]db() %[1]s { return %[1]s{%[3]d} }\n", n, id, r.Intn(9)), fmt.Sprintf("sc%[1]d()\n\tfmt.Println(sc%[1]db())", id), nil
	}},
	{"param-vs-pkgconst", func(r *vh.Rand, n string, id int) (string, string, string, []string) {
		return fmt.Sprintf("const %s = \"pkg\"\n", n),
			fmt.Sprintf("func sc%[2]d(%[1]s int) [3]int {\n\tvar a [3]int\n\ta[%[1]s%%3] = %[1]s\n\treturn a\n}\n", n, id), fmt.Sprintf("fmt.Println(sc%d(%d), %s)", id, r.Intn(20), n), nil
	}},
	{"result-vs-pkgvar", func(r *vh.Rand, n string, id int) (string, string, string, []string) {
		return fmt.Sprintf("var %s = \"s%d\"\n", n, r.Intn(9)),
			fmt.Sprintf("func sc%[2]d() (%[1]s int) {\n\t%[1]s = %[3]d\n\tdefer func() { %[1]s *= 2 }()\n\treturn %[1]s + 1\n}\n", n, id, r.Intn(20)), fmt.Sprintf("fmt.Println(sc%d(), %s)", id, n), nil
	}},
	{"loopvars-vs-pkgconst", func(r *vh.Rand, n string, id int) (string, string, string, []string) {
		return fmt.Sprintf("const %s = 100\n", n),
			fmt.Sprintf("func sc%[2]d() {\n\tfor %[1]s := 0; %[1]s < 2; %[1]s++ {\n\t\tfmt.Println(\"for\", %[1]s)\n\t}\n\tfor _, %[1]s := range []string{\"a\", \"b\"} {\n\t\tfmt.Println(\"range\", %[1]s)\n\t}\n\tfmt.Println(%[1]s + 1)\n}\n", n, id), fmt.Sprintf("sc%d()", id), nil
	}},
	{"label-vs-pkgconst", func(r *vh.Rand, n string, id int) (string, string, string, []string) {
		return fmt.Sprintf("const %s = %d\n", n, 1+r.Intn(9)),
			fmt.Sprintf("func sc%[2]d() {\n%[1]s:\n\tfor i := 0; i < 4; i++ {\n\t\tfor j := 0; j < 2; j++ {\n\t\t\tif i == 1 {\n\t\t\t\tcontinue %[1]s\n\t\t\t}\n\t\t\tif i == 3 {\n\t\t\t\tbreak %[1]s\n\t\t\t}\n\t\t\tfmt.Println(i, j, %[1]s)\n\t\t}\n\t}\n}\n", n, id), fmt.Sprintf("sc%d()", id), nil
	}},
	{"field-vs-pkgconst", func(r *vh.Rand, n string, id int) (string, string, string, []string) {
		return fmt.Sprintf("const %s = %d\n", n, 2+r.Intn(5)),
			fmt.Sprintf("type rec%[2]d struct{ %[1]s int }\n\nfunc (r rec%[2]d) get() int { return r.%[1]s * %[1]s }\n\nfunc sc%[2]d() {\n\tv := rec%[2]d{%[1]s: 7}\n\tfmt.Println(v.get(), v.%[1]s, rec%[2]d{%[1]s}.%[1]s)\n}\n", n, id), fmt.Sprintf("sc%d()", id), nil
	}},
	{"localtype-vs-pkgtype", func(r *vh.Rand, n string, id int) (string, string, string, []string) {
		return fmt.Sprintf("type %s []string\n", n),
			fmt.Sprintf(`func sc%[2]d() {
	type %[1]s struct{ a int }
	v := %[1]s{%[3]d}
	var w %[1]s
	p := &%[1]s{a: 1}
	var x interface{} = v
	_, ok := x.(%[1]s)
	switch x.(type) {
	case %[1]s:
		fmt.Println("local type")
	case []string:
		fmt.Println("slice")
	}
	fmt.Println(v, w, *p, ok, []%[1]s{{1}}, map[string]%[1]s{"k": {2}}, len([2]%[1]s{}))
}

func sc%[2]db() %[1]s { return %[1]s{"pkg"} }
`, n, id, r.Intn(9)), fmt.Sprintf("sc%[1]d()\n\tfmt.Println(sc%[1]db())", id), nil
	}},
	{"conversion-type-width", func(r *vh.Rand, n string, id int) (string, string, string, []string) {
		return fmt.Sprintf("type %s int64\n", n),
			fmt.Sprintf("func sc%[2]d() {\n\ttype %[1]s int8\n\tx := %[3]d\n\tv := %[1]s(x)\n\tfmt.Println(v+v, %[1]s(100)+%[1]s(x-72))\n}\n\nfunc sc%[2]db() %[1]s { return %[1]s(100) * 2 }\n", n, id, 100), fmt.Sprintf("sc%[1]d()\n\tfmt.Println(sc%[1]db())", id), nil
	}},
	{"universe-local", func(r *vh.Rand, n string, id int) (string, string, string, []string) {
		return "", fmt.Sprintf("func sc%[1]d() {\n\tlen := %[2]d\n\tcap := \"c\"\n\ttrue := false\n\tnil := 1\n\tstring := 2.5\n\tnew := []int{1}\n\tint := \"i\"\n\tfmt.Println(len, cap, true, nil, string, new, int)\n\tconst iota = 7\n\tconst k = iota + 1\n\tfmt.Println(k)\n}\n", id, r.Intn(50)), fmt.Sprintf("sc%d()", id), nil
	}},
	{"universe-pkglevel", func(r *vh.Rand, n string, id int) (string, string, string, []string) {
		a, b, c := "real", "imag", "complex"
		if id%2 == 0 {
			a, b, c = "copy", "recover", "panic"
		}
		return fmt.Sprintf("const %s = 3\n\nfunc %s() string { return \"im\" }\n\nvar %s = []int{1, 2}\n", a, b, c),
			fmt.Sprintf("func sc%[1]d() {\n\tvar a [%[3]s]int\n\tfmt.Println(len(a), %[4]s(), %[5]s[1], %[3]s*%[2]d)\n}\n", id, 1+r.Intn(9), a, b, c), fmt.Sprintf("sc%d()", id), nil
	}},
	{"iota-block", func(r *vh.Rand, n string, id int) (string, string, string, []string) {
		return fmt.Sprintf("const %s = 99\n", n),
			fmt.Sprintf("func sc%[2]d() {\n\tconst (\n\t\tp%[2]d = iota * 10\n\t\t%[1]s\n\t\tq%[2]d\n\t)\n\tvar a [%[1]s + 1]bool\n\tfmt.Println(p%[2]d, %[1]s, q%[2]d, len(a))\n}\n", n, id), fmt.Sprintf("sc%d()", id), nil
	}},
	{"const-index-keys", func(r *vh.Rand, n string, id int) (string, string, string, []string) {
		return fmt.Sprintf("const %s = 0\n", n),
			fmt.Sprintf("func sc%[2]d() {\n\tconst %[1]s = 2\n\tarr := [...]int{%[1]s: 5}\n\tm := map[int]string{%[1]s: \"two\", 0: \"zero\"}\n\tfmt.Println(len(arr), arr[%[1]s], \"abc\"[%[1]s], m[%[1]s], []string{%[1]s: \"x\"})\n}\n", n, id), fmt.Sprintf("sc%d()", id), nil
	}},
	{"struct-field-arraylen", func(r *vh.Rand, n string, id int) (string, string, string, []string) {
		return fmt.Sprintf("const %s = 1\n", n),
			fmt.Sprintf("func sc%[2]d() {\n\tconst %[1]s = %[3]d\n\ttype rec struct {\n\t\ta [%[1]s]byte\n\t\tb [%[1]s * 2]int\n\t}\n\tvar r rec\n\tfmt.Println(len(r.a), len(r.b), cap(make([]int, 0, %[1]s)))\n}\n", n, id, 2+r.Intn(4)), fmt.Sprintf("sc%d()", id), nil
	}},
	{"closure-capture", func(r *vh.Rand, n string, id int) (string, string, string, []string) {
		return fmt.Sprintf("var %s = 50\n", n),
			fmt.Sprintf("func sc%[2]d() {\n\t%[1]s := 1\n\tf := func() int {\n\t\t%[1]s := %[1]s + 10\n\t\treturn %[1]s\n\t}\n\tg := func(%[1]s string) string { return %[1]s + \"!\" }\n\tfmt.Println(f(), %[1]s, g(\"p\"))\n}\n\nfunc sc%[2]db() int { %[1]s++; return %[1]s }\n", n, id), fmt.Sprintf("sc%[1]d()\n\tfmt.Println(sc%[1]db())", id), nil
	}},
	{"importname-local-const", func(r *vh.Rand, n string, id int) (string, string, string, []string) {
		return "", fmt.Sprintf("func sc%[1]d() {\n\tconst strings = %[2]d\n\tvar a [strings]int\n\tfmt.Println(len(a), strings+1)\n}\n\nfunc sc%[1]db() string { return strings.ToUpper(\"pkg\") }\n", id, 2+r.Intn(4)), fmt.Sprintf("sc%[1]d()\n\tfmt.Println(sc%[1]db())", id), []string{"strings"}
	}},
	{"case-expr-shadow", func(r *vh.Rand, n string, id int) (string, string, string, []string) {
		return fmt.Sprintf("const %s = 1\n", n),
			fmt.Sprintf("func sc%[2]d(v int) string {\n\tconst %[1]s = 5\n\tswitch v {\n\tcase %[1]s:\n\t\treturn \"local\"\n\tcase 1:\n\t\treturn \"global\"\n\t}\n\treturn \"none\"\n}\n", n, id), fmt.Sprintf("fmt.Println(sc%[1]d(5), sc%[1]d(1), sc%[1]d(0))", id), nil
	}},
	{"pkgconst-expr-chain", func(r *vh.Rand, n string, id int) (string, string, string, []string) {
		return fmt.Sprintf("const (\n\t%[1]s = %[1]sb * 2\n\t%[1]sb = %[2]d\n)\n\nvar arr%[1]s [%[1]s]int\n", n, 1+r.Intn(4)),
			fmt.Sprintf("func sc%[2]d() {\n\tfmt.Println(len(arr%[1]s), %[1]s, %[1]sb)\n\tconst %[1]sb = 10\n\tvar loc [%[1]sb + %[1]s]int\n\tfmt.Println(len(loc))\n}\n", n, id), fmt.Sprintf("sc%d()", id), nil
	}},
}

// NameTemplateNames lists the templates (coverage report).
func NameTemplateNames() []string {
	ns := make([]string, len(nameTpls))
	for i, t := range nameTpls {
		ns[i] = t.name
	}
	return ns
}

// GenNameScenarios instantiates every template once, in both placements for those that have a
// package-level declaration (random constants from r; the set of scenarios is the same for every seed).
func GenNameScenarios(r *vh.Rand) []NameScenario {
	var out []NameScenario
	id := 0
	bases := []string{"size", "cnt", "lim", "val", "idx", "num"}
	for ti, t := range nameTpls {
		for _, after := range []bool{false, true} {
			id++
			n := fmt.Sprintf("%s%d", bases[(ti+id)%len(bases)], id)
			pkg, fn, call, imps := t.gen(r.Fork(id), n, id)
			if pkg == "" && after {
				continue
			}
			out = append(out, NameScenario{Name: t.name, After: after, PkgDecl: pkg, Func: fn, Call: call, Imports: imps})
		}
	}
	return out
}

// NamesProgram assembles scenarios into one Go main program: package-level declarations of the
// "before" scenarios, main (calls), the scenario functions, the declarations of the "after" ones.
func NamesProgram(scs []NameScenario) string {
	imports := map[string]bool{"fmt": true}
	var pre, post, funcs, calls strings.Builder
	for _, s := range scs {
		for _, im := range s.Imports {
			imports[im] = true
		}
		if s.After {
			post.WriteString(s.PkgDecl + "\n")
		} else {
			pre.WriteString(s.PkgDecl + "\n")
		}
		funcs.WriteString(s.Func + "\n")
		calls.WriteString("\t" + s.Call + "\n")
	}
	var imps []string
	for im := range imports {
		imps = append(imps, im)
	}
	sortStrings(imps)
	var b strings.Builder
	b.WriteString("package main\n\nimport (\n")
	for _, im := range imps {
		fmt.Fprintf(&b, "\t%q\n", im)
	}
	b.WriteString(")\n\n")
	b.WriteString(pre.String())
	b.WriteString("func main() {\n" + calls.String() + "}\n\n")
	b.WriteString(funcs.String())
	b.WriteString(post.String())
	return b.String()
}
