package compa

import (
	goast "go/ast"
	goparser "go/parser"
	gotoken "go/token"
	"os"
	"path/filepath"
	"sort"
	"strconv"
	"strings"
)

// Item is one corpus package with its provenance.
type Item struct {
	Origin string
	Files  Files
}

// LoadCorpus collects XGo packages from the tree under test:
//   - every directory holding .xgo/.gop/.gox files (with the .go files next to them),
//   - every raw string literal of cl/*_test.go (the golden snippets: XGo inputs and Go outputs),
//     each as a one-file package main.xgo,
//   - self-contained Go mains (package main, std imports only) as main.xgo  (goMains=true only).
// Deterministic order.
func LoadCorpus(snippets bool) []Item {
	repo := Repo()
	var items []Item
	dirs := map[string]Files{}
	filepath.Walk(repo, func(p string, fi os.FileInfo, err error) error {
		if err != nil {
			return nil
		}
		if fi.IsDir() {
			n := fi.Name()
			if n == ".git" || n == "node_modules" || nestedTree(repo, p) {
				return filepath.SkipDir
			}
			return nil
		}
		ext := filepath.Ext(p)
		switch ext {
		case ".xgo", ".gop", ".gox":
			if fi.Size() > 64<<10 {
				return nil
			}
			b, err := os.ReadFile(p)
			if err != nil {
				return nil
			}
			d := filepath.Dir(p)
			if dirs[d] == nil {
				dirs[d] = Files{}
			}
			dirs[d][fi.Name()] = string(b)
		}
		return nil
	})
	var dnames []string
	for d := range dirs {
		dnames = append(dnames, d)
	}
	sort.Strings(dnames)
	for _, d := range dnames {
		fs := dirs[d]
		// add sibling .go files (mixed packages), not tests
		if ents, err := os.ReadDir(d); err == nil {
			for _, e := range ents {
				n := e.Name()
				if strings.HasSuffix(n, ".go") && !strings.HasSuffix(n, "_test.go") && !strings.HasPrefix(n, "gop_autogen") && !strings.HasPrefix(n, "xgo_autogen") {
					if b, err := os.ReadFile(filepath.Join(d, n)); err == nil && len(b) < 64<<10 {
						fs[n] = string(b)
					}
				}
			}
		}
		rel, _ := filepath.Rel(repo, d)
		items = append(items, Item{Origin: rel, Files: fs})
	}
	if snippets {
		for _, tf := range []string{"cl/compile_test.go", "cl/compile_gop_test.go", "cl/error_msg_test.go", "cl/typeparams_test.go", "cl/builtin_test.go", "x/build/build_test.go", "parser/parser_test.go", "printer/xgo_test.go", "x/format/gopstyle_test.go"} {
			items = append(items, snippetsOf(filepath.Join(repo, tf), tf)...)
		}
	}
	return items
}

func snippetsOf(path, rel string) []Item {
	fset := gotoken.NewFileSet()
	f, err := goparser.ParseFile(fset, path, nil, 0)
	if err != nil {
		return nil
	}
	var items []Item
	seen := map[string]bool{}
	goast.Inspect(f, func(n goast.Node) bool {
		lit, ok := n.(*goast.BasicLit)
		if !ok || lit.Kind != gotoken.STRING || !strings.HasPrefix(lit.Value, "`") {
			return true
		}
		s, err := strconv.Unquote(lit.Value)
		if err != nil || len(s) < 8 || len(s) > 16<<10 || !strings.Contains(s, "\n") || seen[s] {
			return true
		}
		seen[s] = true
		if !strings.HasSuffix(s, "\n") {
			s += "\n"
		}
		items = append(items, Item{Origin: rel + ":" + strconv.Itoa(fset.Position(lit.Pos()).Line), Files: Files{"main.xgo": s}})
		return true
	})
	return items
}

// LoadGoMains collects self-contained Go main programs (package main with func main, imports
// from the standard library only, no cgo / build tags / go:embed) from the tree under test.
func LoadGoMains() []Item {
	repo := Repo()
	var items []Item
	filepath.Walk(repo, func(p string, fi os.FileInfo, err error) error {
		if err != nil {
			return nil
		}
		if fi.IsDir() {
			if fi.Name() == ".git" || nestedTree(repo, p) {
				return filepath.SkipDir
			}
			return nil
		}
		if !strings.HasSuffix(p, ".go") || strings.HasSuffix(p, "_test.go") || fi.Size() > 32<<10 {
			return nil
		}
		b, err := os.ReadFile(p)
		if err != nil {
			return nil
		}
		src := string(b)
		if !selfContainedMain(src) {
			return nil
		}
		rel, _ := filepath.Rel(repo, p)
		items = append(items, Item{Origin: rel, Files: Files{"main.go": src}})
		return nil
	})
	sort.Slice(items, func(i, j int) bool { return items[i].Origin < items[j].Origin })
	// golden Go outputs quoted in the cl tests
	for _, tf := range []string{"cl/compile_test.go", "cl/compile_gop_test.go", "cl/typeparams_test.go", "cl/builtin_test.go"} {
		for _, it := range snippetsOf(filepath.Join(repo, tf), tf) {
			src := it.Files["main.xgo"]
			if strings.HasPrefix(src, "package main") && selfContainedMain(src) {
				items = append(items, Item{Origin: it.Origin, Files: Files{"main.go": src}})
			}
		}
	}
	return items
}

func selfContainedMain(src string) bool {
	fset := gotoken.NewFileSet()
	f, err := goparser.ParseFile(fset, "x.go", src, goparser.ParseComments)
	if err != nil || f.Name.Name != "main" {
		return false
	}
	for _, cg := range f.Comments {
		for _, c := range cg.List {
			if strings.HasPrefix(c.Text, "//go:") || strings.HasPrefix(c.Text, "// +build") {
				return false
			}
		}
	}
	for _, im := range f.Imports {
		p, _ := strconv.Unquote(im.Path.Value)
		if strings.Contains(p, ".") || p == "C" || p == "os/exec" || p == "net" || strings.HasPrefix(p, "net/") || p == "syscall" || p == "unsafe" {
			return false
		}
	}
	hasMain := false
	for _, d := range f.Decls {
		if fd, ok := d.(*goast.FuncDecl); ok && fd.Recv == nil && fd.Name.Name == "main" {
			hasMain = true
		}
	}
	return hasMain
}

// nestedTree: a sub-directory that is itself a git work tree (somebody's scratch checkout
// inside the tree under test) is not part of the corpus.
func nestedTree(repo, p string) bool {
	if p == repo {
		return false
	}
	_, err := os.Stat(filepath.Join(p, ".git"))
	return err == nil
}
