package compa

import (
	"strings"

	"verifharness/vh"
)

// Blob encodes a package as one protocol field: name:hex;name:hex (names sorted).
func Blob(fs Files) string {
	var parts []string
	for _, n := range fs.Names() {
		parts = append(parts, n+":"+vh.HexS(fs[n]))
	}
	return strings.Join(parts, ";")
}

// UnBlob decodes Blob.
func UnBlob(s string) Files {
	fs := Files{}
	for _, p := range strings.Split(s, ";") {
		i := strings.LastIndexByte(p, ':')
		if i < 0 {
			continue
		}
		b, err := vh.UnHex(p[i+1:])
		if err != nil {
			continue
		}
		fs[p[:i]] = string(b)
	}
	return fs
}
