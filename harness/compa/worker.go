package compa

import (
	"bufio"
	"encoding/json"
	"fmt"
	"go/types"
	"os"
	"os/exec"
	"path/filepath"
	"regexp"
	"runtime/debug"
	"strconv"
	"strings"
	"syscall"
	"time"

	"github.com/goplus/xgo/ast"
	"github.com/goplus/xgo/cl"
	"github.com/goplus/xgo/token"
)

// Report is what the child process says about one package (C07 worker).
type Report struct {
	Parse     string   `json:"parse"`           // ok | err | panic
	Cl        string   `json:"cl"`              // ok | err | skip | ESC:<key> (panic escaped cl.NewPackage)
	ClRec     string   `json:"clrec,omitempty"` // same, with a Recorder configured
	Bd        string   `json:"bd"`              // x/build BuildFSDir: ok | err | skip | ESC:<key> | NILNIL
	Bf        string   `json:"bf"`              // x/build BuildFile (single-file packages)
	WritePanic string  `json:"wpanic,omitempty"` // gogen WriteTo panicked on the package cl returned (counted, not C07's oracle)
	Issues    []string `json:"issues,omitempty"`
	PosOK     int      `json:"posok"`
	Unpos     int      `json:"unpos"`
	NErr      int      `json:"nerr"`
	RecovMsgs []string `json:"recov,omitempty"` // errors that are converted panics ("compile `x`: runtime error…")
}

func relName(name string) string {
	name = strings.TrimPrefix(name, "/")
	name = strings.TrimPrefix(name, "pkg/")
	return name
}

// nopRecorder implements cl.Recorder (exercises the recorder paths of the compiler).
type nopRecorder struct{}

func (nopRecorder) Type(ast.Expr, types.TypeAndValue)                     {}
func (nopRecorder) Instantiate(*ast.Ident, types.Instance)                {}
func (nopRecorder) Def(id *ast.Ident, obj types.Object)                   {}
func (nopRecorder) Use(id *ast.Ident, obj types.Object)                   {}
func (nopRecorder) Implicit(node ast.Node, obj types.Object)              {}
func (nopRecorder) Select(*ast.SelectorExpr, *types.Selection)            {}
func (nopRecorder) Scope(ast.Node, *types.Scope)                          {}

// CheckOne runs the C07 battery on one package in this process.
func (e *Env) CheckOne(files Files) (rep Report) {
	rep.Cl, rep.Bd, rep.Bf = "skip", "skip", "skip"
	p := Parse(files)
	switch {
	case p.Panic != "":
		rep.Parse = "panic"
		return
	case p.Err != nil:
		rep.Parse = "err"
	default:
		rep.Parse = "ok"
	}
	note := func(err error, fset *token.FileSet) {
		if err == nil {
			return
		}
		iss, ok, un := PosIssue(err, fset, files, relName)
		rep.Issues = append(rep.Issues, iss...)
		rep.PosOK += ok
		rep.Unpos += un
		rep.NErr++
		msg, pk := safeError(err)
		if pk != "" {
			// the returned error value itself panics when printed
			rep.Issues = append(rep.Issues, "error-method-panics:"+KeyOnly(pk)+": "+pk)
		}
		if strings.Contains(msg, "runtime error") || strings.Contains(msg, "nil pointer") {
			rep.RecovMsgs = append(rep.RecovMsgs, firstLine(msg))
		}
	}
	if pkg := MainPkg(p.Pkgs); pkg != nil && len(pkg.Files)+len(pkg.GoFiles) > 0 {
		c := e.Compile(p.Fset, pkg, true)
		switch {
		case c.Panic != "":
			rep.Cl = "ESC:" + c.Panic
		case c.Err != nil:
			rep.Cl = "err"
			note(c.Err, p.Fset)
		case c.WPanic != "":
			rep.Cl = "ok"
			rep.WritePanic = c.WPanic
		default:
			rep.Cl = "ok"
		}
		// again with a recorder (fresh parse: NewPackage mutates nothing, but stay independent)
		p2 := Parse(files)
		if pkg2 := MainPkg(p2.Pkgs); pkg2 != nil && p2.Panic == "" {
			rep.ClRec = e.compileRec(p2.Fset, pkg2)
		}
	}
	if rep.Parse == "ok" {
		out, err, esc, bfset := e.BuildDir(files, true)
		switch {
		case esc != "":
			rep.Bd = "ESC:" + esc
		case err != nil:
			rep.Bd = "err"
			note(err, bfset)
		case out == nil:
			rep.Bd = "NILNIL"
		default:
			rep.Bd = "ok"
		}
		if names := files.Names(); len(names) == 1 {
			out, err, esc, ffset := e.BuildFile(names[0], files[names[0]], true)
			switch {
			case esc != "":
				rep.Bf = "ESC:" + esc
			case err != nil:
				rep.Bf = "err"
				note(err, ffset)
			case out == nil:
				rep.Bf = "NILNIL"
			default:
				rep.Bf = "ok"
			}
		}
	}
	return
}

// safeError calls err.Error() under recover.
func safeError(err error) (msg, panicKey string) {
	defer func() {
		if r := recover(); r != nil {
			panicKey = PanicKey(r)
		}
	}()
	return err.Error(), ""
}

func (e *Env) compileRec(fset *token.FileSet, pkg *ast.Package) (res string) {
	e.mu.Lock()
	defer e.mu.Unlock()
	defer func() {
		if r := recover(); r != nil {
			res = "ESC:" + PanicKey(r)
		}
	}()
	conf := &cl.Config{Fset: fset, Importer: e, NoFileLine: true, RelativeBase: "/", Recorder: nopRecorder{},
		LookupClass: func(ext string) (*cl.Project, bool) { return nil, false }}
	_, err := cl.NewPackage("", pkg, conf)
	if err != nil {
		return "err"
	}
	return "ok"
}

// WorkerMain is the child loop: one blob per stdin line, one JSON report per stdout line.
func WorkerMain(envDir string) {
	// `ulimit -v`-style address-space limit and a bounded stack, so that runaway inputs die
	// quickly as runtime fatal errors instead of taking the machine down.
	var lim syscall.Rlimit
	lim.Cur, lim.Max = 24<<30, 24<<30
	syscall.Setrlimit(syscall.RLIMIT_AS, &lim)
	debug.SetMaxStack(512 << 20)
	env, err := NewEnv(envDir)
	if err != nil {
		fmt.Fprintln(os.Stderr, "worker env:", err)
		os.Exit(2)
	}
	in := bufio.NewReaderSize(os.Stdin, 1<<20)
	out := bufio.NewWriter(os.Stdout)
	for {
		line, err := in.ReadString('\n')
		if line == "" && err != nil {
			return
		}
		line = strings.TrimRight(line, "\n")
		rep := env.CheckOne(UnBlob(line))
		b, _ := json.Marshal(rep)
		out.Write(b)
		out.WriteByte('\n')
		out.Flush()
		if err != nil {
			return
		}
	}
}

// ---------------------------------------------------------------------------------------

// Child is the parent-side handle of one worker process.
type Child struct {
	exe, envDir string
	cmd         *exec.Cmd
	in          *bufio.Writer
	out         *bufio.Reader
	errFile     string
	lines       chan string
	Restarts    int
	CPULimit    time.Duration // CPU seconds per case
	WallLimit   time.Duration
}

// NewChild starts `exe -worker -out <envDir's parent>`.
func NewChild(exe, envDir string) *Child {
	c := &Child{exe: exe, envDir: envDir, CPULimit: 10 * time.Second, WallLimit: 120 * time.Second}
	c.start()
	return c
}

func (c *Child) start() {
	c.errFile = filepath.Join(c.envDir, fmt.Sprintf("worker-stderr-%d.txt", c.Restarts))
	ef, _ := os.Create(c.errFile)
	c.cmd = exec.Command(c.exe, "-worker", c.envDir)
	c.cmd.Env = append(goEnv(), "GOMEMLIMIT=2GiB", "GOTRACEBACK=single", "GOMAXPROCS=4")
	c.cmd.Stderr = ef
	w, _ := c.cmd.StdinPipe()
	r, _ := c.cmd.StdoutPipe()
	c.in = bufio.NewWriter(w)
	c.out = bufio.NewReaderSize(r, 1<<20)
	if err := c.cmd.Start(); err != nil {
		panic(err)
	}
	ef.Close()
	c.lines = make(chan string, 1)
	go func(out *bufio.Reader, ch chan string) {
		for {
			l, err := out.ReadString('\n')
			if l != "" {
				ch <- l
			}
			if err != nil {
				close(ch)
				return
			}
		}
	}(c.out, c.lines)
}

func (c *Child) cpu() time.Duration {
	b, err := os.ReadFile(fmt.Sprintf("/proc/%d/stat", c.cmd.Process.Pid))
	if err != nil {
		return 0
	}
	s := string(b)
	if i := strings.LastIndexByte(s, ')'); i >= 0 {
		f := strings.Fields(s[i+1:])
		if len(f) > 13 {
			ut, _ := strconv.Atoi(f[11])
			st, _ := strconv.Atoi(f[12])
			return time.Duration(ut+st) * time.Second / 100
		}
	}
	return 0
}

// Outcome of one case as seen by the parent.
type Outcome struct {
	Rep     *Report
	Crash   string // "" or "fatal:<what>@<top frames>" / "exit:<status>"
	Timeout string // "" or "cpu" / "wall"
	Detail  string
}

// Run sends one package to the child and waits for the report, enforcing the limits.
func (c *Child) Run(files Files) Outcome {
	c.in.WriteString(Blob(files))
	c.in.WriteByte('\n')
	c.in.Flush()
	cpu0 := c.cpu()
	t0 := time.Now()
	tick := time.NewTicker(200 * time.Millisecond)
	defer tick.Stop()
	for {
		select {
		case l, ok := <-c.lines:
			if !ok {
				// child died
				err := c.cmd.Wait()
				stderr, _ := os.ReadFile(c.errFile)
				o := Outcome{Crash: CrashKey(string(stderr), err), Detail: tail(string(stderr), 1500)}
				c.Restarts++
				c.start()
				return o
			}
			var rep Report
			if err := json.Unmarshal([]byte(l), &rep); err != nil {
				return Outcome{Crash: "protocol:" + firstLine(l)}
			}
			return Outcome{Rep: &rep}
		case <-tick.C:
			used := c.cpu() - cpu0
			why := ""
			if used > c.CPULimit {
				why = "cpu"
			} else if time.Since(t0) > c.WallLimit {
				why = "wall"
			}
			if why != "" {
				// ask for the goroutine dump (SIGQUIT), then kill
				c.cmd.Process.Signal(syscall.SIGQUIT)
				time.Sleep(300 * time.Millisecond)
				c.cmd.Process.Kill()
				c.cmd.Wait()
				for range c.lines {
				}
				stderr, _ := os.ReadFile(c.errFile)
				o := Outcome{Timeout: why, Crash: "", Detail: "hang@" + hangFrames(string(stderr))}
				c.Restarts++
				c.start()
				return o
			}
		}
	}
}

// Close terminates the child.
func (c *Child) Close() {
	c.in.Flush()
	c.cmd.Process.Kill()
	c.cmd.Wait()
}

func tail(s string, n int) string {
	if len(s) > n {
		return s[len(s)-n:]
	}
	return s
}

var frameRe = regexp.MustCompile(`(?m)^(github\.com/[^\s(]+|[a-z][\w/]*\.[\w.()*]+)\(`)

// CrashKey classifies the death of the child from its stderr: "fatal:<kind>@f1<f2".
func CrashKey(stderr string, err error) string {
	kind := "exit"
	switch {
	case strings.Contains(stderr, "stack overflow") || strings.Contains(stderr, "goroutine stack exceeds"):
		kind = "fatal:stackoverflow"
	case strings.Contains(stderr, "out of memory") || strings.Contains(stderr, "cannot allocate memory"):
		kind = "fatal:oom"
	case strings.Contains(stderr, "all goroutines are asleep"):
		kind = "fatal:deadlock"
	case strings.Contains(stderr, "fatal error:"):
		kind = "fatal:other"
	case strings.Contains(stderr, "panic:"):
		kind = "panic"
	default:
		if err != nil {
			kind = "exit:" + err.Error()
		}
	}
	return kind + "@" + topFrames(stderr, 2)
}

func topFrames(stderr string, n int) string {
	// first non-runtime frames after the first "goroutine … [running]" header
	i := strings.Index(stderr, "goroutine ")
	if i < 0 {
		return ""
	}
	var fns []string
	for _, m := range frameRe.FindAllStringSubmatch(stderr[i:], -1) {
		fn := m[1]
		if strings.HasPrefix(fn, "runtime.") || strings.HasPrefix(fn, "runtime/") {
			continue
		}
		fn = shortFn(fn)
		if len(fns) > 0 && fns[len(fns)-1] == fn {
			continue
		}
		fns = append(fns, fn)
		if len(fns) == n {
			break
		}
	}
	return strings.Join(fns, "<")
}

func hangFrames(stderr string) string {
	i := strings.Index(stderr, "SIGQUIT")
	if i < 0 {
		return ""
	}
	return topFrames(stderr[i:], 3)
}

// DDMin minimises the lines of one file of a package while keep(files) stays true
// (budget = max evaluations).
func DDMin(files Files, budget int, keep func(Files) bool) Files {
	cur := Files{}
	for n, d := range files {
		cur[n] = d
	}
	evals := 0
	try := func(f Files) bool {
		if evals >= budget {
			return false
		}
		evals++
		return keep(f)
	}
	// drop whole files first
	for _, n := range cur.Names() {
		if len(cur) > 1 {
			t := Files{}
			for k, v := range cur {
				if k != n {
					t[k] = v
				}
			}
			if try(t) {
				cur = t
			}
		}
	}
	for _, n := range cur.Names() {
		lines := strings.SplitAfter(cur[n], "\n")
		chunk := len(lines) / 2
		for chunk >= 1 && evals < budget {
			changed := false
			for i := 0; i+chunk <= len(lines) && evals < budget; {
				cand := append(append([]string{}, lines[:i]...), lines[i+chunk:]...)
				t := Files{}
				for k, v := range cur {
					t[k] = v
				}
				t[n] = strings.Join(cand, "")
				if try(t) {
					lines = cand
					cur = t
					changed = true
				} else {
					i += chunk
				}
			}
			if !changed || chunk == 1 {
				chunk /= 2
			}
		}
	}
	return cur
}

// CompileWith calls the real cl.NewPackage with the given importer, with or without a Recorder
// (no recover here: the caller observes escapes).
func CompileWith(fset *token.FileSet, pkg *ast.Package, imp types.Importer, withRecorder bool) (any, error) {
	conf := &cl.Config{Fset: fset, Importer: imp, NoFileLine: true, RelativeBase: "/",
		LookupClass: func(ext string) (*cl.Project, bool) { return nil, false }}
	if withRecorder {
		conf.Recorder = nopRecorder{}
	}
	return cl.NewPackage("", pkg, conf)
}
