// Package compa: shared machinery of the compiler-level checks C01, C06, C07
// (builder compA): an offline compile environment around the REAL cl.NewPackage / x/build,
// a Go type checker for the written output, program generators, mutators and corpus loading.
package compa

import (
	"bytes"
	"encoding/json"
	"fmt"
	goast "go/ast"
	"go/importer"
	goparser "go/parser"
	gotoken "go/token"
	"go/types"
	"io"
	"os"
	"os/exec"
	"path/filepath"
	"regexp"
	"sort"
	"strings"
	"sync"

	"github.com/goplus/gogen"
	"github.com/goplus/xgo/ast"
	"github.com/goplus/xgo/cl"
	"github.com/goplus/xgo/parser"
	"github.com/goplus/xgo/parser/fsx/memfs"
	"github.com/goplus/xgo/token"
	"github.com/goplus/xgo/x/build"
)

// Repo is the tree under test.
func Repo() string {
	if r := os.Getenv("VERIF_REPO"); r != "" {
		return r
	}
	return "/repo"
}

func goEnv() []string {
	return append(os.Environ(), "GOFLAGS=-mod=mod", "GOPROXY=off", "GOSUMDB=off", "GOTOOLCHAIN=local", "CGO_ENABLED=0")
}

// preloaded packages: resolved with ONE `go list -export` (each extra call costs ~1 s).
var preload = []string{
	"fmt", "os", "reflect", "strconv", "strings", "errors", "sort", "math", "time", "bytes",
	"bufio", "io", "unicode", "unicode/utf8", "math/big", "math/rand", "sync", "regexp", "encoding/json",
	"os/exec", "path/filepath", "log", "flag", "testing", "context", "io/fs", "math/bits", "unsafe",
	"github.com/qiniu/x/osx", "github.com/qiniu/x/xgo", "github.com/qiniu/x/xgo/ng",
	"github.com/qiniu/x/stringutil", "github.com/qiniu/x/stringslice", "github.com/qiniu/x/errors",
	"github.com/qiniu/x/gop", "github.com/qiniu/x/gop/ng", "github.com/qiniu/x/test",
	"github.com/goplus/xgo/builtin/iox", "github.com/goplus/xgo/tpl", "github.com/goplus/xgo/ast",
	"github.com/goplus/xgo/token", "github.com/goplus/xgo/parser", "github.com/goplus/xgo/scanner",
	"github.com/goplus/xgo/tpl/types", "github.com/goplus/xgo/tpl/variant", "github.com/goplus/xgo/tpl/variant/builtin",
	"github.com/goplus/xgo/tpl/variant/delay", "github.com/goplus/xgo/tpl/variant/math", "github.com/goplus/xgo/tpl/variant/time",
	"github.com/goplus/xgo/tpl/encoding/json", "github.com/goplus/xgo/tpl/encoding/xml", "github.com/goplus/xgo/tpl/encoding/csv",
	"github.com/goplus/xgo/tpl/encoding/regexp", "github.com/goplus/xgo/tpl/encoding/html", "github.com/goplus/xgo/encoding/html",
	"github.com/goplus/xgo/encoding/json", "github.com/goplus/xgo/encoding/regexp", "github.com/goplus/xgo/encoding/md",
	"github.com/goplus/xgo/env", "github.com/goplus/xgo/cl/internal/spx", "github.com/goplus/xgo/cl/internal/spx/pkg",
	"github.com/goplus/lib/c", "github.com/goplus/lib/py", "github.com/goplus/lib/py/std", "github.com/goplus/lib/py/math",
	"github.com/goplus/lib/py/numpy", "github.com/goplus/lib/py/torch", "github.com/goplus/lib/py/statistics",
}

// Env is one offline compile environment: a scratch Go module that resolves
// github.com/goplus/xgo to the tree under test, an export-data cache and one shared importer.
type Env struct {
	Dir     string            // scratch directory (module root for `go list`, builds)
	Exports map[string]string // import path -> export file ("" = known missing)
	mu      sync.Mutex
	fset    *token.FileSet
	imp     types.Importer
	NList   int // on-demand go list calls (slow path)
}

// WriteModule writes go.mod/go.sum of a scratch module resolving xgo to the tree under test.
func WriteModule(dir string) error {
	os.MkdirAll(dir, 0o755)
	gomod := fmt.Sprintf("module verifprog\n\ngo 1.18\n\nrequire github.com/goplus/xgo v0.0.0\n\nreplace github.com/goplus/xgo => %s\n", Repo())
	if err := os.WriteFile(filepath.Join(dir, "go.mod"), []byte(gomod), 0o644); err != nil {
		return err
	}
	sum, _ := os.ReadFile(filepath.Join(Repo(), "go.sum"))
	return os.WriteFile(filepath.Join(dir, "go.sum"), sum, 0o644)
}

// NewEnv prepares (or, when dir/exports.json exists, re-opens) the environment in dir.
func NewEnv(dir string, extra ...string) (*Env, error) {
	e := &Env{Dir: dir, Exports: map[string]string{}}
	ef := filepath.Join(dir, "exports.json")
	if b, err := os.ReadFile(ef); err == nil && json.Unmarshal(b, &e.Exports) == nil && len(e.Exports) > 0 {
		e.init()
		return e, nil
	}
	if err := WriteModule(dir); err != nil {
		return nil, err
	}
	// a file importing nothing, so that the module has a package
	os.WriteFile(filepath.Join(dir, "doc.go"), []byte("package verifprog\n"), 0o644)
	args := append([]string{"list", "-e", "-export", "-f", "{{.ImportPath}}\t{{.Export}}"}, preload...)
	seen := map[string]bool{}
	for _, p := range preload {
		seen[p] = true
	}
	for _, p := range extra {
		if !seen[p] && p != "C" && p != "unsafe" {
			seen[p] = true
			args = append(args, p)
			e.Exports[p] = "" // known missing unless listed below
		}
	}
	cmd := exec.Command("go", args...)
	cmd.Dir, cmd.Env = dir, goEnv()
	var so, se bytes.Buffer
	cmd.Stdout, cmd.Stderr = &so, &se
	err := cmd.Run()
	for _, ln := range strings.Split(so.String(), "\n") {
		fs := strings.SplitN(ln, "\t", 2)
		if len(fs) == 2 {
			e.Exports[fs[0]] = strings.TrimSpace(fs[1])
		}
	}
	if e.Exports["fmt"] == "" {
		return nil, fmt.Errorf("go list -export failed: %v %s", err, se.String())
	}
	b, _ := json.Marshal(e.Exports)
	os.WriteFile(ef, b, 0o644)
	e.init()
	return e, nil
}

func (e *Env) init() {
	e.fset = token.NewFileSet()
	e.imp = importer.ForCompiler(e.fset, "gc", e.lookup)
}

func (e *Env) lookup(path string) (io.ReadCloser, error) {
	f, ok := e.Exports[path]
	if path == "C" {
		f, ok = "", true
	}
	if !ok {
		e.NList++
		if os.Getenv("COMPA_DEBUG") != "" {
			fmt.Fprintf(os.Stderr, "slow-path go list %q\n", path)
		}
		cmd := exec.Command("go", "list", "-e", "-export", "-f", "{{.Export}}", path)
		cmd.Dir, cmd.Env = e.Dir, goEnv()
		out, _ := cmd.Output()
		f = strings.TrimSpace(string(out))
		e.Exports[path] = f
	}
	if f == "" {
		return nil, fmt.Errorf("package %s is not in std or the module cache", path)
	}
	return os.Open(f)
}

// Import implements types.Importer on the shared cache.
func (e *Env) Import(path string) (*types.Package, error) {
	if path == "unsafe" {
		return types.Unsafe, nil
	}
	return e.imp.Import(path)
}

// ---------------------------------------------------------------------------------------

// Files is a package: file name (no directory) -> content.
type Files map[string]string

func (f Files) Names() []string {
	ns := make([]string, 0, len(f))
	for n := range f {
		ns = append(ns, n)
	}
	sort.Strings(ns)
	return ns
}

// PkgDir is the (virtual) directory the packages are compiled in.
const PkgDir = "/pkg"

func (f Files) memfs() *memfs.FS {
	fm := map[string]string{}
	for n, d := range f {
		fm[PkgDir+"/"+n] = d
	}
	return memfs.New(map[string][]string{PkgDir: f.Names()}, fm)
}

// Parsed is the result of the real parser on a package directory.
type Parsed struct {
	Fset  *token.FileSet
	Pkgs  map[string]*ast.Package
	Err   error  // first parse error (Pkgs may then be partial)
	Panic string // parser panicked (C13's business; the compiler is not run)
}

func classKind(fname string) (isProj, ok bool) { return build.ClassKind(fname) }

// Parse runs the real directory parser on the in-memory package.
func Parse(files Files) (p Parsed) {
	p.Fset = token.NewFileSet()
	defer func() {
		if r := recover(); r != nil {
			p.Panic = fmt.Sprint(r)
		}
	}()
	p.Pkgs, p.Err = parser.ParseFSDir(p.Fset, files.memfs(), PkgDir, parser.Config{ClassKind: classKind})
	return
}

// MainPkg picks the package x/build would compile, deterministically (x/build picks an
// arbitrary non-main package: C08's business).
func MainPkg(pkgs map[string]*ast.Package) *ast.Package {
	if p, ok := pkgs["main"]; ok {
		return p
	}
	var names []string
	for n := range pkgs {
		names = append(names, n)
	}
	if len(names) == 0 {
		return nil
	}
	sort.Strings(names)
	return pkgs[names[0]]
}

// Compiled is the outcome of the real cl.NewPackage (+ WriteTo) on one parsed package.
type Compiled struct {
	Pkg      *gogen.Package
	Err      error  // error returned by NewPackage
	Panic    string // panic that ESCAPED cl.NewPackage ("" = none), with top frames
	WPanic   string // panic of gogen's WriteTo on the package NewPackage returned
	Src      []byte // written Go source (when Err == nil and no panic)
	WriteErr error
}

// Compile calls the real cl.NewPackage directly (so partial ASTs can be compiled too).
func (e *Env) Compile(fset *token.FileSet, pkg *ast.Package, fileLine bool) (c Compiled) {
	e.mu.Lock()
	defer e.mu.Unlock()
	defer func() {
		if r := recover(); r != nil {
			c.Panic = PanicKey(r)
		}
	}()
	conf := &cl.Config{Fset: fset, Importer: e, NoFileLine: !fileLine, RelativeBase: "/",
		LookupClass: func(ext string) (*cl.Project, bool) { return nil, false }}
	c.Pkg, c.Err = cl.NewPackage("", pkg, conf)
	if c.Err == nil && c.Pkg != nil {
		func() {
			defer func() {
				if r := recover(); r != nil {
					c.WPanic = PanicKey(r)
				}
			}()
			var buf bytes.Buffer
			c.WriteErr = c.Pkg.WriteTo(&buf)
			c.Src = buf.Bytes()
		}()
	}
	return
}

// BuildDir runs the real x/build helper BuildFSDir on the package (recover of the helper included).
func (e *Env) BuildDir(files Files, fileLine bool) (out []byte, err error, escaped string, fset *token.FileSet) {
	e.mu.Lock()
	defer e.mu.Unlock()
	defer func() {
		if r := recover(); r != nil {
			escaped = PanicKey(r)
		}
	}()
	fset = token.NewFileSet()
	ctx := build.NewContext(e, fset)
	ctx.LoadConfig = func(c *cl.Config) { c.NoFileLine = !fileLine; c.RelativeBase = "/" }
	out, err = ctx.BuildFSDir(files.memfs(), PkgDir)
	return
}

// BuildFile runs the real x/build helper BuildFile on one file.
func (e *Env) BuildFile(name, src string, fileLine bool) (out []byte, err error, escaped string, fset *token.FileSet) {
	e.mu.Lock()
	defer e.mu.Unlock()
	defer func() {
		if r := recover(); r != nil {
			escaped = PanicKey(r)
		}
	}()
	fset = token.NewFileSet()
	ctx := build.NewContext(e, fset)
	ctx.LoadConfig = func(c *cl.Config) { c.NoFileLine = !fileLine; c.RelativeBase = "/" }
	out, err = ctx.BuildFile(PkgDir+"/"+name, src)
	return
}

// ---------------------------------------------------------------------------------------

// GoCheck parses and type-checks written Go source with go/parser + go/types (export-data
// importer, offline), together with the package's own .go files (mixed packages).
// Returns "" if accepted, else "<class>", first message.
func (e *Env) GoCheck(src []byte, pkgFiles Files) (class, msg string) {
	e.mu.Lock()
	defer e.mu.Unlock()
	fset := gotoken.NewFileSet()
	f, err := goparser.ParseFile(fset, "xgo_autogen.go", src, goparser.AllErrors)
	if err != nil {
		return "go-parse:" + ErrClass(err.Error()), firstLine(err.Error())
	}
	files := []*goast.File{f}
	for _, n := range pkgFiles.Names() {
		if strings.HasSuffix(n, ".go") && !strings.HasSuffix(n, "_test.go") {
			if gf, err := goparser.ParseFile(fset, n, pkgFiles[n], 0); err == nil && gf.Name.Name == f.Name.Name {
				files = append(files, gf)
			}
		}
	}
	// only errors located in the WRITTEN file count: the package's own .go files are not
	// compiled by XGo (their validity is the Go compiler's business, not this property's)
	var first error
	conf := types.Config{Importer: e, Error: func(err error) {
		if te, ok := err.(types.Error); ok && first == nil {
			if fset.Position(te.Pos).Filename == "xgo_autogen.go" {
				first = err
			}
		}
	}}
	conf.Check(f.Name.Name, fset, files, nil)
	if first != nil {
		class := ErrClass(first.Error())
		if class == "multiple-defaults" || class == "duplicate-case" {
			// which statement? (cl checks switch statements itself; select and type switches are gogen's)
			if te, ok := first.(types.Error); ok {
				kind := ""
				goast.Inspect(f, func(n goast.Node) bool {
					if n == nil || n.Pos() > te.Pos || n.End() < te.Pos {
						return n != nil && n.Pos() <= te.Pos
					}
					switch n.(type) {
					case *goast.SelectStmt:
						kind = "-in-select"
					case *goast.TypeSwitchStmt:
						kind = "-in-type-switch"
					case *goast.SwitchStmt:
						kind = ""
					}
					return true
				})
				class += kind
			}
		}
		return "go-types:" + class, firstLine(first.Error())
	}
	return "", ""
}

var pkgNameRe = regexp.MustCompile(`undefined: (fmt|os|strconv|strings|errors|sort|math|time|bytes|reflect|io|bufio)\b`)

var xgoBuiltinRe = regexp.MustCompile(`undefined: (echo|print|println|printf|errorf|fprint|fprintln|fprintf|sprint|sprintln|sprintf|open|create|lines|blines|errorln|fatal|newRange|type)$`)

var errPhrases = []string{
	"missing parentheses around composite literal", "use of untyped nil", "initialization cycle", "invalid map key", "overflows", "truncated", "already declared", "permits only one iteration variable", "expects", "declared and not used", "imported and not used", "missing return", "assignment mismatch", "redeclared",
	"not enough arguments", "too many arguments", "not enough return values", "too many return values",
	"used as value", "is not an expression", "is not a type", "is not used", "no new variables",
	"non-boolean condition", "cannot use", "cannot convert", "cannot assign", "cannot infer", "cannot range over",
	"cannot index", "cannot call non-function", "cannot take address", "cannot slice", "cannot indirect",
	"does not implement", "missing method", "has no field or method", "ambiguous selector", "invalid operation",
	"invalid argument", "invalid receiver", "invalid recursive type", "invalid composite literal", "invalid use of",
	"duplicate case", "duplicate key", "duplicate field", "duplicate method", "multiple defaults", "impossible type",
	"overflows", "truncated", "division by zero", "is not constant", "not a constant", "label", "missing function body",
	"multiple-value", "undefined", "unknown field", "mixture of", "missing key", "out of range", "must be",
	"not defined", "relocation target", "expected", "too few values", "too many values", "misplaced", "unreachable",
	"without instantiation", "not in function call", "cannot be", "non-name", "illegal",
}

// ErrClass maps a Go type-checker / compiler message to a stable class: the first canonical
// phrase it contains (identifiers, numbers, quoted text and positions do not matter).
func ErrClass(msg string) string {
	msg = firstLine(msg)
	if xgoBuiltinRe.MatchString(msg) {
		return "undefined-xgo-builtin" // an XGo builtin (echo, println, …) used as a value is written by name
	}
	if pkgNameRe.MatchString(msg) {
		return "undefined-package-name" // the name of an imported package does not resolve
	}
	for _, ph := range errPhrases {
		if strings.Contains(msg, ph) {
			return strings.ReplaceAll(ph, " ", "-")
		}
	}
	return "other"
}

func firstLine(s string) string {
	if i := strings.IndexByte(s, '\n'); i >= 0 {
		return s[:i]
	}
	return s
}

var importLineRe = regexp.MustCompile(`(?m)^\s*(?:import\s+)?(?:[\w.]+\s+)?"([A-Za-z0-9_./-]+)"\s*(?://.*)?$`)

// ImportPaths returns the import-like paths mentioned in the sources (superset; used only to
// resolve export data in one batch).
func ImportPaths(items []Item) []string {
	seen := map[string]bool{}
	var out []string
	for _, it := range items {
		for _, src := range it.Files {
			if !strings.Contains(src, "import") {
				continue
			}
			for _, m := range importLineRe.FindAllStringSubmatch(src, -1) {
				if !seen[m[1]] && !strings.HasPrefix(m[1], ".") && !strings.HasPrefix(m[1], "/") && !strings.HasSuffix(m[1], "/") {
					seen[m[1]] = true
					out = append(out, m[1])
				}
			}
		}
	}
	sort.Strings(out)
	return out
}
