package compa

import (
	"fmt"
	"regexp"
	"runtime"
	"strings"

	"github.com/goplus/gogen"
	"github.com/goplus/xgo/scanner"
	"github.com/goplus/xgo/token"
	"github.com/qiniu/x/errors"
)

// PanicKey must be called from the deferred function that recovered r: the panicking frames
// are still on the stack. Returns "kind@func1<func2" – the panic kind and the first two
// non-runtime frames below runtime.gopanic (function names only, no line numbers, so that the
// key survives harmless edits), followed by " :: " and the panic text.
func PanicKey(r any) string {
	pcs := make([]uintptr, 64)
	n := runtime.Callers(2, pcs)
	frames := runtime.CallersFrames(pcs[:n])
	var fns []string
	seenPanic, own := false, false
	for {
		fr, more := frames.Next()
		fn := fr.Function
		if strings.HasPrefix(fn, "runtime.") {
			if fn == "runtime.gopanic" || strings.HasPrefix(fn, "runtime.panic") || fn == "runtime.sigpanic" || fn == "runtime.goPanicIndex" {
				seenPanic = true
				fns, own = fns[:0], false
			}
		} else if seenPanic && (len(fns) < 2 || (len(fns) == 2 && !own && strings.Contains(fn, "goplus/"))) {
			fns = append(fns, shortFn(fn))
			if strings.Contains(fn, "goplus/") {
				own = true
			}
		}
		if !more {
			break
		}
	}
	return PanicKind(fmt.Sprint(r)) + "@" + strings.Join(fns, "<") + " :: " + firstLine(fmt.Sprint(r))
}

func shortFn(fn string) string {
	fn = strings.TrimPrefix(fn, "github.com/goplus/")
	fn = strings.TrimPrefix(fn, "github.com/")
	// drop closure suffixes like .func1.2
	fn = closureRe.ReplaceAllString(fn, "")
	return fn
}

var closureRe = regexp.MustCompile(`(\.func\d+)+(\.\d+)*$`)

// PanicKind classifies a panic text.
func PanicKind(s string) string {
	switch {
	case strings.Contains(s, "nil pointer dereference"):
		return "nilptr"
	case strings.Contains(s, "index out of range"):
		return "index"
	case strings.Contains(s, "slice bounds out of range"):
		return "slicebounds"
	case strings.Contains(s, "interface conversion"):
		return "ifaceconv"
	case strings.Contains(s, "stack overflow"):
		return "stackoverflow"
	case strings.Contains(s, "runtime error"):
		return "runtime"
	}
	return "panic"
}

// KeyOnly strips the " :: text" part of a PanicKey.
func KeyOnly(k string) string {
	if i := strings.Index(k, " :: "); i >= 0 {
		return k[:i]
	}
	return k
}

// ---------------------------------------------------------------------------------------

// PosIssue checks that every position carried by err (a NewPackage / x/build error) lies inside
// one of the compiled files: file name among names, 1 <= line <= number of lines (+1 for the
// position just after a final newline), 1 <= column <= len(line)+1.
// Returns a list of "<kind>: detail" problems, and the number of positioned errors checked.
func PosIssue(err error, fset *token.FileSet, files Files, rel func(string) string) (issues []string, checked, unpositioned int) {
	// positions are taken WITHOUT //line adjustment: the property is about where the node is,
	// a //line directive may legitimately name any file
	// A Pos is inside iff the file set maps it to a compiled file (base <= pos <= base+size; the
	// EOF position is allowed, go/token reports it as a column past the last line).
	posOf := func(p token.Pos) token.Position {
		f := fset.File(p)
		if f == nil {
			return token.Position{Filename: fmt.Sprintf("<no file for pos %d>", int(p)), Line: -1}
		}
		pos := fset.PositionFor(p, false)
		if int(p) == f.Base()+f.Size() { // EOF
			pos.Column = 1
			pos.Line = 1
		}
		return pos
	}
	var walk func(err error)
	walk = func(err error) {
		switch v := err.(type) {
		case nil:
			return
		case errors.List:
			for _, e := range v {
				walk(e)
			}
			return
		case scanner.ErrorList:
			for _, e := range v {
				walk(e)
			}
			return
		case *scanner.Error:
			checkPosition(v.Pos, files, rel, "scanner.Error", &issues, &checked, &unpositioned)
			return
		case *gogen.CodeError:
			if v.Pos == token.NoPos {
				unpositioned++
				return
			}
			checkPosition(posOf(v.Pos), files, rel, "CodeError", &issues, &checked, &unpositioned)
			return
		case *gogen.ImportError:
			if v.Pos == token.NoPos {
				unpositioned++
				return
			}
			checkPosition(posOf(v.Pos), files, rel, "ImportError", &issues, &checked, &unpositioned)
			return
		case *gogen.MatchError:
			if v.Src == nil || v.Src.Pos() == token.NoPos {
				unpositioned++
				return
			}
			checkPosition(posOf(v.Src.Pos()), files, rel, "MatchError", &issues, &checked, &unpositioned)
			return
		case *gogen.BoundTypeError:
			if v.Pos == token.NoPos {
				unpositioned++
				return
			}
			checkPosition(posOf(v.Pos), files, rel, "BoundTypeError", &issues, &checked, &unpositioned)
			return
		}
		if u, ok := err.(interface{ Unwrap() error }); ok && u.Unwrap() != nil {
			walk(u.Unwrap())
			return
		}
		// textual fallback: "file:line:col: msg"
		if m := posRe.FindStringSubmatch(err.Error()); m != nil {
			var p token.Position
			p.Filename = m[1]
			fmt.Sscan(m[2], &p.Line)
			fmt.Sscan(m[3], &p.Column)
			checkPosition(p, files, rel, "text", &issues, &checked, &unpositioned)
			return
		}
		unpositioned++
	}
	walk(err)
	return
}

var posRe = regexp.MustCompile(`^([^\s:]+\.[a-z]+):(\d+):(\d+): `)

func checkPosition(p token.Position, files Files, rel func(string) string, kind string, issues *[]string, checked, unpositioned *int) {
	if p.Filename == "" && p.Line == 0 {
		*unpositioned++
		return
	}
	*checked++
	name := p.Filename
	if rel != nil {
		name = rel(name)
	}
	src, ok := files[name]
	if !ok {
		*issues = append(*issues, fmt.Sprintf("pos-file-unknown:%s: %q not among compiled files", kind, p.Filename))
		return
	}
	lines := strings.Split(src, "\n")
	if p.Line < 1 || p.Line > len(lines) {
		*issues = append(*issues, fmt.Sprintf("pos-line-outside:%s: %s line %d of %d", kind, name, p.Line, len(lines)))
		return
	}
	if p.Column < 1 || p.Column > len(lines[p.Line-1])+2 {
		*issues = append(*issues, fmt.Sprintf("pos-col-outside:%s: %s:%d col %d of %d", kind, name, p.Line, p.Column, len(lines[p.Line-1])))
	}
}
