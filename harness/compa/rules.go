package compa

import (
	"fmt"
	"strings"
)

// RuleViolations is the systematic family of stream M (C06): small programs that each violate ONE
// compile-time rule of the Go specification (so Go rejects them) while being parseable XGo.
// "The compiler accepts what Go rejects" is exactly C06: for each of them either XGo reports an
// error (fine) or its acceptance is listed in the committed baseline.  The list is fixed; new
// entries are appended (ids are hashes of the source).
func RuleViolations() []Item {
	var out []Item
	add := func(name, decls, body string) {
		src := "package main\n\nimport \"fmt\"\n\n" + decls
		if decls != "" && !strings.HasSuffix(decls, "\n") {
			src += "\n"
		}
		src += "\nfunc main() {\n" + body
		if body != "" && !strings.HasSuffix(body, "\n") {
			src += "\n"
		}
		src += "\tfmt.Println(\"end\")\n}\n"
		out = append(out, Item{Origin: "rule:" + name, Files: Files{"main.xgo": src}})
	}
	// ---- duplicate cases: expression switch, per constant kind
	for _, c := range [][2]string{{"int", "1"}, {"string", `"a"`}, {"rune", "'x'"}, {"float", "2.5"}, {"bool", "true"}, {"namedconst", "kk"}, {"hex-vs-dec", "0x10"}} {
		tag, v := "v", c[1]
		decl := map[string]string{"int": "v := 1", "string": `v := "a"`, "rune": "v := 'x'", "float": "v := 2.5", "bool": "v := true", "namedconst": "const kk = 3\n\tv := 3", "hex-vs-dec": "v := 16"}[c[0]]
		second := v
		if c[0] == "hex-vs-dec" {
			second = "16"
		}
		add("dup-case-expr-"+c[0], "", fmt.Sprintf("\t%s\n\tswitch %s {\n\tcase %s:\n\t\tfmt.Println(1)\n\tcase %s:\n\t\tfmt.Println(2)\n\t}\n", decl, tag, v, second))
		add("dup-case-expr-samelist-"+c[0], "", fmt.Sprintf("\t%s\n\tswitch %s {\n\tcase %s, %s:\n\t\tfmt.Println(1)\n\t}\n", decl, tag, v, second))
	}
	// ---- duplicate cases: type switch, for every type form
	typeForms := [][2]string{{"int", "int"}, {"string", "string"}, {"named", "T"}, {"ptr-named", "*T"}, {"slice", "[]int"}, {"slice-named", "[]T"},
		{"array", "[2]int"}, {"map", "map[string]int"}, {"func", "func(int) string"}, {"func0", "func()"}, {"chan", "chan int"}, {"recvchan", "<-chan int"},
		{"struct", "struct{ a int }"}, {"iface", "interface{ M() }"}, {"empty-iface", "interface{}"}, {"error", "error"}, {"ptrptr", "**int"},
		{"nested", "map[string][]*T"}, {"qualified", "fmt.Stringer"}, {"nil", "nil"}}
	for _, tf := range typeForms {
		add("dup-case-type-"+tf[0], "type T struct{ x int }\n", fmt.Sprintf("\tvar v interface{} = 1\n\tswitch v.(type) {\n\tcase %s:\n\t\tfmt.Println(1)\n\tcase %s:\n\t\tfmt.Println(2)\n\t}\n", tf[1], tf[1]))
		add("dup-case-type-samelist-"+tf[0], "type T struct{ x int }\n", fmt.Sprintf("\tvar v interface{} = 1\n\tswitch x := v.(type) {\n\tcase bool, %s, uint8, %s:\n\t\tfmt.Println(x)\n\t}\n", tf[1], tf[1]))
	}
	add("dup-default-expr-switch", "", "\tswitch v := 1; v {\n\tdefault:\n\tcase 1:\n\tdefault:\n\t}\n")
	add("dup-default-type-switch", "", "\tvar v interface{}\n\tswitch v.(type) {\n\tdefault:\n\tcase int:\n\tdefault:\n\t}\n")
	add("dup-default-select", "", "\tch := make(chan int)\n\tselect {\n\tcase <-ch:\n\tdefault:\n\tdefault:\n\t}\n")
	// ---- duplicate keys / fields / methods / declarations
	add("dup-map-key-int", "", "\tm := map[int]string{1: \"a\", 2: \"b\", 1: \"c\"}\n\tfmt.Println(m)\n")
	add("dup-map-key-string", "", "\tm := map[string]int{\"a\": 1, \"a\": 2}\n\tfmt.Println(m)\n")
	add("dup-map-key-xgo-literal", "", "\tm := {\"a\": 1, \"a\": 2}\n\tfmt.Println(m)\n")
	add("dup-struct-lit-field", "type T struct{ a, b int }\n", "\tv := T{a: 1, b: 2, a: 3}\n\tfmt.Println(v)\n")
	add("dup-array-index", "", "\tv := [...]int{0: 1, 2: 2, 0: 3}\n\tfmt.Println(v)\n")
	add("dup-slice-index", "", "\tv := []string{1: \"a\", 1: \"b\"}\n\tfmt.Println(v)\n")
	add("dup-field", "type T struct {\n\ta int\n\ta string\n}\n", "\tfmt.Println(T{})\n")
	add("dup-embedded-field", "type E struct{}\ntype T struct {\n\tE\n\tE int\n}\n", "\tfmt.Println(T{})\n")
	add("dup-method", "type T struct{}\n\nfunc (T) M() {}\nfunc (T) M() {}\n", "\tT{}.M()\n")
	add("field-and-method-same-name", "type T struct{ M int }\n\nfunc (T) M() {}\n", "\tfmt.Println(T{})\n")
	add("dup-iface-method", "type I interface {\n\tM()\n\tM()\n}\n", "\tvar i I\n\tfmt.Println(i)\n")
	add("dup-param", "func f(a int, a string) {}\n", "\tf(1, \"\")\n")
	add("dup-result-param", "func f(a int) (a int) { return }\n", "\tfmt.Println(f(1))\n")
	add("dup-local-var", "", "\tvar a int\n\tvar a string\n\tfmt.Println(a)\n")
	add("dup-local-define", "", "\ta := 1\n\ta := 2\n\tfmt.Println(a)\n")
	add("dup-pkg-func", "func f() {}\nfunc f() {}\n", "\tf()\n")
	add("dup-pkg-var-func", "var f int\n\nfunc f() {}\n", "\tfmt.Println(1)\n")
	add("dup-type", "type T int\ntype T string\n", "\tfmt.Println(T(0))\n")
	add("dup-const-in-block", "const (\n\ta = 1\n\ta = 2\n)\n", "\tfmt.Println(a)\n")
	add("dup-label", "", "L:\n\tfor i := 0; i < 2; i++ {\n\t\tcontinue L\n\t}\nL:\n\tfor {\n\t\tbreak L\n\t}\n")
	add("dup-import", "import \"fmt\"\n", "\tfmt.Println(1)\n")
	add("dup-main", "func main() {}\n", "")
	// ---- unused things
	add("unused-var", "", "\tx := 1\n")
	add("unused-var-assigned-only", "", "\tvar x int\n\tx = 2\n")
	add("unused-var-in-closure", "", "\tf := func() {\n\t\ty := 1\n\t}\n\tf()\n")
	add("unused-range-var", "", "\tfor i, v := range []int{1} {\n\t\tfmt.Println(i)\n\t}\n")
	add("unused-type-switch-var", "", "\tvar v interface{}\n\tswitch x := v.(type) {\n\tcase int:\n\t}\n")
	add("unused-import", "import \"os\"\n", "")
	add("unused-import-alias", "import str \"strings\"\n", "")
	add("unused-label", "", "L:\n\tfor {\n\t\tbreak\n\t}\n")
	add("unused-expr-value", "", "\tx := 1\n\tx + 1\n")
	add("unused-call-free-expr", "", "\tx := []int{1}\n\tx[0]\n")
	add("unused-comparison", "", "\tx := 1\n\tx == 2\n")
	add("unused-func-literal", "", "\tfunc() {}\n")
	add("unused-conversion", "", "\tx := 1\n\tfloat64(x)\n")
	add("unused-builtin-result", "", "\tx := []int{1}\n\tlen(x)\n")
	add("unused-append-result", "", "\tx := []int{1}\n\tappend(x, 2)\n")
	// ---- return rules
	add("missing-return", "func f() int {\n}\n", "\tfmt.Println(f())\n")
	add("missing-return-after-if", "func f(b bool) int {\n\tif b {\n\t\treturn 1\n\t}\n}\n", "\tfmt.Println(f(true))\n")
	add("missing-return-for-cond", "func f(b bool) int {\n\tfor b {\n\t\treturn 1\n\t}\n}\n", "\tfmt.Println(f(true))\n")
	add("missing-return-switch-no-default", "func f(x int) int {\n\tswitch x {\n\tcase 1:\n\t\treturn 1\n\t}\n}\n", "\tfmt.Println(f(1))\n")
	add("missing-return-closure", "", "\tf := func() string {\n\t}\n\tfmt.Println(f())\n")
	add("too-many-return-values", "func f() int {\n\treturn 1, 2\n}\n", "\tfmt.Println(f())\n")
	add("too-few-return-values", "func f() (int, string) {\n\treturn 1\n}\n", "\tfmt.Println(f())\n")
	add("return-value-in-void", "func f() {\n\treturn 1\n}\n", "\tf()\n")
	add("bare-return-unnamed", "func f() int {\n\treturn\n}\n", "\tfmt.Println(f())\n")
	add("shadowed-result-return", "func f() (err error) {\n\tif true {\n\t\terr := fmt.Errorf(\"x\")\n\t\t_ = err\n\t\treturn\n\t}\n\treturn\n}\n", "\tfmt.Println(f())\n")
	add("return-wrong-type", "func f() int {\n\treturn \"s\"\n}\n", "\tfmt.Println(f())\n")
	// ---- branch statements
	add("break-outside-loop", "", "\tbreak\n")
	add("continue-outside-loop", "", "\tcontinue\n")
	add("continue-in-switch-only", "", "\tswitch {\n\tcase true:\n\t\tcontinue\n\t}\n")
	add("break-undefined-label", "", "\tfor {\n\t\tbreak L\n\t}\n")
	add("continue-label-not-loop", "", "L:\n\tif true {\n\t\tfor {\n\t\t\tcontinue L\n\t\t}\n\t}\n")
	add("break-label-not-enclosing", "", "L:\n\tfor i := 0; i < 1; i++ {\n\t}\n\tfor {\n\t\tbreak L\n\t}\n")
	add("goto-undefined-label", "", "\tgoto L\n")
	add("goto-over-var-decl", "", "\tgoto L\n\tx := 1\n\tfmt.Println(x)\nL:\n\tfmt.Println(2)\n")
	add("goto-into-block", "", "\tgoto L\n\t{\n\tL:\n\t\tfmt.Println(1)\n\t}\n")
	add("fallthrough-last-case", "", "\tswitch x := 1; x {\n\tcase 1:\n\t\tfmt.Println(1)\n\tcase 2:\n\t\tfallthrough\n\t}\n")
	add("fallthrough-not-last-stmt", "", "\tswitch x := 1; x {\n\tcase 1:\n\t\tfallthrough\n\t\tfmt.Println(1)\n\tcase 2:\n\t}\n")
	add("fallthrough-in-type-switch", "", "\tvar v interface{}\n\tswitch v.(type) {\n\tcase int:\n\t\tfallthrough\n\tcase string:\n\t}\n")
	add("fallthrough-outside-switch", "", "\tfallthrough\n")
	add("fallthrough-in-if-in-case", "", "\tswitch x := 1; x {\n\tcase 1:\n\t\tif x > 0 {\n\t\t\tfallthrough\n\t\t}\n\tcase 2:\n\t}\n")
	add("defer-non-call", "", "\tdefer 1\n")
	add("go-non-call", "", "\tx := 1\n\tgo x\n")
	add("defer-conversion", "", "\tdefer int(1)\n")
	add("defer-builtin-len", "", "\tdefer len(\"a\")\n")
	// ---- assignment rules
	add("assign-mismatch-2-1", "", "\ta, b := 1\n\tfmt.Println(a, b)\n")
	add("assign-mismatch-1-2", "", "\tvar a int\n\ta = 1, 2\n\tfmt.Println(a)\n")
	add("assign-mismatch-call", "func f() (int, int) { return 1, 2 }\n", "\ta := f()\n\tfmt.Println(a)\n")
	add("assign-mismatch-call-3", "func f() (int, int) { return 1, 2 }\n", "\ta, b, c := f()\n\tfmt.Println(a, b, c)\n")
	add("assign-mismatch-var-decl", "", "\tvar a, b int = 1\n\tfmt.Println(a, b)\n")
	add("assign-to-const", "const c = 1\n", "\tc = 2\n")
	add("assign-to-string-index", "", "\ts := \"ab\"\n\ts[0] = 'c'\n\tfmt.Println(s)\n")
	add("assign-to-map-struct-field", "type T struct{ a int }\n", "\tm := map[string]T{}\n\tm[\"a\"].a = 1\n\tfmt.Println(m)\n")
	add("assign-to-call", "func f() int { return 1 }\n", "\tf() = 2\n")
	add("assign-to-literal", "", "\t1 = 2\n")
	add("assign-wrong-type", "", "\tvar a int\n\ta = \"s\"\n\tfmt.Println(a)\n")
	add("assign-nil-to-int", "", "\tvar a int = nil\n\tfmt.Println(a)\n")
	add("define-no-new-vars", "", "\ta := 1\n\ta := 2\n\tfmt.Println(a)\n")
	add("define-non-name", "type T struct{ a int }\n", "\tvar t T\n\tt.a := 1\n\tfmt.Println(t)\n")
	add("define-blank-only", "", "\t_ := 1\n")
	add("untyped-nil-define", "", "\tx := nil\n\tfmt.Println(x)\n")
	add("incdec-non-numeric", "", "\ts := \"a\"\n\ts++\n\tfmt.Println(s)\n")
	add("op-assign-mismatch", "", "\ta := 1\n\ta += \"s\"\n\tfmt.Println(a)\n")
	add("address-of-literal-int", "", "\tp := &1\n\tfmt.Println(p)\n")
	add("address-of-map-elem", "", "\tm := map[string]int{}\n\tp := &m[\"a\"]\n\tfmt.Println(p)\n")
	// ---- invalid operations: operator x type
	ops := []string{"+", "-", "*", "/", "%", "&", "|", "^", "<<", ">>", "&&", "||", "<", "=="}
	operands := [][3]string{{"bool", "true", "false"}, {"string", `"a"`, `"b"`}, {"float", "1.5", "2.5"}, {"slice", "[]int{1}", "[]int{2}"},
		{"map", "map[int]int{}", "map[int]int{}"}, {"func", "func() {}", "func() {}"}, {"struct-nc", "struct{ f []int }{}", "struct{ f []int }{}"},
		{"mixed-int-string", "1", `"a"`}, {"mixed-int-float64", "int(1)", "float64(2)"}, {"ptr", "new(int)", "new(int)"}, {"chan", "make(chan int)", "make(chan int)"}}
	valid := map[string]bool{"string+": true, "string<": true, "string==": true, "bool&&": true, "bool||": true, "bool==": true,
		"float+": true, "float-": true, "float*": true, "float/": true, "float<": true, "float==": true, "ptr==": true, "chan==": true}
	for _, od := range operands {
		for _, op := range ops {
			if valid[od[0]+op] {
				continue
			}
			add("invalid-op-"+od[0]+"-"+op, "", fmt.Sprintf("\ta, b := %s, %s\n\tfmt.Println(a %s b)\n", od[1], od[2], op))
		}
	}
	add("invalid-unary-not-int", "", "\tx := 1\n\tfmt.Println(!x)\n")
	add("invalid-unary-minus-string", "", "\tx := \"a\"\n\tfmt.Println(-x)\n")
	add("invalid-unary-caret-float", "", "\tx := 1.5\n\tfmt.Println(^x)\n")
	add("invalid-deref-non-pointer", "", "\tx := 1\n\tfmt.Println(*x)\n")
	add("invalid-recv-non-chan", "", "\tx := 1\n\tfmt.Println(<-x)\n")
	add("invalid-send-recvonly", "", "\tvar c <-chan int\n\tc <- 1\n")
	add("invalid-recv-sendonly", "", "\tvar c chan<- int\n\tfmt.Println(<-c)\n")
	add("invalid-shift-count-negative", "", "\tx := 1\n\tfmt.Println(x << -1)\n")
	add("invalid-shift-float", "", "\tx := 1.5\n\tfmt.Println(x << 2)\n")
	add("division-by-constant-zero", "", "\tx := 1\n\tfmt.Println(x / 0)\n")
	add("modulo-by-constant-zero", "", "\tx := 1\n\tfmt.Println(x % 0)\n")
	add("compare-slice-to-slice", "", "\ta, b := []int{}, []int{}\n\tfmt.Println(a == b)\n")
	add("compare-func-to-func", "", "\tf := func() {}\n\tfmt.Println(f == f)\n")
	add("compare-incomparable-struct", "type T struct{ s []int }\n", "\tfmt.Println(T{} == T{})\n")
	add("compare-mismatched-named", "type A int\ntype B int\n", "\tfmt.Println(A(1) == B(1))\n")
	add("non-bool-condition-if", "", "\tif 1 {\n\t}\n")
	add("non-bool-condition-for", "", "\tfor \"a\" {\n\t}\n")
	add("call-non-function", "", "\tx := 1\n\tx()\n")
	add("call-too-many-args", "func f(a int) {}\n", "\tf(1, 2)\n")
	add("call-too-few-args", "func f(a, b int) {}\n", "\tf(1)\n")
	add("call-wrong-arg-type", "func f(a int) {}\n", "\tf(\"s\")\n")
	add("call-variadic-spread-extra", "func f(a ...int) {}\n", "\tf(1, []int{2}...)\n")
	add("call-spread-non-variadic", "func f(a, b int) {}\n", "\tf([]int{1, 2}...)\n")
	add("call-multi-value-in-single", "func g() (int, int) { return 1, 2 }\nfunc f(a int) {}\n", "\tf(g())\n")
	add("call-void-as-value", "func f() {}\n", "\tx := f()\n\tfmt.Println(x)\n")
	add("conversion-too-many-args", "", "\tfmt.Println(int(1, 2))\n")
	add("conversion-impossible", "", "\tfmt.Println(int(\"a\"))\n")
	add("conversion-string-to-slice-of-int", "", "\tfmt.Println([]int(\"a\"))\n")
	add("conversion-struct-mismatch", "type A struct{ a int }\ntype B struct{ b int }\n", "\tfmt.Println(B(A{1}))\n")
	add("type-not-expression", "", "\tx := int\n\tfmt.Println(x)\n")
	add("type-not-expression-qualified", "", "\t_ = fmt.Stringer\n")
	add("expression-not-type", "", "\tx := 1\n\tvar y x\n\tfmt.Println(y)\n")
	add("undefined-name", "", "\tfmt.Println(undefinedName)\n")
	add("undefined-field", "type T struct{ a int }\n", "\tfmt.Println(T{}.b)\n")
	add("undefined-method", "type T struct{}\n", "\tT{}.M()\n")
	add("undefined-type", "", "\tvar x Undefined\n\tfmt.Println(x)\n")
	add("undefined-package-member", "", "\tfmt.NoSuchFunc()\n")
	add("unexported-package-member", "", "\tfmt.newPrinter()\n")
	add("selector-on-package-only", "", "\tfmt\n")
	add("use-of-builtin-not-called", "", "\tf := len\n\tfmt.Println(f)\n")
	add("builtin-len-of-int", "", "\tfmt.Println(len(1))\n")
	add("builtin-cap-of-map", "", "\tfmt.Println(cap(map[int]int{}))\n")
	add("builtin-append-non-slice", "", "\tfmt.Println(append(1, 2))\n")
	add("builtin-make-non-makeable", "", "\tfmt.Println(make(int))\n")
	add("builtin-make-too-many", "", "\tfmt.Println(make(chan int, 1, 2))\n")
	add("builtin-make-negative-len", "", "\tfmt.Println(make([]int, -1))\n")
	add("builtin-make-len-gt-cap", "", "\tfmt.Println(make([]int, 3, 2))\n")
	add("builtin-new-value", "", "\tfmt.Println(new(1))\n")
	add("builtin-delete-non-map", "", "\tx := []int{1}\n\tdelete(x, 0)\n")
	add("builtin-copy-mismatch", "", "\tfmt.Println(copy([]int{1}, []string{\"a\"}))\n")
	add("builtin-close-recvonly", "", "\tvar c <-chan int\n\tclose(c)\n")
	add("builtin-panic-no-arg", "", "\tpanic()\n")
	add("builtin-recover-arg", "", "\trecover(1)\n")
	add("builtin-complex-mismatch", "", "\tfmt.Println(complex(1, \"a\"))\n")
	// ---- constants
	add("const-overflow-int", "", "\tvar x int = 99999999999999999999\n\tfmt.Println(x)\n")
	add("const-overflow-int8", "", "\tvar x int8 = 200\n\tfmt.Println(x)\n")
	add("const-overflow-uint-negative", "", "\tvar x uint = -1\n\tfmt.Println(x)\n")
	add("const-overflow-arith", "", "\tconst big = 1 << 62\n\tvar x int = big * 4\n\tfmt.Println(x)\n")
	add("const-overflow-conversion", "", "\tfmt.Println(uint8(300))\n")
	add("const-truncated-float-to-int", "", "\tvar x int = 2.5\n\tfmt.Println(x)\n")
	add("const-float-index", "", "\ts := []int{1, 2, 3}\n\tfmt.Println(s[1.5])\n")
	add("const-not-constant-init", "func f() int { return 1 }\n", "\tconst c = f()\n\tfmt.Println(c)\n")
	add("const-not-constant-var", "", "\tv := 1\n\tconst c = v\n\tfmt.Println(c)\n")
	add("const-slice-type", "", "\tconst c = []int{1}\n\tfmt.Println(c)\n")
	add("const-missing-init", "", "\tconst c int\n\tfmt.Println(c)\n")
	add("const-string-overflow-rune", "", "\tvar r rune = 'ab'\n\tfmt.Println(r)\n")
	add("iota-outside-const", "", "\tx := iota\n\tfmt.Println(x)\n")
	add("const-typed-mismatch", "", "\tconst a int = 1\n\tconst b float64 = a\n\tfmt.Println(b)\n")
	// ---- arrays, indices, slices
	add("array-len-negative", "", "\tvar a [-1]int\n\tfmt.Println(a)\n")
	add("array-len-non-const", "", "\tn := 2\n\tvar a [n]int\n\tfmt.Println(a)\n")
	add("array-len-float", "", "\tvar a [2.5]int\n\tfmt.Println(a)\n")
	add("array-len-string", "", "\tvar a [\"a\"]int\n\tfmt.Println(a)\n")
	add("array-index-out-of-range", "", "\tvar a [2]int\n\tfmt.Println(a[2])\n")
	add("array-index-negative", "", "\tvar a [2]int\n\tfmt.Println(a[-1])\n")
	add("array-lit-too-many", "", "\ta := [2]int{1, 2, 3}\n\tfmt.Println(a)\n")
	add("array-lit-index-out-of-range", "", "\ta := [2]int{5: 1}\n\tfmt.Println(a)\n")
	add("slice-index-negative-const", "", "\ts := []int{1}\n\tfmt.Println(s[-1])\n")
	add("slice-index-string", "", "\ts := []int{1}\n\tfmt.Println(s[\"a\"])\n")
	add("string-const-index-out-of-range", "", "\tfmt.Println(\"ab\"[5])\n")
	add("slice-expr-inverted-const", "", "\ts := []int{1, 2, 3}\n\tfmt.Println(s[2:1])\n")
	add("slice-expr-3-index-string", "", "\ts := \"abc\"\n\tfmt.Println(s[0:1:2])\n")
	add("slice-of-map", "", "\tm := map[int]int{}\n\tfmt.Println(m[0:1])\n")
	add("index-non-indexable", "", "\tx := 1\n\tfmt.Println(x[0])\n")
	add("map-key-wrong-type", "", "\tm := map[string]int{}\n\tfmt.Println(m[1])\n")
	add("range-over-int-two-vars", "", "\tfor i, v := range 3.5 {\n\t\tfmt.Println(i, v)\n\t}\n")
	add("range-chan-two-vars", "", "\tc := make(chan int)\n\tfor i, v := range c {\n\t\tfmt.Println(i, v)\n\t}\n")
	add("range-over-func-value", "", "\tf := 1.5\n\tfor range f {\n\t}\n")
	// ---- types
	add("invalid-map-key-slice", "", "\tvar m map[[]int]string\n\tfmt.Println(m)\n")
	add("invalid-map-key-func", "", "\tvar m map[func()]string\n\tfmt.Println(m)\n")
	add("invalid-map-key-struct-with-slice", "type K struct{ s []int }\n", "\tvar m map[K]string\n\tfmt.Println(m)\n")
	add("invalid-map-key-xgo-literal", "", "\tm := {[1, 2]: 5}\n\tfmt.Println(m)\n")
	add("invalid-recursive-struct", "type T struct {\n\tT\n}\n", "\tfmt.Println(T{})\n")
	add("invalid-recursive-struct-field", "type T struct {\n\tnext T\n}\n", "\tfmt.Println(T{})\n")
	add("invalid-recursive-array", "type T [2]T\n", "\tvar t T\n\tfmt.Println(t)\n")
	add("invalid-recursive-mutual", "type A struct{ b B }\ntype B struct{ a A }\n", "\tfmt.Println(A{})\n")
	add("invalid-recursive-alias-self", "type T T\n", "\tvar t T\n\tfmt.Println(t)\n")
	add("invalid-recursive-iface-embed", "type I interface {\n\tI\n}\n", "\tvar i I\n\tfmt.Println(i)\n")
	add("init-cycle-vars", "var a = b\nvar b = a\n", "\tfmt.Println(a)\n")
	add("init-cycle-func", "var a = f()\n\nfunc f() int { return a }\n", "\tfmt.Println(a)\n")
	add("init-cycle-self", "var x = x + 1\n", "\tfmt.Println(x)\n")
	add("init-cycle-const", "const a = b\nconst b = a\n", "\tfmt.Println(a)\n")
	add("invalid-receiver-builtin", "func (int) M() {}\n", "")
	add("invalid-receiver-pointer-to-pointer", "type T struct{}\n\nfunc (**T) M() {}\n", "")
	add("invalid-receiver-pointer-type", "type P *int\n\nfunc (P) M() {}\n", "")
	add("invalid-receiver-interface", "type I interface{}\n\nfunc (I) M() {}\n", "")
	add("invalid-receiver-other-package", "func (fmt.Stringer) M() {}\n", "")
	add("invalid-receiver-slice-literal", "func ([]int) M() {}\n", "")
	add("method-on-undefined-type", "func (Nope) M() {}\n", "")
	add("embedded-pointer-to-interface", "type I interface{}\ntype T struct {\n\t*I\n}\n", "\tfmt.Println(T{})\n")
	add("interface-not-implemented", "type I interface{ M() }\ntype T struct{}\n", "\tvar i I = T{}\n\tfmt.Println(i)\n")
	add("interface-ptr-receiver-not-implemented", "type I interface{ M() }\ntype T struct{}\n\nfunc (*T) M() {}\n", "\tvar i I = T{}\n\tfmt.Println(i)\n")
	add("impossible-type-assertion", "type I interface{ M() }\ntype T struct{}\n", "\tvar i I\n\t_ = i.(T)\n")
	add("impossible-type-switch-case", "type I interface{ M() }\ntype T struct{}\n", "\tvar i I\n\tswitch i.(type) {\n\tcase T:\n\t}\n")
	add("type-assertion-on-non-interface", "", "\tx := 1\n\t_ = x.(int)\n")
	add("type-switch-on-non-interface", "", "\tx := 1\n\tswitch x.(type) {\n\tcase int:\n\t}\n")
	add("type-switch-guard-outside", "", "\tvar v interface{}\n\tx := v.(type)\n\tfmt.Println(x)\n")
	add("struct-lit-too-few", "type T struct{ a, b int }\n", "\tfmt.Println(T{1})\n")
	add("struct-lit-too-many", "type T struct{ a int }\n", "\tfmt.Println(T{1, 2})\n")
	add("struct-lit-mixed", "type T struct{ a, b int }\n", "\tfmt.Println(T{a: 1, 2})\n")
	add("struct-lit-unknown-field", "type T struct{ a int }\n", "\tfmt.Println(T{z: 1})\n")
	add("struct-lit-wrong-type", "type T struct{ a int }\n", "\tfmt.Println(T{a: \"s\"})\n")
	add("complit-missing-type-elem", "", "\tx := []interface{}{{1}}\n\tfmt.Println(x)\n")
	add("complit-of-int", "", "\tx := int{1}\n\tfmt.Println(x)\n")
	add("map-lit-missing-key", "", "\tm := map[string]int{1}\n\tfmt.Println(m)\n")
	add("var-decl-no-type-no-init", "", "\tvar x\n\tfmt.Println(x)\n")
	add("func-type-compare-nil-ok-but-call-nil-arg", "", "\tvar f func(int)\n\tf(nil)\n")
	add("method-value-on-type-missing-recv", "type T struct{}\n\nfunc (T) M() {}\n", "\tT.M()\n")
	add("ambiguous-selector", "type A struct{ x int }\ntype B struct{ x int }\ntype C struct {\n\tA\n\tB\n}\n", "\tfmt.Println(C{}.x)\n")
	add("main-with-args", "func main(a int) {}\n", "")
	add("init-called", "func init() {}\n", "\tinit()\n")
	add("init-with-result", "func init() int { return 1 }\n", "")
	add("main-is-var", "var main = 1\n", "")
	add("blank-used-as-value", "", "\tx := _\n\tfmt.Println(x)\n")
	add("select-case-not-comm", "", "\tselect {\n\tcase 1 > 0:\n\t}\n")
	add("select-recv-assign-3", "", "\tc := make(chan int)\n\tselect {\n\tcase a, b, d := <-c:\n\t\tfmt.Println(a, b, d)\n\t}\n")
	add("label-shadow-var-ok-but-goto-var", "", "\tx := 1\n\tgoto x\n")
	add("string-lit-unknown-escape", "", "\tfmt.Println(\"\\q\")\n")
	add("rune-lit-empty", "", "\tfmt.Println('')\n")
	add("rune-lit-too-long", "", "\tfmt.Println('ab')\n")
	add("octal-lit-invalid-digit", "", "\tfmt.Println(089)\n")
	add("number-underscore-misplaced", "", "\tfmt.Println(1__0)\n")
	add("hex-float-no-exponent", "", "\tfmt.Println(0x1.5)\n")
	add("import-cycle-self-name", "import main \"fmt\"\n", "")
	add("import-unknown-package", "import \"no/such/pkg\"\n", "\tpkg.F()\n")
	add("import-after-decl", "var before = 1\n\nimport \"os\"\n", "\tfmt.Println(before, os.Args)\n")
	// remove the helper's own duplicate main for the entries that declare one
	for i := range out {
		src := out[i].Files["main.xgo"]
		if out[i].Origin == "rule:dup-main" {
			continue
		}
		if strings.Count(src, "func main(") > 1 || strings.Contains(src, "var main = 1") {
			j := strings.LastIndex(src, "\nfunc main() {\n")
			out[i].Files["main.xgo"] = src[:j+1]
		}
		// entries with their own import lines after the standard one keep both (dup-import is the rule)
	}
	return out
}
