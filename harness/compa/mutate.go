package compa

import (
	"fmt"
	"strings"

	"github.com/goplus/xgo/scanner"
	"github.com/goplus/xgo/token"
	"verifharness/vh"
)

// Tok is one source token with its byte span.
type Tok struct {
	Off, End int
	Tok      token.Token
	Text     string
}

// Tokens scans src with the real XGo scanner (a scanner panic yields nil).
func Tokens(src string) (toks []Tok) {
	defer func() {
		if r := recover(); r != nil {
			toks = nil
		}
	}()
	fset := token.NewFileSet()
	f := fset.AddFile("m.xgo", -1, len(src))
	var s scanner.Scanner
	s.Init(f, []byte(src), func(token.Position, string) {}, scanner.ScanComments)
	for i := 0; i < 200000; i++ {
		pos, tok, lit := s.Scan()
		if tok == token.EOF {
			break
		}
		off := f.Offset(pos)
		text := lit
		if text == "" {
			text = tok.String()
		}
		if tok == token.SEMICOLON && lit == "\n" {
			continue // automatic semicolon
		}
		end := off + len(text)
		if off < 0 || end > len(src) || src[off:end] != text {
			continue // token text is not a source slice (e.g. CR-stripped raw strings): skip as anchor
		}
		toks = append(toks, Tok{off, end, tok, text})
	}
	return
}

var typeNames = []string{"int", "string", "float64", "bool", "uint8", "int64", "error", "any", "[]int", "[]string", "map[string]int", "func()", "*int", "chan int", "struct{}", "bigint"}
var binOps = []string{"+", "-", "*", "/", "%", "&&", "||", "==", "!=", "<", "<=", ">", ">=", "&", "|", "^", "<<", ">>", "&^", "<-", "=>", ":", "?", "!"}

// NestDepths are the nesting depths used by the "nest" mutation.
var NestDepths = []int{20, 100, 400}

// Mutation kinds (near-miss: designed to hit one compile-error class each).
var MutKinds = []string{
	"ident-swap", "ident-undefined", "type-swap", "lit-swap", "drop-arg", "add-arg", "drop-line", "dup-line",
	"drop-return", "define-assign", "lhs-count", "unused-var", "unused-import", "op-swap", "dup-decl", "dup-case",
	"stray-stmt", "drop-token", "insert-token", "dup-span", "truncate", "swap-tokens", "nest", "splice",
}

// Mutate applies one mutation of the given kind; ok=false if it does not apply.
// other is a second source used by "splice".
func Mutate(r *vh.Rand, src string, kind string, other string) (out string, ok bool) {
	toks := Tokens(src)
	if len(toks) < 3 {
		return src, false
	}
	pick := func(pred func(t Tok) bool) (int, bool) {
		var idx []int
		for i, t := range toks {
			if pred(t) {
				idx = append(idx, i)
			}
		}
		if len(idx) == 0 {
			return 0, false
		}
		return idx[r.Intn(len(idx))], true
	}
	repl := func(i int, s string) string { return src[:toks[i].Off] + s + src[toks[i].End:] }
	isIdent := func(t Tok) bool { return t.Tok == token.IDENT }
	lines := strings.SplitAfter(src, "\n")
	switch kind {
	case "ident-swap":
		i, ok1 := pick(isIdent)
		j, ok2 := pick(isIdent)
		if !ok1 || !ok2 || toks[i].Text == toks[j].Text {
			return src, false
		}
		return repl(i, toks[j].Text), true
	case "ident-undefined":
		i, ok1 := pick(isIdent)
		if !ok1 {
			return src, false
		}
		return repl(i, fmt.Sprintf("undef%d", r.Intn(100))), true
	case "type-swap":
		i, ok1 := pick(func(t Tok) bool {
			if t.Tok != token.IDENT {
				return false
			}
			switch t.Text {
			case "int", "string", "float64", "bool", "byte", "rune", "int64", "uint", "error", "any", "uint8", "int32", "float32":
				return true
			}
			return false
		})
		if !ok1 {
			return src, false
		}
		return repl(i, typeNames[r.Intn(len(typeNames))]), true
	case "lit-swap":
		i, ok1 := pick(func(t Tok) bool {
			return t.Tok == token.INT || t.Tok == token.STRING || t.Tok == token.FLOAT || t.Tok == token.CHAR || t.Tok == token.RAT
		})
		if !ok1 {
			return src, false
		}
		alts := []string{`"s"`, "1", "2.5", "'c'", "nil", "true", "1r", "-1", "0", `"${x}"`, "1e3", "0x7fffffffffffffff", "[1, 2]", `{"a": 1}`, "99999999999999999999"}
		return repl(i, alts[r.Intn(len(alts))]), true
	case "drop-arg", "add-arg":
		i, ok1 := pick(func(t Tok) bool { return t.Tok == token.COMMA })
		if kind == "add-arg" {
			j, ok2 := pick(func(t Tok) bool { return t.Tok == token.RPAREN })
			if !ok2 {
				return src, false
			}
			if j > 0 && toks[j-1].Tok == token.LPAREN {
				return src[:toks[j].Off] + "1" + src[toks[j].Off:], true
			}
			return src[:toks[j].Off] + ", 1" + src[toks[j].Off:], true
		}
		if !ok1 {
			return src, false
		}
		// drop from this comma up to the next , ) ] } at the same level
		depth := 0
		for j := i + 1; j < len(toks); j++ {
			switch toks[j].Tok {
			case token.LPAREN, token.LBRACK, token.LBRACE:
				depth++
			case token.RPAREN, token.RBRACK, token.RBRACE:
				if depth == 0 {
					return src[:toks[i].Off] + src[toks[j].Off:], true
				}
				depth--
			case token.COMMA:
				if depth == 0 {
					return src[:toks[i].Off] + src[toks[j].Off:], true
				}
			}
		}
		return src, false
	case "drop-line", "dup-line", "drop-return", "dup-decl", "dup-case":
		var idx []int
		for i, l := range lines {
			t := strings.TrimSpace(l)
			if t == "" {
				continue
			}
			switch kind {
			case "drop-return":
				if !strings.HasPrefix(t, "return") {
					continue
				}
			case "dup-case":
				if !(strings.HasPrefix(t, "case ") || strings.HasPrefix(t, "default")) {
					continue
				}
			case "dup-decl":
				if !(strings.HasPrefix(t, "var ") || strings.HasPrefix(t, "const ") || strings.HasPrefix(t, "type ") || strings.Contains(t, ":=") || strings.HasPrefix(t, "import ")) {
					continue
				}
			}
			idx = append(idx, i)
		}
		if len(idx) == 0 {
			return src, false
		}
		i := idx[r.Intn(len(idx))]
		var b strings.Builder
		for j, l := range lines {
			if j == i {
				if kind == "drop-line" || kind == "drop-return" {
					continue
				}
				b.WriteString(l)
				if !strings.HasSuffix(l, "\n") {
					b.WriteString("\n")
				}
			}
			b.WriteString(l)
		}
		return b.String(), true
	case "stray-stmt":
		// a control-flow or odd statement where it does not belong
		stray := []string{"fallthrough", "break", "continue", "goto Lnone", "return 1, 2", "defer 1", "go f", "select {}", "Lx:", "break Lx", "continue Lx", "return", "var _ = fallthrough", "x.y.z++", "*p = 1", "panic()", "recover(1)", "import \"os\"", "type T = T", "const c", "func() {}", "<-ch", "ch <- 1, 2", "a, b := 1", "for range 1 {}", "if {}", "switch { default: fallthrough }"}
		var idx []int
		for i, l := range lines {
			if strings.TrimSpace(l) != "" {
				idx = append(idx, i)
			}
		}
		if len(idx) == 0 {
			return src, false
		}
		i := idx[r.Intn(len(idx))]
		ind := lines[i][:len(lines[i])-len(strings.TrimLeft(lines[i], "\t "))]
		st := stray[r.Intn(len(stray))] + "\n"
		if r.Bool() {
			lines[i] = ind + st + lines[i]
		} else {
			if !strings.HasSuffix(lines[i], "\n") {
				lines[i] += "\n"
			}
			lines[i] = lines[i] + ind + st
		}
		return strings.Join(lines, ""), true
	case "define-assign":
		i, ok1 := pick(func(t Tok) bool { return t.Tok == token.DEFINE || t.Tok == token.ASSIGN })
		if !ok1 {
			return src, false
		}
		if toks[i].Tok == token.DEFINE {
			return repl(i, "="), true
		}
		return repl(i, ":="), true
	case "lhs-count":
		i, ok1 := pick(func(t Tok) bool { return t.Tok == token.DEFINE || t.Tok == token.ASSIGN })
		if !ok1 || i == 0 {
			return src, false
		}
		if r.Bool() {
			return src[:toks[i].Off] + ", extra" + fmt.Sprint(r.Intn(10)) + " " + src[toks[i].Off:], true
		}
		return src[:toks[i].End] + " 1, " + src[toks[i].End:], true
	case "unused-var":
		var idx []int
		for i, l := range lines {
			if strings.HasPrefix(l, "\t") && strings.TrimSpace(l) != "" && !strings.HasPrefix(strings.TrimSpace(l), "case ") && !strings.HasPrefix(strings.TrimSpace(l), "default") {
				idx = append(idx, i)
			}
		}
		if len(idx) == 0 {
			return "unused" + fmt.Sprint(r.Intn(10)) + " := 1\n" + src, true
		}
		i := idx[r.Intn(len(idx))]
		ind := lines[i][:len(lines[i])-len(strings.TrimLeft(lines[i], "\t"))]
		lines[i] = ind + fmt.Sprintf("unused%d := %d\n", r.Intn(10), r.Intn(9)) + lines[i]
		return strings.Join(lines, ""), true
	case "unused-import":
		imps := []string{"\"os\"", "\"strings\"", "\"math\"", "\"sort\"", "\"nosuch/pkg\"", "m \"math\"", ". \"strings\"", "_ \"os\""}
		imp := "import " + imps[r.Intn(len(imps))] + "\n"
		if strings.HasPrefix(strings.TrimSpace(src), "package ") {
			j := strings.Index(src, "\n")
			if j < 0 {
				return src, false
			}
			return src[:j+1] + imp + src[j+1:], true
		}
		return imp + src, true
	case "op-swap":
		i, ok1 := pick(func(t Tok) bool { return t.Tok.IsOperator() && t.Tok != token.LPAREN && t.Tok != token.RPAREN && t.Tok != token.LBRACE && t.Tok != token.RBRACE && t.Tok != token.COMMA && t.Tok != token.SEMICOLON })
		if !ok1 {
			return src, false
		}
		return repl(i, binOps[r.Intn(len(binOps))]), true
	case "drop-token":
		i := r.Intn(len(toks))
		return repl(i, ""), true
	case "insert-token":
		i := r.Intn(len(toks))
		j := r.Intn(len(toks))
		return src[:toks[i].Off] + toks[j].Text + " " + src[toks[i].Off:], true
	case "swap-tokens":
		i := r.Intn(len(toks) - 1)
		a, b := toks[i], toks[i+1]
		return src[:a.Off] + b.Text + src[a.End:b.Off] + a.Text + src[b.End:], true
	case "dup-span":
		i := r.Intn(len(toks))
		j := i + r.Intn(8)
		if j >= len(toks) {
			j = len(toks) - 1
		}
		span := src[toks[i].Off:toks[j].End]
		return src[:toks[j].End] + " " + span + src[toks[j].End:], true
	case "truncate":
		i := 1 + r.Intn(len(toks)-1)
		return src[:toks[i].Off], true
	case "nest":
		// wrap an operand into many parentheses / unary operators / index chains
		i, ok1 := pick(func(t Tok) bool { return t.Tok == token.IDENT || t.Tok == token.INT })
		if !ok1 {
			return src, false
		}
		depth := NestDepths[r.Intn(len(NestDepths))]
		var o, c string
		switch r.Intn(4) {
		case 0:
			o, c = "(", ")"
		case 1:
			o, c = "-(", ")"
		case 2:
			o, c = "[", "]"
		default:
			o, c = "func() int { return ", " }()"
			if depth > 300 {
				depth = 300
			}
		}
		return src[:toks[i].Off] + strings.Repeat(o, depth) + toks[i].Text + strings.Repeat(c, depth) + src[toks[i].End:], true
	case "splice":
		ot := Tokens(other)
		if len(ot) < 3 {
			return src, false
		}
		a := r.Intn(len(ot))
		b := a + 1 + r.Intn(10)
		if b > len(ot) {
			b = len(ot)
		}
		i := r.Intn(len(toks))
		return src[:toks[i].Off] + other[ot[a].Off:ot[b-1].End] + " " + src[toks[i].Off:], true
	}
	return src, false
}

// MutateFiles mutates one randomly chosen file of the package, k times.
func MutateFiles(r *vh.Rand, fs Files, kinds []string, k int, other string) (Files, string) {
	out := Files{}
	for n, d := range fs {
		out[n] = d
	}
	names := fs.Names()
	// prefer XGo files
	var xg []string
	for _, n := range names {
		if !strings.HasSuffix(n, ".go") {
			xg = append(xg, n)
		}
	}
	if len(xg) > 0 {
		names = xg // the package's plain Go files are never mutated (XGo does not compile their bodies)
	}
	var applied []string
	for i := 0; i < k; i++ {
		n := names[r.Intn(len(names))]
		kind := kinds[r.Intn(len(kinds))]
		if s, ok := Mutate(r, out[n], kind, other); ok {
			out[n] = s
			applied = append(applied, kind)
		}
	}
	return out, strings.Join(applied, "+")
}
