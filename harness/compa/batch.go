package compa

import (
	"bytes"
	"context"
	"fmt"
	"os"
	"os/exec"
	"path/filepath"
	"regexp"
	"strings"
	"sync"
	"time"
)

// RunResult of one built-and-run Go main program.
type RunResult struct {
	BuildErr string // non-empty: the Go toolchain rejected the program (first lines)
	Stdout   string
	Exit     int
	Panicked bool   // the program died of a panic or a runtime fatal error
	Panic    string // text after "panic: " up to the goroutine dump; "fatal error: …" for fatal errors
	Timeout  bool
}

func (r RunResult) String() string {
	if r.BuildErr != "" {
		return "BUILDERR " + firstLine(r.BuildErr)
	}
	if r.Timeout {
		return "TIMEOUT"
	}
	return fmt.Sprintf("exit=%d panic=%q stdout=%q", r.Exit, r.Panic, r.Stdout)
}

var pkgHdrRe = regexp.MustCompile(`(?m)^# verifprog/(p\d+)\s*$`)
var hexAddrRe = regexp.MustCompile(`0x[0-9a-f]+`)

// RunBatch writes every program (a complete Go main package) into its own directory of a
// scratch module, builds all of them with ONE `go build` (failing packages do not stop the
// others), and runs every binary with a timeout.  Offline; xgo resolves to the tree under test.
func RunBatch(dir string, progs [][]byte, timeout time.Duration) ([]RunResult, error) {
	if abs, err := filepath.Abs(dir); err == nil {
		dir = abs
	}
	if err := WriteModule(dir); err != nil {
		return nil, err
	}
	for i, p := range progs {
		d := filepath.Join(dir, fmt.Sprintf("p%05d", i))
		os.MkdirAll(d, 0o755)
		if err := os.WriteFile(filepath.Join(d, "main.go"), p, 0o644); err != nil {
			return nil, err
		}
	}
	bin := filepath.Join(dir, "bin")
	os.MkdirAll(bin, 0o755)
	res := make([]RunResult, len(progs))
	cmd := exec.Command("go", "build", "-o", bin+"/", "./...")
	cmd.Dir, cmd.Env = dir, goEnv()
	out, berr := cmd.CombinedOutput()
	if berr != nil {
		// attribute "# verifprog/pNNNNN" sections
		text := string(out)
		locs := pkgHdrRe.FindAllStringSubmatchIndex(text, -1)
		for k, loc := range locs {
			end := len(text)
			if k+1 < len(locs) {
				end = locs[k+1][0]
			}
			var i int
			fmt.Sscanf(text[loc[2]+1:loc[3]], "%d", &i)
			if i >= 0 && i < len(res) {
				res[i].BuildErr = strings.TrimSpace(text[loc[1]:end])
			}
		}
	}
	for i := range progs {
		exe := filepath.Join(bin, fmt.Sprintf("p%05d", i))
		if _, err := os.Stat(exe); err != nil && res[i].BuildErr == "" {
			// not built and no section: build it alone to get the message
			c := exec.Command("go", "build", "-o", exe, fmt.Sprintf("./p%05d", i))
			c.Dir, c.Env = dir, goEnv()
			if o, e := c.CombinedOutput(); e != nil {
				res[i].BuildErr = strings.TrimSpace(string(o))
				if res[i].BuildErr == "" {
					res[i].BuildErr = e.Error()
				}
			}
		}
	}
	var wg sync.WaitGroup
	sem := make(chan struct{}, 8)
	for i := range progs {
		if res[i].BuildErr != "" {
			continue
		}
		wg.Add(1)
		go func(i int) {
			defer wg.Done()
			sem <- struct{}{}
			defer func() { <-sem }()
			res[i] = runOne(filepath.Join(bin, fmt.Sprintf("p%05d", i)), timeout)
		}(i)
	}
	wg.Wait()
	return res, nil
}

func runOne(exe string, timeout time.Duration) RunResult {
	ctx, cancel := context.WithTimeout(context.Background(), timeout)
	defer cancel()
	c := exec.CommandContext(ctx, exe)
	var so, se bytes.Buffer
	c.Stdout, c.Stderr = &so, &se
	c.Env = append(os.Environ(), "GOTRACEBACK=single", "GOMEMLIMIT=512MiB", "GOMAXPROCS=2")
	err := c.Run()
	r := RunResult{Stdout: so.String()}
	if ctx.Err() == context.DeadlineExceeded {
		r.Timeout = true
		return r
	}
	if err != nil {
		if ee, ok := err.(*exec.ExitError); ok {
			r.Exit = ee.ExitCode()
		} else {
			r.Exit = -1
			r.Panic = "exec: " + err.Error()
			return r
		}
	}
	stderr := se.String()
	if i := strings.Index(stderr, "panic: "); i >= 0 {
		p := stderr[i+len("panic: "):]
		if j := strings.Index(p, "\n\ngoroutine "); j >= 0 {
			p = p[:j]
		}
		if j := strings.Index(p, "\n[signal "); j >= 0 {
			p = p[:j]
		}
		r.Panicked = true
		r.Panic = hexAddrRe.ReplaceAllString(strings.TrimRight(p, "\n"), "0x?")
	} else if i := strings.Index(stderr, "fatal error: "); i >= 0 {
		r.Panicked = true
		r.Panic = firstLine(stderr[i:])
	}
	return r
}
