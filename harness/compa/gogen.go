package compa

// Generator of well-typed, deterministic, terminating Go main programs in the subset modelled
// by lean/GopModel/Model/CompGo.lean (C01).  A program is generated as an AST, printed as Go
// source (with layout noise that stays "gofmt-adjacent": never a blank between a callee and its
// parenthesis, see DESIGN §6 C14) and encoded for the Lean driver.
//
// Discipline that keeps the model's value semantics exact (see design_notes/C01.md):
//   * a slice variable is either MUTABLE (element assignment, self-append; never used as a bare
//     value except by len/index/range/Println/Sprint/copy) or IMMUTABLE (free use, never changed
//     in place); a slice being ranged over is not mutated in the loop body;
//   * an expression list that contains a user function call contains no operation that can
//     panic (index, division by a non-literal): gc orders calls before such operations;
//   * arithmetic never has two constant operands (constant folding/overflow is compile time).

import (
	"fmt"
	"strconv"
	"strings"

	"verifharness/vh"
)

type GType int

const (
	TInt GType = iota
	TBool
	TStr
	TSliceInt
	TSliceStr
)

func (t GType) String() string {
	return [...]string{"int", "bool", "string", "[]int", "[]string"}[t]
}
func (t GType) IsSlice() bool { return t == TSliceInt || t == TSliceStr }
func (t GType) Elem() GType {
	if t == TSliceInt {
		return TInt
	}
	return TStr
}

type GExpr struct {
	K    string // int bool str var bin un call len ix sl app cpy spr
	Op   string
	I    int64
	B    bool
	S    string
	Args []*GExpr
	T    GType
}

type GLHS struct {
	Name string
	Idx  *GExpr // nil: plain variable
}

type GCase struct {
	Es   []*GExpr
	Body []*GStmt
}

type GStmt struct {
	K      string // def asg opa inc dec pln xcall if for rng sw brk cnt ret blk pan exit
	Names  []string
	LHS    []*GLHS
	Es     []*GExpr
	Op     string
	Init   *GStmt
	Cond   *GExpr
	Post   *GStmt
	Body   []*GStmt
	Else   []*GStmt
	Cases  []GCase
	Dflt   []*GStmt
	HasDfl bool
	DflPos int
	F      string
}

type GFunc struct {
	Name   string
	Params []string
	PTypes []GType
	Res    []GType
	Body   []*GStmt
}

type GProg struct {
	Funcs []*GFunc // main last
}

// ------------------------------------------------------------------------------ generation

type gvar struct {
	name     string
	t        GType
	mut      bool // mutable slice
	readonly bool // loop counters
	frozen   int  // being ranged over
	used     bool
}

type ggen struct {
	r      *vh.Rand
	scopes [][]*gvar
	funcs  []*GFunc
	nid    int
	loops  int
	inFunc *GFunc
	inBlk  int // inside func(){}() literal: break/continue of outer loops not allowed
	budget int // remaining statements
	mayPanic int // operations that may panic still allowed in the current statement (gc does not order two of them)
	stats  map[string]int
}

func (g *ggen) fresh(p string) string { g.nid++; return fmt.Sprintf("%s%d", p, g.nid) }
func (g *ggen) push()                 { g.scopes = append(g.scopes, nil) }
func (g *ggen) declare(v *gvar)       { g.scopes[len(g.scopes)-1] = append(g.scopes[len(g.scopes)-1], v) }

// pop closes a scope; returns `_ = x` statements for variables never read.
func (g *ggen) pop() []*GStmt {
	sc := g.scopes[len(g.scopes)-1]
	g.scopes = g.scopes[:len(g.scopes)-1]
	var out []*GStmt
	for _, v := range sc {
		if !v.used {
			out = append(out, &GStmt{K: "asg", LHS: []*GLHS{{Name: "_"}}, Es: []*GExpr{{K: "var", S: v.name, T: v.t}}})
		}
	}
	return out
}

func (g *ggen) vars(pred func(*gvar) bool) []*gvar {
	// innermost first; a name declared again further in hides the outer variable
	var out []*gvar
	seen := map[string]bool{}
	for i := len(g.scopes) - 1; i >= 0; i-- {
		sc := g.scopes[i]
		for j := len(sc) - 1; j >= 0; j-- {
			v := sc[j]
			if seen[v.name] {
				continue
			}
			seen[v.name] = true
			if pred(v) {
				out = append(out, v)
			}
		}
	}
	// oldest first (callers prefer the tail = most recent)
	for i, j := 0, len(out)-1; i < j; i, j = i+1, j-1 {
		out[i], out[j] = out[j], out[i]
	}
	return out
}

// shadowName returns the name of a variable of an OUTER scope (not declared in the current
// one) to be declared again, or "".
func (g *ggen) shadowName() string {
	if len(g.scopes) < 2 || !g.r.Chance(12) {
		return ""
	}
	cur := map[string]bool{}
	for _, v := range g.scopes[len(g.scopes)-1] {
		cur[v.name] = true
	}
	var names []string
	for _, sc := range g.scopes[:len(g.scopes)-1] {
		for _, v := range sc {
			if !cur[v.name] {
				names = append(names, v.name)
			}
		}
	}
	if len(names) == 0 {
		return ""
	}
	g.stats["shadowing"]++
	return names[g.r.Intn(len(names))]
}

func (g *ggen) pickVar(pred func(*gvar) bool) *gvar {
	vs := g.vars(pred)
	if len(vs) == 0 {
		return nil
	}
	// prefer recent variables
	if g.r.Chance(60) && len(vs) > 3 {
		vs = vs[len(vs)-3:]
	}
	return vs[g.r.Intn(len(vs))]
}

func lit(i int64) *GExpr { return &GExpr{K: "int", I: i, T: TInt} }

var strPool = []string{"a", "go", "xgo", "", "Hi there", "k-9", "x y", "#!", "true", "0", "tab\tbed", "q\"uote", "back\\slash", "l1\nl2", "%d%s", "[1 2]"}

func isConst(e *GExpr) bool {
	switch e.K {
	case "int", "bool", "str":
		return true
	case "bin", "un":
		for _, a := range e.Args {
			if !isConst(a) {
				return false
			}
		}
		return true
	case "len": // len of a constant string is a constant
		return e.Args[0].T == TStr && isConst(e.Args[0])
	}
	return false
}

// mode: 'c' = calls allowed, no operation that may panic; 'p' = may-panic operations allowed, no calls.
func (g *ggen) expr(t GType, depth int, mode byte) *GExpr {
	r := g.r
	leaf := depth <= 0 || r.Chance(25)
	useVar := func(pred func(*gvar) bool) *GExpr {
		v := g.pickVar(pred)
		if v == nil {
			return nil
		}
		v.used = true
		return &GExpr{K: "var", S: v.name, T: v.t}
	}
	valueVar := func(tt GType) *GExpr {
		return useVar(func(v *gvar) bool { return v.t == tt && !(tt.IsSlice() && v.mut) })
	}
	switch t {
	case TInt:
		if leaf {
			if r.Chance(65) {
				if e := valueVar(TInt); e != nil {
					return e
				}
			}
			switch r.Intn(12) {
			case 0:
				return lit(int64(r.Intn(2000000000)) * 1000003)
			case 1:
				return lit(-int64(r.Intn(50)))
			case 2:
				return lit(9223372036854775807)
			}
			return lit(int64(r.Intn(12)))
		}
		switch r.Intn(10) {
		case 0, 1, 2, 3:
			op := []string{"add", "sub", "mul"}[r.Intn(3)]
			a, b := g.expr(TInt, depth-1, mode), g.expr(TInt, depth-1, mode)
			if isConst(a) && isConst(b) {
				if v := valueVar(TInt); v != nil {
					a = v
				} else {
					return a
				}
			}
			return &GExpr{K: "bin", Op: op, Args: []*GExpr{a, b}, T: TInt}
		case 4:
			op := []string{"div", "mod"}[r.Intn(2)]
			a := g.expr(TInt, depth-1, mode)
			var b *GExpr
			if mode == 'p' && g.mayPanic > 0 && r.Chance(35) {
				g.mayPanic--
				b = g.expr(TInt, depth-1, mode) // may be zero at run time
				if isConst(b) {
					b = lit(int64(1 + r.Intn(7)))
				}
			} else {
				b = lit(int64(1 + r.Intn(7)))
				if r.Chance(20) {
					b = lit(-int64(1 + r.Intn(3)))
				}
			}
			if isConst(a) && isConst(b) {
				if v := valueVar(TInt); v != nil {
					a = v
				} else {
					return a
				}
			}
			return &GExpr{K: "bin", Op: op, Args: []*GExpr{a, b}, T: TInt}
		case 5:
			// len(slice or string variable / expression)
			if v := useVar(func(v *gvar) bool { return v.t.IsSlice() || v.t == TStr }); v != nil {
				return &GExpr{K: "len", Args: []*GExpr{v}, T: TInt}
			}
			return &GExpr{K: "len", Args: []*GExpr{g.expr(TStr, depth-1, mode)}, T: TInt}
		case 6:
			if mode == 'p' && g.mayPanic > 0 {
				if v := useVar(func(v *gvar) bool { return v.t == TSliceInt }); v != nil {
					g.mayPanic--
					return &GExpr{K: "ix", Args: []*GExpr{v, g.indexExpr(depth - 1)}, T: TInt}
				}
			}
		case 7:
			if mode == 'c' {
				if c := g.callExpr([]GType{TInt}, depth); c != nil {
					return c
				}
			}
		case 8:
			a := g.expr(TInt, depth-1, mode)
			if isConst(a) {
				return a
			}
			return &GExpr{K: "un", Op: "neg", Args: []*GExpr{a}, T: TInt}
		}
		return g.expr(TInt, 0, mode)
	case TBool:
		if leaf {
			if r.Chance(50) {
				if e := valueVar(TBool); e != nil {
					return e
				}
			}
			if r.Chance(30) {
				return &GExpr{K: "bool", B: r.Bool(), T: TBool}
			}
			depth = 1
		}
		switch r.Intn(8) {
		case 0, 1, 2, 3:
			op := []string{"eq", "ne", "lt", "le", "gt", "ge"}[r.Intn(6)]
			tt := TInt
			if r.Chance(25) {
				tt = TStr
			}
			a, b := g.expr(tt, depth-1, mode), g.expr(tt, depth-1, mode)
			return &GExpr{K: "bin", Op: op, Args: []*GExpr{a, b}, T: TBool}
		case 4, 5:
			op := []string{"land", "lor"}[r.Intn(2)]
			return &GExpr{K: "bin", Op: op, Args: []*GExpr{g.expr(TBool, depth-1, mode), g.expr(TBool, depth-1, mode)}, T: TBool}
		case 6:
			return &GExpr{K: "un", Op: "not", Args: []*GExpr{g.expr(TBool, depth-1, mode)}, T: TBool}
		default:
			op := []string{"eq", "ne"}[r.Intn(2)]
			a, b := g.expr(TBool, depth-1, mode), g.expr(TBool, depth-1, mode)
			if isConst(a) && isConst(b) {
				return a
			}
			return &GExpr{K: "bin", Op: op, Args: []*GExpr{a, b}, T: TBool}
		}
	case TStr:
		if leaf {
			if r.Chance(55) {
				if e := valueVar(TStr); e != nil {
					return e
				}
			}
			return &GExpr{K: "str", S: strPool[r.Intn(len(strPool))], T: TStr}
		}
		switch r.Intn(7) {
		case 0, 1:
			a, b := g.expr(TStr, depth-1, mode), g.expr(TStr, depth-1, mode)
			return &GExpr{K: "bin", Op: "add", Args: []*GExpr{a, b}, T: TStr}
		case 2, 3:
			tt := []GType{TInt, TBool, TStr, TSliceInt, TSliceStr}[r.Intn(5)]
			var a *GExpr
			if tt.IsSlice() {
				a = useVar(func(v *gvar) bool { return v.t == tt })
			}
			if a == nil {
				if tt.IsSlice() {
					tt = TInt
				}
				a = g.expr(tt, depth-1, mode)
			}
			return &GExpr{K: "spr", Args: []*GExpr{a}, T: TStr}
		case 4:
			if mode == 'p' && g.mayPanic > 0 {
				if v := useVar(func(v *gvar) bool { return v.t == TSliceStr }); v != nil {
					g.mayPanic--
					return &GExpr{K: "ix", Args: []*GExpr{v, g.indexExpr(depth - 1)}, T: TStr}
				}
			}
		case 5:
			if mode == 'c' {
				if c := g.callExpr([]GType{TStr}, depth); c != nil {
					return c
				}
			}
		}
		return g.expr(TStr, 0, mode)
	default: // slices
		et := t.Elem()
		switch r.Intn(6) {
		case 0, 1:
			if e := valueVar(t); e != nil {
				return e
			}
		case 2:
			if v := useVar(func(v *gvar) bool { return v.t == t }); v != nil {
				return &GExpr{K: "cpy", Args: []*GExpr{v}, T: t}
			}
		case 3:
			if mode == 'c' {
				if c := g.callExpr([]GType{t}, depth); c != nil {
					return c
				}
			}
		case 4:
			base := g.sliceLit(t, depth-1, mode)
			n := 1 + r.Intn(2)
			args := []*GExpr{base}
			for i := 0; i < n; i++ {
				args = append(args, g.expr(et, depth-1, mode))
			}
			return &GExpr{K: "app", Args: args, T: t}
		}
		return g.sliceLit(t, depth-1, mode)
	}
}

func (g *ggen) sliceLit(t GType, depth int, mode byte) *GExpr {
	n := g.r.Intn(5)
	e := &GExpr{K: "sl", T: t}
	for i := 0; i < n; i++ {
		e.Args = append(e.Args, g.expr(t.Elem(), depth, mode))
	}
	return e
}

// indexExpr: mostly in range for short slices, sometimes out of range / negative at run time.
func (g *ggen) indexExpr(depth int) *GExpr {
	r := g.r
	switch r.Intn(6) {
	case 0, 1, 2:
		return lit(int64(r.Intn(3)))
	case 3:
		if v := g.pickVar(func(v *gvar) bool { return v.t == TInt }); v != nil {
			v.used = true
			return &GExpr{K: "var", S: v.name, T: TInt}
		}
	case 4:
		a := g.expr(TInt, depth, 'p')
		if !isConst(a) {
			return a
		}
	}
	return lit(int64(r.Intn(5)))
}

func (g *ggen) callExpr(res []GType, depth int) *GExpr {
	var cands []*GFunc
	for _, f := range g.funcs {
		if len(f.Res) == len(res) {
			ok := true
			for i := range res {
				if f.Res[i] != res[i] {
					ok = false
				}
			}
			if ok {
				cands = append(cands, f)
			}
		}
	}
	if len(cands) == 0 {
		return nil
	}
	f := cands[g.r.Intn(len(cands))]
	return g.callOf(f, depth)
}

func (g *ggen) callOf(f *GFunc, depth int) *GExpr {
	e := &GExpr{K: "call", S: f.Name}
	if len(f.Res) == 1 {
		e.T = f.Res[0]
	}
	for i, pt := range f.PTypes {
		a := g.expr(pt, depth-1, 'c')
		if i == 0 && strings.HasPrefix(f.Name, "rec") {
			// bounded recursion depth: first argument in -6..6
			if isConst(a) {
				a = lit(int64(g.r.Intn(7)))
			} else {
				a = &GExpr{K: "bin", Op: "mod", T: TInt, Args: []*GExpr{a, lit(7)}}
			}
		}
		e.Args = append(e.Args, a)
	}
	g.stats["calls"]++
	return e
}

func (g *ggen) mode() byte {
	g.mayPanic = 1
	if len(g.funcs) > 0 && g.r.Chance(40) {
		return 'c'
	}
	return 'p'
}

// pmode: panic mode for one statement-level expression (one may-panic operation at most).
func (g *ggen) pmode() byte {
	g.mayPanic = 1
	return 'p'
}

func (g *ggen) block(depth int, n int) []*GStmt {
	g.push()
	var out []*GStmt
	for i := 0; i < n && g.budget > 0; i++ {
		s := g.stmt(depth)
		if s != nil {
			out = append(out, s...)
			if k := s[len(s)-1].K; k == "brk" || k == "cnt" || k == "ret" {
				break
			}
		}
	}
	tail := g.pop()
	if len(out) > 0 {
		if k := out[len(out)-1].K; k == "brk" || k == "cnt" || k == "ret" {
			// keep the terminating statement last
			last := out[len(out)-1]
			out = append(append(out[:len(out)-1:len(out)-1], tail...), last)
			return out
		}
	}
	return append(out, tail...)
}

func (g *ggen) newVar(t GType, prefix string) *gvar {
	return &gvar{name: g.fresh(prefix), t: t}
}

func (g *ggen) randType() GType {
	return []GType{TInt, TInt, TInt, TStr, TBool, TSliceInt, TSliceInt, TSliceStr}[g.r.Intn(8)]
}

func isFresh(e *GExpr) bool { return e.K == "sl" || e.K == "cpy" || e.K == "app" }

func (g *ggen) stmt(depth int) []*GStmt {
	r := g.r
	g.budget--
	one := func(s *GStmt) []*GStmt { g.stats["st_"+s.K]++; return []*GStmt{s} }
	for tries := 0; tries < 6; tries++ {
		switch r.Intn(24) {
		case 0, 1, 2: // define
			t := g.randType()
			m := g.mode()
			e := g.expr(t, 2, m)
			v := g.newVar(t, []string{"n", "b", "s", "xs", "ws"}[t])
			if sn := g.shadowName(); sn != "" {
				v.name = sn
			}
			if t.IsSlice() && isFresh(e) && r.Chance(65) {
				v.mut = true
			}
			g.declare(v)
			return one(&GStmt{K: "def", Names: []string{v.name}, Es: []*GExpr{e}})
		case 3, 4: // assign
			v := g.pickVar(func(v *gvar) bool { return !v.readonly && !(v.t.IsSlice() && (v.mut || v.frozen > 0)) })
			if v == nil {
				continue
			}
			return one(&GStmt{K: "asg", LHS: []*GLHS{{Name: v.name}}, Es: []*GExpr{g.expr(v.t, 2, g.mode())}})
		case 5: // op-assign
			v := g.pickVar(func(v *gvar) bool { return !v.readonly && (v.t == TInt || v.t == TStr) })
			if v == nil {
				continue
			}
			if v.t == TStr {
				return one(&GStmt{K: "opa", LHS: []*GLHS{{Name: v.name}}, Op: "add", Es: []*GExpr{g.expr(TStr, 1, g.mode())}})
			}
			op := []string{"add", "sub", "mul", "div", "mod"}[r.Intn(5)]
			var e *GExpr
			if op == "div" || op == "mod" {
				e = lit(int64(1 + r.Intn(5)))
			} else {
				e = g.expr(TInt, 1, g.mode())
			}
			return one(&GStmt{K: "opa", LHS: []*GLHS{{Name: v.name}}, Op: op, Es: []*GExpr{e}})
		case 6: // inc/dec
			v := g.pickVar(func(v *gvar) bool { return !v.readonly && v.t == TInt })
			if v == nil {
				continue
			}
			return one(&GStmt{K: []string{"inc", "dec"}[r.Intn(2)], LHS: []*GLHS{{Name: v.name}}})
		case 7: // element assignment / op-assign on a mutable slice
			v := g.pickVar(func(v *gvar) bool { return v.t.IsSlice() && v.mut && v.frozen == 0 })
			if v == nil {
				continue
			}
			v.used = true
			if v.t == TSliceInt && r.Chance(30) {
				var e *GExpr = lit(int64(1 + r.Intn(9)))
				g.mayPanic = 0
				return one(&GStmt{K: "opa", LHS: []*GLHS{{Name: v.name, Idx: g.indexExpr(1)}}, Op: []string{"add", "sub", "mul"}[r.Intn(3)], Es: []*GExpr{e}})
			}
			g.mayPanic = 0 // the indexed left-hand side is the one operation that may panic
			return one(&GStmt{K: "asg", LHS: []*GLHS{{Name: v.name, Idx: g.indexExpr(1)}}, Es: []*GExpr{g.expr(v.t.Elem(), 1, 'p')}})
		case 8: // self-append
			v := g.pickVar(func(v *gvar) bool { return v.t.IsSlice() && v.mut && v.frozen == 0 })
			if v == nil {
				continue
			}
			m := g.mode()
			args := []*GExpr{{K: "var", S: v.name, T: v.t}}
			for i := 0; i <= r.Intn(3); i++ {
				args = append(args, g.expr(v.t.Elem(), 1, m))
			}
			return one(&GStmt{K: "asg", LHS: []*GLHS{{Name: v.name}}, Es: []*GExpr{{K: "app", Args: args, T: v.t}}})
		case 9: // parallel assignment
			a := g.pickVar(func(v *gvar) bool { return !v.readonly && !v.t.IsSlice() })
			if a == nil {
				continue
			}
			b := g.pickVar(func(v *gvar) bool { return !v.readonly && v.t == a.t && v != a })
			if b == nil {
				continue
			}
			m := g.mode()
			if r.Bool() {
				a.used, b.used = true, true
				return one(&GStmt{K: "asg", LHS: []*GLHS{{Name: a.name}, {Name: b.name}}, Es: []*GExpr{{K: "var", S: b.name, T: b.t}, {K: "var", S: a.name, T: a.t}}})
			}
			return one(&GStmt{K: "asg", LHS: []*GLHS{{Name: a.name}, {Name: b.name}}, Es: []*GExpr{g.expr(a.t, 1, m), g.expr(b.t, 1, m)}})
		case 10: // multi-value call
			var cands []*GFunc
			for _, f := range g.funcs {
				if len(f.Res) >= 2 {
					cands = append(cands, f)
				}
			}
			if len(cands) == 0 {
				continue
			}
			f := cands[r.Intn(len(cands))]
			call := g.callOf(f, 2)
			s := &GStmt{K: "def", Es: []*GExpr{call}}
			for _, rt := range f.Res {
				if r.Chance(15) {
					s.Names = append(s.Names, "_")
					continue
				}
				v := g.newVar(rt, "r")
				g.declare(v)
				s.Names = append(s.Names, v.name)
			}
			allBlank := true
			for _, n := range s.Names {
				if n != "_" {
					allBlank = false
				}
			}
			if allBlank {
				s.K = "asg"
				for range s.Names {
					s.LHS = append(s.LHS, &GLHS{Name: "_"})
				}
				s.Names = nil
			}
			return one(s)
		case 11, 12, 13: // println
			m := g.mode()
			n := 1 + r.Intn(4)
			s := &GStmt{K: "pln"}
			for i := 0; i < n; i++ {
				t := g.randType()
				if t.IsSlice() && r.Chance(60) {
					if v := g.pickVar(func(v *gvar) bool { return v.t == t }); v != nil {
						v.used = true
						s.Es = append(s.Es, &GExpr{K: "var", S: v.name, T: t})
						continue
					}
				}
				s.Es = append(s.Es, g.expr(t, 2, m))
			}
			return one(s)
		case 14: // call statement
			if len(g.funcs) == 0 {
				continue
			}
			f := g.funcs[r.Intn(len(g.funcs))]
			c := g.callOf(f, 2)
			return one(&GStmt{K: "xcall", F: f.Name, Es: c.Args})
		case 15, 16: // if
			if depth <= 0 {
				continue
			}
			s := &GStmt{K: "if"}
			g.push() // scope of the init statement
			if r.Chance(25) {
				t := []GType{TInt, TStr}[r.Intn(2)]
				v := g.newVar(t, "t")
				e := g.expr(t, 1, g.mode())
				g.declare(v)
				s.Init = &GStmt{K: "def", Names: []string{v.name}, Es: []*GExpr{e}}
			}
			s.Cond = g.expr(TBool, 2, g.mode())
			s.Body = g.block(depth-1, 1+r.Intn(3))
			if r.Chance(50) {
				if r.Chance(30) && depth > 1 {
					// else-if chain
					inner := g.stmtIf(depth - 1)
					s.Else = []*GStmt{inner}
				} else {
					s.Else = g.block(depth-1, 1+r.Intn(2))
				}
			}
			tail := g.pop()
			if len(tail) > 0 {
				// the init variable was never read: read it in the condition
				v := s.Init.Names[0]
				s.Cond = &GExpr{K: "bin", Op: "lor", T: TBool, Args: []*GExpr{s.Cond,
					{K: "bin", Op: "ne", T: TBool, Args: []*GExpr{{K: "var", S: v, T: s.Init.Es[0].T}, {K: "var", S: v, T: s.Init.Es[0].T}}}}}
			}
			return one(s)
		case 17: // 3-clause for
			if depth <= 0 || g.loops >= 2 {
				continue
			}
			g.push()
			iv := g.newVar(TInt, "i")
			iv.readonly = true
			iv.used = true
			g.declare(iv)
			bound := lit(int64(1 + r.Intn(5)))
			s := &GStmt{K: "for",
				Init: &GStmt{K: "def", Names: []string{iv.name}, Es: []*GExpr{lit(int64(r.Intn(2)))}},
				Cond: &GExpr{K: "bin", Op: "lt", T: TBool, Args: []*GExpr{{K: "var", S: iv.name, T: TInt}, bound}},
				Post: &GStmt{K: "inc", LHS: []*GLHS{{Name: iv.name}}}}
			if r.Chance(20) {
				s.Post = &GStmt{K: "opa", LHS: []*GLHS{{Name: iv.name}}, Op: "add", Es: []*GExpr{lit(2)}}
			}
			g.loops++
			s.Body = g.block(depth-1, 1+r.Intn(3))
			g.loops--
			g.pop()
			return one(s)
		case 18: // while-style / bare for with a counter
			if depth <= 0 || g.loops >= 2 {
				continue
			}
			cv := g.newVar(TInt, "c")
			cv.readonly = true
			cv.used = true
			g.declare(cv)
			def := &GStmt{K: "def", Names: []string{cv.name}, Es: []*GExpr{lit(int64(1 + r.Intn(4)))}}
			dec := &GStmt{K: "dec", LHS: []*GLHS{{Name: cv.name}}}
			s := &GStmt{K: "for"}
			g.loops++
			if r.Bool() {
				s.Cond = &GExpr{K: "bin", Op: "gt", T: TBool, Args: []*GExpr{{K: "var", S: cv.name, T: TInt}, lit(0)}}
				s.Body = append([]*GStmt{dec}, g.block(depth-1, 1+r.Intn(3))...)
			} else {
				// for { if c <= 0 { break }; c--; … }
				brk := &GStmt{K: "if", Cond: &GExpr{K: "bin", Op: "le", T: TBool, Args: []*GExpr{{K: "var", S: cv.name, T: TInt}, lit(0)}}, Body: []*GStmt{{K: "brk"}}}
				s.Body = append([]*GStmt{brk, dec}, g.block(depth-1, 1+r.Intn(3))...)
			}
			g.loops--
			g.stats["st_for"]++
			return []*GStmt{def, s}
		case 19: // range
			if depth <= 0 || g.loops >= 2 {
				continue
			}
			t := []GType{TSliceInt, TSliceStr}[r.Intn(2)]
			var e *GExpr
			var fv *gvar
			if v := g.pickVar(func(v *gvar) bool { return v.t == t }); v != nil && r.Chance(70) {
				v.used = true
				fv = v
				e = &GExpr{K: "var", S: v.name, T: t}
			} else {
				e = g.sliceLit(t, 1, g.mode())
			}
			g.push()
			kv, vv := g.newVar(TInt, "k"), g.newVar(t.Elem(), "v")
			kv.readonly, vv.readonly = true, true
			g.declare(kv)
			g.declare(vv)
			if fv != nil {
				fv.frozen++
			}
			g.loops++
			body := g.block(depth-1, 1+r.Intn(3))
			g.loops--
			if fv != nil {
				fv.frozen--
			}
			s := &GStmt{K: "rng", Names: []string{kv.name, vv.name}, Es: []*GExpr{e}}
			if !vv.used {
				s.Names[1] = "_"
				vv.used = true
			}
			if !kv.used {
				if s.Names[1] != "_" {
					s.Names[0] = "_"
				} else {
					body = append([]*GStmt{{K: "asg", LHS: []*GLHS{{Name: "_"}}, Es: []*GExpr{{K: "var", S: kv.name, T: TInt}}}}, body...)
				}
				kv.used = true
			}
			g.pop()
			s.Body = body
			return one(s)
		case 20: // switch
			if depth <= 0 {
				continue
			}
			s := &GStmt{K: "sw"}
			g.push()
			tagged := r.Chance(65)
			tt := []GType{TInt, TInt, TStr}[r.Intn(3)]
			if tagged {
				s.Cond = g.expr(tt, 2, g.mode())
			}
			nc := 1 + r.Intn(3)
			usedI := map[int64]bool{}
			usedS := map[string]bool{}
			for i := 0; i < nc; i++ {
				var c GCase
				ne := 1 + r.Intn(2)
				for j := 0; j < ne; j++ {
					if !tagged {
						c.Es = append(c.Es, g.expr(TBool, 2, g.pmode()))
						if isConst(c.Es[len(c.Es)-1]) { // constant bool cases may duplicate
							c.Es[len(c.Es)-1] = &GExpr{K: "bin", Op: "eq", T: TBool, Args: []*GExpr{g.exprNonConst(TInt), lit(int64(r.Intn(5)))}}
						}
						continue
					}
					if tt == TInt {
						k := int64(r.Intn(8))
						for usedI[k] {
							k++
						}
						usedI[k] = true
						c.Es = append(c.Es, lit(k))
					} else {
						k := strPool[r.Intn(len(strPool))]
						for usedS[k] {
							k += "z"
						}
						usedS[k] = true
						c.Es = append(c.Es, &GExpr{K: "str", S: k, T: TStr})
					}
				}
				c.Body = g.block(depth-1, 1+r.Intn(2))
				s.Cases = append(s.Cases, c)
			}
			if r.Chance(60) {
				s.HasDfl = true
				s.Dflt = g.block(depth-1, 1+r.Intn(2))
				s.DflPos = r.Intn(nc + 1)
			}
			g.pop()
			return one(s)
		case 21: // break / continue (only directly usable inside loops, not through a func literal)
			if g.loops == 0 || g.inBlk > 0 {
				continue
			}
			body := []*GStmt{{K: []string{"brk", "cnt"}[r.Intn(2)]}}
			return one(&GStmt{K: "if", Cond: g.expr(TBool, 2, g.pmode()), Body: body})
		case 22: // closure as block
			if depth <= 0 {
				continue
			}
			saveLoops := g.loops
			g.loops = 0
			g.inBlk++
			var early *GStmt
			if r.Chance(30) {
				// early return from the literal (generated before the body: outer names only)
				early = &GStmt{K: "if", Cond: g.expr(TBool, 2, g.pmode()), Body: []*GStmt{{K: "ret"}}}
			}
			body := g.block(depth-1, 1+r.Intn(3))
			if early != nil {
				body = append([]*GStmt{early}, body...)
			}
			g.inBlk--
			g.loops = saveLoops
			return one(&GStmt{K: "blk", Body: body})
		case 23: // panic / exit / early return, guarded
			cond := g.expr(TBool, 2, g.pmode())
			var inner *GStmt
			switch r.Intn(6) {
			case 0:
				inner = &GStmt{K: "pan", Es: []*GExpr{g.expr([]GType{TStr, TInt, TBool}[r.Intn(3)], 1, g.pmode())}}
			case 1:
				inner = &GStmt{K: "exit", Es: []*GExpr{lit(int64(r.Intn(100)))}}
			default:
				if g.inBlk > 0 {
					inner = &GStmt{K: "ret"}
				} else {
					inner = g.retStmt()
				}
			}
			return one(&GStmt{K: "if", Cond: cond, Body: []*GStmt{inner}})
		}
	}
	g.budget++
	return nil
}

func (g *ggen) exprNonConst(t GType) *GExpr {
	if v := g.pickVar(func(v *gvar) bool { return v.t == t && !(t.IsSlice() && v.mut) }); v != nil {
		v.used = true
		return &GExpr{K: "var", S: v.name, T: t}
	}
	return &GExpr{K: "len", T: TInt, Args: []*GExpr{{K: "sl", T: TSliceInt, Args: []*GExpr{lit(1)}}}}
}

func (g *ggen) stmtIf(depth int) *GStmt {
	s := &GStmt{K: "if", Cond: g.expr(TBool, 2, g.mode())}
	s.Body = g.block(depth-1, 1+g.r.Intn(2))
	if g.r.Bool() {
		s.Else = g.block(depth-1, 1+g.r.Intn(2))
	}
	return s
}

func (g *ggen) retStmt() *GStmt {
	s := &GStmt{K: "ret"}
	if g.inFunc != nil {
		m := g.mode()
		for _, t := range g.inFunc.Res {
			s.Es = append(s.Es, g.expr(t, 2, m))
		}
	}
	return s
}

func (g *ggen) genFunc(name string, isMain bool) *GFunc {
	r := g.r
	f := &GFunc{Name: name}
	g.scopes = nil
	g.push()
	if !isMain {
		np := r.Intn(4)
		for i := 0; i < np; i++ {
			t := g.randType()
			v := g.newVar(t, "p")
			g.declare(v)
			f.Params = append(f.Params, v.name)
			f.PTypes = append(f.PTypes, t)
		}
		nr := []int{0, 1, 1, 1, 2, 2, 3}[r.Intn(7)]
		for i := 0; i < nr; i++ {
			f.Res = append(f.Res, g.randType())
		}
	}
	g.inFunc = f
	g.loops, g.inBlk = 0, 0
	n := 3 + r.Intn(6)
	if isMain {
		n = 6 + r.Intn(10)
	}
	g.budget = 14
	if isMain {
		g.budget = 40
	}
	var body []*GStmt
	for i := 0; i < n && g.budget > 0; i++ {
		s := g.stmt(3)
		if s != nil {
			body = append(body, s...)
		}
	}
	if len(f.Res) > 0 {
		body = append(body, g.retStmt())
	}
	// parameters count as used; unused locals get `_ = x`
	for _, v := range g.scopes[0] {
		for _, p := range f.Params {
			if v.name == p {
				v.used = true
			}
		}
	}
	tail := g.pop()
	if len(f.Res) > 0 && len(body) > 0 {
		last := body[len(body)-1]
		body = append(append(body[:len(body)-1:len(body)-1], tail...), last)
	} else {
		body = append(body, tail...)
	}
	f.Body = body
	return f
}

// recursive function template: bounded recursion on a decreasing argument.
func (g *ggen) genRec() *GFunc {
	name := g.fresh("rec")
	p, acc := g.fresh("p"), g.fresh("p")
	k := int64(1 + g.r.Intn(3))
	op := []string{"add", "mul", "sub"}[g.r.Intn(3)]
	v := func(n string) *GExpr { return &GExpr{K: "var", S: n, T: TInt} }
	f := &GFunc{Name: name, Params: []string{p, acc}, PTypes: []GType{TInt, TInt}, Res: []GType{TInt}}
	f.Body = []*GStmt{
		{K: "if", Cond: &GExpr{K: "bin", Op: "le", T: TBool, Args: []*GExpr{v(p), lit(0)}}, Body: []*GStmt{{K: "ret", Es: []*GExpr{v(acc)}}}},
		{K: "pln", Es: []*GExpr{{K: "str", S: name, T: TStr}, v(p), v(acc)}},
		{K: "ret", Es: []*GExpr{{K: "call", S: name, T: TInt, Args: []*GExpr{
			{K: "bin", Op: "sub", T: TInt, Args: []*GExpr{v(p), lit(k)}},
			{K: "bin", Op: op, T: TInt, Args: []*GExpr{v(acc), v(p)}}}}}},
	}
	return f
}

// GenGo generates one program of the modelled subset.
func GenGo(r *vh.Rand) (*GProg, map[string]int) {
	g := &ggen{r: r, stats: map[string]int{}}
	nf := r.Intn(4)
	for i := 0; i < nf; i++ {
		if r.Chance(20) {
			f := g.genRec()
			g.funcs = append(g.funcs, f)
			// calls to rec functions get small literal arguments via the generic path: mark by type only
			continue
		}
		f := g.genFunc(g.fresh("f"), false)
		g.funcs = append(g.funcs, f)
	}
	m := g.genFunc("main", true)
	p := &GProg{Funcs: append(append([]*GFunc{}, g.funcs...), m)}
	return p, g.stats
}

// ------------------------------------------------------------------------------ Lean encoding

func encE(b *strings.Builder, e *GExpr) {
	switch e.K {
	case "int":
		fmt.Fprintf(b, "i %d ", e.I)
	case "bool":
		if e.B {
			b.WriteString("b 1 ")
		} else {
			b.WriteString("b 0 ")
		}
	case "str":
		fmt.Fprintf(b, "s %s ", vh.HexS(e.S))
	case "var":
		fmt.Fprintf(b, "v %s ", e.S)
	case "bin":
		fmt.Fprintf(b, "bin %s ", e.Op)
		encE(b, e.Args[0])
		encE(b, e.Args[1])
	case "un":
		fmt.Fprintf(b, "un %s ", e.Op)
		encE(b, e.Args[0])
	case "call":
		fmt.Fprintf(b, "call %s %d ", e.S, len(e.Args))
		for _, a := range e.Args {
			encE(b, a)
		}
	case "len", "cpy", "spr":
		b.WriteString(e.K + " ")
		encE(b, e.Args[0])
	case "ix":
		b.WriteString("ix ")
		encE(b, e.Args[0])
		encE(b, e.Args[1])
	case "sl":
		fmt.Fprintf(b, "sl %d ", len(e.Args))
		for _, a := range e.Args {
			encE(b, a)
		}
	case "app":
		b.WriteString("app ")
		encE(b, e.Args[0])
		fmt.Fprintf(b, "%d ", len(e.Args)-1)
		for _, a := range e.Args[1:] {
			encE(b, a)
		}
	}
}

func encL(b *strings.Builder, l *GLHS) {
	if l.Idx == nil {
		fmt.Fprintf(b, "lv %s ", l.Name)
	} else {
		fmt.Fprintf(b, "li %s ", l.Name)
		encE(b, l.Idx)
	}
}

func encEs(b *strings.Builder, es []*GExpr) {
	fmt.Fprintf(b, "%d ", len(es))
	for _, e := range es {
		encE(b, e)
	}
}

func encB(b *strings.Builder, ss []*GStmt) {
	fmt.Fprintf(b, "%d ", len(ss))
	for _, s := range ss {
		encS(b, s)
	}
}

func encOS(b *strings.Builder, s *GStmt) {
	if s == nil {
		b.WriteString("none ")
	} else {
		b.WriteString("some ")
		encS(b, s)
	}
}

func encOE(b *strings.Builder, e *GExpr) {
	if e == nil {
		b.WriteString("none ")
	} else {
		b.WriteString("some ")
		encE(b, e)
	}
}

func encS(b *strings.Builder, s *GStmt) {
	switch s.K {
	case "def":
		fmt.Fprintf(b, "def %d ", len(s.Names))
		for _, n := range s.Names {
			b.WriteString(n + " ")
		}
		encEs(b, s.Es)
	case "asg":
		fmt.Fprintf(b, "asg %d ", len(s.LHS))
		for _, l := range s.LHS {
			encL(b, l)
		}
		encEs(b, s.Es)
	case "opa":
		b.WriteString("opa ")
		encL(b, s.LHS[0])
		b.WriteString(s.Op + " ")
		encE(b, s.Es[0])
	case "inc", "dec":
		b.WriteString(s.K + " ")
		encL(b, s.LHS[0])
	case "pln":
		b.WriteString("pln ")
		encEs(b, s.Es)
	case "xcall":
		fmt.Fprintf(b, "xcall %s ", s.F)
		encEs(b, s.Es)
	case "if":
		b.WriteString("if ")
		encOS(b, s.Init)
		encE(b, s.Cond)
		encB(b, s.Body)
		encB(b, s.Else)
	case "for":
		b.WriteString("for ")
		encOS(b, s.Init)
		encOE(b, s.Cond)
		encOS(b, s.Post)
		encB(b, s.Body)
	case "rng":
		fmt.Fprintf(b, "rng %s %s ", s.Names[0], s.Names[1])
		encE(b, s.Es[0])
		encB(b, s.Body)
	case "sw":
		b.WriteString("sw ")
		encOS(b, s.Init)
		encOE(b, s.Cond)
		fmt.Fprintf(b, "%d ", len(s.Cases))
		for _, c := range s.Cases {
			encEs(b, c.Es)
			encB(b, c.Body)
		}
		if s.HasDfl {
			b.WriteString("some ")
			encB(b, s.Dflt)
		} else {
			b.WriteString("none ")
		}
	case "brk", "cnt":
		b.WriteString(s.K + " ")
	case "ret":
		b.WriteString("ret ")
		encEs(b, s.Es)
	case "blk":
		b.WriteString("blk ")
		encB(b, s.Body)
	case "pan", "exit":
		b.WriteString(s.K + " ")
		encE(b, s.Es[0])
	}
}

// Encode returns the driver encoding of the program.
func (p *GProg) Encode() string {
	var b strings.Builder
	fmt.Fprintf(&b, "%d ", len(p.Funcs))
	for _, f := range p.Funcs {
		fmt.Fprintf(&b, "fn %s %d ", f.Name, len(f.Params))
		for _, x := range f.Params {
			b.WriteString(x + " ")
		}
		fmt.Fprintf(&b, "%d ", len(f.Res))
		encB(&b, f.Body)
	}
	return strings.TrimSpace(b.String())
}

// ------------------------------------------------------------------------------ printing

type gprinter struct {
	r   *vh.Rand // nil: canonical layout
	b   strings.Builder
	imp map[string]bool
}

var goOps = map[string]string{"add": "+", "sub": "-", "mul": "*", "div": "/", "mod": "%", "eq": "==", "ne": "!=",
	"lt": "<", "le": "<=", "gt": ">", "ge": ">=", "land": "&&", "lor": "||"}

var goPrec = map[string]int{"mul": 5, "div": 5, "mod": 5, "add": 4, "sub": 4, "eq": 3, "ne": 3, "lt": 3, "le": 3, "gt": 3, "ge": 3, "land": 2, "lor": 1}

func (p *gprinter) chance(n int) bool { return p.r != nil && p.r.Chance(n) }

func (p *gprinter) expr(e *GExpr, prec int) string {
	s := p.expr0(e, prec)
	if p.chance(6) {
		return "(" + s + ")"
	}
	return s
}

func (p *gprinter) expr0(e *GExpr, prec int) string {
	switch e.K {
	case "int":
		if e.I < 0 {
			if prec > 5 {
				return "(" + strconv.FormatInt(e.I, 10) + ")"
			}
			return strconv.FormatInt(e.I, 10)
		}
		if p.chance(5) && e.I < 256 {
			return fmt.Sprintf("0x%x", e.I)
		}
		return strconv.FormatInt(e.I, 10)
	case "bool":
		return strconv.FormatBool(e.B)
	case "str":
		if p.chance(25) && !strings.ContainsAny(e.S, "`\r") {
			return "`" + e.S + "`"
		}
		return strconv.Quote(e.S)
	case "var":
		return e.S
	case "bin":
		pr := goPrec[e.Op]
		sp := " "
		if p.chance(15) && pr >= 4 {
			sp = ""
		}
		a := p.expr(e.Args[0], pr)
		b := p.expr(e.Args[1], pr+1)
		if sp == "" && (strings.HasPrefix(b, "-") || strings.HasPrefix(b, "+") || strings.HasPrefix(b, "&") || strings.HasPrefix(b, "*")) {
			sp = " "
		}
		s := a + sp + goOps[e.Op] + sp + b
		if pr < prec {
			return "(" + s + ")"
		}
		return s
	case "un":
		a := p.expr(e.Args[0], 6)
		if e.Op == "neg" {
			if strings.HasPrefix(a, "-") {
				a = "(" + a + ")"
			}
			return "-" + a
		}
		return "!" + a
	case "call":
		return e.S + "(" + p.exprs(e.Args) + ")"
	case "len":
		return "len(" + p.expr(e.Args[0], 0) + ")"
	case "spr":
		p.imp["fmt"] = true
		return "fmt.Sprint(" + p.expr(e.Args[0], 0) + ")"
	case "cpy":
		return "append(" + e.T.String() + "{}, " + p.expr(e.Args[0], 0) + "...)"
	case "ix":
		return p.expr(e.Args[0], 7) + "[" + p.expr(e.Args[1], 0) + "]"
	case "sl":
		return e.T.String() + "{" + p.exprs(e.Args) + "}"
	case "app":
		return "append(" + p.exprs(e.Args) + ")"
	}
	return "?"
}

func (p *gprinter) exprs(es []*GExpr) string {
	ss := make([]string, len(es))
	for i, e := range es {
		ss[i] = p.expr(e, 0)
	}
	sep := ", "
	if p.chance(10) {
		sep = ","
	}
	return strings.Join(ss, sep)
}

func (p *gprinter) lhs(l *GLHS) string {
	if l.Idx == nil {
		return l.Name
	}
	return l.Name + "[" + p.expr(l.Idx, 0) + "]"
}

func (p *gprinter) simple(s *GStmt) string {
	switch s.K {
	case "def":
		return strings.Join(s.Names, ", ") + " := " + p.exprs(s.Es)
	case "asg":
		ls := make([]string, len(s.LHS))
		for i, l := range s.LHS {
			ls[i] = p.lhs(l)
		}
		return strings.Join(ls, ", ") + " = " + p.exprs(s.Es)
	case "opa":
		return p.lhs(s.LHS[0]) + " " + goOps[s.Op] + "= " + p.expr(s.Es[0], 0)
	case "inc":
		return p.lhs(s.LHS[0]) + "++"
	case "dec":
		return p.lhs(s.LHS[0]) + "--"
	}
	return "?"
}

func (p *gprinter) ind(n int) string { return strings.Repeat("\t", n) }

func (p *gprinter) block(ss []*GStmt, n int) {
	for _, s := range ss {
		p.stmt(s, n)
	}
}

func (p *gprinter) line(n int, s string) {
	if p.chance(6) {
		p.b.WriteString("\n")
	}
	if p.chance(5) {
		p.b.WriteString(p.ind(n) + "// note " + strconv.Itoa(n) + "\n")
	}
	p.b.WriteString(p.ind(n) + s)
	if p.chance(4) {
		p.b.WriteString(" /* c */")
	}
	if p.chance(4) {
		p.b.WriteString(" // t")
	}
	p.b.WriteString("\n")
}

func (p *gprinter) stmt(s *GStmt, n int) {
	switch s.K {
	case "def", "asg", "opa", "inc", "dec":
		p.line(n, p.simple(s))
	case "pln":
		p.imp["fmt"] = true
		p.line(n, "fmt.Println("+p.exprs(s.Es)+")")
	case "xcall":
		p.line(n, s.F+"("+p.exprs(s.Es)+")")
	case "if":
		p.ifStmt(s, n, "")
	case "for":
		h := "for "
		switch {
		case s.Init != nil || s.Post != nil:
			h += p.simple(s.Init) + "; " + p.expr(s.Cond, 0) + "; " + p.simple(s.Post) + " "
		case s.Cond != nil:
			h += p.expr(s.Cond, 0) + " "
		}
		p.line(n, h+"{")
		p.block(s.Body, n+1)
		p.line(n, "}")
	case "rng":
		k, v := s.Names[0], s.Names[1]
		h := "for " + k + ", " + v + " := range "
		if v == "_" && (p.r == nil || p.r.Bool()) {
			h = "for " + k + " := range "
		}
		p.line(n, h+p.expr(s.Es[0], 0)+" {")
		p.block(s.Body, n+1)
		p.line(n, "}")
	case "sw":
		h := "switch "
		if s.Cond != nil {
			h += p.expr(s.Cond, 0) + " "
		}
		p.line(n, h+"{")
		for i := 0; i <= len(s.Cases); i++ {
			if s.HasDfl && s.DflPos == i {
				p.line(n, "default:")
				p.block(s.Dflt, n+1)
			}
			if i < len(s.Cases) {
				p.line(n, "case "+p.exprs(s.Cases[i].Es)+":")
				p.block(s.Cases[i].Body, n+1)
			}
		}
		p.line(n, "}")
	case "brk":
		p.line(n, "break")
	case "cnt":
		p.line(n, "continue")
	case "ret":
		if len(s.Es) == 0 {
			p.line(n, "return")
		} else {
			p.line(n, "return "+p.exprs(s.Es))
		}
	case "blk":
		p.line(n, "func() {")
		p.block(s.Body, n+1)
		p.line(n, "}()")
	case "pan":
		p.line(n, "panic("+p.expr(s.Es[0], 0)+")")
	case "exit":
		p.imp["os"] = true
		p.line(n, "os.Exit("+p.expr(s.Es[0], 0)+")")
	}
}

func (p *gprinter) ifStmt(s *GStmt, n int, prefix string) {
	h := prefix + "if "
	if s.Init != nil {
		h += p.simple(s.Init) + "; "
	}
	h += p.expr(s.Cond, 0) + " {"
	if prefix == "" {
		p.line(n, h)
	} else {
		p.b.WriteString(p.ind(n) + h + "\n")
	}
	p.block(s.Body, n+1)
	if len(s.Else) == 0 {
		p.line(n, "}")
		return
	}
	if len(s.Else) == 1 && s.Else[0].K == "if" && s.Else[0].Init == nil {
		p.ifStmt(s.Else[0], n, "} else ")
		return
	}
	p.b.WriteString(p.ind(n) + "} else {\n")
	p.block(s.Else, n+1)
	p.line(n, "}")
}

// Print renders the program as Go source. r == nil gives the canonical layout.
func (prog *GProg) Print(r *vh.Rand) string {
	p := &gprinter{r: r, imp: map[string]bool{}}
	for _, f := range prog.Funcs {
		ps := make([]string, len(f.Params))
		for i := range f.Params {
			ps[i] = f.Params[i] + " " + f.PTypes[i].String()
		}
		h := "func " + f.Name + "(" + strings.Join(ps, ", ") + ")"
		switch len(f.Res) {
		case 0:
		case 1:
			h += " " + f.Res[0].String()
		default:
			rs := make([]string, len(f.Res))
			for i, t := range f.Res {
				rs[i] = t.String()
			}
			h += " (" + strings.Join(rs, ", ") + ")"
		}
		p.b.WriteString(h + " {\n")
		p.block(f.Body, 1)
		p.b.WriteString("}\n\n")
	}
	var hdr strings.Builder
	hdr.WriteString("package main\n\n")
	var imps []string
	for im := range p.imp {
		imps = append(imps, im)
	}
	sortStrings(imps)
	switch {
	case len(imps) == 1 && (r == nil || r.Bool()):
		fmt.Fprintf(&hdr, "import %q\n\n", imps[0])
	case len(imps) > 0:
		hdr.WriteString("import (\n")
		for _, im := range imps {
			fmt.Fprintf(&hdr, "\t%q\n", im)
		}
		hdr.WriteString(")\n\n")
	}
	return hdr.String() + p.b.String()
}
