package scangen

import (
	"fmt"
	"regexp"

	"github.com/goplus/xgo/token"
)

// Span is the source extent [Pos, Stop) that a token's text occupies.
type Span struct{ Pos, Stop int }

// Violation of C15 observed on the implementation's output.
type Violation struct{ Key, Detail string }

// matchCR matches lit against src starting at pos, allowing '\r' bytes of src that lit
// does not have ("carriage returns aside"); returns the end offset.
func matchCR(src []byte, pos int, lit string) (int, bool) {
	i, j := pos, 0
	for j < len(lit) {
		if i >= len(src) {
			return i, false
		}
		if src[i] == lit[j] {
			i++
			j++
		} else if src[i] == '\r' {
			i++
		} else {
			return i, false
		}
	}
	return i, true
}

var reDigits = regexp.MustCompile(`[0-9]+`)

func isWS(c byte) bool { return c == ' ' || c == '\t' || c == '\n' || c == '\r' }

// CheckC15 evaluates the statement of C15 on one output of the real XGo scanner.
//   - terminates with EOF (no panic, no hang), at most one source-text token per byte
//   - offsets inside the source and non-decreasing; source-text tokens strictly increasing
//     and non-overlapping
//   - identifier / keyword / literal / comment / operator text equals the source bytes at its
//     offset (CRs aside; c"…"/py"…": prefix + literal)
//   - comments on: every byte outside all tokens is space, tab, CR, LF or the BOM at offset 0
func CheckC15(src []byte, res Result, commentsOn bool) []Violation {
	var vs []Violation
	add := func(k, d string) { vs = append(vs, Violation{k, d}) }
	if res.Status == "panic" {
		add("panic:"+reDigits.ReplaceAllString(res.Panic, "N"), res.Panic)
		return vs
	}
	if res.Status != "done" {
		add("no-eof-within-bound", fmt.Sprint(len(res.Toks)))
		return vs
	}
	n := len(src)
	last := res.Toks[len(res.Toks)-1]
	if token.Token(last.Kind) != token.EOF || last.Pos != n {
		add("eof-position", fmt.Sprintf("%d:%d", last.Pos, last.Kind))
	}
	var spans []Span
	prevPos := 0
	srcToks := 0
	for idx, t := range res.Toks {
		if t.Pos < 0 || t.Pos > n {
			add("offset-outside-source", fmt.Sprintf("tok %d pos %d", idx, t.Pos))
			return vs
		}
		if t.Pos < prevPos {
			add("offset-decreases", fmt.Sprintf("tok %d pos %d after %d", idx, t.Pos, prevPos))
		}
		prevPos = t.Pos
		tok := token.Token(t.Kind)
		stop, ok, class := t.Pos, true, ""
		switch {
		case tok == token.EOF:
			continue
		case tok == token.SEMICOLON && t.Lit == "\n":
			continue // inserted: zero width (it may sit on a newline byte, which is white space)
		case tok == token.ILLEGAL:
			// not in the statement's list; its extent is the offending character
			w := len(t.Lit)
			if t.Lit == "�" && !(t.Pos+3 <= n && string(src[t.Pos:t.Pos+3]) == "�") {
				w = 1
			}
			stop = t.Pos + w
			if stop > n {
				ok, class = false, "illegal"
			}
		case tok == token.CSTRING:
			class = "cstring"
			if t.Pos < n && (src[t.Pos] == 'c' || src[t.Pos] == 'C') {
				stop, ok = matchCR(src, t.Pos+1, t.Lit)
			} else {
				ok = false
			}
		case tok == token.PYSTRING:
			class = "pystring"
			if t.Pos+2 <= n && string(src[t.Pos:t.Pos+2]) == "py" {
				stop, ok = matchCR(src, t.Pos+2, t.Lit)
			} else {
				ok = false
			}
		case tok == token.COMMENT:
			class = "comment"
			stop, ok = matchCR(src, t.Pos, t.Lit)
		case tok == token.STRING:
			class = "string"
			stop, ok = matchCR(src, t.Pos, t.Lit)
		case tok == token.UNIT || tok.IsLiteral():
			class = "literal"
			stop = t.Pos + len(t.Lit)
			ok = stop <= n && string(src[t.Pos:stop]) == t.Lit && len(t.Lit) > 0
		case tok.IsKeyword():
			class = "keyword"
			stop = t.Pos + len(t.Lit)
			ok = stop <= n && string(src[t.Pos:stop]) == t.Lit && t.Lit == tok.String()
		case tok == token.SEMICOLON:
			class = "operator"
			stop = t.Pos + 1
			ok = stop <= n && src[t.Pos] == ';' && t.Lit == ";"
		default: // operators and delimiters: the text is the token's spelling
			class = "operator"
			sp := tok.String()
			stop = t.Pos + len(sp)
			ok = tok.IsOperator() && stop <= n && string(src[t.Pos:stop]) == sp
		}
		if !ok {
			add("text-differs-from-source:"+class, fmt.Sprintf("tok %d pos %d kind %v lit %q", idx, t.Pos, tok, t.Lit))
			continue
		}
		if stop <= t.Pos {
			add("empty-token", fmt.Sprintf("tok %d pos %d kind %v", idx, t.Pos, tok))
		}
		if len(spans) > 0 && spans[len(spans)-1].Stop > t.Pos {
			add("tokens-overlap", fmt.Sprintf("tok %d pos %d previous ends %d", idx, t.Pos, spans[len(spans)-1].Stop))
		}
		spans = append(spans, Span{t.Pos, stop})
		srcToks++
	}
	if srcToks > n {
		add("more-tokens-than-bytes", fmt.Sprint(srcToks))
	}
	if commentsOn && len(vs) == 0 {
		covered := make([]bool, n)
		for _, s := range spans {
			for i := s.Pos; i < s.Stop && i < n; i++ {
				covered[i] = true
			}
		}
		for i := 0; i < n; i++ {
			if covered[i] || isWS(src[i]) {
				continue
			}
			if i < 3 && n >= 3 && string(src[:3]) == "\ufeff" {
				continue
			}
			add("byte-in-no-token", fmt.Sprintf("offset %d byte %#x", i, src[i]))
			break
		}
	}
	return vs
}
